SPECIFICATION Spec
CONSTANTS
  Inputs <- InputsQuick
  FInputs <- FInputsQuick
  DefaultRequired = TRUE
  JsonTimeoutDefault = TRUE
  EmptyHostRefused = TRUE
INVARIANT WeakHold
INVARIANT FactoryHold
INVARIANT StrongHold
CHECK_DEADLOCK FALSE
