------------------------------ MODULE Options ------------------------------
(***************************************************************************)
(* How Rally turns the option strings --target-hosts / --client-options    *)
(* into what the load driver uses (esrally/utils/opts.py: csv_to_list,     *)
(* kv_to_map, to_dict, TargetHosts, ClientOptions, with_max_connections;   *)
(* esrally/rally.py: configure_connection_params) and how                  *)
(* esrally/client/factory.py EsClientFactory.__init__ interprets the       *)
(* options of one cluster.                                                 *)
(*                                                                         *)
(* Function-like: Init chooses an input out of Inputs, Eval computes the   *)
(* result with Code (transcription of the code as it is; three named       *)
(* switches hold the places where the code departs from the documented     *)
(* behaviour).  The declarative statement is the clause set Weak \cup      *)
(* Strong (operator Holds).                                                *)
(*                                                                         *)
(* Abstract syntax.  A host item is [k, h, p, sch, v]: k "name" | "hp" |   *)
(* "empty"; h canonical (lower-case) host; p port; sch "none" | "http" |   *)
(* "https"; v spelling variant "plain" | "pad" | "upper" | "lz" | "inner"  *)
(* (blank after the colon) | "br6" ([h]) | "bare6" (IPv6 literal without   *)
(* brackets).  A target-hosts argument is [form, items, top, cl]: form     *)
(* "csv" | "json" | "file"; cl = sequence of [name, shape, hosts] (JSON    *)
(* members in textual order, duplicates possible), shape "list" | "str" |  *)
(* "null"; top "obj" | "list" | "num" (JSON value that is not an object).  *)
(* A value token is [c, txt, s, n]: c spelling class, txt the text, s / n  *)
(* the canonical value (string part / integer part).  A kv item is         *)
(* [k, key, tok, v], k "kv" | "empty" | "nocolon" | "twocolon".  A client- *)
(* options argument is [form, items, cl], cl = sequence of [name, opts],   *)
(* opts = sequence of [name, v] with v a typed value [t, s, n].            *)
(***************************************************************************)
EXTENDS Integers, Sequences, FiniteSets, TLC

CONSTANTS Inputs, FInputs,   \* inputs of part 1 / part 2 explored by the model checker
          DefaultRequired,      \* TRUE = documented ("there must be one default"); FALSE = code: not checked
          JsonTimeoutDefault,   \* TRUE = documented ("the default is timeout:60 for all cluster connections"); FALSE = code: csv form only
          EmptyHostRefused      \* TRUE = an empty item of the host list is refused; FALSE = code: a host None

VARIABLES in, res, done
vars == <<in, res, done>>

NoPort == -1
Max(a, b) == IF a >= b THEN a ELSE b
SeqToSet(s) == {s[i] : i \in 1..Len(s)}
Names(s) == {s[i].name : i \in 1..Len(s)}

Err(e) == [k |-> "err", exc |-> e, cl |-> <<>>]
Ok(cl) == [k |-> "ok", exc |-> "-", cl |-> cl]

(* a Python dict built from a sequence of members [name, v]: position of the first occurrence, value of the last one *)
Idx(s, nm) == IF \E i \in 1..Len(s) : s[i].name = nm THEN CHOOSE i \in 1..Len(s) : s[i].name = nm /\ \A j \in 1..(i - 1) : s[j].name # nm ELSE 0
RECURSIVE DictOf(_)
DictOf(s) ==
    IF s = <<>> THEN <<>>
    ELSE LET d == DictOf(SubSeq(s, 1, Len(s) - 1))
             e == s[Len(s)]
             i == Idx(d, e.name)
         IN IF i = 0 THEN Append(d, e) ELSE [d EXCEPT ![i] = e]
Get(d, nm) == d[Idx(d, nm)].v
Has(d, nm) == Idx(d, nm) # 0
LastOf(s, nm) == s[CHOOSE i \in 1..Len(s) : s[i].name = nm /\ \A j \in (i + 1)..Len(s) : s[j].name # nm]

(***************************** typed values ********************************)
IntVal(n) == [t |-> "int", s |-> "", n |-> n]
BoolVal(b) == [t |-> "bool", s |-> IF b THEN "true" ELSE "false", n |-> 0]
T60 == [name |-> "timeout", v |-> IntVal(60)]

(* kv_to_map.convert: which spelling becomes which type *)
TypeOf(c) ==
    CASE c \in {"int", "intlz", "intplus", "intus", "intneg"} -> "int"       \* 60 060 +60 1_000 -5
      [] c \in {"float", "floatexp", "floatword"} -> "float"                 \* 6.5 1e3 nan / inf
      [] c \in {"bool", "boolup"} -> "bool"                                  \* true True TRUE false ...
      [] c \in {"none", "noneup"} -> "none"                                  \* none None NONE
      [] c \in {"str", "qstr", "qnum", "qbool", "hex", "blank", "jsonname"} -> "str"     \* abc 'abc' '60' 'true' 0x10 (nothing) r.json
ValOf(tok) == [t |-> TypeOf(tok.c), s |-> tok.s, n |-> tok.n]

(***************************** --target-hosts ******************************)
EffItems(items) == IF Len(items) = 1 /\ items[1].k = "empty" THEN <<>> ELSE items   \* a blank argument is the empty list

ItemErr(it) ==
    \/ it.k # "empty" /\ it.v = "bare6"
    \/ it.k = "hp" /\ (it.v = "inner" \/ it.p > 65535 \/ it.p < 0)

Norm(it) ==
    IF it.k = "empty" THEN [host |-> "<None>", port |-> NoPort, ssl |-> FALSE]
    ELSE LET p0 == IF it.k = "hp" /\ it.p # 0 THEN it.p ELSE NoPort
             https == it.sch = "https"
         IN [host |-> it.h, port |-> IF https /\ p0 = NoPort THEN 443 ELSE p0, ssl |-> https]
AbsentHost == [host |-> "<absent>", port |-> NoPort, ssl |-> FALSE]

HostStrings(c) == IF c.shape = "null" THEN <<>> ELSE IF c.shape = "str" THEN SubSeq(c.hosts, 1, 1) ELSE c.hosts
NormCluster(c) == IF c.shape = "null" THEN <<AbsentHost>> ELSE [i \in 1..Len(HostStrings(c)) |-> Norm(HostStrings(c)[i])]

THMembers(a) ==   \* the JSON object after json.loads (csv: the single member "default")
    IF a.form = "csv" THEN <<[name |-> "default", shape |-> "list", hosts |-> EffItems(a.items)]>>
    ELSE DictOf(a.cl)

THParse(a) ==
    IF a.form # "csv" /\ a.top # "obj" THEN Err("AttributeError")
    ELSE LET m == THMembers(a)
             its == UNION {SeqToSet(HostStrings(m[i])) : i \in 1..Len(m)}
         IN IF \E it \in its : ItemErr(it) THEN Err("ValueError")
            ELSE IF EmptyHostRefused /\ \E it \in its : it.k = "empty" THEN Err("Refused")
            ELSE IF DefaultRequired /\ "default" \notin Names(m) THEN Err("Refused")
            ELSE Ok([i \in 1..Len(m) |-> [name |-> m[i].name, v |-> NormCluster(m[i])]])

(***************************** --client-options ****************************)
IsDefaultArg(a) ==   \* the argument is literally "timeout:60" (what argparse supplies when the option is absent)
    /\ a.form = "csv" /\ Len(a.items) = 1
    /\ a.items[1].k = "kv" /\ a.items[1].key = "timeout" /\ a.items[1].tok.txt = "60" /\ a.items[1].v = "plain"

(* to_dict: an argument whose text ENDS in ".json" is a file name - also a k:v list whose last value is an unquoted word like r.json *)
EndsJson(a) ==
    /\ a.form = "csv" /\ Len(a.items) > 0
    /\ LET l == a.items[Len(a.items)] IN l.k = "kv" /\ l.tok.c = "jsonname" /\ l.v = "plain"

COParse(a, th) ==
    IF EndsJson(a) THEN Err("FileNotFoundError")
    ELSE IF IsDefaultArg(a) THEN Ok([i \in 1..Len(th) |-> [name |-> th[i].name, v |-> <<T60>>]])
    ELSE IF a.form = "csv" THEN
        LET items == EffItems(a.items)
        IN IF \E i \in 1..Len(items) : items[i].k # "kv" THEN Err("ValueError")
           ELSE Ok(<<[name |-> "default", v |-> DictOf(<<T60>> \o [i \in 1..Len(items) |-> [name |-> items[i].key, v |-> ValOf(items[i].tok)]])]>>)
    ELSE LET m == DictOf(a.cl)
         IN Ok([i \in 1..Len(m) |-> [name |-> m[i].name, v |-> DictOf((IF JsonTimeoutDefault THEN <<T60>> ELSE <<>>) \o m[i].opts)]])

(* ClientOptions.with_max_connections(n) for the options of one cluster *)
MaxConn(opts, n) ==
    LET i == Idx(opts, "max_connections")
    IN IF i = 0 THEN Ok(Append(opts, [name |-> "max_connections", v |-> IntVal(Max(256, n))]))
       ELSE LET g == opts[i].v
            IN IF g.t = "int" THEN Ok([opts EXCEPT ![i].v = IntVal(Max(256, g.n))])
               ELSE IF g.t = "bool" THEN Ok([opts EXCEPT ![i].v = IntVal(256)])     \* a Python bool is an int
               ELSE IF g.t = "float" THEN Ok([opts EXCEPT ![i].v = IF g.n = 1 THEN g ELSE IntVal(256)])   \* n of a float: 1 iff it exceeds 256 (nan does not)
               ELSE Err("TypeError")
WithMaxConn(co, n) ==
    IF \E i \in 1..Len(co) : MaxConn(co[i].v, n).k = "err" THEN Err("TypeError")
    ELSE Ok([i \in 1..Len(co) |-> [name |-> co[i].name, v |-> MaxConn(co[i].v, n).cl]])

Static(co) ==   \* ClientOptions.uses_static_responses
    IF ~Has(co, "default") THEN [t |-> "err", s |-> "KeyError", n |-> 0]
    ELSE IF Has(Get(co, "default"), "static_responses") THEN Get(Get(co, "default"), "static_responses") ELSE BoolVal(FALSE)

NoRes == [stage |-> "-", exc |-> "-", th |-> <<>>, co |-> <<>>, mc |-> Err("-"), static |-> BoolVal(FALSE), mut |-> FALSE]

(* rally.configure_connection_params followed by with_max_connections(n) / uses_static_responses *)
Code(a) ==
    LET th == THParse(a.th)
    IN IF th.k = "err" THEN [NoRes EXCEPT !.stage = "th", !.exc = th.exc]
       ELSE LET co == COParse(a.co, th.cl)
            IN IF co.k = "err" THEN [NoRes EXCEPT !.stage = "co", !.exc = co.exc, !.th = th.cl]
               ELSE [stage |-> IF Names(th.cl) = Names(co.cl) THEN "ok" ELSE "cons", exc |-> "-", th |-> th.cl, co |-> co.cl,
                     mc |-> WithMaxConn(co.cl, a.n), static |-> Static(co.cl), mut |-> FALSE]

(******************************* the clauses *******************************)
Parsed(r) == r.stage \in {"ok", "cons"}
ExpHosts(c) == [i \in 1..Len(HostStrings(c)) |-> IF HostStrings(c)[i].k = "empty" THEN "<None>" ELSE HostStrings(c)[i].h]
GivenTimeout(opts) == IF Has(opts, "timeout") THEN LastOf(opts, "timeout").v ELSE IntVal(60)
WithoutMC(opts) == SelectSeq(opts, LAMBDA e : e.name # "max_connections")

Weak == {"HostOrderPreserved", "ClustersAsGiven", "PortRules", "EveryClusterHasOptions", "DefaultAppliesToAll", "TimeoutDefaultUnlessGiven",
         "TypesByClass", "LastDuplicateWins", "MaxConnectionsNeverLowered", "OptionsNotMutated", "RefusalsAreErrors"}
Strong == {"DefaultClusterAlwaysPresent", "TimeoutDefaultAlsoJson", "NoNamelessHost"}

Holds(c, a, r) ==
    LET m == THMembers(a.th) IN
    CASE c = "HostOrderPreserved" ->   \* the hosts of every cluster are the given ones, in the given order (lower-cased names)
            r.stage # "th" /\ (a.th.form = "csv" \/ a.th.top = "obj") =>
                \A i \in 1..Len(r.th) : LET cl == LastOf(m, r.th[i].name)
                                       IN cl.shape # "null" => [j \in 1..Len(r.th[i].v) |-> r.th[i].v[j].host] = ExpHosts(cl)
      [] c = "ClustersAsGiven" ->      \* a plain list is the cluster "default"; a JSON object gives one cluster per member name
            r.stage # "th" /\ (a.th.form = "csv" \/ a.th.top = "obj") =>
                /\ Names(r.th) = Names(m) /\ Len(r.th) = Cardinality(Names(m))
                /\ a.th.form = "csv" => Names(r.th) = {"default"}
      [] c = "PortRules" ->            \* a port is absent or 1..65535; https defaults to 443 and marks the host use_ssl
            r.stage # "th" => \A i \in 1..Len(r.th) : \A j \in 1..Len(r.th[i].v) :
                LET h == r.th[i].v[j] IN (h.port = NoPort \/ h.port \in 1..65535) /\ (h.ssl => h.port # NoPort)
      [] c = "EveryClusterHasOptions" -> \* the consistency rule of configure_connection_params
            /\ r.stage = "ok" => Names(r.th) = Names(r.co)
            /\ r.stage = "cons" => Names(r.th) # Names(r.co)
      [] c = "DefaultAppliesToAll" ->  \* an absent --client-options gives every cluster of --target-hosts timeout:60; a plain k:v list is "default" only
            /\ Parsed(r) /\ IsDefaultArg(a.co) => r.stage = "ok" /\ \A i \in 1..Len(r.co) : r.co[i].v = <<T60>>
            /\ Parsed(r) /\ a.co.form = "csv" /\ ~IsDefaultArg(a.co) => Names(r.co) = {"default"}
      [] c = "TimeoutDefaultUnlessGiven" ->
            Parsed(r) /\ a.co.form = "csv" /\ ~IsDefaultArg(a.co) =>
                \A i \in 1..Len(r.co) : Has(r.co[i].v, "timeout") /\
                    Get(r.co[i].v, "timeout") = GivenTimeout([j \in 1..Len(EffItems(a.co.items)) |-> [name |-> EffItems(a.co.items)[j].key, v |-> ValOf(EffItems(a.co.items)[j].tok)]])
      [] c = "TimeoutDefaultAlsoJson" ->
            Parsed(r) /\ a.co.form # "csv" =>
                \A i \in 1..Len(r.co) : Has(r.co[i].v, "timeout") /\ Get(r.co[i].v, "timeout") = GivenTimeout(LastOf(a.co.cl, r.co[i].name).opts)
      [] c = "TypesByClass" ->         \* csv form: digits -> int, decimal / exponent / nan / inf -> float, true|false in any case -> bool, none -> None, quoted or anything else -> str
            Parsed(r) /\ a.co.form = "csv" /\ ~IsDefaultArg(a.co) =>
                \A j \in 1..Len(EffItems(a.co.items)) : LET it == EffItems(a.co.items)[j] IN
                    (\A l \in (j + 1)..Len(EffItems(a.co.items)) : EffItems(a.co.items)[l].key # it.key) =>
                        Has(r.co[1].v, it.key) /\ Get(r.co[1].v, it.key) = ValOf(it.tok)
      [] c = "LastDuplicateWins" ->    \* JSON form: values are taken as typed in the JSON text; of duplicate members the last one counts
            Parsed(r) /\ a.co.form # "csv" =>
                \A i \in 1..Len(r.co) : LET given == LastOf(a.co.cl, r.co[i].name).opts IN
                    \A j \in 1..Len(given) : Get(r.co[i].v, given[j].name) = LastOf(given, given[j].name).v
      [] c = "MaxConnectionsNeverLowered" ->
            Parsed(r) /\ r.mc.k = "ok" =>
                /\ Len(r.mc.cl) = Len(r.co)
                /\ \A i \in 1..Len(r.co) :
                    LET o == r.co[i].v  w == r.mc.cl[i].v IN
                    /\ r.mc.cl[i].name = r.co[i].name
                    /\ WithoutMC(w) = WithoutMC(o)
                    /\ Has(w, "max_connections")
                    /\ \/ Get(w, "max_connections").t = "int" /\ Get(w, "max_connections").n >= 256
                       \/ Get(w, "max_connections").t = "float" /\ Get(w, "max_connections").n = 1 /\ Get(w, "max_connections") = Get(o, "max_connections")
                    /\ Has(o, "max_connections") /\ Get(o, "max_connections").t = "int" => Get(w, "max_connections").n = Max(256, Get(o, "max_connections").n)
                    /\ ~Has(o, "max_connections") => Get(w, "max_connections").n = Max(256, a.n)
      [] c = "OptionsNotMutated" -> r.mut = FALSE
      [] c = "RefusalsAreErrors" ->    \* what is refused: ports outside 0..65535 or not numeric, IPv6 literals without brackets, JSON that is not an object; k:v items without exactly one colon
            /\ r.stage = "th" <=> ((a.th.form # "csv" /\ a.th.top # "obj") \/ (\E i \in 1..Len(m) : \E it \in SeqToSet(HostStrings(m[i])) : ItemErr(it))
                                   \/ (EmptyHostRefused /\ \E i2 \in 1..Len(m) : \E it2 \in SeqToSet(HostStrings(m[i2])) : it2.k = "empty")
                                   \/ (DefaultRequired /\ (a.th.form = "csv" \/ a.th.top = "obj") /\ "default" \notin Names(m)))
            /\ r.stage = "co" => a.co.form = "csv" /\ (EndsJson(a.co) \/ \E i \in 1..Len(a.co.items) : a.co.items[i].k # "kv")
      [] c = "DefaultClusterAlwaysPresent" -> Parsed(r) => "default" \in Names(r.th)
      [] c = "NoNamelessHost" -> r.stage # "th" => \A i \in 1..Len(r.th) : \A j \in 1..Len(r.th[i].v) : r.th[i].v[j].host # "<None>"

(*FACTORY-BEGIN*)
(***************************************************************************)
(* Part 2: EsClientFactory.__init__(hosts, client_options).  Input         *)
(* a = [hosts : Seq([host, port, ssl, ip]), opts : Seq([name, v])] (the    *)
(* hosts and the typed options of ONE cluster, ip = the host is an IP      *)
(* literal); result [k, exc, urls, opts, ssl, cafile, chk, cert, maxc,     *)
(* static, cleanup, leak, mut]: opts = what is handed to the Elasticsearch *)
(* client as keyword arguments (a set of [name, v]; the tuple basic_auth   *)
(* is shown as the members basic_auth.0 / basic_auth.1), ssl "off" |       *)
(* "verify" | "noverify", cafile / cert = arguments of the TLS context,    *)
(* leak = secret options whose value shows up in the log record, mut = the *)
(* caller's dict changed.                                                  *)
(***************************************************************************)
Truthy(v) == CASE v.t = "int" -> v.n # 0 [] v.t = "bool" -> v.s = "true" [] v.t = "str" -> v.s # "" [] v.t = "none" -> FALSE [] v.t = "float" -> v.s \notin {"0.0", "-0.0"}
NoVal == [t |-> "absent", s |-> "", n |-> 0]
StrVal(x) == [t |-> "str", s |-> x, n |-> 0]
HasS(o, nm) == \E e \in o : e.name = nm
GetS(o, nm) == (CHOOSE e \in o : e.name = nm).v
IsSet(o, nm) == HasS(o, nm) /\ Truthy(GetS(o, nm))
Pop(o, nm) == {e \in o : e.name # nm}
Put(o, nm, v) == Pop(o, nm) \cup {[name |-> nm, v |-> v]}
GetOr(o, nm, d) == IF HasS(o, nm) THEN GetS(o, nm) ELSE d

FErr(e) == [k |-> "err", exc |-> e, urls |-> <<>>, opts |-> {}, ssl |-> "off", cafile |-> NoVal, chk |-> FALSE, cert |-> <<>>, maxc |-> NoVal,
            static |-> NoVal, cleanup |-> NoVal, leak |-> <<>>, mut |-> FALSE]
Url(h, https) == (IF https THEN "https" ELSE "http") \o "://" \o h.host \o ":" \o ToString(h.port)

(* convert.to_bool of the option enable_cleanup_closed *)
ToBool(v) == IF v.t = "bool" THEN v
             ELSE IF v.t = "str" /\ v.s \in {"True", "true", "Yes", "yes", "t", "y", "1"} THEN BoolVal(TRUE)
             ELSE IF v.t = "str" /\ v.s \in {"False", "false", "No", "no", "f", "n", "0"} THEN BoolVal(FALSE)
             ELSE IF v.t = "int" /\ v.n \in {0, 1} THEN BoolVal(v.n = 1)      \* 1 == True in Python
             ELSE [t |-> "err", s |-> "ValueError", n |-> 0]
MaxOf(v) == IF v.t = "int" THEN IntVal(Max(256, v.n)) ELSE IF v.t = "bool" THEN IntVal(256)
            ELSE IF v.t = "float" THEN (IF v.n = 1 THEN v ELSE IntVal(256)) ELSE [t |-> "err", s |-> "TypeError", n |-> 0]

FCode(a) ==
    LET o0 == SeqToSet(a.opts)
        hs == a.hosts
        sslOn == IsSet(o0, "use_ssl")
    IN IF \E i \in 1..Len(hs) : hs[i].host = "<absent>" \/ hs[i].port = NoPort THEN FErr("KeyError")
       ELSE
       LET urls == [i \in 1..Len(hs) |-> Url(hs[i], sslOn \/ hs[i].ssl)]
           o1 == Pop(o0, "use_ssl")
           verify == GetOr(o1, "verify_certs", BoolVal(TRUE))
           mixed == (\E i \in 1..Len(hs) : hs[i].ip) /\ (\E i \in 1..Len(hs) : ~hs[i].ip)
           cc == GetOr(o1, "client_cert", BoolVal(FALSE))
           ck == GetOr(o1, "client_key", BoolVal(FALSE))
           o2 == IF ~sslOn THEN o1
                 ELSE LET x == Pop(Pop(Pop(o1, "ca_certs"), "client_cert"), "client_key")
                      IN IF Truthy(verify) THEN x ELSE Put(x, "ssl_show_warn", BoolVal(FALSE))
           capc == IsSet(o2, "create_api_key_per_client")
           o3 == IF capc THEN Pop(o2, "create_api_key_per_client") ELSE o2
           both == IsSet(o3, "basic_auth_user") /\ IsSet(o3, "basic_auth_password")
           o4 == IF both THEN Put(Put(Pop(Pop(o3, "basic_auth_user"), "basic_auth_password"), "basic_auth.0", GetS(o3, "basic_auth_user")), "basic_auth.1", GetS(o3, "basic_auth_password")) ELSE o3
           o5 == IF IsSet(o4, "compressed") THEN Put(Pop(o4, "compressed"), "http_compress", GetS(o4, "compressed")) ELSE o4
           cleanup == ToBool(GetOr(o5, "enable_cleanup_closed", BoolVal(TRUE)))
           o6 == Pop(o5, "enable_cleanup_closed")
           maxc == MaxOf(GetOr(o6, "max_connections", IntVal(0)))
           o7 == Pop(o6, "max_connections")
           static == GetOr(o7, "static_responses", [t |-> "none", s |-> "None", n |-> 0])
           o8 == Pop(o7, "static_responses")
           o9 == IF IsSet(o8, "timeout") THEN Put(Pop(o8, "timeout"), "request_timeout", GetS(o8, "timeout")) ELSE o8
       IN IF sslOn /\ Truthy(verify) /\ mixed THEN FErr("SystemSetupError")
          ELSE IF sslOn /\ (Truthy(cc) # Truthy(ck)) THEN FErr("SystemSetupError")
          ELSE IF capc /\ ~(IsSet(o2, "basic_auth_user") /\ IsSet(o2, "basic_auth_password")) THEN FErr("SystemSetupError")
          ELSE IF cleanup.t = "err" THEN FErr(cleanup.s)
          ELSE IF maxc.t = "err" THEN FErr(maxc.s)
          ELSE [k |-> "ok", exc |-> "-", urls |-> urls, opts |-> o9,
                ssl |-> IF ~sslOn THEN "off" ELSE IF Truthy(verify) THEN "verify" ELSE "noverify",
                cafile |-> IF sslOn THEN GetOr(o1, "ca_certs", StrVal("<certifi>")) ELSE NoVal,
                chk |-> sslOn /\ Truthy(verify) /\ \E i \in 1..Len(hs) : ~hs[i].ip,
                cert |-> IF sslOn /\ Truthy(cc) /\ Truthy(ck) THEN <<cc, ck>> ELSE <<>>,
                maxc |-> maxc, static |-> static, cleanup |-> cleanup, leak |-> <<>>, mut |-> FALSE]

FSame(r, c) ==   \* recorded result (opts as the sequence of the dict's items) against a result of FCode
    /\ SeqToSet(r.opts) = c.opts /\ Len(r.opts) = Cardinality(c.opts)
    /\ [r EXCEPT !.opts = {}] = [c EXCEPT !.opts = {}]

FClauses == {"SchemeFollowsSsl", "SslOnlyWhenAsked", "CertAndKeyTogether", "BasicAuthPair", "ApiKeyNeedsBasicAuth", "TimeoutBecomesRequestTimeout",
             "MaxConnectionsFloor", "SecretsMasked", "CallerOptionsNotMutated"}
FHoldsO(c, a, r, o) ==
    LET o0 == SeqToSet(a.opts)
        sslOn == IsSet(o0, "use_ssl")
        both == IsSet(o0, "basic_auth_user") /\ IsSet(o0, "basic_auth_password")
    IN
    CASE c = "SchemeFollowsSsl" ->     \* one URL per host, in order; https iff use_ssl is on for the cluster or the host was given as https://
            r.k = "ok" => Len(r.urls) = Len(a.hosts) /\ \A i \in 1..Len(a.hosts) : r.urls[i] = Url(a.hosts[i], sslOn \/ a.hosts[i].ssl)
      [] c = "SslOnlyWhenAsked" ->     \* a TLS context exists iff use_ssl; verification is on unless verify_certs is given and false; the TLS options are consumed
            r.k = "ok" =>
                /\ (r.ssl # "off") = sslOn
                /\ sslOn => /\ (r.ssl = "noverify") = (HasS(o0, "verify_certs") /\ ~Truthy(GetS(o0, "verify_certs")))
                            /\ r.cafile = GetOr(o0, "ca_certs", StrVal("<certifi>"))
                            /\ \A nm \in {"use_ssl", "ca_certs", "client_cert", "client_key"} : ~HasS(o, nm)
                            /\ r.ssl = "noverify" => ~r.chk
      [] c = "CertAndKeyTogether" ->   \* with use_ssl: client_cert and client_key come together (else SystemSetupError); both -> loaded into the context
            /\ r.k = "ok" /\ sslOn => (IsSet(o0, "client_cert") = IsSet(o0, "client_key")) /\ (r.cert # <<>>) = IsSet(o0, "client_cert")
            /\ r.k = "ok" /\ r.cert # <<>> => r.cert = <<GetS(o0, "client_cert"), GetS(o0, "client_key")>>
            /\ r.k = "ok" /\ ~sslOn => r.cert = <<>>
      [] c = "BasicAuthPair" ->        \* basic_auth_user + basic_auth_password become the pair basic_auth
            r.k = "ok" => IF both THEN /\ HasS(o, "basic_auth.0") /\ GetS(o, "basic_auth.0") = GetS(o0, "basic_auth_user")
                                       /\ HasS(o, "basic_auth.1") /\ GetS(o, "basic_auth.1") = GetS(o0, "basic_auth_password")
                                       /\ ~HasS(o, "basic_auth_user") /\ ~HasS(o, "basic_auth_password")
                          ELSE ~HasS(o, "basic_auth.0") /\ ~HasS(o, "basic_auth.1")
      [] c = "ApiKeyNeedsBasicAuth" -> r.k = "ok" => ~(IsSet(o0, "create_api_key_per_client") /\ ~both) /\ ~IsSet(o, "create_api_key_per_client")
      [] c = "TimeoutBecomesRequestTimeout" ->
            r.k = "ok" /\ IsSet(o0, "timeout") => ~HasS(o, "timeout") /\ HasS(o, "request_timeout") /\ GetS(o, "request_timeout") = GetS(o0, "timeout")
      [] c = "MaxConnectionsFloor" ->
            r.k = "ok" => /\ ~HasS(o, "max_connections")
                          /\ (r.maxc.t = "int" /\ r.maxc.n >= 256) \/ (r.maxc.t = "float" /\ r.maxc.n = 1)
                          /\ HasS(o0, "max_connections") /\ GetS(o0, "max_connections").t = "int" => r.maxc = IntVal(Max(256, GetS(o0, "max_connections").n))
                          /\ ~HasS(o0, "max_connections") => r.maxc = IntVal(256)
      [] c = "SecretsMasked" -> r.leak = <<>>
      [] c = "CallerOptionsNotMutated" -> r.mut = FALSE
FHolds(c, a, r) == FHoldsO(c, a, r, SeqToSet(r.opts))
(*FACTORY-END*)

(******************************* behaviour *********************************)
IsF(x) == "hosts" \in DOMAIN x
Init == /\ \/ in \in Inputs
           \/ in \in FInputs
        /\ res = NoRes /\ done = FALSE
Eval == ~done /\ res' = (IF IsF(in) THEN FCode(in) ELSE Code(in)) /\ done' = TRUE /\ UNCHANGED in
Next == Eval
Spec == Init /\ [][Next]_vars

WeakHold == done /\ ~IsF(in) => \A c \in Weak : Holds(c, in, res)
FactoryHold == done /\ IsF(in) => \A c \in FClauses : FHoldsO(c, in, res, res.opts)
IDefaultClusterAlwaysPresent == done /\ ~IsF(in) => Holds("DefaultClusterAlwaysPresent", in, res)
ITimeoutDefaultAlsoJson == done /\ ~IsF(in) => Holds("TimeoutDefaultAlsoJson", in, res)
INoNamelessHost == done /\ ~IsF(in) => Holds("NoNamelessHost", in, res)
StrongHold == IDefaultClusterAlwaysPresent /\ ITimeoutDefaultAlsoJson /\ INoNamelessHost
=============================================================================
