SPECIFICATION Spec
CONSTANTS
  Inputs <- InputsQuick
  FInputs <- FInputsQuick
  DefaultRequired = FALSE
  JsonTimeoutDefault = FALSE
  EmptyHostRefused = FALSE
INVARIANT INoNamelessHost
CHECK_DEADLOCK FALSE
