----------------------------- MODULE MC_Options -----------------------------
EXTENDS Options

H(k, h, p, sch, v) == [k |-> k, h |-> h, p |-> p, sch |-> sch, v |-> v]
Tok(c, txt, s, n) == [c |-> c, txt |-> txt, s |-> s, n |-> n]
KV(key, tok) == [k |-> "kv", key |-> key, tok |-> tok, v |-> "plain"]
Bad(k) == [k |-> k, key |-> "x", tok |-> Tok("str", "y", "y", 0), v |-> "plain"]
Seqs(S, n) == UNION {[1..m -> S] : m \in 0..n}

HostItems == {H("name", "a", 0, "none", "plain"), H("hp", "a", 9200, "none", "plain"), H("hp", "b", 9201, "none", "pad"),
              H("empty", "", 0, "none", "plain"), H("hp", "a", 70000, "none", "plain"), H("hp", "a", 0, "none", "plain"),
              H("name", "a", 0, "https", "plain"), H("hp", "b", 9243, "https", "upper"), H("hp", "a", 9200, "none", "lz"),
              H("hp", "a", 9200, "none", "inner"), H("hp", "::1", 9200, "none", "br6"), H("name", "::1", 0, "none", "bare6"),
              H("hp", "a", 80, "http", "plain")}
FewHosts == {H("hp", "a", 9200, "none", "plain"), H("name", "b", 0, "https", "plain"), H("hp", "a", 70000, "none", "plain"), H("empty", "", 0, "none", "plain")}

ClNames == {"default", "remote"}
THClusters == [name : ClNames, shape : {"list"}, hosts : Seqs(FewHosts, 1)]
               \cup [name : {"default"}, shape : {"str", "null"}, hosts : {<<H("hp", "a", 9200, "none", "plain")>>}]
THArgs == [form : {"csv"}, items : Seqs(HostItems, 2), top : {"obj"}, cl : {<<>>}]
          \cup [form : {"json"}, items : {<<>>}, top : {"obj"}, cl : Seqs(THClusters, 2)]
          \cup [form : {"file"}, items : {<<>>}, top : {"obj", "list", "num"}, cl : {<<[name |-> "default", shape |-> "list", hosts |-> <<H("hp", "a", 9200, "none", "plain")>>]>>}]

Toks == {Tok("int", "60", "", 60), Tok("intlz", "0300", "", 300), Tok("int", "1000", "", 1000), Tok("float", "6.5", "6.5", 0), Tok("floatword", "nan", "nan", 0),
         Tok("boolup", "TRUE", "true", 0), Tok("noneup", "None", "None", 0), Tok("qnum", "'60'", "60", 0), Tok("str", "abc", "abc", 0), Tok("jsonname", "r.json", "r.json", 0)}
Keys == {"timeout", "max_connections", "static_responses"}
KvItems == {KV(k, t) : k \in Keys, t \in Toks} \cup {Bad("empty"), Bad("nocolon"), Bad("twocolon")}
JVals == {IntVal(30), IntVal(1000), BoolVal(TRUE), [t |-> "str", s |-> "60", n |-> 0]}
JOpts == Seqs([name : {"timeout", "max_connections"}, v : JVals], 1) \cup {<<[name |-> "timeout", v |-> IntVal(30)], [name |-> "timeout", v |-> IntVal(90)]>>,
          <<[name |-> "static_responses", v |-> [t |-> "str", s |-> "r.json", n |-> 0]], [name |-> "max_connections", v |-> [t |-> "none", s |-> "None", n |-> 0]]>>}
COClusters == [name : ClNames, opts : JOpts]
COArgsCsv == [form : {"csv"}, items : Seqs(KvItems, 2), cl : {<<>>}]
COArgsJson == [form : {"json"}, items : {<<>>}, cl : Seqs(COClusters, 2)] \cup [form : {"file"}, items : {<<>>}, cl : Seqs(COClusters, 1)]

\* quick: every target-hosts argument with a few client-options arguments and the other way round
FewKv == {KV("timeout", Tok("int", "60", "", 60)), KV("timeout", Tok("intlz", "0300", "", 300)), KV("max_connections", Tok("int", "1000", "", 1000)),
          KV("max_connections", Tok("int", "60", "", 60)), KV("max_connections", Tok("qnum", "'60'", "60", 0)), KV("static_responses", Tok("boolup", "TRUE", "true", 0)),
          KV("timeout", Tok("noneup", "None", "None", 0)), Bad("empty")}
FewJOpts == {<<>>, <<[name |-> "timeout", v |-> IntVal(30)]>>, <<[name |-> "max_connections", v |-> IntVal(1000)]>>,
             <<[name |-> "timeout", v |-> IntVal(30)], [name |-> "timeout", v |-> IntVal(90)]>>}
COQuick == [form : {"csv"}, items : Seqs(KvItems, 1) \cup Seqs(FewKv, 2), cl : {<<>>}]
           \cup [form : {"json"}, items : {<<>>}, cl : Seqs(COClusters, 1) \cup Seqs([name : ClNames, opts : FewJOpts], 2)]
           \cup [form : {"file"}, items : {<<>>}, cl : Seqs([name : ClNames, opts : FewJOpts], 1)]
FewCO == {[form |-> "csv", items |-> <<KV("timeout", Tok("int", "60", "", 60))>>, cl |-> <<>>],
          [form |-> "csv", items |-> <<KV("max_connections", Tok("int", "1000", "", 1000))>>, cl |-> <<>>],
          [form |-> "csv", items |-> <<Bad("nocolon")>>, cl |-> <<>>],
          [form |-> "json", items |-> <<>>, cl |-> <<[name |-> "default", opts |-> <<>>], [name |-> "remote", opts |-> <<[name |-> "timeout", v |-> IntVal(30)]>>]>>],
          [form |-> "file", items |-> <<>>, cl |-> <<[name |-> "remote", opts |-> <<>>]>>]}
D1 == <<H("hp", "a", 9200, "none", "plain")>>
FewTH == {[form |-> "csv", items |-> D1, top |-> "obj", cl |-> <<>>],
          [form |-> "json", items |-> <<>>, top |-> "obj", cl |-> <<[name |-> "default", shape |-> "list", hosts |-> D1], [name |-> "remote", shape |-> "list", hosts |-> D1]>>],
          [form |-> "file", items |-> <<>>, top |-> "obj", cl |-> <<[name |-> "remote", shape |-> "list", hosts |-> D1]>>]}
InputsQuick == [th : THArgs, co : FewCO, n : {1000}] \cup [th : FewTH, co : COQuick, n : {8, 1000}]
InputsThorough == [th : THArgs, co : COQuick, n : {1000}] \cup [th : FewTH, co : COArgsCsv \cup COArgsJson, n : {8, 1000}]

\* ---- part 2: hosts and options of one cluster for EsClientFactory.__init__
FH(h, p, ssl, ip) == [host |-> h, port |-> p, ssl |-> ssl, ip |-> ip]
FHosts == {<<FH("a", 9200, FALSE, FALSE)>>, <<FH("b", 9243, TRUE, FALSE), FH("a", 9200, FALSE, FALSE)>>, <<FH("10.0.0.5", 9200, FALSE, TRUE)>>,
           <<FH("a", 9200, FALSE, FALSE), FH("10.0.0.5", 9200, FALSE, TRUE)>>, <<FH("a", NoPort, FALSE, FALSE)>>}
S(x) == [t |-> "str", s |-> x, n |-> 0]
NoneVal == [t |-> "none", s |-> "None", n |-> 0]
KeySeq == <<"use_ssl", "verify_certs", "ca_certs", "client_cert", "client_key", "basic_auth_user", "basic_auth_password", "api_key", "create_api_key_per_client",
            "timeout", "max_connections", "static_responses", "compressed", "enable_cleanup_closed">>
TlsChoice == [use_ssl : {NoVal, BoolVal(TRUE), BoolVal(FALSE), S("true")}, verify_certs : {NoVal, BoolVal(FALSE)}, ca_certs : {NoVal, S("/ca.pem")},
              client_cert : {NoVal, S("/c.pem")}, client_key : {NoVal, S("/k.pem")}, basic_auth_user : {NoVal}, basic_auth_password : {NoVal}, api_key : {NoVal},
              create_api_key_per_client : {NoVal}, timeout : {IntVal(60)}, max_connections : {NoVal}, static_responses : {NoVal}, compressed : {NoVal}, enable_cleanup_closed : {NoVal}]
AuthChoice == [use_ssl : {NoVal}, verify_certs : {NoVal}, ca_certs : {NoVal}, client_cert : {NoVal, S("/c.pem")}, client_key : {NoVal},
               basic_auth_user : {NoVal, S("u"), S("")}, basic_auth_password : {NoVal, S("pw-S3CR3T")}, api_key : {NoVal, S("key-S3CR3T")},
               create_api_key_per_client : {NoVal, BoolVal(TRUE)}, timeout : {NoVal, IntVal(60), IntVal(0)}, max_connections : {NoVal},
               static_responses : {NoVal}, compressed : {NoVal}, enable_cleanup_closed : {NoVal}]
MiscChoice == [use_ssl : {NoVal}, verify_certs : {NoVal}, ca_certs : {NoVal}, client_cert : {NoVal}, client_key : {NoVal},
               basic_auth_user : {NoVal}, basic_auth_password : {NoVal, IntVal(987654321)}, api_key : {NoVal},
               create_api_key_per_client : {NoVal}, timeout : {NoVal, IntVal(0)}, max_connections : {NoVal, IntVal(10), IntVal(1000), S("7"), NoneVal},
               static_responses : {NoVal, S("r.json")}, compressed : {NoVal, BoolVal(TRUE)}, enable_cleanup_closed : {NoVal, BoolVal(FALSE), S("no"), S("maybe")}]
OptsOf(f) == SelectSeq([i \in 1..Len(KeySeq) |-> [name |-> KeySeq[i], v |-> f[KeySeq[i]]]], LAMBDA e : e.v # NoVal)
FInputsQuick == [hosts : FHosts, opts : {OptsOf(f) : f \in TlsChoice}] \cup [hosts : {<<FH("a", 9200, FALSE, FALSE)>>}, opts : {OptsOf(f) : f \in AuthChoice \cup MiscChoice}]
=============================================================================
