SPECIFICATION TSpec
CONSTANTS
  Inputs = {}
  FInputs = {}
  DefaultRequired = FALSE
  JsonTimeoutDefault = FALSE
  EmptyHostRefused = FALSE
CHECK_DEADLOCK FALSE
