SPECIFICATION Spec
CONSTANTS
  Inputs <- InputsThorough
  FInputs <- FInputsQuick
  DefaultRequired = FALSE
  JsonTimeoutDefault = FALSE
  EmptyHostRefused = FALSE
INVARIANT WeakHold
INVARIANT FactoryHold
CHECK_DEADLOCK FALSE
