---------------------------- MODULE TraceOptions ----------------------------
(***************************************************************************)
(* Validates recorded results of the REAL rally.configure_connection_params *)
(* (opts.TargetHosts / opts.ClientOptions / the consistency rule) followed  *)
(* by with_max_connections / uses_static_responses ("p" items: [id, kind,   *)
(* a, r]) and of EsClientFactory.__init__ ("f" items: [id, kind, a, r]).    *)
(* L1: the clauses of Options.tla / Factory part on the recorded result;    *)
(* L2: the recorded result is Code(a) / FCode(a) under the cfg's switches.  *)
(***************************************************************************)
EXTENDS Options, Json, IOUtils

Items == JsonDeserialize(IOEnv.VERIF_TRACES)

VARIABLES i

TInit == i = 1 /\ in = <<>> /\ res = NoRes /\ done = FALSE

Check(it) ==
    LET l1 == IF it.kind = "p" THEN {c \in Weak \cup Strong : ~Holds(c, it.a, it.r)} ELSE {c \in FClauses : ~FHolds(c, it.a, it.r)}
        l2 == IF it.kind = "p" THEN it.r = Code(it.a) ELSE FSame(it.r, FCode(it.a))
    IN /\ IF l1 = {} THEN TRUE ELSE PrintT(<<"V", it.id, 1, "L1", l1>>)
       /\ IF l2 THEN TRUE ELSE PrintT(<<"V", it.id, 1, "L2", {}>>)

TNext == /\ i <= Len(Items)
         /\ Check(Items[i])
         /\ i' = i + 1
         /\ IF i < Len(Items) THEN TRUE ELSE PrintT(<<"DONE", Len(Items), Len(Items)>>)
         /\ UNCHANGED vars

TSpec == TInit /\ [][TNext]_<<vars, i>>
=============================================================================
