SPECIFICATION Spec
CONSTANTS
  Inputs <- InputsQuick
  FInputs <- FInputsQuick
  DefaultRequired = FALSE
  JsonTimeoutDefault = FALSE
  EmptyHostRefused = FALSE
INVARIANT ITimeoutDefaultAlsoJson
CHECK_DEADLOCK FALSE
