SPECIFICATION Spec
CONSTANTS
  Inputs <- InputsQuick
  FInputs <- FInputsQuick
  DefaultRequired = FALSE
  JsonTimeoutDefault = FALSE
  EmptyHostRefused = FALSE
INVARIANT IDefaultClusterAlwaysPresent
CHECK_DEADLOCK FALSE
