SPECIFICATION Spec
CONSTANTS
  Inputs <- InputsQuick
  FInputs <- FInputsQuick
  DefaultRequired = FALSE
  JsonTimeoutDefault = FALSE
  EmptyHostRefused = FALSE
INVARIANT WeakHold
INVARIANT FactoryHold
CHECK_DEADLOCK FALSE
