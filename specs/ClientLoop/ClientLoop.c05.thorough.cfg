SPECIFICATION Spec
CONSTANTS
  Configs <- C05ThoroughConfigs
  StartTimes <- T3
  D1s <- D01
  Svcs <- C05ThoroughSvcs
  D2s <- D01
  NearOffsets <- NearNone
  Weights <- W12
  ErrKinds <- ErrApiSoft
  MaxErrors = 1
  PoissonIncs <- Inc013
  ExtAt <- Ext2
  WaitExtAt <- ExtNone
  WaitOffsets <- Wait123
  TimerBeforeRampUp = TRUE
  LatencyEndsAtResponse = TRUE
VIEW view
INVARIANT TypeOK
INVARIANT EndProperties
PROPERTY RequestProperties
CHECK_DEADLOCK FALSE
