SPECIFICATION PSpec
CONSTANTS
  PConfigs <- PQuick
  EqualSpeed = TRUE
  ClearAtJoinPoint = FALSE
VIEW pview
PROPERTY ReportProperties
CHECK_DEADLOCK FALSE
