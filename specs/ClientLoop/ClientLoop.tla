----------------------------- MODULE ClientLoop -----------------------------
(***************************************************************************)
(* The request loop of ONE load-generator client executing ONE task:       *)
(*   esrally.driver.driver  schedule_for -> ScheduleHandle.__call__ ->      *)
(*   AsyncExecutor.__call__ -> execute_single -> Sampler.add               *)
(*   loop control  IterationBased / TimePeriodBased                        *)
(*   pacing        esrally.driver.scheduler  Unthrottled, UnitAwareScheduler*)
(*                 delegating to DeterministicScheduler / PoissonScheduler  *)
(*   timestamps    esrally.client.context.RequestContextHolder              *)
(*                                                                         *)
(* Time is an integer number of ticks, cfg.tps ticks per second.  The       *)
(* actions follow the code's ORDER OF CLOCK READS; the environment chooses  *)
(* the client-side overhead before (d1) and after (d2) the wire request,    *)
(* the service time (svc), the outcome (ok with a weight | error, with      *)
(* on-error=continue), external completion of the task, and the increments  *)
(* drawn by the Poisson schedule.                                          *)
(*                                                                         *)
(* Properties: C04 (what latency / service time / processing time mean,     *)
(* one sample per request) and C05 (iterations, time periods, warm-up,      *)
(* progress, pacing, ramp-up).  They are written as named clauses over      *)
(* OBSERVATIONS (cfg, the start instant ts, the previous and the current    *)
(* completed request record) so that TraceClientLoop.tla evaluates the very *)
(* same formulas on records of the real code.                              *)
(***************************************************************************)
EXTENDS Integers, Sequences, FiniteSets, TLC

CONSTANTS Configs,      \* set of task/client configurations (records, see MC_ClientLoop)
          StartTimes,   \* possible clock values when the client starts
          D1s, Svcs, D2s, \* environment: overhead before / service time / overhead after (ticks)
          NearOffsets,  \* throttled tasks: service times of (target interval - k) ticks, k in NearOffsets, are possible too
                        \* (a client that comes back just before / at / just after its next scheduled time)
          Weights,      \* weights a successful request may report (0 allowed)
          ErrKinds,     \* kinds of failing requests: subset of {"api", "transport", "timeout", "soft"}; "soft" = the runner RETURNS
                        \* success: False together with a weight and its unit (a bulk with item errors, a failed assertion): not an exception
          MaxErrors,    \* at most this many failing requests per run
          PoissonIncs,  \* possible increments of the Poisson schedule (ticks)
          ExtAt,        \* request numbers during which the task may be completed externally (complete.set())
          WaitExtAt, WaitOffsets,  \* ... also, for the requests in WaitExtAt, k ticks after the client began to wait for that request's scheduled time (k in WaitOffsets,
                        \* strictly inside the wait): the completed-by signal of another task arrives while the client sleeps
          TimerBeforeRampUp,   \* TRUE = the code: loop-control timer started BEFORE the ramp-up sleep
          LatencyEndsAtResponse \* TRUE = the code: throttled latency = request_end - scheduled time
                                \* (FALSE: processing_end; both switches exist only for the model self-test)

(* cfg fields:  kind "iter"|"time";  wi, it (iterations);  wt, tp (ticks);  sched "unthrottled"|"deterministic"|"poisson";  *)
(*   tnum/tden target throughput in <tunit>/s over all clients;  tunit, runit unit of the target / reported by the runner;   *)
(*   clients (of the task);  idx, total (global client index / total clients of the parallel element);  ramp (ticks);        *)
(*   tps ticks per second;  client (id of the client that executes the requests);  task (name);                              *)
(*   rc: 0 = ordinary runner; k > 0 = the runner exposes completed/percent_completed, completed is true from its k-th call   *)
(*   on (percent_completed stays None)                                                                                       *)

Warmup == 0
Normal == 1

VARIABLES cfg,   \* the configuration (chosen initially, constant)
          st,    \* the state of the loop (record, see InitState)
          act    \* last action and the environment's choice (for schedule extraction; hidden by VIEW)

vars == <<cfg, st, act>>
view == <<cfg, st>>

Abs(x) == IF x < 0 THEN -x ELSE x
Near(a, b, tol) == Abs(a - b) <= tol

-----------------------------------------------------------------------------
(* Derived configuration values *)
TotalIt(c)  == c.wi + c.it
Duration(c) == c.wt + c.tp
PD(c)       == IF c.kind = "iter" THEN TotalIt(c) ELSE Duration(c)   \* progress is counted in units of 1/PD

(* ScheduleHandle.ramp_up_wait_time = ramp * (global_client_index / total_clients) *)
RampWait(c) == (c.ramp * c.idx) \div c.total

(* DeterministicScheduler.wait_time = 1 / (T / clients / weight), in ticks *)
Interval(c, w) == (w * c.clients * c.tps * c.tden) \div c.tnum

(* Placement of the clients of one schedule element.  e = [cap |-> clients given on the parallel element (0 = none),   *)
(* clients |-> << clients of sub-task 1, ... >>].  The i-th client (from 0) of sub-task j is client                    *)
(* idx = (clients of the sub-tasks before j) + i of the element; all ElementTotal(e) clients ramp up together; when    *)
(* the element is over-committed (cap < sum) the request is executed by client idx % cap.                             *)
RECURSIVE SumTo(_, _)
SumTo(q, n) == IF n = 0 THEN 0 ELSE q[n] + SumTo(q, n - 1)
ElementTotal(e) == IF e.cap > 0 THEN e.cap ELSE SumTo(e.clients, Len(e.clients))
Placement(e, j, i) ==
    LET idx == SumTo(e.clients, j - 1) + i
    IN [idx |-> idx, total |-> ElementTotal(e), clients |-> e.clients[j], executes |-> idx % ElementTotal(e)]

(* UnitAwareScheduler raises when the runner's unit differs from a target unit other than ops/s *)
AbortExpected(c) == c.sched # "unthrottled" /\ c.runit # c.tunit /\ c.tunit # "ops"

-----------------------------------------------------------------------------
(* Records *)
NoSample == [client |-> -1, task |-> "", ty |-> 0, abs |-> 0, rs |-> 0, lat |-> 0, svc |-> 0, proc |-> 0, tp |-> 0,
             ops |-> 0, unit |-> "", p |-> 0, pone |-> FALSE, success |-> FALSE]

(* one request as observed: the tuple yielded by the schedule (sched, ty, p) at instant yat, the client's log             *)
(* (issue = runner called, ws/we = request sent / response received, ret = runner returned), the outcome (ok = success,   *)
(* w / unit = the weight and unit that came back: 0 "ops" for an exception, the runner's own for a returned failure), the  *)
(* samples recorded for it, and two accumulators: lw = weight (in the target's unit) of the last request so far that      *)
(* reported a weight > 0 (successful or not),                                                                              *)
(* exts = task completed externally so far                                                                                 *)
NoReq == [n |-> 0, sched |-> 0, ty |-> 0, p |-> 0, yat |-> 0, issue |-> 0, ws |-> 0, we |-> 0, ret |-> 0,
          ok |-> FALSE, w |-> 0, unit |-> "", ext |-> FALSE, nsamples |-> 0, s |-> NoSample, lw |-> 0, exts |-> FALSE]

EffWeight(c, r) == IF r.unit = c.tunit THEN r.w ELSE 1      \* a mismatching unit counts as one op (target in ops/s)

(* the runner reports completion after this request *)
RunnerDone(c, r) == c.rc > 0 /\ r.n >= c.rc

Accum(c, prev, r) == [r EXCEPT !.lw = IF r.w > 0 THEN EffWeight(c, r) ELSE prev.lw,
                               !.exts = prev.exts \/ r.ext \/ RunnerDone(c, r)]

InitState(t0) ==
    [pc |-> "init", now |-> t0, ts |-> 0,
     lcIt |-> 0, lcStart |-> 0, lcNow |-> 0,                  \* loop control: IterationBased._it | TimePeriodBased._start/_now
     first |-> TRUE, cw |-> 0,                               \* UnitAwareScheduler.first_request / current_weight (0 = None)
     del |-> "unthrottled", wait |-> 0, rnum |-> 0, rden |-> 1, \* delegate scheduler, its wait_time | rate (per tick)
     sched |-> 0,                                            \* next_scheduled of ScheduleHandle.__call__
     cset |-> FALSE,                                         \* the worker's shared `complete` event
     nerr |-> 0, cur |-> NoReq, last |-> NoReq, n |-> 0]

-----------------------------------------------------------------------------
(* The steps of the code as functions on the state (composed by the trace specification) *)

(* total_start = perf_counter(); schedule_handle.start() *)
StartStep(c, s) ==
    [s EXCEPT !.pc = "rampup", !.ts = s.now, !.lcIt = 0,
              !.lcStart = IF TimerBeforeRampUp THEN s.now ELSE s.now + RampWait(c),
              !.lcNow   = IF TimerBeforeRampUp THEN s.now ELSE s.now + RampWait(c)]

(* await asyncio.sleep(rampup_wait_time) *)
RampUpStep(c, s) == [s EXCEPT !.pc = "next", !.now = s.now + RampWait(c)]

(* task_progress_control.completed / sample_type / percent_completed: from the loop control's LAST clock reading *)
Completed(c, s) == IF c.kind = "iter" THEN s.lcIt >= TotalIt(c) ELSE s.lcNow >= s.lcStart + Duration(c)
LcType(c, s)    == IF c.kind = "iter" THEN (IF s.lcIt < c.wi THEN Warmup ELSE Normal)
                                      ELSE (IF s.lcNow - s.lcStart < c.wt THEN Warmup ELSE Normal)
LcPercent(c, s) == IF c.kind = "iter" THEN s.lcIt + 1 ELSE s.lcNow - s.lcStart

(* sched.next(next_scheduled): Unthrottled -> 0 (also the FIRST request of a throttled task and every request before *)
(* the first one that reports a weight > 0), deterministic -> + wait_time, Poisson -> + expovariate(rate)                           *)
NextSched(s, inc) == CASE s.del = "unthrottled" -> 0
                       [] s.del = "deterministic" -> s.sched + s.wait
                       [] s.del = "poisson" -> s.sched + inc

YieldStep(c, s, inc) ==
    [s EXCEPT !.pc = "sleep", !.sched = NextSched(s, inc),
              !.cur = [NoReq EXCEPT !.n = s.n + 1, !.sched = NextSched(s, inc), !.ty = LcType(c, s),
                                    !.p = LcPercent(c, s), !.yat = s.now]]

FinishStep(s) == [s EXCEPT !.pc = "done"]

(* throughput_throttled = expected_scheduled_time > 0; sleep until total_start + expected_scheduled_time *)
(* xo > 0: the complete event is set xo ticks after the wait began.  The code as it is does NOT look at the event while it   *)
(* waits: the wait runs to its end, the request is issued at its scheduled time, is recorded with progress 100% and ends   *)
(* the loop (RecordStep).                                                                                                   *)
WaitLength(s) == LET due == s.ts + s.cur.sched IN IF s.cur.sched > 0 /\ due > s.now THEN due - s.now ELSE 0
SleepStep(s, xo) ==
    [s EXCEPT !.pc = "issue", !.now = s.now + WaitLength(s), !.cset = @ \/ xo > 0]

(* absolute_processing_start = time.time(); processing_start = perf_counter(); the runner is called *)
IssueStep(s) == [s EXCEPT !.pc = "wire", !.cur.issue = s.now]

WireStartStep(s, d1) == [s EXCEPT !.pc = "inflight", !.now = s.now + d1, !.cur.ws = s.now + d1]      \* on_request_start
WireEndStep(s, svc)  == [s EXCEPT !.pc = "returning", !.now = s.now + svc, !.cur.we = s.now + svc]   \* on_request_end

(* execute_single returns: processing_end = perf_counter(); an exception gives weight 0, unit "ops"; a runner that returns  *)
(* success: False (ok = FALSE) still reports its weight w in its unit: the caller passes w and unit as they came back      *)
ReturnStep(c, s, d2, ok, w, unit, ext) ==
    \* ext: the complete event is set while the request is in flight; cur.ext: it is set when the runner returns
    [s EXCEPT !.pc = "feedback", !.now = s.now + d2, !.cur.ret = s.now + d2, !.cur.ok = ok, !.cset = @ \/ ext,
              !.cur.w = w, !.cur.unit = unit, !.cur.ext = (s.cset \/ ext),
              !.nerr = IF ok THEN @ ELSE @ + 1]

(* schedule_handle.after_request: UnitAwareScheduler (first request / weight change re-create the delegate) *)
AfterStep(c, s) ==
    LET w == s.cur.w
        trigger == c.sched # "unthrottled" /\ w > 0 /\ (s.first \/ s.cw # w)
        mismatch == s.cur.unit # c.tunit
        w2 == IF mismatch THEN 1 ELSE w
    IN IF ~trigger THEN [s EXCEPT !.pc = "record"]
       ELSE IF mismatch /\ c.tunit # "ops" THEN [s EXCEPT !.pc = "aborted"]       \* RallyAssertionError
       ELSE [s EXCEPT !.pc = "record", !.first = FALSE, !.cw = w2, !.del = c.sched, !.wait = Interval(c, w2),
                      !.rnum = c.tnum, !.rden = c.tden * c.clients * w2 * c.tps]

(* latency / completed / progress rules and Sampler.add *)
RecordStep(c, s) ==
    LET r == s.cur
        svc == r.we - r.ws
        lend == IF LatencyEndsAtResponse THEN r.we ELSE r.ret
        lat == IF r.sched > 0 THEN lend - (s.ts + r.sched) ELSE svc   \* sched = 0: unthrottled, or first request of a throttled task
        completed == r.ext \/ RunnerDone(c, r)                        \* complete.is_set() or runner.completed (r.ext = s.cset)
        prog == IF completed THEN PD(c) ELSE r.p
        smp == [client |-> c.client, task |-> c.task, ty |-> r.ty, abs |-> r.issue, rs |-> r.ws, lat |-> lat, svc |-> svc,
                proc |-> r.ret - r.issue, tp |-> r.we - s.ts, ops |-> r.w, unit |-> r.unit, p |-> prog,
                pone |-> (prog = PD(c)), success |-> r.ok]
    IN [s EXCEPT !.pc = IF completed THEN "done" ELSE "loopnext",
                 !.last = Accum(c, s.last, [r EXCEPT !.nsamples = 1, !.s = smp]), !.n = s.n + 1, !.cur = NoReq]

(* task_progress_control.next(): the ONLY other place where the time-based loop control reads the clock *)
LoopNextStep(c, s) ==
    [s EXCEPT !.pc = "next", !.lcIt = IF c.kind = "iter" THEN @ + 1 ELSE @, !.lcNow = IF c.kind = "time" THEN s.now ELSE @]

-----------------------------------------------------------------------------
(* The model *)
Init == /\ cfg \in Configs
        /\ \E t0 \in StartTimes : st = InitState(t0)
        /\ act = [name |-> "Init"]

Start  == st.pc = "init"   /\ st' = StartStep(cfg, st)  /\ act' = [name |-> "Start"]
RampUp == st.pc = "rampup" /\ st' = RampUpStep(cfg, st) /\ act' = [name |-> "RampUp"]
Finish == st.pc = "next" /\ Completed(cfg, st)  /\ st' = FinishStep(st) /\ act' = [name |-> "Finish"]
Yield  == /\ st.pc = "next" /\ ~Completed(cfg, st)
          /\ \E inc \in (IF st.del = "poisson" THEN PoissonIncs ELSE {0}) :
                /\ st' = YieldStep(cfg, st, inc)
                /\ act' = [name |-> "Yield", poisson |-> st.del = "poisson", inc |-> inc]
SleepUntil == /\ st.pc = "sleep"
              /\ \E xo \in {0} \cup (IF st.cur.n \in WaitExtAt THEN {k \in WaitOffsets : k < WaitLength(st)} ELSE {}) :
                    st' = SleepStep(st, xo) /\ act' = [name |-> "SleepUntil", xo |-> xo]
Issue  == st.pc = "issue" /\ st' = IssueStep(st) /\ act' = [name |-> "Issue"]
WireStart == st.pc = "wire" /\ \E d \in D1s : st' = WireStartStep(st, d) /\ act' = [name |-> "WireStart", d |-> d]
SvcChoices(c) == Svcs \cup (IF c.sched = "unthrottled" THEN {}
                            ELSE {x \in {Interval(c, 1) - k : k \in NearOffsets} : x >= 0})
WireEnd == st.pc = "inflight" /\ \E d \in SvcChoices(cfg) : st' = WireEndStep(st, d) /\ act' = [name |-> "WireEnd", d |-> d]
Return ==
    /\ st.pc = "returning"
    /\ \E d \in D2s, ext \in (IF st.cur.n \in ExtAt THEN BOOLEAN ELSE {FALSE}) :
         \* a time-based loop needs time to pass
         /\ (cfg.kind = "time" => st.now + d > st.cur.issue)
         /\ \/ \E w \in Weights :
                 /\ st' = ReturnStep(cfg, st, d, TRUE, w, cfg.runit, ext)
                 /\ act' = [name |-> "Return", d |-> d, ok |-> TRUE, w |-> w, err |-> "", ext |-> ext]
            \/ /\ st.nerr < MaxErrors
               /\ \E k \in ErrKinds : \E w \in (IF k = "soft" THEN Weights ELSE {0}) :
                    /\ st' = ReturnStep(cfg, st, d, FALSE, w, IF k = "soft" THEN cfg.runit ELSE "ops", ext)
                    /\ act' = [name |-> "Return", d |-> d, ok |-> FALSE, w |-> w, err |-> k, ext |-> ext]
AfterRequest == st.pc = "feedback" /\ st' = AfterStep(cfg, st)
                /\ act' = [name |-> IF st'.pc = "aborted" THEN "Abort" ELSE "AfterRequest"]
Record == st.pc = "record" /\ st' = RecordStep(cfg, st)
          /\ act' = [name |-> IF st'.pc = "done" THEN "Finish" ELSE "Record"]
LoopNext == st.pc = "loopnext" /\ st' = LoopNextStep(cfg, st) /\ act' = [name |-> "LoopNext"]

Next == \/ (Start \/ RampUp \/ Finish \/ Yield \/ SleepUntil \/ Issue \/ WireStart \/ WireEnd \/ Return
              \/ AfterRequest \/ Record \/ LoopNext) /\ UNCHANGED cfg

Spec == Init /\ [][Next]_vars

-----------------------------------------------------------------------------
(* PROPERTIES.  c: configuration, ts: instant at which the client started the task, prev / r: previous and current       *)
(* completed request (NoReq if none), tol: tolerance in ticks (0 when the arithmetic is exact)                            *)

HasS(r) == r.nsamples >= 1
Ty(r) == IF HasS(r) THEN r.s.ty ELSE r.ty
AbortsHere(c, r) == AbortExpected(c) /\ r.w > 0   \* (exceptions report weight 0)

ReqClauses == {"C04_TimingOrder", "C04_ProcessingWithinRequest", "C04_ServiceTimeIsWireSpan", "C04_NotBeforeSchedule", "C04_LatencyFromSchedule",
               "C04_LatencyAtLeastService", "C04_UnthrottledLatencyIsService", "C04_OneSamplePerRequest", "C04_SampleCarries",
               "C05_WarmupFlagIter", "C05_WarmupFlagTime", "C05_StopsAfterPeriod", "C05_TypeMonotone", "C05_Progress",
               "C05_SchedMonotone", "C05_DeterministicSpacing", "C05_RampUp"}

ReqClause(name, c, ts, prev, r, tol) ==
  CASE name = "C04_TimingOrder" ->            \* processing_time >= service_time >= 0
         HasS(r) => (r.s.svc >= 0 /\ r.s.proc >= r.s.svc - tol)
    [] name = "C04_ProcessingWithinRequest" -> \* service time + client-side overhead OF THIS REQUEST: nothing from before the request
         HasS(r) => r.s.proc <= r.ret - r.issue + tol   \* was issued (the wait for the scheduled time is not processing time)
    [] name = "C04_ServiceTimeIsWireSpan" ->  \* service time = span between sending the request and receiving the response
         HasS(r) => Near(r.s.svc, r.we - r.ws, tol)
    [] name = "C04_NotBeforeSchedule" ->      \* throttled: not issued before the scheduled time
         r.sched > 0 => r.issue >= ts + r.sched - tol
    [] name = "C04_LatencyFromSchedule" ->    \* throttled: latency runs from the scheduled time to the response
         (HasS(r) /\ r.sched > 0) => Near(r.s.lat, r.we - (ts + r.sched), tol)
    [] name = "C04_LatencyAtLeastService" ->
         HasS(r) => r.s.lat >= r.s.svc - tol
    [] name = "C04_UnthrottledLatencyIsService" ->
         (HasS(r) /\ c.sched = "unthrottled") => r.s.lat = r.s.svc
    [] name = "C04_OneSamplePerRequest" ->    \* (the request on which the unit check aborts the task records none)
         AbortsHere(c, r) \/ r.nsamples = 1
    [] name = "C04_SampleCarries" ->          \* client, task, sample type, issue time
         HasS(r) => (r.s.client = c.client /\ r.s.task = c.task /\ r.s.ty = r.ty /\ Near(r.s.abs, r.issue, tol))
    [] name = "C05_WarmupFlagIter" ->         \* the first wi requests are warm-up, the others are not
         c.kind = "iter" => ((Ty(r) = Warmup) <=> (r.n <= c.wi))
    [] name = "C05_WarmupFlagTime" ->         \* decided after the warm-up period: normal; finished before it: warm-up;
         c.kind = "time" =>                   \* the request in between (one per client) may be either
            /\ (r.yat - ts >= c.wt + tol) => Ty(r) = Normal
            /\ (r.ret - ts < c.wt - tol) => Ty(r) = Warmup
    [] name = "C05_StopsAfterPeriod" ->       \* no request is decided once warm-up + time period have elapsed
         c.kind = "time" => r.yat - ts < Duration(c) + tol
    [] name = "C05_TypeMonotone" ->
         prev.n > 0 => Ty(prev) <= Ty(r)
    [] name = "C05_Progress" ->               \* within [0,1], never decreasing
         HasS(r) => /\ r.s.p >= 0 /\ r.s.p <= PD(c)
                    /\ (prev.n > 0 /\ HasS(prev)) => prev.s.p <= r.s.p
    [] name = "C05_SchedMonotone" ->
         r.sched >= 0 /\ (prev.n > 0 => prev.sched <= r.sched)
    [] name = "C05_DeterministicSpacing" ->   \* weight * C / T apart, weight = the latest weight > 0 a request reported (successful or not)
         (c.sched = "deterministic" /\ ~AbortExpected(c) /\ prev.n > 0 /\ prev.lw > 0) =>
            Abs((r.sched - prev.sched) * c.tnum - prev.lw * c.clients * c.tps * c.tden) <= tol * c.tnum
    [] name = "C05_RampUp" ->                 \* the client enters its loop ramp * idx / total after the start
         r.n = 1 => Abs((r.yat - ts) * c.total - c.ramp * c.idx) <= tol * c.total

ReqL1(c, ts, prev, r, tol) == {name \in ReqClauses : ~ReqClause(name, c, ts, prev, r, tol)}

EndClauses == {"C05_IterationCount", "C05_FinalProgressIsOne"}

(* n: number of executed requests, last: the last completed request, aborted: the executor raised *)
EndClause(name, c, n, last, aborted) ==
  CASE name = "C05_IterationCount" ->
         (c.kind = "iter" /\ ~AbortExpected(c)) => /\ ~aborted
                                                   /\ IF last.exts THEN n <= TotalIt(c) ELSE n = TotalIt(c)
    [] name = "C05_FinalProgressIsOne" ->
         (c.kind = "iter" /\ ~AbortExpected(c) /\ n > 0 /\ HasS(last)) => last.s.pone

EndL1(c, n, last, aborted) == {name \in EndClauses : ~EndClause(name, c, n, last, aborted)}

(* as checked by TLC on the model *)
RequestProperties == [][st'.n = st.n + 1 => ReqL1(cfg, st'.ts, st.last, st'.last, 0) = {}]_vars
EndProperties == st.pc \in {"done", "aborted"} => EndL1(cfg, st.n + (IF st.pc = "aborted" THEN 1 ELSE 0), st.last, st.pc = "aborted") = {}

(* sanity of the model itself *)
TypeOK == /\ st.pc \in {"init", "rampup", "next", "sleep", "issue", "wire", "inflight", "returning", "feedback",
                        "record", "loopnext", "done", "aborted"}
          /\ st.now >= st.ts /\ st.sched >= 0 /\ st.n >= 0
          /\ (st.pc = "aborted" => AbortExpected(cfg))
          /\ (st.del = "unthrottled" <=> st.first) /\ (st.first => st.cw = 0)

(* clauses the trace specification can attribute: used by the self-test cfgs *)
NoC04Violation == [][st'.n = st.n + 1 => {x \in ReqL1(cfg, st'.ts, st.last, st'.last, 0) : x \in {"C04_LatencyFromSchedule"}} = {}]_vars
NoC05Violation == [][st'.n = st.n + 1 => {x \in ReqL1(cfg, st'.ts, st.last, st'.last, 0) : x \in {"C05_WarmupFlagTime"}} = {}]_vars
=============================================================================
