---- MODULE MC_ClientLoop ----
EXTENDS ClientLoop

Cfg(loop, pace, place, tps) ==
    [kind |-> loop[1], wi |-> loop[2], it |-> loop[3], wt |-> loop[4], tp |-> loop[5],
     sched |-> pace[1], tnum |-> pace[2], tden |-> pace[3], tunit |-> pace[4], runit |-> pace[5],
     clients |-> place[1], idx |-> place[2], total |-> place[3], ramp |-> place[4],
     tps |-> tps, client |-> (IF Len(place) >= 5 THEN place[5] ELSE place[2]), task |-> "t", rc |-> 0]

(* what the track loader / the exact arithmetic of the conformance runs require of a configuration *)
Valid(c) == /\ PD(c) > 0 /\ c.clients <= c.total
            /\ (c.ramp > 0 => c.idx < c.total)      \* ramp-up is not combined with an over-committed element
            /\ (c.ramp > 0 => (c.kind = "time" /\ c.ramp <= c.wt))
            /\ (c.ramp * c.idx) % c.total = 0
            /\ (c.sched # "unthrottled" => \A w \in (Weights \cup {1}) \ {0} : (w * c.clients * c.tps * c.tden) % c.tnum = 0)

Mk(loops, paces, places, tpss) == {c \in {Cfg(l, p, q, t) : l \in loops, p \in paces, q \in places, t \in tpss} : Valid(c)}

IterLoops(WI, IT) == {<<"iter", a, b, 0, 0>> : a \in WI, b \in IT}
TimeLoops(WT, TP) == {<<"time", 0, 0, a, b>> : a \in WT, b \in TP}

Unthrottled == <<"unthrottled", 1, 1, "ops", "ops">>
Det(tn, td)     == <<"deterministic", tn, td, "ops", "ops">>
Poi(tn, td)     == <<"poisson", tn, td, "ops", "ops">>
DetDocs(tn, td) == <<"deterministic", tn, td, "docs", "docs">>
DetConv(tn, td) == <<"deterministic", tn, td, "ops", "docs">>     \* runner reports docs, target in ops/s: one op per request
DetAbort(tn, td) == <<"deterministic", tn, td, "docs", "ops">>    \* target in docs/s, runner reports ops: the task aborts
PoiConv(tn, td) == <<"poisson", tn, td, "ops", "docs">>

Single == <<1, 0, 1, 0>>

(* places derived from the declaration of a schedule element: <<clients of the sub-task, idx, total, ramp, executing client>> *)
ElemPlace(e, j, i, ramp) == LET pl == Placement(e, j, i) IN <<pl.clients, pl.idx, pl.total, ramp, pl.executes>>
E22  == [cap |-> 0, clients |-> <<2, 2>>]        \* parallel { a: 2 clients, b: 2 clients }
E121 == [cap |-> 0, clients |-> <<1, 2, 1>>]
E111over2 == [cap |-> 2, clients |-> <<1, 1, 1>>] \* over-committed: 3 one-client tasks on 2 clients
E22over2  == [cap |-> 2, clients |-> <<2, 2>>]

(* runners that expose completed / percent_completed *)
WithRc(S, K) == {[c EXCEPT !.rc = k] : c \in S, k \in K}
WithRcLate(S) == {[c EXCEPT !.rc = TotalIt(c) + 3] : c \in {x \in S : x.kind = "iter"}}   \* never completes within the iterations

(* ---- C04, quick: every pacing / unit variant, service times up to 2*interval+1 ---- *)
C04QuickConfigs ==
    Mk(IterLoops({0, 1}, {2}) \cup TimeLoops({2}, {3}),
       {Unthrottled, Det(1, 2), Poi(1, 2), DetDocs(1, 2), DetConv(1, 2), DetAbort(1, 2)}, {Single}, {1})
    \* 1 tick = 1/1024 s, 4 ops/s: a client that comes back 0, 1, 2 ticks (< 1 ms .. 2 ms) before its next scheduled time
    \cup Mk(IterLoops({0}, {3}), {Det(4, 1)}, {Single}, {1024})
    \* over-committed element: the third one-client task is executed by client 0
    \cup Mk(IterLoops({1}, {2}), {Unthrottled}, {ElemPlace(E111over2, 3, 0, 0)}, {1})
C04QuickSvcs == {0, 1, 2, 5}

(* ---- C05, quick: loop-control boundaries, clients, ramp-up ---- *)
C05QuickConfigs ==
    Mk(IterLoops({0, 1, 2}, {1, 2}), {Unthrottled, Det(1, 1)}, {Single, <<2, 1, 2, 0>>}, {1})
    \cup Mk(IterLoops({0, 2}, {3}), {Unthrottled, Det(1, 1)}, {Single}, {1})
    \cup Mk(IterLoops({1}, {2}), {Poi(1, 1)}, {Single, <<2, 1, 2, 0>>}, {1})
    \cup Mk(TimeLoops({0, 1, 2, 3}, {1, 3}), {Unthrottled, Det(1, 1)}, {Single, <<2, 1, 2, 0>>, <<2, 1, 2, 2>>, <<1, 1, 2, 2>>}, {1})
    \cup Mk(TimeLoops({2}, {3}), {Poi(1, 1)}, {<<2, 1, 2, 2>>}, {1})
    \* ramp-up inside a parallel element of two two-client tasks / three tasks
    \cup Mk(TimeLoops({4}, {2}), {Unthrottled, Det(1, 1)}, {ElemPlace(E22, 1, 1, 4), ElemPlace(E22, 2, 0, 4), ElemPlace(E22, 2, 1, 4), ElemPlace(E121, 2, 1, 4)}, {1})
    \* runner with a completion API: never complete within the iterations / complete at its 2nd call
    \cup WithRcLate(Mk(IterLoops({0, 1}, {2}), {Unthrottled, Det(1, 1)}, {Single}, {1}))
    \cup WithRc(Mk(IterLoops({1}, {2}) \cup TimeLoops({1}, {2}), {Unthrottled}, {Single}, {1}), {2})
C05QuickSvcs == {0, 1, 3}

(* ---- thorough ---- *)
C04ThoroughConfigs ==
    Mk(IterLoops({0, 1}, {2, 3}) \cup TimeLoops({0, 2}, {3}) \cup TimeLoops({2}, {4}),
       {Unthrottled, Det(1, 2), Poi(1, 2), DetDocs(1, 2), DetConv(1, 2), DetAbort(1, 2)},
       {Single, <<2, 1, 2, 0>>}, {1})
    \cup Mk(IterLoops({0, 1}, {3}), {Det(4, 1), Det(8, 1)}, {Single, <<2, 1, 2, 0>>}, {1024})
    \cup Mk(IterLoops({1}, {2}), {Unthrottled, Det(1, 2)}, {ElemPlace(E111over2, 3, 0, 0), ElemPlace(E22over2, 2, 1, 0)}, {1})
C04ThoroughSvcs == {0, 1, 2, 3, 5}

C05ThoroughConfigs ==
    Mk(IterLoops({0, 1, 2}, {1, 2, 3}), {Unthrottled, Det(1, 1), Det(1, 2), Poi(1, 1)}, {Single, <<2, 1, 2, 0>>, <<2, 0, 4, 0>>}, {1})
    \cup Mk(TimeLoops({0, 1, 2, 3, 4}, {1, 2, 3, 4}), {Unthrottled, Det(1, 1), Det(1, 2)},
            {Single, <<2, 1, 2, 0>>, <<2, 1, 2, 2>>, <<1, 1, 2, 2>>, <<2, 1, 4, 4>>, <<2, 3, 4, 4>>}, {1})
    \cup Mk(TimeLoops({0, 2}, {3}), {Poi(1, 1)}, {Single, <<2, 1, 2, 2>>}, {1})
    \cup Mk(TimeLoops({4}, {2, 3}), {Unthrottled, Det(1, 1)},
            {ElemPlace(E22, 1, 1, 4), ElemPlace(E22, 2, 0, 4), ElemPlace(E22, 2, 1, 4), ElemPlace(E121, 2, 0, 4), ElemPlace(E121, 2, 1, 4), ElemPlace(E121, 3, 0, 4)}, {1})
    \cup WithRcLate(Mk(IterLoops({0, 1, 2}, {1, 2}), {Unthrottled, Det(1, 1), Poi(1, 1)}, {Single}, {1}))
    \cup WithRc(Mk(IterLoops({0, 1}, {2, 3}) \cup TimeLoops({0, 1}, {2, 3}), {Unthrottled, Det(1, 1)}, {Single}, {1}), {1, 2})
C05ThoroughSvcs == {0, 1, 3}

(* ---- simulation (S2C): wide alphabets, 1 tick = 1 s and 1 tick = 1/4 s ---- *)
SimConfigs ==
    Mk(IterLoops({0, 1, 3}, {2, 5, 8}) \cup TimeLoops({0, 2, 4}, {3, 8, 12}),
       {Unthrottled, Det(1, 2), Det(1, 1), Poi(1, 2), DetDocs(1, 1), DetConv(1, 2), DetAbort(1, 1), PoiConv(1, 1)},
       {Single, <<2, 0, 2, 0>>, <<2, 1, 2, 0>>, <<2, 1, 2, 2>>, <<1, 1, 2, 2>>, <<2, 3, 4, 4>>, <<4, 2, 4, 2>>}, {1})
    \cup Mk(IterLoops({0, 2}, {2, 6}) \cup TimeLoops({0, 4, 8}, {6, 12, 24}),
       {Unthrottled, Det(2, 1), Det(1, 1), Poi(4, 1), DetConv(2, 1)},
       {Single, <<2, 1, 2, 0>>, <<2, 1, 2, 4>>, <<2, 3, 4, 8>>}, {4})
    \* 1 tick = 1/1024 s: clients that come back within the last ticks (< 1 ms) before the next scheduled time
    \cup Mk(IterLoops({0, 1}, {3, 5, 8}) \cup TimeLoops({0, 512}, {1024, 2048}),
       {Det(4, 1), Det(2, 1), Det(8, 1)}, {Single, <<2, 0, 2, 0>>, <<2, 1, 2, 0>>, <<4, 1, 4, 0>>}, {1024})
    \* places derived from element declarations (ramp-up inside a parallel element, over-committed elements)
    \cup Mk(TimeLoops({4, 8}, {3, 8}), {Unthrottled, Det(1, 1), Det(1, 2)},
       {ElemPlace(E22, 1, 1, 4), ElemPlace(E22, 2, 0, 4), ElemPlace(E22, 2, 1, 4), ElemPlace(E121, 2, 0, 4), ElemPlace(E121, 3, 0, 4)}, {1})
    \cup Mk(IterLoops({0, 1}, {2, 5}), {Unthrottled, Det(1, 1)},
       {ElemPlace(E111over2, 3, 0, 0), ElemPlace(E22over2, 2, 0, 0), ElemPlace(E22over2, 2, 1, 0)}, {1})
    \* runners with a completion API
    \cup WithRcLate(Mk(IterLoops({0, 1, 3}, {2, 5}), {Unthrottled, Det(1, 2), Poi(1, 2)}, {Single, <<2, 1, 2, 0>>}, {1}))
    \cup WithRc(Mk(IterLoops({0, 1, 3}, {2, 5}) \cup TimeLoops({0, 2}, {3, 8}), {Unthrottled, Det(1, 2)}, {Single}, {1}), {2, 3})
SimSvcs == {0, 1, 2, 3, 5, 9}

Wait123 == {1, 2, 3}
Ext23 == {2, 3}
Ext36 == {3, 6}
Wait1to6 == {1, 2, 3, 5, 6}
Near012 == {0, 1, 2}
Near0123 == {0, 1, 2, 3}
NearNone == {}
D01 == {0, 1}
D0 == {0}
W12 == {1, 2}
W012 == {0, 1, 2, 4}
ErrApi == {"api"}
ErrApiSoft == {"api", "soft"}     \* "soft": the runner returns success: False with a weight (no exception)
ErrAll == {"api", "transport", "timeout", "soft"}
Inc013 == {0, 1, 3}
Inc0125 == {0, 1, 2, 5}
Ext2 == {2}
Ext47 == {4, 7}
ExtNone == {}
T3 == {3}
T05 == {0, 5}
====
