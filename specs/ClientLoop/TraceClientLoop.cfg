SPECIFICATION TSpec
CONSTANTS
  Configs = {}
  StartTimes = {}
  D1s = {}
  Svcs = {}
  D2s = {}
  NearOffsets = {}
  Weights = {}
  ErrKinds = {}
  MaxErrors = 0
  PoissonIncs = {}
  ExtAt = {}
  WaitExtAt = {}
  WaitOffsets = {}
  TimerBeforeRampUp = TRUE
  LatencyEndsAtResponse = TRUE
CHECK_DEADLOCK FALSE
