--------------------------- MODULE DriverProgress ---------------------------
(***************************************************************************)
(* The progress the DRIVER reports while a task runs (C05: "reported        *)
(* progress never decreases and stays within [0,1]"):                      *)
(*   esrally.driver.driver.Driver.update_samples          (most_recent_sample_per_client)            *)
(*   Driver.update_progress_message                       (mean over the clients that reported)      *)
(*   Driver.joinpoint_reached                             (100% + per-step reset)                    *)
(* as driven by DriverActor: UpdateSamples messages of the workers, the     *)
(* driver's own wake-ups, JoinPointReached of every worker between tasks.   *)
(*                                                                         *)
(* A challenge of consecutive tasks; task t is executed by clients          *)
(* 0..nc[t]-1, each recording n samples with progress k/n (k = 1..n, what   *)
(* IterationBased reports).  Clients live in workers (grp); a worker        *)
(* delivers, at its wake-up, all samples its clients have recorded so far.  *)
(*                                                                         *)
(* EqualSpeed = TRUE: the clients of a task advance in lockstep.  This is    *)
(* the environment under which the CODE AS IT IS keeps the reported         *)
(* progress monotone.  EqualSpeed = FALSE (clients of different speed): the  *)
(* mean is taken over the clients that have reported so far, so a slower     *)
(* client reporting for the first time pulls the message down - TLC shows   *)
(* it (DriverProgress.pinned.speed.cfg); see the assumptions of c05.py.     *)
(* ClearAtJoinPoint = FALSE: the per-step reset is missing (self-test).     *)
(***************************************************************************)
EXTENDS Integers, Sequences, FiniteSets, TLC

CONSTANTS PConfigs,          \* set of [nc |-> <<clients of task 1, ..>>, n |-> samples per client and task, grp |-> <<worker of client 0, ..>>]
          EqualSpeed, ClearAtJoinPoint

VARIABLES pcfg, ds, pact
pvars == <<pcfg, ds, pact>>
pview == <<pcfg, ds>>

Max(a, b) == IF a >= b THEN a ELSE b
Min(a, b) == IF a <= b THEN a ELSE b
M(c) == Len(c.grp)                         \* number of clients of the challenge (client id = index - 1)
NoSampleYet == [t |-> 0, k |-> 0]

(* Python's round(): half to even *)
RoundHalfEven(num, den) ==
    LET q == num \div den
        r == num % den
    IN IF 2 * r < den THEN q ELSE IF 2 * r > den THEN q + 1 ELSE IF q % 2 = 0 THEN q ELSE q + 1

RECURSIVE SumK(_, _)
SumK(rc, i) == IF i = 0 THEN 0 ELSE (IF rc[i].t > 0 THEN rc[i].k ELSE 0) + SumK(rc, i - 1)
RECURSIVE CountK(_, _)
CountK(rc, i) == IF i = 0 THEN 0 ELSE (IF rc[i].t > 0 THEN 1 ELSE 0) + CountK(rc, i - 1)

(* update_progress_message: mean of the most recent sample's progress over the clients that have one *)
ReportValue(c, rc) ==
    LET cnt == CountK(rc, Len(rc))
    IN IF cnt = 0 THEN 0 ELSE RoundHalfEven(100 * SumK(rc, Len(rc)), c.n * cnt)

InitDs(c) == [task |-> 1, prod |-> [i \in 1..M(c) |-> 0], dlv |-> [i \in 1..M(c) |-> 0],
              recent |-> [i \in 1..M(c) |-> NoSampleYet],
              last |-> -1,      \* the previous report of the current task (-1: none yet)
              maxk |-> 0,       \* progress (in 1/n) of the most advanced sample of the current task the driver has received
              grew |-> FALSE,   \* a client delivered its FIRST sample of the current task since the previous report
              rep |-> [task |-> 0, v |-> 0, fin |-> FALSE, tog |-> FALSE]]

Running(c, s) == s.task <= Len(c.nc)
InTask(c, s, i) == i <= c.nc[s.task]

DeliverStep(c, s, cs) ==     \* cs: set of client indices whose new samples arrive in one UpdateSamples message
    [s EXCEPT !.dlv = [i \in 1..M(c) |-> IF i \in cs THEN s.prod[i] ELSE s.dlv[i]],
              !.recent = [i \in 1..M(c) |-> IF i \in cs THEN [t |-> s.task, k |-> s.prod[i]] ELSE s.recent[i]],
              !.maxk = LET ks == {s.prod[i] : i \in cs} \cup {s.maxk} IN CHOOSE x \in ks : \A y \in ks : x >= y,
              !.grew = s.grew \/ \E i \in cs : s.dlv[i] = 0]

ReportStep(c, s) ==
    LET v == ReportValue(c, s.recent)
    IN [s EXCEPT !.last = v, !.grew = FALSE, !.rep = [task |-> s.task, v |-> v, fin |-> FALSE, tog |-> ~s.rep.tog]]

JoinStep(c, s) ==            \* the last worker has reached the join point
    [s EXCEPT !.task = @ + 1, !.prod = [i \in 1..M(c) |-> 0], !.dlv = [i \in 1..M(c) |-> 0],
              !.recent = IF ClearAtJoinPoint THEN [i \in 1..M(c) |-> NoSampleYet] ELSE @,
              !.last = -1, !.maxk = 0, !.grew = FALSE,
              !.rep = [task |-> s.task, v |-> 100, fin |-> TRUE, tog |-> ~s.rep.tog]]

PInit == pcfg \in PConfigs /\ ds = InitDs(pcfg) /\ pact = [name |-> "Init"]

ProduceRound ==  \* lockstep: every client of the task records one more sample
    /\ EqualSpeed /\ Running(pcfg, ds) /\ \E i \in 1..M(pcfg) : InTask(pcfg, ds, i) /\ ds.prod[i] < pcfg.n
    /\ ds' = [ds EXCEPT !.prod = [i \in 1..M(pcfg) |-> IF InTask(pcfg, ds, i) THEN Min(pcfg.n, ds.prod[i] + 1) ELSE 0]]
    /\ pact' = [name |-> "ProduceRound"]
ProduceOne(i) ==
    /\ ~EqualSpeed /\ Running(pcfg, ds) /\ InTask(pcfg, ds, i) /\ ds.prod[i] < pcfg.n
    /\ ds' = [ds EXCEPT !.prod[i] = @ + 1] /\ pact' = [name |-> "ProduceOne", c |-> i - 1]
Deliver(g) ==
    /\ Running(pcfg, ds)
    /\ LET cs == {i \in 1..M(pcfg) : InTask(pcfg, ds, i) /\ pcfg.grp[i] = g /\ ds.prod[i] > ds.dlv[i]}
       IN cs # {} /\ ds' = DeliverStep(pcfg, ds, cs)
    /\ pact' = [name |-> "Deliver", g |-> g]
Report == Running(pcfg, ds) /\ ds' = ReportStep(pcfg, ds) /\ pact' = [name |-> "Report"]
JoinPoint ==
    /\ Running(pcfg, ds) /\ \A i \in 1..M(pcfg) : InTask(pcfg, ds, i) => (ds.prod[i] = pcfg.n /\ ds.dlv[i] = pcfg.n)
    /\ ds' = JoinStep(pcfg, ds) /\ pact' = [name |-> "JoinPoint"]

PNext == (ProduceRound \/ (\E i \in 1..M(pcfg) : ProduceOne(i)) \/ (\E g \in {pcfg.grp[i] : i \in 1..M(pcfg)} : Deliver(g))
          \/ Report \/ JoinPoint) /\ UNCHANGED pcfg
PSpec == PInit /\ [][PNext]_pvars

-----------------------------------------------------------------------------
(* PROPERTIES over observations: n, the previous report of the task (last), the most advanced sample of the task the   *)
(* driver has received (maxk), whether a client delivered its first sample of the task since the previous report        *)
(* (grew), the report r = [task, v (percent), fin]                                                                      *)
PClauses == {"C05_ReportedProgressRange", "C05_ReportedProgressMonotone", "C05_ReportedProgressMonotoneStable", "C05_ReportedProgressNotAboveSamples"}
PClause(name, n, last, maxk, grew, r) ==
  CASE name = "C05_ReportedProgressRange" -> r.v >= 0 /\ r.v <= 100
    [] name = "C05_ReportedProgressMonotone" -> last >= 0 => r.v >= last          \* within one task (clients in lockstep)
    \* clients of ANY speed: as long as the clients that have reported are the same as at the previous report of the task, the
    \* message does not drop (every client's own progress is monotone; a mean over a fixed set of clients is, too)
    [] name = "C05_ReportedProgressMonotoneStable" -> (last >= 0 /\ ~grew) => r.v >= last
    [] name = "C05_ReportedProgressNotAboveSamples" ->                            \* not above the most advanced client of the task
         ~r.fin => (r.v - 1) * n < 100 * maxk
PL1(n, last, maxk, grew, r) == {x \in PClauses : ~PClause(x, n, last, maxk, grew, r)}
(* the clauses that hold for clients of any speed on the code as it is *)
AnySpeedClauses == PClauses \ {"C05_ReportedProgressMonotone"}

ReportProperties == [][ds'.rep # ds.rep => PL1(pcfg.n, ds.last, ds.maxk, ds.grew, ds'.rep) = {}]_pvars
ReportPropertiesAnySpeed == [][ds'.rep # ds.rep => PL1(pcfg.n, ds.last, ds.maxk, ds.grew, ds'.rep) \cap AnySpeedClauses = {}]_pvars
=============================================================================
