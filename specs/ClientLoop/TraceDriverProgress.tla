----------------------- MODULE TraceDriverProgress -----------------------
(***************************************************************************)
(* Validates what the REAL esrally.driver.driver.Driver reported (captured  *)
(* progress_reporter.print / finish) when it was fed, call by call as        *)
(* DriverActor does, with the samples of consecutive tasks                  *)
(* (harness/driverprogress.py).  Input (env VERIF_TRACES): JSON array of     *)
(*   [id, pcfg: [nc, n, grp], events]                                       *)
(* events:  [k |-> "d", cs |-> << [c, k] >>]  one update_samples call: the most recent sample of client c in the batch has   *)
(*                                             progress k/n (read from the real Sample)                                        *)
(*          [k |-> "r", task, v, fin]          one captured report: task (1-based position of the named task in the            *)
(*                                             challenge, 0 = unknown), percentage, followed by finish()                       *)
(* L1: the C05_ReportedProgress* clauses of DriverProgress.tla on the recorded report; L2: the report is the specification's   *)
(* (ReportValue of the model's most_recent_sample_per_client; 100 and the per-step reset at the join point; task named).       *)
(***************************************************************************)
EXTENDS DriverProgress, Json, IOUtils

Traces == JsonDeserialize(IOEnv.VERIF_TRACES)
VARIABLES tid, l, dead, nev
tvars == <<pvars, tid, l, dead, nev>>
Item == Traces[tid]

TInit == /\ tid = 1 /\ l = 0 /\ dead = FALSE /\ nev = 0
         /\ pcfg = Traces[1].pcfg /\ ds = InitDs(Traces[1].pcfg) /\ pact = [name |-> "Init"]

Begin == /\ tid <= Len(Traces) /\ l = 0
         /\ pcfg' = Item.pcfg /\ ds' = InitDs(Item.pcfg) /\ dead' = FALSE /\ l' = 1
         /\ UNCHANGED <<tid, nev, pact>>

Consume ==
    /\ tid <= Len(Traces) /\ l >= 1 /\ l <= Len(Item.events)
    /\ LET e == Item.events[l]
       IN IF e.k = "d"
          THEN LET cs == {e.cs[j].c + 1 : j \in 1..Len(e.cs)}
                   kof == [i \in cs |-> (CHOOSE j \in 1..Len(e.cs) : e.cs[j].c + 1 = i)]
                   s1 == [ds EXCEPT !.prod = [i \in 1..M(pcfg) |-> IF i \in cs THEN e.cs[kof[i]].k ELSE ds.prod[i]]]
               IN /\ ds' = DeliverStep(pcfg, s1, cs)
                  /\ dead' = dead
          ELSE LET r == [task |-> e.task, v |-> e.v, fin |-> e.fin]
                   \* every clause on every history.  With clients of different speed (Item.eq = FALSE) the plain Monotone clause
                   \* fails on the code as it is when a slower client reports for the first time (known finding F17; the harness
                   \* matches a failure of that clause ALONE in such a history against it)
                   l1 == PL1(pcfg.n, ds.last, ds.maxk, ds.grew, r)
                   m == IF e.fin THEN JoinStep(pcfg, ds) ELSE ReportStep(pcfg, ds)
                   l2 == Running(pcfg, ds) /\ m.rep.v = e.v /\ m.rep.task = e.task
               IN /\ IF l1 = {} THEN TRUE ELSE PrintT(<<"V", Item.id, l, "L1", l1>>)
                  /\ IF dead \/ l1 # {} \/ l2 THEN TRUE ELSE PrintT(<<"V", Item.id, l, "L2", {}>>)
                  /\ dead' = (dead \/ ~l2)
                  \* the observation accumulators (last, maxk) follow the RECORD; the model's recent map follows the model
                  /\ ds' = [m EXCEPT !.last = IF e.fin THEN -1 ELSE e.v]
    /\ l' = l + 1 /\ nev' = nev + 1
    /\ UNCHANGED <<tid, pcfg, pact>>

EndOfItem ==
    /\ tid <= Len(Traces) /\ l = Len(Item.events) + 1
    /\ nev' = nev + 1
    /\ IF tid < Len(Traces) THEN TRUE ELSE PrintT(<<"DONE", Len(Traces), nev'>>)
    /\ tid' = tid + 1 /\ l' = 0
    /\ UNCHANGED <<pcfg, ds, pact, dead>>

TNext == Begin \/ Consume \/ EndOfItem
TSpec == TInit /\ [][TNext]_tvars
=============================================================================
