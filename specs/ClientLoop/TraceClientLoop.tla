-------------------------- MODULE TraceClientLoop --------------------------
(***************************************************************************)
(* Validates recorded runs of the REAL client loop (schedule_for +          *)
(* AsyncExecutor + execute_single + Sampler + RequestContextHolder on a     *)
(* virtual clock, see harness/clientloop.py) against ClientLoop.tla.        *)
(* Input (env VERIF_TRACES): JSON array of items                            *)
(*   [id, exact, tol, cfg, elem, t0, events: << request >>, end: [n, ny, aborted, capped, stray]]    *)
(* one event per tuple yielded by the schedule / request executed:          *)
(*   sched, ty, p, yat   the yielded tuple and the instant of the yield     *)
(*   ncalls, rnum, rden  calls of random.expovariate before the yield, rate *)
(*   inc                 (input) the increment the scripted expovariate returned                     *)
(*   issue, ws, we, ret  the fake client's log on the virtual clock         *)
(*   ok, w, unit, ext    (input) the scripted outcome (ok = success; w, unit as they came back: 0 "ops" for an exception)  *)
(*   nsamples, s         samples recorded for this request, the first one   *)
(* For every event TLC evaluates                                           *)
(*   L1: the C04_ / C05_ clauses of ClientLoop.tla on the recorded request  *)
(*       (with the item's tolerance: 0 for tick-exact runs),                *)
(*   L2: (tick-exact runs only) the recorded request is the one the         *)
(*       specification produces from its own state and the recorded inputs. *)
(* A line <<"V", id, line, "L1"|"L2", clauses>> is printed per failing      *)
(* event (line = #events + 1: end of run) and <<"DONE", #items, #events>>.  *)
(***************************************************************************)
EXTENDS ClientLoop, Json, IOUtils

Traces == JsonDeserialize(IOEnv.VERIF_TRACES)

VARIABLES tid, l, prev, dead, nev

tvars == <<vars, tid, l, prev, dead, nev>>

Item == Traces[tid]

(* Runs produced through the REAL Allocator / ClientAllocations / AsyncIoAdapter carry the declaration of their schedule *)
(* element (elem.use): the client's index, the number of clients ramping up together and the sub-task's clients are    *)
(* then DERIVED here from the declaration (Placement), not taken from the code's TaskAllocation.  cfg.client is the id  *)
(* of the client whose Elasticsearch client executed the requests (observed).                                          *)
ItemCfg == IF Item.elem.use
           THEN LET pl == Placement(Item.elem, Item.elem.j, Item.elem.i)
                IN [Item.cfg EXCEPT !.idx = pl.idx, !.total = pl.total, !.clients = pl.clients]
           ELSE Item.cfg

RecOf(e, n) == [n |-> n, sched |-> e.sched, ty |-> e.ty, p |-> e.p, yat |-> e.yat, issue |-> e.issue, ws |-> e.ws,
                we |-> e.we, ret |-> e.ret, ok |-> e.ok, w |-> e.w, unit |-> e.unit, ext |-> e.ext,
                nsamples |-> e.nsamples, s |-> e.s, lw |-> 0, exts |-> FALSE]

CanRequest(c, s) == s.pc = "next" /\ ~Completed(c, s)

(* the specification's steps for one request, with the environment's choices taken from the record *)
ModelStep(c, s, e) ==
    LET s1 == YieldStep(c, s, e.inc)
        s2 == IssueStep(SleepStep(s1, 0))   \* e.ext: the event was set when the runner returned (during the wait or the request)
        s3 == WireStartStep(s2, e.ws - e.issue)
        s4 == WireEndStep(s3, e.we - e.ws)
        s5 == ReturnStep(c, s4, e.ret - e.we, e.ok, e.w, e.unit, e.ext)
        s6 == AfterStep(c, s5)
    IN IF s6.pc = "aborted" THEN s6 ELSE RecordStep(c, s6)

TInit == /\ tid = 1 /\ l = 0 /\ prev = NoReq /\ dead = FALSE /\ nev = 0
         /\ cfg = Traces[1].cfg /\ st = InitState(0) /\ act = [name |-> "Init"]

Begin ==
    /\ tid <= Len(Traces) /\ l = 0
    /\ cfg' = ItemCfg
    /\ st' = RampUpStep(ItemCfg, StartStep(ItemCfg, InitState(Item.t0)))
    \* L2 (model of the allocator's wrap-around): the executing client is idx % total
    /\ IF ~Item.elem.use \/ Item.cfg.client = Placement(Item.elem, Item.elem.j, Item.elem.i).executes
       THEN TRUE ELSE PrintT(<<"V", Item.id, 0, "L2", {}>>)
    /\ prev' = NoReq /\ dead' = ~Item.exact /\ l' = 1
    /\ UNCHANGED <<tid, nev, act>>

Consume ==
    /\ tid <= Len(Traces) /\ l >= 1 /\ l <= Len(Item.events)
    /\ LET e == Item.events[l]
           r == Accum(cfg, prev, RecOf(e, l))
           l1 == IF e.executed THEN ReqL1(cfg, Item.t0, prev, r, Item.tol) ELSE {}
           m == ModelStep(cfg, st, e)
           rateOK == /\ e.ncalls = (IF st.del = "poisson" THEN 1 ELSE 0)
                     /\ (e.ncalls = 1 => e.rnum * st.rden = st.rnum * e.rden)
           l2 == /\ CanRequest(cfg, st) /\ e.executed /\ rateOK
                 /\ IF m.pc = "aborted" THEN m.cur = RecOf(e, l) ELSE m.last = r
       IN /\ IF l1 = {} THEN TRUE ELSE PrintT(<<"V", Item.id, l, "L1", l1>>)
          /\ IF dead \/ l1 # {} \/ l2 THEN TRUE ELSE PrintT(<<"V", Item.id, l, "L2", {}>>)
          /\ dead' = (dead \/ ~l2)
          /\ st' = IF dead' THEN st ELSE (IF m.pc = "loopnext" THEN LoopNextStep(cfg, m) ELSE m)
          /\ prev' = IF e.executed THEN r ELSE prev
    /\ l' = l + 1 /\ nev' = nev + 1
    /\ UNCHANGED <<tid, cfg, act>>

EndOfRun ==
    /\ tid <= Len(Traces) /\ l = Len(Item.events) + 1
    /\ LET en == Item.end
           l1 == EndL1(cfg, en.n, prev, en.aborted)
           l2 == /\ ~CanRequest(cfg, st)
                 /\ en.aborted = (st.pc = "aborted")
                 /\ ~en.capped /\ en.n = Len(Item.events) /\ en.ny = Len(Item.events) /\ en.stray = 0
       IN /\ IF l1 = {} THEN TRUE ELSE PrintT(<<"V", Item.id, l, "L1", l1>>)
          /\ IF dead \/ l1 # {} \/ l2 THEN TRUE ELSE PrintT(<<"V", Item.id, l, "L2", {}>>)
    /\ nev' = nev + 1
    /\ IF tid < Len(Traces) THEN TRUE ELSE PrintT(<<"DONE", Len(Traces), nev'>>)
    /\ tid' = tid + 1 /\ l' = 0
    /\ UNCHANGED <<cfg, st, act, prev, dead>>

TNext == Begin \/ Consume \/ EndOfRun
TSpec == TInit /\ [][TNext]_tvars
=============================================================================
