SPECIFICATION PSpec
CONSTANTS
  PConfigs <- PQuick
  EqualSpeed = FALSE
  ClearAtJoinPoint = TRUE
VIEW pview
PROPERTY ReportProperties
CHECK_DEADLOCK FALSE
