SPECIFICATION Spec
CONSTANTS
  Configs <- C04QuickConfigs
  StartTimes <- T3
  D1s <- D01
  Svcs <- C04QuickSvcs
  D2s <- D01
  NearOffsets <- Near012
  Weights <- W12
  ErrKinds <- ErrApi
  MaxErrors = 1
  PoissonIncs <- Inc013
  ExtAt <- Ext2
  WaitExtAt <- Ext23
  WaitOffsets <- Wait123
  TimerBeforeRampUp = TRUE
  LatencyEndsAtResponse = FALSE
VIEW view
INVARIANT TypeOK
PROPERTY NoC04Violation
CHECK_DEADLOCK FALSE
