SPECIFICATION PSpec
CONSTANTS
  PConfigs <- PQuick
  EqualSpeed = TRUE
  ClearAtJoinPoint = TRUE
VIEW pview
PROPERTY ReportProperties
CHECK_DEADLOCK FALSE
