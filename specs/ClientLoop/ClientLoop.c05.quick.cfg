SPECIFICATION Spec
CONSTANTS
  Configs <- C05QuickConfigs
  StartTimes <- T3
  D1s <- D0
  Svcs <- C05QuickSvcs
  D2s <- D01
  NearOffsets <- NearNone
  Weights <- W12
  ErrKinds <- ErrApiSoft
  MaxErrors = 1
  PoissonIncs <- Inc013
  ExtAt <- ExtNone
  WaitExtAt <- ExtNone
  WaitOffsets <- Wait123
  TimerBeforeRampUp = TRUE
  LatencyEndsAtResponse = TRUE
VIEW view
INVARIANT TypeOK
INVARIANT EndProperties
PROPERTY RequestProperties
CHECK_DEADLOCK FALSE
