SPECIFICATION TSpec
CONSTANTS
  PConfigs = {}
  EqualSpeed = TRUE
  ClearAtJoinPoint = TRUE
CHECK_DEADLOCK FALSE
