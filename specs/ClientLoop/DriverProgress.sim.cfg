SPECIFICATION PSpec
CONSTANTS
  PConfigs <- PSim
  EqualSpeed = TRUE
  ClearAtJoinPoint = TRUE
PROPERTY ReportProperties
CHECK_DEADLOCK FALSE
