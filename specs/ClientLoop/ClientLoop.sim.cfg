SPECIFICATION Spec
CONSTANTS
  Configs <- SimConfigs
  StartTimes <- T05
  D1s <- D01
  Svcs <- SimSvcs
  D2s <- D01
  NearOffsets <- Near0123
  Weights <- W012
  ErrKinds <- ErrAll
  MaxErrors = 2
  PoissonIncs <- Inc0125
  ExtAt <- Ext47
  WaitExtAt <- Ext36
  WaitOffsets <- Wait1to6
  TimerBeforeRampUp = TRUE
  LatencyEndsAtResponse = TRUE
INVARIANT TypeOK
INVARIANT EndProperties
PROPERTY RequestProperties
CHECK_DEADLOCK FALSE
