SPECIFICATION PSpec
CONSTANTS
  PConfigs <- PQuick
  EqualSpeed = FALSE
  ClearAtJoinPoint = TRUE
VIEW pview
PROPERTY ReportPropertiesAnySpeed
CHECK_DEADLOCK FALSE
