SPECIFICATION PSpec
CONSTANTS
  PConfigs <- PSim
  EqualSpeed = FALSE
  ClearAtJoinPoint = TRUE
PROPERTY ReportPropertiesAnySpeed
CHECK_DEADLOCK FALSE
