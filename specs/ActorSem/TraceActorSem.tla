--------------------------- MODULE TraceActorSem ---------------------------
(* Observation logs [id, system, senders, count, recvd: <<[src, n]>>, attempts, poisonToSender, poisonIsOriginal,            *)
(*  wakeDelayMs, wakeElapsedMs, wakeSenderIsSelf, childExitSeenByParent, deadLetterDelivered] validated against ActorSem.tla *)
EXTENDS ActorSem, Json, IOUtils

Items == JsonDeserialize(IOEnv.VERIF_TRACES)
VARIABLE i
ToSet(q) == {q[k] : k \in 1..Len(q)}

Clauses == {"FifoPerPair", "ExactlyOnce", "RetryOnceThenPoison", "WakeupNotEarly", "WakeupFromSelf", "ChildExitNotifiesParent", "NoDeliveryToDeadActor"}
Holds(c, it) ==
    CASE c = "FifoPerPair" -> FifoPerPairOf(it.recvd, ToSet(it.senders))
      [] c = "ExactlyOnce" -> \A s \in ToSet(it.senders) : Len(Project(it.recvd, s)) = it.count
      [] c = "RetryOnceThenPoison" -> it.attempts = 2 /\ it.poisonToSender /\ it.poisonIsOriginal
      [] c = "WakeupNotEarly" -> it.wakeElapsedMs >= it.wakeDelayMs
      [] c = "WakeupFromSelf" -> it.wakeSenderIsSelf
      [] c = "ChildExitNotifiesParent" -> it.childExitSeenByParent
      [] c = "NoDeliveryToDeadActor" -> ~it.deadLetterDelivered

TInit == i = 1 /\ chan = <<>> /\ sent = <<>> /\ recvd = <<>>
TNext == /\ i <= Len(Items)
         /\ LET it == Items[i]  l1 == {c \in Clauses : ~Holds(c, it)}
            IN \A c \in l1 : PrintT(<<"V", it.id, 1, "L1", {c}>>)
         /\ IF i < Len(Items) THEN TRUE ELSE PrintT(<<"DONE", Len(Items), Len(Items)>>)
         /\ i' = i + 1 /\ UNCHANGED vars
TSpec == TInit /\ [][TNext]_<<vars, i>>
=============================================================================
