------------------------------ MODULE ActorSem ------------------------------
(***************************************************************************)
(* The actor-system semantics that every actor-protocol module of this     *)
(* directory (RaceDriver, Mechanic, TrackPrep) and the simulated actor     *)
(* system harness/simactor.py ASSUME of Thespian:                          *)
(*   - messages of one (sender, receiver) pair are delivered in FIFO order *)
(*     and exactly once; different pairs interleave arbitrarily;           *)
(*   - a handler that raises is invoked once more with the same message,   *)
(*     then the sender receives PoisonMessage(original message);           *)
(*   - wakeupAfter(d) delivers a WakeupMessage not before d has elapsed,   *)
(*     its sender is the actor itself;                                     *)
(*   - when an actor exits its parent receives ChildActorExited; a message *)
(*     to an actor that has exited is not delivered.                       *)
(* The module is a tiny network model (Senders -> one receiver over FIFO   *)
(* channels) whose invariant is FIFO-per-pair, plus the clause predicates  *)
(* that TraceActorSem.tla evaluates on observation logs recorded from the  *)
(* REAL Thespian actor system (multiprocQueueBase) and from SimActorSystem *)
(* running the same toy actors.                                            *)
(***************************************************************************)
EXTENDS Naturals, Sequences, FiniteSets, TLC

CONSTANTS Senders, Count     \* every sender sends 1..Count in order

VARIABLES chan, sent, recvd
vars == <<chan, sent, recvd>>

Init == chan = [s \in Senders |-> <<>>] /\ sent = [s \in Senders |-> 0] /\ recvd = <<>>
SendNext(s) == /\ sent[s] < Count
               /\ sent' = [sent EXCEPT ![s] = @ + 1]
               /\ chan' = [chan EXCEPT ![s] = Append(@, sent[s] + 1)]
               /\ UNCHANGED recvd
Deliver(s) == /\ chan[s] # <<>>
              /\ recvd' = Append(recvd, [src |-> s, n |-> Head(chan[s])])
              /\ chan' = [chan EXCEPT ![s] = Tail(@)]
              /\ UNCHANGED sent
Next == \E s \in Senders : SendNext(s) \/ Deliver(s)
Spec == Init /\ [][Next]_vars

RECURSIVE Project(_, _)
Project(log, s) == IF log = <<>> THEN <<>>
                   ELSE IF Head(log).src = s THEN <<Head(log).n>> \o Project(Tail(log), s) ELSE Project(Tail(log), s)

(* what was received from s so far is exactly the prefix 1..k of what s sent, in order *)
FifoPerPairOf(log, S) == \A s \in S : LET p == Project(log, s) IN \A k \in 1..Len(p) : p[k] = k
FifoPerPair == FifoPerPairOf(recvd, Senders)
ExactlyOnceAtEnd == (\A s \in Senders : sent[s] = Count /\ chan[s] = <<>>) => \A s \in Senders : Len(Project(recvd, s)) = Count
=============================================================================
