---- MODULE MC_ActorSem ----
EXTENDS ActorSem
S2 == {"a", "b"}
====
