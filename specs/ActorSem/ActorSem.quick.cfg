SPECIFICATION Spec
CONSTANTS
  Senders <- S2
  Count = 3
INVARIANT FifoPerPair
INVARIANT ExactlyOnceAtEnd
CHECK_DEADLOCK FALSE
