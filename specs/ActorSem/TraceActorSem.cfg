SPECIFICATION TSpec
CONSTANTS
  Senders = {}
  Count = 0
CHECK_DEADLOCK FALSE
