--------------------------- MODULE TraceJdkResolve ---------------------------
(***************************************************************************)
(* Validates recorded results of the REAL jvm.resolve_path /               *)
(* java_resolver.java_home / provisioner.local / ProcessLauncher._start_node *)
(* / ElasticsearchSourceSupplier.prepare / is_early_access_release /        *)
(* supports_option.  Item = [id, e, q, r, le] (environment, request,        *)
(* recorded result, recorded hand-over).                                    *)
(* L1: every clause of JdkResolve.tla (weak and strong ones; the harness    *)
(*     knows which strong ones /repo does not meet) on the recorded result; *)
(* L2: the recorded result is the one of the transcription Code /           *)
(*     LaunchEnv under the switches of the cfg (names and numbers of a      *)
(*     message are compared for the messages of resolve_path only).         *)
(***************************************************************************)
EXTENDS JdkResolve, Json, IOUtils

Items == JsonDeserialize(IOEnv.VERIF_TRACES)

VARIABLES i
TScope(a, b) == TRUE

TInit == i = 1 /\ env = <<>> /\ req = <<>> /\ res = None /\ lenv = NoEnv /\ done = FALSE

Named == {"wrong", "neither", "install", "unusable"}
SameRes(a, c) ==
    /\ a.r = c.r /\ a.major = c.major /\ a.var = c.var /\ a.exc = c.exc /\ a.msg = c.msg /\ a.b = c.b
    /\ c.msg \in Named => (a.mvars = c.mvars /\ a.mmajs = c.mmajs)

Check(it) ==
    LET l1 == {c \in Weak \cup Strong : ~Holds(c, it.e, it.q, it.r, it.le)}
        c == Code(it.e, it.q)
        l2 == SameRes(it.r, c) /\ it.le = LaunchEnv(it.e, it.q, c)
    IN /\ IF l1 = {} THEN TRUE ELSE PrintT(<<"V", it.id, 1, "L1", l1>>)
       /\ IF l2 THEN TRUE ELSE PrintT(<<"V", it.id, 1, "L2", {}>>)

TNext == /\ i <= Len(Items)
         /\ Check(Items[i])
         /\ i' = i + 1
         /\ IF i < Len(Items) THEN TRUE ELSE PrintT(<<"DONE", Len(Items), Len(Items)>>)
         /\ UNCHANGED vars

TSpec == TInit /\ [][TNext]_<<vars, i>>
=============================================================================
