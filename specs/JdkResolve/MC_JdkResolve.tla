---------------------------- MODULE MC_JdkResolve ----------------------------
EXTENDS JdkResolve

Empty == T("empty", 0, FALSE, FALSE)
Missing == T("missing", 0, FALSE, FALSE)
NoExec == T("noexec", 0, FALSE, FALSE)
NoProp == T("noprop", 0, FALSE, FALSE)
J(m) == T("jdk", m, FALSE, TRUE)
SJ(m) == T("sjdk", m, FALSE, TRUE)

\* ---- requests
Q(k, car, majors, spec, n, bcar, pjh, pes, ppath, fk, known) ==
    [k |-> k, car |-> car, majors |-> majors, spec |-> spec, n |-> n, bcar |-> bcar, pjh |-> pjh, pes |-> pes, ppath |-> ppath, fk |-> fk, known |-> known]
Rt(car, majors, spec, n, bcar, pjh, pes, ppath) == Q("rt", car, majors, spec, n, bcar, pjh, pes, ppath, "-", FALSE)
List(majors) == Q("list", "ok", majors, "none", 0, FALSE, FALSE, FALSE, TRUE, "-", FALSE)
Single(n) == Q("single", "ok", <<>>, "none", n, FALSE, FALSE, FALSE, TRUE, "-", FALSE)
Build(fk, n) == Q("build", "ok", <<>>, "none", n, FALSE, FALSE, FALSE, TRUE, fk, FALSE)
EaQ == Q("ea", "ok", <<>>, "none", 0, FALSE, FALSE, FALSE, TRUE, "-", FALSE)
OptQ(known) == Q("opt", "ok", <<>>, "none", 0, FALSE, FALSE, FALSE, TRUE, "-", known)

PassVariants == {<<FALSE, FALSE, TRUE>>, <<TRUE, FALSE, TRUE>>, <<TRUE, TRUE, FALSE>>}

\* JAVA_HOME only, every kind of target incl. the attributes the selection does not look at
FancyTargets == {Empty, Missing, NoExec, NoProp} \cup {T(k, m, ea, ora) : k \in {"jdk", "sjdk"}, m \in {8, 17}, ea \in BOOLEAN, ora \in BOOLEAN}
OthersUnset(e) == \A v \in DOMAIN e \ {Generic} : e[v].k = "unset"

ScopeOf(e, q, narrow) ==
    /\ q.k \in {"ea", "opt"} => (OthersUnset(e) /\ Defined(e[Generic]))
    /\ (q.k \notin {"ea", "opt"}) => \A v \in DOMAIN e : ~e[v].ea /\ (Healthy(e[v]) => e[v].ora)
    /\ (q.k = "rt" /\ (q.spec = "bundled" \/ q.car = "bad")) => OthersUnset(e)
    /\ (q.k = "build" /\ q.fk \notin {"openjdk", "java"}) => Get(e, narrow).k = "unset"
ScopeAll(e, q) == TRUE

\* ---- quick: JAVA_HOME, JAVA8_HOME, JAVA17_HOME; majors 8 ("1.8"), 11, 17
VarsQ == {"JAVA_HOME", "JAVA8_HOME", "JAVA17_HOME"}
TargetsQ == {Unset, Empty, Missing, NoProp, J(8), J(11), J(17), SJ(17)}
EnvsQ == [VarsQ -> TargetsQ] \cup {[v \in VarsQ |-> IF v = Generic THEN t ELSE Unset] : t \in FancyTargets}
ListsQ == {<<17, 8>>, <<8, 17>>, <<17>>, <<11, 8>>}
RequestsQ ==
    {Rt("ok", l, "none", 0, Len(l) > 1, FALSE, FALSE, TRUE) : l \in ListsQ}
    \cup {Rt("ok", <<17, 8>>, "none", 0, FALSE, TRUE, TRUE, FALSE)}
    \cup {Rt("ok", <<17>>, "num", n, TRUE, FALSE, FALSE, TRUE) : n \in {8, 17}}
    \cup {Rt("bad", <<>>, s, 17, TRUE, FALSE, FALSE, TRUE) : s \in {"none", "num", "bundled"}}
    \cup {Rt("ok", l, "bundled", 0, b, p[1], p[2], p[3]) : l \in {<<17, 8>>, <<8, 17>>}, b \in BOOLEAN, p \in PassVariants}
    \cup {List(l) : l \in ListsQ \cup {<<>>}}
    \cup {Single(n) : n \in {8, 17}}
    \cup {Build(fk, n) : fk \in {"openjdk", "java"}, n \in {8, 17}}
    \cup {Build(fk, 0) : fk \in {"vendor", "noline", "nofile"}}
    \cup {EaQ, OptQ(TRUE), OptQ(FALSE)}
ScopeQ(e, q) == ScopeOf(e, q, "JAVA8_HOME")

\* ---- thorough: + JAVA11_HOME, + noexec, more lists
VarsT == VarsQ \cup {"JAVA11_HOME"}
TargetsT == TargetsQ \cup {NoExec}
EnvsT == [VarsT -> TargetsT] \cup {[v \in VarsT |-> IF v = Generic THEN t ELSE Unset] : t \in FancyTargets}
ListsT == {<<17, 11, 8>>, <<8, 11, 17>>, <<17, 11>>, <<11, 17>>, <<11>>, <<21, 17>>, <<11, 8>>}
RequestsT ==
    {Rt("ok", l, "none", 0, Len(l) > 1, FALSE, FALSE, TRUE) : l \in ListsT}
    \cup {Rt("ok", <<17, 11, 8>>, "none", 0, FALSE, TRUE, TRUE, FALSE)}
    \cup {Rt("ok", <<17>>, "num", n, TRUE, FALSE, FALSE, TRUE) : n \in {8, 11, 17}}
    \cup {Rt("bad", <<>>, s, 17, TRUE, FALSE, FALSE, TRUE) : s \in {"none", "num", "bundled"}}
    \cup {Rt("ok", l, "bundled", 0, b, p[1], p[2], p[3]) : l \in {<<17, 11, 8>>, <<8, 17>>}, b \in BOOLEAN, p \in PassVariants \cup {<<FALSE, TRUE, TRUE>>, <<FALSE, FALSE, FALSE>>}}
    \cup {List(l) : l \in {<<17, 11, 8>>, <<11, 17>>, <<>>}}
    \cup {Single(n) : n \in {8, 11, 17}}
    \cup {Build(fk, n) : fk \in {"openjdk", "java"}, n \in {8, 11}}
    \cup {Build(fk, 0) : fk \in {"vendor", "noline", "nofile"}}
    \cup {EaQ, OptQ(TRUE), OptQ(FALSE)}
ScopeT(e, q) == ScopeOf(e, q, "JAVA8_HOME") /\ ((q.k = "build" /\ q.fk \notin {"openjdk", "java"}) => Get(e, "JAVA11_HOME").k = "unset")
=============================================================================
