SPECIFICATION Spec
CONSTANTS
  Envs <- EnvsT
  Requests <- RequestsT
  Scope <- ScopeT
  SingleFallsBack = FALSE
  BrokenIsSkipped = FALSE
  QuotePath = FALSE
  BundledDropsJavaHome = FALSE
INVARIANT WeakHold
CHECK_DEADLOCK FALSE
