------------------------------ MODULE JdkResolve ------------------------------
(***************************************************************************)
(* Which JDK Rally uses (esrally/utils/jvm.py resolve_path,                 *)
(* esrally/mechanic/java_resolver.py java_home, the build side in           *)
(* mechanic/supplier.py, the environment the launcher / the installers hand *)
(* on).  Function-like: Init chooses (environment, request), Eval computes  *)
(* the result.                                                              *)
(*                                                                          *)
(* environment e : function  variable name -> target  (JAVA_HOME,           *)
(*   JAVA8_HOME, JAVA17_HOME ...; a name outside DOMAIN e is unset).        *)
(* target = [k, maj, ea, ora]                                               *)
(*   k = "unset"   the variable does not exist                              *)
(*       "empty"   the variable is ""                                       *)
(*       "missing" there is no bin/java below the path                      *)
(*       "noexec"  bin/java exists but may not be executed                  *)
(*       "noprop"  bin/java is no JVM that knows -XshowSettings (prints no  *)
(*                 property, exit status 1)                                 *)
(*       "jdk"     a working JDK: major version maj, ea = java.version ends *)
(*                 in -ea, ora = java.vm.specification.vendor is "Oracle    *)
(*                 Corporation"                                             *)
(*       "sjdk"    the same below a directory whose name contains a blank   *)
(* request q = [k, car, majors, spec, n, bcar, pjh, pes, ppath, fk, known]  *)
(*   k = "rt"     java_resolver.java_home as provisioner and launcher call  *)
(*                it: majors = the car's runtime.jdk ("17,11,8"; car =      *)
(*                "bad": not a list of ints), spec = mechanic/runtime.jdk   *)
(*                ("none" | "bundled" | "num" with n), bcar = the car's     *)
(*                runtime.jdk.bundled, pjh / pes / ppath = JAVA_HOME /      *)
(*                ES_JAVA_HOME / PATH are listed in system/passenv          *)
(*       "list"   jvm.resolve_path(majors)                                  *)
(*       "single" jvm.resolve_path(n)                                       *)
(*       "build"  supplier: ElasticsearchSourceSupplier.prepare with a      *)
(*                Builder; fk = what .ci/java-versions.properties says      *)
(*                ("openjdk" | "java": ES_BUILD_JAVA=openjdk<n> / java<n>,  *)
(*                "vendor": another prefix, "noline", "nofile")             *)
(*       "ea"     jvm.is_early_access_release(value of JAVA_HOME)           *)
(*       "opt"    jvm.supports_option(value of JAVA_HOME, an option the JDK *)
(*                knows (known) / does not know)                            *)
(* result res = [r, major, var, exc, msg, mvars, mmajs, b]                  *)
(*   r = "ok" (JDK major found in variable var) | "bundled" | "err" (exc =  *)
(*   exception class, msg = which message, mvars / mmajs = variables /      *)
(*   numbers the message names) | "bool" (b) ; le = what the launcher /     *)
(*   installers / build command pass on (see LaunchEnv).                    *)
(*                                                                          *)
(* Switches, TRUE = intended, FALSE = /repo as it is:                       *)
(*   SingleFallsBack      resolve_path(int): a JAVAx_HOME that points to    *)
(*                        another major falls back to JAVA_HOME as the list *)
(*                        form does (FALSE: SystemSetupError at once)       *)
(*   BrokenIsSkipped      a variable whose path holds no usable java is     *)
(*                        treated as "not this JDK" (FALSE: the raw         *)
(*                        FileNotFoundError / PermissionError /             *)
(*                        AttributeError escapes, even if a later candidate *)
(*                        fits)                                             *)
(*   QuotePath            a JDK below a path with a blank can be probed     *)
(*                        (FALSE: the command line is split at the blank)   *)
(*   BundledDropsJavaHome runtime.jdk = bundled: JAVA_HOME / ES_JAVA_HOME   *)
(*                        never reach Elasticsearch (FALSE: they do when    *)
(*                        system/passenv lists them)                        *)
(***************************************************************************)
EXTENDS Integers, Sequences, FiniteSets, TLC

CONSTANTS Envs,            \* set of environments
          Requests,        \* set of requests
          Scope(_, _),     \* which (environment, request) pairs a configuration enumerates
          SingleFallsBack, BrokenIsSkipped, QuotePath, BundledDropsJavaHome

Generic == "JAVA_HOME"
SpecVar(m) == "JAVA" \o ToString(m) \o "_HOME"
SSE == "SystemSetupError"

T(k, maj, ea, ora) == [k |-> k, maj |-> maj, ea |-> ea, ora |-> ora]
Unset == T("unset", 0, FALSE, FALSE)
Get(e, v) == IF v \in DOMAIN e THEN e[v] ELSE Unset
Defined(t) == t.k \notin {"unset", "empty"}                  \* `if java_v_home:`
Healthy(t) == t.k \in {"jdk", "sjdk"}                          \* a working JDK is installed there
Runnable(t) == t.k = "jdk" \/ (t.k = "sjdk" /\ QuotePath)      \* Rally gets an answer from its bin/java
ToSet(s) == {s[i] : i \in 1..Len(s)}

R(r, major, var, exc, msg, mvars, mmajs, b) ==
    [r |-> r, major |-> major, var |-> var, exc |-> exc, msg |-> msg, mvars |-> mvars, mmajs |-> mmajs, b |-> b]
Ok(m, v) == R("ok", m, v, "-", "-", <<>>, <<>>, FALSE)
None == R("none", 0, "-", "-", "-", <<>>, <<>>, FALSE)
Err(exc, msg, mvars, mmajs) == R("err", 0, "-", exc, msg, mvars, mmajs, FALSE)
Bundled(m) == R("bundled", m, "-", "-", "-", <<>>, <<>>, FALSE)
Bool(b) == R("bool", 0, "-", "-", "-", <<>>, <<>>, b)

(***************************************************************************)
(* Transcription of esrally/utils/jvm.py                                    *)
(***************************************************************************)
\* process.run_subprocess_with_output(shlex.split("<path>/bin/java -XshowSettings:properties -version")) for a path without usable java
ProbeExc(t) == CASE t.k = "noprop" -> "AttributeError"        \* system_property returns None; None.startswith("1.")
                 [] t.k = "noexec" -> "PermissionError"
                 [] OTHER -> "FileNotFoundError"              \* "missing"; "sjdk": argv[0] is the path up to the blank

\* do_resolve(env_var, major) inside _resolve_single_path; strict = `mandatory`
DoResolve(e, var, m, strict) ==
    LET t == Get(e, var) IN
    IF ~Defined(t) THEN None
    ELSE IF ~Runnable(t) THEN
        IF ~BrokenIsSkipped THEN Err(ProbeExc(t), "-", <<>>, <<>>)
        ELSE IF strict THEN Err(SSE, "unusable", <<var>>, <<m>>) ELSE None
    ELSE IF t.maj = m THEN Ok(m, var)
    ELSE IF strict THEN Err(SSE, "wrong", <<var>>, <<t.maj, m>>)      \* "{var} points to JDK {actual} but it should point to JDK {m}."
    ELSE None

\* _resolve_single_path(major, mandatory)
ResolveSingle(e, m, mand) ==
    LET r1 == DoResolve(e, SpecVar(m), m, mand /\ ~SingleFallsBack) IN
    IF r1.r # "none" THEN r1
    ELSE LET r2 == DoResolve(e, Generic, m, mand) IN
         IF r2.r # "none" THEN r2
         ELSE IF mand THEN Err(SSE, "neither", <<SpecVar(m), Generic>>, <<m>>)   \* "Neither JAVAm_HOME nor JAVA_HOME point to a JDK m installation."
         ELSE None

\* resolve_path(majors) for a list: the first major that resolves; "Install a JDK with one of the versions [..] and point to it with one of [..]."
RECURSIVE ResolveFrom(_, _, _)
ResolveFrom(e, majors, i) ==
    IF i > Len(majors) THEN Err(SSE, "install", [j \in 1..Len(majors) |-> SpecVar(majors[j])] \o <<Generic>>, majors)
    ELSE LET r == ResolveSingle(e, majors[i], FALSE) IN
         IF r.r = "none" THEN ResolveFrom(e, majors, i + 1) ELSE r

\* java_resolver.java_home(car_runtime_jdks, specified_runtime_jdk, provides_bundled_jdk)
JavaHome(e, q) ==
    IF q.car = "bad" THEN Err(SSE, "carinvalid", <<>>, <<>>)
    ELSE IF q.spec = "bundled" THEN
        IF q.bcar THEN Bundled(q.majors[1]) ELSE Err(SSE, "nobundle", <<>>, <<>>)
    ELSE ResolveFrom(e, IF q.spec = "num" THEN <<q.n>> ELSE q.majors, 1)

\* ElasticsearchSourceSupplier.resolve_build_jdk_major: java<n> / openjdk<n>, everything else is 17
BuildMajor(q) == IF q.fk \in {"openjdk", "java"} THEN q.n ELSE 17

\* is_early_access_release: vendor(..) == "Oracle Corporation" and version(..).endswith("-ea")
EaCode(t) == IF Runnable(t) THEN Bool(t.ora /\ t.ea)
             ELSE IF t.k = "noprop" THEN Bool(FALSE)           \* vendor is None, `and` stops there
             ELSE Err(ProbeExc(t), "-", <<>>, <<>>)

\* supports_option: exit status of `java <option> -version`, an OSError counts as "no"
OptCode(t, known) == Bool(Runnable(t) /\ known)

Code(e, q) ==
    CASE q.k = "rt" -> JavaHome(e, q)
      [] q.k = "list" -> ResolveFrom(e, q.majors, 1)
      [] q.k = "single" -> ResolveSingle(e, q.n, TRUE)
      [] q.k = "build" -> ResolveSingle(e, BuildMajor(q), TRUE)
      [] q.k = "ea" -> EaCode(Get(e, Generic))
      [] q.k = "opt" -> OptCode(Get(e, Generic), q.known)

(***************************************************************************)
(* What is handed on: ProcessLauncher._prepare_env (jh / esjh / path: the   *)
(* JAVA_HOME, ES_JAVA_HOME, PATH of the Elasticsearch process; gc: the GC   *)
(* log flags belong to which JDK generation), the installers' hook          *)
(* environment and the build command (inst), same: provisioner, launcher    *)
(* and a direct call of java_home agree.                                    *)
(***************************************************************************)
NoEnv == [jh |-> "-", esjh |-> "-", path |-> "-", inst |-> "-", gc |-> "-", same |-> TRUE]
GcStyle(m) == IF m < 9 THEN "old" ELSE "new"

LaunchEnv(e, q, r) ==
    IF q.k = "rt" /\ r.r = "ok" THEN
        [jh |-> "chosen", esjh |-> "chosen", path |-> IF q.ppath THEN "prefixed" ELSE "bare", inst |-> "chosen", gc |-> GcStyle(r.major), same |-> TRUE]
    ELSE IF q.k = "rt" /\ r.r = "bundled" THEN
        [jh |-> IF q.pjh /\ ~BundledDropsJavaHome /\ Get(e, Generic).k # "unset" THEN "inherited" ELSE "absent",
         esjh |-> IF q.pes /\ ~BundledDropsJavaHome THEN "inherited" ELSE "absent",
         path |-> IF q.ppath THEN "inherited" ELSE "absent", inst |-> "absent", gc |-> GcStyle(r.major), same |-> TRUE]
    ELSE IF q.k = "build" /\ r.r = "ok" THEN [NoEnv EXCEPT !.inst = "chosen"]
    ELSE NoEnv

(***************************************************************************)
(* The documented selection (docs/install.rst "JDK", docs/                  *)
(* command_line_reference.rst runtime-jdk, docs/migrate.rst "Handling of    *)
(* JDK versions" / "JAVA_HOME and the bundled runtime JDK", docstring of    *)
(* resolve_path) as predicates over (environment, request, result).         *)
(***************************************************************************)
Wanted(q) == CASE q.k = "rt" -> IF q.spec = "num" THEN <<q.n>> ELSE q.majors
               [] q.k = "list" -> q.majors
               [] q.k = "single" -> <<q.n>>
               [] q.k = "build" -> <<BuildMajor(q)>>
               [] OTHER -> <<>>
WantedSet(q) == ToSet(Wanted(q))
IsResolution(q) == q.k \in {"list", "single", "build"} \/ (q.k = "rt" /\ q.car = "ok" /\ q.spec # "bundled")
\* which majors are acceptable is documented - except for the build JDK of a source tree that does not name one (17 today: L2 only)
Documented(q) == IsResolution(q) /\ ~(q.k = "build" /\ q.fk \notin {"openjdk", "java"})
Points(e, v, m) == Healthy(Get(e, v)) /\ Get(e, v).maj = m          \* variable v really holds a JDK m
Avail(e, m) == Points(e, SpecVar(m), m) \/ Points(e, Generic, m)

\* ---- clauses /repo meets (L1)
AcceptableMajor(e, q, r) == (r.r = "ok" /\ Documented(q)) => r.major \in WantedSet(q)
RealMajorMatches(e, q, r) == r.r = "ok" => r.var \in {SpecVar(r.major), Generic} /\ Points(e, r.var, r.major)
FirstPreferred(e, q, r) ==
    (r.r = "ok" /\ Documented(q) /\ r.major \in WantedSet(q)) =>
        LET w == Wanted(q) IN \E i \in 1..Len(w) : w[i] = r.major /\ \A j \in 1..(i - 1) : ~Avail(e, w[j])
SpecificBeforeGeneric(e, q, r) == (r.r = "ok" /\ r.var = Generic) => ~Points(e, SpecVar(r.major), r.major)
\* "nothing fits" is only reported when nothing fits (the build side may also complain about a JAVAx_HOME that holds another major)
NotFoundJustified(e, q, r) ==
    (Documented(q) /\ r.r = "err" /\ r.exc = SSE) =>
        \/ \A m \in WantedSet(q) : ~Avail(e, m)
        \/ /\ q.k \in {"single", "build"}
           /\ \E m \in WantedSet(q) : Healthy(Get(e, SpecVar(m))) /\ Get(e, SpecVar(m)).maj # m
\* the message names what was looked for: every acceptable major and only variables that were candidates
ErrorNamesLookedFor(e, q, r) ==
    (Documented(q) /\ r.r = "err" /\ r.exc = SSE) =>
        /\ r.mvars # <<>>
        /\ ToSet(r.mvars) \subseteq ({Generic} \cup {SpecVar(m) : m \in WantedSet(q)})
        /\ WantedSet(q) \subseteq ToSet(r.mmajs)
BundledOnRequestOnly(e, q, r) == r.r = "bundled" => (q.k = "rt" /\ q.spec = "bundled" /\ q.bcar)
BundledHonoured(e, q, r) ==
    (q.k = "rt" /\ q.car = "ok" /\ q.spec = "bundled") =>
        IF q.bcar THEN r.r = "bundled" /\ r.var = "-" ELSE r.r = "err" /\ r.exc = SSE
CarInvalidExplicit(e, q, r) == (q.k = "rt" /\ q.car = "bad") => (r.r = "err" /\ r.exc = SSE)
LaunchEnvConsistent(e, q, r, le) ==
    /\ (q.k = "rt" /\ r.r = "ok") =>
          \* ES_JAVA_HOME is what Elasticsearch >= 7.12 looks at; JAVA_HOME (older versions) may go one day, but must never be a foreign one
          le.esjh = "chosen" /\ le.jh \in {"chosen", "absent"} /\ le.path \in {"prefixed", "bare"} /\ le.inst = "chosen" /\ le.gc = GcStyle(r.major)
    /\ (q.k = "build" /\ r.r = "ok") => le.inst = "chosen"
    /\ r.r = "bundled" =>
          /\ le.inst = "absent" /\ le.jh \in {"absent", "inherited"} /\ le.esjh \in {"absent", "inherited"} /\ le.path \in {"absent", "inherited"}
          /\ ~q.pjh => le.jh = "absent"
          /\ ~q.pes => le.esjh = "absent"
    /\ r.r = "err" => le.jh = "-" /\ le.esjh = "-" /\ le.path = "-" /\ le.inst = "-"
SameChoice(e, q, r, le) == le.same
EaClassified(e, q, r) ==
    q.k = "ea" => LET t == Get(e, Generic) IN
        /\ t.k = "jdk" => r.r = "bool"
        /\ (r.r = "bool" /\ Healthy(t)) => r.b = (t.ora /\ t.ea)
        /\ (r.r = "bool" /\ ~Healthy(t)) => ~r.b
OptionProbed(e, q, r) ==
    q.k = "opt" => LET t == Get(e, Generic) IN
        /\ r.r = "bool"
        /\ t.k = "jdk" => r.b = q.known
        /\ r.b => (q.known /\ Healthy(t))

\* ---- strong clauses /repo does not meet (pinned behind the switches)
FoundIfAvailable(e, q, r) == (Documented(q) /\ \E m \in WantedSet(q) : Avail(e, m)) => r.r = "ok"
ErrorsExplicit(e, q, r) == (IsResolution(q) /\ r.r = "err") => r.exc = SSE
BundledIgnoresJavaHome(e, q, r, le) == r.r = "bundled" => le.jh = "absent" /\ le.esjh = "absent"
BlankPathUsable(e, q, r) ==
    LET t == Get(e, Generic) IN
    /\ (q.k = "ea" /\ t.k = "sjdk") => r = Bool(t.ora /\ t.ea)
    /\ (q.k = "opt" /\ t.k = "sjdk") => r = Bool(q.known)

Weak == {"AcceptableMajor", "RealMajorMatches", "FirstPreferred", "SpecificBeforeGeneric", "NotFoundJustified", "ErrorNamesLookedFor",
         "BundledOnRequestOnly", "BundledHonoured", "CarInvalidExplicit", "LaunchEnvConsistent", "SameChoice", "EaClassified", "OptionProbed"}
Strong == {"FoundIfAvailable", "ErrorsExplicit", "BundledIgnoresJavaHome", "BlankPathUsable"}
Holds(c, e, q, r, le) ==
    CASE c = "AcceptableMajor" -> AcceptableMajor(e, q, r)
      [] c = "RealMajorMatches" -> RealMajorMatches(e, q, r)
      [] c = "FirstPreferred" -> FirstPreferred(e, q, r)
      [] c = "SpecificBeforeGeneric" -> SpecificBeforeGeneric(e, q, r)
      [] c = "NotFoundJustified" -> NotFoundJustified(e, q, r)
      [] c = "ErrorNamesLookedFor" -> ErrorNamesLookedFor(e, q, r)
      [] c = "BundledOnRequestOnly" -> BundledOnRequestOnly(e, q, r)
      [] c = "BundledHonoured" -> BundledHonoured(e, q, r)
      [] c = "CarInvalidExplicit" -> CarInvalidExplicit(e, q, r)
      [] c = "LaunchEnvConsistent" -> LaunchEnvConsistent(e, q, r, le)
      [] c = "SameChoice" -> SameChoice(e, q, r, le)
      [] c = "EaClassified" -> EaClassified(e, q, r)
      [] c = "OptionProbed" -> OptionProbed(e, q, r)
      [] c = "FoundIfAvailable" -> FoundIfAvailable(e, q, r)
      [] c = "ErrorsExplicit" -> ErrorsExplicit(e, q, r)
      [] c = "BundledIgnoresJavaHome" -> BundledIgnoresJavaHome(e, q, r, le)
      [] c = "BlankPathUsable" -> BlankPathUsable(e, q, r)

\* the complete documented selection, for the intended configuration: the first acceptable major that is installed, its own variable first
DocChoice(e, q, r) ==
    IsResolution(q) =>
        LET w == Wanted(q) IN
        IF \E i \in 1..Len(w) : Avail(e, w[i])
        THEN \E i \in 1..Len(w) : /\ Avail(e, w[i]) /\ \A j \in 1..(i - 1) : ~Avail(e, w[j])
                                  /\ r = Ok(w[i], IF Points(e, SpecVar(w[i]), w[i]) THEN SpecVar(w[i]) ELSE Generic)
        ELSE r.r = "err" /\ r.exc = SSE

-----------------------------------------------------------------------------
VARIABLES env, req, res, lenv, done
vars == <<env, req, res, lenv, done>>

Init == /\ env \in Envs
        /\ req \in Requests
        /\ Scope(env, req)
        /\ res = None
        /\ lenv = NoEnv
        /\ done = FALSE

Eval == /\ ~done
        /\ res' = Code(env, req)
        /\ lenv' = LaunchEnv(env, req, res')
        /\ done' = TRUE
        /\ UNCHANGED <<env, req>>

Spec == Init /\ [][Eval]_vars

WeakHold == done => \A c \in Weak : Holds(c, env, req, res, lenv)
IFoundIfAvailable == done => FoundIfAvailable(env, req, res)
IErrorsExplicit == done => ErrorsExplicit(env, req, res)
IBundledIgnoresJavaHome == done => BundledIgnoresJavaHome(env, req, res, lenv)
IBlankPathUsable == done => BlankPathUsable(env, req, res)
IDocChoice == done => DocChoice(env, req, res)
=============================================================================
