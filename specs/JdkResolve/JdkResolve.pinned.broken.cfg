SPECIFICATION Spec
CONSTANTS
  Envs <- EnvsQ
  Requests <- RequestsQ
  Scope <- ScopeQ
  SingleFallsBack = TRUE
  BrokenIsSkipped = FALSE
  QuotePath = TRUE
  BundledDropsJavaHome = TRUE
INVARIANT IErrorsExplicit
CHECK_DEADLOCK FALSE
