SPECIFICATION Spec
CONSTANTS
  Envs <- EnvsQ
  Requests <- RequestsQ
  Scope <- ScopeQ
  SingleFallsBack = TRUE
  BrokenIsSkipped = TRUE
  QuotePath = FALSE
  BundledDropsJavaHome = TRUE
INVARIANT IFoundIfAvailable
CHECK_DEADLOCK FALSE
