SPECIFICATION TSpec
CONSTANTS
  Envs = {}
  Requests = {}
  Scope <- TScope
  SingleFallsBack = FALSE
  BrokenIsSkipped = FALSE
  QuotePath = FALSE
  BundledDropsJavaHome = FALSE
CHECK_DEADLOCK FALSE
