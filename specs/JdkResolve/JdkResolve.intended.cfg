SPECIFICATION Spec
CONSTANTS
  Envs <- EnvsQ
  Requests <- RequestsQ
  Scope <- ScopeQ
  SingleFallsBack = TRUE
  BrokenIsSkipped = TRUE
  QuotePath = TRUE
  BundledDropsJavaHome = TRUE
INVARIANT WeakHold
INVARIANT IFoundIfAvailable
INVARIANT IErrorsExplicit
INVARIANT IBundledIgnoresJavaHome
INVARIANT IBlankPathUsable
INVARIANT IDocChoice
CHECK_DEADLOCK FALSE
