SPECIFICATION Spec
CONSTANTS
  Envs <- EnvsQ
  Requests <- RequestsQ
  Scope <- ScopeQ
  SingleFallsBack = FALSE
  BrokenIsSkipped = TRUE
  QuotePath = TRUE
  BundledDropsJavaHome = TRUE
INVARIANT IFoundIfAvailable
CHECK_DEADLOCK FALSE
