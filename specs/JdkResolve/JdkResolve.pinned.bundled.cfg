SPECIFICATION Spec
CONSTANTS
  Envs <- EnvsQ
  Requests <- RequestsQ
  Scope <- ScopeQ
  SingleFallsBack = TRUE
  BrokenIsSkipped = TRUE
  QuotePath = TRUE
  BundledDropsJavaHome = FALSE
INVARIANT IBundledIgnoresJavaHome
CHECK_DEADLOCK FALSE
