SPECIFICATION Spec
CONSTANTS
  Envs <- EnvsQ
  Requests <- RequestsQ
  Scope <- ScopeQ
  SingleFallsBack = TRUE
  BrokenIsSkipped = FALSE
  QuotePath = TRUE
  BundledDropsJavaHome = TRUE
INVARIANT IFoundIfAvailable
CHECK_DEADLOCK FALSE
