SPECIFICATION Spec
CONSTANTS
  Envs <- EnvsQ
  Requests <- RequestsQ
  Scope <- ScopeQ
  SingleFallsBack = FALSE
  BrokenIsSkipped = FALSE
  QuotePath = FALSE
  BundledDropsJavaHome = FALSE
INVARIANT WeakHold
CHECK_DEADLOCK FALSE
