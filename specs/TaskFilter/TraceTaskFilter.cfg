SPECIFICATION TSpec
CONSTANTS
  Families = {}
  DropEmptyParallel = TRUE
CHECK_DEADLOCK FALSE
