SPECIFICATION Spec
CONSTANTS
  Families <- FamQuick
  DropEmptyParallel = TRUE
INVARIANT PropertyHolds
INVARIANT ModelSanity
CHECK_DEADLOCK FALSE
