--------------------------- MODULE MC_TaskFilter ---------------------------
EXTENDS TaskFilter

K(type, tags, clients) == [type |-> type, tags |-> tags, clients |-> clients]
RawLeaves(Ks) == {[par |-> FALSE, cap |-> 0, cb |-> 0, ks |-> <<k>>] : k \in Ks}
RawPars(Ks, lo, hi, CapCb) ==
    {[par |-> TRUE, cap |-> cc[1], cb |-> cc[2], ks |-> ks] : cc \in CapCb, ks \in UNION {[1..n -> Ks] : n \in lo..hi}}

(* Operation types TX, TY are user-defined types that differ only in "_" vs "-" (a type: filter compares the type as   *)
(* written); operations are named op-<type>.  Tags "index", "reindex" (one tag is a proper substring of the other; the  *)
(* replay writes a single tag as ONE STRING in about half of the tasks, which the track syntax allows).                *)
(* Filters that must match nothing: name "a" (a prefix of task names), name "op-bulk_with_retry" (an operation's name), *)
(* tag "Index" (filters are case-sensitive), tag "bulk_with_retry" (a type is not a tag).  tag "index" must not match a *)
(* task tagged "reindex", type TX must not match a task of type TY.                                                     *)
TX == "bulk_with_retry"
TY == "bulk-with-retry"
KA == K(TX, <<>>, 1)
KB == K(TX, <<"index">>, 2)
KC == K(TY, <<"reindex", "index">>, 1)
KD == K(TY, <<"reindex">>, 1)
Kinds4 == {KA, KB, KC, KD}
F(k, v) == [k |-> k, v |-> v]
AlphaQuick == <<F("name", "a1"), F("name", "a2"), F("name", "a"), F("type", TX), F("tag", "index"), F("tag", "Index")>>
AlphaThorough == <<F("name", "a1"), F("name", "a2"), F("name", "a"), F("name", "op-bulk_with_retry"), F("type", TX), F("type", TY),
                   F("tag", "index"), F("tag", "reindex"), F("tag", TX), F("tag", "Index")>>

FamQuick ==
    {[E |-> RawLeaves(Kinds4) \cup RawPars(Kinds4, 1, 1, {<<0, 0>>}) \cup RawPars({KA, KB, KD}, 2, 2, {<<0, 0>>})
              \cup RawPars({KB, KC}, 2, 2, {<<1, 1>>}),
      n |-> 2, A |-> AlphaQuick, nf |-> 2]}

Kinds2 == {KA, K(TY, <<"reindex", "index">>, 2)}
AlphaThree == <<F("name", "a1"), F("name", "b2"), F("type", TX), F("tag", "index"), F("tag", "Index")>>
FamThorough ==
    {[E |-> RawLeaves(Kinds4) \cup RawPars(Kinds4, 1, 1, {<<0, 0>>, <<3, -1>>}) \cup RawPars({KA, KB, KD}, 2, 2, {<<0, 0>>, <<3, -1>>, <<1, 2>>}),
      n |-> 2, A |-> AlphaThorough, nf |-> 2],
     [E |-> RawLeaves(Kinds2) \cup RawPars(Kinds2, 2, 3, {<<0, 0>>}),
      n |-> 3, A |-> AlphaThree, nf |-> 2]}
=============================================================================
