--------------------------- MODULE MC_TaskFilter ---------------------------
EXTENDS TaskFilter

K(type, tags, clients) == [type |-> type, tags |-> tags, clients |-> clients]
RawLeaves(Ks) == {[par |-> FALSE, cap |-> 0, cb |-> 0, ks |-> <<k>>] : k \in Ks}
RawPars(Ks, lo, hi, CapCb) ==
    {[par |-> TRUE, cap |-> cc[1], cb |-> cc[2], ks |-> ks] : cc \in CapCb, ks \in UNION {[1..n -> Ks] : n \in lo..hi}}

(* operation types x, y (operations are named op-x, op-y), tags p, q.  Filters that must match nothing: name "a" (a   *)
(* prefix of task names), name "op-x" (an operation's name), tag "P" (filters are case-sensitive), tag "x" / type "p" *)
(* (a type is not a tag)                                                                                               *)
Kinds3 == {K("x", <<>>, 1), K("x", <<"p">>, 2), K("y", <<"q", "p">>, 1)}
F(k, v) == [k |-> k, v |-> v]
AlphaQuick == <<F("name", "a1"), F("name", "a2"), F("name", "a"), F("type", "x"), F("tag", "p"), F("tag", "P")>>
AlphaThorough == <<F("name", "a1"), F("name", "a2"), F("name", "a"), F("name", "op-x"), F("type", "x"), F("type", "y"),
                   F("tag", "p"), F("tag", "q"), F("tag", "x"), F("tag", "P")>>

FamQuick ==
    {[E |-> RawLeaves(Kinds3) \cup RawPars(Kinds3, 1, 1, {<<0, 0>>}) \cup RawPars(Kinds3, 2, 2, {<<0, 0>>})
              \cup RawPars({K("x", <<"p">>, 2), K("y", <<"q", "p">>, 1)}, 2, 2, {<<1, 1>>}),
      n |-> 2, A |-> AlphaQuick, nf |-> 2]}

Kinds2 == {K("x", <<>>, 1), K("y", <<"q", "p">>, 2)}
AlphaThree == <<F("name", "a1"), F("name", "b2"), F("type", "x"), F("tag", "p"), F("tag", "P")>>
FamThorough ==
    {[E |-> RawLeaves(Kinds3) \cup RawPars(Kinds3, 1, 2, {<<0, 0>>, <<3, -1>>}) \cup RawPars(Kinds3, 2, 2, {<<1, 2>>}),
      n |-> 2, A |-> AlphaThorough, nf |-> 2],
     [E |-> RawLeaves(Kinds2) \cup RawPars(Kinds2, 2, 3, {<<0, 0>>}),
      n |-> 3, A |-> AlphaThree, nf |-> 2]}
=============================================================================
