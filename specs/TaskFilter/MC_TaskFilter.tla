--------------------------- MODULE MC_TaskFilter ---------------------------
EXTENDS TaskFilter

K(type, tags, clients) == [type |-> type, tags |-> tags, clients |-> clients]
RawLeaves(Ks) == {[par |-> FALSE, cap |-> 0, cb |-> 0, ks |-> <<k>>] : k \in Ks}
RawPars(Ks, lo, hi, CapCb) ==
    {[par |-> TRUE, cap |-> cc[1], cb |-> cc[2], ks |-> ks] : cc \in CapCb, ks \in UNION {[1..n -> Ks] : n \in lo..hi}}

(* operation types x, y (operations are named op-x, op-y: a name filter "op-x" must match nothing), tags p, q *)
Kinds3 == {K("x", <<>>, 1), K("x", <<"p">>, 2), K("y", <<"p", "q">>, 1)}
F(k, v) == [k |-> k, v |-> v]
AlphaQuick == <<F("name", "a1"), F("name", "a2"), F("name", "op-x"), F("type", "x"), F("tag", "p"), F("tag", "none")>>
AlphaThorough == <<F("name", "a1"), F("name", "a2"), F("name", "b1"), F("name", "op-x"), F("type", "x"), F("type", "y"), F("type", "p"),
                   F("tag", "p"), F("tag", "q"), F("tag", "x")>>

FamQuick ==
    {[E |-> RawLeaves(Kinds3) \cup RawPars(Kinds3, 1, 1, {<<0, 0>>}) \cup RawPars(Kinds3, 2, 2, {<<0, 0>>, <<1, 1>>}),
      n |-> 2, A |-> AlphaQuick, nf |-> 2]}

FamThorough ==
    {[E |-> RawLeaves(Kinds3) \cup RawPars(Kinds3, 1, 2, {<<0, 0>>, <<1, 1>>, <<3, -1>>}),
      n |-> 2, A |-> AlphaThorough, nf |-> 2],
     [E |-> RawLeaves(Kinds3) \cup RawPars({K("x", <<>>, 1), K("y", <<"p", "q">>, 2)}, 1, 3, {<<0, 0>>, <<2, 1>>}),
      n |-> 3, A |-> AlphaQuick, nf |-> 2]}
=============================================================================
