----------------------------- MODULE TaskFilter -----------------------------
(***************************************************************************)
(* --include-tasks / --exclude-tasks: esrally.track.loader.                 *)
(* TaskFilterTrackProcessor (on_after_load_track, _filter_out_match,        *)
(* _filters_from_filtered_tasks) over track.Task / track.Parallel and the   *)
(* three filter classes of esrally.track.track.  Function-like: Init        *)
(* chooses a schedule, a filter list and a mode, Eval computes the filtered *)
(* schedule with the transcription of the code.                             *)
(*                                                                         *)
(* Schedules, leaf tasks and parallel elements are the records of           *)
(* Allocator.tla (which is reused for "the filtered track is runnable").    *)
(* A filter is [k |-> "name" | "type" | "tag", v |-> string] (command line: *)
(* v, type:v, tag:v); mode is "include" or "exclude".  An empty filter list *)
(* means that no filter option was given.                                   *)
(***************************************************************************)
EXTENDS Allocator, TLC

CONSTANTS Families,           \* bounded inputs, see MC_TaskFilter.tla
          DropEmptyParallel   \* TRUE: a parallel element whose tasks were all filtered out is removed (repaired code)
                              \* FALSE: it stays in the schedule as an empty element (behaviour before the fix)

(* TaskNameFilter / TaskOpTypeFilter / TaskTagFilter .matches(task) *)
MatchF(t, f) ==
    CASE f.k = "name" -> t.name = f.v
      [] f.k = "type" -> t.type = f.v
      [] f.k = "tag" -> f.v \in SeqToSet(t.tags)
MatchAny(t, F) == \E i \in 1..Len(F) : MatchF(t, F[i])

-----------------------------------------------------------------------------
(***************************************************************************)
(* What the documentation promises (docs/command_line_reference.rst,        *)
(* property C11): include = "only the tasks that match will be executed",   *)
(* exclude = "only the tasks that did not match will be executed".          *)
(***************************************************************************)
Selected(t, F, mode) == IF mode = "include" THEN MatchAny(t, F) ELSE ~MatchAny(t, F)
ExpectedLeaves(s, F, mode) ==
    IF F = <<>> THEN AllLeaves(s) ELSE SelectSeq(AllLeaves(s), LAMBDA t : Selected(t, F, mode))

(***************************************************************************)
(* Transcription of TaskFilterTrackProcessor.                               *)
(*   def _filter_out_match(self, task):                                     *)
(*       for f in self.filters:                                             *)
(*           if task.matches(f):          # Parallel: any sub-task matches  *)
(*               if hasattr(task, "tasks") and self.exclude: return False   *)
(*               return self.exclude                                        *)
(*       return not self.exclude                                            *)
(***************************************************************************)
ElMatches(el, f) == IF el.k = "par" THEN \E j \in 1..Len(el.tasks) : MatchF(el.tasks[j], f) ELSE MatchF(el, f)
FilterOut(el, F, mode) ==
    IF \E i \in 1..Len(F) : ElMatches(el, F[i])
    THEN (IF el.k = "par" /\ mode = "exclude" THEN FALSE ELSE mode = "exclude")
    ELSE mode # "exclude"

(* on_after_load_track: elements with _filter_out_match are removed from the schedule; from every other element *)
(* the leaves with _filter_out_match are removed (a leaf element is its own only leaf and stays).               *)
FilterCodeV(s, F, mode, drop) ==
    IF F = <<>> THEN s                                   \* `if not self.filters: return track`
    ELSE LET kept == SelectSeq(s, LAMBDA el : ~FilterOut(el, F, mode))
             Inner(el) == IF el.k = "par"
                          THEN [el EXCEPT !.tasks = SelectSeq(@, LAMBDA t : ~FilterOut(t, F, mode))]
                          ELSE el
             inner == AsSeq([i \in 1..Len(kept) |-> Inner(kept[i])])
         IN IF drop THEN SelectSeq(inner, LAMBDA el : ~(el.k = "par" /\ el.tasks = <<>>)) ELSE inner
FilterCode(s, F, mode) == FilterCodeV(s, F, mode, DropEmptyParallel)

-----------------------------------------------------------------------------
(***************************************************************************)
(* Property C11 as predicates over (schedule s, filters F, mode, filtered   *)
(* schedule o) and the allocation of o (matrix m, join points jps, progress *)
(* entries tpj, driver walk) so that they can be evaluated on results       *)
(* recorded from the implementation.                                        *)
(***************************************************************************)
(* exactly the selected tasks remain, in their original order, every task record unchanged *)
ExactSelection(s, F, mode, o) == AllLeaves(o) = ExpectedLeaves(s, F, mode)

(* tasks stay together: two remaining tasks share a schedule element iff they did before *)
ElemOf(sch, name) == CHOOSE e \in 1..Len(sch) : name \in LeafNames(sch[e])
NamesOf(sch) == {AllLeaves(sch)[j].name : j \in 1..Len(AllLeaves(sch))}
SameGrouping(s, o) ==
    LET common == NamesOf(o) \cap NamesOf(s)
    IN \A x, y \in common : (ElemOf(o, x) = ElemOf(o, y)) <=> (ElemOf(s, x) = ElemOf(s, y))

NoEmptyParallel(o) == ~HasEmptyParallel(o)

(* the driver can execute and report every remaining step: the clauses of C02 hold for the allocation of o *)
Runnable(o, m, jps, tpj, walkOk) == AllocFailing(o, m, jps, tpj) = {} /\ walkOk

Clauses == {"ExactSelection", "SameGrouping", "NoEmptyParallel", "Runnable"}
Holds(c, s, F, mode, o, m, jps, tpj, walkOk) ==
    CASE c = "ExactSelection" -> ExactSelection(s, F, mode, o)
      [] c = "SameGrouping" -> SameGrouping(s, o)
      [] c = "NoEmptyParallel" -> NoEmptyParallel(o)
      [] c = "Runnable" -> Runnable(o, m, jps, tpj, walkOk)
Failing(s, F, mode, o, m, jps, tpj, walkOk) == {c \in Clauses : ~Holds(c, s, F, mode, o, m, jps, tpj, walkOk)}

-----------------------------------------------------------------------------
VARIABLES inp, out, done
vars == <<inp, out, done>>

Names == << <<"a1", "a2", "a3">>, <<"b1", "b2", "b3">>, <<"c1", "c2", "c3">> >>

(* raw element [par, cap, cb, ks]: ks = sequence of task kinds [type, tags, clients]; names are positional; *)
(* cb = 0 no completed-by, -1 "any", j > 0 completed by the j-th task                                        *)
Mk(r, i) ==
    IF ~r.par THEN LeafTask(Names[i][1], r.ks[1].type, r.ks[1].tags, r.ks[1].clients)
    ELSE ParallelOf(r.cap,
                    IF r.cb = 0 THEN "" ELSE IF r.cb = -1 THEN "any" ELSE Names[i][r.cb],
                    [j \in 1..Len(r.ks) |-> LeafTask(Names[i][j], r.ks[j].type, r.ks[j].tags, r.ks[j].clients)])

(* a family = [E |-> set of raw elements, n |-> max. elements, A |-> filter alphabet (a sequence), nf |-> max. filters]; *)
(* filter lists are the sub-sequences of A (the replay on the implementation shuffles their order)                    *)
Init == /\ \E fam \in Families : \E n \in 0..fam.n : \E q \in [1..n -> fam.E] :
              \E k \in 0..fam.nf : \E ix \in [1..k -> 1..Len(fam.A)] : \E mode \in {"include", "exclude"} :
                  /\ \A x, y \in 1..k : x < y => ix[x] < ix[y]
                  /\ inp = [s |-> [i \in 1..n |-> Mk(q[i], i)], F |-> [x \in 1..k |-> fam.A[ix[x]]], mode |-> mode]
        /\ out = <<>>
        /\ done = FALSE

Eval == /\ ~done
        /\ out' = FilterCode(inp.s, inp.F, inp.mode)
        /\ done' = TRUE
        /\ UNCHANGED inp

Spec == Init /\ [][Eval]_vars

PropertyHolds ==
    done => LET m == Alloc(out)
            IN Failing(inp.s, inp.F, inp.mode, out, m, JoinPoints(m), TasksPerJP(m), TRUE) = {}

(* the transcription agrees with the documented selection on everything but emptied parallels *)
ModelSanity ==
    done => /\ ExactSelection(inp.s, inp.F, inp.mode, out)
            /\ SameGrouping(inp.s, out)
            /\ (DropEmptyParallel => out = FilterCodeV(inp.s, inp.F, inp.mode, FALSE) \/ HasEmptyParallel(FilterCodeV(inp.s, inp.F, inp.mode, FALSE)))
=============================================================================
