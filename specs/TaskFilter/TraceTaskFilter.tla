-------------------------- MODULE TraceTaskFilter --------------------------
(***************************************************************************)
(* Validates results recorded from the real TaskFilterTrackProcessor:       *)
(* items [id, s, F, mode, out, m, jps, tpj, walk, l2]: s = schedule of one   *)
(* challenge before, out = after on_after_load_track (both projected from   *)
(* the real track objects, leaf records carry a fingerprint `fp` of all     *)
(* further task properties), m / jps / tpj = results of the real Allocator  *)
(* on the filtered schedule objects, walk = did the real                    *)
(* Driver.update_progress_message find an entry for every step.             *)
(* Verdict lines are printed one per failing clause: TLC wraps values wider *)
(* than 80 columns over several lines, which the harness cannot parse.      *)
(* L1: the clauses of property C11 on the recorded values.                  *)
(* L2: out equals the transcription of the code (in its repaired or in its  *)
(*     pre-fix variant: which of the two the tree implements is decided by  *)
(*     L1 clause NoEmptyParallel, not by L2).                               *)
(***************************************************************************)
EXTENDS TaskFilter, Json, IOUtils

Items == JsonDeserialize(IOEnv.VERIF_TRACES)

VARIABLES i
TInit == i = 1 /\ inp = <<>> /\ out = <<>> /\ done = FALSE

Check(it) ==
    LET tpj == AsSeq([k \in 1..Len(it.tpj) |-> SeqToSet(it.tpj[k])])
        l1 == Failing(it.s, it.F, it.mode, it.out, it.m, it.jps, tpj, it.walk # "fail")
              \* which C02 clauses make it not runnable (names with a colon are details, not clauses of C11)
              \cup {"Runnable:" \o c : c \in AllocFailing(it.out, it.m, it.jps, tpj)}
              \cup (IF it.walk = "fail" THEN {"Runnable:DriverWalksEveryStep"} ELSE {})
        l2 == ~it.l2 \/ it.out = FilterCodeV(it.s, it.F, it.mode, TRUE) \/ it.out = FilterCodeV(it.s, it.F, it.mode, FALSE)
    IN /\ \A c \in l1 : PrintT(<<"V", it.id, 1, "L1", {c}>>)
       /\ IF l1 # {} \/ l2 THEN TRUE ELSE PrintT(<<"V", it.id, 1, "L2", {}>>)

TNext == /\ i <= Len(Items)
         /\ Check(Items[i])
         /\ i' = i + 1
         /\ IF i < Len(Items) THEN TRUE ELSE PrintT(<<"DONE", Len(Items), Len(Items)>>)
         /\ UNCHANGED vars

TSpec == TInit /\ [][TNext]_<<vars, i>>
=============================================================================
