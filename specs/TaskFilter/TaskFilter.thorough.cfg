SPECIFICATION Spec
CONSTANTS
  Families <- FamThorough
  DropEmptyParallel = TRUE
INVARIANT PropertyHolds
INVARIANT ModelSanity
CHECK_DEADLOCK FALSE
