\* behaviour before the fix: a parallel element whose tasks are all excluded stays in the schedule as an empty element. Self-test only.
SPECIFICATION Spec
CONSTANTS
  Families <- FamQuick
  DropEmptyParallel = FALSE
INVARIANT PropertyHolds
INVARIANT ModelSanity
CHECK_DEADLOCK FALSE
