---------------------------- MODULE MC_RaceStore ----------------------------
EXTENDS RaceStore

Tg(name, bname, other) == [name |-> name, bname |-> bname, other |-> other]

(* a race with the pass-through fields fixed *)
R(id, env, ts, track, chal, tags, res) ==
    [id |-> id, env |-> env, ts |-> ts, sub |-> 0, track |-> track, chal |-> chal, auto |-> FALSE, car |-> <<"c1">>, tags |-> tags,
     tp |-> "none", cp |-> "none", pp |-> "none", trev |-> "none", dist |-> "v1", res |-> res, meta |-> 0,
     rv |-> "2.12.0", rr |-> "none", pipe |-> "benchmark-only"]

F(track, name, from, to, chal) == [track |-> track, name |-> name, from |-> from, to |-> to, chal |-> chal]
NoFilter == F("", "", -1, -1, "")

\* ---- history (quick): two race ids, 2 ticks per day, 2 days per month, ticks 0..7
a1 == R("a", "e1", 1, "t1", "ch1", Tg("n1", "", ""), 0)
a2 == R("a", "e1", 1, "t1", "ch1", Tg("n1", "", ""), 1)            \* the same race with results
a3 == R("a", "e1", 5, "t1", "ch1", Tg("n1", "n1", ""), 1)          \* the id used again in the next month, both tags
b1 == R("b", "e1", 1, "t2", "ch2", Tg("", "n1", ""), 0)            \* same timestamp as a1
b2 == R("b", "e2", 2, "t1", "ch1", Tg("", "n1", "o1"), 0)          \* next day, other environment
c1 == R("c", "e1", 3, "t1", "ch2", Tg("n2", "n1", ""), 2)
RacesQ == {a1, a2, a3, b1, b2}
RacesT == {a1, a2, a3, b1, b2, c1}
DirsQ == {"a", "b"}
DirsT == {"a", "b", "c"}
EnvsQ == {"e1", "e2"}
FiltersQ == {NoFilter, F("t1", "", -1, -1, ""), F("", "n1", -1, -1, ""), F("t1", "n1", -1, -1, ""), F("", "", 1, -1, ""), F("", "", -1, 0, ""),
             F("", "", -1, -1, "ch2")}
FiltersT == FiltersQ \cup {F("t2", "n1", 0, 2, ""), F("", "n2", -1, -1, "ch2"), F("", "", 0, 0, ""), F("t1", "", 1, 2, "ch1"), F("t3", "", -1, -1, ""),
                           F("", "n1", -1, -1, "ch1")}
LimitsQ == {1, 10}
LimitsT == {0, 1, 2, 10}
ForeignQ == {Doc(b1)}
ForeignEsQ == {Doc(b2)}
ForeignT == {Doc(b1), Doc(c1)}
ForeignEsT == {Doc(b2), Doc(c1)}
DeleteQ == {{"a"}, {"a", "b"}}
AllBackends == {"file", "es", "comp"}
FileOnly == {"file"}
EsOnly == {"es"}
BothFaults == {"none", "es"}
NoFault == {"none"}
AllOps == {"Store", "Find", "List", "Delete", "Restore", "Abort", "Plant", "PlantEs"}
RecOps == {"Store", "Find"}

\* ---- record round trip: every combination of the fields as_dict / from_dict treat specially, one id, stored once into an empty store
Pv == {"none", "empty", "set"}
RacesRec ==
    {[id |-> "a", env |-> "e1", ts |-> 3, sub |-> sub, track |-> "t1", chal |-> "ch1", auto |-> auto, car |-> car,
      tags |-> tags, tp |-> tp, cp |-> cp, pp |-> "none", trev |-> trev, dist |-> dist, res |-> res, meta |-> meta,
      rv |-> "2.12.0", rr |-> rr, pipe |-> "benchmark-only"] :
        sub \in {0, 1}, auto \in BOOLEAN, car \in {<<"c1">>, <<"c1", "c2">>}, tags \in {NoTags, Tg("n1", "", "o1"), Tg("", "n1", "")},
        tp \in Pv, cp \in Pv, trev \in {"none", "empty", "r1"}, dist \in {"none", "v1", "mix"}, res \in {0, 1, 2}, meta \in {0, 1},
        rr \in {"none", "abc"}}
     \cup
    {[id |-> "a", env |-> "e1", ts |-> 3, sub |-> 0, track |-> "t1", chal |-> "ch1", auto |-> FALSE, car |-> <<"c1">>,
      tags |-> NoTags, tp |-> "none", cp |-> "none", pp |-> pp, trev |-> "none", dist |-> "v1", res |-> 1, meta |-> 0,
      rv |-> "2.12.0", rr |-> "none", pipe |-> pipe] : pp \in Pv, pipe \in {"benchmark-only", "from-sources"}}
DirsRec == {"a"}
FiltersRec == {NoFilter}
LimitsRec == {10}
FileEs == {"file", "es"}

\* ---- simulation: wider alphabets
SimVariants == {<<"t1", Tg("n1", "", ""), 0>>, <<"t1", Tg("n1", "", ""), 1>>, <<"t2", Tg("", "n1", ""), 0>>, <<"t1", Tg("n1", "n1", ""), 1>>, <<"t2", Tg("n1", "n1", ""), 0>>}
RacesSim ==
    {[id |-> id, env |-> "e1", ts |-> ts, sub |-> 0, track |-> v[1], chal |-> "ch1", auto |-> FALSE, car |-> <<"c1">>,
      tags |-> v[2], tp |-> "none", cp |-> "none", pp |-> "none", trev |-> "none", dist |-> "v1", res |-> v[3], meta |-> 0,
      rv |-> "2.12.0", rr |-> "none", pipe |-> "benchmark-only"] : id \in {"a", "b", "c"}, ts \in {1, 3, 4, 9}, v \in SimVariants}
    \cup
    {[id |-> id, env |-> "e2", ts |-> ts, sub |-> 1, track |-> "t1", chal |-> "ch2", auto |-> auto, car |-> <<"c1", "c2">>,
      tags |-> Tg("n2", "", "o1"), tp |-> "set", cp |-> "empty", pp |-> "set", trev |-> "r1", dist |-> "none", res |-> 2, meta |-> 1,
      rv |-> "2.12.0", rr |-> "abc", pipe |-> "from-sources"] : id \in {"a", "b", "c"}, ts \in {2, 6, 11}, auto \in BOOLEAN}
RacesMis == {r \in RacesSim : r.ts \in {1, 4, 6} /\ r.track = "t1" /\ r.tags.bname = ""}
FiltersSim ==
    {F(t, n, -1, -1, "") : t \in {"", "t1"}, n \in {"", "n1"}} \cup
    {F("", "", f, t, "") : f \in {-1, 0, 1}, t \in {-1, 1, 2}} \cup
    {F("", "n1", 1, -1, ""), F("t2", "", -1, -1, "ch1"), F("", "", -1, -1, "ch2"), F("t1", "n2", -1, 3, "ch2"), F("", "n2", 1, 5, "")}
LimitsSim == {0, 1, 2, 3, 10}
EnvsSim == {"e1", "e2"}
ForeignSim == {Doc(r) : r \in {x \in RacesSim : x.ts \in {1, 6} /\ x.res # 1 /\ x.tags.bname = ""}}
ForeignEsSim == {Doc(r) : r \in {x \in RacesSim : x.ts \in {4, 11} /\ x.res # 1 /\ x.tags.bname = ""}}
DeleteSim == {{"a"}, {"b"}, {"a", "c"}}
=============================================================================
