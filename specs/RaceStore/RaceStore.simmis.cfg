\* simulation (code as it is) in which store_race also runs under a configuration with ANOTHER race id; used with -simulate only
SPECIFICATION Spec
CONSTANTS
  Races <- RacesMis
  Dirs <- DirsT
  Envs <- EnvsSim
  FilterSet <- FiltersSim
  Limits <- LimitsSim
  Foreign <- ForeignSim
  ForeignEs <- ForeignEsSim
  DeleteSets <- DeleteSim
  TPD = 2
  DPM = 2
  Backends <- AllBackends
  Faults <- BothFaults
  StoreOnce = FALSE
  Ops <- AllOps
  Mismatch = TRUE
  NameFilterSound = FALSE
  FileChallengeFilter = FALSE
  StoreByRaceId = FALSE
  EsOneDocPerRace = FALSE
VIEW view
INVARIANT TypeOK
INVARIANT EsLayout
PROPERTY PropReadOnly
PROPERTY PropListAccept
PROPERTY PropDeleteExact
CHECK_DEADLOCK FALSE
