--------------------------- MODULE TraceRaceStore ---------------------------
(***************************************************************************)
(* Validates recorded executions of the REAL race stores (FileRaceStore on  *)
(* a scratch root directory, EsRaceStore / CompositeRaceStore over the real *)
(* EsClient and elasticsearch.helpers.bulk on a fake Elasticsearch client,  *)
(* BenchmarkCoordinator as the writer; harness/extras/racestore.py) against *)
(* RaceStore.tla.  Input (env VERIF_TRACES): JSON array of items            *)
(*   [id, events: << [a, st, ret, q, dq] >>]                                *)
(* one event per call / intervention:                                       *)
(*   a    the call with its arguments, shaped like the variable act         *)
(*   st   the stores AFTERWARDS, read by the harness itself from the disk   *)
(*        and from the fake cluster (not through the code under test):      *)
(*        files <<[dir, k, d]>>, dirs, es <<[ix, key, k, d]>>, tmpl         *)
(*   ret  what the call returned: [err, races] (races projected to views)   *)
(*   q    (List on es / comp) the search request that reached the cluster   *)
(*   dq   (Delete) the index patterns of the delete-by-query requests       *)
(* For every event TLC evaluates                                           *)
(*   L1: the properties of RaceStore.tla (intended behaviour, independent   *)
(*       of the switches) on previous state / call / recorded state,        *)
(*   L2: the recorded state and return value are the ones the step of the   *)
(*       specification (switches = the code as it is) produces.             *)
(* <<"V", id, line, "L1"|"L2", clauses>> per failing event, <<"DONE", ..>>.  *)
(***************************************************************************)
EXTENDS RaceStore, Json, IOUtils

Traces == JsonDeserialize(IOEnv.VERIF_TRACES)
TraceDirs == {"a", "b", "c", "d"}

VARIABLES tid, l, nev
tvars == <<vars, tid, l, nev>>


FilesOf(st) == [x \in Dirs |-> IF \E i \in DOMAIN st.files : st.files[i].dir = x
                                 THEN LET i == CHOOSE j \in DOMAIN st.files : st.files[j].dir = x IN [k |-> st.files[i].k, d |-> st.files[i].d]
                                 ELSE NoFile]
Recorded(st) == [files |-> FilesOf(st), dirs |-> ToSet(st.dirs), es |-> ToSet(st.es), tmpl |-> st.tmpl]
WellFormed(st) == /\ \A i \in DOMAIN st.files : st.files[i].dir \in Dirs
                  /\ \A i, j \in DOMAIN st.files : st.files[i].dir = st.files[j].dir => i = j
                  /\ ToSet(st.dirs) \subseteq Dirs

Act(a) == IF a.op = "Delete" THEN [a EXCEPT !.ids = ToSet(a.ids)] ELSE a

L1Clauses == {"StoreExact", "CompositeAgree", "FindExact", "ListTotal", "ListSorted", "ListLimit", "ListSound", "ListComplete",
              "DeleteExact", "ReadOnly", "EsLayout"}

EsLayoutOf(T) ==
    /\ \A x, y \in T.es : (x.ix = y.ix /\ x.key = y.key) => x = y
    /\ \A x \in T.es : x.k = "ok" => (x.ix = Mon(x.d.ts) /\ x.key = x.d.id)
    /\ (\E x \in T.es : x.k = "ok") => T.tmpl

Holds(c, S, T, a, rt) ==
    CASE c = "StoreExact" -> StoreExact(S, T, a, rt)
      [] c = "CompositeAgree" -> CompositeAgree(T, a, rt)
      [] c = "FindExact" -> FindExact(S, a, rt)
      [] c = "ListTotal" -> ListTotal(S, a, rt)
      [] c = "ListSorted" -> PListSorted(S, a, rt)
      [] c = "ListLimit" -> PListLimit(S, a, rt)
      [] c = "ListSound" -> PListSound(S, a, rt)
      [] c = "ListComplete" -> PListComplete(S, a, rt)
      [] c = "DeleteExact" -> DeleteExact(S, T, a, rt)
      [] c = "ReadOnly" -> ReadOnly(S, T, a, rt)
      [] c = "EsLayout" -> EsLayoutOf(T)

DeleteRequests(a) == IF a.be = "file" \/ a.dry THEN <<>> ELSE <<"rally-races-*", "rally-metrics-*", "rally-results-*">>

Conforms(S, T, a, rt, e) ==
    CASE a.op = "Store" -> StoreStep(S, a.be, a.cid, a.r, a.fault) = [S |-> T, err |-> rt.err] /\ rt.races = <<>>
      [] a.op = "Find" -> T = S /\ rt = FindRet(S, a.be, a.id)
      [] a.op = "List" -> /\ T = S
                          /\ ListAccept(rt, CodeCands(S, a.be, a.env, a.p), a.lim)
                          /\ a.be # "file" => e.q = QueryOf(a.env, a.p, a.lim)
      [] a.op = "Delete" -> /\ DeleteStep(S, a.be, a.ids, a.env, a.dry) = [S |-> T, err |-> rt.err] /\ rt.races = <<>>
                            /\ \A i \in DOMAIN e.dq : e.dq[i] = [id |-> e.dq[i].id, env |-> a.env, pats |-> DeleteRequests(a)]
                            /\ {e.dq[i].id : i \in DOMAIN e.dq} = (IF DeleteRequests(a) = <<>> THEN {} ELSE a.ids)
      [] a.op = "Restore" -> T = S /\ rt = RestoreRet(S, a.be, a.id)
      [] a.op = "Abort" -> T = S /\ rt = NoRet
      [] a.op = "Plant" -> T = [S EXCEPT !.files[a.dir] = a.c, !.dirs = S.dirs \cup {a.dir}] /\ rt = NoRet
      [] a.op = "Remove" -> T = [S EXCEPT !.files[a.dir] = NoFile, !.dirs = S.dirs \ {a.dir}] /\ rt = NoRet
      [] a.op = "PlantEs" -> /\ T = [S EXCEPT !.es = {x \in S.es : ~(x.ix = Mon(a.d.ts) /\ x.key = a.d.id)} \cup {[ix |-> Mon(a.d.ts), key |-> a.d.id, k |-> "bad", d |-> a.d]}]
                             /\ rt = NoRet
      [] OTHER -> FALSE

TInit == Init /\ tid = 1 /\ l = 1 /\ nev = 0

Consume ==
    /\ tid <= Len(Traces)
    /\ l <= Len(Traces[tid].events)
    /\ LET e == Traces[tid].events[l]
           a == Act(e.a)
           S == State
           T == Recorded(e.st)
           rt == e.ret
       IN /\ files' = T.files /\ dirs' = T.dirs /\ es' = T.es /\ tmpl' = T.tmpl
          /\ act' = a /\ ret' = rt
          /\ IF ~WellFormed(e.st) THEN PrintT(<<"V", Traces[tid].id, l, "L2", {}>>)
             ELSE LET l1 == {c \in L1Clauses : ~Holds(c, S, T, a, rt)}
                  IN /\ IF l1 = {} THEN TRUE ELSE PrintT(<<"V", Traces[tid].id, l, "L1", l1>>)
                     /\ IF Conforms(S, T, a, rt, e) THEN TRUE ELSE PrintT(<<"V", Traces[tid].id, l, "L2", {}>>)
    /\ l' = l + 1 /\ nev' = nev + 1 /\ tid' = tid

NextTrace ==
    /\ tid <= Len(Traces)
    /\ l > Len(Traces[tid].events)
    /\ files' = [x \in Dirs |-> NoFile] /\ dirs' = {} /\ es' = {} /\ tmpl' = FALSE /\ act' = [op |-> "Init"] /\ ret' = NoRet
    /\ tid' = tid + 1 /\ l' = 1 /\ nev' = nev
    /\ IF tid < Len(Traces) THEN TRUE ELSE PrintT(<<"DONE", Len(Traces), nev>>)

TNext == Consume \/ NextTrace
TSpec == TInit /\ [][TNext]_tvars
=============================================================================
