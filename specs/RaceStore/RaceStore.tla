------------------------------ MODULE RaceStore ------------------------------
(***************************************************************************)
(* The history of races as a store (esrally/metrics.py: Race.as_dict /     *)
(* from_dict, FileRaceStore, EsRaceStore, CompositeRaceStore, race_store,   *)
(* and BenchmarkCoordinator.on_preparation_complete / on_benchmark_complete *)
(* as the writer).                                                          *)
(*                                                                         *)
(* State: the race.json files below <root>/races/<dir>/ (files, dirs), the  *)
(* documents of the indices rally-races-YYYY-MM of a metrics cluster (es)   *)
(* and whether the index template rally-races has been put (tmpl).          *)
(* One action per call of the store API (Store, Find, List, Delete, Restore *)
(* = store a race that was loaded from the store, Abort = a cancelled /     *)
(* failed benchmark completes) and per intervention of somebody else        *)
(* (Plant / Remove a race.json, PlantEs = a malformed document in an index).*)
(*                                                                         *)
(* A race r is a record                                                    *)
(*   [id, env, ts, sub, track, chal, auto, car, tags, tp, cp, pp, trev,     *)
(*    dist, res, meta, rv, rr, pipe]                                        *)
(* ts = race timestamp in ticks (TPD ticks per day, DPM days per month),    *)
(* sub = it has microseconds, auto = the challenge is auto-generated,       *)
(* tp/cp/pp = track/car/plugin params "none" | "empty" | "set",             *)
(* trev = track revision "none" | "empty" | a revision, dist = the cluster  *)
(* block (distribution version/flavor, revision, team revision),            *)
(* res = 0 (no results yet) or the version of the results, meta = 1 iff     *)
(* track/challenge meta data are attached.  Doc(r) is the JSON document     *)
(* as_dict() produces, View(d) is the Race from_dict() makes of it.         *)
(*                                                                         *)
(* The switches select the intended behaviour (TRUE) or the code as it is   *)
(* (FALSE):                                                                *)
(*   NameFilterSound     FileRaceStore: --benchmark-name lists every race   *)
(*                       whose tag name or benchmark-name matches ONCE,     *)
(*                       also together with --track.  Code: a race with     *)
(*                       both tags equal is listed twice; with --track the  *)
(*                       races matching only by benchmark-name are dropped  *)
(*                       (a filter object is consumed twice).               *)
(*   FileChallengeFilter FileRaceStore honours --challenge.  Code: ignored. *)
(*   StoreByRaceId       FileRaceStore.store_race(race) writes below        *)
(*                       races/<race.race_id>.  Code: it creates that       *)
(*                       directory but writes races/<cfg race.id>/race.json *)
(*                       (the same only when the ids agree, as they do for  *)
(*                       races created by create_race).                     *)
(*   EsOneDocPerRace     EsRaceStore.store_race replaces every earlier      *)
(*                       document of the race id.  Code: _id = race id in   *)
(*                       the index of the race's month, so a race id used   *)
(*                       again in another month gives two documents and     *)
(*                       find_by_race_id raises.                            *)
(***************************************************************************)
EXTENDS Integers, Sequences, FiniteSets, TLC, SequencesExt

CONSTANTS
    Races,          \* race objects that may be stored
    Dirs,           \* race ids (directory names, ids looked up / deleted, race id of the configuration)
    Envs,           \* system/env.name of the configuration of list / delete
    FilterSet,      \* filters of `list races`: [track, name, from, to, chal] ("" / -1 = not given, from/to = day numbers)
    Limits,         \* values of --limit
    Foreign,        \* documents somebody else writes as races/<id>/race.json
    ForeignEs,      \* documents somebody else indexes without the mandatory key "pipeline"
    DeleteSets,     \* sets of ids given to `delete race --id=a,b`
    TPD, DPM,
    Backends,       \* subset of {"file", "es", "comp"}
    Faults,         \* subset of {"none", "es"}: "es" = the metrics cluster rejects the document (not retryable)
    Mismatch,       \* store_race may be called under a configuration whose race id differs from race.race_id
    StoreOnce,      \* store_race only into the empty store (record round trip configurations)
    Ops,            \* the calls that occur (subset of {"Store", "Find", "List", "Delete", "Restore", "Abort", "Plant", "PlantEs"})
    NameFilterSound, FileChallengeFilter, StoreByRaceId, EsOneDocPerRace

VARIABLES files, dirs, es, tmpl, act, ret

vars == <<files, dirs, es, tmpl, act, ret>>
view == <<files, dirs, es, tmpl>>

Min2(a, b) == IF a < b THEN a ELSE b
Day(t) == t \div TPD
Mon(t) == t \div (TPD * DPM)

NoTags == [name |-> "", bname |-> "", other |-> ""]
NoDoc == [id |-> "", env |-> "", ts |-> 0, track |-> "", chal |-> "", car |-> <<>>, tags |-> NoTags,
          tp |-> "none", cp |-> "none", pp |-> "none", trev |-> "none", dist |-> "none",
          res |-> 0, meta |-> 0, rv |-> "", rr |-> "none", pipe |-> ""]
NoFile == [k |-> "none", d |-> NoDoc]
BadFile == [k |-> "bad", d |-> NoDoc]       \* unreadable: truncated / empty / not JSON / not an object / mandatory key missing / other timestamp format
NoRet == [err |-> "none", races |-> <<>>]

(***************************************************************************)
(* Race.as_dict(): track and challenge become names (no challenge key for   *)
(* an auto-generated challenge), microseconds are cut off, empty params and *)
(* an empty track revision are left out, meta data are not written.         *)
(***************************************************************************)
Params(p) == IF p = "set" THEN "set" ELSE "none"
Doc(r) == [id |-> r.id, env |-> r.env, ts |-> r.ts, track |-> r.track,
           chal |-> IF r.auto THEN "" ELSE r.chal, car |-> r.car, tags |-> r.tags,
           tp |-> Params(r.tp), cp |-> Params(r.cp), pp |-> Params(r.pp),
           trev |-> IF r.trev \in {"none", "empty"} THEN "none" ELSE r.trev,
           dist |-> r.dist, res |-> r.res, meta |-> 0, rv |-> r.rv, rr |-> r.rr, pipe |-> r.pipe]

(***************************************************************************)
(* Race.from_dict(): the document's content; track / challenge stay names   *)
(* (tT, cT = Python type of race.track / race.challenge), results stay a    *)
(* dict (rT; {} when there are none), absent params are None.               *)
(***************************************************************************)
View(d) == [id |-> d.id, env |-> d.env, ts |-> d.ts, sub |-> 0, track |-> d.track, chal |-> d.chal, car |-> d.car, tags |-> d.tags,
            tp |-> d.tp, cp |-> d.cp, pp |-> d.pp, trev |-> d.trev, dist |-> d.dist, res |-> d.res, meta |-> d.meta,
            rv |-> d.rv, rr |-> d.rr, pipe |-> d.pipe,
            tT |-> "str", cT |-> IF d.chal = "" THEN "NoneType" ELSE "str", rT |-> "dict"]

(* what find_by_race_id(store(r)) has to give back, field by field: everything except the sub-second part of the timestamp, the distinction
   empty / absent and the meta data (which only matter for the results documents written by the same process) *)
NormP(p) == IF p = "empty" THEN "none" ELSE p
Survives(r, d) ==
    /\ d.id = r.id /\ d.env = r.env /\ d.ts = r.ts /\ d.track = r.track /\ d.car = r.car /\ d.tags = r.tags
    /\ d.chal = (IF r.auto THEN "" ELSE r.chal)
    /\ NormP(d.tp) = NormP(r.tp) /\ NormP(d.cp) = NormP(r.cp) /\ NormP(d.pp) = NormP(r.pp) /\ NormP(d.trev) = NormP(r.trev)
    /\ d.dist = r.dist /\ d.res = r.res /\ d.rv = r.rv /\ d.rr = r.rr /\ d.pipe = r.pipe

State == [files |-> files, dirs |-> dirs, es |-> es, tmpl |-> tmpl]
WritesFile(be) == be \in {"file", "comp"}
WritesEs(be) == be \in {"es", "comp"}

(***************************************************************************)
(* store_race                                                              *)
(***************************************************************************)
FileWrite(S, cid, r) ==
    LET target == IF StoreByRaceId THEN r.id ELSE cid
        ds == S.dirs \cup {r.id}              \* io.ensure_dir(paths.race_root(cfg, race_id=race.race_id))
    IN IF target \in ds
         THEN [S |-> [S EXCEPT !.dirs = ds, !.files[target] = [k |-> "ok", d |-> Doc(r)]], err |-> "none"]
         ELSE [S |-> [S EXCEPT !.dirs = ds], err |-> "FileNotFoundError"]

EsWrite(S, r, fault) ==
    LET ix == Mon(r.ts)
        gone == IF EsOneDocPerRace THEN {x \in S.es : x.key = r.id \/ x.d.id = r.id}
                ELSE {x \in S.es : x.key = r.id /\ x.ix = ix}
    IN IF fault = "es" THEN [S |-> [S EXCEPT !.tmpl = TRUE], err |-> "RallyError"]
       ELSE [S |-> [S EXCEPT !.tmpl = TRUE, !.es = (S.es \ gone) \cup {[ix |-> ix, key |-> r.id, k |-> "ok", d |-> Doc(r)]}], err |-> "none"]

StoreStep(S, be, cid, r, fault) ==
    CASE be = "file" -> FileWrite(S, cid, r)
      [] be = "es" -> EsWrite(S, r, fault)
      [] be = "comp" -> LET f == FileWrite(S, cid, r) IN IF f.err # "none" THEN f ELSE EsWrite(f.S, r, fault)

(***************************************************************************)
(* find_by_race_id (under a configuration without list filters)             *)
(***************************************************************************)
FindRet(S, be, id) ==
    IF be = "file"
      THEN IF S.files[id].k = "ok" THEN [err |-> "none", races |-> <<View(S.files[id].d)>>] ELSE [err |-> "NotFound", races |-> <<>>]
      ELSE LET M == {x \in S.es : x.d.id = id}
           IN CASE M = {} -> [err |-> "NotFound", races |-> <<>>]
                [] Cardinality(M) > 1 -> [err |-> "RallyAssertionError", races |-> <<>>]
                [] OTHER -> LET x == CHOOSE y \in M : TRUE
                            IN IF x.k = "bad" THEN [err |-> "KeyError", races |-> <<>>] ELSE [err |-> "none", races |-> <<View(x.d)>>]

(***************************************************************************)
(* list                                                                    *)
(***************************************************************************)
Match(d, p) ==
    /\ p.track = "" \/ d.track = p.track
    /\ p.name = "" \/ d.tags.name = p.name \/ d.tags.bname = p.name
    /\ p.from = -1 \/ Day(d.ts) >= p.from
    /\ p.to = -1 \/ Day(d.ts) <= p.to
    /\ p.chal = "" \/ d.chal = p.chal

Src(b, ix, key) == [b |-> b, ix |-> ix, key |-> key]

(* FileRaceStore._to_races: candidates are [src, k, d, n]; n numbers the copies of one file in the result *)
FileCands(S, p, sound, chalf) ==
    LET D(x) == S.files[x].d
        T == {x \in Dirs : S.files[x].k = "ok" /\ (p.track = "" \/ D(x).track = p.track)}
        C(x, n) == [src |-> Src("f", -1, x), k |-> "ok", d |-> D(x), n |-> n]
        A == {C(x, 1) : x \in {y \in T : D(y).tags.name = p.name}}
        B == {C(x, 2) : x \in {y \in T : D(y).tags.bname = p.name}}
        N == IF p.name = "" THEN {C(x, 1) : x \in T}
             ELSE IF sound THEN {C(x, 1) : x \in {y \in T : D(y).tags.name = p.name \/ D(y).tags.bname = p.name}}
             ELSE IF p.track = "" THEN A \cup B      \* list(filtered_on_name) + list(filtered_on_benchmark_name)
             ELSE A                                  \* ... the second filter finds the iterator exhausted
    IN {c \in N : /\ (p.from = -1 \/ Day(c.d.ts) >= p.from)
                  /\ (p.to = -1 \/ Day(c.d.ts) <= p.to)
                  /\ (chalf => (p.chal = "" \/ c.d.chal = p.chal))}

(* EsRaceStore.list: term environment, range race-timestamp (basic_date, both ends inclusive by day), term track,
   should(user-tags.benchmark-name, user-tags.name), should(challenge) *)
EsCands(S, env, p) ==
    {[src |-> Src("e", x.ix, x.key), k |-> x.k, d |-> x.d, n |-> 1] : x \in {y \in S.es : y.d.env = env /\ Match(y.d, p)}}

CodeCands(S, be, env, p) == IF be = "file" THEN FileCands(S, p, NameFilterSound, FileChallengeFilter) ELSE EsCands(S, env, p)
WantCands(S, be, env, p) == IF be = "file" THEN FileCands(S, p, TRUE, TRUE) ELSE EsCands(S, env, p)

Newer(a, b) == a.d.ts > b.d.ts

(* the model's own answer (ties in the timestamp in an arbitrary but fixed order) *)
ListRet(cands, lim) ==
    LET sq == SetToSortSeq(cands, Newer)
        n == Min2(lim, Len(sq))
    IN IF \E i \in 1..n : sq[i].k = "bad" THEN [err |-> "KeyError", races |-> <<>>]
       ELSE [err |-> "none", races |-> [i \in 1..n |-> View(sq[i].d)]]

(* the clauses that make a sequence of races a correct answer for a set of candidates and a limit; the order among equal
   timestamps (and which of them fall under the limit) is left open, as it is by glob and by Elasticsearch.
   strict = FALSE compares the content of the races only, not the Python types of track / challenge / results *)
Strip(v) == [v EXCEPT !.tT = "", !.cT = "", !.rT = ""]
VOf(d, strict) == IF strict THEN View(d) ELSE Strip(View(d))
RS(rs, strict) == IF strict THEN rs ELSE [i \in 1..Len(rs) |-> Strip(rs[i])]
CountR(rs, v) == Cardinality({i \in 1..Len(rs) : rs[i] = v})
CountC(cands, v, strict) == Cardinality({c \in cands : c.k = "ok" /\ VOf(c.d, strict) = v})
ViewsOf(rs, cands, strict) == {rs[i] : i \in 1..Len(rs)} \cup {VOf(c.d, strict) : c \in cands}

ListSorted(rs) == \A i \in 1..(Len(rs) - 1) : rs[i].ts >= rs[i + 1].ts
ListLimit(rs, lim) == Len(rs) <= lim
ListSound(rs0, cands, strict) ==
    LET rs == RS(rs0, strict) IN \A v \in ViewsOf(rs, cands, strict) : CountR(rs, v) <= CountC(cands, v, strict)
ListComplete(rs0, cands, lim, strict) ==
    LET rs == RS(rs0, strict)
    IN /\ Len(rs) >= Min2(lim, Cardinality(cands))
       /\ Len(rs) > 0 => \A v \in ViewsOf(rs, cands, strict) : v.ts > rs[Len(rs)].ts => CountR(rs, v) >= CountC(cands, v, strict)
ListOK(rs, cands, lim) == ListSorted(rs) /\ ListLimit(rs, lim) /\ ListSound(rs, cands, TRUE) /\ ListComplete(rs, cands, lim, TRUE)

(* is r an answer the code may give (L2)?  A malformed hit makes EsRaceStore.list raise KeyError *)
ListAccept(r, cands, lim) ==
    LET want == Min2(lim, Cardinality(cands))
        bad == {c \in cands : c.k = "bad"}
        PossiblyIn(c) == Cardinality({x \in cands : x.d.ts > c.d.ts}) < want
        SurelyIn(c) == Cardinality({x \in cands : x.d.ts >= c.d.ts}) <= want
    IN CASE r.err = "KeyError" -> r.races = <<>> /\ \E c \in bad : PossiblyIn(c)
         [] r.err = "none" -> (\A c \in bad : ~SurelyIn(c)) /\ ListOK(r.races, cands, lim)
         [] OTHER -> FALSE

(* the search request EsRaceStore.list sends *)
QueryOf(env, p, lim) == [env |-> env, from |-> p.from, to |-> p.to, fmt |-> "basic_date", track |-> p.track, name |-> p.name,
                         chal |-> p.chal, size |-> lim, order |-> "desc", index |-> "rally-races-*", other |-> 0]

(***************************************************************************)
(* delete_race                                                             *)
(***************************************************************************)
DeleteStep(S, be, ids, env, dry) ==
    CASE be = "file" -> [S |-> S, err |-> "NotImplementedError"]
      [] dry -> [S |-> S, err |-> "none"]
      [] OTHER -> [S |-> [S EXCEPT !.es = {x \in S.es : ~(x.d.id \in ids /\ x.d.env = env)}], err |-> "none"]

(* storing a race that was loaded from a store: Race.as_dict() needs the challenge / results OBJECTS *)
RestoreRet(S, be, id) == LET f == FindRet(S, be, id) IN IF f.err = "none" THEN [err |-> "AttributeError", races |-> <<>>] ELSE f

(***************************************************************************)
(* Behaviour                                                               *)
(***************************************************************************)
Init ==
    /\ files = [x \in Dirs |-> NoFile]
    /\ dirs = {}
    /\ es = {}
    /\ tmpl = FALSE
    /\ act = [op |-> "Init"]
    /\ ret = NoRet

Bind(S) == files' = S.files /\ dirs' = S.dirs /\ es' = S.es /\ tmpl' = S.tmpl

Store(be, cid, r, fault) ==
    /\ LET s == StoreStep(State, be, cid, r, fault)
       IN Bind(s.S) /\ ret' = [err |-> s.err, races |-> <<>>]
    /\ act' = [op |-> "Store", be |-> be, cid |-> cid, r |-> r, fault |-> fault]

Find(be, id) ==
    /\ ret' = FindRet(State, be, id)
    /\ act' = [op |-> "Find", be |-> be, id |-> id]
    /\ UNCHANGED view

List(be, env, p, lim) ==
    /\ ret' = ListRet(CodeCands(State, be, env, p), lim)
    /\ act' = [op |-> "List", be |-> be, env |-> env, p |-> p, lim |-> lim]
    /\ UNCHANGED view

Delete(be, ids, env, dry) ==
    /\ LET s == DeleteStep(State, be, ids, env, dry)
       IN Bind(s.S) /\ ret' = [err |-> s.err, races |-> <<>>]
    /\ act' = [op |-> "Delete", be |-> be, ids |-> ids, env |-> env, dry |-> dry]

Restore(be, id) ==
    /\ ret' = RestoreRet(State, be, id)
    /\ act' = [op |-> "Restore", be |-> be, id |-> id]
    /\ UNCHANGED view

Abort(be, id) ==         \* on_benchmark_complete of a cancelled / failed benchmark: nothing is stored
    /\ ret' = NoRet
    /\ act' = [op |-> "Abort", be |-> be, id |-> id]
    /\ UNCHANGED view

Plant(x, c) ==           \* somebody else writes races/<x>/race.json
    /\ files' = [files EXCEPT ![x] = c]
    /\ dirs' = dirs \cup {x}
    /\ ret' = NoRet
    /\ act' = [op |-> "Plant", dir |-> x, c |-> c]
    /\ UNCHANGED <<es, tmpl>>

Unlink(x) ==             \* somebody removes the directory races/<x>
    /\ x \in dirs
    /\ files' = [files EXCEPT ![x] = NoFile]
    /\ dirs' = dirs \ {x}
    /\ ret' = NoRet
    /\ act' = [op |-> "Remove", dir |-> x]
    /\ UNCHANGED <<es, tmpl>>

PlantEs(d) ==            \* somebody else indexes a document that lacks a mandatory key
    /\ es' = {x \in es : ~(x.ix = Mon(d.ts) /\ x.key = d.id)} \cup {[ix |-> Mon(d.ts), key |-> d.id, k |-> "bad", d |-> d]}
    /\ ret' = NoRet
    /\ act' = [op |-> "PlantEs", d |-> d]
    /\ UNCHANGED <<files, dirs, tmpl>>

(* the rarer calls and the interventions are grouped so that TLC's simulator (which first picks an action) does not favour them *)
Rare ==
    /\ TRUE
    /\ \/ "Delete" \in Ops /\ \E be \in Backends, ids \in DeleteSets, env \in Envs, dry \in BOOLEAN : Delete(be, ids, env, dry)
       \/ "Restore" \in Ops /\ \E be \in Backends, id \in Dirs : Restore(be, id)
       \/ "Abort" \in Ops /\ \E be \in Backends, id \in Dirs : Abort(be, id)
Intervene ==
    /\ TRUE
    /\ \/ "Plant" \in Ops /\ \E x \in Dirs : Plant(x, BadFile) \/ Unlink(x) \/ \E d \in Foreign : d.id = x /\ Plant(x, [k |-> "ok", d |-> d])
       \/ "PlantEs" \in Ops /\ \E d \in ForeignEs : PlantEs(d)

Next ==
    \/ /\ "Store" \in Ops
       /\ StoreOnce => (dirs = {} /\ es = {})
       /\ \E be \in Backends, r \in Races :
            \E fault \in (IF be = "file" THEN {"none"} ELSE Faults), cid \in (IF Mismatch /\ be # "es" THEN Dirs ELSE {r.id}) :
                Store(be, cid, r, fault)
    \/ "Find" \in Ops /\ \E be \in Backends, id \in Dirs : Find(be, id)
    \/ "List" \in Ops /\ \E be \in Backends, env \in Envs, p \in FilterSet, lim \in Limits : List(be, env, p, lim)
    \/ Rare
    \/ Intervene

Spec == Init /\ [][Next]_vars

(***************************************************************************)
(* Properties.  State invariants about the stores, action properties about  *)
(* what a call returns and changes (A(st, st', act', ret') on every step).  *)
(***************************************************************************)
TypeOK ==
    /\ \A x \in Dirs : files[x].k \in {"none", "ok", "bad"} /\ (files[x].k # "ok" => files[x].d = NoDoc)
    /\ dirs \subseteq Dirs
    /\ \A x \in Dirs : files[x].k # "none" => x \in dirs
    /\ tmpl \in BOOLEAN
    /\ \A x \in es : x.k \in {"ok", "bad"}

(* an index holds one document per _id, a stored race sits in the index of its month under its race id, the template is there *)
EsLayout ==
    /\ \A x, y \in es : (x.ix = y.ix /\ x.key = y.key) => x = y
    /\ \A x \in es : x.ix = Mon(x.d.ts) /\ x.key = x.d.id
    /\ (\E x \in es : x.k = "ok") => tmpl

FileHolders(S, id) == {x \in Dirs : S.files[x].k = "ok" /\ S.files[x].d.id = id}
EsHolders(S, id) == {x \in S.es : x.d.id = id}

(* a successful store_race(r): the race is in the store under its id with every surviving field, it is the only document of that
   id the store has written, nothing else changes; CompositeRaceStore leaves the same document in both stores *)
StoreExactFile(S, T, r) ==
    /\ T.files[r.id].k = "ok" /\ Survives(r, T.files[r.id].d)
    /\ FileHolders(T, r.id) \subseteq FileHolders(S, r.id) \cup {r.id}
    /\ \A x \in Dirs \ {r.id} : T.files[x] = S.files[x]
StoreExactEs(S, T, r) ==
    /\ \E x \in T.es : x.key = r.id /\ x.k = "ok" /\ Survives(r, x.d)
    /\ \A x, y \in {z \in EsHolders(T, r.id) : z.k = "ok"} : x = y
    /\ \A x \in S.es \cup T.es : (x.d.id # r.id /\ x.key # r.id) => (x \in S.es <=> x \in T.es)
StoreExact(S, T, a, rt) ==
    (a.op = "Store" /\ rt.err = "none") =>
        /\ WritesFile(a.be) => StoreExactFile(S, T, a.r)
        /\ WritesEs(a.be) => StoreExactEs(S, T, a.r)
        /\ ~WritesFile(a.be) => T.files = S.files
        /\ ~WritesEs(a.be) => T.es = S.es
CompositeAgree(T, a, rt) ==
    (a.op = "Store" /\ rt.err = "none" /\ a.be = "comp") =>
        /\ T.files[a.r.id].k = "ok"
        /\ \E x \in T.es : x.key = a.r.id /\ x.k = "ok" /\ x.d = T.files[a.r.id].d

(* find_by_race_id returns the race the store holds for that id, NotFound when it holds none (no claim when somebody else's
   documents make the id ambiguous or unreadable) *)
FindExact(S, a, rt) ==
    a.op = "Find" =>
        LET H == IF a.be = "file" THEN {S.files[x].d : x \in FileHolders(S, a.id)} ELSE {x.d : x \in {y \in EsHolders(S, a.id) : y.k = "ok"}}
            n == IF a.be = "file" THEN Cardinality(FileHolders(S, a.id)) ELSE Cardinality(EsHolders(S, a.id))
            unclear == n > 1 \/ (a.be # "file" /\ \E y \in EsHolders(S, a.id) : y.k = "bad")
        IN \/ unclear
           \/ n = 0 /\ rt.err = "NotFound" /\ rt.races = <<>>
           \/ n = 1 /\ rt.err = "none" /\ Len(rt.races) = 1 /\ \E d \in H : Strip(rt.races[1]) = Strip(View(d))

(* list returns exactly the stored races matching the filters, newest first, at most limit; unreadable files are skipped *)
ListIntended(S, a) == WantCands(S, a.be, a.env, a.p)
ListClear(S, a) == a.op = "List" /\ \A c \in ListIntended(S, a) : c.k = "ok"
ListTotal(S, a, rt) == (a.op = "List" /\ ListClear(S, a)) => rt.err = "none"
PListSorted(S, a, rt) == (ListClear(S, a) /\ rt.err = "none") => ListSorted(rt.races)
PListLimit(S, a, rt) == (ListClear(S, a) /\ rt.err = "none") => ListLimit(rt.races, a.lim)
PListSound(S, a, rt) == (ListClear(S, a) /\ rt.err = "none") => ListSound(rt.races, ListIntended(S, a), FALSE)
PListComplete(S, a, rt) == (ListClear(S, a) /\ rt.err = "none") => ListComplete(rt.races, ListIntended(S, a), a.lim, FALSE)

(* delete removes exactly the races of the given ids in the environment of the configuration (race.json files stay) *)
DeleteExact(S, T, a, rt) ==
    (a.op = "Delete" /\ rt.err = "none") =>
        /\ T.files = S.files /\ T.dirs = S.dirs
        /\ T.es = (IF a.dry THEN S.es ELSE {x \in S.es : ~(x.d.id \in a.ids /\ x.d.env = a.env)})

(* reading, a failing store of a loaded race, a cancelled benchmark and a failed call of the file store change nothing *)
ReadOnly(S, T, a, rt) ==
    /\ a.op \in {"Find", "List", "Restore", "Abort"} => T = S
    /\ (a.op = "Delete" /\ rt.err # "none") => T = S
    /\ (a.op = "Store" /\ rt.err # "none") => (T.es = S.es /\ (a.be = "es" => T.files = S.files))

StateP == [files |-> files', dirs |-> dirs', es |-> es', tmpl |-> tmpl']

PropStoreExact == [][StoreExact(State, StateP, act', ret')]_vars
PropCompositeAgree == [][CompositeAgree(StateP, act', ret')]_vars
PropFindExact == [][FindExact(State, act', ret')]_vars
PropListTotal == [][ListTotal(State, act', ret')]_vars
PropListSorted == [][PListSorted(State, act', ret')]_vars
PropListLimit == [][PListLimit(State, act', ret')]_vars
PropListSound == [][PListSound(State, act', ret')]_vars
PropListComplete == [][PListComplete(State, act', ret')]_vars
PropDeleteExact == [][DeleteExact(State, StateP, act', ret')]_vars
PropReadOnly == [][ReadOnly(State, StateP, act', ret')]_vars
(* the model's own answer of list is one the acceptance predicate of the conformance leg accepts *)
PropListAccept == [][act'.op = "List" => ListAccept(ret', CodeCands(State, act'.be, act'.env, act'.p), act'.lim)]_vars
=============================================================================
