\* self-test: the code as it is (StoreByRaceId = FALSE): store_race under a configuration with another race id writes that race's file -> PropStoreExact is violated
SPECIFICATION Spec
CONSTANTS
  Races <- RacesQ
  Dirs <- DirsQ
  Envs <- EnvsQ
  FilterSet <- FiltersQ
  Limits <- LimitsQ
  Foreign <- ForeignQ
  ForeignEs <- ForeignEsQ
  DeleteSets <- DeleteQ
  TPD = 2
  DPM = 2
  Backends <- FileOnly
  Faults <- BothFaults
  StoreOnce = FALSE
  Ops <- AllOps
  Mismatch = TRUE
  NameFilterSound = TRUE
  FileChallengeFilter = TRUE
  StoreByRaceId = FALSE
  EsOneDocPerRace = TRUE
VIEW view
INVARIANT TypeOK
INVARIANT EsLayout
PROPERTY PropStoreExact
CHECK_DEADLOCK FALSE
