\* self-test: the code as it is (EsOneDocPerRace = FALSE): a race id stored again with a timestamp in another month leaves two documents -> PropStoreExact is violated
SPECIFICATION Spec
CONSTANTS
  Races <- RacesQ
  Dirs <- DirsQ
  Envs <- EnvsQ
  FilterSet <- FiltersQ
  Limits <- LimitsQ
  Foreign <- ForeignQ
  ForeignEs <- ForeignEsQ
  DeleteSets <- DeleteQ
  TPD = 2
  DPM = 2
  Backends <- EsOnly
  Faults <- BothFaults
  StoreOnce = FALSE
  Ops <- AllOps
  Mismatch = FALSE
  NameFilterSound = TRUE
  FileChallengeFilter = TRUE
  StoreByRaceId = TRUE
  EsOneDocPerRace = FALSE
VIEW view
INVARIANT TypeOK
INVARIANT EsLayout
PROPERTY PropStoreExact
CHECK_DEADLOCK FALSE
