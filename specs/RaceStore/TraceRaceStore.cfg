\* the code as it is (all switches FALSE); the alphabets of the model checking configurations are not used
SPECIFICATION TSpec
CONSTANTS
  Races = {}
  Dirs <- TraceDirs
  Envs = {}
  FilterSet = {}
  Limits = {}
  Foreign = {}
  ForeignEs = {}
  DeleteSets = {}
  TPD = 2
  DPM = 2
  Backends = {}
  Faults = {}
  StoreOnce = FALSE
  Ops = {}
  Mismatch = FALSE
  NameFilterSound = FALSE
  FileChallengeFilter = FALSE
  StoreByRaceId = FALSE
  EsOneDocPerRace = FALSE
CHECK_DEADLOCK FALSE
