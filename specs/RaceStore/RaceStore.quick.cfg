\* history of two race ids under all three backends, intended behaviour (all switches TRUE): every property holds
SPECIFICATION Spec
CONSTANTS
  Races <- RacesQ
  Dirs <- DirsQ
  Envs <- EnvsQ
  FilterSet <- FiltersT
  Limits <- LimitsT
  Foreign <- ForeignQ
  ForeignEs <- ForeignEsQ
  DeleteSets <- DeleteQ
  TPD = 2
  DPM = 2
  Backends <- AllBackends
  Faults <- BothFaults
  StoreOnce = FALSE
  Ops <- AllOps
  Mismatch = TRUE
  NameFilterSound = TRUE
  FileChallengeFilter = TRUE
  StoreByRaceId = TRUE
  EsOneDocPerRace = TRUE
VIEW view
INVARIANT TypeOK
INVARIANT EsLayout
PROPERTY PropStoreExact
PROPERTY PropCompositeAgree
PROPERTY PropFindExact
PROPERTY PropListTotal
PROPERTY PropListSorted
PROPERTY PropListLimit
PROPERTY PropListSound
PROPERTY PropListComplete
PROPERTY PropDeleteExact
PROPERTY PropReadOnly
PROPERTY PropListAccept
CHECK_DEADLOCK FALSE
