\* self-test: the code as it is (NameFilterSound = FALSE): --track with --benchmark-name drops the races that match by benchmark-name only -> PropListComplete is violated
SPECIFICATION Spec
CONSTANTS
  Races <- RacesQ
  Dirs <- DirsQ
  Envs <- EnvsQ
  FilterSet <- FiltersQ
  Limits <- LimitsQ
  Foreign <- ForeignQ
  ForeignEs <- ForeignEsQ
  DeleteSets <- DeleteQ
  TPD = 2
  DPM = 2
  Backends <- FileOnly
  Faults <- BothFaults
  StoreOnce = FALSE
  Ops <- AllOps
  Mismatch = FALSE
  NameFilterSound = FALSE
  FileChallengeFilter = TRUE
  StoreByRaceId = TRUE
  EsOneDocPerRace = TRUE
VIEW view
INVARIANT TypeOK
INVARIANT EsLayout
PROPERTY PropListComplete
CHECK_DEADLOCK FALSE
