\* record round trip: every combination of the specially treated fields stored once into the empty store (file and es), then found / listed
SPECIFICATION Spec
CONSTANTS
  Races <- RacesRec
  Dirs <- DirsRec
  Envs <- EnvsQ
  FilterSet <- FiltersRec
  Limits <- LimitsRec
  Foreign = {}
  ForeignEs = {}
  DeleteSets = {}
  TPD = 2
  DPM = 2
  Backends <- FileEs
  Faults <- NoFault
  StoreOnce = TRUE
  Ops <- RecOps
  Mismatch = FALSE
  NameFilterSound = FALSE
  FileChallengeFilter = FALSE
  StoreByRaceId = FALSE
  EsOneDocPerRace = FALSE
INVARIANT TypeOK
INVARIANT EsLayout
PROPERTY PropStoreExact
PROPERTY PropCompositeAgree
PROPERTY PropFindExact
PROPERTY PropListTotal
PROPERTY PropListSorted
PROPERTY PropListLimit
PROPERTY PropListSound
PROPERTY PropListComplete
PROPERTY PropDeleteExact
PROPERTY PropReadOnly
PROPERTY PropListAccept
CHECK_DEADLOCK FALSE
