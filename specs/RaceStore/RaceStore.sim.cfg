\* simulation (code as it is), wide alphabets; used with -simulate only
SPECIFICATION Spec
CONSTANTS
  Races <- RacesSim
  Dirs <- DirsT
  Envs <- EnvsSim
  FilterSet <- FiltersSim
  Limits <- LimitsSim
  Foreign <- ForeignSim
  ForeignEs <- ForeignEsSim
  DeleteSets <- DeleteSim
  TPD = 2
  DPM = 2
  Backends <- AllBackends
  Faults <- BothFaults
  StoreOnce = FALSE
  Ops <- AllOps
  Mismatch = FALSE
  NameFilterSound = FALSE
  FileChallengeFilter = FALSE
  StoreByRaceId = FALSE
  EsOneDocPerRace = FALSE
VIEW view
INVARIANT TypeOK
INVARIANT EsLayout
PROPERTY PropReadOnly
PROPERTY PropListAccept
PROPERTY PropDeleteExact
CHECK_DEADLOCK FALSE
