\* three race ids, wider filters and limits, intended behaviour
SPECIFICATION Spec
CONSTANTS
  Races <- RacesT
  Dirs <- DirsT
  Envs <- EnvsQ
  FilterSet <- FiltersT
  Limits <- LimitsT
  Foreign <- ForeignT
  ForeignEs <- ForeignEsT
  DeleteSets <- DeleteQ
  TPD = 2
  DPM = 2
  Backends <- AllBackends
  Faults <- BothFaults
  StoreOnce = FALSE
  Ops <- AllOps
  Mismatch = TRUE
  NameFilterSound = TRUE
  FileChallengeFilter = TRUE
  StoreByRaceId = TRUE
  EsOneDocPerRace = TRUE
VIEW view
INVARIANT TypeOK
INVARIANT EsLayout
PROPERTY PropStoreExact
PROPERTY PropCompositeAgree
PROPERTY PropFindExact
PROPERTY PropListTotal
PROPERTY PropListSorted
PROPERTY PropListLimit
PROPERTY PropListSound
PROPERTY PropListComplete
PROPERTY PropDeleteExact
PROPERTY PropReadOnly
PROPERTY PropListAccept
CHECK_DEADLOCK FALSE
