\* self-test: the code as it is (FileChallengeFilter = FALSE): FileRaceStore.list ignores --challenge -> PropListSound is violated
SPECIFICATION Spec
CONSTANTS
  Races <- RacesQ
  Dirs <- DirsQ
  Envs <- EnvsQ
  FilterSet <- FiltersQ
  Limits <- LimitsQ
  Foreign <- ForeignQ
  ForeignEs <- ForeignEsQ
  DeleteSets <- DeleteQ
  TPD = 2
  DPM = 2
  Backends <- FileOnly
  Faults <- BothFaults
  StoreOnce = FALSE
  Ops <- AllOps
  Mismatch = FALSE
  NameFilterSound = TRUE
  FileChallengeFilter = FALSE
  StoreByRaceId = TRUE
  EsOneDocPerRace = TRUE
VIEW view
INVARIANT TypeOK
INVARIANT EsLayout
PROPERTY PropListSound
CHECK_DEADLOCK FALSE
