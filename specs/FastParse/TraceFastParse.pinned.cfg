\* the code as it is (all three switches off): used to tell which recorded violations are the known ones
SPECIFICATION TSpec
CONSTANTS
  ShardFailureFix = FALSE
  CursorFix = FALSE
  CursorRawDecode = FALSE
  NullMemberFix = FALSE
  InputSets <- NoInputs
CHECK_DEADLOCK FALSE
