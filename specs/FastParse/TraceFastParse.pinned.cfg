\* the code as it is (null members are kept since 2e39ed6, the description sort is repaired since 82901c2; the other repairs are not in the code): used to tell which recorded violations are the known ones
SPECIFICATION TSpec
CONSTANTS
  ShardFailureFix = FALSE
  DescriptionSortFix = TRUE
  CursorFix = FALSE
  CursorRawDecode = FALSE
  NullMemberFix = TRUE
  InputSets <- NoInputs
CHECK_DEADLOCK FALSE
