---------------------------- MODULE Gen_FastParse ----------------------------
(* Writes the input universe of MC_FastParse (= the initial states of the model-checked specification) as      *)
(* newline-delimited JSON, one file per input set, into the directory named by env VERIF_OUT.  Used by leg S2C: *)
(* a -dump of the same states is 7 KB of pretty-printed text per state.                                         *)
EXTENDS MC_FastParse, Json, IOUtils

ASSUME \A k \in DOMAIN AllInputs :
          ndJsonSerialize(IOEnv.VERIF_OUT \o "/in" \o ToString(k) \o ".ndjson", SetToSeq(AllInputs[k]))
ASSUME PrintT(<<"GEN", [k \in DOMAIN AllInputs |-> Cardinality(AllInputs[k])]>>)
=============================================================================
