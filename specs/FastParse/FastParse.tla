----------------------------- MODULE FastParse -----------------------------
(***************************************************************************)
(* Property C19: wherever Rally extracts information from a response       *)
(* without fully parsing it, the extracted values equal those obtained by  *)
(* fully parsing the same JSON (esrally/driver/runner.py).                 *)
(*                                                                         *)
(* Three parts, one module:                                                *)
(*  (a) Parse   - the EVENT-level state machine of runner.parse over the   *)
(*                (prefix, event, value) stream ijson produces; Events(t)  *)
(*                flattens an abstract JSON tree exactly as ijson does.    *)
(*  (b) Bulk    - BulkIndex.simple_stats (fast path, trusts the top-level  *)
(*                `errors`) and detailed_stats, and the property-level     *)
(*                Failed(item).                                            *)
(*  (c) Cursor  - SearchAfterExtractor / CompositeAggExtractor and the hit  *)
(*                and page accounting of the Query sub-runners.            *)
(*                                                                         *)
(* Abstract JSON ("tree"):                                                 *)
(*   scalar  [t |-> "s", ty |-> "string"|"number"|"boolean"|"null",        *)
(*            v |-> token, n |-> integer value of a small int, else 0]     *)
(*   object  [t |-> "o", kv |-> << [k |-> key, v |-> tree], ... >>]  (ordered)*)
(*   array   [t |-> "a", el |-> << tree, ... >>]                           *)
(* Tokens stand for concrete scalars; the token <-> text table belongs to  *)
(* the conformance harness ("k:<s>" = the literal string s, "n:<i>" = the  *)
(* integer i, everything else opaque).  Equal tokens <=> equal JSON values.*)
(* Function-like: Init chooses an input, Eval computes the result.         *)
(***************************************************************************)
EXTENDS Integers, Sequences, FiniteSets, TLC

CONSTANTS
    ShardFailureFix,  \* TRUE: repaired simple_stats (re-parses when an item is failed by the predicate of both paths - failed shards,
                      \* or a status > 299 without an `error` such as a delete of a missing document - although errors=false)
                      \* FALSE: the code as it is (trusts the top-level `errors` flag)
    DescriptionSortFix, \* TRUE: repaired error_description (orders (status, None) and (status, text)); FALSE: the code as it is:
                      \* sorted() raises TypeError when one status occurs with and without a reason (delete not_found + update of a
                      \* missing document, both 404)
    CursorFix,        \* TRUE: repaired SearchAfterExtractor (cursor = `sort` of the last hit);
                      \* FALSE: the code as it is (regex on the raw text after the last "sort" token)
    CursorRawDecode,  \* only read when CursorFix = FALSE.  TRUE: the partial repair of SearchAfterExtractor proposed with this check
                      \* (right-most `"sort"` KEY whose value is a list, decoded by json's raw_decode); FALSE: the regex
    NullMemberFix,    \* TRUE: repaired parse(): null members of a requested flat object are kept; FALSE: dropped
    InputSets         \* the bounded input universe: a sequence of sets of inputs (defined in MC_FastParse)

-----------------------------------------------------------------------------
(* abstract JSON                                                            *)
Absent == [t |-> "absent"]
ErrorV == [t |-> "error"]
Sc(ty, v, n) == [t |-> "s", ty |-> ty, v |-> v, n |-> n]
NullV == Sc("null", "z", 0)
TrueV == Sc("boolean", "b:1", 0)
FalseV == Sc("boolean", "b:0", 0)
Known(s) == Sc("string", "k:" \o s, 0)
Num(i) == Sc("number", "n:" \o ToString(i), i)
Obj(kv) == [t |-> "o", kv |-> kv]
Arr(el) == [t |-> "a", el |-> el]
KV(k, v) == [k |-> k, v |-> v]

N(x) == IF x.t = "s" THEN x.n ELSE 0
(* Python truthiness of a value produced by parse() *)
Truthy(x) == /\ x.t = "s"
             /\ \/ x.ty = "boolean" /\ x.v = "b:1"
                \/ x.ty = "number" /\ x.v # "n:0"
                \/ x.ty = "string" /\ x.v # "k:"

SetMax(S) == CHOOSE x \in S : \A y \in S : y <= x

(* what a FULL parse (json.loads) finds at a path of keys: the subtree, or Absent *)
RECURSIVE Lookup(_, _)
Lookup(tr, ps) ==
    IF ps = <<>> THEN tr
    ELSE IF tr.t # "o" THEN Absent
    ELSE LET idx == {i \in 1..Len(tr.kv) : tr.kv[i].k = Head(ps)}
         IN IF idx = {} THEN Absent ELSE Lookup(tr.kv[SetMax(idx)].v, Tail(ps))

RECURSIVE Join(_)
Join(ps) == IF ps = <<>> THEN "" ELSE IF Len(ps) = 1 THEN ps[1] ELSE ps[1] \o "." \o Join(Tail(ps))
Path(ps) == [p |-> Join(ps), ps |-> ps]
Paths(S) == {x.p : x \in S}

-----------------------------------------------------------------------------
(* (a) the event stream of ijson.parse (ijson 2.6, any backend)             *)
Sub(p, k) == IF p = "" THEN k ELSE p \o "." \o k
E(p, ps, e, v) == [p |-> p, ps |-> ps, e |-> e, v |-> v]

RECURSIVE Ev(_, _, _), EvKV(_, _, _), EvEl(_, _, _)
Ev(tr, p, ps) ==
    CASE tr.t = "s" -> <<E(p, ps, tr.ty, tr)>>
      [] tr.t = "o" -> <<E(p, ps, "start_map", NullV)>> \o EvKV(tr.kv, p, ps) \o <<E(p, ps, "end_map", NullV)>>
      [] tr.t = "a" -> <<E(p, ps, "start_array", NullV)>> \o EvEl(tr.el, Sub(p, "item"), Append(ps, "item"))
                          \o <<E(p, ps, "end_array", NullV)>>
EvKV(kv, p, ps) ==
    IF kv = <<>> THEN <<>>
    ELSE <<E(p, ps, "map_key", Known(kv[1].k))>> \o Ev(kv[1].v, Sub(p, kv[1].k), Append(ps, kv[1].k)) \o EvKV(Tail(kv), p, ps)
EvEl(el, p, ps) == IF el = <<>> THEN <<>> ELSE Ev(el[1], p, ps) \o EvEl(Tail(el), p, ps)

Events(tree) == Ev(tree, "", <<>>)

(* runner.parse(text, props, lists, objects): one Step per (prefix, event, value).  Maps are sets of [p, v]. *)
Put(m, p, v) == {x \in m : x.p # p} \cup {[p |-> p, v |-> v]}
Has(m, p) == \E x \in m : x.p = p
Get(m, p) == (CHOOSE x \in m : x.p = p).v
GetOr(m, p, d) == IF Has(m, p) THEN Get(m, p) ELSE d

Req(props, lists, objs) == [props |-> props, lists |-> lists, objs |-> objs]

ScalarEvents == {"boolean", "integer", "double", "number", "string"} \cup (IF NullMemberFix THEN {"null"} ELSE {})

InitPS == [parsed |-> {}, lists |-> {}, objs |-> {}, cur |-> {}, curList |-> "", expect |-> FALSE,
           inObj |-> "", inDepth |-> 0, n |-> 0, stop |-> FALSE]

Step(s, ev, req) ==
    LET s1 == IF s.expect
              THEN [s EXCEPT !.lists = Put(@, s.curList, ev.e = "end_array"), !.expect = FALSE]
              ELSE s
        s2 == IF ev.p \in Paths(req.props) THEN [s1 EXCEPT !.parsed = Put(@, ev.p, ev.v)]
              ELSE IF ev.p \in Paths(req.lists) /\ ev.e = "start_array"
                   THEN [s1 EXCEPT !.curList = ev.p, !.expect = TRUE]
              ELSE IF req.objs # {} /\ ev.e = "end_map" /\ ev.p \in Paths(req.objs)
                   THEN [s1 EXCEPT !.objs = Put(@, s1.inObj, s1.cur), !.inObj = ""]
              ELSE IF req.objs # {} /\ ev.e = "start_map" /\ ev.p \in Paths(req.objs)
                   THEN [s1 EXCEPT !.inObj = ev.p, !.inDepth = Len(ev.ps), !.cur = {}]
              ELSE IF s1.inObj # "" /\ ev.e \in ScalarEvents
                   THEN [s1 EXCEPT !.cur = Put(@, Join(SubSeq(ev.ps, s1.inDepth + 1, Len(ev.ps))), ev.v)]
              ELSE s1
        found == /\ Cardinality(s2.parsed) = Cardinality(req.props)
                 /\ Cardinality(s2.lists) = Cardinality(req.lists)
                 /\ Cardinality(s2.objs) = Cardinality(req.objs)
    IN [s2 EXCEPT !.n = @ + 1, !.stop = found]

RECURSIVE Run(_, _, _, _)
Run(s, evs, i, req) == IF i > Len(evs) \/ s.stop THEN s ELSE Run(Step(s, evs[i], req), evs, i + 1, req)

(* result of parse(): found props, list-emptiness flags, flat objects, and the number of events consumed *)
Parse(tree, req) ==
    LET s == Run(InitPS, Events(tree), 1, req)
    IN [props |-> s.parsed, lists |-> s.lists, objs |-> s.objs, n |-> s.n]

(* ---- L1 for parse(): equality with the full parse, for what the caller may ask for ---- *)
IsFlat(f) == f.t = "o" /\ \A i \in 1..Len(f.kv) : f.kv[i].v.t = "s"
FlatSet(f) == {[p |-> f.kv[i].k, v |-> f.kv[i].v] : i \in 1..Len(f.kv)}

PropsEqualFull(tree, req, got) ==
    \A q \in req.props :
        LET f == Lookup(tree, q.ps)
        IN /\ f.t = "s" => [p |-> q.p, v |-> f] \in got.props
           /\ f.t = "absent" => ~Has(got.props, q.p)
ListFlagsEqualFull(tree, req, got) ==
    \A q \in req.lists :
        LET f == Lookup(tree, q.ps)
        IN IF f.t = "a" THEN [p |-> q.p, v |-> (f.el = <<>>)] \in got.lists ELSE ~Has(got.lists, q.p)
(* a requested property / list inside a requested object is taken by the property branch: such requests are not made *)
Inside(r, q) == Len(r.ps) > Len(q.ps) /\ SubSeq(r.ps, 1, Len(q.ps)) = q.ps
Overlapped(q, req) == \E r \in req.props \cup req.lists \cup req.objs : Inside(r, q) \/ (r \in req.objs /\ Inside(q, r))
FlatObjectsEqualFull(tree, req, got) ==
    \A q \in req.objs :
        LET f == Lookup(tree, q.ps)
        IN /\ (IsFlat(f) /\ ~Overlapped(q, req)) => [p |-> q.p, v |-> FlatSet(f)] \in got.objs
           /\ f.t # "o" => ~Has(got.objs, q.p)

-----------------------------------------------------------------------------
(* (b) bulk accounting                                                      *)
BulkReq == Req({Path(<<"errors">>), Path(<<"took">>)}, {}, {})

Items(tree) == LET it == Lookup(tree, <<"items">>) IN IF it.t = "a" THEN it.el ELSE <<>>
DataOf(item) == item.kv[1].v                       \* next(iter(item.values()))
ShardsFailed(d) == N(Lookup(d, <<"_shards", "failed">>)) > 0
Failed(d) == N(Lookup(d, <<"status">>)) > 299 \/ ShardsFailed(d)     \* the item predicate of both code paths
HasError(d) == Lookup(d, <<"error">>).t # "absent"
FailedIdx(tree) == {i \in 1..Len(Items(tree)) : Failed(DataOf(Items(tree)[i]))}
NumItems(tree) == Len(Items(tree))
NumFailed(tree) == Cardinality(FailedIdx(tree))

ErrDetail(d) ==       \* extract_error_details
    LET e == Lookup(d, <<"error">>)
        r == IF e.t = "o" /\ e.kv # <<>>
             THEN (LET x == Lookup(e, <<"reason">>) IN IF x.t = "absent" THEN NullV ELSE x)
             ELSE IF e.t = "s" /\ Truthy(e) THEN e ELSE NullV
    IN [st |-> N(Lookup(d, <<"status">>)), r |-> r]
Details(tree) == {ErrDetail(DataOf(Items(tree)[i])) : i \in FailedIdx(tree)}

TookOf(tree) == LET x == Lookup(tree, <<"took">>) IN IF x.t = "absent" THEN NullV ELSE x

(* error_description: sorted(set of (status, reason)) compares None with a string when a status occurs with and without reason *)
SortRaises(ds) == ~DescriptionSortFix /\ \E a, b \in ds : a.st = b.st /\ a.r = NullV /\ b.r # NullV
(* the error description as far as it does not depend on the text of the reasons: entries ordered by (status, reason or ""),  *)
(* i.e. per status the entries without a message first; at most 5 entries, then "TRUNCATED" and <count>x<status> per status *)
NoDesc == [ents |-> <<>>, trunc |-> FALSE, summary |-> <<>>]
RECURSIVE AscSeq(_)
AscSeq(S) == IF S = {} THEN <<>> ELSE LET m == CHOOSE x \in S : \A y \in S : x <= y IN <<m>> \o AscSeq(S \ {m})
Rep(n, x) == [i \in 1..n |-> x]
RECURSIVE EntriesFor(_, _)
EntriesFor(sts, ds) ==
    IF sts = <<>> THEN <<>>
    ELSE LET mine == {d \in ds : d.st = Head(sts)}
             bare == Cardinality({d \in mine : ~Truthy(d.r)})
         IN Rep(bare, [st |-> Head(sts), msg |-> FALSE]) \o Rep(Cardinality(mine) - bare, [st |-> Head(sts), msg |-> TRUE])
            \o EntriesFor(Tail(sts), ds)
Description(ds) ==
    IF ds = {} THEN NoDesc
    ELSE LET sts == AscSeq({d.st : d \in ds})
             all == EntriesFor(sts, ds)
         IN [ents |-> SubSeq(all, 1, IF Len(all) > 5 THEN 5 ELSE Len(all)),
             trunc |-> Len(all) > 5,
             summary |-> IF Len(all) > 5 THEN [i \in 1..Len(sts) |-> [n |-> Cardinality({d \in ds : d.st = sts[i]}), st |-> sts[i]]] ELSE <<>>]

RaisedStats == [success |-> FALSE, sc |-> -2, ec |-> -2, took |-> ErrorV, details |-> {}, desc |-> NoDesc]     \* the call raised

(* counts: -1 = None (not determined) *)
DetailedStats(tree) ==
    IF SortRaises(Details(tree)) THEN RaisedStats
    ELSE [success |-> NumFailed(tree) = 0, sc |-> NumItems(tree) - NumFailed(tree), ec |-> NumFailed(tree),
          took |-> TookOf(tree), details |-> Details(tree), desc |-> Description(Details(tree))]

SimpleStats(tree, size, unit) ==
    LET pr == Parse(tree, BulkReq).props
        reparse == \/ Truthy(GetOr(pr, "errors", FalseV))
                   \/ ShardFailureFix /\ \E i \in 1..Len(Items(tree)) : Failed(DataOf(Items(tree)[i]))
        nf == IF reparse THEN NumFailed(tree) ELSE 0
    IN IF reparse /\ SortRaises(Details(tree)) THEN RaisedStats
       ELSE [success |-> nf = 0,
             sc |-> IF reparse THEN NumItems(tree) - nf ELSE IF unit = "docs" THEN size ELSE -1,
             ec |-> nf,
             took |-> GetOr(pr, "took", NullV),
             details |-> IF reparse THEN Details(tree) ELSE {},
             desc |-> IF reparse THEN Description(Details(tree)) ELSE NoDesc]

(* the shapes Elasticsearch returns for _bulk: `errors` is true iff some item carries an `error`;   *)
(* every item has a numeric status; an item with an `error` has status > 299                        *)
BulkShape(tree, size, unit) ==
    /\ Lookup(tree, <<"errors">>) \in {TrueV, FalseV}
    /\ (Lookup(tree, <<"errors">>) = TrueV) <=> (\E i \in 1..Len(Items(tree)) : HasError(DataOf(Items(tree)[i])))
    /\ \A i \in 1..Len(Items(tree)) : LET d == DataOf(Items(tree)[i])
                                      IN HasError(d) => N(Lookup(d, <<"status">>)) > 299   \* (a delete of a missing document: 404, no error)
    /\ Lookup(tree, <<"took">>).t = "s"
    /\ unit = "docs" => size = NumItems(tree)

StatsOk(tree, unit, st, fast) ==     \* clauses per code path
    [SuccessIffNoItemFailed |-> st.success = (NumFailed(tree) = 0),
     ErrorCount |-> st.ec = NumFailed(tree),
     SuccessCount |-> \/ st.sc = NumItems(tree) - NumFailed(tree)
                      \/ fast /\ st.sc = -1 /\ unit # "docs" /\ NumFailed(tree) = 0,   \* documented: not determined
     Took |-> st.took = TookOf(tree)]

BulkClauses == {"FastSuccessIffNoItemFailed", "FastErrorCount", "FastSuccessCount", "FastTook",
                "DetailedSuccessIffNoItemFailed", "DetailedErrorCount", "DetailedSuccessCount", "DetailedTook",
                "PathsAgree"}
BulkHolds(c, tree, unit, fast, det) ==
    LET f == StatsOk(tree, unit, fast, TRUE)
        d == StatsOk(tree, unit, det, FALSE)
    IN CASE c = "FastSuccessIffNoItemFailed" -> f.SuccessIffNoItemFailed
         [] c = "FastErrorCount" -> f.ErrorCount
         [] c = "FastSuccessCount" -> f.SuccessCount
         [] c = "FastTook" -> f.Took
         [] c = "DetailedSuccessIffNoItemFailed" -> d.SuccessIffNoItemFailed
         [] c = "DetailedErrorCount" -> d.ErrorCount
         [] c = "DetailedSuccessCount" -> d.SuccessCount
         [] c = "DetailedTook" -> d.Took
         [] c = "PathsAgree" -> /\ fast.success = det.success /\ fast.ec = det.ec
                                /\ fast.sc \in {det.sc, -1} /\ fast.took = det.took
                                /\ fast.details = det.details /\ fast.desc = det.desc
BulkViolated(tree, size, unit, fast, det) ==
    IF BulkShape(tree, size, unit) THEN {c \in BulkClauses : ~BulkHolds(c, tree, unit, fast, det)} ELSE {}

-----------------------------------------------------------------------------
(* (c) cursors, hits and pages                                              *)
Hits(tree) == LET h == Lookup(tree, <<"hits", "hits">>) IN IF h.t = "a" THEN h.el ELSE <<>>
(* the pagination cursor per the property: the `sort` value of the last hit (None without hits / sort) *)
LastSort(tree) ==
    IF Hits(tree) = <<>> THEN NullV
    ELSE LET s == Lookup(Hits(tree)[Len(Hits(tree))], <<"sort">>) IN IF s.t = "absent" THEN NullV ELSE s

(* the code as it is: text from the LAST raw occurrence of "sort" (a key, or a string value that is exactly   *)
(* `sort`), regex  sort\":([^\]]*])  -> json.loads.  lex = [brackets |-> tokens/keys whose text contains `]`,  *)
(* spc |-> whitespace between a key and its colon].  Assumes the occurrence lies inside hits.hits and no other *)
(* key ends in `sort`.                                                                                        *)
RECURSIVE Occ(_), OccKV(_), OccEl(_)
Occ(tr) == CASE tr.t = "s" -> IF tr.ty = "string" /\ tr.v = "k:sort" THEN <<[kind |-> "val", val |-> NullV]>> ELSE <<>>
             [] tr.t = "o" -> OccKV(tr.kv)
             [] tr.t = "a" -> OccEl(tr.el)
OccKV(kv) == IF kv = <<>> THEN <<>>
             ELSE (IF kv[1].k = "sort" THEN <<[kind |-> "key", val |-> kv[1].v]>> ELSE <<>>) \o Occ(kv[1].v) \o OccKV(Tail(kv))
OccEl(el) == IF el = <<>> THEN <<>> ELSE Occ(el[1]) \o OccEl(Tail(el))

RECURSIVE NoBracket(_, _)
NoBracket(tr, br) == CASE tr.t = "s" -> tr.v \notin br
                       [] tr.t = "o" -> \A i \in 1..Len(tr.kv) : tr.kv[i].k \notin br /\ NoBracket(tr.kv[i].v, br)
                       [] tr.t = "a" -> FALSE
RegexCursor(tree, lex) ==
    LET occ == Occ(tree)
    IN IF occ = <<>> THEN NullV
       ELSE LET o == occ[Len(occ)]
            IN IF o.kind = "val" \/ lex.spc THEN NullV
               ELSE IF o.val.t = "a" /\ \A i \in 1..Len(o.val.el) : NoBracket(o.val.el[i], lex.brackets) THEN o.val
               ELSE ErrorV
(* the partial repair: scanning from the right, the first "sort" that is a key with a list value; immune to brackets and     *)
(* whitespace, but a list-valued `sort` member serialised after the last hit's own sort is still taken                        *)
RawDecodeCursor(tree) ==
    LET occ == Occ(tree)
        cand == {i \in 1..Len(occ) : occ[i].kind = "key" /\ occ[i].val.t = "a"}
    IN IF cand = {} THEN NullV ELSE occ[SetMax(cand)].val
Cursor(tree, lex) == IF CursorFix THEN LastSort(tree) ELSE IF CursorRawDecode THEN RawDecodeCursor(tree) ELSE RegexCursor(tree, lex)

P(s) == Path(s)
TotalProps == {P(<<"hits", "total">>), P(<<"hits", "total", "value">>), P(<<"hits", "total", "relation">>)}
PagedProps(pit, htKnown) ==
    {P(<<"timed_out">>), P(<<"took">>)} \cup (IF pit THEN {P(<<"pit_id">>)} ELSE {}) \cup (IF htKnown THEN {} ELSE TotalProps)

NoRes == [exc |-> "none", took |-> Absent, timed_out |-> Absent, pit_id |-> Absent, total |-> Absent, rel |-> Absent,
          cursor |-> Absent, after |-> Absent]

(* standardisation shared by both extractors; ht = Absent stands for hits_total=None *)
Standard(pr, ht) ==
    [NoRes EXCEPT !.took = GetOr(pr, "took", Absent), !.timed_out = GetOr(pr, "timed_out", Absent),
                  !.pit_id = GetOr(pr, "pit_id", Absent),
                  !.total = GetOr(pr, "hits.total.value", GetOr(pr, "hits.total", IF ht = Absent THEN NullV ELSE ht)),
                  !.rel = GetOr(pr, "hits.total.relation", Known("eq"))]

SearchAfterX(tree, lex, pit, ht) ==
    LET pr == Parse(tree, Req(PagedProps(pit, ht # Absent), {}, {})).props
        c == Cursor(tree, lex)
    IN IF pit /\ ~Truthy(GetOr(pr, "pit_id", NullV)) THEN [NoRes EXCEPT !.exc = "pit"]
       ELSE IF c = ErrorV THEN [NoRes EXCEPT !.exc = "cursor"]
       ELSE [Standard(pr, ht) EXCEPT !.cursor = c]

AfterPath(path) == P(<<"aggregations">> \o path \o <<"after_key">>)
CompositeX(tree, pit, path, ht) ==
    LET r == Parse(tree, Req(PagedProps(pit, ht # Absent), {}, {AfterPath(path)}))
    IN IF pit /\ ~Truthy(GetOr(r.props, "pit_id", NullV)) THEN [NoRes EXCEPT !.exc = "pit"]
       ELSE [Standard(r.props, ht) EXCEPT !.after = IF Has(r.objs, AfterPath(path).p)
                                                      THEN [t |-> "flat", kv |-> Get(r.objs, AfterPath(path).p)] ELSE NullV]

(* what a full parse gives for the same quantities *)
FullTotal(tree) ==
    LET t == Lookup(tree, <<"hits", "total">>)
    IN IF t.t = "o" THEN Lookup(t, <<"value">>) ELSE t           \* Absent if there is no total
FullRel(tree) ==
    LET r == Lookup(tree, <<"hits", "total", "relation">>) IN IF r.t = "absent" THEN Known("eq") ELSE r
ScalarOrAbsent(x) == x.t \in {"s", "absent"}
(* the shapes Elasticsearch returns for _search: total is absent, a number or {value, relation}; the rest scalars; *)
(* hits.hits is an array of objects whose `sort`, if any, is an array of scalars                                   *)
SearchShape(tree) ==
    /\ tree.t = "o"
    /\ LET t == Lookup(tree, <<"hits", "total">>)
       IN \/ t.t = "absent" \/ (t.t = "s" /\ t.ty = "number")
          \/ (t.t = "o" /\ Lookup(t, <<"value">>).t = "s" /\ ScalarOrAbsent(Lookup(t, <<"relation">>)))
    /\ \A k \in {"took", "timed_out", "pit_id", "_scroll_id"} : ScalarOrAbsent(Lookup(tree, <<k>>))
    /\ Lookup(tree, <<"hits", "hits">>).t \in {"a", "absent"}
    /\ \A i \in 1..Len(Hits(tree)) :
          /\ Hits(tree)[i].t = "o"
          /\ LET s == Lookup(Hits(tree)[i], <<"sort">>)
             IN s.t = "absent" \/ (s.t = "a" /\ \A j \in 1..Len(s.el) : s.el[j].t = "s")

(* the full parse has a scalar at that place => the extracted value is that scalar (what the code substitutes for *)
(* an absent value is not the property's business)                                                               *)
EqIfPresent(full, got) == full.t = "s" => got = full

PagedClauses == {"CursorIsSortOfLastHit", "HitsTotalEqualsFull", "RelationEqualsFull", "TookEqualsFull", "TimedOutEqualsFull",
                 "PitIdEqualsFull", "AfterKeyEqualsFull"}
PagedHolds(c, tree, pit, ht, path, isComposite, got) ==
    LET fullPit == Lookup(tree, <<"pit_id">>)
    IN IF got.exc = "pit" THEN (c = "PitIdEqualsFull" => ~Truthy(fullPit))       \* refused: only if there is no usable pit_id
       ELSE CASE c = "CursorIsSortOfLastHit" ->
                   isComposite \/ LastSort(tree) = NullV \/ (got.exc = "none" /\ got.cursor = LastSort(tree))
              [] c = "HitsTotalEqualsFull" -> got.exc # "none" \/ ht # Absent \/ EqIfPresent(FullTotal(tree), got.total)
              [] c = "RelationEqualsFull" -> got.exc # "none" \/ ht # Absent \/ EqIfPresent(Lookup(tree, <<"hits", "total", "relation">>), got.rel)
              [] c = "TookEqualsFull" -> got.exc # "none" \/ EqIfPresent(Lookup(tree, <<"took">>), got.took)
              [] c = "TimedOutEqualsFull" -> got.exc # "none" \/ EqIfPresent(Lookup(tree, <<"timed_out">>), got.timed_out)
              [] c = "PitIdEqualsFull" -> got.exc # "none" \/ ~pit \/ EqIfPresent(fullPit, got.pit_id)
              [] c = "AfterKeyEqualsFull" ->
                   \/ ~isComposite \/ got.exc # "none"
                   \/ LET f == Lookup(tree, AfterPath(path).ps)
                      IN /\ IsFlat(f) => got.after = [t |-> "flat", kv |-> FlatSet(f)]
                         /\ f.t = "absent" => got.after = NullV
PagedViolated(tree, pit, ht, path, isComposite, got) ==
    IF SearchShape(tree) THEN {c \in PagedClauses : ~PagedHolds(c, tree, pit, ht, path, isComposite, got)} ELSE {}

(* ---- Query sub-runners: hit / page accounting.  how = "fast" (the code: parse()/extractors) or          ---- *)
(* ---- "full" (the same accounting over fully parsed responses = what the property demands)               ---- *)
BodyProps == TotalProps \cup {P(<<"timed_out">>), P(<<"took">>), P(<<"_shards", "total">>), P(<<"_shards", "successful">>),
                              P(<<"_shards", "skipped">>), P(<<"_shards", "failed">>)}
FullProps(tree, req) ==      \* the scalars a full parse finds at the requested paths
    {[p |-> q.p, v |-> Lookup(tree, q.ps)] : q \in {q \in req : Lookup(tree, q.ps).t = "s"}}
FullLists(tree, req) ==
    {[p |-> q.p, v |-> (Lookup(tree, q.ps).el = <<>>)] : q \in {q \in req : Lookup(tree, q.ps).t = "a"}}
Extract(tree, props, lists, how) ==
    IF how = "fast" THEN Parse(tree, Req(props, lists, {}))
    ELSE [props |-> FullProps(tree, props), lists |-> FullLists(tree, lists), objs |-> {}, n |-> 0]

BodyQuery(tree, how) ==    \* _request_body_query with detailed-results
    LET pr == Extract(tree, BodyProps, {}, how).props
    IN [hits |-> GetOr(pr, "hits.total.value", GetOr(pr, "hits.total", Num(0))),
        rel |-> GetOr(pr, "hits.total.relation", Known("eq")),
        timed_out |-> GetOr(pr, "timed_out", FalseV), took |-> GetOr(pr, "took", Num(0)),
        shards |-> <<GetOr(pr, "_shards.total", Num(0)), GetOr(pr, "_shards.successful", Num(0)),
                     GetOr(pr, "_shards.skipped", Num(0)), GetOr(pr, "_shards.failed", Num(0))>>]

ScrollFirst == TotalProps \cup {P(<<"_scroll_id">>), P(<<"timed_out">>), P(<<"took">>)}
ScrollNext == {P(<<"timed_out">>), P(<<"took">>)}
HitsList == {P(<<"hits", "hits">>)}

(* _scroll_query: size > 0, maxp = 0 means "all"; more pages requested than served -> exc "exhausted" *)
ScrollFail(exc, clear, served) == [exc |-> exc, pages |-> 0, hits |-> Num(0), rel |-> Known("eq"), timed_out |-> FALSE, took |-> 0,
                                   clear |-> clear, served |-> served]
RECURSIVE ScrollLoop(_, _, _, _, _)
ScrollLoop(pages, maxp, how, page, acc) ==       \* page: 0-based index of the page to fetch next
    IF maxp # 0 /\ page >= maxp THEN acc
    ELSE IF page >= Len(pages) THEN ScrollFail("exhausted", acc.clear, Len(pages))
    ELSE LET r == Extract(pages[page + 1], ScrollNext, HitsList, how)
             a == [acc EXCEPT !.timed_out = @ \/ Truthy(GetOr(r.props, "timed_out", FalseV)),
                              !.took = @ + N(GetOr(r.props, "took", Num(0))),
                              !.pages = @ + 1, !.served = @ + 1]
         IN IF GetOr(r.lists, "hits.hits", FALSE) THEN a ELSE ScrollLoop(pages, maxp, how, page + 1, a)
ScrollQuery(pages, size, maxp, how) ==
    IF pages = <<>> THEN ScrollFail("exhausted", FALSE, 0)
    ELSE LET r == Extract(pages[1], ScrollFirst, HitsList, how)
             hits == GetOr(r.props, "hits.total.value", GetOr(r.props, "hits.total", Num(0)))
             a == [exc |-> "none", pages |-> 1, hits |-> hits, rel |-> GetOr(r.props, "hits.total.relation", Known("eq")),
                   timed_out |-> Truthy(GetOr(r.props, "timed_out", FalseV)), took |-> N(GetOr(r.props, "took", Num(0))),
                   clear |-> Truthy(GetOr(r.props, "_scroll_id", NullV)), served |-> 1]
         IN IF N(hits) < size \/ N(hits) = 0 THEN a ELSE ScrollLoop(pages, maxp, how, 1, a)

(* _search_after_query: the cursor of page k is sent as search_after with request k+1; continues while         *)
(* hits/size > page.  `sent` = the search_after values of the requests actually issued (2nd request onwards).   *)
PageX(tree, lex, ht, how) ==
    IF how = "fast" THEN SearchAfterX(tree, lex, FALSE, ht)
    ELSE [Standard(FullProps(tree, PagedProps(FALSE, ht # Absent)), ht) EXCEPT !.cursor = LastSort(tree)]
PagedFail(exc, sent, served) == [exc |-> exc, pages |-> 0, hits |-> NullV, rel |-> NullV, took |-> 0, timed_out |-> FALSE, sent |-> sent,
                                 served |-> served]
RECURSIVE SearchAfterLoop(_, _, _, _, _, _, _, _)
SearchAfterLoop(pages, lex, size, maxp, how, page, acc, pending) ==     \* page: 1-based number of the page to fetch next
    IF maxp # 0 /\ page > maxp THEN acc
    ELSE LET sent == IF page > 1 THEN Append(acc.sent, pending) ELSE acc.sent
         IN IF page > Len(pages) THEN PagedFail("exhausted", sent, Len(pages))
            ELSE LET x == PageX(pages[page], lex, IF acc.hits = NullV THEN Absent ELSE acc.hits, how)
                 IN IF x.exc # "none" THEN PagedFail(x.exc, sent, page)
                    ELSE LET hits == IF acc.hits = NullV THEN x.total ELSE acc.hits
                             a == [acc EXCEPT !.pages = page, !.served = page, !.hits = hits, !.sent = sent,
                                              !.rel = IF acc.hits = NullV THEN x.rel ELSE @,
                                              !.took = @ + N(x.took),
                                              !.timed_out = IF @ THEN @ ELSE Truthy(IF x.timed_out = Absent THEN NullV ELSE x.timed_out)]
                         IN IF ~(hits.t = "s" /\ hits.ty = "number") THEN PagedFail("type", sent, page)     \* None / size -> TypeError
                            ELSE IF N(hits) > page * size
                            THEN SearchAfterLoop(pages, lex, size, maxp, how, page + 1, a, x.cursor)
                            ELSE a
SearchAfterQuery(pages, lex, size, maxp, how) ==
    SearchAfterLoop(pages, lex, size, maxp, how, 1,
                    [exc |-> "none", pages |-> 0, hits |-> NullV, rel |-> NullV, took |-> 0, timed_out |-> FALSE, sent |-> <<>>, served |-> 0], NullV)

(* ---- what the property says about the sub-runners, independent of WHEN they decide to stop: over the pages that ---- *)
(* ---- were actually fetched (`served`), the reported quantities are those of a full parse                         ---- *)
RECURSIVE SumTook(_, _)
SumTook(pages, k) == IF k = 0 THEN 0 ELSE N(Lookup(pages[k], <<"took">>)) + SumTook(pages, k - 1)
AnyTimedOut(pages, k) == \E j \in 1..k : Truthy(Lookup(pages[j], <<"timed_out">>))
BodyViolated(tree, got) ==
    LET sh(k) == Lookup(tree, <<"_shards", k>>)
    IN IF ~SearchShape(tree) THEN {}
       ELSE (IF EqIfPresent(FullTotal(tree), got.hits) THEN {} ELSE {"HitsTotalEqualsFull"})
            \cup (IF EqIfPresent(Lookup(tree, <<"hits", "total", "relation">>), got.rel) THEN {} ELSE {"RelationEqualsFull"})
            \cup (IF EqIfPresent(Lookup(tree, <<"took">>), got.took) THEN {} ELSE {"TookEqualsFull"})
            \cup (IF EqIfPresent(Lookup(tree, <<"timed_out">>), got.timed_out) THEN {} ELSE {"TimedOutEqualsFull"})
            \cup (IF /\ EqIfPresent(sh("total"), got.shards[1]) /\ EqIfPresent(sh("successful"), got.shards[2])
                     /\ EqIfPresent(sh("skipped"), got.shards[3]) /\ EqIfPresent(sh("failed"), got.shards[4]) THEN {} ELSE {"ShardsEqualFull"})
PagesViolated(pages, got) ==      \* common to scroll-search and paginated-search
    LET k == got.served
        tot == FullTotal(pages[1])
    IN IF k = 0 THEN {}
       \* a TypeError can only come from arithmetic on the extracted total (took is a number in every page): the full parse has a number there
       ELSE IF got.exc = "type" THEN (IF tot.t = "s" /\ tot.ty = "number" /\ \A j \in 1..Len(pages) : Lookup(pages[j], <<"took">>).ty = "number"
                                      THEN {"HitsTotalEqualsFull"} ELSE {})
       ELSE IF got.exc # "none" THEN {}
       ELSE (IF got.pages = k THEN {} ELSE {"PagesEqualFetched"})
            \cup (IF EqIfPresent(FullTotal(pages[1]), got.hits) THEN {} ELSE {"HitsTotalEqualsFull"})
            \cup (IF EqIfPresent(Lookup(pages[1], <<"hits", "total", "relation">>), got.rel) THEN {} ELSE {"RelationEqualsFull"})
            \cup (IF got.took = SumTook(pages, k) THEN {} ELSE {"TookEqualsFull"})
            \cup (IF got.timed_out = AnyTimedOut(pages, k) THEN {} ELSE {"TimedOutEqualsFull"})
SentViolated(pages, got) ==       \* request j+1 carries the sort value of the last hit of page j
    IF /\ \A j \in 1..Len(got.sent) : j <= Len(pages) /\ (LastSort(pages[j]) = NullV \/ got.sent[j] = LastSort(pages[j]))
       /\ got.exc = "cursor" => (got.served = 0 \/ LastSort(pages[got.served]) = NullV)
       /\ got.exc = "none" => Len(got.sent) = got.served - 1
    THEN {} ELSE {"CursorIsSortOfLastHit"}
ShapedPages(pages) == \A k \in 1..Len(pages) : SearchShape(pages[k]) /\ Lookup(pages[k], <<"took">>).t = "s"

-----------------------------------------------------------------------------
(* the function-like system: Init picks an input of the bounded universe, Eval applies the code             *)
VARIABLES inp, out, done
vars == <<inp, out, done>>

Code(i) ==
    CASE i.kind = "tree" -> Parse(i.tree, i.req)
      [] i.kind = "bulk" -> [fast |-> SimpleStats(i.tree, i.size, i.unit), det |-> DetailedStats(i.tree)]
      [] i.kind = "sa" -> SearchAfterX(i.tree, i.lex, i.pit, i.ht)
      [] i.kind = "ca" -> CompositeX(i.tree, i.pit, i.path, i.ht)
      [] i.kind = "body" -> BodyQuery(i.tree, "fast")
      [] i.kind = "scroll" -> ScrollQuery(i.pages, i.size, i.maxp, "fast")
      [] i.kind = "paged" -> SearchAfterQuery(i.pages, i.lex, i.size, i.maxp, "fast")

(* property C19 on (input, result); returns the set of violated clause names *)
Violated(i, o) ==
    CASE i.kind = "tree" -> (IF PropsEqualFull(i.tree, i.req, o) THEN {} ELSE {"PropsEqualFull"})
                            \cup (IF ListFlagsEqualFull(i.tree, i.req, o) THEN {} ELSE {"ListFlagsEqualFull"})
                            \cup (IF FlatObjectsEqualFull(i.tree, i.req, o) THEN {} ELSE {"FlatObjectsEqualFull"})
      [] i.kind = "bulk" -> BulkViolated(i.tree, i.size, i.unit, o.fast, o.det)
      [] i.kind = "sa" -> PagedViolated(i.tree, i.pit, i.ht, <<>>, FALSE, o)
      [] i.kind = "ca" -> PagedViolated(i.tree, i.pit, i.ht, i.path, TRUE, o)
      [] i.kind = "body" -> BodyViolated(i.tree, o)
      [] i.kind = "scroll" -> IF ShapedPages(i.pages) THEN PagesViolated(i.pages, o) ELSE {}
      [] i.kind = "paged" -> IF ShapedPages(i.pages) THEN PagesViolated(i.pages, o) \cup SentViolated(i.pages, o) ELSE {}

Init == (\E k \in DOMAIN InputSets : inp \in InputSets[k]) /\ out = Absent /\ done = FALSE
Eval == ~done /\ out' = Code(inp) /\ done' = TRUE /\ UNCHANGED inp
Spec == Init /\ [][Eval]_vars

PropertyHolds == done => Violated(inp, out) = {}
=============================================================================
