SPECIFICATION Spec
CONSTANTS
  ShardFailureFix = TRUE
  DescriptionSortFix = TRUE
  CursorFix = TRUE
  CursorRawDecode = FALSE
  NullMemberFix = TRUE
  InputSets <- AllInputs
  TreeLevel = 1
  MaxHitsKeys = 2
  MaxItems = 3
  MaxWideItems = 2
  MaxHits = 2
  MaxPages = 2
INVARIANT PropertyHolds
CHECK_DEADLOCK FALSE
