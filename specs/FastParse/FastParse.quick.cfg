SPECIFICATION Spec
CONSTANTS
  ShardFailureFix = TRUE
  CursorFix = TRUE
  CursorRawDecode = FALSE
  NullMemberFix = TRUE
  InputSets <- AllInputs
  TreeLevel = 1
  MaxHitsKeys = 2
  MaxItems = 3
  MaxHits = 2
  MaxPages = 2
INVARIANT PropertyHolds
CHECK_DEADLOCK FALSE
