SPECIFICATION TSpec
CONSTANTS
  ShardFailureFix = TRUE
  CursorFix = TRUE
  NullMemberFix = TRUE
  InputSets <- NoInputs
CHECK_DEADLOCK FALSE
