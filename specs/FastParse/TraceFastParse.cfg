SPECIFICATION TSpec
CONSTANTS
  ShardFailureFix = TRUE
  CursorFix = TRUE
  CursorRawDecode = FALSE
  NullMemberFix = TRUE
  InputSets <- NoInputs
CHECK_DEADLOCK FALSE
