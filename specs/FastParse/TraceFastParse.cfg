SPECIFICATION TSpec
CONSTANTS
  ShardFailureFix = TRUE
  DescriptionSortFix = TRUE
  CursorFix = TRUE
  CursorRawDecode = FALSE
  NullMemberFix = TRUE
  InputSets <- NoInputs
CHECK_DEADLOCK FALSE
