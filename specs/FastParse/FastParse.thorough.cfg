SPECIFICATION Spec
CONSTANTS
  ShardFailureFix = TRUE
  DescriptionSortFix = TRUE
  CursorFix = TRUE
  CursorRawDecode = FALSE
  NullMemberFix = TRUE
  InputSets <- AllInputs
  TreeLevel = 2
  MaxHitsKeys = 2
  MaxItems = 4
  MaxWideItems = 3
  MaxHits = 3
  MaxPages = 3
INVARIANT PropertyHolds
CHECK_DEADLOCK FALSE
