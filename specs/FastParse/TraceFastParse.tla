--------------------------- MODULE TraceFastParse ---------------------------
(***************************************************************************)
(* Validates recorded executions of the real esrally.driver.runner code    *)
(* (parse, BulkIndex fast/detailed path, SearchAfterExtractor,              *)
(* CompositeAggExtractor, the Query sub-runners) against FastParse.tla.     *)
(* Input (env VERIF_TRACES): JSON array of items                            *)
(*   [id, kind, <input fields as in MC_FastParse>, got, events]            *)
(* where `tree`/`pages` is the projection of json.loads of the very bytes   *)
(* that were given to the code, `got` what the code returned (projected     *)
(* with the same token table) and `events` the (prefix, event, token)       *)
(* stream ijson produced for those bytes.                                   *)
(*   L1: Violated(input, got) = {}      (property C19, FastParse.tla)       *)
(*   L2: got = Code(input)              (transcription of the code; printed  *)
(*       also when L1 fails: under TraceFastParse.pinned.cfg it tells       *)
(*       whether a violating result is the one of the code as it is)        *)
(*   L2: Events(tree) = events          (the model's ijson is ijson)        *)
(* Prints <<"V", id, 1, "L1", clauses>>, <<"V", id, 1|2, "L2", {}>> and      *)
(* <<"DONE", #items, #items>>.                                              *)
(***************************************************************************)
EXTENDS FastParse, Json, IOUtils

NoInputs == <<>>
Recorded == JsonDeserialize(IOEnv.VERIF_TRACES)
ToSet(s) == {s[i] : i \in 1..Len(s)}

NReq(r) == Req(ToSet(r.props), ToSet(r.lists), ToSet(r.objs))
NLex(l) == [brackets |-> ToSet(l.brackets), spc |-> l.spc]
NInp(it) ==
    CASE it.kind = "tree" -> [kind |-> "tree", tree |-> it.tree, req |-> NReq(it.req)]
      [] it.kind = "bulk" -> [kind |-> "bulk", tree |-> it.tree, unit |-> it.unit, size |-> it.size]
      [] it.kind = "sa" -> [kind |-> "sa", tree |-> it.tree, lex |-> NLex(it.lex), pit |-> it.pit, ht |-> it.ht]
      [] it.kind = "ca" -> [kind |-> "ca", tree |-> it.tree, pit |-> it.pit, ht |-> it.ht, path |-> it.path]
      [] it.kind = "body" -> [kind |-> "body", tree |-> it.tree]
      [] it.kind = "scroll" -> [kind |-> "scroll", pages |-> it.pages, size |-> it.size, maxp |-> it.maxp]
      [] it.kind = "paged" -> [kind |-> "paged", pages |-> it.pages, lex |-> NLex(it.lex), size |-> it.size, maxp |-> it.maxp]
NStats(s) == [s EXCEPT !.details = ToSet(@)]
NGot(it) ==
    LET g == it.got
    IN CASE it.kind = "tree" -> [props |-> ToSet(g.props), lists |-> ToSet(g.lists),
                                 objs |-> {[p |-> x.p, v |-> ToSet(x.v)] : x \in ToSet(g.objs)}, n |-> g.n]
         [] it.kind = "bulk" -> [fast |-> NStats(g.fast), det |-> NStats(g.det)]
         [] it.kind = "ca" -> [g EXCEPT !.after = IF @.t = "flat" THEN [t |-> "flat", kv |-> ToSet(@.kv)] ELSE @]
         [] OTHER -> g

TreesOf(it) == IF it.kind \in {"scroll", "paged"} THEN it.pages ELSE <<it.tree>>
EvTriples(tree) == LET e == Events(tree) IN [i \in 1..Len(e) |-> <<e[i].p, e[i].e, e[i].v.v>>]
EventsOk(it) == /\ Len(it.events) = Len(TreesOf(it))
                /\ \A k \in 1..Len(it.events) : EvTriples(TreesOf(it)[k]) = it.events[k]

VARIABLES i
TInit == i = 1 /\ inp = Absent /\ out = Absent /\ done = FALSE

Check(it) ==
    LET inpt == NInp(it)
        got == NGot(it)
        l1 == Violated(inpt, got)
        l2 == got = Code(inpt)
    IN /\ IF l1 = {} THEN TRUE ELSE PrintT(<<"V", it.id, 1, "L1", l1>>)
       /\ IF l2 THEN TRUE ELSE PrintT(<<"V", it.id, 1, "L2", {}>>)      \* the driver ignores it for cases with an L1 verdict
       /\ IF EventsOk(it) THEN TRUE ELSE PrintT(<<"V", it.id, 2, "L2", {}>>)

TNext == /\ i <= Len(Recorded)
         /\ Check(Recorded[i])
         /\ i' = i + 1
         /\ IF i < Len(Recorded) THEN TRUE ELSE PrintT(<<"DONE", Len(Recorded), Len(Recorded)>>)
         /\ UNCHANGED vars

TSpec == TInit /\ [][TNext]_<<vars, i>>
=============================================================================
