\* small universe for the self-test: the driver turns ONE switch to FALSE (= the code as it is) and expects a violation
SPECIFICATION Spec
CONSTANTS
  ShardFailureFix = TRUE
  DescriptionSortFix = TRUE
  CursorFix = TRUE
  CursorRawDecode = FALSE
  NullMemberFix = TRUE
  InputSets <- AllInputs
  TreeLevel = 0
  MaxHitsKeys = 1
  MaxItems = 2
  MaxWideItems = 2
  MaxHits = 1
  MaxPages = 1
INVARIANT PropertyHolds
CHECK_DEADLOCK FALSE
