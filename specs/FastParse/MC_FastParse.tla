---------------------------- MODULE MC_FastParse ----------------------------
(* Bounded input universes for FastParse (leg M and, via -dump, the cases of leg S2C). *)
EXTENDS FastParse, SequencesExt

CONSTANTS TreeLevel,   \* 0: no generic trees, 1: quick alphabets, 2: thorough alphabets
          MaxHitsKeys, \* generic trees: up to MaxHitsKeys members in the object under `hits` (root: up to 3)
          MaxItems,    \* bulk responses of up to MaxItems items
          MaxWideItems,\* ... and of up to MaxWideItems items over the wide item alphabet (status x _shards x operation)
          MaxHits,     \* search responses of up to MaxHits hits
          MaxPages     \* paginated runs of up to MaxPages responses

S1 == Sc("string", "s:1", 0)
S2 == Sc("string", "s:2", 0)
S3 == Sc("string", "s:3", 0)
SB == Sc("string", "s:b", 0)        \* by convention of the harness: a string whose text contains `]`
O1(k, v) == Obj(<<KV(k, v)>>)
O2(k1, v1, k2, v2) == Obj(<<KV(k1, v1), KV(k2, v2)>>)

RECURSIVE OrdSeqs(_, _)      \* sequences of distinct elements of S, length <= n
OrdSeqs(S, n) ==
    IF n = 0 THEN {<<>>}
    ELSE LET prev == OrdSeqs(S, n - 1)
         IN prev \cup {Append(qx[1], qx[2]) : qx \in {qx \in prev \X S : Len(qx[1]) = n - 1 /\ \A i \in 1..Len(qx[1]) : qx[1][i] # qx[2]}}
RECURSIVE KVSeqs(_, _)
KVSeqs(ks, val) == IF ks = <<>> THEN {<<>>}
                   ELSE {<<KV(Head(ks), x)>> \o rest : x \in val[Head(ks)], rest \in KVSeqs(Tail(ks), val)}
Objs(n, val) == {Obj(kv) : kv \in UNION {KVSeqs(ks, val) : ks \in OrdSeqs(DOMAIN val, n)}}
RECURSIVE Seqs(_, _)         \* sequences over S of length <= n
Seqs(S, n) == IF n = 0 THEN {<<>>} ELSE LET prev == Seqs(S, n - 1) IN prev \cup {Append(q, x) : q \in {q \in prev : Len(q) = n - 1}, x \in S}

-----------------------------------------------------------------------------
(* generic trees for parse(): requested paths, their prefixes and look-alikes (depth <= 3 below the root) *)
TotalV == {Num(3), NullV, O1("value", Num(2)), O2("value", Num(2), "relation", Known("gte")), O2("relation", S1, "value", Num(2)),
           O1("x", Num(1))}
          \cup (IF TreeLevel > 1 THEN {Obj(<<>>), Arr(<<Num(1)>>), O1("value", O1("value", Num(1))), Known("value"), O1("value", NullV)} ELSE {})
ListV == {Arr(<<>>), Arr(<<Num(1)>>), Arr(<<Arr(<<>>)>>), Arr(<<Obj(<<>>)>>), Obj(<<>>)}
         \cup (IF TreeLevel > 1 THEN {Arr(<<O1("took", Num(1))>>), Arr(<<Num(1), S1>>), NullV, Arr(<<NullV>>)} ELSE {})
(* member names of a requested flat object may contain dots (ijson does not escape them in the prefix): `geo.src`, and two  *)
(* names with the same last component                                                                                     *)
AkV == {Obj(<<>>), O1("geo.src", S1), O2("source.ip", S1, "destination.ip", Num(2)), O1("a", O1("b", Num(1))), Num(1),
        O2("a", NullV, "b", Num(1))}
       \cup (IF TreeLevel > 1 THEN {O2("a", S1, "b", Num(2)), O2("a.b", Num(1), "b", Num(2)), O1("a", Arr(<<Num(1)>>)), Arr(<<>>), O2("b", TrueV, "a", S1), O1("took", Num(1))} ELSE {})
UnderHits == [k \in {"total", "hits", "ak", "x"} |->
                CASE k = "total" -> TotalV [] k = "hits" -> ListV [] k = "ak" -> AkV [] k = "x" -> {Num(1)}]
HitsV == {Num(1), Arr(<<>>)} \cup Objs(MaxHitsKeys, UnderHits)
TookV == {Num(5), O1("took", Num(2))} \cup (IF TreeLevel > 1 THEN {NullV, S1, Arr(<<Num(2)>>), TrueV} ELSE {})
RootXV == {Num(1), O1("took", Num(2))} \cup (IF TreeLevel > 1 THEN {O1("hits", O1("total", Num(9)))} ELSE {})
UnderRoot == [k \in {"took", "hits", "x"} |-> CASE k = "took" -> TookV [] k = "hits" -> HitsV [] k = "x" -> RootXV]
RootKeySeqs == OrdSeqs(DOMAIN UnderRoot, 3)

Requests == {Req({P(<<"took">>), P(<<"hits", "total">>), P(<<"hits", "total", "value">>)}, {P(<<"hits", "hits">>)}, {P(<<"hits", "ak">>)}),
             Req({P(<<"took">>), P(<<"hits", "total", "value">>)}, {}, {}),
             Req({P(<<"took">>)}, {P(<<"hits", "hits">>)}, {}),
             Req({P(<<"hits", "total", "relation">>)}, {}, {P(<<"hits", "ak">>)})}
(* one set of inputs per sequence of root keys (they are pairwise disjoint: no union of big sets needed) *)
TreeInputs(ks) == {[kind |-> "tree", tree |-> Obj(kv), req |-> r] : kv \in KVSeqs(ks, UnderRoot), r \in Requests}
TreeInputSets == IF TreeLevel = 0 THEN <<>>
                 ELSE LET q == SetToSeq(RootKeySeqs) IN [i \in DOMAIN q |-> TreeInputs(q[i])]

-----------------------------------------------------------------------------
(* bulk responses *)
ItemData(status, sf, reason) ==
    Obj(<<KV("_index", S1)>>
        \o (IF sf >= 0 THEN <<KV("_shards", Obj(<<KV("total", Num(2)), KV("successful", Num(2 - sf)), KV("failed", Num(sf))>>))>> ELSE <<>>)
        \o <<KV("status", Num(status))>>
        \o (IF reason # Absent THEN <<KV("error", O2("type", S3, "reason", reason))>> ELSE <<>>))
ItemAlphabet == {O1("index", ItemData(201, 0, Absent)),       \* ok
                 O1("update", ItemData(200, -1, Absent)),     \* ok, no _shards
                 O1("index", ItemData(201, 1, Absent)),       \* a replica failed: no `error`, _shards.failed > 0
                 O1("create", ItemData(409, -1, S1)),         \* version conflict
                 O1("index", ItemData(429, -1, S2)),          \* rejected
                 O1("index", ItemData(503, -1, Absent))}      \* not an Elasticsearch shape (flagged by BulkShape)
BulkTree(items, errors, ord) ==
    LET t == KV("took", Num(7))
        e == KV("errors", IF errors THEN TrueV ELSE FalseV)
        i == KV("items", Arr(items))
    IN Obj(CASE ord = 1 -> <<t, e, i>> [] ord = 2 -> <<e, t, i>> [] ord = 3 -> <<i, t, e>> [] ord = 4 -> <<t, i, e>>)
BulkInputs == {[kind |-> "bulk", tree |-> BulkTree(its, e, ord), unit |-> u, size |-> IF u = "docs" THEN Len(its) ELSE 5] :
                  its \in Seqs(ItemAlphabet, MaxItems), e \in BOOLEAN, ord \in 1..4, u \in {"docs", "ops"}}

(* the wide item alphabet: status {2xx, 404, 409, 429, 5xx} x _shards {absent, failed 0, failed > 0}, operations index / create /   *)
(* update / delete, `result`; a 404 comes with an `error` (update of a missing document) and without (delete: result not_found);  *)
(* `errors` follows Elasticsearch's rule (true iff some item carries an `error`)                                                 *)
WideData(status, sf, result, reason) ==
    Obj(<<KV("_index", S1), KV("_id", S2)>>
        \o (IF result # "" THEN <<KV("result", Known(result))>> ELSE <<>>)
        \o (IF sf >= 0 THEN <<KV("_shards", Obj(<<KV("total", Num(2)), KV("successful", Num(2 - sf)), KV("failed", Num(sf))>>))>> ELSE <<>>)
        \o <<KV("status", Num(status))>>
        \o (IF reason # Absent THEN <<KV("error", O2("type", S3, "reason", reason))>> ELSE <<>>))
WideItems == {O1("index", WideData(201, sf, "created", Absent)) : sf \in {-1, 0, 1}}
             \cup {O1("update", WideData(200, sf, "noop", Absent)) : sf \in {-1, 0}}
             \cup {O1("delete", WideData(200, 1, "deleted", Absent))}
             \cup {O1("delete", WideData(404, sf, "not_found", Absent)) : sf \in {-1, 0, 1}}
             \cup {O1("update", WideData(404, sf, "", S1)) : sf \in {-1, 0, 1}}
             \cup {O1("create", WideData(409, sf, "", S1)) : sf \in {-1, 0, 1}}
             \cup {O1("index", WideData(429, sf, "", S2)) : sf \in {-1, 0, 1}}
             \cup {O1("delete", WideData(503, sf, "", S2)) : sf \in {-1, 0, 1}}
AnyError(its) == \E i \in 1..Len(its) : Lookup(its[i].kv[1].v, <<"error">>) # Absent
WideBulkInputs == {[kind |-> "bulk", tree |-> BulkTree(its, AnyError(its), ord), unit |-> u, size |-> IF u = "docs" THEN Len(its) ELSE 5] :
                      its \in Seqs(WideItems, MaxWideItems) \ {<<>>}, ord \in {2, 3}, u \in {"docs", "ops"}}

-----------------------------------------------------------------------------
(* search responses for the extractors *)
SortV == {Absent, Arr(<<Num(1)>>), Arr(<<S1>>), Arr(<<SB>>), Arr(<<Num(1), S1>>), Arr(<<S1, SB>>)}
SrcV == {Absent, O1("f", S2), O1("sort", Arr(<<Num(2)>>)), O1("sort", Num(2)), O1("f", Known("sort"))}
Opt(k, v) == IF v = Absent THEN <<>> ELSE <<KV(k, v)>>
HitOf(sort, src, sortFirst) ==
    Obj(<<KV("_id", S1)>> \o (IF sortFirst THEN Opt("sort", sort) \o Opt("_source", src) ELSE Opt("_source", src) \o Opt("sort", sort)))
LastHits == {HitOf(s, c, b) : s \in SortV, c \in SrcV, b \in BOOLEAN}
EarlierHits == {HitOf(Arr(<<Num(2)>>), Absent, TRUE), HitOf(Arr(<<S2>>), O1("sort", Arr(<<Num(1)>>)), TRUE)}
HitSeqs == {<<>>} \cup {Append(q, h) : q \in Seqs(EarlierHits, MaxHits - 1), h \in LastHits}
TotalForms == {Num(3), O2("value", Num(3), "relation", Known("gte"))}
SearchTree(hits, total, hitsFirst, pitId) ==
    LET h == KV("hits", O2("total", total, "hits", Arr(hits)))
        rest == <<KV("took", Num(4)), KV("timed_out", FalseV)>> \o Opt("pit_id", pitId)
    IN Obj(IF hitsFirst THEN <<h>> \o rest ELSE rest \o <<h>>)
(* hits.total in both shapes x value {0, > 0} x relation {eq, gte} (and relation before value) *)
AllTotals == {Num(0), Num(3)} \cup {O2("value", Num(v), "relation", Known(r)) : v \in {0, 3}, r \in {"eq", "gte"}}
             \cup {O2("relation", Known("eq"), "value", Num(0)), O1("value", Num(0))}
PlainHits == {<<>>, <<HitOf(Arr(<<Num(1), S1>>), O1("f", S2), FALSE)>>}
PagedArgs == {<<FALSE, Absent, Absent>>, <<TRUE, Absent, S3>>, <<TRUE, Absent, Absent>>, <<FALSE, Num(3), Absent>>}   \* pit, hits_total, pit_id
SaInputs == {[kind |-> "sa", tree |-> SearchTree(hs, tot, hf, a[3]), lex |-> [brackets |-> {"s:b"}, spc |-> spc], pit |-> a[1], ht |-> a[2]] :
                hs \in HitSeqs, tot \in TotalForms, hf \in BOOLEAN, spc \in BOOLEAN, a \in PagedArgs}

SaTotalInputs == {[kind |-> "sa", tree |-> SearchTree(hs, tot, hf, a[3]), lex |-> [brackets |-> {"s:b"}, spc |-> FALSE], pit |-> a[1], ht |-> a[2]] :
                     hs \in PlainHits, tot \in AllTotals \ TotalForms, hf \in BOOLEAN, a \in PagedArgs}     \* (the others are in SaInputs)

AfterV == {Absent, Obj(<<>>), O1("a", S1), O2("a", S1, "b", Num(2)), O2("b", TrueV, "a", SB), O2("a", NullV, "b", Num(1)),
           O1("geo.src", S1), O2("source.ip", S1, "destination.ip", S2),
           Obj(<<KV("geo.src", S1), KV("geo.dest", Num(2)), KV("a.b.c", NullV)>>)}
CompTreeT(path, after, aggFirst, pitId, tot) ==
    LET c == Obj(Opt("after_key", after) \o <<KV("buckets", Arr(<<>>))>>)
        a == KV("aggregations", IF Len(path) = 1 THEN O1(path[1], c) ELSE O1(path[1], O2("doc_count", Num(1), path[2], c)))
        rest == <<KV("took", Num(4)), KV("timed_out", FalseV), KV("hits", O2("total", tot, "hits", Arr(<<>>)))>> \o Opt("pit_id", pitId)
    IN Obj(IF aggFirst THEN <<a>> \o rest ELSE rest \o <<a>>)
CompTree(path, after, aggFirst, pitId) == CompTreeT(path, after, aggFirst, pitId, Num(3))
CaTotalInputs == {[kind |-> "ca", tree |-> CompTreeT(<<"c">>, af, b, a[3], tot), pit |-> a[1], ht |-> a[2], path |-> <<"c">>] :
                     af \in {Absent, O1("a", S1)}, b \in BOOLEAN, a \in PagedArgs, tot \in AllTotals \ {Num(3)}}
CaInputs == {[kind |-> "ca", tree |-> CompTree(p, af, b, a[3]), pit |-> a[1], ht |-> a[2], path |-> p] :
                p \in {<<"c">>, <<"n", "c">>}, af \in AfterV, b \in BOOLEAN, a \in PagedArgs}

BodyInputs == {[kind |-> "body", tree |-> Obj(s)] :
                 s \in {x \o y \o z : x \in {<<>>, <<KV("took", Num(4)), KV("timed_out", TrueV)>>, <<KV("timed_out", FalseV), KV("took", Num(4))>>},
                                      y \in {<<>>, <<KV("_shards", Obj(<<KV("total", Num(5)), KV("successful", Num(4)), KV("skipped", Num(0)), KV("failed", Num(1))>>))>>},
                                      z \in {<<KV("hits", O2("total", tot, "hits", Arr(<<>>)))>> : tot \in TotalForms \cup AllTotals}
                                           \cup {<<KV("hits", O1("hits", Arr(<<O1("_id", S1)>>)))>>}}}

(* pages for the scroll / search_after accounting: nh hits with sort [1], [2], ...; total tot *)
PageTree(nh, tot, to, sid) ==
    Obj(Opt("_scroll_id", sid) \o <<KV("took", Num(2)), KV("timed_out", IF to THEN TrueV ELSE FalseV),
          KV("hits", O2("total", O2("value", Num(tot), "relation", Known("eq")), "hits", Arr([i \in 1..nh |-> O2("_id", S1, "sort", Arr(<<Num(i)>>))])))>>)
PageTreeT(nh, total) ==
    Obj(<<KV("_scroll_id", S2), KV("took", Num(2)), KV("timed_out", FalseV),
          KV("hits", O2("total", total, "hits", Arr([i \in 1..nh |-> O2("_id", S1, "sort", Arr(<<Num(i)>>))])))>>)
PageSet == {PageTree(nh, tot, FALSE, S2) : nh \in 0..2, tot \in {0, 2, 3}} \cup {PageTree(1, 3, TRUE, S2), PageTree(2, 3, FALSE, Absent)}
           \cup {PageTreeT(0, Num(0)), PageTreeT(2, Num(3)), PageTreeT(0, O2("value", Num(0), "relation", Known("gte"))),
                 PageTreeT(1, O2("value", Num(3), "relation", Known("gte")))}
PageSeqs == Seqs(PageSet, MaxPages) \ {<<>>}
ScrollInputs == {[kind |-> "scroll", pages |-> ps, size |-> sz, maxp |-> mp] : ps \in PageSeqs, sz \in {1, 2}, mp \in 0..3}
PagedInputs == {[kind |-> "paged", pages |-> ps, lex |-> [brackets |-> {}, spc |-> FALSE], size |-> sz, maxp |-> mp] :
                   ps \in PageSeqs, sz \in {1, 2}, mp \in 0..3}

NoInputs == <<>>
AllInputs == TreeInputSets \o <<BulkInputs, WideBulkInputs, SaInputs, SaTotalInputs, CaInputs, CaTotalInputs, BodyInputs, ScrollInputs, PagedInputs>>
=============================================================================
