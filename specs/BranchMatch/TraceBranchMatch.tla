-------------------------- MODULE TraceBranchMatch --------------------------
(***************************************************************************)
(* Validates recorded results of the real versions.best_match ("bm" items: *)
(* [id, kind, B, v, out]) and RallyRepository.update on real git            *)
(* repositories ("up" items: [id, kind, hasRemote, R, L, T, v, out]).       *)
(* L1: the documented precedence and its corollaries hold for the recorded  *)
(* result; L2: the result equals the transcription of the code.             *)
(***************************************************************************)
EXTENDS BranchMatch, Sequences, Json, IOUtils

Items == JsonDeserialize(IOEnv.VERIF_TRACES)
ToSet(s) == {s[i] : i \in 1..Len(s)}

VARIABLES i
TInit == i = 1 /\ B = {} /\ v = NoBranch /\ out = NoBranch /\ done = FALSE

Check(it) ==
    IF it.kind = "bm" THEN
        LET b == ToSet(it.B)
            l1 == {c \in Clauses : ~Holds(c, b, it.v, it.out)}
            l2 == it.out = Code(b, it.v)
        IN /\ IF l1 = {} THEN TRUE ELSE PrintT(<<"V", it.id, 1, "L1", l1>>)
           /\ IF l1 # {} \/ l2 THEN TRUE ELSE PrintT(<<"V", it.id, 1, "L2", {}>>)
    ELSE IF it.kind = "updirty" THEN
        \* the working copy is on master with an uncommitted edit that conflicts with every other remote branch (L = {master}):
        \* L1: Rally ends on the documented best match or reports an error, never on another branch;
        \* L2: the code reports the error exactly when it has to leave master for a versioned branch
        LET R == ToSet(it.R)  L == ToSet(it.L)  T == ToSet(it.T)
            exp == Update(TRUE, R, L, T, it.v, Best)
            cexp == Update(TRUE, R, L, T, it.v, Code)
            l1 == (IF it.out = NoBranch \/ it.out = exp THEN {} ELSE {"UsesBestOrError"})
                  \cup (IF it.revOk THEN {} ELSE {"RecordedRevisionIsCommitInUse"})
            l2 == it.out = (IF cexp.k = "v" THEN NoBranch ELSE cexp)
        IN /\ IF l1 = {} THEN TRUE ELSE PrintT(<<"V", it.id, 1, "L1", l1>>)
           /\ IF l1 # {} \/ l2 THEN TRUE ELSE PrintT(<<"V", it.id, 1, "L2", {}>>)
    ELSE
        LET R == ToSet(it.R)  L == ToSet(it.L)  T == ToSet(it.T)
            exp == Update(it.hasRemote, R, L, T, it.v, Best)
            src == IF it.hasRemote /\ Best(R, it.v) # NoBranch THEN R ELSE L
            \* R = the remote's branches NOW (branches deleted upstream since the clone are not in it); revOk: the revision Rally
            \* recorded (what a later load of the same configuration checks out again) is the commit that is checked out
            l1 == (IF it.out = exp THEN {} ELSE {"UpdateUsesDocumentedBest"})
                  \cup (IF it.revOk THEN {} ELSE {"RecordedRevisionIsCommitInUse"})
                  \cup (IF it.out.k = "tag" => (Best(L, it.v) = NoBranch /\ (~it.hasRemote \/ Best(R, it.v) = NoBranch)) THEN {} ELSE {"TagFallbackOnlyWhenNoBranch"})
                  \cup {c \in Clauses \ {"IsDocumentedBest", "ErrorIffNothingQualifies"} : it.out.k \in {"v", "master"} /\ ~Holds(c, src, it.v, it.out)}
            l2 == it.out = Update(it.hasRemote, R, L, T, it.v, Code)
        IN /\ IF l1 = {} THEN TRUE ELSE PrintT(<<"V", it.id, 1, "L1", l1>>)
           /\ IF l1 # {} \/ l2 THEN TRUE ELSE PrintT(<<"V", it.id, 1, "L2", {}>>)

TNext == /\ i <= Len(Items)
         /\ Check(Items[i])
         /\ i' = i + 1
         /\ IF i < Len(Items) THEN TRUE ELSE PrintT(<<"DONE", Len(Items), Len(Items)>>)
         /\ UNCHANGED vars

TSpec == TInit /\ [][TNext]_<<vars, i>>
=============================================================================
