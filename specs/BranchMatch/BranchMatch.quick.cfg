SPECIFICATION Spec
CONSTANTS
  Universe <- U9
  Versions <- VersQuick
  MinorZeroFix = TRUE
INVARIANT PropertyHolds
CHECK_DEADLOCK FALSE
