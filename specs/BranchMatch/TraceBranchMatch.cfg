SPECIFICATION TSpec
CONSTANTS
  Universe = {}
  Versions = {}
  MinorZeroFix = TRUE
CHECK_DEADLOCK FALSE
