---- MODULE MC_BranchMatch ----
EXTENDS BranchMatch
Other == [k |-> "other", maj |-> -1, min |-> -1, pat |-> -1, suf |-> "x"]
U9 == {V(6,-1,-1,""), V(7,-1,-1,""), V(7,0,-1,""), V(7,1,-1,""), V(7,3,-1,""),
       V(7,1,2,""), V(7,1,2,"s1"), V(8,-1,-1,""), Other}
U13 == U9 \cup {V(6,3,-1,""), V(7,0,0,""), V(8,0,-1,""), V(7,3,2,"s2")}
Full(majs, mins, pats, sufs) == {[k |-> "full", maj |-> a, min |-> b, pat |-> c, suf |-> d] : a \in majs, b \in mins, c \in pats, d \in sufs}
Special == {[k |-> x, maj |-> -1, min |-> -1, pat |-> -1, suf |-> ""] : x \in {"serverless", "empty", "malformed"}}
VersQuick == Full({6,7,8,9}, 0..4, {0,2}, {"", "s1"}) \cup Special
VersThorough == Full({5,6,7,8,9}, 0..4, {0,2}, {"", "s1", "s2"}) \cup Special
====
