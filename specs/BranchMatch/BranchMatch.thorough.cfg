SPECIFICATION Spec
CONSTANTS
  Universe <- U13
  Versions <- VersThorough
  MinorZeroFix = TRUE
INVARIANT PropertyHolds
CHECK_DEADLOCK FALSE
