\* pinned behaviour before the fix: commit (a ".0" minor branch is never a prior minor). Self-test only.
SPECIFICATION Spec
CONSTANTS
  Universe <- U9
  Versions <- VersQuick
  MinorZeroFix = FALSE
INVARIANT PropertyHolds
CHECK_DEADLOCK FALSE
