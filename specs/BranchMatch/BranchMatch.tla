----------------------------- MODULE BranchMatch -----------------------------
(***************************************************************************)
(* Which branch of a track / team repository Rally uses for an             *)
(* Elasticsearch version (esrally.utils.versions.best_match) and what       *)
(* RallyRepository.update does with remote branches, local branches and     *)
(* v-tags.  Function-like: Init chooses the input, Eval computes the result.*)
(*                                                                         *)
(* A branch is [k, maj, min, pat, suf]; k = "v" for MAJOR[.MINOR[.PATCH    *)
(* [-SUFFIX]]] (absent parts -1 / ""), "master", or "other" (unrelated     *)
(* name, suf carries an id).  A version is [k, maj, min, pat, suf] with    *)
(* k = "full" | "serverless" | "empty" | "malformed".                      *)
(***************************************************************************)
EXTENDS Integers, FiniteSets, TLC

CONSTANTS Universe,     \* set of branches that may exist (besides master)
          Versions,     \* set of distribution versions
          MinorZeroFix  \* TRUE: repaired code (minor 0 is a minor); FALSE: pinned behaviour

Master == [k |-> "master", maj |-> -1, min |-> -1, pat |-> -1, suf |-> ""]
NoBranch == [k |-> "none", maj |-> -1, min |-> -1, pat |-> -1, suf |-> ""]
V(maj, min, pat, suf) == [k |-> "v", maj |-> maj, min |-> min, pat |-> pat, suf |-> suf]

SetMax(S) == CHOOSE x \in S : \A y \in S : y <= x

Versioned(B) == {b \in B : b.k = "v"}
LatestMajor(B) == IF Versioned(B) = {} THEN -1 ELSE SetMax({b.maj : b \in Versioned(B)})

(***************************************************************************)
(* The documented precedence (docs/track.rst "match logic", property C15)  *)
(***************************************************************************)
PriorMinors(B, v) == {b \in Versioned(B) : b.maj = v.maj /\ b.min # -1 /\ b.pat = -1 /\ b.suf = "" /\ b.min <= v.min}

Best(B, v) ==
    IF v.k = "full" THEN
        IF v.suf # "" /\ V(v.maj, v.min, v.pat, v.suf) \in B THEN V(v.maj, v.min, v.pat, v.suf)
        ELSE IF V(v.maj, v.min, v.pat, "") \in B THEN V(v.maj, v.min, v.pat, "")
        ELSE IF V(v.maj, v.min, -1, "") \in B THEN V(v.maj, v.min, -1, "")
        ELSE IF PriorMinors(B, v) # {} THEN V(v.maj, SetMax({b.min : b \in PriorMinors(B, v)}), -1, "")
        ELSE IF V(v.maj, -1, -1, "") \in B THEN V(v.maj, -1, -1, "")
        ELSE IF v.maj > LatestMajor(B) THEN Master
        ELSE NoBranch
    ELSE IF v.k \in {"serverless", "empty"} THEN Master
    ELSE NoBranch

(***************************************************************************)
(* Transcription of versions.best_match / latest_bounded_minor             *)
(***************************************************************************)
EligibleMinors(B, v) ==
    {b.min : b \in {b \in Versioned(B) : /\ b.pat = -1 /\ b.suf = ""
                                         /\ b.maj = v.maj
                                         /\ b.min # -1
                                         /\ (MinorZeroFix \/ b.min # 0)      \* `minor and minor <= ...`
                                         /\ b.min <= v.min}}

LatestBoundedMinor(B, v) == IF EligibleMinors(B, v) = {} THEN -1 ELSE SetMax(EligibleMinors(B, v))

Code(B, v) ==
    IF v.k = "full" THEN
        LET lbm == LatestBoundedMinor(B, v)
            lbmOk == lbm # -1 /\ (MinorZeroFix \/ lbm # 0)                    \* walrus truthiness
        IN  IF v.suf # "" /\ V(v.maj, v.min, v.pat, v.suf) \in B THEN V(v.maj, v.min, v.pat, v.suf)
            ELSE IF V(v.maj, v.min, v.pat, "") \in B THEN V(v.maj, v.min, v.pat, "")
            ELSE IF V(v.maj, v.min, -1, "") \in B THEN V(v.maj, v.min, -1, "")
            ELSE IF lbmOk THEN V(v.maj, lbm, -1, "")
            ELSE IF V(v.maj, -1, -1, "") \in B THEN V(v.maj, -1, -1, "")
            ELSE IF v.maj > LatestMajor(B) THEN Master
            ELSE NoBranch
    ELSE IF v.k \in {"serverless", "empty"} THEN Master
    ELSE NoBranch

(***************************************************************************)
(* RallyRepository.update: remote branches first, then local branches,     *)
(* then v-tags (most specific variant first); result = what is checked out *)
(***************************************************************************)
TagFor(T, v) ==    \* T: set of versions (as "v" records) that exist as tags v<variant>
    IF v.k # "full" THEN NoBranch
    ELSE IF v.suf # "" /\ V(v.maj, v.min, v.pat, v.suf) \in T THEN [V(v.maj, v.min, v.pat, v.suf) EXCEPT !.k = "tag"]
    ELSE IF V(v.maj, v.min, v.pat, "") \in T THEN [V(v.maj, v.min, v.pat, "") EXCEPT !.k = "tag"]
    ELSE IF V(v.maj, v.min, -1, "") \in T THEN [V(v.maj, v.min, -1, "") EXCEPT !.k = "tag"]
    ELSE IF V(v.maj, -1, -1, "") \in T THEN [V(v.maj, -1, -1, "") EXCEPT !.k = "tag"]
    ELSE NoBranch

Update(hasRemote, R, L, T, v, match(_, _)) ==
    LET r == IF hasRemote THEN match(R, v) ELSE NoBranch
        loc == match(L, v)
    IN IF r # NoBranch THEN r
       ELSE IF loc # NoBranch THEN loc
       ELSE TagFor(T, v)     \* NoBranch here = SystemSetupError

-----------------------------------------------------------------------------
VARIABLES B, v, out, done
vars == <<B, v, out, done>>

Init == /\ B \in {S \cup {Master} : S \in SUBSET Universe}
        /\ v \in Versions
        /\ out = NoBranch
        /\ done = FALSE

Eval == /\ ~done
        /\ out' = Code(B, v)
        /\ done' = TRUE
        /\ UNCHANGED <<B, v>>

Spec == Init /\ [][Eval]_vars

-----------------------------------------------------------------------------
(* Property C15 as predicates over (branches, version, result) so that the trace specification can *)
(* evaluate them on results recorded from the implementation.                                      *)
IsDocumentedBest(b, ver, o) == o = Best(b, ver)
NeverOtherMajor(b, ver, o) == (o.k = "v" /\ ver.k = "full") => o.maj = ver.maj
NeverLaterMinor(b, ver, o) == (o.k = "v" /\ ver.k = "full" /\ o.min # -1) => o.min <= ver.min
OnlyExisting(b, ver, o) == o.k = "v" => o \in b
MasterOnlyIfNewerOrUnknown(b, ver, o) ==
    o.k = "master" => (ver.k \in {"serverless", "empty"} \/ (ver.k = "full" /\ ver.maj > LatestMajor(b)))
ErrorIffNothingQualifies(b, ver, o) == (o.k = "none") <=> (Best(b, ver).k = "none")

Clauses == {"IsDocumentedBest", "NeverOtherMajor", "NeverLaterMinor", "OnlyExisting", "MasterOnlyIfNewerOrUnknown", "ErrorIffNothingQualifies"}
Holds(c, b, ver, o) ==
    CASE c = "IsDocumentedBest" -> IsDocumentedBest(b, ver, o)
      [] c = "NeverOtherMajor" -> NeverOtherMajor(b, ver, o)
      [] c = "NeverLaterMinor" -> NeverLaterMinor(b, ver, o)
      [] c = "OnlyExisting" -> OnlyExisting(b, ver, o)
      [] c = "MasterOnlyIfNewerOrUnknown" -> MasterOnlyIfNewerOrUnknown(b, ver, o)
      [] c = "ErrorIffNothingQualifies" -> ErrorIffNothingQualifies(b, ver, o)

PropertyHolds == done => \A c \in Clauses : Holds(c, B, v, out)
=============================================================================
