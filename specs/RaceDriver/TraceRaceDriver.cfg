SPECIFICATION TSpec
CONSTANTS
  Scenarios = {}
  Ticks = TRUE
  SkipFix = TRUE
  CctFix = TRUE
  QMax = 100
  PPInterval = 2
  TestMode = TRUE
  MaxEternal = 100000
CHECK_DEADLOCK FALSE
