SPECIFICATION TSpec
CONSTANTS
  Scenarios = {}
  Ticks = TRUE
  SkipFix = TRUE
  CctFix = TRUE
  SelfFailFix = TRUE
  StaleResetFix = TRUE
  FlushFix = TRUE
  QMax = 100
  PPInterval = 2
  TestMode = TRUE
  FaultKinds = {"none", "req", "param", "store", "rcstore", "die", "cancel"}
  MaxTimed = 100
  MaxEternal = 100000
CHECK_DEADLOCK FALSE
