SPECIFICATION FairSpec
CONSTANTS
  Scenarios <- LiveScenarios
  Ticks = FALSE
  SkipFix = TRUE
  CctFix = FALSE
  SelfFailFix = FALSE
  StaleResetFix = TRUE
  FlushFix = FALSE
  QMax = 100
  PPInterval = 2
  TestMode = TRUE
  FaultKinds <- NoFaults
  MaxTimed = 2
  MaxEternal = 1
PROPERTY NoHang
CHECK_DEADLOCK FALSE
