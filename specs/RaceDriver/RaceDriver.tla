------------------------------ MODULE RaceDriver ------------------------------
(***************************************************************************)
(* The load-driver protocol of Rally: the coordinator (DriverActor+Driver), *)
(* the Worker actors with their executor (AsyncIoAdapter / AsyncExecutor,  *)
(* one coroutine per allocated client and task) and the race-control       *)
(* endpoint.  One action per message handler / executor step of            *)
(* esrally/driver/driver.py; actor messages travel through FIFO channels   *)
(* per (sender, receiver) pair, wake-ups are untimed (may fire any time    *)
(* after being armed).                                                     *)
(*                                                                         *)
(* A scenario scn = [sched, workerOf, W]:                                  *)
(*   sched    sequence of schedule elements [tasks, cap]; cap = 0: the     *)
(*            element uses sum(task clients) clients, cap > 0: `clients`   *)
(*            of a parallel element                                        *)
(*   task     [id, clients, reqs, cp, acp]: reqs > 0 requests per client   *)
(*            or Eternal (runs until told to complete); cp =               *)
(*            completes_parent (named completed-by task), acp =            *)
(*            any_completes_parent (completed-by: any)                     *)
(*   workerOf <<w_0, …, w_{M-1}>>: worker (1..W) of client id c at c+1     *)
(***************************************************************************)
EXTENDS Integers, Sequences, FiniteSets, TLC

CONSTANTS Scenarios,     \* set of scenarios Init chooses from
          Ticks,         \* TRUE: the coordinator's periodic wake-up is modelled (needed for C07), FALSE: left out
          SkipFix,       \* TRUE: repaired Worker.drive (keeps driving after skipping); FALSE: pinned behaviour
          CctFix,        \* TRUE: repaired receiveMsg_CompleteCurrentTask (honoured when already told to drive on);
                         \* FALSE: pinned behaviour (ignored whenever the worker is at a join point)
          QMax,          \* capacity of a worker's sample queue (reporting/sample.queue.size)
          PPInterval,    \* coordinator wake-ups between two periodic post-processing runs
          TestMode,      \* track/test.mode.enabled: next task starts immediately, no relative-time reset timer
          MaxEternal     \* only the first MaxEternal requests of an eternal task are counted and sampled in the model
                         \* (keeps the state space finite without a state constraint); traces use a large value

Eternal == -1

VARIABLES scn,      \* the scenario (constant during a behaviour)
          d2w,      \* d2w[w]: FIFO channel coordinator -> worker w
          w2d,      \* w2d[w]: FIFO channel worker w -> coordinator
          rcbox,    \* messages received by race control, in order
          timers,   \* timers[w]: number of pending wake-ups of worker w
          dtimers,  \* pending wake-ups of the coordinator: sequence of payloads "tick" | "reset" (any may fire)
          drv,      \* coordinator state
          wk,       \* wk[w]: worker state
          cell,     \* cell[c]: what client c's coroutine is doing
          hist,     \* history (observations the property talks about)
          act       \* last action, for schedule extraction (hidden by VIEW)

vars == <<scn, d2w, w2d, rcbox, timers, dtimers, drv, wk, cell, hist, act>>
view == <<scn, d2w, w2d, rcbox, timers, dtimers, drv, wk, cell, hist>>

-----------------------------------------------------------------------------
(* Allocation matrix (transcription of Allocator.allocations)               *)
RECURSIVE SumClients(_)
SumClients(ts) == IF ts = <<>> THEN 0 ELSE Head(ts).clients + SumClients(Tail(ts))

ElemTotal(e) == SumClients(e.tasks)                       \* logical clients of the element
ElemClients(e) == IF e.cap > 0 THEN e.cap ELSE ElemTotal(e)

MaxOf(S) == CHOOSE x \in S : \A y \in S : y <= x
M(s) == MaxOf({1} \cup {ElemClients(s.sched[i]) : i \in 1..Len(s.sched)})   \* Allocator.clients
Clients(s) == 0..(M(s) - 1)
Workers(s) == 1..s.W
ClientsOf(s, w) == {c \in Clients(s) : s.workerOf[c + 1] = w}

(* calculate_worker_assignments for ONE load-driver host with `cores` cores and m clients: worker k (1-based) simulates *)
(* m \div cores clients, the first m % cores workers one more, in contiguous ascending ranges; workers without       *)
(* clients are not created.  Result: <<worker of client 0, ..., worker of client m-1>>                               *)
RECURSIVE AssignFrom(_, _, _)
AssignFrom(k, cores, m) ==
    IF k > cores THEN <<>>
    ELSE LET cnt == (m \div cores) + (IF k <= m % cores THEN 1 ELSE 0)
         IN [i \in 1..cnt |-> k] \o AssignFrom(k + 1, cores, m)
AssignOne(cores, m) == AssignFrom(1, cores, m)

Rows(s, i) == LET t == ElemTotal(s.sched[i]) IN (t + M(s) - 1) \div M(s)    \* task columns of element i

(* columns: 0 = join point 0; then for every element its rows and its join point *)
RECURSIVE ColsUpTo(_, _)
ColsUpTo(s, i) == IF i = 0 THEN <<[k |-> "jp", e |-> 0, r |-> 0]>>
                  ELSE ColsUpTo(s, i - 1) \o [r \in 1..Rows(s, i) |-> [k |-> "row", e |-> i, r |-> r - 1]]
                                          \o <<[k |-> "jp", e |-> i, r |-> 0]>>
Cols(s) == ColsUpTo(s, Len(s.sched))       \* Cols(s)[j+1] describes column index j
NCols(s) == Len(Cols(s))
Col(s, j) == Cols(s)[j + 1]
NSteps(s) == Len(s.sched)                  \* number_of_steps = len(join_points) - 1
JPIndex(s, e) == CHOOSE j \in 0..(NCols(s) - 1) : Col(s, j).k = "jp" /\ Col(s, j).e = e

(* the task executed by logical client index k of element e: [t |-> task, idx |-> client_index_in_task] *)
RECURSIVE TaskAt(_, _)
TaskAt(ts, k) == IF k < Head(ts).clients THEN [t |-> Head(ts), idx |-> k] ELSE TaskAt(Tail(ts), k - Head(ts).clients)

None == [t |-> [id |-> 0, clients |-> 0, reqs |-> 0, cp |-> FALSE, acp |-> FALSE], idx |-> -1]

(* matrix entry of physical client c in task column j *)
CellAt(s, c, j) ==
    LET col == Col(s, j)
        e == s.sched[col.e]
        k == col.r * M(s) + c
    IN IF col.k = "row" /\ k < ElemTotal(e) THEN TaskAt(e.tasks, k) ELSE None

HasCell(s, c, j) == Col(s, j).k = "row" /\ CellAt(s, c, j) # None
Allocated(s) == {<<c, j>> \in Clients(s) \X (0..(NCols(s) - 1)) : HasCell(s, c, j)}

(* JoinPoint(id, clients_executing_completing_task, any_task_completes_parent) of element e *)
CpClients(s, e) == {c \in Clients(s) : \E j \in 0..(NCols(s) - 1) : Col(s, j).e = e /\ HasCell(s, c, j) /\ CellAt(s, c, j).t.cp}
AcpClients(s, e) == {c \in Clients(s) : \E j \in 0..(NCols(s) - 1) :
                        Col(s, j).e = e /\ HasCell(s, c, j) /\ ~CellAt(s, c, j).t.cp /\ CellAt(s, c, j).t.acp}
DeclaresCompletedBy(s, e) == e > 0 /\ (CpClients(s, e) # {} \/ AcpClients(s, e) # {})

(* ClientAllocations.tasks(index) of worker w is non-empty: a join point or some client of w has a cell *)
NonEmptyCol(s, w, j) == Col(s, j).k = "jp" \/ \E c \in ClientsOf(s, w) : HasCell(s, c, j)
NextNonEmpty(s, w, i) == CHOOSE j \in i..(NCols(s) - 1) : NonEmptyCol(s, w, j) /\ \A j2 \in i..(j - 1) : ~NonEmptyCol(s, w, j2)
NextJP(s, i) == CHOOSE j \in i..(NCols(s) - 1) : Col(s, j).k = "jp" /\ \A j2 \in i..(j - 1) : Col(s, j2).k # "jp"

-----------------------------------------------------------------------------
Idle == [col |-> -1, rem |-> 0, n |-> 0, st |-> "idle"]

Msg(k) == [k |-> k, w |-> 0, e |-> 0, ids |-> <<>>]
ToSet(q) == {q[i] : i \in 1..Len(q)}

InitHist == [runs |-> {},       \* <<c, j>>: an executor coroutine was started for that cell
             dup |-> FALSE,     \* some cell was started twice
             fin |-> {},        \* cells whose coroutine ended
             cut |-> {},        \* cells that ended early because `complete` was observed
             skip |-> {},       \* cells skipped by Worker.drive because `complete` was set
             cct |-> {},        \* elements for which CompleteCurrentTask was broadcast
             cctEarly |-> FALSE,\* a broadcast for a named completed-by task happened before all its clients finished
             produced |-> {},   \* sample ids <<c, j, n>>: one per executed request
             dropped |-> {}     \* samples dropped because the worker's sample queue was full
            ]

Init == /\ scn \in Scenarios
        /\ d2w = [w \in Workers(scn) |-> <<Msg("Bootstrap"), Msg("StartWorker")>>]     \* Driver.start_benchmark has run
        /\ w2d = [w \in Workers(scn) |-> <<>>]
        /\ rcbox = <<>>
        /\ timers = [w \in Workers(scn) |-> 0]
        /\ dtimers = IF Ticks THEN <<"tick">> ELSE <<>>
        /\ drv = [completed |-> 0, doneW |-> {}, step |-> -1, cct |-> FALSE, raw |-> <<>>, store |-> <<>>, ppt |-> 0]
        /\ wk = [w \in Workers(scn) |-> [cur |-> 0, nxt |-> 0, sd |-> FALSE, fut |-> "none", complete |-> FALSE,
                                         cancel |-> FALSE, sampq |-> <<>>]]
        /\ cell = [c \in Clients(scn) |-> Idle]
        /\ hist = InitHist
        /\ act = [name |-> "Init"]

-----------------------------------------------------------------------------
(* Worker.send_samples(): drain the sampler queue into one UpdateSamples message *)
SendSamples(w, ws) == IF ws.sampq = <<>> THEN <<>> ELSE <<[Msg("UpdateSamples") EXCEPT !.w = w, !.ids = ws.sampq]>>

(* Worker.drive(): result of driving worker w whose state is ws.                                    *)
(* Returns [ws, send (sequence of messages to the coordinator), arm (wake-ups armed), skipped]      *)
RECURSIVE DriveFrom(_, _, _)
DriveFrom(w, ws, skipped) ==
    LET j == NextNonEmpty(scn, w, ws.nxt)
        ws1 == [ws EXCEPT !.cur = j, !.nxt = j + 1]
        mine == {c \in ClientsOf(scn, w) : HasCell(scn, c, j)}
    IN IF Col(scn, j).k = "jp"
       THEN [ws |-> [ws1 EXCEPT !.cancel = FALSE, !.complete = FALSE, !.fut = "none", !.sampq = <<>>],
             send |-> SendSamples(w, ws1) \o <<[Msg("JoinPointReached") EXCEPT !.w = w, !.e = Col(scn, j).e]>>,
             arm |-> 0, skipped |-> skipped]
       ELSE IF ws1.complete
            THEN IF SkipFix THEN DriveFrom(w, ws1, skipped \cup {<<c, j>> : c \in mine})
                 ELSE [ws |-> ws1, send |-> <<>>, arm |-> 0, skipped |-> skipped \cup {<<c, j>> : c \in mine}]
            ELSE [ws |-> [ws1 EXCEPT !.fut = "submitted", !.sampq = <<>>],      \* a new Sampler replaces the old one
                  send |-> <<>>, arm |-> 1, skipped |-> skipped]

(* receiveMsg_Bootstrap: nothing the protocol depends on *)
WRecvBootstrap(w) ==
    /\ d2w[w] # <<>> /\ Head(d2w[w]).k = "Bootstrap"
    /\ d2w' = [d2w EXCEPT ![w] = Tail(@)]
    /\ UNCHANGED <<scn, w2d, rcbox, timers, dtimers, drv, wk, cell, hist>>
    /\ act' = [name |-> "WRecvBootstrap", w |-> w]

(* receiveMsg_StartWorker *)
WRecvStartWorker(w) ==
    /\ d2w[w] # <<>> /\ Head(d2w[w]).k = "StartWorker"
    /\ d2w' = [d2w EXCEPT ![w] = Tail(@)]
    /\ LET r == DriveFrom(w, [wk[w] EXCEPT !.cur = 0, !.cancel = FALSE], {})
       IN /\ wk' = [wk EXCEPT ![w] = r.ws]
          /\ w2d' = [w2d EXCEPT ![w] = @ \o r.send]
          /\ timers' = [timers EXCEPT ![w] = @ + r.arm]
          /\ hist' = [hist EXCEPT !.skip = @ \cup r.skipped]
    /\ UNCHANGED <<scn, rcbox, dtimers, drv, cell>>
    /\ act' = [name |-> "WRecvStartWorker", w |-> w]

(* receiveMsg_Drive *)
WRecvDrive(w) ==
    /\ d2w[w] # <<>> /\ Head(d2w[w]).k = "Drive"
    /\ d2w' = [d2w EXCEPT ![w] = Tail(@)]
    /\ wk' = [wk EXCEPT ![w].sd = TRUE]
    /\ timers' = [timers EXCEPT ![w] = @ + 1]
    /\ UNCHANGED <<scn, w2d, rcbox, dtimers, drv, cell, hist>>
    /\ act' = [name |-> "WRecvDrive", w |-> w]

(* receiveMsg_CompleteCurrentTask *)
WRecvCCT(w) ==
    /\ d2w[w] # <<>> /\ Head(d2w[w]).k = "CompleteCurrentTask"
    /\ d2w' = [d2w EXCEPT ![w] = Tail(@)]
    /\ wk' = [wk EXCEPT ![w].complete = IF Col(scn, wk[w].cur).k = "jp" /\ ~(CctFix /\ wk[w].sd) THEN @ ELSE TRUE]
    /\ UNCHANGED <<scn, w2d, rcbox, timers, dtimers, drv, cell, hist>>
    /\ act' = [name |-> "WRecvCCT", w |-> w]

(* receiveMsg_WakeupMessage *)
WWakeup(w) ==
    /\ timers[w] > 0
    /\ IF wk[w].sd
       THEN /\ LET r == DriveFrom(w, [wk[w] EXCEPT !.sd = FALSE], {})
               IN /\ wk' = [wk EXCEPT ![w] = r.ws]
                  /\ w2d' = [w2d EXCEPT ![w] = @ \o r.send]
                  /\ timers' = [timers EXCEPT ![w] = @ - 1 + r.arm]
                  /\ hist' = [hist EXCEPT !.skip = @ \cup r.skipped]
       ELSE LET ws0 == [wk[w] EXCEPT !.sampq = <<>>]            \* current_samples = self.send_samples()
                sent == SendSamples(w, wk[w])
            IN IF wk[w].fut = "done"
               THEN /\ LET r == DriveFrom(w, [ws0 EXCEPT !.fut = "none"], {})
                       IN /\ wk' = [wk EXCEPT ![w] = r.ws]
                          /\ w2d' = [w2d EXCEPT ![w] = @ \o sent \o r.send]
                          /\ timers' = [timers EXCEPT ![w] = @ - 1 + r.arm]
                          /\ hist' = [hist EXCEPT !.skip = @ \cup r.skipped]
               ELSE /\ wk' = [wk EXCEPT ![w] = ws0]
                    /\ w2d' = [w2d EXCEPT ![w] = @ \o sent]
                    /\ UNCHANGED <<timers, hist>>      \* still executing: re-arm (−1 + 1)
    /\ UNCHANGED <<scn, d2w, rcbox, dtimers, drv, cell>>
    /\ act' = [name |-> "WWakeup", w |-> w]

-----------------------------------------------------------------------------
(* The executor thread of worker w.                                                                  *)
MyCells(w) == {c \in ClientsOf(scn, w) : HasCell(scn, c, wk[w].cur)}

(* AsyncIoAdapter.run starts one AsyncExecutor per allocated client; each issues its first request *)
ExecStart(w) ==
    /\ wk[w].fut = "submitted"
    /\ wk' = [wk EXCEPT ![w].fut = "running"]
    /\ cell' = [c \in Clients(scn) |->
                  IF c \in MyCells(w) THEN [col |-> wk[w].cur, rem |-> CellAt(scn, c, wk[w].cur).t.reqs, n |-> 0, st |-> "pend"] ELSE cell[c]]
    /\ hist' = [hist EXCEPT !.runs = @ \cup {<<c, wk[w].cur>> : c \in MyCells(w)},
                            !.dup = @ \/ \E c \in MyCells(w) : <<c, wk[w].cur>> \in hist.runs]
    /\ UNCHANGED <<scn, d2w, w2d, rcbox, timers, dtimers, drv>>
    /\ act' = [name |-> "ExecStart", w |-> w]

(* the pending request of client c returns; AsyncExecutor evaluates `completed`, adds the sample,  *)
(* then either issues the next request or leaves the loop (finally: set `complete` for completing  *)
(* tasks)                                                                                          *)
ExecStep(c) ==
    LET w == scn.workerOf[c + 1]
        t == CellAt(scn, c, cell[c].col).t
        rem1 == IF cell[c].rem = Eternal THEN Eternal ELSE cell[c].rem - 1
        externally == IF t.cp THEN FALSE ELSE wk[w].complete
        ends == externally \/ rem1 = 0
        setsComplete == ends /\ (t.cp \/ t.acp)
        others == {c2 \in ClientsOf(scn, w) : c2 # c /\ cell[c2].col = cell[c].col /\ cell[c2].st = "pend"}
        counted == cell[c].rem # Eternal \/ cell[c].n < MaxEternal
        n1 == IF counted THEN cell[c].n + 1 ELSE cell[c].n
        sid == <<c, cell[c].col, n1>>
        full == Len(wk[w].sampq) >= QMax
    IN /\ cell[c].st = "pend"
       /\ cell' = [cell EXCEPT ![c] = [col |-> cell[c].col, rem |-> rem1, n |-> n1, st |-> IF ends THEN "done" ELSE "pend"]]
       /\ wk' = [wk EXCEPT ![w].complete = @ \/ setsComplete,
                           ![w].fut = IF ends /\ others = {} THEN "done" ELSE @,
                           ![w].sampq = IF full \/ ~counted THEN @ ELSE Append(@, sid)]
       /\ hist' = [hist EXCEPT !.fin = IF ends THEN @ \cup {<<c, cell[c].col>>} ELSE @,
                               !.cut = IF ends /\ rem1 # 0 THEN @ \cup {<<c, cell[c].col>>} ELSE @,
                               !.produced = IF counted THEN @ \cup {sid} ELSE @,
                               !.dropped = IF full /\ counted THEN @ \cup {sid} ELSE @]
       /\ UNCHANGED <<scn, d2w, w2d, rcbox, timers, dtimers, drv>>
       /\ act' = [name |-> "ExecStep", c |-> c]

-----------------------------------------------------------------------------
(* Coordinator *)
Broadcast(msg) == [w \in Workers(scn) |-> Append(d2w[w], msg)]

(* Driver.update_samples *)
DRecvUpdateSamples(w) ==
    /\ w2d[w] # <<>> /\ Head(w2d[w]).k = "UpdateSamples"
    /\ w2d' = [w2d EXCEPT ![w] = Tail(@)]
    /\ drv' = [drv EXCEPT !.raw = @ \o Head(w2d[w]).ids]
    /\ UNCHANGED <<scn, d2w, rcbox, timers, dtimers, wk, cell, hist>>
    /\ act' = [name |-> "DRecvUpdateSamples", w |-> w]

Finished == drv.step = NSteps(scn)

(* DriverActor.receiveMsg_WakeupMessage; i = position of the fired timer in dtimers *)
DWakeup(i) ==
    /\ i \in 1..Len(dtimers)
    /\ LET rest == [k \in 1..(Len(dtimers) - 1) |-> IF k < i THEN dtimers[k] ELSE dtimers[k + 1]]
       IN IF dtimers[i] = "reset" \/ Finished
          THEN /\ dtimers' = rest
               /\ drv' = drv
          ELSE /\ dtimers' = Append(rest, "tick")
               /\ drv' = IF drv.ppt + 1 >= PPInterval
                         THEN [drv EXCEPT !.ppt = 0, !.raw = <<>>, !.store = @ \o drv.raw]     \* post_process_samples
                         ELSE [drv EXCEPT !.ppt = @ + 1]
    /\ UNCHANGED <<scn, d2w, w2d, rcbox, timers, wk, cell, hist>>
    /\ act' = [name |-> "DWakeup", i |-> i]

(* Driver.joinpoint_reached / may_complete_current_task / move_to_next_task *)
DRecvJoinPointReached(w) ==
    /\ w2d[w] # <<>> /\ Head(w2d[w]).k = "JoinPointReached"
    /\ w2d' = [w2d EXCEPT ![w] = Tail(@)]
    /\ LET e == Head(w2d[w]).e
           done1 == drv.doneW \cup {w}
       IN IF drv.completed + 1 = scn.W
          THEN \* barrier opens: post-process, hand all records over to race control
               /\ drv' = [drv EXCEPT !.completed = 0, !.doneW = {}, !.step = @ + 1, !.cct = FALSE, !.raw = <<>>, !.store = <<>>]
               /\ IF drv.step + 1 = NSteps(scn)
                  THEN /\ rcbox' = Append(rcbox, [Msg("BenchmarkComplete") EXCEPT !.ids = drv.store \o drv.raw])
                       /\ d2w' = d2w
                       /\ dtimers' = dtimers
                  ELSE /\ rcbox' = Append(rcbox, [Msg("TaskFinished") EXCEPT !.ids = drv.store \o drv.raw])
                       /\ d2w' = Broadcast(Msg("Drive"))
                       /\ dtimers' = IF TestMode THEN dtimers ELSE Append(dtimers, "reset")
               /\ hist' = hist
          ELSE /\ rcbox' = rcbox /\ dtimers' = dtimers
               /\ IF AcpClients(scn, e) # {} /\ ~drv.cct
                  THEN /\ drv' = [drv EXCEPT !.completed = @ + 1, !.doneW = done1, !.cct = TRUE]
                       /\ d2w' = Broadcast(Msg("CompleteCurrentTask"))
                       /\ hist' = [hist EXCEPT !.cct = @ \cup {e}]
                  ELSE IF CpClients(scn, e) # {} /\ ~drv.cct /\ \A c \in CpClients(scn, e) : scn.workerOf[c + 1] \in done1
                  THEN /\ drv' = [drv EXCEPT !.completed = @ + 1, !.doneW = done1, !.cct = TRUE]
                       /\ d2w' = Broadcast(Msg("CompleteCurrentTask"))
                       /\ hist' = [hist EXCEPT !.cct = @ \cup {e},
                                               !.cctEarly = @ \/ \E cj \in Allocated(scn) :
                                                    /\ Col(scn, cj[2]).e = e /\ CellAt(scn, cj[1], cj[2]).t.cp
                                                    /\ cj \notin hist.fin]
                  ELSE /\ drv' = [drv EXCEPT !.completed = @ + 1, !.doneW = done1]
                       /\ d2w' = d2w
                       /\ hist' = hist
    /\ UNCHANGED <<scn, timers, wk, cell>>
    /\ act' = [name |-> "DRecvJoinPointReached", w |-> w]

Next == \/ \E w \in Workers(scn) : \/ WRecvBootstrap(w) \/ WRecvStartWorker(w) \/ WRecvDrive(w) \/ WRecvCCT(w) \/ WWakeup(w)
                                    \/ ExecStart(w) \/ DRecvJoinPointReached(w) \/ DRecvUpdateSamples(w)
        \/ \E c \in Clients(scn) : ExecStep(c)
        \/ \E i \in 1..Len(dtimers) : DWakeup(i)

WorkerStep(w) == WRecvBootstrap(w) \/ WRecvStartWorker(w) \/ WRecvDrive(w) \/ WRecvCCT(w) \/ WWakeup(w) \/ ExecStart(w)
                 \/ DRecvJoinPointReached(w) \/ DRecvUpdateSamples(w)
(* fairness w.r.t. the real state (view): a wake-up that only re-arms itself is no progress *)
Fairness == /\ \A w \in 1..3 : WF_view(w \in Workers(scn) /\ WorkerStep(w))
            /\ \A c \in 0..5 : WF_view(c \in Clients(scn) /\ ExecStep(c))

Spec == Init /\ [][Next]_vars
FairSpec == Spec /\ Fairness

-----------------------------------------------------------------------------
(* PROPERTY C01 *)
Complete == \E i \in 1..Len(rcbox) : rcbox[i].k = "BenchmarkComplete"
NComplete == Cardinality({i \in 1..Len(rcbox) : rcbox[i].k = "BenchmarkComplete"})
ElemOf(j) == Col(scn, j).e

(* no client issues a request of a later element before every client has finished the current one *)
Barrier ==
    \A c \in Clients(scn) : cell[c].st = "pend" =>
        \A cj \in Allocated(scn) : ElemOf(cj[2]) < ElemOf(cell[c].col) => cj \in hist.fin \cup hist.skip

(* every client allocated to a task runs it at most once; exactly once when the race is complete,  *)
(* except cells skipped after the completion of an element that declares completed-by              *)
AtMostOnce == ~hist.dup
ExactlyOnceAtEnd ==
    Complete => \A cj \in Allocated(scn) :
                   \/ cj \in hist.runs /\ cj \in hist.fin
                   \/ cj \in hist.skip /\ cj \notin hist.runs /\ DeclaresCompletedBy(scn, ElemOf(cj[2]))

(* completion is reported exactly once, after the last element, when nothing runs any more *)
CompleteOnce ==
    /\ NComplete <= 1
    /\ Complete => /\ drv.step = NSteps(scn)
                   /\ rcbox[Len(rcbox)].k = "BenchmarkComplete"
                   /\ \A c \in Clients(scn) : cell[c].st # "pend"
                   /\ \A w \in Workers(scn) : wk[w].fut \in {"none"}
                   /\ Cardinality({i \in 1..Len(rcbox) : rcbox[i].k = "TaskFinished"}) = NSteps(scn)

(* completed-by <task>: the broadcast happens only after every client of the named task has finished, *)
(* and clients of the named task are never cut short                                                 *)
CompletedByNamed ==
    /\ ~hist.cctEarly
    /\ \A cj \in hist.cut : ~CellAt(scn, cj[1], cj[2]).t.cp

(* completion never cuts short (or skips) tasks of elements that do not declare completed-by *)
NoCrossElementCut ==
    /\ \A cj \in hist.cut \cup hist.skip : DeclaresCompletedBy(scn, ElemOf(cj[2]))
    /\ \A e \in hist.cct : DeclaresCompletedBy(scn, e)
    /\ \A w \in Workers(scn) : (wk[w].fut = "submitted" /\ ~DeclaresCompletedBy(scn, ElemOf(wk[w].cur))) => ~wk[w].complete

TypeOK == /\ drv.completed \in 0..scn.W /\ drv.step \in -1..NSteps(scn)
          /\ \A w \in Workers(scn) : timers[w] \in 0..2 /\ wk[w].cur \in 0..(NCols(scn) - 1)

(* liveness: the race completes (no hang) *)
NoHang == <>Complete

(* a state in which no worker, executor or message can make progress must be the completed race *)
Quiescent == /\ \A w \in Workers(scn) : d2w[w] = <<>> /\ w2d[w] = <<>> /\ timers[w] = 0 /\ wk[w].fut # "submitted"
             /\ \A c \in Clients(scn) : cell[c].st # "pend"
NoStall == Quiescent => Complete

-----------------------------------------------------------------------------
(* PROPERTY C07: every produced sample that was not dropped is in exactly one stage of the pipeline *)
RECURSIVE Flatten(_)
Flatten(ss) == IF ss = <<>> THEN <<>> ELSE Head(ss) \o Flatten(Tail(ss))
MsgIds(q) == Flatten([i \in 1..Len(q) |-> q[i].ids])
RECURSIVE FlattenF(_, _)
FlattenF(f, S) == IF S = {} THEN <<>> ELSE LET x == CHOOSE x \in S : TRUE IN f[x] \o FlattenF(f, S \ {x})

Pipeline == FlattenF([w \in Workers(scn) |-> wk[w].sampq \o MsgIds(w2d[w])], Workers(scn))
            \o drv.raw \o drv.store \o MsgIds(rcbox)

SampleConservation ==
    /\ ToSet(Pipeline) = hist.produced \ hist.dropped
    /\ Len(Pipeline) = Cardinality(ToSet(Pipeline))            \* no duplicates anywhere

AllSamplesAtRaceControl == Complete => ToSet(MsgIds(rcbox)) = hist.produced \ hist.dropped
OnlyFullQueueDrops == hist.dropped # {} => QMax < 100
=============================================================================
