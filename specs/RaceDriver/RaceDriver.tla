------------------------------ MODULE RaceDriver ------------------------------
(***************************************************************************)
(* The load-driver protocol of Rally: race control (BenchmarkActor +       *)
(* BenchmarkCoordinator), the coordinator (DriverActor + Driver), the      *)
(* Worker actors with their executor (AsyncIoAdapter / AsyncExecutor, one  *)
(* coroutine per allocated client and task), the sample pipeline from the  *)
(* samplers to race control's metrics store, and failure propagation.      *)
(* One action per message handler / executor step of                       *)
(* esrally/driver/driver.py and esrally/racecontrol.py; actor messages     *)
(* travel through FIFO channels per (sender, receiver) pair, wake-ups are  *)
(* untimed (may fire any time after being armed).                          *)
(*                                                                         *)
(* A scenario scn = [sched, workerOf, W]:                                  *)
(*   sched    sequence of schedule elements [tasks, cap]; cap = 0: the     *)
(*            element uses sum(task clients) clients, cap > 0: `clients`   *)
(*            of a parallel element                                        *)
(*   task     [id, clients, reqs, cp, acp]: reqs > 0 requests per client   *)
(*            or Eternal (runs until told to complete) or Timed (a time   *)
(*            period: ends after some request, when the period is over); cp = *)
(*            completes_parent (named completed-by task), acp =            *)
(*            any_completes_parent (completed-by: any)                     *)
(*   workerOf <<w_0, …, w_{M-1}>>: worker (1..W) of client id c at c+1     *)
(***************************************************************************)
EXTENDS Integers, Sequences, FiniteSets, TLC

CONSTANTS Scenarios,     \* set of scenarios Init chooses from
          Ticks,         \* TRUE: the coordinator's periodic wake-up is modelled (needed for C07), FALSE: left out
          SkipFix,       \* TRUE: repaired Worker.drive (keeps driving after skipping); FALSE: pinned behaviour
          CctFix,        \* TRUE: repaired receiveMsg_CompleteCurrentTask (honoured when already told to drive on);
                         \* FALSE: pinned behaviour (ignored whenever the worker is at a join point)
          QMax,          \* capacity of a worker's sample queue (reporting/sample.queue.size)
          PPInterval,    \* coordinator wake-ups between two periodic post-processing runs
          TestMode,      \* track/test.mode.enabled: next task starts immediately, no relative-time reset timer
          MaxTimed,      \* a time-period based task ends at the latest after MaxTimed requests per client in the model
          MaxEternal,    \* only the first MaxEternal requests of an eternal task are counted and sampled in the model
                         \* (keeps the state space finite without a state constraint); traces use a large value
          FlushFix,      \* TRUE: repaired Worker.drive (ships what is left in the sampler before replacing it by the sampler of
                         \* the next task of an over-committed parallel); FALSE: pinned behaviour (a sample added by the executor
                         \* thread between send_samples() and the look at the future is lost)
          SelfFailFix,   \* TRUE: repaired actor.no_retry (a failure while handling a message from oneself, e.g. a wake-up, is
                         \* handled at once); FALSE: pinned behaviour (BenchmarkFailure is sent to oneself and may be overtaken)
          StaleResetFix, \* TRUE: repaired DriverActor.receiveMsg_WakeupMessage (a relative-time reset wake-up that fires after the
                         \* benchmark has finished is ignored); FALSE: pinned behaviour (it raises: BenchmarkFailure after completion)
          FaultKinds     \* set of fault kinds Init chooses from; {"none"} for the fault-free protocol (C01, C07)

Eternal == -1
Timed == -2

VARIABLES scn,      \* the scenario (constant during a behaviour)
          d2w,      \* d2w[w]: FIFO channel coordinator -> worker w
          w2d,      \* w2d[w]: FIFO channel worker w -> coordinator
          d2d,      \* messages the coordinator sent to itself (no_retry on its own wake-up)
          rc2d,     \* FIFO channel race control -> coordinator
          rcbox,    \* everything the coordinator (or a dying worker's parent notification) sent to race control, in order
          rcst,     \* race control: [pos (messages of rcbox handled), error, cancelled, stored, stopping, alive, replies]
          timers,   \* timers[w]: number of pending wake-ups of worker w
          dtimers,  \* pending wake-ups of the coordinator: sequence of payloads "tick" | "reset" (any may fire)
          drv,      \* coordinator state
          wk,       \* wk[w]: worker state
          cell,     \* cell[c]: what client c's coroutine is doing
          flt,      \* the (at most one) fault of this behaviour: [kind, armed, fired]
          hist,     \* history (observations the properties talk about)
          act       \* last action, for schedule extraction (hidden by VIEW)

vars == <<scn, d2w, w2d, d2d, rc2d, rcbox, rcst, timers, dtimers, drv, wk, cell, flt, hist, act>>
view == <<scn, d2w, w2d, d2d, rc2d, rcbox, rcst, timers, dtimers, drv, wk, cell, flt, hist>>

-----------------------------------------------------------------------------
(* Allocation matrix (transcription of Allocator.allocations).  The derived values are computed ONCE per scenario by   *)
(* WithDerived and carried in the scenario record (fields m, cols, alloc, cp, acp): the operators below only look them up *)
RECURSIVE SumClients(_)
SumClients(ts) == IF ts = <<>> THEN 0 ELSE Head(ts).clients + SumClients(Tail(ts))

ElemTotal(e) == SumClients(e.tasks)                       \* logical clients of the element
ElemClients(e) == IF e.cap > 0 THEN e.cap ELSE ElemTotal(e)

MaxOf(S) == CHOOSE x \in S : \A y \in S : y <= x
ComputeM(s) == MaxOf({1} \cup {ElemClients(s.sched[i]) : i \in 1..Len(s.sched)})   \* Allocator.clients
M(s) == s.m
Clients(s) == 0..(M(s) - 1)
Workers(s) == 1..s.W
ClientsOf(s, w) == {c \in Clients(s) : s.workerOf[c + 1] = w}

(* calculate_worker_assignments for ONE load-driver host with `cores` cores and m clients: worker k (1-based) simulates *)
(* m \div cores clients, the first m % cores workers one more, in contiguous ascending ranges; workers without       *)
(* clients are not created.  Result: <<worker of client 0, ..., worker of client m-1>>                               *)
RECURSIVE AssignFrom(_, _, _)
AssignFrom(k, cores, m) ==
    IF k > cores THEN <<>>
    ELSE LET cnt == (m \div cores) + (IF k <= m % cores THEN 1 ELSE 0)
         IN [i \in 1..cnt |-> k] \o AssignFrom(k + 1, cores, m)
AssignOne(cores, m) == AssignFrom(1, cores, m)

RowsM(s, i, m) == LET t == ElemTotal(s.sched[i]) IN (t + m - 1) \div m    \* task columns of element i

(* columns: 0 = join point 0; then for every element its rows and its join point *)
RECURSIVE ColsUpTo(_, _, _)
ColsUpTo(s, i, m) == IF i = 0 THEN <<[k |-> "jp", e |-> 0, r |-> 0]>>
                     ELSE ColsUpTo(s, i - 1, m) \o [r \in 1..RowsM(s, i, m) |-> [k |-> "row", e |-> i, r |-> r - 1]]
                                                \o <<[k |-> "jp", e |-> i, r |-> 0]>>
ComputeCols(s) == ColsUpTo(s, Len(s.sched), ComputeM(s)) \o <<>>
Cols(s) == s.cols                          \* Cols(s)[j+1] describes column index j
NCols(s) == Len(Cols(s))
Col(s, j) == Cols(s)[j + 1]
NSteps(s) == Len(s.sched)                  \* number_of_steps = len(join_points) - 1
JPIndex(s, e) == CHOOSE j \in 0..(NCols(s) - 1) : Col(s, j).k = "jp" /\ Col(s, j).e = e

(* the task executed by logical client index k of element e: [t |-> task, idx |-> client_index_in_task] *)
RECURSIVE TaskAt(_, _)
TaskAt(ts, k) == IF k < Head(ts).clients THEN [t |-> Head(ts), idx |-> k] ELSE TaskAt(Tail(ts), k - Head(ts).clients)

None == [t |-> [id |-> 0, clients |-> 0, reqs |-> 0, cp |-> FALSE, acp |-> FALSE], idx |-> -1]

(* matrix entry of physical client c in task column j *)
CellAt(s, c, j) ==
    LET col == Col(s, j)
        e == s.sched[col.e]
        k == col.r * M(s) + c
    IN IF col.k = "row" /\ k < ElemTotal(e) THEN TaskAt(e.tasks, k) ELSE None

HasCell(s, c, j) == Col(s, j).k = "row" /\ CellAt(s, c, j) # None
ComputeAllocated(s) == {cj \in Clients(s) \X (0..(NCols(s) - 1)) : HasCell(s, cj[1], cj[2])}
Allocated(s) == s.alloc

(* JoinPoint(id, clients_executing_completing_task, any_task_completes_parent) of element e *)
ComputeCp(s, e) == {c \in Clients(s) : \E j \in 0..(NCols(s) - 1) : Col(s, j).e = e /\ HasCell(s, c, j) /\ CellAt(s, c, j).t.cp}
ComputeAcp(s, e) == {c \in Clients(s) : \E j \in 0..(NCols(s) - 1) :
                        Col(s, j).e = e /\ HasCell(s, c, j) /\ ~CellAt(s, c, j).t.cp /\ CellAt(s, c, j).t.acp}
CpClients(s, e) == IF e = 0 THEN {} ELSE s.cp[e]
AcpClients(s, e) == IF e = 0 THEN {} ELSE s.acp[e]
DeclaresCompletedBy(s, e) == e > 0 /\ (CpClients(s, e) # {} \/ AcpClients(s, e) # {})

(* the scenario record with everything derived from the schedule *)
WithDerived(s0) ==
    LET s1 == [sched |-> s0.sched, workerOf |-> s0.workerOf, W |-> s0.W, m |-> ComputeM(s0), cols |-> ComputeCols(s0)]
        s2 == [sched |-> s1.sched, workerOf |-> s1.workerOf, W |-> s1.W, m |-> s1.m, cols |-> s1.cols,
               alloc |-> ComputeAllocated(s1), cp |-> <<>>, acp |-> <<>>]
    IN [s2 EXCEPT !.cp = [e \in 1..Len(s0.sched) |-> ComputeCp(s1, e)] \o <<>>,
                  !.acp = [e \in 1..Len(s0.sched) |-> ComputeAcp(s1, e)] \o <<>>]

(* ClientAllocations.tasks(index) of worker w is non-empty: a join point or some client of w has a cell *)
NonEmptyCol(s, w, j) == Col(s, j).k = "jp" \/ \E c \in ClientsOf(s, w) : HasCell(s, c, j)
NextNonEmpty(s, w, i) == CHOOSE j \in i..(NCols(s) - 1) : NonEmptyCol(s, w, j) /\ \A j2 \in i..(j - 1) : ~NonEmptyCol(s, w, j2)
NextJP(s, i) == CHOOSE j \in i..(NCols(s) - 1) : Col(s, j).k = "jp" /\ \A j2 \in i..(j - 1) : Col(s, j2).k # "jp"

-----------------------------------------------------------------------------
Idle == [col |-> -1, rem |-> 0, n |-> 0, st |-> "idle"]

Msg(k) == [k |-> k, w |-> 0, e |-> 0, ids |-> <<>>]
ToSet(q) == {q[i] : i \in 1..Len(q)}

InitHist == [runs |-> {},       \* <<c, j>>: an executor coroutine was started for that cell
             dup |-> FALSE,     \* some cell was started twice
             fin |-> {},        \* cells whose coroutine ended
             cut |-> {},        \* cells that ended early because `complete` was observed
             skip |-> {},       \* cells skipped by Worker.drive because `complete` was set
             cct |-> {},        \* elements for which CompleteCurrentTask was broadcast
             cctEarly |-> FALSE,\* a broadcast for a named completed-by task happened before all its clients finished
             produced |-> {},   \* sample ids <<c, j, n>>: one per executed request
             dropped |-> {}     \* samples dropped because the worker's sample queue was full
            ]

InitRc == [pos |-> 0, error |-> FALSE, cancelled |-> FALSE, stored |-> FALSE, stopping |-> FALSE, alive |-> TRUE, replies |-> <<>>]
InitDrv == [completed |-> 0, doneW |-> {}, step |-> -1, cct |-> FALSE, raw |-> <<>>, store |-> <<>>, ppt |-> 0, alive |-> TRUE]
InitWk == [cur |-> 0, nxt |-> 0, sd |-> FALSE, fut |-> "none", complete |-> FALSE, cancel |-> FALSE, sampq |-> <<>>, alive |-> TRUE,
           mid |-> FALSE]   \* mid: inside receiveMsg_WakeupMessage, between send_samples() and the look at the executor

Init == /\ scn \in Scenarios
        /\ d2w = [w \in Workers(scn) |-> <<Msg("Bootstrap"), Msg("StartWorker")>>]     \* Driver.start_benchmark has run
        /\ w2d = [w \in Workers(scn) |-> <<>>]
        /\ d2d = <<>> /\ rc2d = <<>> /\ rcbox = <<>>
        /\ rcst = InitRc
        /\ timers = [w \in Workers(scn) |-> 0]
        /\ dtimers = IF Ticks THEN <<"tick">> ELSE <<>>
        /\ drv = InitDrv
        /\ wk = [w \in Workers(scn) |-> InitWk]
        /\ cell = [c \in Clients(scn) |-> Idle]
        /\ flt \in {[kind |-> k, armed |-> FALSE, fired |-> FALSE] : k \in FaultKinds}
        /\ hist = InitHist
        /\ act = [name |-> "Init"]

NoFault == flt.kind = "none" \/ flt.fired \/ flt.armed

-----------------------------------------------------------------------------
(* Worker.send_samples(): drain the sampler queue into one UpdateSamples message *)
SendSamples(w, ws) == IF ws.sampq = <<>> THEN <<>> ELSE <<[Msg("UpdateSamples") EXCEPT !.w = w, !.ids = ws.sampq]>>

(* Worker.drive(): result of driving worker w whose state is ws.                                    *)
(* Returns [ws, send (sequence of messages to the coordinator), arm (wake-ups armed), skipped]      *)
RECURSIVE DriveFrom(_, _, _)
DriveFrom(w, ws, skipped) ==
    LET j == NextNonEmpty(scn, w, ws.nxt)
        ws1 == [ws EXCEPT !.cur = j, !.nxt = j + 1]
        mine == {c \in ClientsOf(scn, w) : HasCell(scn, c, j)}
    IN IF Col(scn, j).k = "jp"
       THEN [ws |-> [ws1 EXCEPT !.cancel = FALSE, !.complete = FALSE, !.fut = "none", !.sampq = <<>>],
             send |-> SendSamples(w, ws1) \o <<[Msg("JoinPointReached") EXCEPT !.w = w, !.e = Col(scn, j).e]>>,
             arm |-> 0, skipped |-> skipped]
       ELSE IF ws1.complete
            THEN IF SkipFix THEN DriveFrom(w, ws1, skipped \cup {<<c, j>> : c \in mine})
                 ELSE [ws |-> ws1, send |-> <<>>, arm |-> 0, skipped |-> skipped \cup {<<c, j>> : c \in mine}]
            ELSE [ws |-> [ws1 EXCEPT !.fut = "submitted", !.sampq = <<>>],      \* a new Sampler replaces the old one
                  send |-> IF FlushFix THEN SendSamples(w, ws1) ELSE <<>>, arm |-> 1, skipped |-> skipped]

WUnch == UNCHANGED <<scn, d2d, rc2d, rcbox, rcst, dtimers, drv, flt>>

(* receiveMsg_Bootstrap: nothing the protocol depends on *)
WRecvBootstrap(w) ==
    /\ wk[w].alive /\ ~wk[w].mid /\ d2w[w] # <<>> /\ Head(d2w[w]).k = "Bootstrap"
    /\ d2w' = [d2w EXCEPT ![w] = Tail(@)]
    /\ UNCHANGED <<w2d, timers, wk, cell, hist>> /\ WUnch
    /\ act' = [name |-> "WRecvBootstrap", w |-> w]

(* receiveMsg_StartWorker *)
WRecvStartWorker(w) ==
    /\ wk[w].alive /\ ~wk[w].mid /\ d2w[w] # <<>> /\ Head(d2w[w]).k = "StartWorker"
    /\ d2w' = [d2w EXCEPT ![w] = Tail(@)]
    /\ LET r == DriveFrom(w, [wk[w] EXCEPT !.cur = 0, !.cancel = FALSE], {})
       IN /\ wk' = [wk EXCEPT ![w] = r.ws]
          /\ w2d' = [w2d EXCEPT ![w] = @ \o r.send]
          /\ timers' = [timers EXCEPT ![w] = @ + r.arm]
          /\ hist' = [hist EXCEPT !.skip = @ \cup r.skipped]
    /\ UNCHANGED cell /\ WUnch
    /\ act' = [name |-> "WRecvStartWorker", w |-> w]

(* receiveMsg_Drive *)
WRecvDrive(w) ==
    /\ wk[w].alive /\ ~wk[w].mid /\ d2w[w] # <<>> /\ Head(d2w[w]).k = "Drive"
    /\ d2w' = [d2w EXCEPT ![w] = Tail(@)]
    /\ wk' = [wk EXCEPT ![w].sd = TRUE]
    /\ timers' = [timers EXCEPT ![w] = @ + 1]
    /\ UNCHANGED <<w2d, cell, hist>> /\ WUnch
    /\ act' = [name |-> "WRecvDrive", w |-> w]

(* receiveMsg_CompleteCurrentTask *)
WRecvCCT(w) ==
    /\ wk[w].alive /\ ~wk[w].mid /\ d2w[w] # <<>> /\ Head(d2w[w]).k = "CompleteCurrentTask"
    /\ d2w' = [d2w EXCEPT ![w] = Tail(@)]
    /\ wk' = [wk EXCEPT ![w].complete = IF Col(scn, wk[w].cur).k = "jp" /\ ~(CctFix /\ wk[w].sd) THEN @ ELSE TRUE]
    /\ UNCHANGED <<w2d, timers, cell, hist>> /\ WUnch
    /\ act' = [name |-> "WRecvCCT", w |-> w]

(* Worker.receiveMsg_BenchmarkFailure: sent by the no_retry infrastructure (a coordinator handler failed while handling *)
(* this worker's message); forward to the coordinator                                                                   *)
WRecvBenchmarkFailure(w) ==
    /\ wk[w].alive /\ ~wk[w].mid /\ d2w[w] # <<>> /\ Head(d2w[w]).k = "BenchmarkFailure"
    /\ d2w' = [d2w EXCEPT ![w] = Tail(@)]
    /\ w2d' = [w2d EXCEPT ![w] = Append(@, Msg("BenchmarkFailure"))]
    /\ UNCHANGED <<timers, wk, cell, hist>> /\ WUnch
    /\ act' = [name |-> "WRecvBenchmarkFailure", w |-> w]

(* receiveMsg_WakeupMessage.  The handler looks at state shared with the executor THREAD more than once (the sampler     *)
(* queue, then the executor's future), and the executor may run in between: the handler is therefore three actions:     *)
(*   WWakeup(w)   start_driving was set: drive on (nothing shared is read)                                             *)
(*   WWakeupA(w)  current_samples = self.send_samples()                                                                *)
(*   WWakeupB(w)  the rest: executor done -> drive(); executor failed -> BenchmarkFailure; else re-arm                  *)
(* No other message is handled by w between A and B (actors are single-threaded); executor steps may happen.            *)
WWakeup(w) ==
    /\ wk[w].alive /\ ~wk[w].mid /\ timers[w] > 0 /\ wk[w].sd
    /\ LET r == DriveFrom(w, [wk[w] EXCEPT !.sd = FALSE], {})
       IN /\ wk' = [wk EXCEPT ![w] = r.ws]
          /\ w2d' = [w2d EXCEPT ![w] = @ \o r.send]
          /\ timers' = [timers EXCEPT ![w] = @ - 1 + r.arm]
          /\ hist' = [hist EXCEPT !.skip = @ \cup r.skipped]
    /\ UNCHANGED <<d2w, cell>> /\ WUnch
    /\ act' = [name |-> "WWakeup", w |-> w]

WWakeupA(w) ==
    /\ wk[w].alive /\ ~wk[w].mid /\ timers[w] > 0 /\ ~wk[w].sd
    /\ wk' = [wk EXCEPT ![w].sampq = <<>>, ![w].mid = TRUE]
    /\ w2d' = [w2d EXCEPT ![w] = @ \o SendSamples(w, wk[w])]
    /\ timers' = [timers EXCEPT ![w] = @ - 1]
    /\ UNCHANGED <<d2w, cell, hist>> /\ WUnch
    /\ act' = [name |-> "WWakeupA", w |-> w]

WWakeupB(w) ==
    /\ wk[w].alive /\ wk[w].mid
    /\ LET ws0 == [wk[w] EXCEPT !.mid = FALSE]
       IN IF wk[w].fut = "done"
          THEN /\ LET r == DriveFrom(w, [ws0 EXCEPT !.fut = "none"], {})
                  IN /\ wk' = [wk EXCEPT ![w] = r.ws]
                     /\ w2d' = [w2d EXCEPT ![w] = @ \o r.send]
                     /\ timers' = [timers EXCEPT ![w] = @ + r.arm]
                     /\ hist' = [hist EXCEPT !.skip = @ \cup r.skipped]
          ELSE IF wk[w].fut = "failed"
          THEN \* the executor raised: notify the coordinator, do not wake up again
               /\ wk' = [wk EXCEPT ![w] = ws0]
               /\ w2d' = [w2d EXCEPT ![w] = Append(@, Msg("BenchmarkFailure"))]
               /\ UNCHANGED <<timers, hist>>
          ELSE /\ wk' = [wk EXCEPT ![w] = ws0]
               /\ timers' = [timers EXCEPT ![w] = @ + 1]      \* still executing: wake up again
               /\ UNCHANGED <<w2d, hist>>
    /\ UNCHANGED <<d2w, cell>> /\ WUnch
    /\ act' = [name |-> "WWakeupB", w |-> w]

-----------------------------------------------------------------------------
(* The executor thread of worker w.                                                                  *)
MyCells(w) == {c \in ClientsOf(scn, w) : HasCell(scn, c, wk[w].cur)}

(* AsyncIoAdapter.run starts one AsyncExecutor per allocated client; each issues its first request *)
ExecStart(w) ==
    /\ wk[w].alive /\ wk[w].fut = "submitted"
    /\ wk' = [wk EXCEPT ![w].fut = "running"]
    /\ cell' = [c \in Clients(scn) |->
                  IF c \in MyCells(w) THEN [col |-> wk[w].cur, rem |-> CellAt(scn, c, wk[w].cur).t.reqs, n |-> 0, st |-> "pend"] ELSE cell[c]]
    /\ hist' = [hist EXCEPT !.runs = @ \cup {<<c, wk[w].cur>> : c \in MyCells(w)},
                            !.dup = @ \/ \E c \in MyCells(w) : <<c, wk[w].cur>> \in hist.runs]
    /\ UNCHANGED <<d2w, w2d, timers>> /\ WUnch
    /\ act' = [name |-> "ExecStart", w |-> w]

(* the pending request of client c returns; AsyncExecutor evaluates `completed`, adds the sample,  *)
(* then either issues the next request or leaves the loop (finally: set `complete` for completing  *)
(* tasks).  outcome = "ok" | "fatal" (the request or the runner fails fatally: RallyError out of     *)
(* the executor, no sample) | "param" (the sample is recorded, then the parameter source raises     *)
(* when asked for the next request)                                                                *)
ExecStepWith(c, outcome, timeUp) ==
    LET w == scn.workerOf[c + 1]
        t == CellAt(scn, c, cell[c].col).t
        rem1 == IF cell[c].rem \in {Eternal, Timed} THEN cell[c].rem ELSE cell[c].rem - 1
        externally == IF t.cp THEN FALSE ELSE wk[w].complete
        fails == outcome = "fatal" \/ (outcome = "param" /\ ~externally /\ rem1 # 0 /\ ~timeUp)
        ends == fails \/ externally \/ rem1 = 0 \/ timeUp      \* timeUp: the loop control finds the time period over
        setsComplete == ends /\ (t.cp \/ t.acp)
        others == {c2 \in ClientsOf(scn, w) : c2 # c /\ cell[c2].col = cell[c].col /\ cell[c2].st = "pend"}
        sampled == outcome # "fatal"
        counted == sampled /\ (cell[c].rem # Eternal \/ cell[c].n < MaxEternal)
        n1 == IF counted THEN cell[c].n + 1 ELSE cell[c].n
        sid == <<c, cell[c].col, n1>>
        full == Len(wk[w].sampq) >= QMax
    IN /\ wk[w].alive /\ cell[c].st = "pend"
       /\ timeUp => cell[c].rem = Timed
       /\ (cell[c].rem = Timed /\ outcome = "ok" /\ cell[c].n + 1 >= MaxTimed) => timeUp
       /\ outcome = "param" => (~externally /\ rem1 # 0 /\ ~timeUp)
       /\ cell' = [c2 \in Clients(scn) |->
                     IF c2 = c THEN [col |-> cell[c].col, rem |-> IF outcome = "fatal" THEN cell[c].rem ELSE rem1, n |-> n1,
                                     st |-> IF fails THEN "failed" ELSE IF ends THEN "done" ELSE "pend"]
                     ELSE IF fails /\ c2 \in others THEN [cell[c2] EXCEPT !.st = "aband"]     \* the loop dies with the failing gather()
                     ELSE cell[c2]]
       /\ wk' = [wk EXCEPT ![w].complete = @ \/ setsComplete,
                           ![w].fut = IF fails THEN "failed" ELSE IF ends /\ others = {} THEN "done" ELSE @,
                           ![w].sampq = IF full \/ ~counted THEN @ ELSE Append(@, sid)]
       /\ hist' = [hist EXCEPT !.fin = IF ends THEN @ \cup {<<c, cell[c].col>>} ELSE @,
                               !.cut = IF ends /\ ~fails /\ externally /\ rem1 # 0 /\ ~timeUp THEN @ \cup {<<c, cell[c].col>>} ELSE @,
                               !.produced = IF counted THEN @ \cup {sid} ELSE @,
                               !.dropped = IF full /\ counted THEN @ \cup {sid} ELSE @]
       /\ UNCHANGED <<d2w, w2d, timers>>
       /\ UNCHANGED <<scn, d2d, rc2d, rcbox, rcst, dtimers, drv>>

ExecStep(c) == /\ \E tu \in BOOLEAN : ExecStepWith(c, "ok", tu)
               /\ UNCHANGED flt /\ act' = [name |-> "ExecStep", c |-> c]

RaceRunning == \A i \in 1..Len(rcbox) : rcbox[i].k # "BenchmarkComplete"
CanFault(k) == flt.kind = k /\ ~flt.fired /\ ~flt.armed /\ RaceRunning /\ drv.alive /\ rcst.alive

(* fault: a request fails under on-error=abort / with a fatal connection error / the runner raises *)
FReq(c) == /\ CanFault("req") /\ ExecStepWith(c, "fatal", FALSE)
           /\ flt' = [flt EXCEPT !.fired = TRUE, !.armed = FALSE] /\ act' = [name |-> "FReq", c |-> c]
(* fault: the parameter source raises *)
FParam(c) == /\ CanFault("param") /\ ExecStepWith(c, "param", FALSE)
             /\ flt' = [flt EXCEPT !.fired = TRUE, !.armed = FALSE] /\ act' = [name |-> "FParam", c |-> c]

-----------------------------------------------------------------------------
(* Coordinator *)
Broadcast(msg) == [w \in Workers(scn) |-> IF wk[w].alive THEN Append(d2w[w], msg) ELSE d2w[w]]
DUnch == UNCHANGED <<scn, rc2d, rcst, timers, wk, cell>>

(* Driver.update_samples *)
DRecvUpdateSamples(w) ==
    /\ drv.alive /\ w2d[w] # <<>> /\ Head(w2d[w]).k = "UpdateSamples"
    /\ w2d' = [w2d EXCEPT ![w] = Tail(@)]
    /\ drv' = [drv EXCEPT !.raw = @ \o Head(w2d[w]).ids]
    /\ UNCHANGED <<d2w, d2d, rcbox, dtimers, flt, hist>> /\ DUnch
    /\ act' = [name |-> "DRecvUpdateSamples", w |-> w]

Finished == drv.step = NSteps(scn)
StoreFaultFires == flt.kind = "store" /\ flt.armed /\ ~flt.fired /\ drv.raw # <<>>

(* DriverActor.receiveMsg_WakeupMessage; i = position of the fired timer in dtimers *)
DWakeup(i) ==
    /\ drv.alive /\ i \in 1..Len(dtimers)
    /\ LET rest == [k \in 1..(Len(dtimers) - 1) |-> IF k < i THEN dtimers[k] ELSE dtimers[k + 1]]
       IN IF dtimers[i] = "reset" /\ Finished /\ ~StaleResetFix
          THEN \* a relative-time reset that fires after the benchmark has finished finds no metrics store any more and raises
               \* (pinned behaviour): no_retry reports a BenchmarkFailure although the race is complete
               /\ dtimers' = rest
               /\ IF SelfFailFix THEN d2d' = d2d /\ rcbox' = Append(rcbox, Msg("BenchmarkFailure"))
                                 ELSE d2d' = Append(d2d, Msg("BenchmarkFailure")) /\ rcbox' = rcbox
               /\ UNCHANGED <<drv, flt>>
          ELSE IF dtimers[i] = "reset" \/ Finished
          THEN /\ dtimers' = rest
               /\ UNCHANGED <<drv, d2d, flt, rcbox>>
          ELSE IF drv.ppt + 1 >= PPInterval
          THEN IF StoreFaultFires
               THEN \* the metrics store fails while samples are stored: the snapshot is lost, no_retry notifies the sender
                    \* of the message, which for a wake-up is the coordinator itself; the wake-up is not re-armed
                    /\ dtimers' = rest
                    /\ drv' = [drv EXCEPT !.ppt = 0, !.raw = <<>>]
                    /\ IF SelfFailFix THEN d2d' = d2d /\ rcbox' = Append(rcbox, Msg("BenchmarkFailure"))
                                      ELSE d2d' = Append(d2d, Msg("BenchmarkFailure")) /\ rcbox' = rcbox
                    /\ flt' = [flt EXCEPT !.fired = TRUE, !.armed = FALSE]
               ELSE /\ dtimers' = Append(rest, "tick")
                    /\ drv' = [drv EXCEPT !.ppt = 0, !.raw = <<>>, !.store = @ \o drv.raw]     \* post_process_samples
                    /\ UNCHANGED <<d2d, flt, rcbox>>
          ELSE /\ dtimers' = Append(rest, "tick")
               /\ drv' = [drv EXCEPT !.ppt = @ + 1]
               /\ UNCHANGED <<d2d, flt, rcbox>>
    /\ UNCHANGED <<d2w, w2d, hist>> /\ DUnch
    /\ act' = [name |-> "DWakeup", i |-> i]

(* Driver.joinpoint_reached / may_complete_current_task / move_to_next_task *)
DRecvJoinPointReached(w) ==
    /\ drv.alive /\ w2d[w] # <<>> /\ Head(w2d[w]).k = "JoinPointReached"
    /\ w2d' = [w2d EXCEPT ![w] = Tail(@)]
    /\ LET e == Head(w2d[w]).e
           done1 == drv.doneW \cup {w}
       IN IF drv.completed + 1 = scn.W
          THEN \* barrier opens: post-process, hand all records over to race control
               IF StoreFaultFires
               THEN \* post-processing raises after the step counters were advanced: nothing is handed over, nobody is told
                    \* to drive on, no_retry answers the worker whose message was being handled
                    /\ drv' = [drv EXCEPT !.completed = 0, !.doneW = {}, !.step = @ + 1, !.cct = FALSE, !.raw = <<>>]
                    /\ d2w' = [d2w EXCEPT ![w] = Append(@, Msg("BenchmarkFailure"))]
                    /\ flt' = [flt EXCEPT !.fired = TRUE, !.armed = FALSE]
                    /\ UNCHANGED <<rcbox, dtimers, hist>>
               ELSE
               /\ drv' = [drv EXCEPT !.completed = 0, !.doneW = {}, !.step = @ + 1, !.cct = FALSE, !.raw = <<>>, !.store = <<>>]
               /\ IF drv.step + 1 = NSteps(scn)
                  THEN /\ rcbox' = Append(rcbox, [Msg("BenchmarkComplete") EXCEPT !.ids = drv.store \o drv.raw])
                       /\ d2w' = d2w
                       /\ dtimers' = dtimers
                  ELSE /\ rcbox' = Append(rcbox, [Msg("TaskFinished") EXCEPT !.ids = drv.store \o drv.raw])
                       /\ d2w' = Broadcast(Msg("Drive"))
                       /\ dtimers' = IF TestMode THEN dtimers ELSE Append(dtimers, "reset")
               /\ UNCHANGED <<hist, flt>>
          ELSE /\ rcbox' = rcbox /\ dtimers' = dtimers /\ flt' = flt
               /\ IF AcpClients(scn, e) # {} /\ ~drv.cct
                  THEN /\ drv' = [drv EXCEPT !.completed = @ + 1, !.doneW = done1, !.cct = TRUE]
                       /\ d2w' = Broadcast(Msg("CompleteCurrentTask"))
                       /\ hist' = [hist EXCEPT !.cct = @ \cup {e}]
                  ELSE IF CpClients(scn, e) # {} /\ ~drv.cct /\ \A c \in CpClients(scn, e) : scn.workerOf[c + 1] \in done1
                  THEN /\ drv' = [drv EXCEPT !.completed = @ + 1, !.doneW = done1, !.cct = TRUE]
                       /\ d2w' = Broadcast(Msg("CompleteCurrentTask"))
                       /\ hist' = [hist EXCEPT !.cct = @ \cup {e},
                                               !.cctEarly = @ \/ \E cj \in Allocated(scn) :
                                                    /\ Col(scn, cj[2]).e = e /\ CellAt(scn, cj[1], cj[2]).t.cp
                                                    /\ cj \notin hist.fin]
                  ELSE /\ drv' = [drv EXCEPT !.completed = @ + 1, !.doneW = done1]
                       /\ d2w' = d2w
                       /\ hist' = hist
    /\ UNCHANGED d2d /\ DUnch
    /\ act' = [name |-> "DRecvJoinPointReached", w |-> w]

(* DriverActor.receiveMsg_BenchmarkFailure: close the driver, forward to race control.  src = "w" (from worker w),    *)
(* "self" (own no_retry message) or "rc" (race control's no_retry answer)                                             *)
DRecvBenchmarkFailure(w) ==
    /\ drv.alive /\ w2d[w] # <<>> /\ Head(w2d[w]).k = "BenchmarkFailure"
    /\ w2d' = [w2d EXCEPT ![w] = Tail(@)]
    /\ rcbox' = Append(rcbox, Msg("BenchmarkFailure"))
    /\ UNCHANGED <<d2w, d2d, dtimers, drv, flt, hist>> /\ DUnch
    /\ act' = [name |-> "DRecvBenchmarkFailure", w |-> w]

DRecvSelfFailure ==
    /\ drv.alive /\ d2d # <<>>
    /\ d2d' = Tail(d2d)
    /\ rcbox' = Append(rcbox, Msg("BenchmarkFailure"))
    /\ UNCHANGED <<d2w, w2d, dtimers, drv, flt, hist>> /\ DUnch
    /\ act' = [name |-> "DRecvSelfFailure", w |-> 0]

(* messages from race control: its no_retry answer to a failed hand-over, or ActorExitRequest after completion *)
DRecvFromRc ==
    /\ drv.alive /\ rc2d # <<>>
    /\ rc2d' = Tail(rc2d)
    /\ IF Head(rc2d).k = "BenchmarkFailure"
       THEN /\ rcbox' = Append(rcbox, Msg("BenchmarkFailure"))
            /\ UNCHANGED <<d2w, w2d, d2d, dtimers, drv, timers, wk>>
       ELSE \* ActorExitRequest: the coordinator and, through it, all workers exit; whatever was still addressed to them is lost
            /\ drv' = [drv EXCEPT !.alive = FALSE]
            /\ d2d' = <<>> /\ dtimers' = <<>>
            /\ w2d' = [w \in Workers(scn) |-> <<>>]
            /\ d2w' = [w \in Workers(scn) |-> <<>>]
            /\ wk' = [w \in Workers(scn) |-> [wk[w] EXCEPT !.alive = FALSE, !.mid = FALSE]]
            /\ timers' = [w \in Workers(scn) |-> 0]
            /\ rcbox' = rcbox
    /\ UNCHANGED <<scn, rcst, cell, flt, hist>>
    /\ (Head(rc2d).k = "BenchmarkFailure" => rc2d' = Tail(rc2d))
    /\ act' = [name |-> "DRecvFromRc", w |-> 0]

(* DriverActor.receiveMsg_ChildActorExited for a worker that died *)
DRecvChildExited(w) ==
    /\ drv.alive /\ w2d[w] # <<>> /\ Head(w2d[w]).k = "ChildActorExited"
    /\ w2d' = [w2d EXCEPT ![w] = Tail(@)]
    /\ rcbox' = Append(rcbox, Msg("BenchmarkFailure"))
    /\ UNCHANGED <<d2w, d2d, dtimers, drv, flt, hist>> /\ DUnch
    /\ act' = [name |-> "DRecvChildExited", w |-> w]

-----------------------------------------------------------------------------
(* Faults of the environment *)

(* the metrics store of the coordinator / of race control starts failing: the next store operation raises *)
FArm(k) == /\ k \in {"store", "rcstore"} /\ CanFault(k)
           /\ flt' = [flt EXCEPT !.armed = TRUE]
           /\ UNCHANGED <<scn, d2w, w2d, d2d, rc2d, rcbox, rcst, timers, dtimers, drv, wk, cell, hist>>
           /\ act' = [name |-> "FArm", w |-> 0]

(* a worker process dies: its parent is notified after whatever the worker had already sent *)
FWorkerDies(w) ==
    /\ CanFault("die") /\ wk[w].alive
    /\ wk[w].cur < NCols(scn) - 1          \* the worker has not yet reported the last join point: it still takes part in the race
    /\ wk' = [wk EXCEPT ![w].alive = FALSE, ![w].mid = FALSE]
    /\ timers' = [timers EXCEPT ![w] = 0]
    /\ d2w' = [d2w EXCEPT ![w] = <<>>]
    /\ w2d' = [w2d EXCEPT ![w] = Append(@, Msg("ChildActorExited"))]
    /\ cell' = [c \in Clients(scn) |-> IF scn.workerOf[c + 1] = w /\ cell[c].st = "pend" THEN [cell[c] EXCEPT !.st = "aband"] ELSE cell[c]]
    /\ flt' = [flt EXCEPT !.fired = TRUE, !.armed = FALSE]
    /\ UNCHANGED <<scn, d2d, rc2d, rcbox, rcst, dtimers, drv, hist>>
    /\ act' = [name |-> "FWorkerDies", w |-> w]

(* the user interrupts: race() asks race control with BenchmarkCancelled (answered at once), then tells it to exit *)
FCancel ==
    /\ CanFault("cancel")
    /\ rcst' = [rcst EXCEPT !.cancelled = TRUE, !.replies = Append(@, "Cancelled")]
    /\ flt' = [flt EXCEPT !.fired = TRUE, !.armed = FALSE]
    /\ UNCHANGED <<scn, d2w, w2d, d2d, rc2d, rcbox, timers, dtimers, drv, wk, cell, hist>>
    /\ act' = [name |-> "FCancel", w |-> 0]

-----------------------------------------------------------------------------
(* Race control: BenchmarkActor handles the next message of rcbox *)
RcUnch == UNCHANGED <<scn, d2w, w2d, d2d, rcbox, timers, dtimers, drv, wk, cell, hist>>
RcStoreFaultFires == flt.kind = "rcstore" /\ flt.armed /\ ~flt.fired

RcRecv ==
    /\ rcst.alive /\ rcst.pos < Len(rcbox)
    /\ LET m == rcbox[rcst.pos + 1] IN
       IF m.k \in {"TaskFinished", "BenchmarkComplete"} /\ RcStoreFaultFires
       THEN \* bulk_add raises: no_retry answers the coordinator with BenchmarkFailure
            /\ rcst' = [rcst EXCEPT !.pos = @ + 1]
            /\ rc2d' = Append(rc2d, Msg("BenchmarkFailure"))
            /\ flt' = [flt EXCEPT !.fired = TRUE, !.armed = FALSE]
       ELSE IF m.k = "TaskFinished"
       THEN /\ rcst' = [rcst EXCEPT !.pos = @ + 1]
            /\ UNCHANGED <<rc2d, flt>>
       ELSE IF m.k = "BenchmarkComplete"
       THEN \* on_benchmark_complete: results are calculated, stored and summarised unless cancelled or failed
            /\ rcst' = [rcst EXCEPT !.pos = @ + 1, !.stored = @ \/ (~rcst.cancelled /\ ~rcst.error), !.stopping = TRUE]
            /\ rc2d' = Append(rc2d, Msg("ActorExitRequest"))
            /\ flt' = flt
       ELSE \* BenchmarkFailure: remember the error, answer whoever started the race
            /\ rcst' = [rcst EXCEPT !.pos = @ + 1, !.error = TRUE, !.replies = Append(@, "Failure")]
            /\ UNCHANGED <<rc2d, flt>>
    /\ RcUnch
    /\ act' = [name |-> "RcRecv", w |-> 0]

(* the mechanic confirms that the engine has stopped: race control reports success *)
RcEngineStopped ==
    /\ rcst.alive /\ rcst.stopping
    /\ rcst' = [rcst EXCEPT !.stopping = FALSE, !.replies = Append(@, "Success")]
    /\ UNCHANGED <<rc2d, flt>> /\ RcUnch
    /\ act' = [name |-> "RcEngineStopped", w |-> 0]

Next == \/ \E w \in Workers(scn) : \/ WRecvBootstrap(w) \/ WRecvStartWorker(w) \/ WRecvDrive(w) \/ WRecvCCT(w) \/ WWakeup(w) \/ WWakeupA(w) \/ WWakeupB(w)
                                    \/ WRecvBenchmarkFailure(w) \/ ExecStart(w)
                                    \/ DRecvJoinPointReached(w) \/ DRecvUpdateSamples(w) \/ DRecvBenchmarkFailure(w) \/ DRecvChildExited(w)
                                    \/ FWorkerDies(w)
        \/ \E c \in Clients(scn) : ExecStep(c) \/ FReq(c) \/ FParam(c)
        \/ \E i \in 1..Len(dtimers) : DWakeup(i)
        \/ DRecvSelfFailure \/ DRecvFromRc \/ RcRecv \/ RcEngineStopped
        \/ FArm("store") \/ FArm("rcstore") \/ FCancel

WorkerRecv(w) == WRecvBootstrap(w) \/ WRecvStartWorker(w) \/ WRecvDrive(w) \/ WRecvCCT(w) \/ WRecvBenchmarkFailure(w)
WorkerWake(w) == WWakeup(w) \/ WWakeupB(w) \/ (WWakeupA(w) /\ (wk[w].fut \in {"done", "failed"} \/ wk[w].sampq # <<>>))
DriverRecv(w) == DRecvJoinPointReached(w) \/ DRecvUpdateSamples(w) \/ DRecvBenchmarkFailure(w) \/ DRecvChildExited(w)
(* fairness per kind of step, w.r.t. the real state (view).  A periodic wake-up that finds the executor still running *)
(* and nothing to ship only re-arms itself: it is deliberately not part of the fair actions (it is no progress).            *)
Fairness == /\ \A w \in 1..3 : /\ SF_view(w \in Workers(scn) /\ WorkerRecv(w))   \* strong: a message is only deliverable between two handlers
                              /\ WF_view(w \in Workers(scn) /\ WorkerWake(w))
                              /\ WF_view(w \in Workers(scn) /\ ExecStart(w))
                              /\ WF_view(w \in Workers(scn) /\ DriverRecv(w))
            /\ \A c \in 0..5 : WF_view(c \in Clients(scn) /\ ExecStep(c))
            /\ WF_view(DRecvSelfFailure) /\ WF_view(DRecvFromRc) /\ WF_view(RcRecv) /\ WF_view(RcEngineStopped)
            /\ WF_view(\E i \in 1..Len(dtimers) : DWakeup(i))

Spec == Init /\ [][Next]_vars
FairSpec == Spec /\ Fairness

-----------------------------------------------------------------------------
(* PROPERTY C01 *)
Complete == \E i \in 1..Len(rcbox) : rcbox[i].k = "BenchmarkComplete"
NComplete == Cardinality({i \in 1..Len(rcbox) : rcbox[i].k = "BenchmarkComplete"})
ElemOf(j) == Col(scn, j).e

(* no client issues a request of a later element before every client has finished the current one *)
Barrier ==
    \A c \in Clients(scn) : cell[c].st = "pend" =>
        \A cj \in Allocated(scn) : ElemOf(cj[2]) < ElemOf(cell[c].col) => cj \in hist.fin \cup hist.skip

(* every client allocated to a task runs it at most once; exactly once when the race is complete,  *)
(* except cells skipped after the completion of an element that declares completed-by              *)
AtMostOnce == ~hist.dup
ExactlyOnceAtEnd ==
    Complete => \A cj \in Allocated(scn) :
                   \/ cj \in hist.runs /\ cj \in hist.fin
                   \/ cj \in hist.skip /\ cj \notin hist.runs /\ DeclaresCompletedBy(scn, ElemOf(cj[2]))

(* completion is reported exactly once, after the last element, when nothing runs any more *)
CompleteOnce ==
    /\ NComplete <= 1
    /\ Complete => /\ drv.step = NSteps(scn)
                   /\ \A c \in Clients(scn) : cell[c].st # "pend"
                   /\ \A w \in Workers(scn) : wk[w].fut \in {"none"}
                   /\ Cardinality({i \in 1..Len(rcbox) : rcbox[i].k = "TaskFinished"}) = NSteps(scn)

(* completed-by <task>: the broadcast happens only after every client of the named task has finished, *)
(* and clients of the named task are never cut short                                                 *)
CompletedByNamed ==
    /\ ~hist.cctEarly
    /\ \A cj \in hist.cut : ~CellAt(scn, cj[1], cj[2]).t.cp

(* the element ENDS when the named task (or with 'any' the first task) is done: as soon as the driver knows that every  *)
(* worker hosting a client of the named task (with 'any': some worker) is at the join point, while others are still   *)
(* running, the broadcast for that element has happened.  (When the barrier opens doneW is reset: nothing to end.)    *)
CompletedByEnds ==
    LET e == drv.step + 1 IN
    (drv.alive /\ e \in 1..NSteps(scn)) =>
        /\ (CpClients(scn, e) # {} /\ \A c \in CpClients(scn, e) : scn.workerOf[c + 1] \in drv.doneW) => e \in hist.cct
        /\ (AcpClients(scn, e) # {} /\ drv.doneW # {}) => e \in hist.cct

(* a race in which nothing fails executes its schedule: race control is never told about a failure or a cancellation *)
NoSpuriousFailure ==
    flt.kind = "none" => /\ \A i \in 1..Len(rcbox) : rcbox[i].k \notin {"BenchmarkFailure", "BenchmarkCancelled"}
                         /\ ~rcst.error /\ ~rcst.cancelled

(* completion never cuts short (or skips) tasks of elements that do not declare completed-by *)
NoCrossElementCut ==
    /\ \A cj \in hist.cut \cup hist.skip : DeclaresCompletedBy(scn, ElemOf(cj[2]))
    /\ \A e \in hist.cct : DeclaresCompletedBy(scn, e)
    /\ \A w \in Workers(scn) : (wk[w].fut = "submitted" /\ ~DeclaresCompletedBy(scn, ElemOf(wk[w].cur))) => ~wk[w].complete

TypeOK == /\ drv.completed \in 0..scn.W /\ drv.step \in -1..NSteps(scn)
          /\ \A w \in Workers(scn) : timers[w] \in 0..2 /\ wk[w].cur \in 0..(NCols(scn) - 1)

(* liveness: the race completes (no hang) *)
NoHang == <>Complete

(* a state in which no worker, executor or message can make progress must be the completed race *)
Quiescent == /\ \A w \in Workers(scn) : d2w[w] = <<>> /\ w2d[w] = <<>> /\ timers[w] = 0 /\ wk[w].fut # "submitted" /\ ~wk[w].mid
             /\ \A c \in Clients(scn) : cell[c].st # "pend"
NoStall == (flt.kind = "none" /\ Quiescent) => Complete

-----------------------------------------------------------------------------
(* PROPERTY C07: every produced sample that was not dropped is in exactly one stage of the pipeline *)
RECURSIVE Flatten(_)
Flatten(ss) == IF ss = <<>> THEN <<>> ELSE Head(ss) \o Flatten(Tail(ss))
MsgIds(q) == Flatten([i \in 1..Len(q) |-> q[i].ids])
RECURSIVE FlattenF(_, _)
FlattenF(f, S) == IF S = {} THEN <<>> ELSE LET x == CHOOSE x \in S : TRUE IN f[x] \o FlattenF(f, S \ {x})

Pipeline == FlattenF([w \in Workers(scn) |-> wk[w].sampq \o MsgIds(w2d[w])], Workers(scn))
            \o drv.raw \o drv.store \o MsgIds(rcbox)

SampleConservation ==
    flt.kind = "none" =>
    /\ ToSet(Pipeline) = hist.produced \ hist.dropped
    /\ Len(Pipeline) = Cardinality(ToSet(Pipeline))            \* no duplicates anywhere

AllSamplesAtRaceControl == (flt.kind = "none" /\ Complete) => ToSet(MsgIds(rcbox)) = hist.produced \ hist.dropped
OnlyFullQueueDrops == hist.dropped # {} => QMax < 100

-----------------------------------------------------------------------------
(* PROPERTY C09: any failure or cancellation ends the race as failed, never as success *)
Faulted == flt.kind # "none" /\ flt.fired
FirstReply == IF rcst.replies = <<>> THEN "none" ELSE rcst.replies[1]

FaultNeverSuccess == Faulted => FirstReply # "Success"
NoResultsOnFailure == Faulted => ~rcst.stored
(* once cancelled, results are not stored afterwards *)
CancelNoResults == [][(rcst.cancelled /\ ~rcst.stored) => ~rcst'.stored]_vars
(* the failure reaches race control (liveness; cancellation is answered synchronously) *)
FaultReported == (Faulted /\ flt.kind # "cancel") ~> rcst.error
=============================================================================
