SPECIFICATION FairSpec
CONSTANTS
  Scenarios <- FaultScenarios
  Ticks = TRUE
  SkipFix = TRUE
  CctFix = TRUE
  SelfFailFix = TRUE
  StaleResetFix = TRUE
  FlushFix = TRUE
  QMax = 100
  PPInterval = 2
  TestMode = TRUE
  FaultKinds <- FixedFaults
  MaxTimed = 2
  MaxEternal = 1
PROPERTY FaultReported
CHECK_DEADLOCK FALSE
