SPECIFICATION Spec
CONSTANTS
  Scenarios <- FaultScenarios
  Ticks = TRUE
  SkipFix = TRUE
  CctFix = TRUE
  SelfFailFix = TRUE
  StaleResetFix = TRUE
  FlushFix = TRUE
  QMax = 100
  PPInterval = 2
  TestMode = TRUE
  FaultKinds <- RcStoreFault
  MaxTimed = 2
  MaxEternal = 2
VIEW view
INVARIANT FaultNeverSuccess
INVARIANT NoResultsOnFailure
PROPERTY CancelNoResults
CHECK_DEADLOCK FALSE
