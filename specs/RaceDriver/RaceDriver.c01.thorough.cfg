SPECIFICATION Spec
CONSTANTS
  Scenarios <- ThoroughScenarios
  Ticks = FALSE
  SkipFix = TRUE
  CctFix = TRUE
  SelfFailFix = TRUE
  StaleResetFix = TRUE
  FlushFix = TRUE
  QMax = 100
  PPInterval = 2
  TestMode = FALSE
  FaultKinds <- NoFaults
  MaxTimed = 2
  MaxEternal = 2
VIEW view
INVARIANT TypeOK
INVARIANT Barrier
INVARIANT AtMostOnce
INVARIANT ExactlyOnceAtEnd
INVARIANT CompleteOnce
INVARIANT CompletedByNamed
INVARIANT CompletedByEnds
INVARIANT NoSpuriousFailure
INVARIANT NoCrossElementCut
INVARIANT NoStall
INVARIANT SampleConservation
INVARIANT AllSamplesAtRaceControl
CHECK_DEADLOCK FALSE
