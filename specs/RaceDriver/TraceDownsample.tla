-------------------------- MODULE TraceDownsample --------------------------
(***************************************************************************)
(* C07, explicit downsampling factor: the same race (same schedule, same   *)
(* seed) is run with factor 1 and with factor f > 1.  Items:               *)
(*   [id, f, n, rows: <<[lat, svc, proc]>>, thrEqual]                      *)
(* rows = record counts per executed request at race control with factor f *)
(* thrEqual = the throughput records equal those of the factor-1 run       *)
(***************************************************************************)
EXTENDS Naturals, Sequences, FiniteSets, TLC, Json, IOUtils

Items == JsonDeserialize(IOEnv.VERIF_TRACES)
VARIABLE i

Kept(it) == Cardinality({k \in 1..Len(it.rows) : it.rows[k].lat = 1})
CeilDiv(a, b) == (a + b - 1) \div b

(* items of kind "volume" (high-volume leg): [id, kind, added, qsize, shipped]: `added` samples were put into the      *)
(* sampler of a worker whose queue holds `qsize` (reporting/sample.queue.size), `shipped` of them left the worker in   *)
(* UpdateSamples messages by the time it reported its join point                                                       *)
Min(a, b) == IF a < b THEN a ELSE b
Clauses == {"AllOrNothingPerRequest", "OnlyDownsamplingReduces", "ThroughputFromAllSamples", "OnlyFullQueueDropsAtVolume"}
Holds(c, it) ==
    IF "kind" \in DOMAIN it /\ it.kind = "volume"
    THEN (c = "OnlyFullQueueDropsAtVolume") => it.shipped = Min(it.added, it.qsize)
    ELSE
    CASE c = "OnlyFullQueueDropsAtVolume" -> TRUE
      [] c = "AllOrNothingPerRequest" -> \A k \in 1..Len(it.rows) : LET r == it.rows[k] IN r.lat \in {0, 1} /\ r.svc = r.lat /\ r.proc = r.lat
      [] c = "OnlyDownsamplingReduces" -> Len(it.rows) = it.n /\ Kept(it) <= it.n /\ Kept(it) >= CeilDiv(it.n, it.f) /\ (it.f = 1 => Kept(it) = it.n)
      [] c = "ThroughputFromAllSamples" -> it.thrEqual

Init == i = 1
Next == /\ i <= Len(Items)
        /\ LET it == Items[i]
               l1 == {c \in Clauses : ~Holds(c, it)}
           IN \A c \in l1 : PrintT(<<"V", it.id, 1, "L1", {c}>>)
        /\ IF i < Len(Items) THEN TRUE ELSE PrintT(<<"DONE", Len(Items), Len(Items)>>)
        /\ i' = i + 1
Spec == Init /\ [][Next]_i
=============================================================================
