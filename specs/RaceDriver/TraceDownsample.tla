-------------------------- MODULE TraceDownsample --------------------------
(***************************************************************************)
(* C07, explicit downsampling factor: the same race (same schedule, same   *)
(* seed) is run with factor 1 and with factor f > 1.  Items:               *)
(*   [id, f, n, rows: <<[lat, svc, proc]>>, thrEqual]                      *)
(* rows = record counts per executed request at race control with factor f *)
(* thrEqual = the throughput records equal those of the factor-1 run       *)
(***************************************************************************)
EXTENDS Naturals, Sequences, FiniteSets, TLC, Json, IOUtils

Items == JsonDeserialize(IOEnv.VERIF_TRACES)
VARIABLE i

Kept(it) == Cardinality({k \in 1..Len(it.rows) : it.rows[k].lat = 1})
CeilDiv(a, b) == (a + b - 1) \div b

Clauses == {"AllOrNothingPerRequest", "OnlyDownsamplingReduces", "ThroughputFromAllSamples"}
Holds(c, it) ==
    CASE c = "AllOrNothingPerRequest" -> \A k \in 1..Len(it.rows) : LET r == it.rows[k] IN r.lat \in {0, 1} /\ r.svc = r.lat /\ r.proc = r.lat
      [] c = "OnlyDownsamplingReduces" -> Len(it.rows) = it.n /\ Kept(it) <= it.n /\ Kept(it) >= CeilDiv(it.n, it.f) /\ (it.f = 1 => Kept(it) = it.n)
      [] c = "ThroughputFromAllSamples" -> it.thrEqual

Init == i = 1
Next == /\ i <= Len(Items)
        /\ LET it == Items[i]
               l1 == {c \in Clauses : ~Holds(c, it)}
           IN \A c \in l1 : PrintT(<<"V", it.id, 1, "L1", {c}>>)
        /\ IF i < Len(Items) THEN TRUE ELSE PrintT(<<"DONE", Len(Items), Len(Items)>>)
        /\ i' = i + 1
Spec == Init /\ [][Next]_i
=============================================================================
