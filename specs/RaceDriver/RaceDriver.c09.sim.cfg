SPECIFICATION Spec
CONSTANTS
  Scenarios <- FaultSimScenarios
  Ticks = TRUE
  SkipFix = TRUE
  CctFix = TRUE
  SelfFailFix = TRUE
  StaleResetFix = TRUE
  FlushFix = TRUE
  QMax = 100
  PPInterval = 2
  TestMode = TRUE
  FaultKinds <- AllFaults
  MaxTimed = 2
  MaxEternal = 2
CHECK_DEADLOCK FALSE
