-------------------------- MODULE TraceRaceDriver --------------------------
(***************************************************************************)
(* Validates executions of the REAL DriverActor / Driver / Worker /        *)
(* AsyncIoAdapter / AsyncExecutor recorded by harness/racesim.py under     *)
(* SimActorSystem against RaceDriver.tla.                                  *)
(* Input: JSON array of traces [id, scn, init, events]; every event is one *)
(* scheduling decision (a message delivery, a wake-up, an executor step)   *)
(* with the projected state of all actors AFTER the handler returned       *)
(* (st) and the harness' own observations (st.hist: which executors ran,   *)
(* which requests completed, which samples exist).                         *)
(* For each event TLC evaluates                                            *)
(*   L1: the property formulas of RaceDriver.tla on the recorded state,    *)
(*   L2: the recorded step is the corresponding action of RaceDriver.tla.  *)
(***************************************************************************)
EXTENDS RaceDriver, Json, IOUtils

Traces == JsonDeserialize(IOEnv.VERIF_TRACES)

VARIABLES tid, l, nev
tvars == <<vars, tid, l, nev>>

HistOf(h) == [runs |-> ToSet(h.runs), dup |-> h.dup, fin |-> ToSet(h.fin), cut |-> ToSet(h.cut), skip |-> ToSet(h.skip),
              cct |-> ToSet(h.cct), cctEarly |-> h.cctEarly, produced |-> ToSet(h.produced), dropped |-> ToSet(h.dropped)]

Bind(s, st) ==
    /\ scn' = s
    /\ d2w' = st.d2w /\ w2d' = st.w2d /\ rcbox' = st.rcbox /\ timers' = st.timers /\ dtimers' = st.dtimers
    /\ d2d' = st.d2d /\ rc2d' = st.rc2d /\ rcst' = st.rcst /\ flt' = st.flt
    /\ drv' = [st.drv EXCEPT !.doneW = ToSet(@)]
    /\ wk' = st.wk
    /\ cell' = [c \in Clients(s) |-> st.cell[c + 1]]
    /\ hist' = HistOf(st.hist)

TInit == /\ tid = 0 /\ l = 0 /\ nev = 0
         /\ scn = [sched |-> <<>>, workerOf |-> <<>>, W |-> 0, m |-> 1, cols |-> <<>>, alloc |-> {}, cp |-> <<>>, acp |-> <<>>]
         /\ d2w = <<>> /\ w2d = <<>> /\ rcbox = <<>> /\ timers = <<>> /\ dtimers = <<>>
         /\ d2d = <<>> /\ rc2d = <<>> /\ rcst = InitRc /\ flt = [kind |-> "none", armed |-> FALSE, fired |-> FALSE]
         /\ drv = InitDrv
         /\ wk = <<>> /\ cell = <<>> /\ hist = InitHist /\ act = [name |-> "Init"]

ActRec(e) == CASE e.ev \in {"ExecStep", "FReq", "FParam"} -> [name |-> e.ev, c |-> e.arg]
               [] e.ev = "DWakeup" -> [name |-> e.ev, i |-> e.arg]
               [] OTHER -> [name |-> e.ev, w |-> e.arg]

StepOf(e) == CASE e.ev = "WRecvBootstrap" -> WRecvBootstrap(e.arg)
               [] e.ev = "WRecvStartWorker" -> WRecvStartWorker(e.arg)
               [] e.ev = "WRecvDrive" -> WRecvDrive(e.arg)
               [] e.ev = "WRecvCCT" -> WRecvCCT(e.arg)
               [] e.ev = "WWakeup" -> WWakeup(e.arg)
               [] e.ev = "WWakeupA" -> WWakeupA(e.arg)
               [] e.ev = "WWakeupB" -> WWakeupB(e.arg)
               [] e.ev = "ExecStart" -> ExecStart(e.arg)
               [] e.ev = "ExecStep" -> ExecStep(e.arg)
               [] e.ev = "DRecvJoinPointReached" -> DRecvJoinPointReached(e.arg)
               [] e.ev = "DRecvUpdateSamples" -> DRecvUpdateSamples(e.arg)
               [] e.ev = "DWakeup" -> DWakeup(e.arg)
               [] e.ev = "WRecvBenchmarkFailure" -> WRecvBenchmarkFailure(e.arg)
               [] e.ev = "DRecvBenchmarkFailure" -> DRecvBenchmarkFailure(e.arg)
               [] e.ev = "DRecvChildExited" -> DRecvChildExited(e.arg)
               [] e.ev = "DRecvSelfFailure" -> DRecvSelfFailure
               [] e.ev = "DRecvFromRc" -> DRecvFromRc
               [] e.ev = "RcRecv" -> RcRecv
               [] e.ev = "RcEngineStopped" -> RcEngineStopped
               [] e.ev = "FReq" -> FReq(e.arg)
               [] e.ev = "FParam" -> FParam(e.arg)
               [] e.ev = "FArm" -> FArm(flt.kind)
               [] e.ev = "FWorkerDies" -> FWorkerDies(e.arg)
               [] e.ev = "FCancel" -> FCancel
               [] e.ev = "Skip" -> UNCHANGED view       \* a message the model does not describe (mechanic): changes nothing modelled
               [] OTHER -> FALSE

L1Clauses == {"Barrier", "AtMostOnce", "ExactlyOnceAtEnd", "CompleteOnce", "CompletedByNamed", "CompletedByEnds", "CompletedByCuts", "NoSpuriousFailure", "NoCrossElementCut",
              "NoStall", "NoHang", "SampleConservation", "AllSamplesAtRaceControl", "OnlyFullQueueDrops", "FinalRecords",
              "FaultNeverSuccess", "NoResultsOnFailure", "CancelNoResults", "FaultReported"}

(* a failure must have reached race control when the recorded race can make no further progress, and within        *)
(* ReportBoundMs of virtual time (a few wake-up intervals)                                                         *)
ReportBoundMs == 16000
FaultReportedAtEnd(e) ==
    (e.last /\ "fault" \in DOMAIN e /\ e.fault.fired /\ flt'.kind # "cancel") => rcst'.error
ReportedInBound(e) ==
    (e.last /\ "fault" \in DOMAIN e /\ e.fault.fired /\ e.fault.tReport >= 0 /\ flt'.kind # "cancel") =>
        e.fault.tReport - e.fault.tFault <= ReportBoundMs

(* the record table the harness reads from race control's metrics store at the end of the race: one row per executed *)
(* request [lat, svc, proc, metaOk]; with default settings exactly one record of each kind with the right meta data  *)
FinalRecordsOk(e) ==
    ("final" \in DOMAIN e) =>
        \A i \in 1..Len(e.final) : LET r == e.final[i] IN
            IF r.dropped THEN r.lat = 0 /\ r.svc = 0 /\ r.proc = 0 /\ r.dsvc = 0
            ELSE r.lat = 1 /\ r.svc = 1 /\ r.proc = 1 /\ r.dsvc = r.deps /\ r.metaOk      \* + one service_time per dependent sub-request

Holds(c, e) ==
    CASE c = "Barrier" -> Barrier'
      [] c = "AtMostOnce" -> AtMostOnce'
      [] c = "ExactlyOnceAtEnd" -> ExactlyOnceAtEnd'
      [] c = "CompleteOnce" -> CompleteOnce'
      [] c = "CompletedByNamed" -> CompletedByNamed'
      [] c = "CompletedByEnds" -> CompletedByEnds'
      [] c = "NoSpuriousFailure" -> NoSpuriousFailure'
      \* the element ENDS for the other tasks: a client whose worker had been told to complete before its request returned, and
      \* whose task is not the named one, does not go on with that task (holds for every ExecStep of RaceDriver.tla)
      [] c = "CompletedByCuts" ->
             (e.ev = "ExecStep" /\ e.arg \in Clients(scn)) =>
                 LET cc == e.arg  ww == scn.workerOf[cc + 1] IN
                 (wk[ww].complete /\ wk[ww].alive /\ cell[cc].st = "pend" /\ ~CellAt(scn, cc, cell[cc].col).t.cp) => cell'[cc].st # "pend"
      [] c = "NoCrossElementCut" -> NoCrossElementCut'
      [] c = "NoStall" -> NoStall'
      [] c = "NoHang" -> e.ev # "Hang"
      [] c = "SampleConservation" -> SampleConservation'
      [] c = "AllSamplesAtRaceControl" -> AllSamplesAtRaceControl'
      [] c = "OnlyFullQueueDrops" -> OnlyFullQueueDrops'
      [] c = "FinalRecords" -> FinalRecordsOk(e)
      [] c = "FaultNeverSuccess" -> FaultNeverSuccess'
      [] c = "NoResultsOnFailure" -> NoResultsOnFailure'
      [] c = "CancelNoResults" -> ((rcst.cancelled /\ ~rcst.stored) => ~rcst'.stored)
      [] c = "FaultReported" -> FaultReportedAtEnd(e)

StartTrace ==
    /\ tid < Len(Traces) /\ (IF tid = 0 THEN TRUE ELSE l > Len(Traces[tid].events))
    /\ LET tr == Traces[tid + 1] IN
         /\ Bind(WithDerived(tr.scn), tr.init)
         /\ act' = [name |-> "Init"]
         /\ LET initOk == /\ d2w' = [w \in 1..tr.scn.W |-> <<Msg("Bootstrap"), Msg("StartWorker")>>]
                          /\ w2d' = [w \in 1..tr.scn.W |-> <<>>] /\ rcbox' = <<>>
                          /\ d2d' = <<>> /\ rc2d' = <<>> /\ rcst' = InitRc /\ ~flt'.armed /\ ~flt'.fired
                          /\ timers' = [w \in 1..tr.scn.W |-> 0] /\ dtimers' = <<"tick">>
                          /\ drv' = InitDrv
                          /\ wk' = [w \in 1..tr.scn.W |-> InitWk]
                          /\ cell' = [c \in 0..(ComputeM(tr.scn) - 1) |-> Idle]
                          /\ hist' = InitHist
                          /\ Len(tr.scn.workerOf) = ComputeM(tr.scn)
            IN IF initOk THEN TRUE ELSE PrintT(<<"V", tr.id, 0, "L2", {}>>)
    /\ tid' = tid + 1 /\ l' = 1 /\ nev' = nev

Consume ==
    /\ tid >= 1 /\ tid <= Len(Traces)
    /\ l <= Len(Traces[tid].events)
    /\ LET e == Traces[tid].events[l] IN
         /\ Bind(scn, e.st)
         /\ act' = ActRec(e)
         /\ LET l1 == {c \in L1Clauses : ~Holds(c, e)}
                \* skipL2: events on whose recorded state TLC could not evaluate the action formula (outside the model's domain);
                \* the harness counts them as L2 failures, L1 is still judged on them and on everything after them
                l2 == e.ev = "Hang" \/ (\E i \in 1..Len(Traces[tid].skipL2) : Traces[tid].skipL2[i] = l) \/ StepOf(e)
            IN /\ \A c \in l1 : PrintT(<<"V", Traces[tid].id, l, "L1", {c}>>)
               /\ IF l2 THEN TRUE ELSE PrintT(<<"V", Traces[tid].id, l, "L2", {e.ev}>>)
    /\ l' = l + 1 /\ nev' = nev + 1 /\ tid' = tid

Finish ==
    /\ tid = Len(Traces) /\ tid >= 1 /\ l = Len(Traces[tid].events) + 1
    /\ PrintT(<<"DONE", Len(Traces), nev>>)
    /\ l' = l + 1
    /\ UNCHANGED <<vars, tid, nev>>

TNext == StartTrace \/ Consume \/ Finish
TSpec == TInit /\ [][TNext]_tvars
=============================================================================
