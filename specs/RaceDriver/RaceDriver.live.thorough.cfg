SPECIFICATION FairSpec
CONSTANTS
  Scenarios <- QuickScenarios
  Ticks = FALSE
  SkipFix = TRUE
  CctFix = TRUE
  SelfFailFix = TRUE
  StaleResetFix = TRUE
  FlushFix = TRUE
  QMax = 100
  PPInterval = 2
  TestMode = TRUE
  FaultKinds <- NoFaults
  MaxTimed = 2
  MaxEternal = 1
PROPERTY NoHang
CHECK_DEADLOCK FALSE
