---- MODULE MC_RaceDriver ----
EXTENDS RaceDriver
T(id, clients, reqs) == [id |-> id, clients |-> clients, reqs |-> reqs, cp |-> FALSE, acp |-> FALSE]
CP(id, clients, reqs) == [id |-> id, clients |-> clients, reqs |-> reqs, cp |-> TRUE, acp |-> FALSE]
ACP(id, clients, reqs) == [id |-> id, clients |-> clients, reqs |-> reqs, cp |-> FALSE, acp |-> TRUE]
E(tasks, cap) == [tasks |-> tasks, cap |-> cap]
Min2(a, b) == IF a < b THEN a ELSE b
S(sched, ignoredWorkerOf, cores) ==
    LET s0 == [sched |-> sched, workerOf |-> <<>>, W |-> cores]
        m == ComputeM(s0)
    IN WithDerived([sched |-> sched, workerOf |-> AssignOne(cores, m), W |-> Min2(cores, m)])

\* sequential tasks with different client counts (None padding), 2 workers
Seq2 == S(<<E(<<T(1, 2, 2)>>, 0), E(<<T(2, 1, 1)>>, 0)>>, <<1, 2>>, 2)
\* parallel, completed-by named task; the other task is eternal; then a normal element
Named2 == S(<<E(<<CP(1, 1, 2), T(2, 1, Eternal)>>, 0), E(<<T(3, 2, 1)>>, 0)>>, <<1, 2>>, 2)
Named1 == S(<<E(<<CP(1, 1, 2), T(2, 1, Eternal)>>, 0), E(<<T(3, 2, 1)>>, 0)>>, <<1, 1>>, 1)
\* completed-by any
Any2 == S(<<E(<<ACP(1, 1, 1), ACP(2, 1, 3)>>, 0), E(<<T(3, 1, 2)>>, 0)>>, <<1, 2>>, 2)
\* over-committed parallel (clients cap 1) with completed-by: t1 then t2 on the same client
Over1 == S(<<E(<<CP(1, 1, 1), T(2, 1, 2)>>, 1), E(<<T(3, 1, 1)>>, 0)>>, <<1>>, 1)
\* over-committed, 3 tasks on 2 clients / 2 workers
Over2 == S(<<E(<<CP(1, 1, 1), T(2, 1, Eternal), T(3, 1, 2)>>, 2), E(<<T(4, 2, 1)>>, 0)>>, <<1, 2>>, 2)
\* over-committed parallel WITHOUT completed-by: a client runs two tasks of the element one after the other (new Sampler, new executor)
OverPlain1 == S(<<E(<<T(1, 1, 2), T(2, 1, 2)>>, 1), E(<<T(3, 1, 1)>>, 0)>>, <<>>, 1)
OverPlain2 == S(<<E(<<T(1, 1, 1), T(2, 1, 2), T(3, 1, 1)>>, 2)>>, <<>>, 2)
\* time-period based tasks (end when the period is over, after some request); alone and next to a completed-by task
Timed2 == S(<<E(<<T(1, 2, Timed)>>, 0), E(<<T(2, 1, 1)>>, 0)>>, <<>>, 2)
NamedTimed == S(<<E(<<CP(1, 1, 2), T(2, 1, Timed)>>, 0), E(<<T(3, 2, 1)>>, 0)>>, <<>>, 2)
\* 3 clients on 2 workers, named task with 2 clients on the same worker as ... and an eternal task elsewhere
Three == S(<<E(<<CP(1, 2, 2), T(2, 1, Eternal)>>, 0), E(<<T(3, 3, 1)>>, 0)>>, <<1, 1, 2>>, 2)
ThreeB == S(<<E(<<T(2, 1, Eternal), CP(1, 2, 1)>>, 0), E(<<T(3, 3, 1)>>, 0)>>, <<1, 1, 2>>, 2)
\* cap larger than needed
CapBig == S(<<E(<<T(1, 1, 1), T(2, 1, 1)>>, 3), E(<<T(3, 1, 1)>>, 0)>>, <<1, 2, 2>>, 2)
\* three workers
W3 == S(<<E(<<CP(1, 1, 1), T(2, 2, Eternal)>>, 0), E(<<T(3, 3, 1)>>, 0)>>, <<1, 2, 3>>, 3)
\* the named task's two clients sit on DIFFERENT workers, an eternal task on a third: the first join point message of the
\* step comes from a worker that hosts only a part of the named task
W3Split == S(<<E(<<CP(1, 2, 1), T(2, 1, Eternal)>>, 0), E(<<T(3, 3, 1)>>, 0)>>, <<>>, 3)
\* ... and a short plain task on a third worker reaches the join point before the named task is done
W3Early == S(<<E(<<T(1, 1, 1), CP(2, 1, 2), T(3, 1, Eternal)>>, 0)>>, <<>>, 3)
\* TWO completed-by elements in a row (the per-step bookkeeping of the broadcast must be reset)
TwoCB == S(<<E(<<CP(1, 1, 1), T(2, 1, Eternal)>>, 0), E(<<CP(3, 1, 1), T(4, 1, Eternal)>>, 0)>>, <<>>, 2)
TwoAny == S(<<E(<<ACP(1, 1, 1), ACP(2, 1, 2)>>, 0), E(<<T(3, 1, Eternal), CP(4, 1, 2)>>, 0)>>, <<>>, 2)
\* over-committed completed-by parallel with RAGGED rows (5 tasks on 2 clients: the last row has a padding cell)
Ragged == S(<<E(<<CP(1, 1, 1), T(2, 1, 2), T(3, 1, 1), T(4, 1, 1), T(5, 1, 1)>>, 2), E(<<T(6, 2, 1)>>, 0)>>, <<>>, 2)
W3Any == S(<<E(<<ACP(1, 1, 1), ACP(2, 1, 2), ACP(3, 1, 2)>>, 0), E(<<T(4, 2, 1)>>, 0)>>, <<1, 2, 3>>, 3)

NoFaults == {"none"}
FixedFaults == {"req", "param", "store", "die", "cancel"}
RcStoreFault == {"rcstore"}
StoreFault == {"store"}
AllFaults == {"req", "param", "store", "rcstore", "die", "cancel"}
QuickScenarios == {Seq2, Named2, Named1, Any2, Over1, Over2, Three, CapBig, OverPlain1, OverPlain2, Timed2, NamedTimed, TwoCB}
C01QuickScenarios == {Seq2, Named2, Any2, Over1, Over2}
LiveScenarios == {Named2, Any2, Over1, Over2}
Tiny2x2 == S(<<E(<<T(1, 2, 1)>>, 0), E(<<T(2, 2, 1)>>, 0)>>, <<>>, 2)
Tiny2 == S(<<E(<<T(1, 2, 1)>>, 0)>>, <<>>, 2)
LiveFaultScenarios == {Tiny2}
FaultSimScenarios == {Seq2, Named2, Tiny2, Over2, Three, OverPlain1, OverPlain2, Timed2}
FaultScenarios == {Seq2, Named2, OverPlain1}
C07QuickScenarios == {Seq2, Named2, Any2, Over2, OverPlain1, OverPlain2, Timed2}
C07Scenarios == {Seq2, Named2, Over2, OverPlain1}
\* non-test mode with the coordinator's timers: a late relative-time reset wake-up
StaleScenarios == {Seq2, Tiny2x2}
ThoroughScenarios == QuickScenarios \cup {ThreeB, W3, W3Any, W3Split, W3Early, TwoCB, TwoAny, Ragged}
====
