---- MODULE MC_Pipelines ----
EXTENDS Pipelines
Sc(p, dv, dk, h, c, t, g, ps) == [pipe |-> p, dv |-> dv, indocker |-> dk, hosts |-> h, chal |-> c, track |-> t, tags |-> g, preset |-> ps]
Pipes == {"", "from-sources", "from-distribution", "benchmark-only", "docker", "bogus"}
Chals == {"default", "named", "unknown"}
Tracks == {"std", "auto", "empty"}
AllScn == {Sc(p, dv, dk, h, c, t, g, ps) : p \in Pipes, dv \in BOOLEAN, dk \in BOOLEAN, h \in BOOLEAN, c \in Chals, t \in Tracks,
                                            g \in BOOLEAN, ps \in BOOLEAN}
\* quick: tags / preset only vary where they matter (benchmark-only without a version), hosts fixed elsewhere
QuickScn == {sc \in AllScn : (sc.tags \/ sc.preset) => (sc.pipe = "benchmark-only" /\ ~sc.dv /\ ~sc.indocker)}
====
