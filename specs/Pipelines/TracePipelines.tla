-------------------------- MODULE TracePipelines --------------------------
(***************************************************************************)
(* Validates recorded executions of the REAL racecontrol.run / pipelines / *)
(* race / BenchmarkActor handlers / BenchmarkCoordinator (scripted fakes   *)
(* for the actor system, mechanic / driver messages, client.factory,       *)
(* track.load_track and the metrics stores, see harness/extras/            *)
(* pipelines.py) against Pipelines.tla.                                    *)
(* Input (env VERIF_TRACES): JSON array of items                           *)
(*   [id, scn, init: OBS, registry: <<[name, stable]>>, listed: <<name>>,  *)
(*    events: <<[a, r, x, st: OBS]>>]                                      *)
(* OBS = state record of Pipelines.tla without pc, pend, preason, pres.    *)
(* L1: the property formulas on the recorded state (+ the registry);       *)
(* L2: the event is enabled in the model and its effect equals the         *)
(* recorded state; at the end the model has nothing left to do.            *)
(***************************************************************************)
EXTENDS Pipelines, Json, IOUtils

Traces == JsonDeserialize(IOEnv.VERIF_TRACES)

VARIABLES tid, l, nev, dead
tvars == <<vars, tid, l, nev, dead>>
Item == Traces[tid]

ObsOf(st) == [k \in (DOMAIN st) \ Internal |-> st[k]]
WithInternal(o, m) == o @@ [k \in Internal |-> m[k]]
Dummy == [pipe |-> "", dv |-> FALSE, indocker |-> FALSE, hosts |-> FALSE, chal |-> "default", track |-> "std", tags |-> FALSE, preset |-> FALSE]

TInit == /\ tid = 1 /\ l = 0 /\ nev = 0 /\ dead = FALSE /\ scn = Dummy /\ s = InitState(Dummy) /\ act = E("init", "", "")

\* the registry: the four built-in pipelines, docker not stable, only stable ones listed (in registration order)
RegistryOK(it) == /\ {it.registry[i].name : i \in 1..Len(it.registry)} = Known /\ Len(it.registry) = 4
                  /\ \A i \in 1..Len(it.registry) : it.registry[i].stable = (it.registry[i].name # "docker")
                  /\ {it.listed[i] : i \in 1..Len(it.listed)} = Known \ {"docker"} /\ Len(it.listed) = 3

Begin ==
    /\ tid <= Len(Traces) /\ l = 0
    /\ LET m == InitState(Item.scn)
           l2 == ObsOf(m) = Item.init /\ Item.registry = Registry /\ Item.listed = Listed
       IN /\ scn' = Item.scn /\ s' = WithInternal(Item.init, m)
          /\ IF RegistryOK(Item) THEN TRUE ELSE PrintT(<<"V", Item.id, 0, "L1", {"Registry"}>>)
          /\ IF l2 THEN TRUE ELSE PrintT(<<"V", Item.id, 0, "L2", {"init"}>>)
          /\ dead' = ~l2
    /\ act' = act /\ l' = 1 /\ UNCHANGED <<tid, nev>>

L1Clauses == {"OnePipelineOrRefusal", "ModeMatchesPipeline", "TeardownIffCreated", "VersionBeforeTrack", "ServerlessDetected",
              "ChallengeResolved", "ResultsOnce", "NothingStoredOnFailure", "ResetPerTask", "OutcomeMapping",
              "SuccessHasResults", "StoreClosedIfOpened"}

Consume ==
    /\ tid <= Len(Traces) /\ l >= 1 /\ l <= Len(Item.events)
    /\ LET e == Item.events[l]
           ev == E(e.a, e.r, e.x)
           m == Eff(s, ev)
           l2 == ev \in Enabled(s) /\ ObsOf(m) = e.st
       IN /\ s' = WithInternal(e.st, m)
          /\ act' = ev
          /\ LET holds == [c \in L1Clauses |->
                   CASE c = "OnePipelineOrRefusal" -> OnePipelineOrRefusalS(scn, s')
                     [] c = "ModeMatchesPipeline" -> ModeMatchesPipelineS(scn, s')
                     [] c = "TeardownIffCreated" -> TeardownIffCreatedS(s')
                     [] c = "VersionBeforeTrack" -> VersionBeforeTrackS(scn, s')
                     [] c = "ServerlessDetected" -> ServerlessDetectedS(scn, s')
                     [] c = "ChallengeResolved" -> ChallengeResolvedS(scn, s')
                     [] c = "ResultsOnce" -> ResultsOnceS(s')
                     [] c = "NothingStoredOnFailure" -> NothingStoredOnFailureS(s')
                     [] c = "ResetPerTask" -> ResetPerTaskS(s')
                     [] c = "OutcomeMapping" -> OutcomeMappingS(s')
                     [] c = "SuccessHasResults" -> SuccessHasResultsS(s')
                     [] c = "StoreClosedIfOpened" -> StoreClosedIfOpenedS(s')]
                 l1 == {c \in L1Clauses : ~holds[c]}
             IN /\ IF l1 = {} THEN TRUE ELSE PrintT(<<"V", Item.id, l, "L1", l1>>)
                /\ IF dead \/ l2 THEN TRUE ELSE PrintT(<<"V", Item.id, l, "L2", {e.a}>>)
          /\ dead' = (dead \/ ~l2)
    /\ l' = l + 1 /\ nev' = nev + 1
    /\ UNCHANGED <<scn, tid>>

EndOfRun ==
    /\ tid <= Len(Traces) /\ l = Len(Item.events) + 1
    /\ IF dead \/ s.pc = "done" THEN TRUE ELSE PrintT(<<"V", Item.id, l, "L2", {"end"}>>)
    /\ IF tid < Len(Traces) THEN TRUE ELSE PrintT(<<"DONE", Len(Traces), nev>>)
    /\ tid' = tid + 1 /\ l' = 0 /\ dead' = FALSE
    /\ UNCHANGED <<vars, nev>>

TNext == Begin \/ Consume \/ EndOfRun
TSpec == TInit /\ [][TNext]_tvars
=============================================================================
