SPECIFICATION TSpec
CONSTANTS
  Scenarios = {}
  MaxTasks = 1000
  ActorCancelIsInterrupt = FALSE
  CloseOnExit = FALSE
CHECK_DEADLOCK FALSE
