SPECIFICATION Spec
CONSTANTS
  Scenarios <- QuickScn
  MaxTasks = 1
  ActorCancelIsInterrupt = TRUE
  CloseOnExit = TRUE
VIEW view
INVARIANT TypeOK
INVARIANT OnePipelineOrRefusal
INVARIANT ModeMatchesPipeline
INVARIANT TeardownIffCreated
INVARIANT VersionBeforeTrack
INVARIANT ServerlessDetected
INVARIANT ChallengeResolved
INVARIANT ResultsOnce
INVARIANT NothingStoredOnFailure
INVARIANT ResetPerTask
INVARIANT OutcomeMapping
INVARIANT Finishes
INVARIANT SuccessHasResults
INVARIANT StoreClosedIfOpened
CHECK_DEADLOCK FALSE
