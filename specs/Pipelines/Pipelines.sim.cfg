SPECIFICATION Spec
CONSTANTS
  Scenarios <- AllScn
  MaxTasks = 2
  ActorCancelIsInterrupt = FALSE
  CloseOnExit = FALSE
VIEW view
INVARIANT TypeOK
INVARIANT OnePipelineOrRefusal
INVARIANT ModeMatchesPipeline
INVARIANT TeardownIffCreated
INVARIANT VersionBeforeTrack
INVARIANT ServerlessDetected
INVARIANT ChallengeResolved
INVARIANT ResultsOnce
INVARIANT NothingStoredOnFailure
INVARIANT ResetPerTask
INVARIANT OutcomeMapping
INVARIANT Finishes
CHECK_DEADLOCK FALSE
