SPECIFICATION Spec
CONSTANTS
  Scenarios <- QuickScn
  MaxTasks = 1
  ActorCancelIsInterrupt = FALSE
  CloseOnExit = FALSE
VIEW view
INVARIANT StoreClosedIfOpened
CHECK_DEADLOCK FALSE
