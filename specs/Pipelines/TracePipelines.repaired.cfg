SPECIFICATION TSpec
CONSTANTS
  Scenarios = {}
  MaxTasks = 1000
  ActorCancelIsInterrupt = TRUE
  CloseOnExit = TRUE
CHECK_DEADLOCK FALSE
