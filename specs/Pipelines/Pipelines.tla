----------------------------- MODULE Pipelines -----------------------------
(***************************************************************************)
(* esrally/racecontrol.py without the actor message protocol proper: the   *)
(* pipeline registry, how run(cfg) picks a pipeline, what a pipeline does  *)
(* before it calls race(), what race() makes of the answer to its Setup    *)
(* request, BenchmarkCoordinator.setup and the book-keeping of the         *)
(* coordinator (race / results / metrics store), as the sequence of calls  *)
(* the code makes against its environment (one event per call):            *)
(*                                                                         *)
(*  cfgpipe(name)        cfg.add(applicationOverride, race, pipeline, name)*)
(*                       when --pipeline was not given                     *)
(*  pipeline(name)       the target of pipelines[name] is entered          *)
(*  boot(ok|exc|KI|rallyerr|sysexit; join)  actor.bootstrap_actor_system   *)
(*  create(BenchmarkActor)  actor_system.createActor                       *)
(*  ask(Setup; mode)     actor_system.ask(benchmark_actor, Setup(...))     *)
(*  info(ok|old|sls|slsop|exc)  client.factory.cluster_distribution_version*)
(*  load(ok|fail)        track.load_track(cfg, install_dependencies=True)  *)
(*  start(mode)          MechanicActor created, StartEngine sent           *)
(*  msg(M; late?)        a message of mechanic / driver is handled:        *)
(*                       EngineStarted PreparationComplete TaskFinished    *)
(*                       BenchmarkComplete EngineStopped BenchmarkFailure  *)
(*                       BenchmarkCancelled Poison                         *)
(*  ki                   KeyboardInterrupt in the main process while it    *)
(*                       waits for the answer (race() then asks            *)
(*                       BenchmarkCancelled)                               *)
(*  reply(success|failure|cancelled|poison; reason)  the benchmark actor   *)
(*                       answers its start sender                          *)
(*  tell(exit)           actor_system.tell(benchmark_actor, ActorExitReq.) *)
(*  ret(outcome)         what run(cfg) returned / raised                   *)
(*                                                                         *)
(* The orders of mechanic / driver messages offered by the environment are *)
(* the protocol-conformant ones only (specs/RaceDriver, specs/Mechanic     *)
(* cover the protocol); "late" = a BenchmarkComplete that was already on   *)
(* its way when the race failed / was cancelled and is handled before the  *)
(* ActorExitRequest.                                                       *)
(***************************************************************************)
EXTENDS Integers, Sequences, TLC

CONSTANTS Scenarios,   \* set of [pipe, dv, indocker, hosts, chal, track, tags, preset]
          MaxTasks,    \* bound on TaskFinished messages per race
          ActorCancelIsInterrupt,  \* switch, FALSE = the code as it is: a cancellation that only the actors noticed
                                   \* (BenchmarkCancelled from the driver) makes race() / run() return normally
          CloseOnExit              \* switch, FALSE = the code as it is: the coordinator's metrics store is only closed
                                   \* by a BenchmarkComplete (TRUE: also when the benchmark actor is told to exit)

VARIABLES scn, s, act
vars == <<scn, s, act>>
view == <<scn, s>>

E(a, r, x) == [a |-> a, r |-> r, x |-> x]
Internal == {"pc", "pend", "preason", "pres"}

(* ---- the registry (Pipeline(...) calls at import time, in this order) ---- *)
Registry == <<[name |-> "from-sources", stable |-> TRUE], [name |-> "from-distribution", stable |-> TRUE],
              [name |-> "benchmark-only", stable |-> TRUE], [name |-> "docker", stable |-> FALSE]>>
Known == {Registry[i].name : i \in 1..Len(Registry)}
\* available_pipelines() / list_pipelines(): the stable ones, in registration order
Listed == [i \in 1..3 |-> Registry[i].name]

(* ---- the decision table of run(cfg) ---- *)
Derived(sc) == IF sc.pipe = "" THEN (IF sc.dv THEN "from-distribution" ELSE "from-sources") ELSE sc.pipe
Decision(sc) == LET n == Derived(sc)
                IN IF sc.indocker /\ n # "benchmark-only" THEN "sse:docker-image"
                   ELSE IF n \notin Known THEN "sse:unknown" ELSE n
Mode(p) == CASE p = "from-sources" -> "sources" [] p = "from-distribution" -> "distribution"
             [] p = "benchmark-only" -> "external" [] p = "docker" -> "docker" [] OTHER -> "none"
HostsDefault(sc, p) == IF sc.hosts THEN "kept" ELSE IF p \in {"from-sources", "from-distribution"} THEN "nodeport" ELSE "9200"
NeedsInfo(sc, mode) == mode # "sources" /\ ~sc.dv
\* find_challenge_or_default on the loaded track; "none" = no challenge at all, "invalid" = InvalidName
Challenge(sc) ==
    CASE sc.chal = "default" -> (CASE sc.track = "std" -> "default" [] sc.track = "auto" -> "auto" [] OTHER -> "none")
      [] sc.chal = "named" -> (IF sc.track = "std" THEN "named" ELSE "invalid")
      [] OTHER -> "invalid"

BootKinds == {"ok", "exc", "KI", "rallyerr", "sysexit"}
InfoKinds == {"ok", "old", "sls", "slsop", "exc"}
BootRes(k) == CASE k = "exc" -> "crash" [] k = "sysexit" -> "crash" [] k = "KI" -> "ui" [] k = "rallyerr" -> "rallyerr:boot"
\* what race() / run() make of the answer
ReplyRes(rep, ki) == CASE rep = "success" -> "ret"
                       [] rep = "cancelled" -> (IF ki \/ ActorCancelIsInterrupt THEN "ui" ELSE "ret")
                       [] rep = "failure" -> "rallyerr:failure"
                       [] rep = "poison" -> "rallyerr:unexpected"

InitState(sc) ==
    [pc |-> IF sc.pipe = "" THEN "run" ELSE "decide", pend |-> "none", preason |-> "none", pres |-> "none",
     cfgpipe |-> sc.pipe, npipe |-> 0, chosen |-> "none", hostsdef |-> "none", car |-> "none",
     nboot |-> 0, bootr |-> "none", nactor |-> 0, nexit |-> 0, mode |-> "none", smode |-> "none",
     ninfo |-> 0, info |-> "none", dvcfg |-> IF sc.dv THEN "given" ELSE "none", flavor |-> "none",
     slsmode |-> IF sc.preset THEN "preset" ELSE "unset", slsop |-> IF sc.preset THEN "preset" ELSE "unset",
     nload |-> 0, chal |-> "none", ncreate |-> 0, tags |-> "none", rpipe |-> "none", nopen |-> 0,
     nmech |-> 0, nstart |-> 0, teamrev |-> FALSE, ndriver |-> 0, nprep |-> 0, rmeta |-> FALSE, store0 |-> 0, nstartb |-> 0,
     ntask |-> 0, nbulk |-> 0, nreset |-> 0, ncomplete |-> 0, cflag |-> "none", nflush |-> 0, ncalc |-> 0, storeR |-> 0,
     nresults |-> 0, nsummary |-> 0, nclose |-> 0, ndexit |-> 0, nstop |-> 0, err |-> FALSE, canc |-> FALSE,
     nreply |-> 0, reply |-> "none", reason |-> "none", ki |-> FALSE, result |-> "none"]

Init == \E sc \in Scenarios : scn = sc /\ s = InitState(sc) /\ act = E("init", "", "")

Waits == {"wait_engine", "wait_prep", "racing", "wait_stop"}
Racing(st) == st.nstartb = 1 /\ st.ncomplete = 0
Fail == {E("msg", "BenchmarkFailure", ""), E("msg", "Poison", "")}
Cancel == {E("msg", "BenchmarkCancelled", ""), E("ki", "", "")}

Enabled(st) ==
    CASE st.pc = "run" -> {E("cfgpipe", Derived(scn), "")}
      [] st.pc = "decide" -> IF Decision(scn) \in Known THEN {E("pipeline", Decision(scn), "")} ELSE {E("ret", Decision(scn), "")}
      [] st.pc = "boot" -> {E("boot", r, "join") : r \in BootKinds}
      [] st.pc = "create" -> {E("create", "ok", "BenchmarkActor")}
      [] st.pc = "ask" -> {E("ask", "Setup", Mode(st.chosen))}
      [] st.pc = "info" -> {E("info", r, "") : r \in InfoKinds}
      [] st.pc = "load" -> {E("load", r, "") : r \in {"ok", "fail"}}
      [] st.pc = "start" -> {E("start", "ok", st.mode)}
      [] st.pc = "reply" -> {E("reply", st.pend, st.preason)}
      [] st.pc = "wait_engine" -> {E("msg", "EngineStarted", ""), E("ki", "", "")} \cup Fail
      [] st.pc = "wait_prep" -> {E("msg", "PreparationComplete", "")} \cup Fail \cup Cancel
      [] st.pc = "racing" -> (IF st.ntask < MaxTasks THEN {E("msg", "TaskFinished", "")} ELSE {})
                                \cup {E("msg", "BenchmarkComplete", "")} \cup Fail \cup Cancel
      [] st.pc = "wait_stop" -> {E("msg", "EngineStopped", ""), E("ki", "", "")} \cup Fail
      [] st.pc = "late" -> (IF Racing(st) THEN {E("msg", "BenchmarkComplete", "late")} ELSE {}) \cup {E("tell", "exit", "")}
      [] st.pc = "tell" -> {E("tell", "exit", "")}
      [] st.pc = "retp" -> {E("ret", st.pres, "")}
      [] OTHER -> {}

Answer(st, rep, why) == [st EXCEPT !.pend = rep, !.preason = why, !.pc = "reply"]
\* BenchmarkCoordinator.setup after the version question is settled: what the cfg holds once the answer has been processed
\* (visible at the next call) ...
Settle(st) ==
    IF st.ninfo = 0 \/ st.info = "exc" \/ st.flavor # "none" THEN st
    ELSE IF st.info \in {"ok", "old"} THEN [st EXCEPT !.dvcfg = "derived", !.flavor = "default"]
    ELSE [st EXCEPT !.dvcfg = "serverless", !.flavor = "serverless",
                    !.slsmode = IF @ = "preset" THEN @ ELSE "T",
                    !.slsop = IF @ = "preset" THEN @ ELSE IF st.info = "slsop" THEN "T" ELSE "F"]
\* ... and challenge selection after the track is loaded; "none" = no challenge at all, "invalid" = InvalidName
AfterLoad(st) ==
    LET c == Challenge(scn)
    IN CASE c = "none" -> Answer(st, "failure", "nochallenge")
         [] c = "invalid" -> Answer(st, "failure", "unknownchallenge")
         [] OTHER -> [st EXCEPT !.pc = "start"]
\* on_benchmark_complete
Complete(st) ==
    LET clean == ~st.err /\ ~st.canc
        b == [st EXCEPT !.ncomplete = 1, !.nbulk = @ + 1, !.nflush = 1, !.nclose = 1, !.ndexit = 1, !.nstop = 1,
                        !.cflag = IF clean THEN "clean" ELSE "flagged"]
    IN IF clean THEN [b EXCEPT !.ncalc = 1, !.storeR = 1, !.nresults = 1, !.nsummary = 1] ELSE b

Eff(st, ev) ==
    LET r == ev.r
    IN CASE ev.a = "cfgpipe" -> [st EXCEPT !.cfgpipe = r, !.pc = "decide"]
         [] ev.a = "pipeline" -> [st EXCEPT !.npipe = 1, !.chosen = r, !.pc = "boot"]
         [] ev.a = "boot" ->
                (LET b == [st EXCEPT !.nboot = 1, !.bootr = r, !.hostsdef = HostsDefault(scn, st.chosen),
                                     !.car = IF st.chosen = "benchmark-only" THEN "external" ELSE "given"]
                 IN IF r = "ok" THEN [b EXCEPT !.pc = "create"] ELSE [b EXCEPT !.pres = BootRes(r), !.pc = "retp"])
         [] ev.a = "create" -> [st EXCEPT !.nactor = 1, !.pc = "ask"]
         [] ev.a = "ask" -> [st EXCEPT !.mode = ev.x, !.pc = IF NeedsInfo(scn, ev.x) THEN "info" ELSE "load"]
         [] ev.a = "info" ->
                (LET b == [st EXCEPT !.ninfo = 1, !.info = r]
                 IN CASE r = "exc" -> Answer(b, "failure", "info")
                      [] r = "old" -> Answer(b, "failure", "oldversion")
                      [] OTHER -> [b EXCEPT !.pc = "load"])
         [] ev.a = "load" -> (LET b == [Settle(st) EXCEPT !.nload = 1] IN IF r = "ok" THEN AfterLoad(b) ELSE Answer(b, "failure", "load"))
         [] ev.a = "start" -> [st EXCEPT !.chal = Challenge(scn), !.ncreate = 1, !.tags = IF scn.tags THEN "T" ELSE "F", !.rpipe = st.chosen,
                                        !.nopen = 1, !.nmech = 1, !.nstart = 1, !.smode = ev.x, !.pc = "wait_engine"]
         [] ev.a = "msg" ->
                (CASE r = "EngineStarted" -> [st EXCEPT !.teamrev = TRUE, !.ndriver = 1, !.nprep = 1, !.pc = "wait_prep"]
                   [] r = "PreparationComplete" -> [st EXCEPT !.rmeta = TRUE, !.store0 = 1, !.nstartb = 1, !.pc = "racing"]
                   [] r = "TaskFinished" -> [st EXCEPT !.ntask = @ + 1, !.nbulk = @ + 1, !.nreset = @ + 1]
                   [] r = "BenchmarkComplete" -> [Complete(st) EXCEPT !.pc = IF ev.x = "late" THEN "tell" ELSE "wait_stop"]
                   [] r = "EngineStopped" -> Answer(st, "success", "none")
                   [] r = "BenchmarkFailure" -> Answer([st EXCEPT !.err = TRUE], "failure", "forwarded")
                   [] r = "Poison" -> Answer([st EXCEPT !.err = TRUE], "poison", "forwarded")
                   [] r = "BenchmarkCancelled" -> Answer([st EXCEPT !.canc = TRUE], "cancelled", "actor"))
         [] ev.a = "ki" -> Answer([st EXCEPT !.ki = TRUE], "cancelled", "ki")
         [] ev.a = "reply" -> [Settle(st) EXCEPT !.canc = (@ \/ ev.x = "ki"), !.nreply = @ + 1, !.reply = r, !.reason = ev.x, !.pres = ReplyRes(r, st.ki), !.pc = "late"]
         [] ev.a = "tell" -> [st EXCEPT !.nexit = @ + 1, !.nclose = IF CloseOnExit /\ st.nopen = 1 /\ @ = 0 THEN 1 ELSE @, !.pc = "retp"]
         [] ev.a = "ret" -> [st EXCEPT !.result = r, !.pc = "done"]
         [] OTHER -> st

Next == \E ev \in Enabled(s) : s' = Eff(s, ev) /\ act' = ev /\ UNCHANGED scn
Spec == Init /\ [][Next]_vars

(* ---- properties (over the observable part of the state) ---- *)
Returned(st) == st.result # "none"
Modes == {"sources", "distribution", "external", "docker"}

TypeOKS(st) == /\ st.npipe \in 0..1 /\ st.nactor \in 0..1 /\ st.nexit \in 0..1 /\ st.ninfo \in 0..1 /\ st.nload \in 0..1
               /\ st.chosen \in Known \cup {"none"} /\ st.mode \in Modes \cup {"none"} /\ st.smode \in Modes \cup {"none"}
               /\ st.cflag \in {"none", "clean", "flagged"} /\ st.reply \in {"none", "success", "failure", "cancelled", "poison"}
\* run(cfg): exactly one registered pipeline is entered - the one named, or from-distribution / from-sources by the presence of
\* distribution.version, written back to the cfg - or run refuses with a SystemSetupError that names the reason
\* (unknown name / Rally Docker image and not benchmark-only) before anything is started
OnePipelineOrRefusalS(sc, st) ==
    /\ st.npipe <= 1
    /\ (st.npipe = 1 => st.chosen = Decision(sc) /\ st.chosen \in Known /\ st.cfgpipe = st.chosen)
    /\ (st.npipe = 1 /\ sc.pipe = "" => st.chosen = (IF sc.dv THEN "from-distribution" ELSE "from-sources"))
    /\ (st.npipe = 1 /\ sc.indocker => st.chosen = "benchmark-only")
    /\ (Returned(st) /\ st.npipe = 0 => st.result \in {"sse:unknown", "sse:docker-image"} /\ st.result = Decision(sc) /\ st.nboot = 0)
    /\ (Returned(st) /\ st.npipe = 1 => st.result \notin {"sse:unknown", "sse:docker-image"})
\* what a pipeline hands to race(): exactly one provisioning mode (the pipeline's), in Setup and in StartEngine; the car
\* "external" iff benchmark-only; default target host iff none configured (node.http.port for the provisioning pipelines)
ModeMatchesPipelineS(sc, st) ==
    /\ (st.mode # "none" => st.mode = Mode(st.chosen)) /\ (st.smode # "none" => st.smode = st.mode)
    /\ (st.nboot = 1 => st.car = (IF st.chosen = "benchmark-only" THEN "external" ELSE "given")
                        /\ st.hostsdef = HostsDefault(sc, st.chosen))
    /\ (st.rpipe # "none" => st.rpipe = st.chosen)
\* the benchmark actor is told to exit iff it has been created, whatever the race did (also after Ctrl-C / failure)
TeardownIffCreatedS(st) ==
    /\ st.nexit <= st.nactor /\ st.nactor <= st.nboot
    /\ (Returned(st) => st.nexit = st.nactor)
    /\ (st.nstop <= st.nstart) /\ (st.ndexit <= st.ndriver)
\* the target is asked for its version at most once, iff the pipeline does not build from sources and no distribution.version
\* was given, and before the track is loaded; a loaded track always finds a distribution.version in the cfg (or a source build)
VersionBeforeTrackS(sc, st) ==
    /\ st.ninfo <= 1 /\ (st.ninfo = 1 => NeedsInfo(sc, st.mode))
    /\ (st.nload = 1 => (st.ninfo = 1 <=> NeedsInfo(sc, st.mode)))
    /\ (st.nload = 1 => st.mode = "sources" \/ st.dvcfg # "none")
    /\ (st.nload = 1 /\ st.ninfo = 1 => st.info \in {"ok", "sls", "slsop"})
    /\ (sc.dv => st.dvcfg = "given")
\* serverless: mode / operator status are recorded iff the target says so, and never overwrite what the user configured
ServerlessDetectedS(sc, st) ==
    /\ (sc.preset => st.slsmode = "preset" /\ st.slsop = "preset")
    /\ (~sc.preset => st.slsmode \in {"unset", "T"} /\ st.slsop \in {"unset", "T", "F"})
    /\ (st.slsmode = "T" => st.info \in {"sls", "slsop"}) /\ (st.slsop = "T" => st.info = "slsop") /\ (st.slsop = "F" => st.info = "sls")
    /\ (st.flavor = "serverless" => st.info \in {"sls", "slsop"}) /\ (st.flavor = "default" => st.info \in {"ok", "old"})
    /\ (st.nload = 1 /\ st.info \in {"sls", "slsop"} =>
            /\ st.flavor = "serverless" /\ st.dvcfg = "serverless"
            /\ (~sc.preset => st.slsmode = "T" /\ st.slsop = (IF st.info = "slsop" THEN "T" ELSE "F")))
\* the engine is only started with a loaded track, a resolved challenge (default / named / auto-generated) and a created race
ChallengeResolvedS(sc, st) ==
    /\ (st.nstart = 1 => st.nload = 1 /\ st.chal = Challenge(sc) /\ st.chal \in {"default", "named", "auto"} /\ st.ncreate = 1 /\ st.nopen = 1)
    /\ (st.ncreate = 1 => st.tags = (IF sc.tags THEN "T" ELSE "F"))
    /\ (st.nmech = st.nstart) /\ (st.nprep = 1 => st.teamrev)
\* results: computed, stored in the race store, the results store and summarised exactly once, only by a BenchmarkComplete that
\* finds the race neither failed nor cancelled, and only after the initial (result-less, but with the target's flavor / version /
\* revision) race record; the metrics store is closed by every BenchmarkComplete
ResultsOnceS(st) ==
    /\ st.ncalc <= 1 /\ st.storeR <= 1 /\ st.nresults <= 1 /\ st.nsummary <= 1 /\ st.store0 <= 1 /\ st.nclose <= 1
    /\ (st.storeR = 1 => st.store0 = 1 /\ st.ncalc = 1) /\ (st.store0 = 1 => st.rmeta)
    /\ (st.cflag = "clean" => st.ncalc = 1 /\ st.storeR = 1 /\ st.nresults = 1 /\ st.nsummary = 1)
    /\ (st.cflag # "none" => st.nclose = 1) /\ (st.nclose = 1 => st.nopen = 1) /\ (st.cflag # "none" <=> st.nflush = 1) /\ (st.cflag # "none" <=> st.ncomplete = 1)
    /\ (Returned(st) /\ st.result = "ret" /\ st.reply = "success" => st.storeR = 1 /\ st.nclose = 1 /\ st.nstop = 1)
\* nothing but the initial race record is stored by a race that failed or was cancelled before it completed
NothingStoredOnFailureS(st) ==
    /\ (st.cflag # "clean" => st.ncalc = 0 /\ st.storeR = 0 /\ st.nresults = 0 /\ st.nsummary = 0)
    /\ (st.nstart = 0 => st.store0 = 0 /\ st.nclose = 0)
\* every finished task: its metrics are added and mechanic is told to reset the relative time - once each
ResetPerTaskS(st) == st.nreset = st.ntask /\ st.nbulk = st.ntask + st.ncomplete
\* exception -> outcome of run(): RallyErrors pass, KeyboardInterrupt becomes UserInterrupted, everything else a RallyError
\* ("fatal crash"); a Ctrl-C in the main process is announced to the benchmark actor before it is told to exit
OutcomeMappingS(st) ==
    /\ (Returned(st) /\ st.nreply >= 1 /\ st.reply # "cancelled" => st.result = ReplyRes(st.reply, st.ki))
    /\ (Returned(st) /\ st.reply = "cancelled" => st.result \in {"ui", "ret"})
    /\ (Returned(st) /\ st.ki => st.canc /\ st.result = "ui")
    /\ (Returned(st) /\ st.npipe = 1 /\ st.nreply = 0 => st.bootr \in BootKinds \ {"ok"} /\ st.result = BootRes(st.bootr) /\ st.nactor = 0)
    /\ (st.reply = "failure" => st.reason # "none") /\ st.nreply <= 1

\* strong forms (not met by the code as it is):
\* run(cfg) only returns normally when the race has produced (and stored) results
SuccessHasResultsS(st) == Returned(st) /\ st.result = "ret" => st.storeR = 1 /\ st.nresults = 1
\* a metrics store that the coordinator has opened is closed by the time run(cfg) is over
StoreClosedIfOpenedS(st) == Returned(st) /\ st.nopen = 1 => st.nclose = 1

TypeOK == TypeOKS(s)
SuccessHasResults == SuccessHasResultsS(s)
StoreClosedIfOpened == StoreClosedIfOpenedS(s)
OnePipelineOrRefusal == OnePipelineOrRefusalS(scn, s)
ModeMatchesPipeline == ModeMatchesPipelineS(scn, s)
TeardownIffCreated == TeardownIffCreatedS(s)
VersionBeforeTrack == VersionBeforeTrackS(scn, s)
ServerlessDetected == ServerlessDetectedS(scn, s)
ChallengeResolved == ChallengeResolvedS(scn, s)
ResultsOnce == ResultsOnceS(s)
NothingStoredOnFailure == NothingStoredOnFailureS(s)
ResetPerTask == ResetPerTaskS(s)
OutcomeMapping == OutcomeMappingS(s)
Finishes == (Enabled(s) = {}) => s.pc = "done"
=============================================================================
