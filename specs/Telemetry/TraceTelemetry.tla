-------------------------- MODULE TraceTelemetry --------------------------
(***************************************************************************)
(* Validates recorded executions of the REAL esrally.telemetry.Telemetry    *)
(* container and device classes (real SamplerThread objects stepped         *)
(* cooperatively on a virtual clock, scripted fake Elasticsearch clients, a  *)
(* real InMemoryMetricsStore; see harness/extras/telemetry.py) against      *)
(* Telemetry.tla.                                                           *)
(* Input (env VERIF_TRACES): JSON array of items                            *)
(*   [id, scn, hung, events: << [a, d, c, x, st] >>]                        *)
(*   a  : the step that was executed ("Build", "Call", "Dev", "Join", "End", *)
(*        "ThWake", "ThAnswer", "Tick"), d / c / x its arguments (device,    *)
(*        cluster, answers of the cluster),                                  *)
(*   st : the abstract state observed AFTER the step - only the variables    *)
(*        whose value changed (a missing field = unchanged).                 *)
(* For every event TLC binds the recorded post-state and evaluates          *)
(*   L1: the property formulas of Telemetry.tla on the recorded state        *)
(*       (P_... = the intended properties the code is known to violate,      *)
(*       pinned behind the named switches; reported separately),             *)
(*   L2: the recorded step IS the step of the specification (the action      *)
(*       formula with all primed variables bound is a plain boolean).        *)
(* <<"V", id, line, "L1"|"L2", clauses>> per failing event (a clause is      *)
(* reported once per item), <<"DONE", #items, #events>> at the end.          *)
(***************************************************************************)
EXTENDS Telemetry, Json, IOUtils

Traces == JsonDeserialize(IOEnv.VERIF_TRACES)
TraceVals == {0}
TraceScenarios == {}

VARIABLES tid, l, nev, failed

tvars == <<vars, tid, l, nev, failed>>

Item == Traces[tid]

NormStore(s) == [i \in 1..Len(s) |-> [s[i] EXCEPT !.md = Range(@), !.f = Range(@)]]
Has(st, f) == f \in DOMAIN st

TInit == /\ tid = 1 /\ l = 0 /\ nev = 0 /\ failed = {}
         /\ scn = [devs |-> <<>>, nc |-> 1, sls |-> "off", cmeta |-> FALSE, ne |-> 0, prog |-> <<>>]
         /\ now = 0 /\ pi = 0 /\ mpc = Ended /\ log = <<>> /\ ccalls = <<>> /\ jo = <<>> /\ store = <<>> /\ rej = 0
         /\ ds = <<>> /\ th = <<>> /\ rd = <<>>
         /\ act = [name |-> "Init", d |-> 0, c |-> 0, a |-> <<>>]

Begin ==
    /\ tid <= Len(Traces) /\ l = 0
    /\ LET s == Item.scn
       IN /\ scn' = s /\ now' = 0 /\ pi' = 0
          /\ mpc' = [at |-> "build", cb |-> "", i |-> 0, c |-> 0]
          /\ log' = <<>> /\ ccalls' = <<>> /\ jo' = <<>> /\ store' = <<>> /\ rej' = 0
          /\ ds' = [d \in 1..Len(s.devs) |-> NoDs]
          /\ th' = [d \in 1..Len(s.devs) |-> [c \in 1..s.nc |-> NoTh]]
          /\ rd' = [d \in 1..Len(s.devs) |-> <<>>]
    /\ act' = [name |-> "Init", d |-> 0, c |-> 0, a |-> <<>>]
    /\ l' = 1 /\ failed' = {}
    /\ UNCHANGED <<tid, nev>>

Bind(st) ==
    /\ scn' = scn
    /\ now' = IF Has(st, "now") THEN st.now ELSE now
    /\ mpc' = IF Has(st, "mpc") THEN st.mpc ELSE mpc
    /\ pi' = IF Has(st, "pi") THEN st.pi ELSE pi
    /\ log' = IF Has(st, "log") THEN st.log ELSE log
    /\ ccalls' = IF Has(st, "ccalls") THEN st.ccalls ELSE ccalls
    /\ jo' = IF Has(st, "jo") THEN st.jo ELSE jo
    /\ ds' = IF Has(st, "ds") THEN st.ds ELSE ds
    /\ th' = IF Has(st, "th") THEN st.th ELSE th
    /\ store' = IF Has(st, "store") THEN NormStore(st.store) ELSE store
    /\ rd' = IF Has(st, "rd") THEN st.rd ELSE rd
    /\ rej' = IF Has(st, "rej") THEN st.rej ELSE rej

Step(e) ==
    CASE e.a = "Build" -> Build
      [] e.a = "Call" -> Call
      [] e.a = "Dev" -> DevStep(e.x)
      [] e.a = "Join" -> JoinStep(e.x)
      [] e.a = "End" -> End
      [] e.a = "ThWake" -> ThWake(e.d, e.c)
      [] e.a = "ThAnswer" -> ThAnswer(e.d, e.c, e.x[1])
      [] e.a = "Tick" -> Tick
      [] OTHER -> FALSE

L1Clauses == {"TypeOK", "PhaseOrder", "OnlyEnabled", "ListOrder", "Complete", "RaisesOnlyFromDevice", "JavaOpts", "Validation",
              "ThreadPerCluster", "Spacing", "NoMissedSample", "StopSeenWithinASecond", "AtMostOneRecordAfterStop",
              "NothingAfterJoin", "JoinOnlyWhenDone", "StopJoinsAll", "EndsOnlyWhenStopped", "CrashOnlyOnError", "NodeStatsSurvivesTransportError",
              "SamplesStored", "BaseMeta", "JvmDelta", "IngestDelta", "DiskIoStored", "IndexStatsAbs", "StartupDelta",
              "IndexStatsNeverRaises"}
PinnedClauses == {"P_Isolation", "P_NoSamplerLeftBehind", "P_FirstAtStart", "P_SamplerSurvives", "P_SwallowersNeverRaise",
                  "P_NodeStatsSurvivesApiError", "P_DiskIoDelta", "P_SampleMeta", "P_IngestClusterTotal"}

Consume ==
    /\ tid <= Len(Traces) /\ l >= 1 /\ l <= Len(Item.events)
    /\ LET e == Item.events[l]
       IN /\ Bind(e.st)
          /\ act' = [name |-> e.a, d |-> e.d, c |-> e.c, a |-> e.x]
          /\ LET holds == [c \in L1Clauses \cup PinnedClauses |->
                   CASE c = "TypeOK" -> TypeOK'
                     [] c = "PhaseOrder" -> PhaseOrder'
                     [] c = "OnlyEnabled" -> OnlyEnabled'
                     [] c = "ListOrder" -> ListOrder'
                     [] c = "Complete" -> Complete'
                     [] c = "RaisesOnlyFromDevice" -> RaisesOnlyFromDevice'
                     [] c = "JavaOpts" -> JavaOpts'
                     [] c = "Validation" -> Validation'
                     [] c = "ThreadPerCluster" -> ThreadPerCluster'
                     [] c = "Spacing" -> Spacing'
                     [] c = "NoMissedSample" -> NoMissedSample'
                     [] c = "StopSeenWithinASecond" -> StopSeenWithinASecond'
                     [] c = "AtMostOneRecordAfterStop" -> AtMostOneRecordAfterStop'
                     [] c = "NothingAfterJoin" -> NothingAfterJoin'
                     [] c = "JoinOnlyWhenDone" -> JoinOnlyWhenDone'
                     [] c = "StopJoinsAll" -> StopJoinsAll'
                     [] c = "EndsOnlyWhenStopped" -> EndsOnlyWhenStopped'
                     [] c = "CrashOnlyOnError" -> CrashOnlyOnError'
                     [] c = "NodeStatsSurvivesTransportError" -> NodeStatsSurvivesTransportError'
                     [] c = "SamplesStored" -> SamplesStored'
                     [] c = "BaseMeta" -> BaseMeta'
                     [] c = "JvmDelta" -> JvmDelta'
                     [] c = "IngestDelta" -> IngestDelta'
                     [] c = "DiskIoStored" -> DiskIoStored'
                     [] c = "IndexStatsAbs" -> IndexStatsAbs'
                     [] c = "StartupDelta" -> StartupDelta'
                     [] c = "IndexStatsNeverRaises" -> IndexStatsNeverRaises'
                     [] c = "P_Isolation" -> Isolation'
                     [] c = "P_NoSamplerLeftBehind" -> NoSamplerLeftBehind'
                     [] c = "P_FirstAtStart" -> FirstAtStart'
                     [] c = "P_SamplerSurvives" -> SamplerSurvives'
                     [] c = "P_SwallowersNeverRaise" -> SwallowersNeverRaise'
                     [] c = "P_NodeStatsSurvivesApiError" -> NodeStatsSurvivesApiError'
                     [] c = "P_DiskIoDelta" -> DiskIoDelta'
                     [] c = "P_SampleMeta" -> SampleMeta'
                     [] c = "P_IngestClusterTotal" -> IngestClusterTotal']
                 l1 == {c \in L1Clauses \cup PinnedClauses : ~holds[c]} \ failed
                 l2 == Step(e)
             IN /\ IF l1 = {} THEN TRUE ELSE PrintT(<<"V", Item.id, l, "L1", l1>>)
                /\ IF l2 THEN TRUE ELSE PrintT(<<"V", Item.id, l, "L2", {e.a}>>)
                /\ failed' = failed \cup l1
    /\ l' = l + 1 /\ nev' = nev + 1
    /\ UNCHANGED tid

(* end of the run: the caller got through every finish() (no join() that never returns) *)
EndOfRun ==
    /\ tid <= Len(Traces) /\ l = Len(Item.events) + 1
    /\ IF Item.hung THEN PrintT(<<"V", Item.id, l, "L1", {"FinishTerminates"}>>) ELSE TRUE
    /\ IF tid < Len(Traces) THEN TRUE ELSE PrintT(<<"DONE", Len(Traces), nev>>)
    /\ tid' = tid + 1 /\ l' = 0
    /\ UNCHANGED <<vars, nev, failed>>

TNext == Begin \/ Consume \/ EndOfRun
TSpec == TInit /\ [][TNext]_tvars
=============================================================================
