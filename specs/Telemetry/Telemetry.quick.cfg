SPECIFICATION SpecD
CONSTANTS
  TPS = 2
  MaxTime = 4
  MaxLat = 1
  Vals <- V02
  Scenarios <- QuickScenarios
  IsolateDevices = FALSE
  RecordAtStart = FALSE
  SamplerSurvivesError = FALSE
  ApiErrorsHandled = FALSE
  DeltaNeedsStop = FALSE
  DocMetaAlways = FALSE
  IngestPerCluster = FALSE
VIEW view
INVARIANT TypeOK
INVARIANT PhaseOrder
INVARIANT OnlyEnabled
INVARIANT ListOrder
INVARIANT Complete
INVARIANT RaisesOnlyFromDevice
INVARIANT JavaOpts
INVARIANT Validation
INVARIANT ThreadPerCluster
INVARIANT Spacing
INVARIANT FirstAfterInterval
INVARIANT NoMissedSample
INVARIANT StopSeenWithinASecond
INVARIANT AtMostOneRecordAfterStop
INVARIANT NothingAfterJoin
INVARIANT JoinOnlyWhenDone
INVARIANT StopJoinsAll
INVARIANT EndsOnlyWhenStopped
INVARIANT CrashOnlyOnError
INVARIANT NodeStatsSurvivesTransportError
INVARIANT SamplesStored
INVARIANT BaseMeta
INVARIANT JvmDelta
INVARIANT IngestDelta
INVARIANT DiskIoStored
INVARIANT IndexStatsAbs
INVARIANT StartupDelta
INVARIANT IndexStatsNeverRaises
CHECK_DEADLOCK TRUE
