SPECIFICATION SpecD
CONSTANTS
  TPS = 2
  MaxTime = 2
  MaxLat = 1
  Vals <- V02
  Scenarios <- RepairedScenarios
  IsolateDevices = TRUE
  RecordAtStart = TRUE
  SamplerSurvivesError = TRUE
  ApiErrorsHandled = TRUE
  DeltaNeedsStop = TRUE
  DocMetaAlways = TRUE
  IngestPerCluster = TRUE
VIEW view
INVARIANT TypeOK
INVARIANT PhaseOrder
INVARIANT OnlyEnabled
INVARIANT ListOrder
INVARIANT Complete
INVARIANT RaisesOnlyFromDevice
INVARIANT JavaOpts
INVARIANT Validation
INVARIANT ThreadPerCluster
INVARIANT Spacing
INVARIANT FirstAtStart
INVARIANT NoMissedSample
INVARIANT StopSeenWithinASecond
INVARIANT AtMostOneRecordAfterStop
INVARIANT NothingAfterJoin
INVARIANT JoinOnlyWhenDone
INVARIANT StopJoinsAll
INVARIANT EndsOnlyWhenStopped
INVARIANT CrashOnlyOnError
INVARIANT NodeStatsSurvivesTransportError
INVARIANT SamplesStored
INVARIANT BaseMeta
INVARIANT JvmDelta
INVARIANT IngestDelta
INVARIANT DiskIoDelta
INVARIANT IndexStatsAbs
INVARIANT StartupDelta
INVARIANT IndexStatsNeverRaises
INVARIANT Isolation
INVARIANT SamplerSurvives
INVARIANT SwallowersNeverRaise
INVARIANT NodeStatsSurvivesApiError
INVARIANT SampleMeta
INVARIANT IngestClusterTotal
CHECK_DEADLOCK TRUE
