---------------------------- MODULE MC_Telemetry ----------------------------
EXTENDS Telemetry

D(kind, en, iv, idx, incl) == [kind |-> kind, en |-> en, iv |-> iv, idx |-> idx, incl |-> incl]
S(devs, nc, sls, cmeta, ne, prog) == [devs |-> devs, nc |-> nc, sls |-> sls, cmeta |-> cmeta, ne |-> ne, prog |-> prog]
I(kind) == D(kind, TRUE, 1, "none", FALSE)      \* a device without parameters

Bench == <<"bstart", "bstop">>
NodeLife == <<"jopts", "pre", "attach", "detachR", "detachS", "store">>

RECURSIVE SubSeqs(_)
SubSeqs(s) == IF s = <<>> THEN {<<>>}
              ELSE LET r == SubSeqs(Tail(s)) IN r \cup {<<Head(s)>> \o x : x \in r}

(* ---- quick: hand-picked small scenarios, exhaustive ---- *)
\* a sampler whose errors end it + a swallowing delta device, one cluster
Q1 == S(<<D("ccr", TRUE, 2, "none", FALSE), I("jvm")>>, 1, "off", TRUE, 1, Bench)
\* node-stats on two clusters (info() may fail), empty cluster meta info
Q2 == S(<<D("nodestats", TRUE, 2, "none", TRUE)>>, 2, "off", FALSE, 1, Bench)
\* a device that raises in front of a sampler, and behind it
Q3 == S(<<I("ingest"), D("recovery", TRUE, 3, "none", FALSE)>>, 1, "off", TRUE, 2, Bench)
Q4 == S(<<D("recovery", TRUE, 1, "c2", FALSE), I("ingest")>>, 2, "off", FALSE, 2, Bench)
\* transform: record_final after join, two clusters
Q5 == S(<<D("transform", TRUE, 3, "none", FALSE), I("indexstats")>>, 2, "off", TRUE, 1, Bench)
\* stop without start
Q6 == S(<<D("ccr", TRUE, 1, "none", FALSE), I("jvm"), I("ingest"), I("indexstats")>>, 1, "off", TRUE, 1, <<"bstop">>)
\* rejected parameters: by the constructor (even of a device that is not enabled), lazily by node-stats
Q7 == S(<<I("jvm"), D("ccr", FALSE, 0, "none", FALSE)>>, 1, "off", TRUE, 1, Bench)
Q8 == S(<<D("recovery", TRUE, 1, "bad", FALSE)>>, 1, "off", TRUE, 1, Bench)
Q9 == S(<<D("nodestats", TRUE, 0, "none", FALSE), D("ccr", TRUE, 3, "none", FALSE)>>, 1, "off", TRUE, 1, Bench)
\* enabled / not enabled / serverless
Q10 == S(<<D("ccr", FALSE, 1, "none", FALSE), I("indexstats"), D("recovery", TRUE, 2, "none", FALSE)>>, 1, "off", TRUE, 1, Bench)
Q11 == S(<<D("ccr", TRUE, 1, "none", FALSE), D("transform", TRUE, 2, "none", FALSE), I("jvm")>>, 1, "user", TRUE, 1, Bench)
Q12 == S(<<D("ccr", TRUE, 1, "none", FALSE), D("transform", TRUE, 2, "none", FALSE), I("jvm")>>, 1, "operator", TRUE, 1, Bench)
\* node level devices under every caller that respects the order of the life cycle
QNode == { S(<<D("gc", TRUE, 1, "none", FALSE), I("diskio"), D("gc", FALSE, 1, "none", FALSE), I("startup"), D("gc", TRUE, 1, "none", FALSE)>>,
             1, "off", TRUE, 1, p) : p \in SubSeqs(NodeLife) }
QuickScenarios == {Q1, Q2, Q3, Q4, Q5, Q6, Q7, Q8, Q9, Q10, Q11, Q12}

(* ---- thorough ---- *)
SamplerDevs == {D(k, TRUE, iv, "none", k = "nodestats") : k \in {"ccr", "nodestats", "transform"}, iv \in {1, 3}}
OtherDevs == {I("jvm"), I("ingest"), I("indexstats")}
Slow == {d \in SamplerDevs : d.iv = 3}
Pairs == (SamplerDevs \X OtherDevs) \cup (OtherDevs \X SamplerDevs) \cup (OtherDevs \X OtherDevs) \cup (Slow \X Slow)
ThoroughScenarios ==
    QuickScenarios
    \cup {S(<<ab[1], ab[2]>>, 1, "off", cm, 1, p) : ab \in Pairs, cm \in BOOLEAN, p \in {Bench, <<"bstop">>}}
    \cup {S(<<a>>, 2, "off", TRUE, ne, Bench) : a \in Slow \cup {I("ingest"), D("recovery", TRUE, 2, "c2", FALSE)}, ne \in {0, 2}}

(* ---- self-tests of the named switches: small ---- *)
SelfTestScenarios ==
    { S(<<I("ingest"), D("ccr", TRUE, 1, "none", FALSE), I("jvm")>>, 2, "off", FALSE, 1, Bench),
      S(<<D("nodestats", TRUE, 2, "none", FALSE)>>, 1, "off", TRUE, 1, Bench),
      S(<<I("diskio")>>, 1, "off", TRUE, 1, <<"attach", "store">>) }

RepairedScenarios ==
    { S(<<I("ingest"), D("ccr", TRUE, 2, "none", FALSE), I("jvm")>>, 1, "off", FALSE, 1, Bench),
      S(<<D("nodestats", TRUE, 2, "none", FALSE), I("indexstats")>>, 1, "off", TRUE, 1, Bench),
      S(<<D("transform", TRUE, 2, "none", FALSE)>>, 1, "off", TRUE, 1, Bench),
      S(<<I("ingest")>>, 2, "off", TRUE, 1, Bench),
      S(<<I("diskio"), I("startup")>>, 1, "off", TRUE, 1, <<"attach", "store">>),
      S(<<I("diskio"), I("startup")>>, 1, "off", TRUE, 1, <<"pre", "attach", "detachR", "store">>) }

(* simulation without failing stats calls: long sampler runs *)
OkOnly == \A i \in 1..Len(act'.a) : act'.a[i] >= 0

V012 == {0, 1, 2}
V02 == {0, 2}
=============================================================================
