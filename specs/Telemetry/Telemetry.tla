----------------------------- MODULE Telemetry -----------------------------
(***************************************************************************)
(* Life cycle of Rally's telemetry devices (esrally/telemetry.py):          *)
(*   - the container `Telemetry` that forwards the eight life-cycle         *)
(*     callbacks to its enabled devices in list order,                      *)
(*   - the periodic samplers (SamplerThread + recorder: ccr-stats,          *)
(*     recovery-stats, node-stats, transform-stats),                        *)
(*   - the start/stop devices that read a value at one callback and store   *)
(*     something derived from it at a later one (JvmStatsSummary,           *)
(*     IngestPipelineStats, IndexStats, DiskIo, StartupTime) and one device *)
(*     that only contributes JVM options (Gc).                              *)
(*                                                                         *)
(* Actors: the caller of the container ("main": one thread that walks the   *)
(* life cycle), one thread per started sampler, the cluster that answers    *)
(* every stats call with a value, a connection error (TErr) or an HTTP      *)
(* error status (AErr), and a clock in ticks (TPS ticks per second).        *)
(*                                                                         *)
(* One step of an actor = the code it executes between two points where it  *)
(* blocks (sleep, request in flight, join) - exactly the granularity in     *)
(* which harness/extras/telemetry.py steps the real threads.                *)
(*                                                                         *)
(* Named switches, FALSE = the code as it is, TRUE = the repaired /          *)
(* intended behaviour (each has a pinned self-test cfg):                    *)
(*   IsolateDevices       an exception in one device's callback does not    *)
(*                        keep the remaining devices from being called      *)
(*   RecordAtStart        a sampler takes its first sample when it starts   *)
(*                        (code: one full interval later)                   *)
(*   SamplerSurvivesError a failed record() does not end the sampler        *)
(*   ApiErrorsHandled     `except elasticsearch.TransportError` also covers *)
(*                        HTTP error statuses (elasticsearch.ApiError is    *)
(*                        not a TransportError since client 8.x)            *)
(*   DeltaNeedsStop       DiskIo stores a difference only if the second     *)
(*                        read took place (code: stores the start counter)  *)
(*   DocMetaAlways        put_doc merges the caller's meta_data also when   *)
(*                        the cluster meta info is empty (see EsStore.tla)  *)
(*   IngestPerCluster     ingest_pipeline_cluster_* is per cluster (code:   *)
(*                        running total over the clusters seen so far)      *)
(***************************************************************************)
EXTENDS Naturals, Integers, Sequences, FiniteSets, TLC

CONSTANTS TPS,        \* ticks per second (the sampler checks its stop flag at least once per second)
          MaxTime,    \* the caller's clock bound (ticks); time goes on beyond it only to let a pending finish() end
          MaxLat,     \* a stats request is answered at most MaxLat ticks after it was sent
          Vals,       \* values a successful read of a counter may return (naturals)
          Scenarios,  \* set of [devs, nc, sls, cmeta, ne, prog]
          IsolateDevices, RecordAtStart, SamplerSurvivesError, ApiErrorsHandled, DeltaNeedsStop, DocMetaAlways, IngestPerCluster

VARIABLES scn,     \* the scenario (constant during a behaviour)
          now,     \* clock (ticks)
          mpc,     \* main: [at, cb, i, c]  at: "build" | "idle" | "dev" (about to call cb on device i) | "join" (in on_benchmark_stop of
                   \*       device i, blocked in join() of its c-th sampler) | "end"
          pi,      \* number of container calls of scn.prog issued so far
          log,     \* history: device callbacks that have returned / raised  <<[k, cb, d, out]>>   k = number of the container call
          ccalls,  \* history: container calls that have returned / raised   <<[cb, out, d]>>
          jo,      \* devices whose options instrument_candidate_java_opts has collected (in order)
          ds,      \* per device: [sam, v0, fin, t0, t1]
          th,      \* per device and cluster: sampler thread [pc, wake, left, stop, calls, ans, aft, t0, tflag, tjoin, crashed]
          store,   \* the documents in the metrics store <<[d, c, name, el, v, t, lvl, md, f]>>
          rd,      \* history per device: the answers its callbacks got <<[cb, a]>>
          rej,     \* 0 or the device whose constructor rejected its parameters
          act      \* last action (schedule extraction; hidden by VIEW)

vars == <<scn, now, mpc, pi, log, ccalls, jo, ds, th, store, rd, rej, act>>
view == <<scn, now, mpc, pi, log, ccalls, jo, ds, th, store, rd, rej>>

TErr == -1          \* elastic_transport.TransportError (connection error, timeout)
AErr == -2          \* elasticsearch.ApiError (HTTP status 4xx / 5xx)
Answers == Vals \cup {TErr, AErr}
SamplerAnswers == {0, TErr, AErr}

Min(a, b) == IF a <= b THEN a ELSE b
Max(a, b) == IF a >= b THEN a ELSE b
Range(s) == {s[i] : i \in 1..Len(s)}
Last(s) == s[Len(s)]

CB == <<"jopts", "pre", "attach", "bstart", "bstop", "detachR", "detachS", "store">>
CbIx(cb) == CHOOSE i \in 1..Len(CB) : CB[i] = cb

SamplerKinds == {"ccr", "recovery", "nodestats", "transform"}
InternalKinds == {"jvm", "ingest", "indexstats", "diskio", "startup"}
Kinds == SamplerKinds \cup InternalKinds \cup {"gc"}
(* serverless.Status: Blocked = 0, Internal = 1, Public = 2 *)
Status(k) == CASE k = "ccr" -> 0 [] k = "transform" -> 2 [] OTHER -> 1

N == Len(scn.devs)
DV(d) == scn.devs[d]
Clusters == 1..scn.nc
CName(c) == IF c = 1 THEN "default" ELSE "c2"

(***************************************************************************)
(* Telemetry._enabled / _available_on_serverless                           *)
(***************************************************************************)
Enabled(dv) == dv.kind \in InternalKinds \/ dv.en
Avail(dv) == \/ scn.sls = "off"
             \/ scn.sls = "operator" /\ Status(dv.kind) >= 1
             \/ scn.sls = "user" /\ Status(dv.kind) = 2
Receives(dv, cb) == Enabled(dv) /\ (cb \in {"bstart", "bstop"} => Avail(dv))
Receivers(cb) == {d \in 1..N : Receives(DV(d), cb)}
NextDev(cb, i) == LET s == {j \in Receivers(cb) : j >= i}
                  IN IF s = {} THEN N + 1 ELSE CHOOSE j \in s : \A j2 \in s : j <= j2

(***************************************************************************)
(* parameters: validated by the constructor (ccr, recovery, transform) or   *)
(* only when the recorder is created in on_benchmark_start (node-stats)     *)
(***************************************************************************)
BadParams(dv) == dv.iv <= 0 \/ dv.idx = "bad"
CtorRejects(dv) == dv.kind \in {"ccr", "recovery", "transform"} /\ BadParams(dv)
LazyRejects(dv) == dv.kind = "nodestats" /\ BadParams(dv)
(* `...-indices` / `...-transforms` name the clusters to sample; default: every cluster of --target-hosts *)
SpecC(dv) == IF dv.kind # "nodestats" /\ dv.idx = "c1" THEN <<1>>
             ELSE IF dv.kind # "nodestats" /\ dv.idx = "c2" THEN <<2>>
             ELSE [c \in 1..scn.nc |-> c]

(***************************************************************************)
(* which errors the code catches                                           *)
(***************************************************************************)
Swallows(kind, site, x) ==
    \/ kind = "indexstats"                                                         \* except BaseException
    \/ kind = "diskio" /\ site = "detach"                                          \* except BaseException
    \/ kind \in {"jvm", "nodestats"} /\ site \in {"read", "record"} /\ (x = TErr \/ ApiErrorsHandled)

(***************************************************************************)
(* documents                                                               *)
(***************************************************************************)
Base == IF scn.cmeta THEN {"tag_x=1"} ELSE {}
DocMeta(own) == IF DocMetaAlways \/ Base # {} THEN Base \cup own ELSE {}     \* put_doc: `if meta and meta_data: meta.update(..)`
ValMeta(own) == Base \cup own                                                 \* put_value_*: always merged
Doc(d, c, name, el, v, lvl, md, f) == [d |-> d, c |-> c, name |-> name, el |-> el, v |-> v, t |-> now, lvl |-> lvl, md |-> md, f |-> f]

Prefix(s, n) == SubSeq(s, 1, Min(n, Len(s)))
NodeNames == <<"n1", "n2">>
IndexNames == <<"i1", "i2">>
TransformNames == <<"t1", "t2">>
Filtered(dv) == dv.kind # "nodestats" /\ dv.idx \in {"c1", "c2"}
ElNames(kind) == CASE kind = "nodestats" -> NodeNames [] kind = "transform" -> TransformNames [] OTHER -> IndexNames
Els(dv) == LET all == Prefix(ElNames(dv.kind), scn.ne)
           IN IF Filtered(dv) THEN SelectSeq(all, LAMBDA x : x \in {"i1", "t1"}) ELSE all
(* the delta devices always see at least one node *)
DNodes == Prefix(NodeNames, Max(scn.ne, 1))

NodeFieldsBase == {"thread_pool_write_queue", "breakers_parent_tripped", "jvm_buffer_pools_direct_count",
                   "jvm_mem_heap_used_in_bytes", "jvm_mem_pools_young_peak_used_in_bytes", "os_mem_free_in_bytes",
                   "jvm_gc_collectors_young_collection_count", "jvm_gc_collectors_young_collection_time_in_millis",
                   "transport_rx_count", "process_cpu_percent", "indexing_pressure_memory_total_all_in_bytes"}
NodeFieldsIndices == {"indices_docs_count", "indices_store_size_in_bytes", "indices_merges_total_time_in_millis"}
NodeFields(dv) == NodeFieldsBase \cup (IF dv.incl THEN NodeFieldsIndices ELSE {})
TransformTracked == <<"transform_pages_processed", "transform_documents_processed", "transform_throughput">>

TransformDocs(d, c, els, v, pre) ==
    [i \in 1..(3 * Len(els)) |->
        LET el == els[((i - 1) \div 3) + 1]
        IN Doc(d, c, pre \o TransformTracked[((i - 1) % 3) + 1], el, v, "cluster", ValMeta({"transform_id=" \o el}), {})]

(* what one successful record() of the sampler (d, c) stores; v = number of the request *)
SampleDocs(d, c, v) ==
    LET dv == DV(d)
        els == Els(dv)
        cm == "cluster=" \o CName(c)
    IN CASE dv.kind = "ccr" ->
              [i \in 1..Len(els) |-> Doc(d, c, "ccr-stats", els[i], v, "cluster", DocMeta({cm, "index=" \o els[i]}), {})]
         [] dv.kind = "recovery" ->
              [i \in 1..Len(els) |-> Doc(d, c, "recovery-stats", els[i], v, "cluster", DocMeta({cm, "index=" \o els[i], "shard=0"}), {})]
         [] dv.kind = "nodestats" ->
              [i \in 1..Len(els) |-> Doc(d, c, "node-stats", els[i], v, "node",
                                         DocMeta({cm, "node_name=" \o els[i], "roles=data"}), NodeFields(dv))]
         [] dv.kind = "transform" -> TransformDocs(d, c, els, v, "")

(***************************************************************************)
(* device and thread state                                                 *)
(***************************************************************************)
NoDs == [sam |-> <<>>, v0 |-> <<>>, fin |-> FALSE, t0 |-> -1, t1 |-> -1]
NoTh == [pc |-> "none", wake |-> 0, left |-> 0, stop |-> FALSE, calls |-> <<>>, ans |-> <<>>, aft |-> 0,
         t0 |-> -1, tflag |-> -1, tjoin |-> -1, crashed |-> FALSE]
NewTh(iv) == [NoTh EXCEPT !.pc = "sleep", !.wake = now, !.left = IF RecordAtStart THEN 0 ELSE iv, !.t0 = now]
Idle == [at |-> "idle", cb |-> "", i |-> 0, c |-> 0]
Ended == [at |-> "end", cb |-> "", i |-> 0, c |-> 0]

(* the end of the sampler loop body: `if self.stop: break`, else sleep min(sleep_left, 1 s) *)
AfterCheck(t, left) ==
    IF t.stop THEN [t EXCEPT !.pc = "done", !.wake = 0, !.left = 0]
    ELSE LET ch == Min(left, TPS) IN [t EXCEPT !.pc = "sleep", !.wake = now + ch, !.left = left - ch]

Flag(t) == [t EXCEPT !.stop = TRUE, !.tflag = IF @ < 0 THEN now ELSE @]

(***************************************************************************)
(* the effect of ONE device callback, executed by main, given the answers a *)
(* that its stats calls get.  good = a is exactly the sequence of answers    *)
(* the callback consumes.                                                   *)
(***************************************************************************)
R0(d) == [good |-> TRUE, out |-> "ok", nds |-> ds[d], nth |-> th[d], docs |-> <<>>, jo |-> <<>>]
One(a) == Len(a) = 1
(* a device that asks every cluster in turn and gives up at the first failure *)
PerCluster(a) == /\ Len(a) \in 1..scn.nc
                 /\ \A i \in 1..(Len(a) - 1) : a[i] >= 0
                 /\ (Len(a) = scn.nc \/ Last(a) < 0)

RECURSIVE SumTo(_, _)
SumTo(f, n) == IF n = 0 THEN 0 ELSE f[n] + SumTo(f, n - 1)

IngestDocs(d, a) ==
    LET nn == Len(DNodes)
        per == nn + 1
        delta == [c \in 1..scn.nc |-> a[c] - ds[d].v0[c]]
        tot == [c \in 1..scn.nc |-> nn * delta[c]]
    IN [i \in 1..(scn.nc * per) |->
          LET c == ((i - 1) \div per) + 1
              j == ((i - 1) % per) + 1
              md == ValMeta({"cluster_name=es-" \o CName(c)})
          IN IF j <= nn THEN Doc(d, c, "ingest_pipeline_node_count", DNodes[j], delta[c], "node", md, {})
             ELSE Doc(d, c, "ingest_pipeline_cluster_count", "", IF IngestPerCluster THEN tot[c] ELSE SumTo(tot, c), "cluster", md, {})]

JvmDocs(d, x) ==
    LET nn == Len(DNodes)
        delta == Max(x - ds[d].v0[1], 0)
    IN [i \in 1..(nn + 1) |->
          IF i <= nn THEN Doc(d, 0, "node_young_gen_gc_time", DNodes[i], delta, "node", ValMeta({}), {})
          ELSE Doc(d, 0, "node_total_young_gen_gc_time", "", nn * delta, "cluster", ValMeta({}), {})]

Eff(d, cb, a) ==
    LET dv == DV(d)
        k == dv.kind
        s == ds[d]
        r == R0(d)
        nop == [r EXCEPT !.good = (a = <<>>)]
    IN CASE k = "gc" /\ cb = "jopts" -> [nop EXCEPT !.jo = <<d>>]
         [] k = "startup" /\ cb = "pre" -> [nop EXCEPT !.nds.t0 = now]
         [] k = "startup" /\ cb = "attach" -> [nop EXCEPT !.nds.t1 = now]
         [] k = "startup" /\ cb = "store" ->
              IF s.t0 >= 0 /\ s.t1 >= 0
              THEN [nop EXCEPT !.docs = <<Doc(d, 0, "node_startup_time", "n1", s.t1 - s.t0, "node", ValMeta({}), {})>>]
              ELSE [nop EXCEPT !.out = "raise"]                                  \* StopWatch: RuntimeError
         [] k = "diskio" /\ cb = "attach" ->
              IF ~One(a) THEN [r EXCEPT !.good = FALSE]
              ELSE IF a[1] >= 0 THEN [r EXCEPT !.nds.v0 = <<a[1]>>] ELSE [r EXCEPT !.out = "raise"]   \* not inside the try block
         [] k = "diskio" /\ cb = "detachR" ->
              IF ~One(a) THEN [r EXCEPT !.good = FALSE]
              ELSE IF a[1] >= 0 /\ s.v0 # <<>> THEN [r EXCEPT !.nds.v0 = <<a[1] - s.v0[1]>>, !.nds.fin = TRUE]
              ELSE [r EXCEPT !.nds.v0 = <<>>, !.nds.fin = FALSE]                 \* counters reset to None
         [] k = "diskio" /\ cb = "store" ->
              IF s.v0 # <<>> /\ (s.fin \/ ~DeltaNeedsStop)
              THEN [nop EXCEPT !.docs = <<Doc(d, 0, "disk_io_write_bytes", "n1", s.v0[1], "node", ValMeta({}), {}),
                                          Doc(d, 0, "disk_io_read_bytes", "n1", s.v0[1], "node", ValMeta({}), {})>>]
              ELSE nop
         [] k = "jvm" /\ cb = "bstart" ->
              IF ~One(a) THEN [r EXCEPT !.good = FALSE]
              ELSE IF a[1] >= 0 THEN [r EXCEPT !.nds.v0 = <<a[1]>>]
              ELSE IF Swallows(k, "read", a[1]) THEN [r EXCEPT !.nds.v0 = <<>>]
              ELSE [r EXCEPT !.out = "raise"]
         [] k = "jvm" /\ cb = "bstop" ->
              IF ~One(a) THEN [r EXCEPT !.good = FALSE]
              ELSE IF a[1] >= 0 THEN [r EXCEPT !.nds.v0 = <<>>, !.docs = IF s.v0 # <<>> THEN JvmDocs(d, a[1]) ELSE <<>>]
              ELSE IF Swallows(k, "read", a[1]) THEN [r EXCEPT !.nds.v0 = <<>>]
              ELSE [r EXCEPT !.out = "raise"]
         [] k = "ingest" /\ cb = "bstart" ->
              IF ~PerCluster(a) THEN [r EXCEPT !.good = FALSE]
              ELSE IF Last(a) < 0 THEN [r EXCEPT !.out = "raise"] ELSE [r EXCEPT !.nds.v0 = a]
         [] k = "ingest" /\ cb = "bstop" ->
              IF ~PerCluster(a) THEN [r EXCEPT !.good = FALSE]
              ELSE IF Last(a) < 0 THEN [r EXCEPT !.out = "raise"]
              ELSE [r EXCEPT !.docs = IF s.v0 # <<>> THEN IngestDocs(d, a) ELSE <<>>]
         [] k = "indexstats" /\ cb = "bstart" -> [r EXCEPT !.good = One(a)]
         [] k = "indexstats" /\ cb = "bstop" ->
              IF ~One(a) THEN [r EXCEPT !.good = FALSE]
              ELSE IF a[1] >= 0
              THEN [r EXCEPT !.docs = <<Doc(d, 0, "segments_count", "", a[1], "cluster", ValMeta({}), {}),
                                        Doc(d, 0, "merges_total_time", "", a[1], "cluster", DocMeta({}), {})>>]
              ELSE r
         [] k \in SamplerKinds /\ cb = "bstart" ->
              LET started == [r EXCEPT !.nds.sam = s.sam \o SpecC(dv),
                                       !.nth = [c \in Clusters |-> IF c \in Range(SpecC(dv)) THEN NewTh(dv.iv) ELSE th[d][c]]]
              IN IF k = "nodestats"
                 THEN IF ~One(a) \/ a[1] \notin SamplerAnswers THEN [r EXCEPT !.good = FALSE]
                      ELSE IF a[1] < 0 \/ LazyRejects(dv) THEN [r EXCEPT !.out = "raise"]   \* client.info() has no handler
                      ELSE started
                 ELSE [started EXCEPT !.good = (a = <<>>)]
         [] k \in SamplerKinds /\ cb = "bstop" ->
              IF s.sam = <<>> THEN nop
              ELSE [nop EXCEPT !.out = "join", !.nth = [th[d] EXCEPT ![s.sam[1]] = Flag(@)]]
         [] OTHER -> nop                                                          \* TelemetryDevice: pass

(***************************************************************************)
(* main                                                                    *)
(***************************************************************************)
AfterDev(d, out) ==
    /\ log' = Append(log, [k |-> Len(ccalls) + 1, cb |-> mpc.cb, d |-> d, out |-> out])
    /\ IF out = "raise" /\ ~IsolateDevices
       THEN /\ ccalls' = Append(ccalls, [cb |-> mpc.cb, out |-> "raise", d |-> d])
            /\ mpc' = Idle
       ELSE LET j == NextDev(mpc.cb, d + 1)
            IN IF j <= N
               THEN mpc' = [mpc EXCEPT !.at = "dev", !.i = j, !.c = 0] /\ ccalls' = ccalls
               ELSE mpc' = Idle /\ ccalls' = Append(ccalls, [cb |-> mpc.cb, out |-> "ok", d |-> 0])

Build ==
    /\ mpc.at = "build"
    /\ LET bad == {d \in 1..N : CtorRejects(DV(d))}
       IN IF bad = {} THEN rej' = 0 /\ mpc' = Idle
          ELSE rej' = (CHOOSE d \in bad : \A d2 \in bad : d <= d2) /\ mpc' = Ended
    /\ act' = [name |-> "Build", d |-> 0, c |-> 0, a |-> <<>>]
    /\ UNCHANGED <<scn, now, pi, log, ccalls, jo, ds, th, store, rd>>

Call ==
    /\ mpc.at = "idle" /\ pi < Len(scn.prog)
    /\ LET cb == scn.prog[pi + 1]
           j == NextDev(cb, 1)
       IN /\ IF j <= N THEN mpc' = [at |-> "dev", cb |-> cb, i |-> j, c |-> 0] /\ ccalls' = ccalls
             ELSE mpc' = Idle /\ ccalls' = Append(ccalls, [cb |-> cb, out |-> "ok", d |-> 0])
          /\ jo' = IF cb = "jopts" THEN <<>> ELSE jo
    /\ pi' = pi + 1
    /\ act' = [name |-> "Call", d |-> 0, c |-> 0, a |-> <<>>]
    /\ UNCHANGED <<scn, now, log, ds, th, store, rd, rej>>

DevStep(a) ==
    /\ mpc.at = "dev"
    /\ LET d == mpc.i
           r == Eff(d, mpc.cb, a)
       IN /\ r.good
          /\ ds' = [ds EXCEPT ![d] = r.nds]
          /\ th' = [th EXCEPT ![d] = r.nth]
          /\ store' = store \o r.docs
          /\ jo' = jo \o r.jo
          /\ rd' = IF a = <<>> THEN rd ELSE [rd EXCEPT ![d] = Append(@, [cb |-> mpc.cb, a |-> a])]
          /\ IF r.out = "join"
             THEN mpc' = [mpc EXCEPT !.at = "join", !.c = 1] /\ UNCHANGED <<log, ccalls>>
             ELSE AfterDev(d, r.out)
          /\ act' = [name |-> "Dev", d |-> d, c |-> 0, a |-> a]
    /\ UNCHANGED <<scn, now, pi, rej>>

(* join() of the sampler returns; TransformStats then calls record_final(); then the next sampler is told to finish *)
JoinStep(a) ==
    /\ mpc.at = "join"
    /\ LET d == mpc.i
           sam == ds[d].sam
           c == sam[mpc.c]
           isT == DV(d).kind = "transform"
           raised == isT /\ a[1] < 0
           more == mpc.c < Len(sam) /\ ~raised
           row1 == [th[d] EXCEPT ![c].tjoin = now]
       IN /\ th[d][c].pc = "done"
          /\ IF isT THEN One(a) /\ a[1] \in SamplerAnswers ELSE a = <<>>
          /\ th' = [th EXCEPT ![d] = IF more THEN [row1 EXCEPT ![sam[mpc.c + 1]] = Flag(@)] ELSE row1]
          /\ store' = IF isT /\ ~raised THEN store \o TransformDocs(d, c, Els(DV(d)), 0, "total_") ELSE store
          /\ rd' = IF a = <<>> THEN rd ELSE [rd EXCEPT ![d] = Append(@, [cb |-> "final", a |-> a])]
          /\ IF more THEN mpc' = [mpc EXCEPT !.c = @ + 1] /\ UNCHANGED <<log, ccalls>>
             ELSE AfterDev(d, IF raised THEN "raise" ELSE "ok")
          /\ act' = [name |-> "Join", d |-> d, c |-> c, a |-> a]
    /\ UNCHANGED <<scn, now, pi, jo, ds, rej>>

(* the caller gives up after a container call has raised *)
End ==
    /\ mpc.at = "idle"
    /\ pi < Len(scn.prog) /\ ccalls # <<>> /\ Last(ccalls).out = "raise"
    /\ mpc' = Ended
    /\ act' = [name |-> "End", d |-> 0, c |-> 0, a |-> <<>>]
    /\ UNCHANGED <<scn, now, pi, log, ccalls, jo, ds, th, store, rd, rej>>

(***************************************************************************)
(* sampler threads (Sampler.run)                                           *)
(***************************************************************************)
ThWake(d, c) ==
    /\ th[d][c].pc = "sleep" /\ th[d][c].wake <= now
    /\ LET t == th[d][c]
       IN th' = [th EXCEPT ![d][c] =
                    IF t.left <= 0
                    THEN [t EXCEPT !.pc = "rec", !.wake = 0, !.left = 0, !.calls = Append(@, now), !.aft = @ + (IF t.stop THEN 1 ELSE 0)]
                    ELSE AfterCheck(t, t.left)]
    /\ act' = [name |-> "ThWake", d |-> d, c |-> c, a |-> <<>>]
    /\ UNCHANGED <<scn, now, mpc, pi, log, ccalls, jo, ds, store, rd, rej>>

ThAnswer(d, c, x) ==
    /\ th[d][c].pc = "rec"
    /\ LET t == th[d][c]
           kind == DV(d).kind
           t1 == [t EXCEPT !.ans = Append(@, [a |-> x, t |-> now])]
           dies == x < 0 /\ ~Swallows(kind, "record", x) /\ ~SamplerSurvivesError
       IN IF dies
          THEN /\ th' = [th EXCEPT ![d][c] = [t1 EXCEPT !.pc = "done", !.crashed = TRUE]]
               /\ store' = store
          ELSE /\ th' = [th EXCEPT ![d][c] = AfterCheck(t1, DV(d).iv)]
               /\ store' = IF x >= 0 THEN store \o SampleDocs(d, c, Len(t.calls)) ELSE store
    /\ act' = [name |-> "ThAnswer", d |-> d, c |-> c, a |-> <<x>>]
    /\ UNCHANGED <<scn, now, mpc, pi, log, ccalls, jo, ds, rd, rej>>

Threads == {dc \in (1..N) \X Clusters : th[dc[1]][dc[2]].pc \notin {"none", "done"}}
Pending == {dc \in Threads : th[dc[1]][dc[2]].stop}

(* time passes when no thread is due; a request is not left unanswered for more than MaxLat ticks *)
Tick ==
    /\ mpc.at # "build"                  \* the clock (and the metrics store's relative time) starts when the devices are built
    /\ \A dc \in Threads : LET t == th[dc[1]][dc[2]]
                           IN /\ t.pc = "sleep" => t.wake > now
                              /\ t.pc = "rec" => now - Last(t.calls) < MaxLat
    /\ now < MaxTime \/ Pending # {}
    /\ now' = now + 1
    /\ act' = [name |-> "Tick", d |-> 0, c |-> 0, a |-> <<>>]
    /\ UNCHANGED <<scn, mpc, pi, log, ccalls, jo, ds, th, store, rd, rej>>

AnswerSeqs == {<<>>} \cup {<<x>> : x \in Answers} \cup {<<x, y>> : x \in Vals, y \in Answers}

Next ==
    \/ Build \/ Call \/ End \/ Tick
    \/ \E a \in AnswerSeqs : DevStep(a) \/ JoinStep(a)
    \/ \E d \in 1..N, c \in Clusters : ThWake(d, c) \/ \E x \in SamplerAnswers : ThAnswer(d, c, x)

InitFor(s) ==
    /\ scn = s /\ now = 0 /\ pi = 0
    /\ mpc = [at |-> "build", cb |-> "", i |-> 0, c |-> 0]
    /\ log = <<>> /\ ccalls = <<>> /\ jo = <<>> /\ store = <<>> /\ rej = 0
    /\ ds = [d \in 1..Len(s.devs) |-> NoDs]
    /\ th = [d \in 1..Len(s.devs) |-> [c \in 1..s.nc |-> NoTh]]
    /\ rd = [d \in 1..Len(s.devs) |-> <<>>]
    /\ act = [name |-> "Init", d |-> 0, c |-> 0, a |-> <<>>]

Init == \E s \in Scenarios : InitFor(s)

(* the caller has finished and the clock has reached its bound: threads nobody stops run on forever *)
CallerDone == mpc.at = "end" \/ (mpc.at = "idle" /\ pi = Len(scn.prog))
Terminated == CallerDone /\ now >= MaxTime
Spec == Init /\ [][Next]_vars
SpecD == Init /\ [][Next \/ (Terminated /\ UNCHANGED vars)]_vars

(***************************************************************************)
(* PROPERTIES.  They are written over the state and its history variables   *)
(* only, so that TraceTelemetry.tla evaluates the same formulas on recorded *)
(* executions of the real code.                                             *)
(***************************************************************************)
Th(dc) == th[dc[1]][dc[2]]
AllDC == (1..N) \X Clusters
IsSampler(d) == DV(d).kind \in SamplerKinds
LogOf(d) == SelectSeq(log, LAMBDA e : e.d = d)
LogOfCall(k) == SelectSeq(log, LAMBDA e : e.k = k)

TypeOK ==
    /\ now \in Nat /\ pi \in 0..Len(scn.prog) /\ rej \in 0..N
    /\ mpc.at \in {"build", "idle", "dev", "join", "end"}
    /\ \A dc \in AllDC : Th(dc).pc \in {"none", "sleep", "rec", "done"}
    /\ \A i \in 1..Len(store) : store[i].d \in 1..N /\ store[i].t <= now

(* ---- the container ---- *)
(* every device sees the life-cycle callbacks in order and each at most once *)
PhaseOrder == \A d \in 1..N : LET l == LogOf(d) IN \A i \in 1..(Len(l) - 1) : CbIx(l[i].cb) < CbIx(l[i + 1].cb)
(* only enabled (internal or listed) devices are called; on serverless only available ones are started / stopped *)
OnlyEnabled == \A i \in 1..Len(log) : Receives(DV(log[i].d), log[i].cb)
(* within one container call the devices are called in list order, at most once *)
ListOrder == \A i \in 1..(Len(log) - 1) : log[i].k = log[i + 1].k => (log[i].d < log[i + 1].d /\ log[i].cb = log[i + 1].cb)
(* a container call that returns has called every receiver; one that raised has called exactly those up to the raising device *)
Complete ==
    \A k \in 1..Len(ccalls) :
        LET cc == ccalls[k]
            got == {e.d : e \in Range(LogOfCall(k))}
        IN /\ \A e \in Range(LogOfCall(k)) : e.cb = cc.cb
           /\ IF cc.out = "ok" THEN got = Receivers(cc.cb)
              ELSE /\ got = {d \in Receivers(cc.cb) : d <= cc.d}
                   /\ \E e \in Range(LogOfCall(k)) : e.d = cc.d /\ e.out = "raise"
(* a container call raises only if a device callback raised *)
RaisesOnlyFromDevice == \A k \in 1..Len(ccalls) : ccalls[k].out = "raise" => \E e \in Range(LogOfCall(k)) : e.out = "raise"
(* the java options are those of the enabled devices in list order *)
JavaOpts == \A k \in 1..Len(ccalls) : (ccalls[k].cb = "jopts" /\ ccalls[k].out = "ok") =>
                jo = SelectSeq([d \in 1..N |-> d], LAMBDA d : DV(d).kind = "gc" /\ Receives(DV(d), "jopts"))
(* parameter validation: constructors of ccr / recovery / transform reject, then nothing is ever called *)
Validation == /\ rej # 0 => (CtorRejects(DV(rej)) /\ log = <<>> /\ ccalls = <<>> /\ store = <<>>)
              /\ (rej = 0 /\ mpc.at # "build") => \A d \in 1..N : ~CtorRejects(DV(d))
              /\ \A d \in 1..N : LazyRejects(DV(d)) => \A dc \in AllDC : dc[1] = d => Th(dc).pc = "none"

(* ---- samplers ---- *)
StartedOk(d) == \E i \in 1..Len(log) : log[i].d = d /\ log[i].cb = "bstart" /\ log[i].out = "ok"
StoppedOk(d) == \E i \in 1..Len(log) : log[i].d = d /\ log[i].cb = "bstop" /\ log[i].out = "ok"
(* one sampler thread per specified cluster once on_benchmark_start has returned, none otherwise *)
ThreadPerCluster ==
    \A d \in 1..N : IsSampler(d) =>
        /\ StartedOk(d) => (ds[d].sam = SpecC(DV(d)) /\ \A c \in Clusters : (Th(<<d, c>>).pc # "none") <=> (c \in Range(SpecC(DV(d)))))
        /\ (~StartedOk(d) /\ ~(mpc.at = "dev" /\ mpc.i = d)) => \A c \in Clusters : Th(<<d, c>>).pc = "none"
(* never two record() calls of a sampler closer than the interval, and the next one is due one interval after the previous returned *)
Spacing ==
    \A dc \in AllDC : LET t == Th(dc) iv == DV(dc[1]).iv
                      IN \A i \in 1..(Len(t.calls) - 1) :
                            /\ t.calls[i + 1] - t.calls[i] >= iv
                            /\ i <= Len(t.ans) /\ t.calls[i + 1] = t.ans[i].t + iv
(* the code: the first sample is taken one interval after the start *)
FirstAfterInterval == \A dc \in AllDC : LET t == Th(dc) IN t.calls # <<>> => t.calls[1] = t.t0 + DV(dc[1]).iv
(* intended (RecordAtStart): a sampler that has run took a sample when it started *)
FirstAtStart == \A dc \in AllDC : LET t == Th(dc) IN t.calls # <<>> => t.calls[1] = t.t0
(* no sample is missed: while alive and not told to stop, a sampler is never more than one interval (+ 1 s granularity) late *)
NoMissedSample ==
    \A dc \in AllDC : LET t == Th(dc) iv == DV(dc[1]).iv
                      IN (t.pc = "sleep" /\ ~t.stop) => t.wake + t.left <= (IF t.ans = <<>> THEN t.t0 ELSE Last(t.ans).t) + iv
(* finish(): the stop flag is seen within one second; at most one more record() is started after it; nothing after join() *)
StopSeenWithinASecond == \A dc \in AllDC : LET t == Th(dc) IN (t.stop /\ t.pc = "sleep") => t.wake <= t.tflag + TPS
AtMostOneRecordAfterStop == \A dc \in AllDC : Th(dc).aft <= 1
NothingAfterJoin ==
    \A dc \in AllDC : LET t == Th(dc)
                      IN t.tjoin >= 0 =>
                           /\ t.pc = "done"
                           /\ \A i \in 1..Len(t.calls) : t.calls[i] <= t.tjoin
                           /\ \A i \in 1..Len(t.ans) : t.ans[i].t <= t.tjoin
JoinOnlyWhenDone == mpc.at = "join" => (mpc.i \in 1..N /\ mpc.c \in 1..Len(ds[mpc.i].sam) /\ Th(<<mpc.i, ds[mpc.i].sam[mpc.c]>>).stop)
(* when on_benchmark_stop of a sampler device has returned, all its samplers have ended and were joined *)
StopJoinsAll == \A d \in 1..N : (IsSampler(d) /\ StoppedOk(d)) => \A c \in Clusters : Th(<<d, c>>).pc \in {"none", "done"} /\ (Th(<<d, c>>).pc = "done" => Th(<<d, c>>).tjoin >= 0)
(* a thread ends only because it was told to stop or because record() raised *)
EndsOnlyWhenStopped == \A dc \in AllDC : Th(dc).pc = "done" => (Th(dc).stop \/ Th(dc).crashed)
CrashOnlyOnError == \A dc \in AllDC : LET t == Th(dc) IN t.crashed => (t.ans # <<>> /\ Last(t.ans).a < 0)
(* node-stats logs a connection error and carries on *)
NodeStatsSurvivesTransportError ==
    \A dc \in AllDC : LET t == Th(dc) IN (t.crashed /\ DV(dc[1]).kind = "nodestats") => (t.ans # <<>> /\ Last(t.ans).a # TErr)
(* intended (SamplerSurvivesError) *)
SamplerSurvives == \A dc \in AllDC : ~Th(dc).crashed

(* every answered record() is in the store: names, level, meta data, time of the answer, in order *)
RECURSIVE ExpectedSamples(_, _, _)
ExpectedSamples(d, c, n) ==
    IF n = 0 THEN <<>>
    ELSE LET t == Th(<<d, c>>)
             x == t.ans[n]
         IN ExpectedSamples(d, c, n - 1) \o
            (IF x.a >= 0 THEN [i \in 1..Len(SampleDocs(d, c, n)) |-> [SampleDocs(d, c, n)[i] EXCEPT !.t = x.t]] ELSE <<>>)
IsFinal(doc) == doc.name \in {"total_" \o TransformTracked[i] : i \in 1..3}
SamplesStored ==
    \A dc \in AllDC : IsSampler(dc[1]) =>
        SelectSeq(store, LAMBDA x : x.d = dc[1] /\ x.c = dc[2] /\ ~IsFinal(x)) = ExpectedSamples(dc[1], dc[2], Len(Th(dc).ans))
(* intended (DocMetaAlways): the documented meta data is on every sample *)
SampleMeta == \A i \in 1..Len(store) : DV(store[i].d).kind \in {"ccr", "recovery", "nodestats"} => ("cluster=" \o CName(store[i].c)) \in store[i].md
(* samples carry the user's / environment's cluster-level meta info *)
BaseMeta == \A i \in 1..Len(store) : (store[i].md # {} \/ DocMetaAlways) => Base \subseteq store[i].md

(* ---- start / stop devices ---- *)
ReadsOf(d, cb) == SelectSeq(rd[d], LAMBDA e : e.cb = cb)
DocsOf(d) == SelectSeq(store, LAMBDA x : x.d = d)
AllOk(a) == \A i \in 1..Len(a) : a[i] >= 0
(* jvm: the stored gc time is max(end - start, 0) of the two successful reads; nothing is stored without both *)
JvmDelta ==
    \A d \in 1..N : DV(d).kind = "jvm" =>
        LET s == ReadsOf(d, "bstart") e == ReadsOf(d, "bstop") docs == DocsOf(d)
        IN IF s # <<>> /\ e # <<>> /\ AllOk(s[1].a) /\ AllOk(e[1].a)
           THEN \A i \in 1..Len(docs) : docs[i].v = (IF docs[i].lvl = "node" THEN 1 ELSE Len(DNodes)) * Max(e[1].a[1] - s[1].a[1], 0)
           ELSE docs = <<>>
(* ingest: node level count = end - start per cluster; nothing is stored without a complete start and a complete end read *)
IngestDelta ==
    \A d \in 1..N : DV(d).kind = "ingest" =>
        LET s == ReadsOf(d, "bstart") e == ReadsOf(d, "bstop") docs == DocsOf(d)
        IN IF s # <<>> /\ e # <<>> /\ AllOk(s[1].a) /\ AllOk(e[1].a)
           THEN \A i \in 1..Len(docs) : docs[i].lvl = "node" => docs[i].v = e[1].a[docs[i].c] - s[1].a[docs[i].c]
           ELSE docs = <<>>
(* intended (IngestPerCluster): the cluster level count is the sum over the nodes of that cluster *)
IngestClusterTotal ==
    \A d \in 1..N : DV(d).kind = "ingest" =>
        LET s == ReadsOf(d, "bstart") e == ReadsOf(d, "bstop") docs == DocsOf(d)
        IN \A i \in 1..Len(docs) : docs[i].lvl = "cluster" => docs[i].v = Len(DNodes) * (e[1].a[docs[i].c] - s[1].a[docs[i].c])
(* disk I/O: what is stored is the difference of the two reads *)
DiskIoDelta ==
    \A d \in 1..N : DV(d).kind = "diskio" =>
        LET s == ReadsOf(d, "attach") e == ReadsOf(d, "detachR") docs == DocsOf(d)
        IN \A i \in 1..Len(docs) : s # <<>> /\ e # <<>> /\ AllOk(s[1].a) /\ AllOk(e[1].a) /\ docs[i].v = e[1].a[1] - s[1].a[1]
(* code as it is: without the second read the start counter itself is stored *)
DiskIoStored ==
    \A d \in 1..N : DV(d).kind = "diskio" =>
        LET s == ReadsOf(d, "attach") e == ReadsOf(d, "detachR") docs == DocsOf(d)
        IN \A i \in 1..Len(docs) : s # <<>> /\ AllOk(s[1].a) /\
                (IF e = <<>> THEN docs[i].v = s[1].a[1] ELSE AllOk(e[1].a) /\ docs[i].v = e[1].a[1] - s[1].a[1])
(* index stats: absolute values of the read at the stop; errors are swallowed *)
IndexStatsAbs ==
    \A d \in 1..N : DV(d).kind = "indexstats" =>
        LET e == ReadsOf(d, "bstop") docs == DocsOf(d)
        IN IF e # <<>> /\ AllOk(e[1].a) THEN Len(docs) = 2 /\ \A i \in 1..2 : docs[i].v = e[1].a[1] ELSE docs = <<>>
(* startup time = attach - pre_node_start *)
StartupDelta ==
    \A d \in 1..N : DV(d).kind = "startup" =>
        \A i \in 1..Len(DocsOf(d)) : ds[d].t0 >= 0 /\ ds[d].t1 >= ds[d].t0 /\ DocsOf(d)[i].v = ds[d].t1 - ds[d].t0
(* devices that swallow read errors never raise.  intended (ApiErrorsHandled) for jvm; holds for indexstats *)
SwallowersNeverRaise == \A i \in 1..Len(log) : DV(log[i].d).kind \in {"jvm", "indexstats"} => log[i].out = "ok"
IndexStatsNeverRaises == \A i \in 1..Len(log) : DV(log[i].d).kind = "indexstats" => log[i].out = "ok"
(* intended (ApiErrorsHandled): an HTTP error status does not end the node-stats sampler *)
NodeStatsSurvivesApiError == \A dc \in AllDC : DV(dc[1]).kind = "nodestats" => ~Th(dc).crashed

(* ---- intended (IsolateDevices): a failing device does not keep the others from being called ---- *)
Isolation == \A k \in 1..Len(ccalls) : {e.d : e \in Range(LogOfCall(k))} = Receivers(ccalls[k].cb)
(* consequence for samplers: when the container's on_benchmark_stop is over, no sampler of a receiving device is alive *)
NoSamplerLeftBehind ==
    \A k \in 1..Len(ccalls) : ccalls[k].cb = "bstop" =>
        \A dc \in AllDC : Receives(DV(dc[1]), "bstop") => Th(dc).pc \in {"none", "done"}
=============================================================================
