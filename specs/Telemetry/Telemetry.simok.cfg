SPECIFICATION Spec
CONSTANTS
  TPS = 2
  MaxTime = 12
  MaxLat = 3
  Vals <- V012
  Scenarios <- SimScenarios
  IsolateDevices = FALSE
  RecordAtStart = FALSE
  SamplerSurvivesError = FALSE
  ApiErrorsHandled = FALSE
  DeltaNeedsStop = FALSE
  DocMetaAlways = FALSE
  IngestPerCluster = FALSE
INVARIANT PhaseOrder
INVARIANT Complete
INVARIANT Spacing
INVARIANT StopSeenWithinASecond
INVARIANT NothingAfterJoin
INVARIANT SamplesStored
ACTION_CONSTRAINT OkOnly
CHECK_DEADLOCK FALSE
