SPECIFICATION TSpec
CONSTANTS
  TPS = 2
  MaxTime = 100000
  MaxLat = 3
  Vals <- TraceVals
  Scenarios <- TraceScenarios
  IsolateDevices = FALSE
  RecordAtStart = FALSE
  SamplerSurvivesError = FALSE
  ApiErrorsHandled = FALSE
  DeltaNeedsStop = FALSE
  DocMetaAlways = FALSE
  IngestPerCluster = FALSE
CHECK_DEADLOCK FALSE
