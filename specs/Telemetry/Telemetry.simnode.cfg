SPECIFICATION Spec
CONSTANTS
  TPS = 2
  MaxTime = 6
  MaxLat = 3
  Vals <- V012
  Scenarios <- SimScenariosNode
  IsolateDevices = FALSE
  RecordAtStart = FALSE
  SamplerSurvivesError = FALSE
  ApiErrorsHandled = FALSE
  DeltaNeedsStop = FALSE
  DocMetaAlways = FALSE
  IngestPerCluster = FALSE
INVARIANT PhaseOrder
INVARIANT Complete
INVARIANT Spacing
INVARIANT StopSeenWithinASecond
INVARIANT NothingAfterJoin
INVARIANT SamplesStored
CHECK_DEADLOCK FALSE
