---------------------------- MODULE MCS_Telemetry ----------------------------
(* scenario sets for `tlc -simulate` (kept out of MC_Telemetry: TLC evaluates every constant definition at start-up) *)
EXTENDS MC_Telemetry

Pool == {D("ccr", TRUE, 1, "none", FALSE), D("ccr", TRUE, 3, "c2", FALSE), D("ccr", FALSE, 2, "none", FALSE),
         D("recovery", TRUE, 2, "none", FALSE), D("recovery", TRUE, 5, "c1", FALSE),
         D("transform", TRUE, 1, "none", FALSE), D("transform", TRUE, 3, "c2", FALSE),
         D("nodestats", TRUE, 1, "none", TRUE), D("nodestats", TRUE, 2, "none", FALSE), D("nodestats", FALSE, 1, "none", FALSE),
         I("jvm"), I("ingest"), I("indexstats")}
BadPool == {D("ccr", TRUE, 0, "none", FALSE), D("recovery", FALSE, 1, "bad", FALSE), D("transform", TRUE, 0, "none", FALSE),
            D("nodestats", TRUE, 0, "none", FALSE), D("nodestats", TRUE, 1, "bad", TRUE)}
NodePool == {D("gc", TRUE, 1, "none", FALSE), D("gc", FALSE, 1, "none", FALSE), I("diskio"), I("startup"), I("jvm"), D("ccr", TRUE, 1, "none", FALSE)}
Seqs(set, n) == UNION {[1..m -> set] : m \in 1..n}

SubPool == {D("ccr", TRUE, 1, "none", FALSE), D("recovery", TRUE, 2, "none", FALSE), D("transform", TRUE, 3, "c2", FALSE),
            D("nodestats", TRUE, 1, "none", TRUE), I("jvm"), I("ingest")}
SimScenarios ==
    {S(dv, 2, "off", cm, ne, p) : dv \in Seqs(Pool, 2) \cup [1..3 -> SubPool], cm \in BOOLEAN, ne \in 0..2, p \in {Bench, <<"bstop">>, <<"bstart">>}}
    \cup {S(dv, 2, "off", TRUE, 1, Bench) : dv \in Seqs(Pool \cup BadPool, 2)}
    \cup {S(dv, 1, sls, TRUE, 1, Bench) : dv \in Seqs({d \in Pool : d.idx # "c2"}, 2), sls \in {"user", "operator"}}
NodePool4 == {D("gc", TRUE, 1, "none", FALSE), D("gc", FALSE, 1, "none", FALSE), I("diskio"), I("startup")}
SimScenariosNode ==
    {S(dv, 1, "off", cm, 1, p) : dv \in [1..3 -> NodePool4] \cup {<<D("ccr", TRUE, 1, "none", FALSE), I("startup"), I("diskio")>>, <<I("jvm"), D("gc", TRUE, 1, "none", FALSE), I("diskio")>>},
                                 cm \in BOOLEAN, p \in (SubSeqs(NodeLife) \ {<<>>}) \cup {CB}}
=============================================================================
