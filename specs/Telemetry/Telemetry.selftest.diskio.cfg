SPECIFICATION SpecD
CONSTANTS
  TPS = 2
  MaxTime = 3
  MaxLat = 1
  Vals <- V02
  Scenarios <- SelfTestScenarios
  IsolateDevices = FALSE
  RecordAtStart = FALSE
  SamplerSurvivesError = FALSE
  ApiErrorsHandled = FALSE
  DeltaNeedsStop = FALSE
  DocMetaAlways = FALSE
  IngestPerCluster = FALSE
VIEW view
INVARIANT DiskIoDelta
CHECK_DEADLOCK FALSE
