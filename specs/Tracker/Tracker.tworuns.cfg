SPECIFICATION Spec
CONSTANTS
  TestDocs = 2
  Universe <- U5
  Clusters <- RClusters
  Dir0s <- QDir0s
  Options <- ROptions
  Fails <- Fails7
  ChurnTo <- NoChurn
  MaxChurn = 0
  MaxRuns = 2
  MaxPages = 4
  CountDumped = FALSE
  DedupIndices = FALSE
  LoadableNoCorpus = FALSE
  DsNoMatchOk = FALSE
VIEW View
INVARIANT TypeOK
INVARIANT SelectionSound
INVARIANT SelectionComplete
INVARIANT BodiesFiltered
INVARIANT EmptySkipped
INVARIANT NamesConsistent
INVARIANT InOrderOnce
INVARIANT Complete
INVARIANT OneK
INVARIANT NeverMoreThanCounted
INVARIANT BytesOnDisk
INVARIANT CountOnDisk
INVARIANT Untouched
INVARIANT FailedKeepsTrack
INVARIANT ScrollsCleared
INVARIANT ErrorSurfaces
INVARIANT LoaderAgrees
INVARIANT ShardsParam
INVARIANT DefaultChallenge
INVARIANT CorporaPass
INVARIANT TestModePass
CHECK_DEADLOCK FALSE
