SPECIFICATION Spec
CONSTANTS
  TestDocs = 2
  Universe <- U5
  Clusters <- QClusters
  Dir0s <- QDir0s
  Options <- QOptions
  Fails <- Fails0
  ChurnTo <- NoChurn
  MaxChurn = 0
  MaxRuns = 1
  MaxPages = 4
  CountDumped = TRUE
  DedupIndices = TRUE
  LoadableNoCorpus = TRUE
  DsNoMatchOk = FALSE
VIEW View
INVARIANT NoSpuriousError
CHECK_DEADLOCK FALSE
