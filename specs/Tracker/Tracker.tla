------------------------------- MODULE Tracker -------------------------------
(***************************************************************************)
(* `esrally create-track` (esrally/tracker/tracker.py create_track,        *)
(* extract_indices_from_data_streams, extract_mappings_and_corpora;        *)
(* index.py extract / extract_index_mapping_and_settings / is_valid /      *)
(* filter_ephemeral_index_settings / update_index_setting_parameters;      *)
(* corpus.py extract / dump_documents / template_vars; the templates       *)
(* resources/track.json.j2, challenges.json.j2, operations.json.j2;        *)
(* docs/adding_tracks.rst "Creating a track from data in an existing       *)
(* cluster").                                                              *)
(*                                                                         *)
(*  u    the universe: static descriptors of the indices that may exist    *)
(*       (name, dot-prefixed or not, wildcard group, data stream).         *)
(*  cl   the cluster now: per index exists / number of documents /         *)
(*       settings keys / shards / replicas / mapping version.  Document j  *)
(*       of an index is the j-th hit of a `sort: _doc` scan; deleting      *)
(*       removes from the tail, indexing appends (Churn, while a run is    *)
(*       in flight; Reshape between runs).                                 *)
(*  es   the books of the (fake) Elasticsearch for one run: request        *)
(*       counter, ONE scripted failing request (503), scroll contexts      *)
(*       (snapshot of the index at the search request, position, open /    *)
(*       closed) and, as ground truth for the invariants, per counted      *)
(*       index what count said and what the two scans saw (obs).           *)
(*  tk   the tracker: the control state of create_track between two        *)
(*       requests.  tk.pc names the request that is outstanding, tk.pend   *)
(*       is its response.                                                  *)
(*  dir  the track directory <output-path>/<track name>: per index of the  *)
(*       universe <index>.json, <index>-documents.json(.bz2),              *)
(*       <index>-documents-1k.json(.bz2); track.json; challenges/          *)
(*       default.json; operations/default.json.  A corpus file is          *)
(*       "prefix" n  = exactly the documents 1..n of ITS index, one line   *)
(*       each, in scan order (an archive: decompresses to that),           *)
(*       "part" = an archive that is not (yet) a complete stream,          *)
(*       "other" = anything else, "absent".  The directory survives from   *)
(*       run to run and may hold anything before the first run (Dir0s).    *)
(*  res  what the last finished run reported and what the REAL track       *)
(*       loader says about the directory it left (ld).                     *)
(*                                                                         *)
(* One action = the tracker consumes the pending response, does its file   *)
(* operations and sends the next request (Send), or finishes: renders the  *)
(* three templates / raises (Finish).  The tracker never READS the         *)
(* directory: every file is opened with "w"/"wb".                          *)
(*                                                                         *)
(* Switches (TRUE = intended behaviour, FALSE = the code as it is):        *)
(*  CountDumped      FALSE: document-count in track.json is what _count    *)
(*                   said before the scan; documents deleted in between    *)
(*                   are not noticed, the corpus is shorter than the track *)
(*                   says and the loader rejects it (line count; when all  *)
(*                   are gone: uncompressed-bytes 0 is below the schema's  *)
(*                   minimum).  TRUE: the number of documents written; an  *)
(*                   index that yields none gets no corpus.                *)
(*  DedupIndices     FALSE: an index matched by two of the --indices       *)
(*                   patterns is extracted twice and listed twice; the     *)
(*                   loader rejects the track (indices must be unique).    *)
(*  LoadableNoCorpus FALSE: when every selected index is empty the track   *)
(*                   has "corpora": [] which the loader rejects            *)
(*                   (minItems 1), although create-track reports success.  *)
(*  DsNoMatchOk      FALSE: a --data-streams wildcard that matches nothing *)
(*                   gets {} (filter_path drops the empty array) and the   *)
(*                   lookup of "data_streams" raises KeyError: the whole   *)
(*                   command dies although other patterns match.           *)
(***************************************************************************)
EXTENDS Integers, Sequences, FiniteSets

CONSTANTS TestDocs,          \* 1000: documents in the test-mode corpus (-1k)
          Universe,          \* the sequence of index descriptors
          Clusters,          \* set of cluster states over Universe
          Dir0s,             \* set of directory states before the first run
          Options,           \* set of option records [mode, pats, b]
          Fails,             \* set of request numbers that may fail (0 = none)
          ChurnTo,           \* set of document counts a Churn may set
          MaxChurn, MaxRuns,
          MaxPages,          \* modelling bound: an index holds at most MaxPages * batch-size documents
          CountDumped, DedupIndices, LoadableNoCorpus, DsNoMatchOk

VARIABLES u, cl, dir, tk, es, res, act

vars == <<u, cl, dir, tk, es, res>>

Min(a, b) == IF a <= b THEN a ELSE b
Range(s) == {s[i] : i \in 1..Len(s)}
NoDup(s) == \A i, j \in 1..Len(s) : i # j => s[i] # s[j]
Member(s, x) == \E i \in 1..Len(s) : s[i] = x
Iota(n) == [i \in 1..n |-> i]

Ephemeral == {"uuid", "creation_date", "version", "provided_name", "store"}
StdOps == <<"delete-index", "create-index", "cluster-health", "bulk">>
ParamSh == 7       \* the track parameters number_of_shards / number_of_replicas of the second load
ParamRp == 5

(* ------------------------------ files ---------------------------------- *)
Absent == [k |-> "absent", n |-> 0, sz |-> 0]
Part == [k |-> "part", n |-> 0, sz |-> 0]
Pfx(n) == [k |-> "prefix", n |-> n, sz |-> 2 * n]          \* model sizes; the real ones are recorded
PfxZ(n) == [k |-> "prefix", n |-> n, sz |-> n + 14]
NoBody == [k |-> "absent", keys |-> <<>>, sh |-> -1, rp |-> -1, mv |-> 0]
NoTrack == [k |-> "absent", ixs |-> <<>>, corp |-> <<>>, ok |-> TRUE]
NoChal == [k |-> "absent", hix |-> <<>>]
NoIx == [body |-> NoBody, full |-> Absent, fullz |-> Absent, onek |-> Absent, onekz |-> Absent]
EmptyDir(n) == [ix |-> [i \in 1..n |-> NoIx], track |-> NoTrack, chal |-> NoChal, ops |-> "absent"]

(* ------------------------------ requests -------------------------------- *)
NoPat == [k |-> "", v |-> ""]
NoOpt == [mode |-> "", pats |-> <<>>, b |-> 0]
Req(op, pat, ix, size, sid) == [op |-> op, pat |-> pat, ix |-> ix, size |-> size, sid |-> sid]
NoResp == [st |-> 0, ixs |-> <<>>, det |-> <<>>, names |-> <<>>, nokey |-> FALSE, cnt |-> 0, from |-> 0, hits |-> 0, sid |-> 0]
Ok == [NoResp EXCEPT !.st = 200]
Failed(r) == r.st # 200

(* ------------------------------ the cluster ----------------------------- *)
N == Len(u)
Match(p, i) ==
    /\ cl[i].ex
    /\ CASE p.k = "all" -> TRUE
         [] p.k = "name" -> u[i].nm = p.v \/ u[i].ds = p.v
         [] p.k = "pre" -> u[i].grp = p.v \/ (u[i].ds # "" /\ u[i].dgrp = p.v)
         [] OTHER -> FALSE
DsMatch(p, i) ==
    /\ cl[i].ex /\ u[i].ds # ""
    /\ CASE p.k = "all" -> TRUE
         [] p.k = "name" -> u[i].ds = p.v
         [] p.k = "pre" -> u[i].dgrp = p.v
         [] OTHER -> FALSE
Resolved(p) == SelectSeq(Iota(N), LAMBDA i : Match(p, i))
FirstOfDs(i) == \A j \in 1..(i - 1) : ~(cl[j].ex /\ u[j].ds = u[i].ds)
DsResolved(p) == SelectSeq(Iota(N), LAMBDA i : DsMatch(p, i) /\ FirstOfDs(i))
Det(i) == [keys |-> cl[i].keys, sh |-> cl[i].sh, rp |-> cl[i].rp, mv |-> cl[i].mv]

Es0 == [nreq |-> 0, fail |-> 0, hit |-> "", scrolls |-> <<>>, obs |-> <<>>]

(* the response to request q and the books afterwards *)
Serve(e, q) ==
    LET e1 == [e EXCEPT !.nreq = @ + 1]
    IN IF e.fail = e.nreq + 1 THEN [resp |-> [NoResp EXCEPT !.st = 503], es |-> [e1 EXCEPT !.hit = q.op]]
       ELSE CASE q.op = "ds" ->
                   LET r == DsResolved(q.pat)
                   IN IF r = <<>> THEN [resp |-> IF q.pat.k = "name" THEN [NoResp EXCEPT !.st = 404] ELSE [Ok EXCEPT !.nokey = TRUE], es |-> e1]
                      ELSE [resp |-> [Ok EXCEPT !.names = [j \in 1..Len(r) |-> u[r[j]].ds]], es |-> e1]
              [] q.op = "get" ->
                   LET r == Resolved(q.pat)
                   IN IF r = <<>> /\ q.pat.k = "name" THEN [resp |-> [NoResp EXCEPT !.st = 404], es |-> e1]
                      ELSE [resp |-> [Ok EXCEPT !.ixs = r, !.det = [j \in 1..Len(r) |-> Det(r[j])]], es |-> e1]
              [] q.op = "count" ->
                   [resp |-> [Ok EXCEPT !.cnt = cl[q.ix].n],
                    es |-> [e1 EXCEPT !.obs = Append(@, [ix |-> q.ix, c |-> cl[q.ix].n, n1 |-> -1, n2 |-> -1])]]
              [] q.op = "search" ->
                   LET snap == cl[q.ix].n
                       cnt == Min(q.size, snap)
                       o == e.obs[Len(e.obs)]
                   IN [resp |-> [Ok EXCEPT !.from = 1, !.hits = cnt, !.sid = Len(e.scrolls) + 1],
                       es |-> [e1 EXCEPT !.scrolls = Append(@, [ix |-> q.ix, snap |-> snap, pos |-> cnt, size |-> q.size, open |-> TRUE]),
                                         !.obs[Len(e.obs)] = IF o.n1 < 0 THEN [o EXCEPT !.n1 = snap] ELSE [o EXCEPT !.n2 = snap]]]
              [] q.op = "scroll" ->
                   LET x == e.scrolls[q.sid]
                       cnt == Min(x.size, x.snap - x.pos)
                   IN [resp |-> [Ok EXCEPT !.from = x.pos + 1, !.hits = cnt, !.sid = q.sid],
                       es |-> [e1 EXCEPT !.scrolls[q.sid].pos = @ + cnt]]
              [] q.op = "clear" ->
                   [resp |-> Ok, es |-> [e1 EXCEPT !.scrolls[q.sid].open = FALSE]]
              [] OTHER -> [resp |-> NoResp, es |-> e1]

(* ------------------------------ the tracker ----------------------------- *)
Tk0 == [pc |-> "idle", run |-> 0, opt |-> NoOpt, pi |-> 0, dsn |-> <<>>, pats |-> <<>>, sel |-> <<>>, ci |-> 0, wh |-> "",
        c |-> 0, lim |-> 0, w |-> 0, sid |-> 0, brk |-> FALSE, perr |-> "", corp |-> <<>>, why |-> "", pend |-> NoResp,
        churn |-> 0, d0 |-> EmptyDir(0)]

ReqPcs == {"ds", "get", "count", "search", "scroll", "clear"}
Running(t) == t.pc \in ReqPcs \cup {"start"}

(* is_valid: hidden (dot) indices are skipped only when ALL indices were asked for *)
Valid(p, i) == ~(p.k = "all" /\ u[i].dot)

Raise(t, why) == [t EXCEPT !.pc = "raise", !.why = why]
NextCorpus(t) == IF t.ci < Len(t.sel) THEN [t EXCEPT !.ci = @ + 1, !.pc = "count"] ELSE [t EXCEPT !.pc = "render"]
AfterPatterns(t) == IF t.sel = <<>> THEN Raise(t, "noindices") ELSE [t EXCEPT !.ci = 1, !.pc = "count"]
NamePats(names) == [j \in 1..Len(names) |-> [k |-> "name", v |-> names[j]]]

BodyOf(det) ==
    [k |-> "json", keys |-> SelectSeq(det.keys, LAMBDA s : s \notin Ephemeral),
     sh |-> IF Member(det.keys, "number_of_shards") THEN det.sh ELSE -1,
     rp |-> IF Member(det.keys, "number_of_replicas") THEN det.rp ELSE -1, mv |-> det.mv]

(* <index>.json of every valid index of a `get` response *)
RECURSIVE WriteBodies(_, _, _, _)
WriteBodies(d, r, p, j) ==
    IF j > Len(r.ixs) THEN d
    ELSE WriteBodies(IF Valid(p, r.ixs[j]) THEN [d EXCEPT !.ix[r.ixs[j]].body = BodyOf(r.det[j])] ELSE d, r, p, j + 1)

Cur(t) == t.sel[t.ci]
(* the corpus file that is being written holds the t.w documents written so far (on disk at the latest when it is closed) *)
Closed(d, t) == IF t.wh = "1k" THEN [d EXCEPT !.ix[Cur(t)].onek = Pfx(t.w)] ELSE [d EXCEPT !.ix[Cur(t)].full = Pfx(t.w)]

(* the tracker consumes tk.pend: its new control state (pc = the next request, "render" or "raise") and the directory *)
Advance(t, d) ==
    LET r == t.pend
    IN CASE t.pc = "start" ->
              [t |-> IF t.opt.mode = "ds" THEN [t EXCEPT !.pc = "ds", !.pi = 1] ELSE [t EXCEPT !.pc = "get", !.pi = 1, !.pats = t.opt.pats], d |-> d]
         [] t.pc = "ds" ->
              IF ~Failed(r) /\ r.nokey /\ ~DsNoMatchOk THEN [t |-> Raise(t, "KeyError"), d |-> d]
              ELSE LET t1 == [t EXCEPT !.dsn = @ \o (IF Failed(r) THEN <<>> ELSE r.names)]
                   IN IF t.pi < Len(t.opt.pats) THEN [t |-> [t1 EXCEPT !.pi = @ + 1], d |-> d]
                      ELSE IF t1.dsn = <<>> THEN [t |-> AfterPatterns(t1), d |-> d]
                      ELSE [t |-> [t1 EXCEPT !.pc = "get", !.pi = 1, !.pats = NamePats(t1.dsn)], d |-> d]
         [] t.pc = "get" ->
              LET p == t.pats[t.pi]
                  new == IF Failed(r) THEN <<>> ELSE SelectSeq(r.ixs, LAMBDA i : Valid(p, i) /\ (DedupIndices => ~Member(t.sel, i)))
                  t1 == [t EXCEPT !.sel = @ \o new]
                  d1 == IF Failed(r) THEN d ELSE WriteBodies(d, r, p, 1)
              IN IF t.pi < Len(t.pats) THEN [t |-> [t1 EXCEPT !.pi = @ + 1], d |-> d1] ELSE [t |-> AfterPatterns(t1), d |-> d1]
         [] t.pc = "count" ->
              IF Failed(r) THEN [t |-> Raise(t, "count"), d |-> d]
              ELSE IF r.cnt > 0
                   THEN [t |-> [t EXCEPT !.pc = "search", !.wh = "1k", !.c = r.cnt, !.lim = Min(r.cnt, TestDocs), !.w = 0, !.brk = FALSE, !.perr = ""],
                         d |-> [d EXCEPT !.ix[Cur(t)].onek = Pfx(0), !.ix[Cur(t)].onekz = Part]]
                   ELSE [t |-> NextCorpus(t), d |-> d]
         [] t.pc \in {"search", "scroll"} ->
              IF Failed(r) THEN (IF t.pc = "search" THEN [t |-> Raise(t, "search"), d |-> d] ELSE [t |-> [t EXCEPT !.pc = "clear", !.perr = "scroll"], d |-> d])
              ELSE LET room == t.lim - t.w
                       w2 == t.w + Min(r.hits, room)
                       stop == r.hits = 0 \/ r.hits > room
                       t1 == [t EXCEPT !.w = w2, !.sid = r.sid, !.brk = r.hits > room, !.pc = IF stop THEN "clear" ELSE "scroll"]
                   IN [t |-> t1, d |-> IF t.wh = "1k" THEN [d EXCEPT !.ix[Cur(t)].onek = Pfx(w2)] ELSE [d EXCEPT !.ix[Cur(t)].full = Pfx(w2)]]
         [] t.pc = "clear" ->
              (* the files are closed now: whatever was buffered is on disk.  A failing clear_scroll raises unless the generator was
                 abandoned by `break` (then the error is swallowed by its finaliser) *)
              LET dc == Closed(d, t)
              IN IF Failed(r) /\ ~t.brk THEN [t |-> Raise(t, "clear"), d |-> dc]
                 ELSE IF t.perr # "" THEN [t |-> Raise(t, t.perr), d |-> dc]
                 ELSE IF t.wh = "1k"
                      THEN [t |-> [t EXCEPT !.pc = "search", !.wh = "full", !.lim = t.c, !.w = 0, !.brk = FALSE],
                            d |-> [dc EXCEPT !.ix[Cur(t)].onekz = PfxZ(t.w), !.ix[Cur(t)].full = Pfx(0), !.ix[Cur(t)].fullz = Part]]
                      ELSE LET d1 == [dc EXCEPT !.ix[Cur(t)].fullz = PfxZ(t.w)]
                               c == [ix |-> Cur(t), dc |-> IF CountDumped THEN t.w ELSE t.c, ub |-> d1.ix[Cur(t)].full.sz, cb |-> d1.ix[Cur(t)].fullz.sz]
                           IN [t |-> NextCorpus(IF CountDumped /\ t.w = 0 THEN t ELSE [t EXCEPT !.corp = Append(@, c)]), d |-> d1]
         [] OTHER -> [t |-> t, d |-> d]

NextReq(t) ==
    CASE t.pc = "ds" -> Req("ds", t.opt.pats[t.pi], 0, 0, 0)
      [] t.pc = "get" -> Req("get", t.pats[t.pi], 0, 0, 0)
      [] t.pc = "count" -> Req("count", NoPat, Cur(t), 0, 0)
      [] t.pc = "search" -> Req("search", NoPat, Cur(t), t.opt.b, 0)
      [] t.pc = "scroll" -> Req("scroll", NoPat, 0, 0, t.sid)
      [] t.pc = "clear" -> Req("clear", NoPat, 0, 0, t.sid)
      [] OTHER -> Req("none", NoPat, 0, 0, 0)

(* ------------------------------ the track loader on the directory ------- *)
NoLd == [load |-> "none", ixs |-> <<>>, corp |-> <<>>, ops |-> <<>>, hix |-> <<>>]
PrepOf(d, c) == LET f == d.ix[c.ix].full
                IN IF f.k = "absent" THEN "missing" ELSE IF f.sz # c.ub THEN "size" ELSE IF f.k # "prefix" \/ f.n # c.dc THEN "lines" ELSE "ok"
PrepTestOf(d, c) == IF c.dc <= TestDocs THEN PrepOf(d, c)
                    ELSE LET f == d.ix[c.ix].onek
                         IN IF f.k = "absent" THEN "missing" ELSE IF f.k # "prefix" \/ f.n # TestDocs THEN "lines" ELSE "ok"
(* load_track on track.json + the body files, then DocumentSetPreparator.prepare_bundled_document_set per corpus, plain and in test mode;
   sh / rp: number_of_shards / number_of_replicas of the loaded index body without track parameters (-1 = no such setting),
   shp / rpp: with the track parameters number_of_shards = ParamSh, number_of_replicas = ParamRp *)
LoadOf(d) ==
    LET T == d.track
    IN IF \/ ~NoDup(T.ixs) \/ (T.corp = <<>> /\ ~LoadableNoCorpus)
          \/ \E j \in 1..Len(T.corp) : T.corp[j].dc < 1 \/ T.corp[j].ub < 1 \/ T.corp[j].cb < 1        \* track-schema.json: minimum 1
       THEN [NoLd EXCEPT !.load = "rejected"]
       ELSE [load |-> "ok",
             ixs |-> [j \in 1..Len(T.ixs) |-> LET b == d.ix[T.ixs[j]].body
                                               IN [ix |-> T.ixs[j], sh |-> b.sh, rp |-> b.rp, shp |-> IF b.sh >= 0 THEN ParamSh ELSE -1,
                                                   rpp |-> IF b.rp >= 0 THEN ParamRp ELSE -1]],
             corp |-> [j \in 1..Len(T.corp) |-> [ix |-> T.corp[j].ix, dc |-> T.corp[j].dc, prep |-> PrepOf(d, T.corp[j]), prepT |-> PrepTestOf(d, T.corp[j])]],
             ops |-> StdOps, hix |-> T.ixs]

NoRes == [st |-> "none", why |-> "", ld |-> NoLd]

FinishF(t, d) ==
    IF t.pc = "render"
    THEN LET d1 == [d EXCEPT !.track = [k |-> "json", ixs |-> t.sel, corp |-> t.corp, ok |-> TRUE],
                             !.chal = [k |-> "file", hix |-> t.sel], !.ops = "std"]
         IN [d |-> d1, res |-> [st |-> "ok", why |-> "", ld |-> LoadOf(d1)]]
    ELSE [d |-> d, res |-> [st |-> "err", why |-> t.why, ld |-> NoLd]]

(* ------------------------------ actions --------------------------------- *)
Init == /\ u = Universe /\ cl \in Clusters /\ dir \in Dir0s /\ tk = Tk0 /\ es = Es0 /\ res = NoRes
        /\ act = [op |-> "Init"]

Begin == /\ tk.pc \in {"idle", "done"} /\ tk.run < MaxRuns
         /\ \E o \in Options, f \in Fails :
               /\ \A i \in 1..N : cl[i].ex => cl[i].n <= o.b * MaxPages
               /\ tk' = [Tk0 EXCEPT !.pc = "start", !.run = tk.run + 1, !.opt = o, !.d0 = dir]
               /\ es' = [Es0 EXCEPT !.fail = f]
               /\ act' = [op |-> "Begin", opt |-> o, fail |-> f]
         /\ UNCHANGED <<u, cl, dir, res>>

Send == /\ Running(tk)
        /\ LET a == Advance(tk, dir)
           IN /\ a.t.pc \in ReqPcs
              /\ LET s == Serve(es, NextReq(a.t))
                 IN /\ tk' = [a.t EXCEPT !.pend = s.resp]
                    /\ es' = s.es
                    /\ dir' = a.d
                    /\ act' = [op |-> "Send", req |-> NextReq(a.t)]
        /\ UNCHANGED <<u, cl, res>>

Finish == /\ Running(tk)
          /\ LET a == Advance(tk, dir)
             IN /\ a.t.pc \in {"render", "raise"}
                /\ LET f == FinishF(a.t, a.d)
                   IN /\ dir' = f.d /\ res' = f.res
                      /\ tk' = [a.t EXCEPT !.pc = "done", !.pend = NoResp]
          /\ act' = [op |-> "Finish"]
          /\ UNCHANGED <<u, cl, es>>

(* documents are indexed / deleted while the tracker runs *)
Churn == /\ tk.pc \in ReqPcs /\ tk.churn < MaxChurn
         /\ \E i \in 1..N, n \in ChurnTo :
               /\ cl[i].ex /\ cl[i].n # n /\ n <= tk.opt.b * MaxPages
               /\ cl' = [cl EXCEPT ![i].n = n]
               /\ act' = [op |-> "Churn", i |-> i, n |-> n]
         /\ tk' = [tk EXCEPT !.churn = @ + 1]
         /\ UNCHANGED <<u, dir, es, res>>

(* anything may happen to the cluster between two runs *)
Reshape == /\ tk.pc = "done" /\ tk.run < MaxRuns
           /\ \E c \in Clusters : c # cl /\ cl' = c /\ act' = [op |-> "Reshape", cl |-> c]
           /\ tk' = [tk EXCEPT !.pc = "idle"]
           /\ UNCHANGED <<u, dir, es, res>>

Next == Begin \/ Send \/ Finish \/ Churn \/ Reshape
Spec == Init /\ [][Next]_<<vars, act>>

(* ------------------------------ invariants ------------------------------ *)
Done == tk.pc = "done"
DoneOk == Done /\ res.st = "ok"
T == dir.track
Sel == T.ixs
Corp == T.corp
ObsOf(i) == LET J == {j \in 1..Len(es.obs) : es.obs[j].ix = i /\ es.obs[j].c > 0}      \* the last dump of index i
            IN IF J = {} THEN [ix |-> i, c |-> -1, n1 |-> -2, n2 |-> -3] ELSE es.obs[CHOOSE j \in J : \A k \in J : j >= k]
KnownRefs == (\A j \in 1..Len(Sel) : Sel[j] \in 1..N) /\ (\A j \in 1..Len(Corp) : Corp[j].ix \in 1..N)
OkRefs == DoneOk /\ KnownRefs
Static(o) == o.c = o.n1 /\ o.c = o.n2
Quiet == es.hit \notin {"ds", "get"}       \* no pattern was skipped because of a scripted 503

Wanted(i) == IF tk.opt.mode = "ds" THEN \E j \in 1..Len(tk.opt.pats) : DsMatch(tk.opt.pats[j], i)
             ELSE \E j \in 1..Len(tk.opt.pats) : Match(tk.opt.pats[j], i) /\ Valid(tk.opt.pats[j], i)

TypeOK == /\ tk.pc \in ReqPcs \cup {"idle", "start", "done"}
          /\ Len(dir.ix) = N /\ Len(cl) = N
          /\ res.st \in {"none", "ok", "err"}

(* exactly the requested indices (hidden ones only when asked for by name or by a pattern other than * / _all) *)
SelectionSound == OkRefs => \A j \in 1..Len(Sel) : Wanted(Sel[j])
SelectionComplete == DoneOk /\ Quiet => \A i \in 1..N : Wanted(i) => Member(Sel, i)
SelectionOnce == DoneOk => NoDup(Sel)
(* <index>.json: the mappings as they are, the settings without the ephemeral keys, shards / replicas as parameters defaulting to the original *)
BodiesFiltered == OkRefs => \A j \in 1..Len(Sel) : dir.ix[Sel[j]].body = BodyOf(Det(Sel[j]))
(* one corpus per selected index that has documents (when it is counted and when it is scanned), in the order of the indices;
   empty indices keep their index entry *)
EmptySkipped == DoneOk => /\ Len(es.obs) = Len(Sel) /\ \A j \in 1..Len(Sel) : es.obs[j].ix = Sel[j]
                          /\ LET full == SelectSeq(es.obs, LAMBDA o : o.c > 0 /\ o.n2 # 0)
                             IN Len(Corp) = Len(full) /\ \A j \in 1..Len(Corp) : Corp[j].ix = full[j].ix
NamesConsistent == DoneOk => KnownRefs /\ T.k = "json" /\ T.ok /\ dir.chal.k = "file" /\ dir.chal.hix = Sel /\ dir.ops = "std"
(* every corpus file holds documents of its index, each once, in scan order, without gaps; the archives hold the same *)
InOrderOnce == OkRefs => \A j \in 1..Len(Corp) :
                  LET f == dir.ix[Corp[j].ix]
                  IN /\ f.full.k = "prefix" /\ f.onek.k = "prefix" /\ f.fullz.k = "prefix" /\ f.onekz.k = "prefix"
                     /\ f.fullz.n = f.full.n /\ f.onekz.n = f.onek.n
(* an index that did not change during the run is dumped completely; its -1k file holds the first min(1000, n) documents *)
Complete == OkRefs => \A j \in 1..Len(Corp) :
                  LET o == ObsOf(Corp[j].ix) f == dir.ix[Corp[j].ix]
                  IN Static(o) => f.full.n = o.c /\ f.onek.n = Min(o.c, TestDocs)
(* the -1k corpus is the head of the full corpus (when the index did not change between the two scans) *)
OneK == OkRefs => \A j \in 1..Len(Corp) :
                  LET o == ObsOf(Corp[j].ix) f == dir.ix[Corp[j].ix]
                  IN o.n1 = o.n2 => f.onek.n = Min(TestDocs, f.full.n)
NeverMoreThanCounted == OkRefs => \A j \in 1..Len(Corp) :
                  LET o == ObsOf(Corp[j].ix) f == dir.ix[Corp[j].ix]
                  IN f.full.n <= o.c /\ f.onek.n <= Min(o.c, TestDocs)
(* track.json says what is on disk (an index that is listed twice is reported by SelectionOnce: its first entry describes files that were overwritten) *)
BytesOnDisk == OkRefs /\ NoDup(Sel) => \A j \in 1..Len(Corp) : Corp[j].ub = dir.ix[Corp[j].ix].full.sz /\ Corp[j].cb = dir.ix[Corp[j].ix].fullz.sz
CountOnDisk == OkRefs /\ NoDup(Sel) => \A j \in 1..Len(Corp) : Corp[j].dc = dir.ix[Corp[j].ix].full.n
(* files of indices that were not selected are left alone *)
Untouched == Done => \A i \in 1..N : ~Wanted(i) => dir.ix[i] = tk.d0.ix[i]
(* a failed run leaves the previous track.json alone *)
FailedKeepsTrack == Done /\ res.st = "err" => dir.track = tk.d0.track /\ dir.chal = tk.d0.chal /\ dir.ops = tk.d0.ops
(* every scroll context is released (unless the release itself was the failing request) *)
ScrollsCleared == Done /\ es.hit # "clear" => \A j \in 1..Len(es.scrolls) : ~es.scrolls[j].open
(* a run fails only because a request failed or nothing was selected *)
NoSpuriousError == Done /\ res.st = "err" => es.hit # "" \/ res.why = "noindices"
ErrorSurfaces == Done /\ es.hit \in {"count", "search", "scroll"} => res.st = "err"
(* the REAL loader accepts what a successful run leaves behind *)
Loads == DoneOk => res.ld.load = "ok"
LoaderAgrees == DoneOk /\ res.ld.load = "ok" =>
                  /\ Len(res.ld.ixs) = Len(Sel) /\ \A j \in 1..Len(Sel) : res.ld.ixs[j].ix = Sel[j]
                  /\ Len(res.ld.corp) = Len(Corp) /\ \A j \in 1..Len(Corp) : res.ld.corp[j].ix = Corp[j].ix /\ res.ld.corp[j].dc = Corp[j].dc
ShardsParam == DoneOk /\ res.ld.load = "ok" => \A j \in 1..Len(res.ld.ixs) :
                  LET i == res.ld.ixs[j].ix
                  IN i \in 1..N =>
                     /\ res.ld.ixs[j].sh = (IF Member(cl[i].keys, "number_of_shards") THEN cl[i].sh ELSE -1)
                     /\ res.ld.ixs[j].rp = (IF Member(cl[i].keys, "number_of_replicas") THEN cl[i].rp ELSE -1)
                     /\ res.ld.ixs[j].shp = (IF Member(cl[i].keys, "number_of_shards") THEN ParamSh ELSE -1)
                     /\ res.ld.ixs[j].rpp = (IF Member(cl[i].keys, "number_of_replicas") THEN ParamRp ELSE -1)
DefaultChallenge == DoneOk /\ res.ld.load = "ok" => res.ld.ops = StdOps /\ res.ld.hix = Sel
CorporaPass == DoneOk /\ res.ld.load = "ok" => \A j \in 1..Len(res.ld.corp) : res.ld.corp[j].prep = "ok"
TestModePass == DoneOk /\ res.ld.load = "ok" => \A j \in 1..Len(res.ld.corp) :
                  LET o == ObsOf(res.ld.corp[j].ix) IN o.n1 = o.n2 /\ res.ld.corp[j].prep = "ok" => res.ld.corp[j].prepT = "ok"

View == vars
=============================================================================
