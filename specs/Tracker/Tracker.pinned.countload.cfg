SPECIFICATION Spec
CONSTANTS
  TestDocs = 2
  Universe <- U5
  Clusters <- CClusters
  Dir0s <- QDir0s
  Options <- COptions
  Fails <- Fails0
  ChurnTo <- Churn03
  MaxChurn = 1
  MaxRuns = 1
  MaxPages = 4
  CountDumped = FALSE
  DedupIndices = TRUE
  LoadableNoCorpus = TRUE
  DsNoMatchOk = TRUE
VIEW View
INVARIANT CorporaPass
CHECK_DEADLOCK FALSE
