---------------------------- MODULE TraceTracker ----------------------------
(***************************************************************************)
(* Validates recorded runs of the REAL esrally.tracker.tracker.create_track *)
(* (real EsClientFactory / RallySyncElasticsearch / elasticsearch.helpers.  *)
(* scan on a wire-level fake Elasticsearch, a real scratch directory, the   *)
(* real track loader on the result; harness/extras/tracker.py) against      *)
(* Tracker.tla.                                                             *)
(* Input (env VERIF_TRACES): JSON array of items                            *)
(*   [id, u, cl, dir, skip: << event numbers without L2 >>, events]         *)
(*   ev = [a |-> "B", opt, fail]          create_track is called            *)
(*      | [a |-> "Q", req, resp, es, dir] a request arrives: the directory  *)
(*                                        at that moment, the response, the *)
(*                                        fake's books after it             *)
(*      | [a |-> "C", i, n]               documents indexed / deleted       *)
(*      | [a |-> "R", cl]                 the cluster between two runs      *)
(*      | [a |-> "F", dir, res]           create_track returned / raised:   *)
(*                                        the directory, the loader on it   *)
(* TLC binds the recorded post-state (cl, dir, es, res; the control state   *)
(* tk follows the model as long as the run conforms) and evaluates          *)
(*   L1: after every F event all invariants of Tracker.tla,                 *)
(*   L2: the event is the specification's step (request, directory modulo   *)
(*       byte sizes, response, books, result, loader verdict).              *)
(* <<"V", id, line, "L1"|"L2", clauses>>, <<"DONE", #items, #events>>.      *)
(***************************************************************************)
EXTENDS Tracker, Json, IOUtils, TLC

Traces == JsonDeserialize(IOEnv.VERIF_TRACES)
TU == <<>>
TNone == {}

VARIABLES tid, l, nev, dead

tvars == <<vars, act, tid, l, nev, dead>>

Item == Traces[tid]

TInit == /\ tid = 1 /\ l = 0 /\ nev = 0 /\ dead = FALSE
         /\ u = <<>> /\ cl = <<>> /\ dir = EmptyDir(0) /\ tk = Tk0 /\ es = Es0 /\ res = NoRes /\ act = [op |-> "Init"]

BeginItem ==
    /\ tid <= Len(Traces) /\ l = 0
    /\ u' = Item.u /\ cl' = Item.cl /\ dir' = Item.dir /\ tk' = Tk0 /\ es' = Es0 /\ res' = NoRes
    /\ dead' = FALSE /\ l' = 1 /\ UNCHANGED <<tid, nev, act>>

Skipped(n) == \E i \in 1..Len(Item.skip) : Item.skip[i] = n

(* the directory without byte sizes (the model's sizes are symbolic) *)
AbsF(f) == [k |-> f.k, n |-> f.n]
AbsDir(d) == [ix |-> [i \in 1..Len(d.ix) |-> [body |-> d.ix[i].body, full |-> AbsF(d.ix[i].full), fullz |-> AbsF(d.ix[i].fullz),
                                               onek |-> AbsF(d.ix[i].onek), onekz |-> AbsF(d.ix[i].onekz)]],
              track |-> [k |-> d.track.k, ixs |-> d.track.ixs, ok |-> d.track.ok,
                         corp |-> [j \in 1..Len(d.track.corp) |-> [ix |-> d.track.corp[j].ix, dc |-> d.track.corp[j].dc]]],
              chal |-> d.chal, ops |-> d.ops]

A == Advance(tk, dir)
(* writes are buffered: what is on disk of the corpus file that is open for writing is not compared while a scan is in flight *)
Mask(d, t) == IF t.pc \in {"scroll", "clear"}
              THEN (IF t.wh = "1k" THEN [d EXCEPT !.ix[Cur(t)].onek = Absent] ELSE [d EXCEPT !.ix[Cur(t)].full = Absent])
              ELSE d

Conforms(e) ==
    CASE e.a = "B" -> tk.pc \in {"idle", "done"}
      [] e.a = "Q" -> /\ Running(tk) /\ A.t.pc \in ReqPcs
                      /\ e.req = NextReq(A.t)
                      /\ AbsDir(Mask(e.dir, A.t)) = AbsDir(Mask(A.d, A.t))
                      /\ Serve(es, e.req) = [resp |-> e.resp, es |-> e.es]
      [] e.a = "C" -> tk.pc \in ReqPcs /\ e.i \in 1..N /\ cl[e.i].ex
      [] e.a = "R" -> tk.pc = "done"
      [] e.a = "F" -> /\ Running(tk) /\ A.t.pc \in {"render", "raise"}
                      /\ LET f == FinishF(A.t, A.d)
                         IN /\ AbsDir(e.dir) = AbsDir(f.d)
                            /\ e.res.st = f.res.st /\ e.res.why = f.res.why
                      /\ e.res.ld = (IF e.res.st = "ok" THEN LoadOf(e.dir) ELSE NoLd)
      [] OTHER -> FALSE

Apply(e, ok) ==
    /\ u' = u /\ act' = act
    /\ CASE e.a = "B" -> /\ tk' = [Tk0 EXCEPT !.pc = "start", !.run = tk.run + 1, !.opt = e.opt, !.d0 = dir]
                         /\ es' = [Es0 EXCEPT !.fail = e.fail] /\ UNCHANGED <<cl, dir, res>>
         [] e.a = "Q" -> /\ tk' = IF ok THEN [A.t EXCEPT !.pend = e.resp] ELSE tk
                         /\ es' = e.es /\ dir' = e.dir /\ UNCHANGED <<cl, res>>
         [] e.a = "C" -> /\ cl' = [cl EXCEPT ![e.i].n = e.n] /\ UNCHANGED <<tk, es, dir, res>>
         [] e.a = "R" -> /\ cl' = e.cl /\ tk' = [tk EXCEPT !.pc = "idle"] /\ UNCHANGED <<es, dir, res>>
         [] e.a = "F" -> /\ tk' = [(IF ok THEN A.t ELSE tk) EXCEPT !.pc = "done", !.pend = NoResp]
                         /\ dir' = e.dir /\ res' = e.res /\ UNCHANGED <<cl, es>>
         [] OTHER -> UNCHANGED <<cl, dir, tk, es, res>>

L1Failing ==
    {c \in {"TypeOK"} : ~TypeOK'} \cup {c \in {"SelectionSound"} : ~SelectionSound'} \cup {c \in {"SelectionComplete"} : ~SelectionComplete'}
    \cup {c \in {"SelectionOnce"} : ~SelectionOnce'} \cup {c \in {"BodiesFiltered"} : ~BodiesFiltered'} \cup {c \in {"EmptySkipped"} : ~EmptySkipped'}
    \cup {c \in {"NamesConsistent"} : ~NamesConsistent'} \cup {c \in {"InOrderOnce"} : ~InOrderOnce'} \cup {c \in {"Complete"} : ~Complete'}
    \cup {c \in {"OneK"} : ~OneK'} \cup {c \in {"NeverMoreThanCounted"} : ~NeverMoreThanCounted'} \cup {c \in {"BytesOnDisk"} : ~BytesOnDisk'}
    \cup {c \in {"CountOnDisk"} : ~CountOnDisk'} \cup {c \in {"Untouched"} : ~Untouched'} \cup {c \in {"FailedKeepsTrack"} : ~FailedKeepsTrack'}
    \cup {c \in {"ScrollsCleared"} : ~ScrollsCleared'} \cup {c \in {"NoSpuriousError"} : ~NoSpuriousError'} \cup {c \in {"ErrorSurfaces"} : ~ErrorSurfaces'}
    \cup {c \in {"Loads"} : ~Loads'} \cup {c \in {"LoaderAgrees"} : ~LoaderAgrees'} \cup {c \in {"ShardsParam"} : ~ShardsParam'}
    \cup {c \in {"DefaultChallenge"} : ~DefaultChallenge'} \cup {c \in {"CorporaPass"} : ~CorporaPass'} \cup {c \in {"TestModePass"} : ~TestModePass'}

Consume ==
    /\ tid <= Len(Traces) /\ l >= 1 /\ l <= Len(Item.events)
    /\ LET e == Item.events[l]
           l2 == IF dead \/ Skipped(l) THEN FALSE ELSE Conforms(e)
       IN /\ Apply(e, l2)
          /\ IF e.a # "F" THEN TRUE
             ELSE LET l1 == L1Failing IN IF l1 = {} THEN TRUE ELSE PrintT(<<"V", Item.id, l, "L1", l1>>)
          /\ IF dead \/ l2 THEN TRUE ELSE PrintT(<<"V", Item.id, l, "L2", {e.a}>>)
          /\ dead' = (dead \/ ~l2)
    /\ l' = l + 1 /\ nev' = nev + 1
    /\ UNCHANGED tid

EndOfRun ==
    /\ tid <= Len(Traces) /\ l = Len(Item.events) + 1
    /\ UNCHANGED <<vars, act, dead>>
    /\ IF dead \/ ~Running(tk) THEN TRUE ELSE PrintT(<<"V", Item.id, l, "L2", {"end"}>>)
    /\ nev' = nev + 1
    /\ IF tid < Len(Traces) THEN TRUE ELSE PrintT(<<"DONE", Len(Traces), nev'>>)
    /\ tid' = tid + 1 /\ l' = 0

TNext == BeginItem \/ Consume \/ EndOfRun
TSpec == TInit /\ [][TNext]_tvars
=============================================================================
