SPECIFICATION Spec
CONSTANTS
  TestDocs = 2
  Universe <- U5
  Clusters <- QClusters
  Dir0s <- QDir0s
  Options <- QOptions
  Fails <- Fails0
  ChurnTo <- NoChurn
  MaxChurn = 0
  MaxRuns = 1
  MaxPages = 4
  CountDumped = TRUE
  DedupIndices = FALSE
  LoadableNoCorpus = TRUE
  DsNoMatchOk = TRUE
VIEW View
INVARIANT Loads
CHECK_DEADLOCK FALSE
