SPECIFICATION Spec
CONSTANTS
  TestDocs = 2
  Universe <- U5
  Clusters <- CClusters
  Dir0s <- QDir0s
  Options <- COptions
  Fails <- Fails0
  ChurnTo <- Churn03
  MaxChurn = 2
  MaxRuns = 1
  MaxPages = 4
  CountDumped = FALSE
  DedupIndices = FALSE
  LoadableNoCorpus = FALSE
  DsNoMatchOk = FALSE
VIEW View
INVARIANT TypeOK
INVARIANT SelectionSound
INVARIANT SelectionComplete
INVARIANT BodiesFiltered
INVARIANT NamesConsistent
INVARIANT InOrderOnce
INVARIANT Complete
INVARIANT OneK
INVARIANT NeverMoreThanCounted
INVARIANT BytesOnDisk
INVARIANT Untouched
INVARIANT FailedKeepsTrack
INVARIANT ScrollsCleared
INVARIANT ErrorSurfaces
INVARIANT LoaderAgrees
INVARIANT ShardsParam
INVARIANT DefaultChallenge
INVARIANT TestModePass
CHECK_DEADLOCK FALSE
