----------------------------- MODULE MC_Tracker -----------------------------
(* Universe, clusters, directory states and option alphabets for the configurations of Tracker.tla *)
EXTENDS Tracker

U5 == << [nm |-> "a", dot |-> FALSE, grp |-> "a", ds |-> "", dgrp |-> ""],
         [nm |-> "ab", dot |-> FALSE, grp |-> "a", ds |-> "", dgrp |-> ""],
         [nm |-> ".h", dot |-> TRUE, grp |-> ".", ds |-> "", dgrp |-> ""],
         [nm |-> ".ds-logs-2026.01.01-000001", dot |-> TRUE, grp |-> ".", ds |-> "logs", dgrp |-> "l"],
         [nm |-> ".ds-logs-2026.01.02-000002", dot |-> TRUE, grp |-> ".", ds |-> "logs", dgrp |-> "l"] >>

(* settings keys below "index" as Elasticsearch reports them (sorted) *)
KStd == <<"creation_date", "number_of_replicas", "number_of_shards", "provided_name", "uuid", "version">>
KRich == <<"creation_date", "hidden", "number_of_shards", "provided_name", "refresh_interval", "routing", "store", "uuid", "version">>
KNone == <<>>

Off == [ex |-> FALSE, n |-> 0, keys |-> <<>>, sh |-> 0, rp |-> 0, mv |-> 0]
On(n, keys, sh, rp, mv) == [ex |-> TRUE, n |-> n, keys |-> keys, sh |-> sh, rp |-> rp, mv |-> mv]
(* -1 = the index does not exist *)
Cl(a, ab, h, d1, d2) ==
    << IF a < 0 THEN Off ELSE On(a, KStd, 3, 1, 1),
       IF ab < 0 THEN Off ELSE On(ab, KRich, 1, 0, 2),
       IF h < 0 THEN Off ELSE On(h, KNone, 0, 0, 3),
       IF d1 < 0 THEN Off ELSE On(d1, KRich, 2, 0, 4),
       IF d2 < 0 THEN Off ELSE On(d2, KRich, 2, 0, 4) >>

P(k, v) == [k |-> k, v |-> v]
Opt(mode, pats, b) == [mode |-> mode, pats |-> pats, b |-> b]

IdxPats == { <<P("all", "*")>>, <<P("all", "_all")>>, <<P("name", "a")>>, <<P("name", "a"), P("pre", "a")>>, <<P("pre", "a")>>,
             <<P("pre", ".")>>, <<P("name", "zz")>>, <<P("name", "zz"), P("name", "ab")>>, <<P("name", "logs")>>, <<P("pre", "l"), P("name", ".h")>>,
             <<P("pre", "z")>> }
DsPats == { <<P("name", "logs")>>, <<P("pre", "l")>>, <<P("pre", "m")>>, <<P("name", "nope")>>, <<P("pre", "m"), P("name", "logs")>>,
            <<P("name", "nope"), P("pre", "l")>>, <<P("all", "*")>> }
OptionsOf(bs) == {Opt("idx", p, b) : p \in IdxPats, b \in bs} \cup {Opt("ds", p, b) : p \in DsPats, b \in bs}

(* ---- quick: test-mode corpus of 2 documents, so 0..3 documents cover below / at / above the limit ---- *)
QClusters == {Cl(a, ab, h, d[1], d[2]) : a \in {-1, 0, 1, 2, 3}, ab \in {-1, 1}, h \in {-1, 2}, d \in {<<-1, -1>>, <<1, 0>>, <<3, 1>>}}
QOptions == OptionsOf({1, 2, 3})
QDir0s == {EmptyDir(5)}

(* ---- pre-existing directory states (index 1 = "a") ---- *)
Other == [k |-> "other", n |-> 0, sz |-> 7]
OtherBody == [k |-> "other", keys |-> <<>>, sh |-> -1, rp |-> -1, mv |-> 0]
OldBody == [k |-> "json", keys |-> <<"number_of_shards", "refresh_interval">>, sh |-> 9, rp |-> -1, mv |-> 7]
OldTrack(ix, dc) == [k |-> "json", ixs |-> <<ix>>, corp |-> <<[ix |-> ix, dc |-> dc, ub |-> 2 * dc, cb |-> dc + 14]>>, ok |-> TRUE]
Earlier(ix, n, k) == [EmptyDir(5) EXCEPT !.ix[ix] = [body |-> OldBody, full |-> Pfx(n), fullz |-> PfxZ(n), onek |-> Pfx(Min(n, k)), onekz |-> PfxZ(Min(n, k))],
                                         !.track = OldTrack(ix, n), !.chal = [k |-> "file", hix |-> <<ix>>], !.ops = "std"]
DirStates(k) ==
    { EmptyDir(5),
      Earlier(1, 1, k),                                                   \* complete earlier run, the index was shorter then
      Earlier(1, 5, k),                                                   \* ... longer then
      Earlier(2, 3, k),                                                   \* ... of another index
      [EmptyDir(5) EXCEPT !.ix[1].onek = Pfx(1), !.ix[1].onekz = PfxZ(1)],    \* interrupted: only the -1k files
      [EmptyDir(5) EXCEPT !.ix[1].full = Pfx(3), !.ix[1].fullz = PfxZ(3)],    \* only the full files
      [Earlier(1, 3, k) EXCEPT !.ix[1].full = Pfx(1), !.ix[1].fullz = Part],  \* interrupted in the middle of the full dump, stale track.json
      [EmptyDir(5) EXCEPT !.ix[1] = [body |-> OtherBody, full |-> Other, fullz |-> Other, onek |-> Other, onekz |-> Other],
                          !.track = [k |-> "other", ixs |-> <<>>, corp |-> <<>>, ok |-> FALSE], !.chal = [k |-> "other", hix |-> <<>>], !.ops = "other"] }

DClusters == {Cl(a, ab, -1, d, -1) : a \in {-1, 0, 1, 2, 3}, ab \in {-1, 1}, d \in {-1, 1}}
DOptions == {Opt("idx", p, b) : p \in {<<P("name", "a")>>, <<P("pre", "a")>>, <<P("all", "*")>>, <<P("name", "ab")>>}, b \in {1, 2}}
                \cup {Opt("ds", <<P("name", "logs")>>, 2)}

(* ---- two runs on the same directory ---- *)
RClusters == {Cl(a, ab, -1, -1, -1) : a \in {-1, 0, 1, 3}, ab \in {-1, 1}}
ROptions == {Opt("idx", p, 2) : p \in {<<P("name", "a")>>, <<P("pre", "a")>>, <<P("name", "ab")>>}}

(* ---- documents come and go during the run ---- *)
CClusters == {Cl(a, ab, -1, -1, -1) : a \in {0, 1, 2, 3}, ab \in {-1, 2}}
COptions == {Opt("idx", p, b) : p \in {<<P("name", "a")>>, <<P("pre", "a")>>}, b \in {1, 2}}

(* ---- simulation: the real sizes ---- *)
SClusters == {Cl(a, ab, h, d[1], d[2]) : a \in {-1, 0, 1, 2, 5, 999, 1000, 1001, 1500, 2001}, ab \in {-1, 0, 1, 1000, 1001}, h \in {-1, 0, 2},
                                         d \in {<<-1, -1>>, <<1, 0>>, <<3, 1>>, <<0, 0>>, <<1001, 2>>}}
SOptions == OptionsOf({1, 2, 3, 400, 500, 1000, 2000})
SDir0s == DirStates(1000)

DDir0s == DirStates(2)
NoChurn == {}
Churn03 == 0..3
SChurn == {0, 1, 3, 999, 1000, 1001, 1200}
Fails0 == {0}
Fails7 == 0..7
Fails9 == 0..9
Fails12 == 0..12
Fails16 == 0..16
Fails40 == {0, 1, 2, 3, 5, 8, 11, 14, 17, 20, 25, 30} \cup 101..110      \* > 100: never reached (half of the runs without a failing request)
(* ---- thorough ---- *)
TClusters == {Cl(a, ab, h, d[1], d[2]) : a \in {-1, 0, 1, 2, 3, 4}, ab \in {-1, 0, 1, 3}, h \in {-1, 0, 2}, d \in {<<-1, -1>>, <<1, 0>>, <<3, 1>>, <<0, 0>>}}
=============================================================================
