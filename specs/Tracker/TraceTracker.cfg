SPECIFICATION TSpec
CONSTANTS
  TestDocs = 1000
  Universe <- TU
  Clusters <- TNone
  Dir0s <- TNone
  Options <- TNone
  Fails <- TNone
  ChurnTo <- TNone
  MaxChurn = 0
  MaxRuns = 0
  MaxPages = 0
  CountDumped = FALSE
  DedupIndices = FALSE
  LoadableNoCorpus = FALSE
  DsNoMatchOk = FALSE
CHECK_DEADLOCK FALSE
