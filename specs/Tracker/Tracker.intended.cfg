SPECIFICATION Spec
CONSTANTS
  TestDocs = 2
  Universe <- U5
  Clusters <- QClusters
  Dir0s <- QDir0s
  Options <- QOptions
  Fails <- Fails12
  ChurnTo <- NoChurn
  MaxChurn = 0
  MaxRuns = 1
  MaxPages = 4
  CountDumped = TRUE
  DedupIndices = TRUE
  LoadableNoCorpus = TRUE
  DsNoMatchOk = TRUE
VIEW View
INVARIANT TypeOK
INVARIANT SelectionSound
INVARIANT SelectionComplete
INVARIANT SelectionOnce
INVARIANT BodiesFiltered
INVARIANT EmptySkipped
INVARIANT NamesConsistent
INVARIANT InOrderOnce
INVARIANT Complete
INVARIANT OneK
INVARIANT NeverMoreThanCounted
INVARIANT BytesOnDisk
INVARIANT CountOnDisk
INVARIANT Untouched
INVARIANT FailedKeepsTrack
INVARIANT ScrollsCleared
INVARIANT NoSpuriousError
INVARIANT ErrorSurfaces
INVARIANT Loads
INVARIANT LoaderAgrees
INVARIANT ShardsParam
INVARIANT DefaultChallenge
INVARIANT CorporaPass
INVARIANT TestModePass
CHECK_DEADLOCK FALSE
