SPECIFICATION Spec
CONSTANTS
  TestDocs = 2
  Universe <- U5
  Clusters <- TClusters
  Dir0s <- DDir0s
  Options <- QOptions
  Fails <- Fails16
  ChurnTo <- NoChurn
  MaxChurn = 0
  MaxRuns = 1
  MaxPages = 4
  CountDumped = FALSE
  DedupIndices = FALSE
  LoadableNoCorpus = FALSE
  DsNoMatchOk = FALSE
VIEW View
INVARIANT TypeOK
INVARIANT SelectionSound
INVARIANT SelectionComplete
INVARIANT BodiesFiltered
INVARIANT EmptySkipped
INVARIANT NamesConsistent
INVARIANT InOrderOnce
INVARIANT Complete
INVARIANT OneK
INVARIANT NeverMoreThanCounted
INVARIANT BytesOnDisk
INVARIANT CountOnDisk
INVARIANT Untouched
INVARIANT FailedKeepsTrack
INVARIANT ScrollsCleared
INVARIANT ErrorSurfaces
INVARIANT LoaderAgrees
INVARIANT ShardsParam
INVARIANT DefaultChallenge
INVARIANT CorporaPass
INVARIANT TestModePass
CHECK_DEADLOCK FALSE
