SPECIFICATION Spec
CONSTANTS
  TestDocs = 1000
  Universe <- U5
  Clusters <- SClusters
  Dir0s <- SDir0s
  Options <- SOptions
  Fails <- Fails40
  ChurnTo <- SChurn
  MaxChurn = 2
  MaxRuns = 2
  MaxPages = 5
  CountDumped = FALSE
  DedupIndices = FALSE
  LoadableNoCorpus = FALSE
  DsNoMatchOk = FALSE
VIEW View
INVARIANT TypeOK
INVARIANT SelectionSound
INVARIANT SelectionComplete
INVARIANT BodiesFiltered
INVARIANT NamesConsistent
INVARIANT InOrderOnce
INVARIANT Complete
INVARIANT OneK
INVARIANT NeverMoreThanCounted
INVARIANT BytesOnDisk
INVARIANT Untouched
INVARIANT FailedKeepsTrack
INVARIANT ScrollsCleared
INVARIANT ErrorSurfaces
INVARIANT LoaderAgrees
INVARIANT ShardsParam
INVARIANT DefaultChallenge
INVARIANT TestModePass
CHECK_DEADLOCK FALSE
