SPECIFICATION Spec
CONSTANTS
  Inputs <- InputsQuick
  GInputs <- GInputsQuick
  ResetRampUp = FALSE
  KeepExplicitDefault = FALSE
INVARIANT IRampUpWithinWarmup
CHECK_DEADLOCK FALSE
