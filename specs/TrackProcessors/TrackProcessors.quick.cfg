SPECIFICATION Spec
CONSTANTS
  Inputs <- InputsQuick
  GInputs <- GInputsQuick
  ResetRampUp = FALSE
  KeepExplicitDefault = FALSE
INVARIANT WeakHold
INVARIANT RegistryHold
CHECK_DEADLOCK FALSE
