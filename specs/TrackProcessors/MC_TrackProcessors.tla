------------------------ MODULE MC_TrackProcessors ------------------------
EXTENDS TrackProcessors

Seqs(S, n) == UNION {[1..m -> S] : m \in 0..n}
Info0 == [par |-> 0, excl |-> <<>>]
Cfg(tm, sl, fmode, fn) == [tm |-> tm, sl |-> sl, fmode |-> fmode, fn |-> fn]
\* timing profile [wi, it, wtp, tp, ru] (all admitted by the reader: no mix of iterations and periods, ramp-up <= warmup-time-period)
Tim(wi, it, wtp, tp, ru) == [wi |-> wi, it |-> it, wtp |-> wtp, tp |-> tp, ru |-> ru]
Timings == {Tim(Absent, Absent, Absent, Absent, Absent), Tim(5, 5, Absent, Absent, Absent), Tim(1, 2, Absent, Absent, Absent), Tim(Absent, 5, Absent, Absent, Absent),
            Tim(0, 1, Absent, Absent, Absent), Tim(Absent, Absent, 20, 60, Absent), Tim(Absent, Absent, 20, 60, 20), Tim(Absent, Absent, 0, 5, Absent),
            Tim(Absent, Absent, 20, 10, 0), Tim(Absent, Absent, Absent, 11, Absent), Tim(Absent, Absent, 30, Absent, 10)}
FewTimings == {Tim(Absent, Absent, Absent, Absent, Absent), Tim(5, 5, Absent, Absent, Absent), Tim(Absent, Absent, 20, 60, 20)}
Leaf(nm, op, ros, cl, t, tt) == [name |-> nm, op |-> op, ros |-> ros, cl |-> cl, wi |-> t.wi, it |-> t.it, wtp |-> t.wtp, tp |-> t.tp, ru |-> t.ru, tt |-> tt, mu |-> ""]
S(l) == [par |-> FALSE, tasks |-> <<l>>]
P(ls) == [par |-> TRUE, tasks |-> ls]
Ch(nm, sched) == [name |-> nm, sched |-> sched, info |-> Info0]
Doc(bulk, n, arch, csz, usz) == [bulk |-> bulk, n |-> n, arch |-> arch, file |-> "orig", csz |-> csz, usz |-> usz]
Docs == {Doc(b, n, ar, sz[1], sz[2]) : b \in BOOLEAN, n \in {500, 1000, 1001}, ar \in {"none", "orig"}, sz \in {<<5, 7>>, <<Absent, Absent>>, <<5, Absent>>}}
OneCorpus == <<[name |-> "c1", docs |-> <<Doc(TRUE, 2000, "orig", 5, 7), Doc(FALSE, 2000, "orig", 5, 7)>>]>>
TM == {Cfg(TRUE, "off", "none", <<>>), Cfg(FALSE, "off", "none", <<>>)}

\* slice 1: every timing profile x throttle x clients for one task, alone and inside a parallel element
Slice1 == [cfg : TM, corpora : {OneCorpus},
           chs : {<<Ch("ch", <<S(Leaf("a", "bulk", "unset", cl, t, tt))>>)>> : cl \in {1, 2}, t \in Timings, tt \in {"none", "zero", "str", "num", "ival"}}
                 \cup {<<Ch("ch", <<P(<<Leaf("a", "bulk", "unset", cl, t, "str"), Leaf("b", "search", "unset", 3, u, "none")>>)>>)>> : cl \in {1, 2}, t \in Timings, u \in FewTimings}]
\* slice 2: corpora
Slice2 == [cfg : TM, corpora : {<<[name |-> "c1", docs |-> ds]>> : ds \in Seqs(Docs, 1)}
                               \cup {<<[name |-> "c1", docs |-> <<d>>], [name |-> "c2", docs |-> <<Doc(TRUE, 1001, "none", 5, 7), d>>]>> : d \in Docs} \cup {<<>>},
           chs : {<<Ch("ch", <<S(Leaf("a", "bulk", "unset", 1, Tim(Absent, 5, Absent, Absent, Absent), "none"))>>)>>}]
\* slice 3: the filters. operation / run-on-serverless profiles for the tasks a, b, c over six schedule shapes
OpRos == {<<"bulk", "unset">>, <<"force-merge", "unset">>, <<"force-merge", "yes">>, <<"bulk", "no">>, <<"create-index-template", "unset">>, <<"my-custom-op", "unset">>}
FewOpRos == {<<"search", "unset">>, <<"node-stats", "unset">>}
MidOpRos == {<<"bulk", "unset">>, <<"force-merge", "unset">>, <<"force-merge", "yes">>, <<"create-index-template", "unset">>}
T1 == Tim(Absent, Absent, 20, 60, 20)
Scheds(a, b, c) == {<<S(a)>>, <<S(a), S(b)>>, <<P(<<a, b>>)>>, <<P(<<a, b>>), S(c)>>, <<S(a), P(<<b, c>>)>>, <<P(<<a>>), S(b), S(c)>>}
Filters == {<<"none", <<>>>>, <<"exclude", <<"a">>>>, <<"exclude", <<"a", "b">>>>, <<"include", <<"a">>>>, <<"include", <<"b", "c">>>>, <<"include", <<"zz">>>>}
Slice3 == [cfg : {Cfg(tm, sl, f[1], f[2]) : tm \in BOOLEAN, sl \in {"off", "public", "operator"}, f \in Filters}, corpora : {<<>>},
           chs : UNION {{<<Ch("ch", s)>> : s \in Scheds(Leaf("a", x[1], x[2], 1, T1, "str"), Leaf("b", y[1], y[2], 2, Tim(5, 5, Absent, Absent, Absent), "none"),
                                                       Leaf("c", z[1], z[2], 1, Tim(Absent, Absent, Absent, Absent, Absent), "none"))}
                        : x \in OpRos, y \in MidOpRos, z \in FewOpRos}]
\* slice 4: two challenges (the same task names may occur in both)
Slice4 == [cfg : {Cfg(TRUE, sl, f[1], f[2]) : sl \in {"off", "public"}, f \in {<<"none", <<>>>>, <<"exclude", <<"a">>>>}}, corpora : {OneCorpus},
           chs : {<<Ch("ch1", s), Ch("ch2", t)>> : s \in Scheds(Leaf("a", "bulk", "unset", 1, T1, "str"), Leaf("b", "force-merge", "unset", 2, T1, "none"), Leaf("c", "search", "unset", 1, T1, "none")),
                                                   t \in {<<>>, <<S(Leaf("a", "node-stats", "unset", 1, T1, "none"))>>, <<S(Leaf("b", "bulk", "unset", 4, Tim(9, 9, Absent, Absent, Absent), "ival"))>>}}]
InputsQuick == Slice1 \cup Slice2 \cup Slice3 \cup Slice4
GInputsQuick == [regs : Seqs({"D", "C1", "C2", "R"}, 4), reads : {1}]
\* thorough: every operation / run-on-serverless profile for all three tasks
Slice3T == [cfg : {Cfg(tm, sl, f[1], f[2]) : tm \in BOOLEAN, sl \in {"off", "public", "operator"}, f \in Filters}, corpora : {<<>>},
            chs : UNION {{<<Ch("ch", s)>> : s \in Scheds(Leaf("a", x[1], x[2], 1, T1, "str"), Leaf("b", y[1], y[2], 2, Tim(5, 5, Absent, Absent, Absent), "none"),
                                                        Leaf("c", z[1], z[2], 1, Tim(Absent, Absent, 30, Absent, 10), "ival"))}
                         : x \in OpRos, y \in OpRos, z \in OpRos \cup FewOpRos}]
InputsThorough == InputsQuick \cup Slice3T
GInputsThorough == [regs : Seqs({"D", "C1", "C2", "R"}, 6), reads : {1, 2}]
=============================================================================
