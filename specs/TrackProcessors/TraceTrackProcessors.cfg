SPECIFICATION TSpec
CONSTANTS
  Inputs = {}
  GInputs = {}
  ResetRampUp = FALSE
  KeepExplicitDefault = FALSE
CHECK_DEADLOCK FALSE
