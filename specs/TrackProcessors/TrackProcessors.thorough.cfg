SPECIFICATION Spec
CONSTANTS
  Inputs <- InputsThorough
  GInputs <- GInputsThorough
  ResetRampUp = FALSE
  KeepExplicitDefault = FALSE
INVARIANT WeakHold
INVARIANT RegistryHold
CHECK_DEADLOCK FALSE
