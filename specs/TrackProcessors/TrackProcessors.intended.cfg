SPECIFICATION Spec
CONSTANTS
  Inputs <- InputsQuick
  GInputs <- GInputsQuick
  ResetRampUp = TRUE
  KeepExplicitDefault = TRUE
INVARIANT WeakHold
INVARIANT RegistryHold
CHECK_DEADLOCK FALSE
INVARIANT IRampUpWithinWarmup
INVARIANT IRegisteredKept
