SPECIFICATION TSpec
CONSTANTS
  Inputs = {}
  GInputs = {}
  ResetRampUp = TRUE
  KeepExplicitDefault = TRUE
CHECK_DEADLOCK FALSE
