-------------------------- MODULE TrackProcessors --------------------------
(***************************************************************************)
(* What happens to a loaded track AFTER the reader (esrally/track/loader.py *)
(* TrackProcessorRegistry, TaskFilterTrackProcessor (name filters only,    *)
(* the full filter is specs/TaskFilter), ServerlessFilterTrackProcessor,   *)
(* TestModeTrackProcessor, the default / custom track processors).         *)
(*                                                                         *)
(* Function-like: Init chooses an input, Eval computes the result with     *)
(* Code (transcription of the code as it is; two named switches hold the   *)
(* places where the code departs from the documented behaviour).  The      *)
(* declarative statement is the clause set Weak \cup Strong (Holds) for    *)
(* the pipeline and GWeak \cup GStrong (GHolds) for the registry.          *)
(*                                                                         *)
(* A track is [corpora, chs].  corpora: sequence of [name, docs], a doc is *)
(* [bulk, n, arch, file, csz, usz]: arch / file "none" | "orig" | "1k"     *)
(* (the name the reader produced, or that name with -1k in front of the    *)
(* extensions), csz / usz the (un)compressed size or Absent (= None).      *)
(* chs: sequence of [name, sched, info]; an element of sched is            *)
(* [par, tasks] (par = a parallel element, otherwise exactly one task); a  *)
(* leaf task is [name, op, ros, cl, wi, it, wtp, tp, ru, tt, mu]: op the   *)
(* operation type, ros run-on-serverless "unset" | "yes" | "no", cl the    *)
(* clients, wi / it / wtp / tp / ru = warmup-iterations / iterations /     *)
(* warmup-time-period / time-period / ramp-up-time-period (Absent = not    *)
(* given), tt the throttle: "none" | "zero" (target-throughput 0) | "str"  *)
(* ("5 docs/s") | "num" (5) | "ival" (target-interval) | "max" (maxsize    *)
(* with unit mu).  info = [par, excl]: number of "Treating parallel task   *)
(* ... as public" lines and the task names of every "Excluding ..." line.  *)
(* cfg = [tm, sl, fmode, fn]: test mode, serverless "off" | "public" |     *)
(* "operator", task filter "none" | "include" | "exclude" with names fn.   *)
(*                                                                         *)
(* The result of a pipeline input is [main, twice, sw, tmf, other]: the    *)
(* track after the processors in Rally's order (task filter, serverless    *)
(* filter, test mode), after running them a second time, in the orders     *)
(* serverless / task filter / test mode and test mode / task filter /      *)
(* serverless, and whether any attribute outside this record changed.      *)
(***************************************************************************)
EXTENDS Integers, Sequences, FiniteSets, TLC

CONSTANTS Inputs,              \* pipeline inputs [cfg, corpora, chs]
          GInputs,             \* registry inputs [regs, reads]
          ResetRampUp,         \* TRUE = repaired: test mode also brings ramp-up-time-period down to the warmup time period (0)
          KeepExplicitDefault  \* TRUE = repaired: a registered processor is never dropped by a later registration

VARIABLES in, res, done
vars == <<in, res, done>>

Absent == -1
NoRes == [k |-> "-"]
Range(s) == {s[i] : i \in DOMAIN s}
Min(a, b) == IF a < b THEN a ELSE b
IsG(x) == "regs" \in DOMAIN x

\* ---------------------------------------------------------------- serverless status table (track.OperationType)
BlockedOps == {"create-index-template", "delete-index-template", "shrink-index", "create-ilm-policy", "delete-ilm-policy"}
InternalOps == {"index-stats", "node-stats", "wait-for-recovery", "wait-for-snapshot-create", "wait-for-current-snapshots-create", "downsample",
                "force-merge", "cluster-health", "delete-snapshot-repository", "create-snapshot-repository", "create-snapshot",
                "restore-snapshot", "put-settings"}
\* every other operation type (also a user-provided one, raw-request, composite) counts as public
Rank(op) == IF op \in BlockedOps THEN 1 ELSE IF op \in InternalOps THEN 2 ELSE 3
Threshold(sl) == IF sl = "operator" THEN 2 ELSE 3
SlDrops(l, sl) == IF l.ros # "unset" THEN l.ros = "no" ELSE Rank(l.op) < Threshold(sl)

\* ---------------------------------------------------------------- the processors (transcription)
Throttled == {"str", "num", "ival", "max"}
UnitOf(l) == IF l.tt = "str" THEN "docs/s" ELSE IF l.tt = "max" THEN l.mu ELSE "ops/s"
Cap(v, c) == IF v # Absent /\ v > c THEN c ELSE v

TMLeaf(l) ==
    LET wtp == Cap(l.wtp, 0)
    IN [l EXCEPT !.wi = Cap(@, l.cl), !.it = Cap(@, l.cl), !.wtp = wtp, !.tp = Cap(@, 10),
                 !.ru = IF ResetRampUp /\ wtp # Absent THEN Cap(@, wtp) ELSE @,
                 !.tt = IF @ \in Throttled THEN "max" ELSE @,
                 !.mu = IF l.tt \in Throttled THEN UnitOf(l) ELSE @]

K1(nm) == IF nm = "orig" THEN "1k" ELSE nm
TMDoc(d) == IF d.bulk /\ d.n > 1000
            THEN [d EXCEPT !.n = 1000, !.arch = K1(@), !.file = K1(@), !.csz = Absent, !.usz = Absent]
            ELSE d

MapSeq(s, F(_)) == [i \in DOMAIN s |-> F(s[i])]
TMElem(e) == [e EXCEPT !.tasks = MapSeq(@, TMLeaf)]
TMCh(ch) == [ch EXCEPT !.sched = MapSeq(@, TMElem)]
TMCorpus(c) == [c EXCEPT !.docs = MapSeq(@, TMDoc)]
TestMode(T, cfg) == IF cfg.tm THEN [corpora |-> MapSeq(T.corpora, TMCorpus), chs |-> MapSeq(T.chs, TMCh)] ELSE T

SLCh(ch, sl) ==
    LET gone == SelectSeq(ch.sched, LAMBDA e : ~e.par /\ SlDrops(e.tasks[1], sl))
        npar == Len(SelectSeq(ch.sched, LAMBDA e : e.par))
    IN [ch EXCEPT !.sched = SelectSeq(@, LAMBDA e : e.par \/ ~SlDrops(e.tasks[1], sl)),
                  !.info = [par |-> @.par + npar, excl |-> IF gone = <<>> THEN @.excl ELSE Append(@.excl, MapSeq(gone, LAMBDA e : e.tasks[1].name))]]
Serverless(T, cfg) == IF cfg.sl = "off" THEN T ELSE [T EXCEPT !.chs = MapSeq(@, LAMBDA ch : SLCh(ch, cfg.sl))]

TFCh(ch, cfg) ==
    LET names == Range(cfg.fn)
        excl == cfg.fmode = "exclude"
        Match(e) == \E i \in DOMAIN e.tasks : e.tasks[i].name \in names
        Out(e) == IF Match(e) THEN (IF e.par /\ excl THEN FALSE ELSE excl) ELSE ~excl
        LeafOut(l) == IF l.name \in names THEN excl ELSE ~excl
        Pruned(e) == IF e.par THEN [e EXCEPT !.tasks = SelectSeq(@, LAMBDA l : ~LeafOut(l))] ELSE e
        kept == SelectSeq(ch.sched, LAMBDA e : ~Out(e))
    IN [ch EXCEPT !.sched = SelectSeq(MapSeq(kept, Pruned), LAMBDA e : e.tasks # <<>>)]
TaskFilter(T, cfg) == IF cfg.fmode = "none" \/ cfg.fn = <<>> THEN T ELSE [T EXCEPT !.chs = MapSeq(@, LAMBDA ch : TFCh(ch, cfg))]

Stage(s, T, cfg) == IF s = "tf" THEN TaskFilter(T, cfg) ELSE IF s = "sl" THEN Serverless(T, cfg) ELSE TestMode(T, cfg)
Pipe(T, cfg, order) == Stage(order[3], Stage(order[2], Stage(order[1], T, cfg), cfg), cfg)
RallyOrder == <<"tf", "sl", "tm">>
TrackOf(a) == [corpora |-> a.corpora, chs |-> a.chs]

Code(a) ==
    LET m == Pipe(TrackOf(a), a.cfg, RallyOrder)
    IN [main |-> m, twice |-> Pipe(m, a.cfg, RallyOrder), sw |-> Pipe(TrackOf(a), a.cfg, <<"sl", "tf", "tm">>),
        tmf |-> Pipe(TrackOf(a), a.cfg, <<"tm", "tf", "sl">>), other |-> FALSE]

\* ---------------------------------------------------------------- the registry (transcription)
Required == <<"TF", "SL", "TM">>
\* st = [tp, custom]; regs the processors still to register
RECURSIVE Register(_, _)
\* reading `processors` while nothing custom is registered registers a fresh implicit default (as it is: into the same list)
ReadProcs(st) == IF st.custom THEN st ELSE [tp |-> <<"D">>, custom |-> FALSE]
Register(st, regs) ==
    IF regs = <<>> THEN st
    ELSE LET p == Head(regs)
             tp0 == IF ~st.custom /\ ~KeepExplicitDefault THEN <<>> ELSE st.tp
         IN IF p = "R" THEN Register(IF KeepExplicitDefault THEN st ELSE ReadProcs(st), Tail(regs))   \* "R": the property is read between two registrations
            ELSE Register([tp |-> Append(tp0, p), custom |-> st.custom \/ p # "D" \/ KeepExplicitDefault], Tail(regs))
Final(regs) == LET one == ReadProcs(Register([tp |-> <<>>, custom |-> FALSE], regs)) IN <<Required \o one.tp, Required \o ReadProcs(one).tp>>
NoReads(regs) == SelectSeq(regs, LAMBDA p : p # "R")
GCode(a) == [first |-> Final(a.regs)[1], procs |-> Final(a.regs)[2], nor |-> Final(NoReads(a.regs))[2], inj |-> TRUE, noop |-> TRUE]

\* ---------------------------------------------------------------- the statement (pipeline)
RECURSIVE Flat(_)
Flat(s) == IF s = <<>> THEN <<>> ELSE Head(s).tasks \o Flat(Tail(s))
RECURSIVE IsSubseq(_, _)
IsSubseq(s, t) == IF s = <<>> THEN TRUE ELSE IF t = <<>> THEN FALSE
                  ELSE IF Head(s) = Head(t) THEN IsSubseq(Tail(s), Tail(t)) ELSE IsSubseq(s, Tail(t))
LeafNames(ch) == MapSeq(Flat(ch.sched), LAMBDA l : l.name)
Shape(T) == MapSeq(T.chs, LAMBDA ch : [name |-> ch.name, sched |-> MapSeq(ch.sched, LAMBDA e : [par |-> e.par, names |-> MapSeq(e.tasks, LAMBDA l : l.name)])])
Strip(T) == [T EXCEPT !.chs = MapSeq(@, LAMBDA ch : [ch EXCEPT !.info = [par |-> 0, excl |-> <<>>]])]
NoInfo == [par |-> 0, excl |-> <<>>]
OrigLeaf(a, ci, nm) == CHOOSE l \in Range(Flat(a.chs[ci].sched)) : l.name = nm
\* every leaf of the result together with the leaf of the input it stems from
LeafPairs(a, m) == UNION {{<<l, OrigLeaf(a, ci, l.name)>> : l \in Range(Flat(m.chs[ci].sched))} : ci \in DOMAIN m.chs}
DocPairs(a, m) == UNION {{<<m.corpora[ci].docs[di], a.corpora[ci].docs[di]>> : di \in DOMAIN m.corpora[ci].docs} : ci \in DOMAIN m.corpora}
SameChallenges(a, m) == /\ Len(m.chs) = Len(a.chs)
                        /\ \A ci \in DOMAIN m.chs : /\ m.chs[ci].name = a.chs[ci].name
                                                    /\ Range(LeafNames(m.chs[ci])) \subseteq Range(LeafNames(a.chs[ci]))
SameCorpora(a, m) == /\ Len(m.corpora) = Len(a.corpora)
                     /\ \A ci \in DOMAIN m.corpora : m.corpora[ci].name = a.corpora[ci].name /\ Len(m.corpora[ci].docs) = Len(a.corpora[ci].docs)
NoFilter(a) == a.cfg.sl = "off" /\ (a.cfg.fmode = "none" \/ a.cfg.fn = <<>>)
NoTaskFilter(a) == a.cfg.fmode = "none" \/ a.cfg.fn = <<>>

Weak == {"ChallengesKept", "OrderPreserved", "NoEmptyParallel", "ShapePreserved", "LeafIdentity", "RampUpNeverRaised", "CapsAreMins",
         "TestModeOffIdentity", "ThrottleKept", "CorporaCapped", "Suffix1k", "Idempotent", "FiltersCommute", "TestModeCommutes",
         "ServerlessByStatus", "ParallelsPublic", "ServerlessOffSilent", "ExcludedReported", "NoUndocumentedChange"}
Strong == {"RampUpWithinWarmup"}

Holds(c, a, r) ==
    LET m == r.main
        ok == SameChallenges(a, m) /\ SameCorpora(a, m)
    IN CASE c = "ChallengesKept" -> ok    \* no challenge and no corpus appears or disappears (an emptied challenge stays, with an empty schedule)
       [] ~ok -> TRUE   \* the other clauses talk about the parts of a track with the same skeleton
       [] c = "OrderPreserved" -> \A ci \in DOMAIN m.chs : IsSubseq(LeafNames(m.chs[ci]), LeafNames(a.chs[ci]))
       [] c = "NoEmptyParallel" -> \A ci \in DOMAIN m.chs : \A e \in Range(m.chs[ci].sched) : e.tasks # <<>> /\ (~e.par => Len(e.tasks) = 1)
       [] c = "ShapePreserved" -> NoFilter(a) => Shape(m) = Shape(TrackOf(a))
       [] c = "LeafIdentity" -> \A p \in LeafPairs(a, m) : p[1].name = p[2].name /\ p[1].op = p[2].op /\ p[1].ros = p[2].ros /\ p[1].cl = p[2].cl
       [] c = "RampUpNeverRaised" -> \A p \in LeafPairs(a, m) : (p[1].ru = Absent <=> p[2].ru = Absent) /\ p[1].ru <= p[2].ru
       [] c = "CapsAreMins" -> a.cfg.tm => \A p \in LeafPairs(a, m) :
                                  /\ p[1].wi = (IF p[2].wi = Absent THEN Absent ELSE Min(p[2].wi, p[2].cl))
                                  /\ p[1].it = (IF p[2].it = Absent THEN Absent ELSE Min(p[2].it, p[2].cl))
                                  /\ p[1].wtp = (IF p[2].wtp = Absent THEN Absent ELSE Min(p[2].wtp, 0))
                                  /\ p[1].tp = (IF p[2].tp = Absent THEN Absent ELSE Min(p[2].tp, 10))
       [] c = "TestModeOffIdentity" -> ~a.cfg.tm => m.corpora = a.corpora /\ \A p \in LeafPairs(a, m) : p[1] = p[2]
       [] c = "ThrottleKept" -> a.cfg.tm => \A p \in LeafPairs(a, m) :
                                  IF p[2].tt \in Throttled THEN p[1].tt = "max" /\ p[1].mu = UnitOf(p[2]) ELSE p[1].tt = p[2].tt /\ p[1].mu = p[2].mu
       [] c = "CorporaCapped" -> a.cfg.tm => \A p \in DocPairs(a, m) : p[1].bulk = p[2].bulk /\ p[1].n = (IF p[2].bulk THEN Min(p[2].n, 1000) ELSE p[2].n)
       [] c = "Suffix1k" -> a.cfg.tm => \A p \in DocPairs(a, m) :
                                  IF p[2].bulk /\ p[2].n > 1000
                                  THEN p[1].file = "1k" /\ p[1].arch = (IF p[2].arch = "none" THEN "none" ELSE "1k") /\ p[1].csz = Absent /\ p[1].usz = Absent
                                  ELSE p[1] = p[2]
       [] c = "Idempotent" -> Strip(r.twice) = Strip(m)
       [] c = "FiltersCommute" -> Strip(r.sw) = Strip(m)
       [] c = "TestModeCommutes" -> r.tmf = m
       [] c = "ServerlessByStatus" -> a.cfg.sl # "off" /\ NoTaskFilter(a) => \A ci \in DOMAIN m.chs : \A e \in Range(a.chs[ci].sched) :
                                  ~e.par => (e.tasks[1].name \in Range(LeafNames(m.chs[ci])) <=> ~SlDrops(e.tasks[1], a.cfg.sl))
       [] c = "ParallelsPublic" -> a.cfg.sl # "off" /\ NoTaskFilter(a) => \A ci \in DOMAIN m.chs : \A e \in Range(a.chs[ci].sched) :
                                  e.par => \E f \in Range(m.chs[ci].sched) : f.par /\ MapSeq(f.tasks, LAMBDA l : l.name) = MapSeq(e.tasks, LAMBDA l : l.name)
       [] c = "ServerlessOffSilent" -> a.cfg.sl = "off" => \A ci \in DOMAIN m.chs : m.chs[ci].info = NoInfo
       [] c = "ExcludedReported" -> a.cfg.sl # "off" /\ NoTaskFilter(a) => \A ci \in DOMAIN m.chs :
                                  LET gone == SelectSeq(LeafNames(a.chs[ci]), LAMBDA nm : nm \notin Range(LeafNames(m.chs[ci])))
                                  IN /\ m.chs[ci].info.excl = (IF gone = <<>> THEN <<>> ELSE <<gone>>)
                                     /\ m.chs[ci].info.par = Cardinality({i \in DOMAIN a.chs[ci].sched : a.chs[ci].sched[i].par})
       [] c = "NoUndocumentedChange" -> ~r.other
       [] c = "RampUpWithinWarmup" -> \A p \in LeafPairs(a, m) : p[1].ru # Absent => p[1].wtp # Absent /\ p[1].wtp >= p[1].ru
       [] OTHER -> FALSE

\* ---------------------------------------------------------------- the statement (registry)
GWeak == {"RequiredFirst", "DefaultWhenNoCustom", "CustomReplacesImplicitDefault", "StableReads", "ReadsDoNotHarden", "Injected", "NoopPrepare"}
GStrong == {"RegisteredKept"}
CountOf(s, x) == Cardinality({i \in DOMAIN s : s[i] = x})
GHolds(c, a, r) ==
    LET tail == SubSeq(r.procs, 4, Len(r.procs))
        regd == NoReads(a.regs)
        custom == \E i \in DOMAIN regd : regd[i] # "D"
    IN CASE c = "RequiredFirst" -> Len(r.procs) >= 3 /\ SubSeq(r.procs, 1, 3) = Required
       [] c = "DefaultWhenNoCustom" -> regd = <<>> => tail = <<"D">>
       [] c = "CustomReplacesImplicitDefault" -> custom => CountOf(tail, "D") <= CountOf(regd, "D") /\ IsSubseq(SelectSeq(regd, LAMBDA p : p # "D"), tail)
       [] c = "StableReads" -> r.first = r.procs
       [] c = "ReadsDoNotHarden" -> r.procs = r.nor    \* an implicit default handed out by an earlier read does not stay once a plugin registers
       [] c = "Injected" -> r.inj
       [] c = "NoopPrepare" -> r.noop
       [] c = "RegisteredKept" -> regd # <<>> => tail = regd
       [] OTHER -> FALSE

\* ---------------------------------------------------------------- function-like behaviour
Init == /\ \/ in \in Inputs
           \/ in \in GInputs
        /\ res = NoRes /\ done = FALSE
Eval == ~done /\ res' = (IF IsG(in) THEN GCode(in) ELSE Code(in)) /\ done' = TRUE /\ UNCHANGED in
Next == Eval
Spec == Init /\ [][Next]_vars

WeakHold == done /\ ~IsG(in) => \A c \in Weak : Holds(c, in, res)
RegistryHold == done /\ IsG(in) => \A c \in GWeak : GHolds(c, in, res)
IRampUpWithinWarmup == done /\ ~IsG(in) => Holds("RampUpWithinWarmup", in, res)
IRegisteredKept == done /\ IsG(in) => GHolds("RegisteredKept", in, res)
=============================================================================
