SPECIFICATION Spec
CONSTANTS
  Inputs <- InputsQuick
  GInputs <- GInputsQuick
  ResetRampUp = FALSE
  KeepExplicitDefault = FALSE
INVARIANT IRegisteredKept
CHECK_DEADLOCK FALSE
