----------------------- MODULE TraceTrackProcessors -----------------------
(***************************************************************************)
(* Validates recorded results of the REAL track processors: "p" items      *)
(* [id, kind, a, r] = a track built as real track.Track objects and run    *)
(* through TaskFilter / ServerlessFilter / TestMode track processors        *)
(* (Rally's order, a second time, and two other orders), "g" items = a      *)
(* sequence of registrations on a real TrackProcessorRegistry.              *)
(* L1: the clauses of TrackProcessors.tla on the recorded result;           *)
(* L2: the recorded result is Code(a) / GCode(a) under the cfg's switches.  *)
(***************************************************************************)
EXTENDS TrackProcessors, Json, IOUtils

Items == JsonDeserialize(IOEnv.VERIF_TRACES)

VARIABLES i

TInit == i = 1 /\ in = <<>> /\ res = NoRes /\ done = FALSE

Check(it) ==
    LET l1 == IF it.kind = "p" THEN {c \in Weak \cup Strong : ~Holds(c, it.a, it.r)} ELSE {c \in GWeak \cup GStrong : ~GHolds(c, it.a, it.r)}
        l2 == IF it.kind = "p" THEN it.r = Code(it.a) ELSE it.r = GCode(it.a)
    IN /\ IF l1 = {} THEN TRUE ELSE PrintT(<<"V", it.id, 1, "L1", l1>>)
       /\ IF l2 THEN TRUE ELSE PrintT(<<"V", it.id, 1, "L2", {}>>)

TNext == /\ i <= Len(Items)
         /\ Check(Items[i])
         /\ i' = i + 1
         /\ IF i < Len(Items) THEN TRUE ELSE PrintT(<<"DONE", Len(Items), Len(Items)>>)
         /\ UNCHANGED vars

TSpec == TInit /\ [][TNext]_<<vars, i>>
=============================================================================
