SPECIFICATION FairSpec
CONSTANTS
  Scenarios <- LiveScenarios
  FaultKinds <- AllFaults
  AnyFaultHost = FALSE
  StuckAfterFailure = TRUE
PROPERTY FaultReported
PROPERTY Completes
CHECK_DEADLOCK FALSE
