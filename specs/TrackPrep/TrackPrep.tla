------------------------------ MODULE TrackPrep ------------------------------
(***************************************************************************)
(* The track preparation protocol of Rally (esrally/driver/driver.py) and  *)
(* the way a failure in it reaches race control (esrally/racecontrol.py):  *)
(*                                                                         *)
(*   race control (BenchmarkActor + BenchmarkCoordinator)                  *)
(*     DriverActor            one, creates one preparator per load host    *)
(*       TrackPreparationActor   per host h: queue of track processors,    *)
(*                               the tasks of the current processor        *)
(*         TaskExecutionActor    K = available.cores per host: runs one    *)
(*                               task at a time in a pool thread, polls    *)
(*                               the future on wake-ups                    *)
(*                                                                         *)
(* One action per message handler as written; actor messages travel        *)
(* through FIFO channels per (sender, receiver) pair; wake-ups are untimed *)
(* (may fire any time after being armed); the pool thread of an executor   *)
(* is its own action (PoolRun).  The load phase that follows               *)
(* StartBenchmark is ONE abstract step (Race): what matters here is what   *)
(* race control answers first and whether it stores results.               *)
(*                                                                         *)
(* A scenario scn = [H, K, procs]: H load-driver hosts, K executors per    *)
(* host, procs = <<n_1, ..., n_P>> the number of tasks on_prepare_track of *)
(* processor p yields (the same on every host).  TrackPreparationActor     *)
(* hands tasks out with list.pop(): task number n_p first, 1 last.         *)
(*                                                                         *)
(* Environment: at most one fault per behaviour, flt = [kind, h, p, x]:    *)
(*   "task"   task x of processor p raises in the pool thread of host h    *)
(*   "seed"   on_prepare_track of processor p raises on host h             *)
(*   "plugin" load_track_plugins raises in executor x of host h when it    *)
(*            handles the StartTaskLoop of processor p                     *)
(*   "close"  "task", and in addition Driver.close() raises while the      *)
(*            DriverActor handles the first BenchmarkFailure (both         *)
(*            attempts of the handler): exercises the PoisonMessage path   *)
(***************************************************************************)
EXTENDS Integers, Sequences, FiniteSets, TLC

CONSTANTS Scenarios,      \* set of scenarios Init chooses from
          FaultKinds,     \* set of fault kinds Init chooses from
          AnyFaultHost,   \* FALSE: the fault is placed on host 1 only (hosts are interchangeable), TRUE: on any host
          StuckAfterFailure \* TRUE: TaskExecutionActor as written (after a failed task it keeps its future: it neither asks for
                          \* work nor reports WorkerIdle again); FALSE: a deliberately changed variant used as self-test of
                          \* the properties (the executor reports the failure AND carries on asking for work)

VARIABLES scn,    \* the scenario (constant during a behaviour)
          flt,    \* the fault of this behaviour [kind, h, p, x, fired, cfired]
          d2t,    \* d2t[h]: FIFO channel DriverActor -> TrackPreparationActor h
          t2d,    \* t2d[h]: FIFO channel TrackPreparationActor h -> DriverActor
          t2e,    \* t2e[h][k]: FIFO channel TrackPreparationActor h -> its TaskExecutionActor k
          e2t,    \* e2t[h][k]: FIFO channel TaskExecutionActor (h, k) -> TrackPreparationActor h
          d2r,    \* FIFO channel DriverActor -> race control
          r2d,    \* FIFO channel race control -> DriverActor
          drv,    \* DriverActor [children, resp, started]
          tp,     \* tp[h]: TrackPreparationActor [boot, status, cur, tasks, resp, nchild, alive]
          ex,     \* ex[h][k]: TaskExecutionActor [st, parent, fut, task, timer]
          rc,     \* race control [error, replies, stored, sb, done]
          hist,   \* history the properties talk about
          act     \* last action, for schedule extraction (hidden by VIEW)

vars == <<scn, flt, d2t, t2d, t2e, e2t, d2r, r2d, drv, tp, ex, rc, hist, act>>
view == <<scn, flt, d2t, t2d, t2e, e2t, d2r, r2d, drv, tp, ex, rc, hist>>

Hosts(s) == 1..s.H
Execs(s) == 1..s.K
NProcs(s) == Len(s.procs)
AllTasks(s) == {pt \in (1..NProcs(s)) \X (0..3) : pt[2] >= 1 /\ pt[2] <= s.procs[pt[1]]}

Msg(k) == [k |-> k, p |-> 0, t |-> 0]
MsgP(k, p) == [k |-> k, p |-> p, t |-> 0]             \* StartTaskLoop of processor p (p is history: the real message has no such field)
DoTask(p, t) == [k |-> "DoTask", p |-> p, t |-> t]    \* p = t = 0: DoTask(None)
NoTask == <<0, 0>>
ToSet(q) == {q[i] : i \in 1..Len(q)}

InitDrv == [children |-> 0, resp |-> 0, started |-> FALSE]
InitTp == [boot |-> FALSE,        \* driver_actor is set (Bootstrap handled)
           status |-> "init",     \* Status.INITIALIZING | "running" | "complete"
           cur |-> 0,             \* index of the processor taken from the queue last (processors left = P - cur)
           tasks |-> 0,           \* len(self.tasks)
           resp |-> 0,            \* len(self.received_responses)
           nchild |-> 0,          \* len(self.children)
           alive |-> TRUE]
InitEx == [st |-> "absent",       \* "absent" (not created yet) | "alive" | "dead"
           parent |-> FALSE,      \* task_preparation_actor is set
           fut |-> "none",        \* executor_future: "none" | "submitted" (not finished) | "done" | "failed"
           task |-> NoTask,       \* the task the future belongs to
           timer |-> 0]           \* pending wake-ups
InitRc == [error |-> FALSE, replies |-> <<>>, stored |-> FALSE,
           sb |-> FALSE,          \* StartBenchmark has been sent
           done |-> FALSE]        \* the race has completed (BenchmarkComplete handled, engine stopped)
InitHist(s) == [sub |-> [h \in Hosts(s) |-> <<>>],    \* tasks handed to the pool of host h, in order
                ok |-> [h \in Hosts(s) |-> {}],       \* tasks that finished successfully on host h
                nprep |-> 0]                          \* number of PreparationComplete messages sent

NoFault == [kind |-> "none", h |-> 0, p |-> 0, x |-> 0, fired |-> FALSE, cfired |-> FALSE]
Faults(s) ==
    LET hs == IF AnyFaultHost THEN Hosts(s) ELSE {1}
        F(k, h, p, x) == [kind |-> k, h |-> h, p |-> p, x |-> x, fired |-> FALSE, cfired |-> FALSE]
    IN  (IF "none" \in FaultKinds THEN {NoFault} ELSE {})
        \cup {F(k, h, pt[1], pt[2]) : k \in FaultKinds \cap {"task", "close"}, h \in hs, pt \in AllTasks(s)}
        \cup {F("seed", h, p, 0) : h \in IF "seed" \in FaultKinds THEN hs ELSE {}, p \in 1..NProcs(s)}
        \cup {F("plugin", h, p, k) : h \in IF "plugin" \in FaultKinds THEN hs ELSE {}, p \in 1..NProcs(s), k \in Execs(s)}

(* DriverActor has handled PrepareBenchmark: Driver.prepare_benchmark -> prepare_track created one preparator per host *)
Init == /\ scn \in Scenarios
        /\ flt \in Faults(scn)
        /\ d2t = [h \in Hosts(scn) |-> <<Msg("Bootstrap")>>]
        /\ t2d = [h \in Hosts(scn) |-> <<>>]
        /\ t2e = [h \in Hosts(scn) |-> [k \in Execs(scn) |-> <<>>]]
        /\ e2t = [h \in Hosts(scn) |-> [k \in Execs(scn) |-> <<>>]]
        /\ d2r = <<>> /\ r2d = <<>>
        /\ drv = [InitDrv EXCEPT !.children = scn.H]
        /\ tp = [h \in Hosts(scn) |-> InitTp]
        /\ ex = [h \in Hosts(scn) |-> [k \in Execs(scn) |-> InitEx]]
        /\ rc = InitRc
        /\ hist = InitHist(scn)
        /\ act = [name |-> "Init", h |-> 0, k |-> 0]

Act(n, h, k) == act' = [name |-> n, h |-> h, k |-> k]

-----------------------------------------------------------------------------
(* sending: a message to an actor that has exited is dropped *)
ToTp(ch, h, k, m) == IF tp[h].alive THEN [ch EXCEPT ![h][k] = Append(@, m)] ELSE ch         \* e2t
ToEx(ch, h, k, m) == IF ex[h][k].st = "alive" THEN [ch EXCEPT ![h][k] = Append(@, m)] ELSE ch   \* t2e
ToAllEx(ch, h, m) == [ch EXCEPT ![h] = [k \in Execs(scn) |-> IF ex[h][k].st = "alive" THEN Append(ch[h][k], m) ELSE ch[h][k]]]

SeedFails(h, p) == flt.kind = "seed" /\ flt.h = h /\ flt.p = p /\ ~flt.fired

-----------------------------------------------------------------------------
(* DriverActor *)
DUnch == UNCHANGED <<scn, t2e, e2t, r2d, tp, ex, rc>>

(* receiveMsg_ReadyForWork *)
DRecvReadyForWork(h) ==
    /\ t2d[h] # <<>> /\ Head(t2d[h]).k = "ReadyForWork"
    /\ t2d' = [t2d EXCEPT ![h] = Tail(@)]
    /\ d2t' = [d2t EXCEPT ![h] = IF tp[h].alive THEN Append(@, Msg("PrepareTrack")) ELSE @]
    /\ UNCHANGED <<flt, d2r, drv, hist>> /\ DUnch
    /\ Act("DRecvReadyForWork", h, 0)

(* receiveMsg_TrackPrepared: transition_when_all_children_responded(..., self._after_track_prepared) *)
DRecvTrackPrepared(h) ==
    /\ t2d[h] # <<>> /\ Head(t2d[h]).k = "TrackPrepared"
    /\ t2d' = [t2d EXCEPT ![h] = Tail(@)]
    /\ LET n == drv.resp + 1 IN
       IF n = drv.children
       THEN \* _after_track_prepared: the preparators are told to exit, race control is told that preparation is complete
            /\ drv' = [drv EXCEPT !.resp = 0, !.children = 0]
            /\ d2t' = [g \in Hosts(scn) |-> IF tp[g].alive THEN Append(d2t[g], Msg("ActorExitRequest")) ELSE d2t[g]]
            /\ d2r' = Append(d2r, Msg("PreparationComplete"))
            /\ hist' = [hist EXCEPT !.nprep = @ + 1]
       ELSE IF n > drv.children
       THEN \* RallyAssertionError: no_retry answers the sender
            /\ drv' = [drv EXCEPT !.resp = n]
            /\ d2t' = [d2t EXCEPT ![h] = IF tp[h].alive THEN Append(@, Msg("BenchmarkFailure")) ELSE @]
            /\ UNCHANGED <<d2r, hist>>
       ELSE /\ drv' = [drv EXCEPT !.resp = n]
            /\ UNCHANGED <<d2t, d2r, hist>>
    /\ UNCHANGED flt /\ DUnch
    /\ Act("DRecvTrackPrepared", h, 0)

(* receiveMsg_BenchmarkFailure: self.driver.close(); forward to race control.  The handler is not guarded by no_retry: *)
(* if close() raises, Thespian retries once and then returns the message to its sender as PoisonMessage              *)
DRecvBenchmarkFailure(h) ==
    /\ t2d[h] # <<>> /\ Head(t2d[h]).k = "BenchmarkFailure"
    /\ t2d' = [t2d EXCEPT ![h] = Tail(@)]
    /\ IF flt.kind = "close" /\ ~flt.cfired
       THEN /\ d2t' = [d2t EXCEPT ![h] = IF tp[h].alive THEN Append(@, Msg("PoisonMessage")) ELSE @]
            /\ flt' = [flt EXCEPT !.cfired = TRUE]
            /\ d2r' = d2r
       ELSE /\ d2r' = Append(d2r, Msg("BenchmarkFailure"))
            /\ UNCHANGED <<d2t, flt>>
    /\ UNCHANGED <<drv, hist>> /\ DUnch
    /\ Act("DRecvBenchmarkFailure", h, 0)

(* DriverActor.receiveMsg_PoisonMessage has no action here: a PoisonMessage reaches the DriverActor only when a handler of a  *)
(* preparator fails twice without no_retry, and the only such handler is receiveMsg_PoisonMessage itself (a third fault).    *)

(* receiveMsg_ChildActorExited: "A track preparator has exited." *)
DRecvChildExited(h) ==
    /\ t2d[h] # <<>> /\ Head(t2d[h]).k = "ChildActorExited"
    /\ t2d' = [t2d EXCEPT ![h] = Tail(@)]
    /\ UNCHANGED <<flt, d2t, d2r, drv, hist>> /\ DUnch
    /\ Act("DRecvChildExited", h, 0)

(* receiveMsg_StartBenchmark: Driver.start_benchmark creates the workers; the load phase begins *)
DRecvStartBenchmark ==
    /\ r2d # <<>> /\ Head(r2d).k = "StartBenchmark"
    /\ r2d' = Tail(r2d)
    /\ drv' = [drv EXCEPT !.started = TRUE]
    /\ UNCHANGED <<scn, flt, d2t, t2d, t2e, e2t, d2r, tp, ex, rc, hist>>
    /\ Act("DRecvStartBenchmark", 0, 0)

-----------------------------------------------------------------------------
(* TrackPreparationActor h *)
TUnch == UNCHANGED <<scn, d2r, r2d, drv, rc>>

(* receiveMsg_Bootstrap *)
TRecvBootstrap(h) ==
    /\ tp[h].alive /\ d2t[h] # <<>> /\ Head(d2t[h]).k = "Bootstrap"
    /\ d2t' = [d2t EXCEPT ![h] = Tail(@)]
    /\ tp' = [tp EXCEPT ![h].boot = TRUE]
    /\ t2d' = [t2d EXCEPT ![h] = Append(@, Msg("ReadyForWork"))]
    /\ UNCHANGED <<flt, t2e, e2t, ex, hist>> /\ TUnch
    /\ Act("TRecvBootstrap", h, 0)

(* receiveMsg_PrepareTrack: create K executors, queue the processors, seed the tasks of the first one, StartTaskLoop to all *)
TRecvPrepareTrack(h) ==
    /\ tp[h].alive /\ d2t[h] # <<>> /\ Head(d2t[h]).k = "PrepareTrack"
    /\ d2t' = [d2t EXCEPT ![h] = Tail(@)]
    /\ ex' = [ex EXCEPT ![h] = [k \in Execs(scn) |-> [InitEx EXCEPT !.st = "alive"]]]
    /\ IF SeedFails(h, 1)
       THEN \* _seed_tasks raises: no_retry answers the sender (the DriverActor); the executors exist but are never started
            /\ tp' = [tp EXCEPT ![h].nchild = scn.K, ![h].cur = 1]
            /\ t2d' = [t2d EXCEPT ![h] = Append(@, Msg("BenchmarkFailure"))]
            /\ flt' = [flt EXCEPT !.fired = TRUE]
            /\ t2e' = t2e
       ELSE /\ tp' = [tp EXCEPT ![h].nchild = scn.K, ![h].cur = 1, ![h].tasks = scn.procs[1], ![h].status = "running"]
            /\ t2e' = [t2e EXCEPT ![h] = [k \in Execs(scn) |-> Append(t2e[h][k], MsgP("StartTaskLoop", 1))]]
            /\ UNCHANGED <<t2d, flt>>
    /\ UNCHANGED <<e2t, hist>> /\ TUnch
    /\ Act("TRecvPrepareTrack", h, 0)

(* receiveMsg_ReadyForWork: hand out the next task (list.pop(): the last one first) or None *)
TRecvReadyForWork(h, k) ==
    /\ tp[h].alive /\ e2t[h][k] # <<>> /\ Head(e2t[h][k]).k = "ReadyForWork"
    /\ e2t' = [e2t EXCEPT ![h][k] = Tail(@)]
    /\ IF tp[h].tasks > 0
       THEN /\ t2e' = ToEx(t2e, h, k, DoTask(tp[h].cur, tp[h].tasks))
            /\ tp' = [tp EXCEPT ![h].tasks = @ - 1]
       ELSE /\ t2e' = ToEx(t2e, h, k, DoTask(0, 0))
            /\ tp' = tp
    /\ UNCHANGED <<flt, d2t, t2d, ex, hist>> /\ TUnch
    /\ Act("TRecvReadyForWork", h, k)

(* receiveMsg_WorkerIdle: transition_when_all_children_responded(sender, msg, PROCESSOR_RUNNING, PROCESSOR_COMPLETE, self.resume) *)
TRecvWorkerIdle(h, k) ==
    /\ tp[h].alive /\ e2t[h][k] # <<>> /\ Head(e2t[h][k]).k = "WorkerIdle"
    /\ e2t' = [e2t EXCEPT ![h][k] = Tail(@)]
    /\ IF tp[h].status # "running"
       THEN \* RallyAssertionError: no_retry answers the sender (the executor)
            /\ t2e' = ToEx(t2e, h, k, Msg("BenchmarkFailure"))
            /\ UNCHANGED <<tp, t2d, flt>>
       ELSE LET n == tp[h].resp + 1 IN
            IF n < tp[h].nchild
            THEN /\ tp' = [tp EXCEPT ![h].resp = n]
                 /\ UNCHANGED <<t2e, t2d, flt>>
            ELSE \* all executors are idle: the processor is complete; resume()
                 IF tp[h].cur < NProcs(scn)
                 THEN LET p == tp[h].cur + 1 IN
                      IF SeedFails(h, p)
                      THEN \* _seed_tasks raises inside resume(): no_retry answers the sender of the message being handled,
                           \* i.e. the executor whose WorkerIdle completed the barrier
                           /\ tp' = [tp EXCEPT ![h].status = "complete", ![h].resp = 0, ![h].cur = p]
                           /\ t2e' = ToEx(t2e, h, k, Msg("BenchmarkFailure"))
                           /\ flt' = [flt EXCEPT !.fired = TRUE]
                           /\ t2d' = t2d
                      ELSE /\ tp' = [tp EXCEPT ![h].status = "running", ![h].resp = 0, ![h].cur = p, ![h].tasks = scn.procs[p]]
                           /\ t2e' = ToAllEx(t2e, h, MsgP("StartTaskLoop", p))
                           /\ UNCHANGED <<t2d, flt>>
                 ELSE /\ tp' = [tp EXCEPT ![h].status = "complete", ![h].resp = 0]
                      /\ t2d' = [t2d EXCEPT ![h] = Append(@, Msg("TrackPrepared"))]
                      /\ UNCHANGED <<t2e, flt>>
    /\ UNCHANGED <<d2t, ex, hist>> /\ TUnch
    /\ Act("TRecvWorkerIdle", h, k)

(* receiveMsg_BenchmarkFailure: "sent by our generic worker; forward to parent" *)
TRecvBenchmarkFailure(h, k) ==
    /\ tp[h].alive /\ e2t[h][k] # <<>> /\ Head(e2t[h][k]).k = "BenchmarkFailure"
    /\ e2t' = [e2t EXCEPT ![h][k] = Tail(@)]
    /\ t2d' = [t2d EXCEPT ![h] = Append(@, Msg("BenchmarkFailure"))]
    /\ UNCHANGED <<flt, d2t, t2e, tp, ex, hist>> /\ TUnch
    /\ Act("TRecvBenchmarkFailure", h, k)

(* a BenchmarkFailure from the DriverActor (its no_retry answer to a TrackPrepared too many): same handler, forwards it back *)
TRecvDriverFailure(h) ==
    /\ tp[h].alive /\ d2t[h] # <<>> /\ Head(d2t[h]).k = "BenchmarkFailure"
    /\ d2t' = [d2t EXCEPT ![h] = Tail(@)]
    /\ t2d' = [t2d EXCEPT ![h] = Append(@, Msg("BenchmarkFailure"))]
    /\ UNCHANGED <<flt, t2e, e2t, tp, ex, hist>> /\ TUnch
    /\ Act("TRecvDriverFailure", h, 0)

(* receiveMsg_PoisonMessage: a message to the DriverActor could not be handled: report a failure *)
TRecvPoison(h) ==
    /\ tp[h].alive /\ d2t[h] # <<>> /\ Head(d2t[h]).k = "PoisonMessage"
    /\ d2t' = [d2t EXCEPT ![h] = Tail(@)]
    /\ t2d' = [t2d EXCEPT ![h] = Append(@, Msg("BenchmarkFailure"))]
    /\ UNCHANGED <<flt, t2e, e2t, tp, ex, hist>> /\ TUnch
    /\ Act("TRecvPoison", h, 0)

(* receiveMsg_ActorExitRequest: forward to the children; the actor exits, what was addressed to it is lost, its parent is told *)
TRecvExit(h) ==
    /\ tp[h].alive /\ d2t[h] # <<>> /\ Head(d2t[h]).k = "ActorExitRequest"
    /\ d2t' = [d2t EXCEPT ![h] = <<>>]
    /\ e2t' = [e2t EXCEPT ![h] = [k \in Execs(scn) |-> <<>>]]
    /\ t2e' = ToAllEx(t2e, h, Msg("ActorExitRequest"))
    /\ tp' = [tp EXCEPT ![h].alive = FALSE]
    /\ t2d' = [t2d EXCEPT ![h] = Append(@, Msg("ChildActorExited"))]
    /\ UNCHANGED <<flt, ex, hist>> /\ TUnch
    /\ Act("TRecvExit", h, 0)

-----------------------------------------------------------------------------
(* TaskExecutionActor (h, k) *)
EUnch == UNCHANGED <<scn, d2t, t2d, d2r, r2d, drv, tp, rc>>
EHead(h, k, kind) == ex[h][k].st = "alive" /\ t2e[h][k] # <<>> /\ Head(t2e[h][k]).k = kind

(* receiveMsg_StartTaskLoop: load the track plugins, ask for work *)
ERecvStartTaskLoop(h, k) ==
    /\ EHead(h, k, "StartTaskLoop")
    /\ t2e' = [t2e EXCEPT ![h][k] = Tail(@)]
    /\ ex' = [ex EXCEPT ![h][k].parent = TRUE]
    /\ IF flt.kind = "plugin" /\ flt.h = h /\ flt.x = k /\ flt.p = Head(t2e[h][k]).p /\ ~flt.fired
       THEN /\ e2t' = ToTp(e2t, h, k, Msg("BenchmarkFailure"))       \* no_retry answers the sender (the preparator)
            /\ flt' = [flt EXCEPT !.fired = TRUE]
       ELSE /\ e2t' = ToTp(e2t, h, k, Msg("ReadyForWork"))
            /\ flt' = flt
    /\ UNCHANGED hist /\ EUnch
    /\ Act("ERecvStartTaskLoop", h, k)

(* receiveMsg_DoTask *)
ERecvDoTask(h, k) ==
    /\ EHead(h, k, "DoTask")
    /\ t2e' = [t2e EXCEPT ![h][k] = Tail(@)]
    /\ LET m == Head(t2e[h][k]) IN
       IF ex[h][k].fut # "none"
       THEN \* "received DoTask ... but was already busy": RallyError, no_retry answers the sender
            /\ e2t' = ToTp(e2t, h, k, Msg("BenchmarkFailure"))
            /\ UNCHANGED <<ex, hist>>
       ELSE IF m.p = 0
       THEN /\ e2t' = ToTp(e2t, h, k, Msg("WorkerIdle"))
            /\ UNCHANGED <<ex, hist>>
       ELSE \* pool.submit, wakeupAfter
            /\ ex' = [ex EXCEPT ![h][k].fut = "submitted", ![h][k].task = <<m.p, m.t>>, ![h][k].timer = @ + 1]
            /\ hist' = [hist EXCEPT !.sub[h] = Append(@, <<m.p, m.t>>)]
            /\ e2t' = e2t
    /\ UNCHANGED flt /\ EUnch
    /\ Act("ERecvDoTask", h, k)

(* the pool thread runs the task to its end *)
PoolRun(h, k) ==
    /\ ex[h][k].st = "alive" /\ ex[h][k].fut = "submitted"
    /\ IF flt.kind \in {"task", "close"} /\ flt.h = h /\ <<flt.p, flt.x>> = ex[h][k].task /\ ~flt.fired
       THEN /\ ex' = [ex EXCEPT ![h][k].fut = "failed"]
            /\ flt' = [flt EXCEPT !.fired = TRUE]
            /\ hist' = hist
       ELSE /\ ex' = [ex EXCEPT ![h][k].fut = "done"]
            /\ hist' = [hist EXCEPT !.ok[h] = @ \cup {ex[h][k].task}]
            /\ flt' = flt
    /\ UNCHANGED <<t2e, e2t>> /\ EUnch
    /\ Act("PoolRun", h, k)

(* receiveMsg_WakeupMessage: poll the future *)
EWakeup(h, k) ==
    /\ ex[h][k].st = "alive" /\ ex[h][k].timer > 0
    /\ IF ex[h][k].fut = "failed"
       THEN IF StuckAfterFailure
            THEN \* report; executor_future is kept, no further wake-up: this executor never asks for work again
                 /\ e2t' = ToTp(e2t, h, k, Msg("BenchmarkFailure"))
                 /\ ex' = [ex EXCEPT ![h][k].timer = @ - 1]
            ELSE \* self-test variant: report and carry on
                 /\ e2t' = IF tp[h].alive THEN [e2t EXCEPT ![h][k] = @ \o <<Msg("BenchmarkFailure"), Msg("ReadyForWork")>>] ELSE e2t
                 /\ ex' = [ex EXCEPT ![h][k].timer = @ - 1, ![h][k].fut = "none", ![h][k].task = NoTask]
       ELSE IF ex[h][k].fut = "done"
       THEN /\ e2t' = ToTp(e2t, h, k, Msg("ReadyForWork"))
            /\ ex' = [ex EXCEPT ![h][k].timer = @ - 1, ![h][k].fut = "none", ![h][k].task = NoTask]
       ELSE /\ UNCHANGED <<e2t, ex>>                  \* still running: wake up again
    /\ UNCHANGED <<flt, t2e, hist>> /\ EUnch
    /\ Act("EWakeup", h, k)

(* receiveMsg_BenchmarkFailure: "sent by our no_retry infrastructure; forward to master" *)
ERecvBenchmarkFailure(h, k) ==
    /\ EHead(h, k, "BenchmarkFailure")
    /\ t2e' = [t2e EXCEPT ![h][k] = Tail(@)]
    /\ e2t' = ToTp(e2t, h, k, Msg("BenchmarkFailure"))
    /\ UNCHANGED <<flt, ex, hist>> /\ EUnch
    /\ Act("ERecvBenchmarkFailure", h, k)

(* ActorExitRequest: no handler, the actor exits (its parent has exited before) *)
ERecvExit(h, k) ==
    /\ EHead(h, k, "ActorExitRequest")
    /\ t2e' = [t2e EXCEPT ![h][k] = <<>>]
    /\ ex' = [ex EXCEPT ![h][k].st = "dead", ![h][k].timer = 0]
    /\ e2t' = ToTp(e2t, h, k, Msg("ChildActorExited"))
    /\ UNCHANGED <<flt, hist>> /\ EUnch
    /\ Act("ERecvExit", h, k)

-----------------------------------------------------------------------------
(* Race control: BenchmarkActor *)
RcUnch == UNCHANGED <<scn, flt, d2t, t2d, t2e, e2t, drv, tp, ex, hist>>

RcRecv ==
    /\ d2r # <<>>
    /\ d2r' = Tail(d2r)
    /\ IF Head(d2r).k = "PreparationComplete"
       THEN \* on_preparation_complete (the race is stored WITHOUT results), StartBenchmark
            /\ rc' = [rc EXCEPT !.sb = TRUE]
            /\ r2d' = Append(r2d, Msg("StartBenchmark"))
       ELSE \* BenchmarkFailure: coordinator.error = True, answer whoever started the race
            /\ rc' = [rc EXCEPT !.error = TRUE, !.replies = Append(@, "Failure")]
            /\ r2d' = r2d
    /\ RcUnch
    /\ Act("RcRecv", 0, 0)

PrepQuiet ==
    /\ d2r = <<>> /\ r2d = <<>>
    /\ \A h \in Hosts(scn) : /\ d2t[h] = <<>> /\ t2d[h] = <<>>
                             /\ \A k \in Execs(scn) : /\ t2e[h][k] = <<>> /\ e2t[h][k] = <<>>
                                                      /\ ex[h][k].timer = 0 /\ ex[h][k].fut # "submitted"

(* the load phase as one step: it runs to its end, BenchmarkComplete reaches race control, which calculates and stores the *)
(* results unless an error was recorded (BenchmarkCoordinator.on_benchmark_complete), stops the engine and answers Success *)
Race ==
    /\ drv.started /\ ~rc.done /\ PrepQuiet
    /\ rc' = [rc EXCEPT !.done = TRUE, !.stored = @ \/ ~rc.error, !.replies = Append(@, "Success")]
    /\ UNCHANGED <<d2r, r2d>> /\ RcUnch
    /\ Act("Race", 0, 0)

-----------------------------------------------------------------------------
DRecv(h) == DRecvReadyForWork(h) \/ DRecvTrackPrepared(h) \/ DRecvBenchmarkFailure(h) \/ DRecvChildExited(h)
TRecvD(h) == TRecvBootstrap(h) \/ TRecvPrepareTrack(h) \/ TRecvDriverFailure(h) \/ TRecvPoison(h) \/ TRecvExit(h)
TRecvE(h, k) == TRecvReadyForWork(h, k) \/ TRecvWorkerIdle(h, k) \/ TRecvBenchmarkFailure(h, k)
ERecv(h, k) == ERecvStartTaskLoop(h, k) \/ ERecvDoTask(h, k) \/ ERecvBenchmarkFailure(h, k) \/ ERecvExit(h, k)

Next == \/ \E h \in Hosts(scn) : \/ DRecv(h) \/ TRecvD(h)
                                 \/ \E k \in Execs(scn) : TRecvE(h, k) \/ ERecv(h, k) \/ EWakeup(h, k) \/ PoolRun(h, k)
        \/ DRecvStartBenchmark \/ RcRecv \/ Race

(* fairness per kind of step w.r.t. the real state (view).  Weak fairness is enough for message receipt here: a handler    *)
(* is one action, and a receipt that is enabled stays enabled until it is taken (only the receiver consumes the head of    *)
(* its channels, an actor exits only by its own step) - strong fairness would be equivalent and costs TLC minutes.         *)
(* A wake-up that finds the task still running only re-arms itself: it is no progress and deliberately not fair.          *)
Fairness == /\ \A h \in 1..2 : /\ WF_view(h \in Hosts(scn) /\ DRecv(h))
                               /\ WF_view(h \in Hosts(scn) /\ TRecvD(h))
                               /\ \A k \in 1..2 : /\ WF_view(h \in Hosts(scn) /\ k \in Execs(scn) /\ TRecvE(h, k))
                                                  /\ WF_view(h \in Hosts(scn) /\ k \in Execs(scn) /\ ERecv(h, k))
                                                  /\ WF_view(h \in Hosts(scn) /\ k \in Execs(scn) /\ ex[h][k].fut \in {"done", "failed"} /\ EWakeup(h, k))
                                                  /\ WF_view(h \in Hosts(scn) /\ k \in Execs(scn) /\ PoolRun(h, k))
            /\ WF_view(DRecvStartBenchmark) /\ WF_view(RcRecv) /\ WF_view(Race)

Spec == Init /\ [][Next]_vars
FairSpec == Spec /\ Fairness

-----------------------------------------------------------------------------
(* Properties *)
NoDup(q) == \A i, j \in 1..Len(q) : i # j => q[i] # q[j]

(* processors strictly one after the other: while a task of processor p is in a pool, every task of the processors before p *)
(* has finished successfully on that host                                                                                   *)
Sequential ==
    \A h \in Hosts(scn) : \A k \in Execs(scn) :
        ex[h][k].fut = "submitted" => \A pt \in AllTasks(scn) : pt[1] < ex[h][k].task[1] => pt \in hist.ok[h]

(* PreparationComplete is sent at most once and only after every task of every processor on every host has finished     *)
(* successfully; no task is ever executed twice                                                                        *)
PrepCompleteOnlyWhenAllDone ==
    /\ hist.nprep <= 1
    /\ \A h \in Hosts(scn) : NoDup(hist.sub[h])
    /\ Sequential
    /\ hist.nprep = 1 => \A h \in Hosts(scn) : hist.ok[h] = AllTasks(scn) /\ ToSet(hist.sub[h]) = AllTasks(scn)

(* once something has failed, preparation is never reported complete and the benchmark is never started *)
FailureNeverCompletes == [][flt.fired => (hist'.nprep = hist.nprep /\ rc'.sb = rc.sb /\ drv'.started = drv.started)]_vars

(* the whole race: after a preparation failure the first answer is never Success and no results are stored *)
FirstReply == IF rc.replies = <<>> THEN "none" ELSE rc.replies[1]
FaultNeverSuccess == flt.fired => FirstReply # "Success"
NoResultsOnFailure == flt.fired => ~rc.stored

(* the failure reaches race control (liveness under fairness) *)
FaultReported == flt.fired ~> rc.error

(* a state in which nothing can happen any more is the completed race or a reported failure *)
Quiescent == PrepQuiet /\ ~(drv.started /\ ~rc.done)
NoStall == Quiescent => (rc.done \/ rc.error)

(* without a fault the race completes *)
Completes == (flt.kind = "none") => <>rc.done

TypeOK == /\ drv.resp \in 0..scn.H /\ drv.children \in {0, scn.H}
          /\ \A h \in Hosts(scn) : /\ tp[h].tasks \in 0..3 /\ tp[h].cur \in 0..NProcs(scn) /\ tp[h].resp \in 0..scn.K
                                   /\ tp[h].status \in {"init", "running", "complete"}
                                   /\ \A k \in Execs(scn) : ex[h][k].timer \in 0..1 /\ ex[h][k].fut \in {"none", "submitted", "done", "failed"}
=============================================================================
