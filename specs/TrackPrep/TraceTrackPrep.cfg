SPECIFICATION TSpec
CONSTANTS
  Scenarios = {}
  FaultKinds = {"none", "task", "seed", "plugin", "close"}
  AnyFaultHost = TRUE
  StuckAfterFailure = TRUE
CHECK_DEADLOCK FALSE
