SPECIFICATION FairSpec
CONSTANTS
  Scenarios <- LiveThoroughScenarios
  FaultKinds <- AllFaults
  AnyFaultHost = FALSE
  StuckAfterFailure = TRUE
PROPERTY FaultReported
PROPERTY Completes
CHECK_DEADLOCK FALSE
