-------------------------- MODULE TraceTrackPrep --------------------------
(***************************************************************************)
(* Validates executions of the REAL DriverActor / TrackPreparationActor /  *)
(* TaskExecutionActor / BenchmarkActor recorded by harness/prepsim.py      *)
(* under SimActorSystem against TrackPrep.tla.                             *)
(* Input: JSON array of traces [id, scn, init, events]; every event is one *)
(* scheduling decision (a message delivery, a wake-up, a run of a pool     *)
(* thread; the load phase after StartBenchmark is ONE event "Race") with   *)
(* the projected state of all actors AFTER the handler returned (st).      *)
(* For each event TLC evaluates                                            *)
(*   L1: the property formulas of TrackPrep.tla on the recorded state,     *)
(*   L2: the recorded step is the corresponding action of TrackPrep.tla.   *)
(***************************************************************************)
EXTENDS TrackPrep, Json, IOUtils

Traces == JsonDeserialize(IOEnv.VERIF_TRACES)

VARIABLES tid, l, nev
tvars == <<vars, tid, l, nev>>

Bind(s, st) ==
    /\ scn' = s
    /\ flt' = st.flt
    /\ d2t' = st.d2t /\ t2d' = st.t2d /\ t2e' = st.t2e /\ e2t' = st.e2t /\ d2r' = st.d2r /\ r2d' = st.r2d
    /\ drv' = st.drv /\ tp' = st.tp /\ ex' = st.ex /\ rc' = st.rc
    /\ hist' = [sub |-> st.hist.sub, ok |-> [h \in 1..s.H |-> ToSet(st.hist.ok[h])], nprep |-> st.hist.nprep]

TInit == /\ tid = 0 /\ l = 0 /\ nev = 0
         /\ scn = [H |-> 0, K |-> 0, procs |-> <<>>]
         /\ flt = NoFault
         /\ d2t = <<>> /\ t2d = <<>> /\ t2e = <<>> /\ e2t = <<>> /\ d2r = <<>> /\ r2d = <<>>
         /\ drv = InitDrv /\ tp = <<>> /\ ex = <<>> /\ rc = InitRc
         /\ hist = [sub |-> <<>>, ok |-> <<>>, nprep |-> 0]
         /\ act = [name |-> "Init", h |-> 0, k |-> 0]

StepOf(e) == CASE e.ev = "DRecvReadyForWork" -> DRecvReadyForWork(e.h)
               [] e.ev = "DRecvTrackPrepared" -> DRecvTrackPrepared(e.h)
               [] e.ev = "DRecvBenchmarkFailure" -> DRecvBenchmarkFailure(e.h)
               [] e.ev = "DRecvChildExited" -> DRecvChildExited(e.h)
               [] e.ev = "DRecvStartBenchmark" -> DRecvStartBenchmark
               [] e.ev = "TRecvBootstrap" -> TRecvBootstrap(e.h)
               [] e.ev = "TRecvPrepareTrack" -> TRecvPrepareTrack(e.h)
               [] e.ev = "TRecvReadyForWork" -> TRecvReadyForWork(e.h, e.k)
               [] e.ev = "TRecvWorkerIdle" -> TRecvWorkerIdle(e.h, e.k)
               [] e.ev = "TRecvBenchmarkFailure" -> TRecvBenchmarkFailure(e.h, e.k)
               [] e.ev = "TRecvDriverFailure" -> TRecvDriverFailure(e.h)
               [] e.ev = "TRecvPoison" -> TRecvPoison(e.h)
               [] e.ev = "TRecvExit" -> TRecvExit(e.h)
               [] e.ev = "ERecvStartTaskLoop" -> ERecvStartTaskLoop(e.h, e.k)
               [] e.ev = "ERecvDoTask" -> ERecvDoTask(e.h, e.k)
               [] e.ev = "ERecvBenchmarkFailure" -> ERecvBenchmarkFailure(e.h, e.k)
               [] e.ev = "ERecvExit" -> ERecvExit(e.h, e.k)
               [] e.ev = "EWakeup" -> EWakeup(e.h, e.k)
               [] e.ev = "PoolRun" -> PoolRun(e.h, e.k)
               [] e.ev = "RcRecv" -> RcRecv
               [] e.ev = "Race" -> Race
               [] OTHER -> FALSE

L1Clauses == {"PrepFaultReported", "PrepNeverSuccess", "PrepNoResults", "PrepCompleteOnlyWhenAllDone"}

(* the recorded execution ends when nothing can happen any more: by then a failure must have reached race control *)
Holds(c, e) ==
    CASE c = "PrepFaultReported" -> ((e.last /\ flt'.fired) => rc'.error)
      [] c = "PrepNeverSuccess" -> FaultNeverSuccess'
      [] c = "PrepNoResults" -> NoResultsOnFailure'
      [] c = "PrepCompleteOnlyWhenAllDone" -> PrepCompleteOnlyWhenAllDone'

(* not a clause of the property but of the protocol: without a fault the race completes; the run ended quiescent *)
EndOk(e) == e.last => (NoStall' /\ (~flt'.fired => rc'.done))

StartTrace ==
    /\ tid < Len(Traces) /\ (IF tid = 0 THEN TRUE ELSE l > Len(Traces[tid].events))
    /\ LET tr == Traces[tid + 1] IN
         /\ Bind(tr.scn, tr.init)
         /\ act' = [name |-> "Init", h |-> 0, k |-> 0]
         /\ LET s == tr.scn
                initOk == /\ d2t' = [h \in Hosts(s) |-> <<Msg("Bootstrap")>>]
                          /\ t2d' = [h \in Hosts(s) |-> <<>>]
                          /\ t2e' = [h \in Hosts(s) |-> [k \in Execs(s) |-> <<>>]]
                          /\ e2t' = [h \in Hosts(s) |-> [k \in Execs(s) |-> <<>>]]
                          /\ d2r' = <<>> /\ r2d' = <<>>
                          /\ drv' = [InitDrv EXCEPT !.children = s.H]
                          /\ tp' = [h \in Hosts(s) |-> InitTp]
                          /\ ex' = [h \in Hosts(s) |-> [k \in Execs(s) |-> InitEx]]
                          /\ rc' = InitRc
                          /\ hist' = InitHist(s)
                          /\ ~flt'.fired /\ ~flt'.cfired
                          /\ flt' \in Faults(s)
            IN IF initOk THEN TRUE ELSE PrintT(<<"V", tr.id, 0, "L2", {}>>)
    /\ tid' = tid + 1 /\ l' = 1 /\ nev' = nev

Consume ==
    /\ tid >= 1 /\ tid <= Len(Traces)
    /\ l <= Len(Traces[tid].events)
    /\ LET e == Traces[tid].events[l] IN
         /\ Bind(scn, e.st)
         /\ act' = [name |-> e.ev, h |-> e.h, k |-> e.k]
         /\ LET l1 == {c \in L1Clauses : ~Holds(c, e)}
                l2 == StepOf(e) /\ EndOk(e)
            IN /\ \A c \in l1 : PrintT(<<"V", Traces[tid].id, l, "L1", {c}>>)
               /\ IF l2 THEN TRUE ELSE PrintT(<<"V", Traces[tid].id, l, "L2", {e.ev}>>)
    /\ l' = l + 1 /\ nev' = nev + 1 /\ tid' = tid

Finish ==
    /\ tid = Len(Traces) /\ tid >= 1 /\ l = Len(Traces[tid].events) + 1
    /\ PrintT(<<"DONE", Len(Traces), nev>>)
    /\ l' = l + 1
    /\ UNCHANGED <<vars, tid, nev>>

TNext == StartTrace \/ Consume \/ Finish
TSpec == TInit /\ [][TNext]_tvars
=============================================================================
