SPECIFICATION Spec
CONSTANTS
  Scenarios <- ThoroughScenarios
  FaultKinds <- AllFaults
  AnyFaultHost = FALSE
  StuckAfterFailure = TRUE
VIEW view
INVARIANT TypeOK
INVARIANT PrepCompleteOnlyWhenAllDone
INVARIANT FaultNeverSuccess
INVARIANT NoResultsOnFailure
INVARIANT NoStall
PROPERTY FailureNeverCompletes
CHECK_DEADLOCK FALSE
