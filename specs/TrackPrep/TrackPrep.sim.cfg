SPECIFICATION Spec
CONSTANTS
  Scenarios <- SimScenarios
  FaultKinds <- AllFaults
  AnyFaultHost = TRUE
  StuckAfterFailure = TRUE
CHECK_DEADLOCK FALSE
