---- MODULE MC_TrackPrep ----
EXTENDS TrackPrep
S(H, K, procs) == [H |-> H, K |-> K, procs |-> procs]

(* all processor lists with 1..2 processors of 0..n tasks *)
Procs(n) == {<<a>> : a \in 0..n} \cup {<<a, b>> : a \in 0..n, b \in 0..n}

\* quick: every processor list up to 2 x 2 tasks on one host with 1..2 executors; two hosts with the lists that matter for the
\* host barrier
QuickScenarios == {S(1, k, p) : k \in 1..2, p \in Procs(2)} \cup {S(1, 1, <<3>>), S(1, 2, <<3>>), S(1, 2, <<1, 3>>)}
                  \cup {S(2, 1, p) : p \in {<<1>>, <<0, 1>>, <<2>>, <<1, 1>>}} \cup {S(2, 2, <<1>>)}
\* thorough: the full bounds (1..2 processors of 0..3 tasks) for one host with 1..2 executors and for two hosts with 1 executor;
\* two hosts with 2 executors each up to 3 tasks in total (the full product H=2, K=2, 2 x 3 tasks has > 10^8 states: the hosts
\* only interact through the DriverActor's barrier)
ThoroughScenarios == {S(1, k, p) : k \in 1..2, p \in Procs(3)} \cup {S(2, 1, p) : p \in Procs(3)}
                     \cup {S(2, 2, p) : p \in Procs(1) \cup {<<2>>, <<3>>, <<1, 1>>, <<2, 1>>, <<1, 2>>, <<2, 0>>, <<0, 2>>}}
LiveScenarios == {S(1, 2, <<2>>), S(1, 2, <<1, 1>>), S(1, 1, <<0, 2>>), S(2, 1, <<1>>)}
LiveThoroughScenarios == {S(1, k, p) : k \in 1..2, p \in Procs(2)} \cup {S(2, 1, p) : p \in {<<1>>, <<0, 1>>, <<1, 1>>, <<2>>}} \cup {S(2, 2, <<1>>)}
SelfTestScenarios == {S(1, 2, <<2>>), S(2, 1, <<1>>)}

(* what the harness runs: TrackProcessorRegistry puts its three required processors first, each yields one no-op task *)
Real(H, K, procs) == S(H, K, <<1, 1, 1>> \o procs)
SimScenarios == {Real(h, k, p) : h \in 1..2, k \in 1..2, p \in {<<0>>, <<1>>, <<2>>, <<3>>, <<1, 1>>, <<2, 1>>, <<0, 2>>, <<1, 3>>}}

AllFaults == {"none", "task", "seed", "plugin", "close"}
OnlyFaults == {"task", "seed", "plugin", "close"}
TaskFault == {"task"}
====
