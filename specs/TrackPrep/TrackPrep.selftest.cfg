SPECIFICATION Spec
CONSTANTS
  Scenarios <- SelfTestScenarios
  FaultKinds <- TaskFault
  AnyFaultHost = FALSE
  StuckAfterFailure = FALSE
VIEW view
PROPERTY FailureNeverCompletes
CHECK_DEADLOCK FALSE
