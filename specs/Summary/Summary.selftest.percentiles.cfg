\* self-test: with ForceEmptyPercentiles = FALSE (the code as it is) the strong clause InvPercentilesForced is violated in the model
SPECIFICATION Spec
CONSTANTS
  Vals <- ValsQuick
  D = 1000000
  Variants <- VarQuick
  AllToleratesAbsent = TRUE
  ForceEmptyPercentiles = FALSE
  SkipEmptyLines = TRUE
  ReportFileTruncated = TRUE
  RelativeToRallyCwd = TRUE
INVARIANT InvPercentilesForced
CHECK_DEADLOCK FALSE
