\* the intended behaviour (all switches TRUE): also the strong clauses hold
SPECIFICATION Spec
CONSTANTS
  Vals <- ValsQuick
  D = 1000000
  Variants <- VarQuick
  AllToleratesAbsent = TRUE
  ForceEmptyPercentiles = TRUE
  SkipEmptyLines = TRUE
  ReportFileTruncated = TRUE
  RelativeToRallyCwd = TRUE
INVARIANT InvRows
INVARIANT InvCompletesW
INVARIANT InvFlat
INVARIANT InvWarn
INVARIANT InvHeaderW
INVARIANT InvCompletes
INVARIANT InvPercentilesForced
INVARIANT InvNothingForAbsent
INVARIANT InvHeaderOnce
INVARIANT InvFileCreated
INVARIANT InvCsvEqualsMarkdown
CHECK_DEADLOCK FALSE
