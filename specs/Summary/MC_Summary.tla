---- MODULE MC_Summary ----
EXTENDS Summary
\* value index -> [display value over D, bytes for per-field disk usage]
Val(v, b) == [v |-> v, b |-> b]
\* 0 (a zero is a value!), small (0.5 / 2 kB), large (1234.567891: more than six significant digits / 1.5 GB)
ValsQuick == <<Val(0, 0), Val(500000, 2048), Val(1234567891, 1610612736)>>
\* + below the printing resolution (0.000004 / 4 bytes), 1 (1024 bytes: not yet a kB), an exact "%.2f" tie (12.345 / 1040 bytes),
\*   a value that rounds up to the next integer (99.995 / 3 MB)
ValsThorough == ValsQuick \o <<Val(4, 4), Val(1000000, 1024), Val(12345000, 1040), Val(99995000, 3145728)>>

Var(T, J, mode, proc, again, path, shift, keep, ss) == [T |-> T, J |-> J, mode |-> mode, proc |-> proc, again |-> again, path |-> path, shift |-> shift, keep |-> keep, ss |-> ss]
Lists == {"ml", "transform"}
VarQuick == {
    Var(<<1>>, <<>>, "available", FALSE, FALSE, "name", 0, {}, -1),
    Var(<<2, 1>>, <<1>>, "available", TRUE, FALSE, "rel", 1, Lists, 3),
    Var(<<1, 2, 3>>, <<2, 1>>, "available", FALSE, TRUE, "abs", 0, Lists, 0),
    Var(<<1>>, <<1, 2>>, "available", FALSE, FALSE, "rel", 0, {}, 5),                    \* None in ML / transform statistics: empty lines
    Var(<<3, 1>>, <<>>, "all-percentiles", FALSE, FALSE, "abs", 0, {}, 2),
    Var(<<2>>, <<2>>, "all-percentiles", TRUE, TRUE, "name", 1, Lists, 6),
    Var(<<1, 2>>, <<1>>, "all", TRUE, FALSE, "rel", 1, Lists \cup {"throughput"}, -1),   \* all, throughput complete: undefined values are empty cells
    Var(<<2, 1>>, <<>>, "all", FALSE, FALSE, "abs", 0, {}, 4),                           \* all, throughput missing: TypeError
    Var(<<>>, <<1, 2>>, "all", FALSE, TRUE, "name", 1, {}, -1),
    Var(<<1>>, <<>>, "all", FALSE, FALSE, "rel", 0, {"throughput"}, 0),                  \* all, tasks without samples
    Var(<<>>, <<2>>, "available", FALSE, FALSE, "abs", 0, {}, -1)                         \* no tasks: a report of empty lines only
}
Seqs == {<<>>, <<1>>, <<2, 1>>, <<1, 2, 3>>, <<3, 1, 2>>}
VarThorough == VarQuick \cup
    {Var(T, IF Len(T) = 2 THEN <<3, 2>> ELSE IF Len(T) = 1 THEN <<1>> ELSE IF Len(T) = 0 THEN <<2>> ELSE <<>>, mode, Len(T) % 2 = 1, Len(T) = 2,
         IF mode = "all" THEN "rel" ELSE IF mode = "available" THEN "name" ELSE "abs", Len(T) % 2, keep, IF keep = {} THEN -1 ELSE Len(T) + 1) :
        T \in Seqs, mode \in Modes, keep \in {{}, Lists \cup {"throughput"}}}

\* the slot table, printed once for the harness (binding of slots to GlobalStats fields and to the printed labels)
ASSUME PrintT(<<"SLOTS", SlotSeq>>)
ASSUME LabelsDistinct
ASSUME N = 155 /\ TaskBase + MaxE * TaskLen = N
ASSUME D % 100 = 0 /\ D % G = 0
ASSUME \A k \in 1..Len(Vals) : Vals[k].v >= 0 /\ DiskExact(Vals[k].b)
\* documentation of metrics.percentiles_for_sample_size
ASSUME PercentileNames(1) = {"100"} /\ PercentileNames(9) = {"50", "100"} /\ PercentileNames(10) = {"50", "90", "100"}
ASSUME PercentileNames(999) = {"50", "90", "99", "100"} /\ PercentileNames(10000) = {"50", "90", "99", "99.9", "99.99", "100"}
\* numbers
ASSUME D # 1000000 \/ (Round2(12344999).v = 12340000 /\ Round2(12345001).v = 12350000 /\ Round2(12345000).v # Round2(12345000).alt)
ASSUME IsSig6(1234570000, 1234567891) /\ ~IsSig6(1234560000, 1234567891) /\ IsSig6(4, 4)
ASSUME HumanUnit(1024) = "bytes" /\ HumanUnit(1040) = "kB" /\ (D # 1000000 \/ DiskDisp(1040) = 1015625) /\ (D # 1000000 \/ DiskDisp(1610612736) = 1500000)
====
