\* switches FALSE = the code as it is (L2 only; L1 does not depend on them); D is rewritten by the driver per batch
SPECIFICATION TSpec
CONSTANTS
  Vals <- NoVals
  D = 1000000
  Variants = {}
  AllToleratesAbsent = FALSE
  ForceEmptyPercentiles = FALSE
  SkipEmptyLines = FALSE
  ReportFileTruncated = FALSE
  RelativeToRallyCwd = FALSE
CHECK_DEADLOCK FALSE
