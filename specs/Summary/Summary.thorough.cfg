\* the reporter as it is (all switches FALSE): the clauses it satisfies
SPECIFICATION Spec
CONSTANTS
  Vals <- ValsThorough
  D = 1000000
  Variants <- VarThorough
  AllToleratesAbsent = FALSE
  ForceEmptyPercentiles = FALSE
  SkipEmptyLines = FALSE
  ReportFileTruncated = FALSE
  RelativeToRallyCwd = FALSE
INVARIANT InvRows
INVARIANT InvCompletesW
INVARIANT InvFlat
INVARIANT InvWarn
INVARIANT InvHeaderW
CHECK_DEADLOCK FALSE
