---------------------------- MODULE TraceSummary ----------------------------
(***************************************************************************)
(* Validates recorded runs of the real SummaryReporter (env VERIF_TRACES:    *)
(* JSON array).  Item kinds:                                                *)
(*  kind = "report": one results structure rendered by summarize() as csv    *)
(*   and as markdown, console captured, report file read back:              *)
(*   [id, mode, proc, again, path, R: [T, J, v], crash ("" | exception),     *)
(*    rows: csv console rows, md: markdown console rows - each [s, v, u, n]:  *)
(*      s slot of the (Metric, Task) label (0: unknown label, then n = the   *)
(*      label; -1: empty line), v value over D (NA: empty cell, BAD: not a   *)
(*      number over D), u unit cell,                                         *)
(*    fcsv, fmd: [at, eq, tail, esc, nhdr, chdr, nrows] the report file:      *)
(*      found under rally.cwd ("cwd"), under the working directory of the    *)
(*      reporting process ("proc") or not at all ("none"), equals / ends     *)
(*      with the console table                                               *)
(*      (colour codes removed), number of escape characters, of header lines *)
(*      in the file / on the console, of data lines in the file,             *)
(*    flat: [c, v] per slot the number of as_flat_list() leaves and their    *)
(*      value (display unit over D; bytes for disk usage), fx: number of     *)
(*      numeric leaves that belong to no slot,                               *)
(*    warn: [[task, kind]] console warnings, al: [right, center, left] the   *)
(*      cells under that --report-numbers-align are those under decimal]     *)
(*  kind = "pss": [id, n, ps] metrics.percentiles_for_sample_size(n) as the  *)
(*   names the report prints.                                                *)
(*  kind = "fmt": [id, fmt, res] outcome of summarize() with --report-format  *)
(*   fmt: "ok" or the name of the exception.                                 *)
(* L1: the clauses of Summary.tla on the recorded report.                   *)
(* L2: the recorded report is the transcription (CodeRows, ...).            *)
(* Output: <<"V", id, line, "L1"|"L2", clauses>>; line = slot (0: table,      *)
(* -1 csv file, -2 markdown file, -3 flat list, -4 warnings, -5 completion,  *)
(* -6 markdown table, -7 alignment); <<"DONE", n, n>>.                       *)
(***************************************************************************)
EXTENDS Summary, Json, IOUtils

Items == JsonDeserialize(IOEnv.VERIF_TRACES)
NoVals == <<>>
ToSet(q) == {q[j] : j \in 1..Len(q)}

Struct(x) == [T |-> x.T, J |-> x.J, v |-> x.v]
Options(it) == [mode |-> it.mode, proc |-> it.proc, again |-> it.again, path |-> it.path]

(* ---- L1: sets of <<line, clause>> ---- *)
RowsL1(rows, X, O) == UNION {{<<i, cl>> : i \in Off(cl, rows, X, O)} : cl \in RowClausesW \cup RowClausesS}

\* CsvEqualsMarkdown: both formats contain the same lines; markdown shows numbers with six significant digits.
\* CsvEqualsMarkdownW: ... the same lines apart from empty ones (what the code does: markdown drops the empty lines when there are no others)
NonEmpty(rows) == SelectSeq(rows, LAMBDA r : r.s # -1)
OffMd(rows, md) == IF Len(md) # Len(rows) THEN {0}
                   ELSE {IF rows[j].s > 0 THEN rows[j].s ELSE 0 :
                            j \in {k \in 1..Len(rows) : ~(/\ md[k].s = rows[k].s /\ md[k].n = rows[k].n /\ md[k].u = rows[k].u
                                                          /\ IsSig6(md[k].v, rows[k].v))}}

\* the report file: created (with its directories) at the path normalised against the directory Rally was started in (FileCreated;
\* FileCreatedW: or against the working directory of the reporting process), without colour codes, ending with what the console
\* shows (FileEndsWithReport), nothing else in it (FileIsReport); one header per table
FileL1(f, line) ==
    (IF f.at = "cwd" THEN {} ELSE {<<line, "FileCreated">>})
    \cup (IF f.at # "none" THEN {} ELSE {<<line, "FileCreatedW">>})
    \cup (IF f.esc = 0 THEN {} ELSE {<<line, "FilePlain">>})
    \cup (IF f.at # "none" => f.tail THEN {} ELSE {<<line, "FileEndsWithReport">>})
    \cup (IF f.at # "none" => (f.eq /\ f.nhdr = 1) THEN {} ELSE {<<line, "FileIsReport">>})
    \cup (IF f.chdr = 1 /\ (f.at # "none" => f.nhdr >= 1) THEN {} ELSE {<<line, "HeaderOnce">>})

ReportL1(it) ==
    LET X == Struct(it.R)
        O == Options(it)
        crashed == it.crash # ""
    IN (IF ReportCompletes(crashed) THEN {} ELSE {<<-5, "ReportCompletes">>})
       \cup (IF ReportCompletesW(crashed, X, O) THEN {} ELSE {<<-5, "ReportCompletesW">>})
       \cup (IF crashed THEN {}
             ELSE RowsL1(it.rows, X, O)
                  \cup {<<i, "CsvEqualsMarkdown">> : i \in OffMd(it.rows, it.md)}
                  \cup {<<i, "CsvEqualsMarkdownW">> : i \in OffMd(NonEmpty(it.rows), NonEmpty(it.md))}
                  \cup FileL1(it.fcsv, -1) \cup FileL1(it.fmd, -2)
                  \cup {<<i, "FlatAgrees">> : i \in OffFlatAgrees(it.rows, it.flat, X, O)}
                  \cup (IF WarnKinds(it.warn) = WarnsExpected(X) THEN {} ELSE {<<-4, "Warnings">>})
                  \cup (IF it.al.right /\ it.al.center /\ it.al.left THEN {} ELSE {<<-7, "AlignOnlyWhitespace">>}))

(* ---- L2: the transcription ---- *)
RowEq(r, c) == r.s = c.s /\ r.u = c.u /\ r.v \in {c.v, c.alt}
MdEq(r, c) == r.s = c.s /\ r.u = c.u /\ (IsSig6(r.v, c.v) \/ IsSig6(r.v, c.alt))
FileL2(f, at, headers, nrows) == /\ f.at = at /\ f.nhdr = headers /\ f.chdr = (IF headers > 0 THEN 1 ELSE 0)
                             /\ f.eq = (headers = 1) /\ f.tail = (headers >= 1) /\ f.esc = 0 /\ f.nrows = headers * nrows

ReportL2(it) ==
    LET X == Struct(it.R)
        O == Options(it)
        code == CodeRows(X, O)
        crash == CodeCrash(X, O)
    IN (IF (it.crash # "") = crash /\ it.crash \in {"", "TypeError"} THEN {} ELSE {-5})
       \cup (IF Len(it.rows) = Len(code) THEN {IF it.rows[j].s > 0 THEN it.rows[j].s ELSE 0 : j \in {k \in 1..Len(code) : ~RowEq(it.rows[k], code[k])}} ELSE {0})
       \cup (IF Len(it.md) = Len(CodeMd(code)) /\ \A j \in 1..Len(it.md) : MdEq(it.md[j], code[j]) THEN {} ELSE {-6})
       \cup (IF FileL2(it.fcsv, CodeAt(X, O), CodeHeaders(X, O), Len(code)) THEN {} ELSE {-1})
       \cup (IF FileL2(it.fmd, CodeAt(X, O), CodeHeaders(X, O), Len(CodeMd(code))) THEN {} ELSE {-2})
       \cup (IF /\ it.fx = FlatExtra(X)
                /\ \A i \in Slots : IF InFlat(X, i) THEN it.flat.c[i] = 1 /\ it.flat.v[i] = X.v[i] ELSE it.flat.c[i] = 0
             THEN {} ELSE {-3})
       \cup (IF it.warn = CodeWarn(X, O) THEN {} ELSE {-4})
       \cup (IF it.al.right /\ it.al.center /\ it.al.left THEN {} ELSE {-7})

\* which percentiles exist for which sample size
PssL1(it) == IF ToSet(it.ps) = PercentileNames(it.n) /\ Len(it.ps) = Cardinality(ToSet(it.ps)) THEN {} ELSE {<<0, "PercentilesForSampleSize">>}

FmtL1(it) == IF it.res = FormatOutcome(it.fmt) THEN {} ELSE {<<0, "ReportFormats">>}

\* NB: the cursor must not share its name with any bound identifier of Summary.tla
VARIABLES cur
TInit == /\ cur = 1 /\ pair = <<0, 0>> /\ variant = 0 /\ R = 0 /\ out = NoOut /\ done = FALSE

Check(it) ==
    LET l1 == IF it.kind = "pss" THEN PssL1(it) ELSE IF it.kind = "fmt" THEN FmtL1(it) ELSE ReportL1(it)
        l2 == IF it.kind = "report" THEN ReportL2(it) ELSE {}
    IN /\ \A x \in l1 : PrintT(<<"V", it.id, x[1], "L1", {x[2]}>>)
       /\ \A x \in l2 : PrintT(<<"V", it.id, x, "L2", {}>>)

TNext == /\ cur <= Len(Items)
         /\ Check(Items[cur])
         /\ cur' = cur + 1
         /\ IF cur < Len(Items) THEN TRUE ELSE PrintT(<<"DONE", Len(Items), Len(Items)>>)
         /\ UNCHANGED vars

TSpec == TInit /\ [][TNext]_<<vars, cur>>
=============================================================================
