\* self-test: with AllToleratesAbsent = FALSE (the code as it is) the strong clause InvCompletes is violated in the model
SPECIFICATION Spec
CONSTANTS
  Vals <- ValsQuick
  D = 1000000
  Variants <- VarQuick
  AllToleratesAbsent = FALSE
  ForceEmptyPercentiles = TRUE
  SkipEmptyLines = TRUE
  ReportFileTruncated = TRUE
  RelativeToRallyCwd = TRUE
INVARIANT InvCompletes
CHECK_DEADLOCK FALSE
