\* self-test: with ReportFileTruncated = FALSE (the code as it is) the strong clause InvHeaderOnce is violated in the model
SPECIFICATION Spec
CONSTANTS
  Vals <- ValsQuick
  D = 1000000
  Variants <- VarQuick
  AllToleratesAbsent = TRUE
  ForceEmptyPercentiles = TRUE
  SkipEmptyLines = TRUE
  ReportFileTruncated = FALSE
  RelativeToRallyCwd = TRUE
INVARIANT InvHeaderOnce
CHECK_DEADLOCK FALSE
