------------------------------ MODULE Summary ------------------------------
(***************************************************************************)
(* The SUMMARY report of one race: esrally/reporter.py summarize(results,   *)
(* cfg) -> SummaryReporter.report() -> write_single_report, and its         *)
(* machine-readable twin metrics.GlobalStats.as_flat_list().  (The          *)
(* comparison report is specs/Compare, the calculation of GlobalStats is    *)
(* specs/Stats.)  Function-like: Init chooses a small results structure and *)
(* the reporting options, Eval computes the report.                         *)
(*                                                                         *)
(* results  R = [T, J, v]                                                   *)
(*   T  sequence of task ids in SCHEDULE ORDER (op_metrics; task t<e>)       *)
(*   J  sequence of ids of ML jobs j<e> / transforms x<e> (list order)       *)
(*   v  value per metric slot, NA = None / not recorded:                    *)
(*      value in the unit the report displays, as an integer over D         *)
(*      (per-field disk usage: bytes; the display unit depends on the value) *)
(* options  O = [mode, proc, again, path]                                   *)
(*   mode   --show-in-report: "available" | "all-percentiles" | "all"       *)
(*   proc   reporting/output.processingtime                                 *)
(*   again  the report file already holds an earlier report                 *)
(*   path   --report-file is "name" (a bare file name), "rel" (a relative    *)
(*          path with directories) or "abs" (an absolute path)              *)
(* report = SEQUENCE of rows [s, v, u]: slot (=> Metric and Task column),    *)
(*   value over D (NA = empty cell), unit ("" = empty cell).                *)
(*                                                                         *)
(* The slot table SlotSeq is the documentation (docs/summary_report.rst,     *)
(* sample reports in docs/race.rst, docs/quickstart.rst): line name, unit,   *)
(* conversion display = stored * num / den, formatting ("f2" = two          *)
(* decimals, "raw" = the number itself), order of the lines.                 *)
(*                                                                         *)
(* Five behaviours of the code that differ from the documented / intended    *)
(* content are named switches (TRUE = intended, FALSE = the code as it is): *)
(*   AllToleratesAbsent    show-in-report=all with a task that has no        *)
(*                         throughput: code raises TypeError ("%.2f" % None) *)
(*   ForceEmptyPercentiles all / all-percentiles, task without any latency   *)
(*                         (service time ...) sample: code prints no line    *)
(*   SkipEmptyLines        an ML / transform statistic that is None: code    *)
(*                         prints an empty table line                        *)
(*   ReportFileTruncated   report file exists: code appends (second header)  *)
(*   RelativeToRallyCwd    io.normalize_path joins only a BARE file name with *)
(*                         the directory Rally was started in (rally.cwd); a  *)
(*                         relative path with directories is resolved by the  *)
(*                         process that reports (an actor, maybe a daemon)    *)
(***************************************************************************)
EXTENDS Integers, Sequences, FiniteSets, TLC

CONSTANTS Vals,                 \* sequence of [v, b]: value index k (1..Len) -> display value over D / bytes for disk slots; index 0 = NA
          D,                    \* common denominator of displayed values: 10^6 or 10^3
          Variants,             \* set of [T, J, mode, proc, again, path, shift, keep, ss]
          AllToleratesAbsent, ForceEmptyPercentiles, SkipEmptyLines, ReportFileTruncated, RelativeToRallyCwd

NA == -2000000000
Num(x) == x > NA                         \* a number: neither NA nor the harness's BAD (= NA - 1: a cell that is not a number over D)
Abs(x) == IF x < 0 THEN -x ELSE x
Modes == {"available", "all-percentiles", "all"}

(***************************************************************************)
(* The slot table                                                          *)
(***************************************************************************)
S(g, e, k, s, name, task, unit, fmt, num, den) ==
    [g |-> g, e |-> e, k |-> k, s |-> s, name |-> name, task |-> task, unit |-> unit, fmt |-> fmt, num |-> num, den |-> den]

Cap(s) == CASE s = "min" -> "Min" [] s = "mean" -> "Mean" [] s = "median" -> "Median" [] s = "max" -> "Max"
ShardStats == <<"min", "median", "max">>
SummaryStats == <<"min", "mean", "median", "max">>

CumTime(k) == S("cum", 0, k, "time", "Cumulative " \o k \o " time of primary shards", "", "min", "raw", 1, 60000)
CumCount(k) == S("cum", 0, k, "count", "Cumulative " \o k \o " count of primary shards", "", "", "raw", 1, 1)
Shard(k, s) == S("shard", 0, k, s, Cap(s) \o " cumulative " \o k \o " time across primary shards", "", "min", "raw", 1, 60000)
TimeBlock(k, count) == <<CumTime(k)>> \o (IF count THEN <<CumCount(k)>> ELSE <<>>) \o [i \in 1..3 |-> Shard(k, ShardStats[i])]
Totals == TimeBlock("indexing", FALSE) \o TimeBlock("indexing throttle", FALSE) \o TimeBlock("merge", TRUE)
          \o TimeBlock("merge throttle", FALSE) \o TimeBlock("refresh", TRUE) \o TimeBlock("flush", TRUE)

MaxE == 3
ML(e) == [i \in 1..4 |-> S("ml", e, "", SummaryStats[i], Cap(SummaryStats[i]) \o " ML processing time", "j" \o ToString(e), "ms", "raw", 1, 1)]

GcKinds == <<"young", "old", "zgc_cycles", "zgc_pauses">>
GcLabel == <<"Young Gen", "Old Gen", "ZGC Cycles", "ZGC Pauses">>
GC == [i \in 1..8 |-> LET k == (i + 1) \div 2
                      IN IF i % 2 = 1 THEN S("gc", 0, GcKinds[k], "time", "Total " \o GcLabel[k] \o " GC time", "", "s", "raw", 1, 1000)
                                      ELSE S("gc", 0, GcKinds[k], "count", "Total " \o GcLabel[k] \o " GC count", "", "", "raw", 1, 1)]

SizeKinds == <<"dataset", "store", "translog">>
SizeLabel == <<"Dataset size", "Store size", "Translog size">>
Sizes == [i \in 1..3 |-> S("size", 0, SizeKinds[i], "bytes", SizeLabel[i], "", "GB", "raw", 1, 1073741824)]

MemKinds == <<"segments", "doc_values", "terms", "norms", "points", "stored_fields">>
MemLabel == <<"segments", "doc values", "terms", "norms", "points", "stored fields">>
Mem == [i \in 1..6 |-> S("mem", 0, MemKinds[i], "bytes", "Heap used for " \o MemLabel[i], "", "MB", "raw", 1, 1048576)]

Seg == <<S("segments", 0, "", "count", "Segment count", "", "", "raw", 1, 1)>>

XStats == <<"processing", "index", "search", "throughput">>
XLabel == <<"Transform processing time", "Transform indexing time", "Transform search time", "Transform throughput">>
\* the four transform lists are reported one after the other (stat-major)
Transform == [i \in 1..(4 * MaxE) |-> LET st == ((i - 1) \div MaxE) + 1
                                          e == ((i - 1) % MaxE) + 1
                                      IN S("transform", e, "", XStats[st], XLabel[st], "x" \o ToString(e),
                                           IF st = 4 THEN "docs/s" ELSE "ms", "raw", 1, 1)]

\* docs/summary_report.rst calls the ingest pipeline time "in milliseconds"; the report converts it to seconds like the GC times.
\* The transform lines and "Heap used for segments" are printed but not listed in summary_report.rst.
Ingest == <<S("ingest", 0, "", "count", "Total Ingest Pipeline count", "", "", "raw", 1, 1),
            S("ingest", 0, "", "time", "Total Ingest Pipeline time", "", "s", "raw", 1, 1000),
            S("ingest", 0, "", "failed", "Total Ingest Pipeline failed", "", "", "raw", 1, 1)>>

DiskFieldNames == <<"f1", "f2">>
DiskStats == <<"inverted index", "stored fields", "doc values", "points", "norms", "term vectors", "total">>
\* unit "*": bytes / kB / MB / GB, whichever is the largest one the value exceeds (HumanUnit below)
Disk == [i \in 1..14 |-> LET f == ((i - 1) \div 7) + 1
                             st == ((i - 1) % 7) + 1
                         IN S("disk", 0, DiskFieldNames[f], DiskStats[st], "idx " \o DiskFieldNames[f] \o " " \o DiskStats[st], "", "*", "raw", 1, 1)]

PNames == <<"50", "90", "99", "99.9", "99.99", "100">>
PctGroups == <<"latency", "service_time", "processing_time">>
PctLabel == <<"latency", "service time", "processing time">>
TpUnit(e) == IF e = 2 THEN "ops/s" ELSE "docs/s"           \* the throughput unit is data (throughput.unit)
Task(e) == [i \in 1..4 |-> S("throughput", e, "", SummaryStats[i], Cap(SummaryStats[i]) \o " Throughput", "t" \o ToString(e), TpUnit(e), "f2", 1, 1)]
        \o [i \in 1..18 |-> LET kd == ((i - 1) \div 6) + 1
                                p == ((i - 1) % 6) + 1
                            IN S(PctGroups[kd], e, "", PNames[p], PNames[p] \o "th percentile " \o PctLabel[kd], "t" \o ToString(e), "ms", "raw", 1, 1)]
        \o <<S("error_rate", e, "", "", "error rate", "t" \o ToString(e), "%", "f2", 100, 1)>>

SlotSeq == Totals \o ML(1) \o ML(2) \o ML(3) \o GC \o Sizes \o Mem \o Seg \o Transform \o Ingest \o Disk \o Task(1) \o Task(2) \o Task(3)
N == Len(SlotSeq)
Slots == 1..N

MLBase == Len(Totals)
GCBase == MLBase + 4 * MaxE
SizeBase == GCBase + 8
MemBase == SizeBase + 3
SegBase == MemBase + 6
XBase == SegBase + 1
IngBase == XBase + 4 * MaxE
DiskBase == IngBase + 3
TaskBase == DiskBase + 14
TaskLen == 23

Range(a, n) == [i \in 1..n |-> a + i]
MLIdx(e) == Range(MLBase + 4 * (e - 1), 4)
XIdx(st, e) == XBase + MaxE * (st - 1) + e
DiskIdx(f, st) == DiskBase + 7 * (f - 1) + st
TpIdx(e, i) == TaskBase + TaskLen * (e - 1) + i
PIdx(e, kd, p) == TaskBase + TaskLen * (e - 1) + 4 + 6 * (kd - 1) + p
ErrIdx(e) == TaskBase + TaskLen * e

Group(i) == SlotSeq[i].g
IsDisk(i) == Group(i) = "disk"
IsPct(i) == Group(i) \in {"latency", "service_time", "processing_time"}
KindOf(i) == CASE Group(i) = "latency" -> 1 [] Group(i) = "service_time" -> 2 [] Group(i) = "processing_time" -> 3
InSeq(x, s) == \E j \in 1..Len(s) : s[j] = x

Exists(R, i) == CASE SlotSeq[i].e = 0 -> TRUE
                  [] Group(i) \in {"ml", "transform"} -> InSeq(SlotSeq[i].e, R.J)
                  [] OTHER -> InSeq(SlotSeq[i].e, R.T)

(***************************************************************************)
(* Which percentiles exist for which sample size (metrics.percentiles_for_  *)
(* sample_size): a 99.99th percentile of five samples would be a vanity     *)
(* metric.  Indices into PNames.                                            *)
(***************************************************************************)
SizeClass(n) == IF n = 1 THEN 1 ELSE IF n < 10 THEN 2 ELSE IF n < 100 THEN 3 ELSE IF n < 1000 THEN 4 ELSE IF n < 10000 THEN 5 ELSE 6
PFor(c) == CASE c = 0 -> {} [] c = 1 -> {6} [] c = 2 -> {1, 6} [] c = 3 -> {1, 2, 6} [] c = 4 -> {1, 2, 3, 6} [] c = 5 -> {1, 2, 3, 4, 6} [] c = 6 -> 1..6
PercentileNames(n) == {PNames[p] : p \in PFor(SizeClass(n))}

(***************************************************************************)
(* Numbers.  f2: two decimals ("%.2f"); markdown: six significant digits    *)
(* (tabulate renders every number - also "%.2f" strings - with "%g", see    *)
(* the sample reports in the docs: 38089.5 docs/s); csv: the number itself. *)
(* Exact rounding ties are floating point's to decide: both are accepted.   *)
(***************************************************************************)
U2 == D \div 100
Round2(v) == LET q == v \div U2
                 r == v % U2
             IN [v |-> IF 2 * r >= U2 THEN (q + 1) * U2 ELSE q * U2, alt |-> IF 2 * r > U2 THEN (q + 1) * U2 ELSE q * U2]
IsRound2(w, v) == w >= 0 /\ v >= 0 /\ w % U2 = 0 /\ Abs(w - v) <= U2 \div 2

Unit6(w) == LET a == Abs(w) IN IF a < 1000000 THEN 1 ELSE IF a < 10000000 THEN 10 ELSE IF a < 100000000 THEN 100 ELSE IF a < 1000000000 THEN 1000 ELSE 10000
\* m is w itself (a column of integers is printed in full) or w rounded to six significant digits
IsSig6(m, w) == m = w \/ (m >= 0 /\ w >= 0 /\ m % Unit6(w) = 0 /\ Abs(m - w) <= Unit6(w) \div 2)

(* per-field disk usage: convert._bytes_to_human; display value over D is exact for multiples of 1/G of the unit *)
G == IF D % 64 = 0 THEN 64 ELSE 8
HumanUnits == <<"bytes", "kB", "MB", "GB">>
Pow1024 == <<1, 1024, 1048576, 1073741824>>
HumanIdx(b) == IF b > 1073741824 THEN 4 ELSE IF b > 1048576 THEN 3 ELSE IF b > 1024 THEN 2 ELSE 1
HumanUnit(b) == HumanUnits[HumanIdx(b)]
DiskExact(b) == b >= 0 /\ (HumanIdx(b) = 1 \/ b % (Pow1024[HumanIdx(b)] \div G) = 0)
DiskDisp(b) == LET p == Pow1024[HumanIdx(b)]
               IN IF p = 1 THEN b * D ELSE (b \div p) * D + ((b % p) \div (p \div G)) * (D \div G)

(* the value a line displays for stored value x of slot i (NA stays NA) and the unit next to it *)
Shown(i, x) == IF x = NA THEN [v |-> NA, alt |-> NA]
               ELSE IF IsDisk(i) THEN [v |-> DiskDisp(x), alt |-> DiskDisp(x)]
               ELSE IF SlotSeq[i].fmt = "f2" THEN Round2(x)
               ELSE [v |-> x, alt |-> x]
UnitOf(i, x) == IF IsDisk(i) THEN HumanUnit(x) ELSE SlotSeq[i].unit

(***************************************************************************)
(* The order of the lines.  Canon: every slot that can have a line for      *)
(* this structure, in report order: totals, ML jobs (list order), GC, sizes, *)
(* segment memory, segment count, transforms (list by list), ingest          *)
(* pipelines, per-field disk usage (fields by ascending total, only fields   *)
(* with a total, only recorded statistics), then task by task in schedule    *)
(* order: throughput, latency, service time, [processing time], error rate.  *)
(***************************************************************************)
Cat(f(_), s) == IF Len(s) = 0 THEN <<>> ELSE IF Len(s) = 1 THEN f(s[1]) ELSE IF Len(s) = 2 THEN f(s[1]) \o f(s[2])
                ELSE f(s[1]) \o f(s[2]) \o f(s[3])

DiskFields(R) == LET has(f) == R.v[DiskIdx(f, 7)] # NA
                     tot(f) == R.v[DiskIdx(f, 7)]
                 IN IF has(1) /\ has(2) THEN (IF tot(2) < tot(1) THEN <<2, 1>> ELSE <<1, 2>>)
                    ELSE IF has(1) THEN <<1>> ELSE IF has(2) THEN <<2>> ELSE <<>>
DiskOrder(R) == Cat(LAMBDA f : SelectSeq([st \in 1..7 |-> DiskIdx(f, st)], LAMBDA i : R.v[i] # NA), DiskFields(R))

TaskOrder(e, proc) == Range(TaskBase + TaskLen * (e - 1), 16) \o (IF proc THEN Range(TaskBase + TaskLen * (e - 1) + 16, 6) ELSE <<>>) \o <<ErrIdx(e)>>

Canon(R, proc) ==
       Range(0, MLBase)
    \o Cat(LAMBDA e : MLIdx(e), R.J)
    \o Range(GCBase, XBase - GCBase)
    \o Cat(LAMBDA e : <<XIdx(1, e)>>, R.J) \o Cat(LAMBDA e : <<XIdx(2, e)>>, R.J)
    \o Cat(LAMBDA e : <<XIdx(3, e)>>, R.J) \o Cat(LAMBDA e : <<XIdx(4, e)>>, R.J)
    \o Range(IngBase, 3)
    \o DiskOrder(R)
    \o Cat(LAMBDA e : TaskOrder(e, proc), R.T)

(***************************************************************************)
(* Transcription of SummaryReporter.report()                               *)
(***************************************************************************)
BlockEmpty(R, i) == \A p \in 1..6 : R.v[PIdx(SlotSeq[i].e, KindOf(i), p)] = NA     \* the latency / ... dict of the task is {}

\* "%.2f" % None: _line applies the converter also to a missing value
CodeCrash(R, O) == /\ ~AllToleratesAbsent
                   /\ O.mode = "all"
                   /\ \E j \in 1..Len(R.T) : \E i \in 1..4 : R.v[TpIdx(R.T[j], i)] = NA

Row(i, x) == [s |-> i, v |-> Shown(i, x).v, alt |-> Shown(i, x).alt, u |-> IF x = NA THEN "" ELSE UnitOf(i, x)]
BlankRow == [s |-> -1, v |-> NA, alt |-> NA, u |-> ""]
NoRow == [s |-> 0, v |-> NA, alt |-> NA, u |-> ""]

CodeLine(R, O, i) ==
    LET x == R.v[i]
        all == O.mode = "all"
    IN CASE Group(i) \in {"ml", "transform"} ->      \* lines.append(self._line(..)): not filtered
                IF x # NA \/ all THEN Row(i, x) ELSE IF SkipEmptyLines THEN NoRow ELSE BlankRow
         [] IsPct(i) ->                              \* "if value:" - nothing at all for an empty dict; force = all-percentiles
                IF BlockEmpty(R, i) /\ ~ForceEmptyPercentiles THEN NoRow
                ELSE IF x # NA \/ O.mode # "available" THEN Row(i, x) ELSE NoRow
         [] OTHER -> IF x # NA \/ all THEN Row(i, x) ELSE NoRow

CodeRows(R, O) ==
    IF CodeCrash(R, O) THEN <<>>
    ELSE LET canon == Canon(R, O.proc)
         IN SelectSeq([j \in 1..Len(canon) |-> CodeLine(R, O, canon[j])], LAMBDA r : r.s # 0)

(* markdown: tabulate renders the empty lines as lines of empty cells - unless ALL lines are empty, then it renders none *)
CodeMd(rows) == IF \A j \in 1..Len(rows) : rows[j].s = -1 THEN <<>> ELSE rows

(* warnings after the table: [task, kind] *)
CodeWarn(R, O) ==
    IF CodeCrash(R, O) THEN <<>>
    ELSE Cat(LAMBDA e : (IF R.v[ErrIdx(e)] > 0 THEN <<<<e, "error">>>> ELSE <<>>)
                        \o (IF R.v[TpIdx(e, 3)] = NA THEN <<<<e, IF R.v[ErrIdx(e)] # 0 THEN "nothroughput:errors" ELSE "nothroughput:warmup">>>> ELSE <<>>),
             R.T)

(* the report file: number of table headers in it afterwards (0: no file) and the directory it is resolved against *)
CodeHeaders(R, O) == IF CodeCrash(R, O) THEN 0 ELSE IF O.again /\ ~ReportFileTruncated THEN 2 ELSE 1
CodeAt(R, O) == IF CodeCrash(R, O) THEN "none" ELSE IF O.path = "rel" /\ ~RelativeToRallyCwd THEN "proc" ELSE "cwd"

(* as_flat_list(): the leaves that carry a number: <<slot, stored value in display units>>; every recorded value of every *)
(* existing entity, whatever the options; plus per task its duration and the mean of every non-empty latency dict          *)
InFlat(R, i) == Exists(R, i) /\ R.v[i] # NA
FlatExtra(R) == Len(R.T) + Cardinality({<<j, kd>> \in (1..Len(R.T)) \X (1..3) : \E p \in 1..6 : R.v[PIdx(R.T[j], kd, p)] # NA})

(***************************************************************************)
(* The documented / intended content, as predicates over an observed        *)
(* report: rows = sequence of [s, v, u] (s = 0: a line the slot table does   *)
(* not know, s = -1: an empty line), crashed = summarize() raised.           *)
(***************************************************************************)
Known(rows) == {j \in 1..Len(rows) : rows[j].s > 0}
Dom(rows) == {rows[j].s : j \in Known(rows)}
EmptyLines(rows) == {j \in 1..Len(rows) : rows[j].s = -1}

\* "must": a line is required; "may": left open (statistics of a field without a total); "no": no line
Need(R, O, i) ==
    IF ~Exists(R, i) THEN "no"
    ELSE IF Group(i) = "processing_time" /\ ~O.proc THEN "no"
    ELSE IF R.v[i] = NA THEN
        (IF IsDisk(i) THEN "no"
         ELSE IF O.mode = "all" THEN "must"
         ELSE IF O.mode = "all-percentiles" /\ IsPct(i) THEN "must"
         ELSE "no")
    ELSE IF IsDisk(i) /\ R.v[DiskIdx(IF SlotSeq[i].k = "f1" THEN 1 ELSE 2, 7)] = NA THEN "may"
    ELSE "must"

(* Every clause is given as the set of offending slots (0: the table as a whole); the clause holds iff the set is empty. *)

\* PresentOnce: every metric that is present (zero included) appears exactly once
OffPresentOnce(rows, R, O) ==
    LET dom == Dom(rows)
    IN {i \in Slots : R.v[i] # NA /\ Need(R, O, i) = "must" /\ i \notin dom}
       \cup (IF Cardinality(dom) = Cardinality(Known(rows)) THEN {}
             ELSE {rows[j].s : j \in {k \in Known(rows) : \E m \in Known(rows) : m < k /\ rows[m].s = rows[k].s}})
\* AllShowsEveryLine: show-in-report=all shows a line for every value, even undefined ones (percentile lines: PercentilesForced)
OffAllShowsEveryLine(rows, R, O) ==
    IF O.mode # "all" THEN {} ELSE LET dom == Dom(rows) IN {i \in Slots : ~IsPct(i) /\ Need(R, O, i) = "must" /\ i \notin dom}
\* PercentilesForced: all-percentiles / all show all six percentile lines of every task ...
OffPercentilesForced(rows, R, O) ==
    IF O.mode = "available" THEN {} ELSE LET dom == Dom(rows) IN {i \in Slots : IsPct(i) /\ Need(R, O, i) = "must" /\ i \notin dom}
\* PercentilesForcedW: ... at least for the tasks that have samples (what the code does)
OffPercentilesForcedW(rows, R, O) == {i \in OffPercentilesForced(rows, R, O) : ~BlockEmpty(R, i)}
\* NothingForAbsent: nothing appears for an absent metric, and there are no empty lines ...
OffNothingForAbsentW(rows, R, O) == {rows[j].s : j \in {k \in Known(rows) : Need(R, O, rows[k].s) = "no"}}
OffNothingForAbsent(rows, R, O) == OffNothingForAbsentW(rows, R, O) \cup (IF EmptyLines(rows) = {} THEN {} ELSE {0})
\* EmptyLinesW: ... at most one empty line per missing ML / transform statistic (what the code does)
AbsentListStats(R) == {i \in Slots : Group(i) \in {"ml", "transform"} /\ Exists(R, i) /\ R.v[i] = NA}
OffEmptyLinesW(rows, R, O) ==
    IF Cardinality(EmptyLines(rows)) <= (IF O.mode = "all" THEN 0 ELSE Cardinality(AbsentListStats(R))) THEN {} ELSE {0}
\* RowOrder: documented order of the lines, list order of ML jobs / transforms, schedule order of tasks.  OrderKey states the order
\* independently of Canon (which the transcription uses): block, position of the entity in its list, line within the block
PosOf(e, q) == IF Len(q) >= 1 /\ q[1] = e THEN 1 ELSE IF Len(q) >= 2 /\ q[2] = e THEN 2 ELSE IF Len(q) >= 3 /\ q[3] = e THEN 3 ELSE 0
OrderKey(R, i) ==
    CASE i <= MLBase -> i
      [] Group(i) = "ml" -> 100 + 10 * PosOf(SlotSeq[i].e, R.J) + (((i - MLBase - 1) % 4) + 1)
      [] i > GCBase /\ i <= XBase -> 200 + (i - GCBase)
      [] Group(i) = "transform" -> 300 + 10 * (((i - XBase - 1) \div MaxE) + 1) + PosOf(SlotSeq[i].e, R.J)
      [] Group(i) = "ingest" -> 400 + (i - IngBase)
      [] IsDisk(i) -> 500
      [] OTHER -> 1000 + 100 * PosOf(SlotSeq[i].e, R.T) + (((i - TaskBase - 1) % TaskLen) + 1)
\* per-field disk usage: the statistics of a field stay together in their fixed order; which field comes first is left open (the code
\* sorts the fields by ascending total, see DiskFields)
Before(R, a, b) == IF IsDisk(a) /\ IsDisk(b) THEN SlotSeq[a].k # SlotSeq[b].k \/ a < b ELSE OrderKey(R, a) < OrderKey(R, b)
OffRowOrder(rows, R, O) ==
    LET ks == SelectSeq(rows, LAMBDA r : r.s > 0 /\ Need(R, O, r.s) = "must")
        fieldChanges == {k \in 1..(Len(ks) - 1) : IsDisk(ks[k].s) /\ IsDisk(ks[k + 1].s) /\ SlotSeq[ks[k].s].k # SlotSeq[ks[k + 1].s].k}
    IN {ks[j + 1].s : j \in {k \in 1..(Len(ks) - 1) : ~Before(R, ks[k].s, ks[k + 1].s)}}
       \cup (IF Cardinality(fieldChanges) <= 1 THEN {} ELSE {ks[k + 1].s : k \in fieldChanges})
\* ValueConverted: the value is the stored value in the documented unit and format; an undefined value is an empty cell
ValueOk(r, R) == LET x == R.v[r.s]
                 IN IF x = NA THEN r.v = NA
                    ELSE IF IsDisk(r.s) THEN r.v = DiskDisp(x)
                    ELSE IF SlotSeq[r.s].fmt = "f2" THEN IsRound2(r.v, x)
                    ELSE r.v = x
OffValueConverted(rows, R, O) == {rows[j].s : j \in {k \in Known(rows) : ~ValueOk(rows[k], R)}}
\* UnitShown: the documented unit (the results' unit for throughput) next to every value
UnitOk(r, R) == IF R.v[r.s] = NA THEN r.u \in {"", UnitOf(r.s, 0)} ELSE r.u = UnitOf(r.s, R.v[r.s])
OffUnitShown(rows, R, O) == {rows[j].s : j \in {k \in Known(rows) : ~UnitOk(rows[k], R)}}

RowClausesW == {"PresentOnce", "AllShowsEveryLine", "PercentilesForcedW", "NothingForAbsentW", "EmptyLinesW", "RowOrder", "ValueConverted", "UnitShown"}
RowClausesS == {"PercentilesForced", "NothingForAbsent"}
Off(cl, rows, R, O) ==
    CASE cl = "PresentOnce" -> OffPresentOnce(rows, R, O)
      [] cl = "AllShowsEveryLine" -> OffAllShowsEveryLine(rows, R, O)
      [] cl = "PercentilesForced" -> OffPercentilesForced(rows, R, O)
      [] cl = "PercentilesForcedW" -> OffPercentilesForcedW(rows, R, O)
      [] cl = "NothingForAbsent" -> OffNothingForAbsent(rows, R, O)
      [] cl = "NothingForAbsentW" -> OffNothingForAbsentW(rows, R, O)
      [] cl = "EmptyLinesW" -> OffEmptyLinesW(rows, R, O)
      [] cl = "RowOrder" -> OffRowOrder(rows, R, O)
      [] cl = "ValueConverted" -> OffValueConverted(rows, R, O)
      [] cl = "UnitShown" -> OffUnitShown(rows, R, O)
RowHolds(cl, rows, R, O) == Off(cl, rows, R, O) = {}

\* ReportCompletes: summarize() completes for every results structure ...
ReportCompletes(crashed) == ~crashed
\* ReportCompletesW: ... at least unless undefined throughput values meet show-in-report=all (what the code does)
ReportCompletesW(crashed, R, O) == crashed => (O.mode = "all" /\ \E j \in 1..Len(R.T) : \E i \in 1..4 : R.v[TpIdx(R.T[j], i)] = NA)
\* FlatAgrees: the flat list (results store) is the twin of the report: every reported value has exactly one entry with the same value,
\* and every recorded value that the report must show is in the flat list.  flat = [c, v]: per slot the number of entries and the value
FlatRowOk(r, flat) == /\ flat.c[r.s] = 1
                      /\ IF IsDisk(r.s) THEN Num(flat.v[r.s]) /\ flat.v[r.s] >= 0 /\ r.v = DiskDisp(flat.v[r.s])
                         ELSE IF SlotSeq[r.s].fmt = "f2" THEN Num(flat.v[r.s]) /\ IsRound2(r.v, flat.v[r.s])
                         ELSE r.v = flat.v[r.s]
OffFlatAgrees(rows, flat, R, O) ==
    {rows[j].s : j \in {k \in Known(rows) : rows[k].v # NA /\ ~FlatRowOk(rows[k], flat)}}
    \cup LET dom == Dom(rows) IN {i \in Slots : flat.c[i] > 0 /\ Need(R, O, i) = "must" /\ i \notin dom}
FlatAgrees(rows, flat, R, O) == OffFlatAgrees(rows, flat, R, O) = {}
\* Warnings: every task with errors and every task without throughput is named after the table
WarnKinds(w) == {<<w[j][1], IF w[j][2] = "error" THEN "error" ELSE "nothroughput">> : j \in 1..Len(w)}
WarnsExpected(R) == {<<R.T[j], "error">> : j \in {k \in 1..Len(R.T) : R.v[ErrIdx(R.T[k])] > 0}}
                    \cup {<<R.T[j], "nothroughput">> : j \in {k \in 1..Len(R.T) : R.v[TpIdx(R.T[k], 3)] = NA}}

(***************************************************************************)
VARIABLES pair, variant, R, out, done
vars == <<pair, variant, R, out, done>>

K == Len(Vals)
Other(x, y) == IF x = 0 THEN y ELSE x
\* slots take the two values of the pair alternately; groups in keep avoid NA when the pair offers a value; the error rate is
\* always recorded (0 by default); ss >= 0: percentiles that do not exist for the task's sample size class are masked
Build(var, pr) ==
    [T |-> var.T, J |-> var.J,
     v |-> [i \in Slots |->
              LET a == IF (i + var.shift) % 2 = 0 THEN pr[1] ELSE pr[2]
                  b == IF (i + var.shift) % 2 = 0 THEN pr[2] ELSE pr[1]
                  k == IF Group(i) \in var.keep THEN Other(a, b) ELSE a
                  masked == IsPct(i) /\ var.ss >= 0 /\ (((i - TaskBase - 5) % TaskLen) % 6) + 1 \notin PFor((var.ss + SlotSeq[i].e + KindOf(i)) % 7)
              IN IF masked THEN NA
                 ELSE IF k = 0 THEN (IF Group(i) = "error_rate" THEN 0 ELSE NA)
                 ELSE IF IsDisk(i) THEN Vals[k].b ELSE Vals[k].v]]
Opt(var) == [mode |-> var.mode, proc |-> var.proc, again |-> var.again, path |-> var.path]

NoOut == [rows |-> 0, crash |-> FALSE, empty |-> 0, undefined |-> 0, warn |-> 0, headers |-> 0]

Init == /\ pair \in (0..K) \X (0..K)
        /\ variant \in Variants
        /\ R = Build(variant, pair)
        /\ out = NoOut
        /\ done = FALSE

Eval == /\ ~done
        /\ LET rows == CodeRows(R, Opt(variant))
           IN out' = [rows |-> Len(rows), crash |-> CodeCrash(R, Opt(variant)),
                      empty |-> Cardinality(EmptyLines(rows)),
                      undefined |-> Cardinality({j \in Known(rows) : rows[j].v = NA}),
                      warn |-> Len(CodeWarn(R, Opt(variant))),
                      headers |-> CodeHeaders(R, Opt(variant))]
        /\ done' = TRUE
        /\ UNCHANGED <<pair, variant, R>>

Spec == Init /\ [][Eval]_vars

(***************************************************************************)
(* Invariants on the transcription                                         *)
(***************************************************************************)
MRows == CodeRows(R, Opt(variant))
MFlat == [c |-> [i \in Slots |-> IF InFlat(R, i) THEN 1 ELSE 0], v |-> [i \in Slots |-> IF InFlat(R, i) THEN R.v[i] ELSE NA]]
Completed == done /\ ~CodeCrash(R, Opt(variant))

\* what the code as it is satisfies
InvRows == Completed => \A cl \in RowClausesW : RowHolds(cl, MRows, R, Opt(variant))
InvCompletesW == done => ReportCompletesW(CodeCrash(R, Opt(variant)), R, Opt(variant))
InvFlat == Completed => FlatAgrees(MRows, MFlat, R, Opt(variant))
InvWarn == Completed => WarnKinds(CodeWarn(R, Opt(variant))) = WarnsExpected(R)
InvHeaderW == Completed => CodeHeaders(R, Opt(variant)) >= 1
\* the strong forms (hold with the switches TRUE)
InvCompletes == done => ReportCompletes(CodeCrash(R, Opt(variant)))
InvPercentilesForced == Completed => RowHolds("PercentilesForced", MRows, R, Opt(variant))
InvNothingForAbsent == Completed => RowHolds("NothingForAbsent", MRows, R, Opt(variant))
InvHeaderOnce == Completed => CodeHeaders(R, Opt(variant)) = 1
InvFileCreated == Completed => CodeAt(R, Opt(variant)) = "cwd"
InvCsvEqualsMarkdown == Completed => CodeMd(MRows) = MRows

(* --report-format *)
Formats == {"markdown", "csv"}
FormatOutcome(f) == IF f \in Formats THEN "ok" ELSE "SystemSetupError"

(* every slot has a distinct (Metric, Task) label: the binding of printed lines to slots is a function *)
LabelsDistinct == \A i, j \in Slots : (SlotSeq[i].name = SlotSeq[j].name /\ SlotSeq[i].task = SlotSeq[j].task) => i = j
=============================================================================
