\* self-test: with RelativeToRallyCwd = FALSE (the code as it is) the strong clause InvFileCreated is violated in the model
SPECIFICATION Spec
CONSTANTS
  Vals <- ValsQuick
  D = 1000000
  Variants <- VarQuick
  AllToleratesAbsent = TRUE
  ForceEmptyPercentiles = TRUE
  SkipEmptyLines = TRUE
  ReportFileTruncated = TRUE
  RelativeToRallyCwd = FALSE
INVARIANT InvFileCreated
CHECK_DEADLOCK FALSE
