\* self-test: with SkipEmptyLines = FALSE (the code as it is) the strong clause InvNothingForAbsent is violated in the model
SPECIFICATION Spec
CONSTANTS
  Vals <- ValsQuick
  D = 1000000
  Variants <- VarQuick
  AllToleratesAbsent = TRUE
  ForceEmptyPercentiles = TRUE
  SkipEmptyLines = FALSE
  ReportFileTruncated = TRUE
  RelativeToRallyCwd = TRUE
INVARIANT InvNothingForAbsent
CHECK_DEADLOCK FALSE
