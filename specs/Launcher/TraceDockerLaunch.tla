------------------------- MODULE TraceDockerLaunch -------------------------
(***************************************************************************)
(* Validates recorded executions of the REAL DockerLauncher.start / stop   *)
(* (fake docker-compose / docker commands, virtual clock) against          *)
(* DockerLaunch.tla.  Input (env VERIF_TRACES): JSON array of items        *)
(*   [id, scn: [n, pt], init: OBS, events: <<[a, n, r, st: OBS]>>]         *)
(* OBS = state record of DockerLaunch.tla without pc, cur, err.            *)
(* L1: property formulas on the recorded state; L2: the event is enabled   *)
(* and its effect equals the recorded state (code as it is).               *)
(***************************************************************************)
EXTENDS DockerLaunch, Json, IOUtils

Traces == JsonDeserialize(IOEnv.VERIF_TRACES)

VARIABLES tid, l, nev, dead
tvars == <<vars, tid, l, nev, dead>>
Item == Traces[tid]

ObsOf(st) == [k \in (DOMAIN st) \ Internal |-> st[k]]
WithInternal(o, m) == o @@ [k \in Internal |-> m[k]]
Dummy == [n |-> 1, pt |-> 1]

TInit == /\ tid = 1 /\ l = 0 /\ nev = 0 /\ dead = FALSE /\ scn = Dummy /\ s = InitState(Dummy) /\ act = E("init", 0, "")

Begin ==
    /\ tid <= Len(Traces) /\ l = 0
    /\ LET m == InitState(Item.scn)
           l2 == Item.scn.n \in 1..4 /\ ObsOf(m) = Item.init
       IN /\ scn' = Item.scn /\ s' = WithInternal(Item.init, m)
          /\ IF l2 THEN TRUE ELSE PrintT(<<"V", Item.id, 0, "L2", {"init"}>>)
          /\ dead' = ~l2
    /\ act' = act /\ l' = 1 /\ UNCHANGED <<tid, nev>>

L1Clauses == {"StartHealthy", "PollBound", "DownEveryNode", "DownChecked"}

Consume ==
    /\ tid <= Len(Traces) /\ l >= 1 /\ l <= Len(Item.events)
    /\ LET e == Item.events[l]
           ev == E(e.a, e.n, e.r)
           m == Eff(s, ev)
           l2 == ev \in Enabled(s) /\ ObsOf(m) = e.st
       IN /\ s' = WithInternal(e.st, m)
          /\ act' = ev
          /\ LET holds == [c \in L1Clauses |->
                   CASE c = "StartHealthy" -> StartHealthyS(s')
                     [] c = "PollBound" -> PollBoundS(s')
                     [] c = "DownEveryNode" -> DownEveryNodeS(s')
                     [] c = "DownChecked" -> DownCheckedS(s')]
                 l1 == {c \in L1Clauses : ~holds[c]}
             IN /\ IF l1 = {} THEN TRUE ELSE PrintT(<<"V", Item.id, l, "L1", l1>>)
                /\ IF dead \/ l2 THEN TRUE ELSE PrintT(<<"V", Item.id, l, "L2", {e.a}>>)
          /\ dead' = (dead \/ ~l2)
    /\ l' = l + 1 /\ nev' = nev + 1
    /\ UNCHANGED <<scn, tid>>

EndOfRun ==
    /\ tid <= Len(Traces) /\ l = Len(Item.events) + 1
    /\ IF dead \/ s.pc \in {"done", "failed"} THEN TRUE ELSE PrintT(<<"V", Item.id, l, "L2", {"end"}>>)
    /\ IF tid < Len(Traces) THEN TRUE ELSE PrintT(<<"DONE", Len(Traces), nev>>)
    /\ tid' = tid + 1 /\ l' = 0 /\ dead' = FALSE
    /\ UNCHANGED <<vars, nev>>

TNext == Begin \/ Consume \/ EndOfRun
TSpec == TInit /\ [][TNext]_tvars
=============================================================================
