SPECIFICATION Spec
CONSTANTS
  Scenarios <- QuickScn
  CmdMayFail = TRUE
  CheckDown = TRUE
VIEW view
INVARIANT StartHealthy
INVARIANT PollBound
INVARIANT DownEveryNode
INVARIANT DownChecked
CHECK_DEADLOCK FALSE
