SPECIFICATION Spec
CONSTANTS
  Scenarios <- Clean3Scn
  Pid0 <- PAbsent
  Q0 <- QNone
  MayCrash = TRUE
  SpawnMayFail = TRUE
  PidReuse = FALSE
  RemoveStalePid = FALSE
  WaitAfterKill = FALSE
  ContinuePastFailure = FALSE
  DetachGone = FALSE
VIEW view
INVARIANT TypeOK
INVARIANT SignalDiscipline
INVARIANT FailureReported
INVARIANT TelemetryOrder
INVARIANT StartConsistent
INVARIANT NoSurvivorWeak
INVARIANT StopCoversAll
INVARIANT TelemetryCompleteFound
INVARIANT TelemetryAsIs
INVARIANT OnlyOwnSignalled
PROPERTY KillAfterGrace
CHECK_DEADLOCK FALSE
