SPECIFICATION Spec
CONSTANTS
  MaxAttempts <- QuickMax
  Classes <- AllClasses
  ExactAttempts = FALSE
VIEW view
INVARIANT AtMostMaxPlusOne
INVARIANT SleepBetween
INVARIANT TrueOnFirstSuccess
INVARIANT WrongScheme
INVARIANT RetriesUsedUp
INVARIANT FatalRaised
INVARIANT FalseMeansNoAttempt
CHECK_DEADLOCK FALSE
