SPECIFICATION Spec
CONSTANTS
  Scenarios <- SimScn
  CmdMayFail = TRUE
  CheckDown = FALSE
VIEW view
INVARIANT StartHealthy
INVARIANT PollBound
INVARIANT DownEveryNode
CHECK_DEADLOCK FALSE
