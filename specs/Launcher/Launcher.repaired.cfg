SPECIFICATION Spec
CONSTANTS
  Scenarios <- HostileScn
  Pid0 <- PAll
  Q0 <- QAll
  MayCrash = TRUE
  SpawnMayFail = TRUE
  PidReuse = FALSE
  RemoveStalePid = TRUE
  WaitAfterKill = TRUE
  ContinuePastFailure = TRUE
  DetachGone = TRUE
VIEW view
INVARIANT TypeOK
INVARIANT SignalDiscipline
INVARIANT FailureReported
INVARIANT TelemetryOrder
INVARIANT StartConsistent
INVARIANT NoSurvivor
INVARIANT StopCoversAll
INVARIANT TelemetryComplete
INVARIANT OnlyOwnSignalled
PROPERTY KillAfterGrace
CHECK_DEADLOCK FALSE
