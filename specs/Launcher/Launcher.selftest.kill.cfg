SPECIFICATION Spec
CONSTANTS
  Scenarios <- One
  Pid0 <- PAbsent
  Q0 <- QNone
  MayCrash = FALSE
  SpawnMayFail = TRUE
  PidReuse = FALSE
  RemoveStalePid = FALSE
  WaitAfterKill = FALSE
  ContinuePastFailure = FALSE
  DetachGone = FALSE
VIEW view
INVARIANT NoSurvivor
CHECK_DEADLOCK FALSE
