---------------------------- MODULE DockerLaunch ----------------------------
(***************************************************************************)
(* esrally/mechanic/launcher.py: DockerLauncher.start / stop as the        *)
(* sequence of docker-compose / docker calls against a small model of the  *)
(* containers of one host.                                                 *)
(*   cont[i]  absent -> starting -> healthy | unhealthy -> exited          *)
(*            (compose up creates it, the environment lets it become       *)
(*            healthy, fail its health check or die; compose down removes  *)
(*            it unless the command fails)                                 *)
(* Launcher events (one per external command / telemetry hook / return):   *)
(*   up (compose up -d: ok | rc), psq (compose ps -q: id | none),          *)
(*   dps (docker ps --filter status=running --filter health=healthy:       *)
(*   healthy | no), sleep (0.5 s, 1 tick), attach, sret (ok | rc |         *)
(*   IndexError | timeout); detR, down (ok | rc), detS, sysm, pret.        *)
(* CheckDown = FALSE is the code as it is: the exit code of `docker-compose*)
(* down` is dropped; TRUE: a failing `down` is reported in the log.        *)
(***************************************************************************)
EXTENDS Naturals, Sequences, TLC

CONSTANTS Scenarios,     \* set of [n, pt]: nodes on the host, health time-out in ticks
          CmdMayFail,    \* environment: compose up / down may fail, compose ps may print nothing
          CheckDown

VARIABLES scn, s, act
vars == <<scn, s, act>>
view == <<scn, s>>

Internal == {"pc", "cur", "err"}
E(a, n, r) == [a |-> a, n |-> n, r |-> r]
Inc(f, i) == [f EXCEPT ![i] = @ + 1]

InitState(sc) ==
    [cont |-> [i \in 1..sc.n |-> "absent"], seen |-> [i \in 1..sc.n |-> FALSE], warn |-> [i \in 1..sc.n |-> FALSE],
     ups |-> [i \in 1..sc.n |-> 0], downs |-> [i \in 1..sc.n |-> 0], polls |-> [i \in 1..sc.n |-> 0],
     att |-> [i \in 1..sc.n |-> 0], detR |-> [i \in 1..sc.n |-> 0], detS |-> [i \in 1..sc.n |-> 0], sysm |-> [i \in 1..sc.n |-> 0],
     sw |-> 0, sres |-> "none", pres |-> "none", pc |-> "up", cur |-> 1, err |-> ""]

Init == \E sc \in Scenarios : scn = sc /\ s = InitState(sc) /\ act = E("init", 0, "")

Fail(ok, bad) == {ok} \cup (IF CmdMayFail THEN {bad} ELSE {})

LauncherEv(st) ==
    LET i == st.cur
    IN CASE st.pc = "up" -> {E("up", i, r) : r \in Fail("ok", "rc")}
         [] st.pc = "psq" -> {E("psq", i, r) : r \in Fail("id", "none")}
         [] st.pc = "dps" -> IF st.sw < scn.pt THEN {E("dps", i, IF st.cont[i] = "healthy" THEN "healthy" ELSE "no")}
                             ELSE {E("sret", i, "timeout")}
         [] st.pc = "sleep" -> {E("sleep", i, "ok")}
         [] st.pc = "attach" -> {E("attach", i, "ok")}
         [] st.pc = "raise" -> {E("sret", i, st.err)}
         [] st.pc = "sretok" -> {E("sret", i, "ok")}
         [] st.pc = "detR" -> {E("detR", i, "ok")}
         [] st.pc = "down" -> {E("down", i, r) : r \in Fail("ok", "rc")}
         [] st.pc = "detS" -> {E("detS", i, "ok")}
         [] st.pc = "sysm" -> {E("sysm", i, "ok")}
         [] st.pc = "pretok" -> {E("pret", i, "ok")}
         [] OTHER -> {}

EnvNames == {"healthy", "sick", "die"}
EnvEv(st) ==
    UNION {
        (IF st.cont[i] = "starting" THEN {E("healthy", i, "ok"), E("sick", i, "ok")} ELSE {})
        \cup (IF st.cont[i] \in {"healthy", "unhealthy"} THEN {E("die", i, "ok")} ELSE {})
        : i \in 1..scn.n}
Enabled(st) == LauncherEv(st) \cup EnvEv(st)

NextNodeOrEnd(st, i, again, end) == IF i < scn.n THEN [st EXCEPT !.pc = again, !.cur = i + 1] ELSE [st EXCEPT !.pc = end]

Eff(st, ev) ==
    LET i == ev.n
        r == ev.r
    IN CASE ev.a = "up" -> IF r = "ok" THEN [st EXCEPT !.ups = Inc(@, i), !.cont[i] = "starting", !.pc = "psq"]
                           ELSE [st EXCEPT !.ups = Inc(@, i), !.err = "rc", !.pc = "raise"]
         [] ev.a = "psq" -> IF r = "id" THEN [st EXCEPT !.sw = 0, !.pc = "dps"] ELSE [st EXCEPT !.err = "IndexError", !.pc = "raise"]
         [] ev.a = "dps" -> IF r = "healthy" THEN [st EXCEPT !.polls = Inc(@, i), !.seen[i] = TRUE, !.pc = "attach"]
                            ELSE [st EXCEPT !.polls = Inc(@, i), !.pc = "sleep"]
         [] ev.a = "sleep" -> [st EXCEPT !.sw = @ + 1, !.pc = "dps"]
         [] ev.a = "attach" -> NextNodeOrEnd([st EXCEPT !.att = Inc(@, i)], i, "up", "sretok")
         [] ev.a = "sret" -> IF r = "ok" THEN [st EXCEPT !.sres = "ok", !.pc = "detR", !.cur = 1] ELSE [st EXCEPT !.sres = r, !.pc = "failed"]
         [] ev.a = "detR" -> [st EXCEPT !.detR = Inc(@, i), !.pc = "down"]
         [] ev.a = "down" -> IF r = "ok" THEN [st EXCEPT !.downs = Inc(@, i), !.cont[i] = "absent", !.pc = "detS"]
                             ELSE [st EXCEPT !.downs = Inc(@, i), !.warn[i] = CheckDown, !.pc = "detS"]
         [] ev.a = "detS" -> [st EXCEPT !.detS = Inc(@, i), !.pc = "sysm"]
         [] ev.a = "sysm" -> NextNodeOrEnd([st EXCEPT !.sysm = Inc(@, i)], i, "detR", "pretok")
         [] ev.a = "pret" -> [st EXCEPT !.pres = r, !.pc = "done"]
         [] ev.a = "healthy" -> [st EXCEPT !.cont[i] = "healthy"]
         [] ev.a = "sick" -> [st EXCEPT !.cont[i] = "unhealthy"]
         [] ev.a = "die" -> [st EXCEPT !.cont[i] = "exited"]
         [] OTHER -> st

Next == \E ev \in Enabled(s) : s' = Eff(s, ev) /\ act' = ev /\ UNCHANGED scn
Spec == Init /\ [][Next]_vars

(* ---- properties ---- *)
Nodes == 1..scn.n
\* start() returns only after docker has reported every container as running and healthy; one compose up per node
StartHealthyS(st) == st.sres = "ok" => \A i \in Nodes : st.seen[i] /\ st.ups[i] = 1 /\ st.att[i] = 1
\* the health poll gives up after the time-out: at most pt polls per node
PollBoundS(st) == \A i \in Nodes : st.polls[i] <= scn.pt
\* stop() runs compose down exactly once for every node, between the two detach calls, and stores the metrics
DownEveryNodeS(st) ==
    /\ \A i \in Nodes : st.downs[i] <= st.detR[i] /\ st.detS[i] <= st.downs[i] /\ st.sysm[i] <= st.detS[i] /\ st.detR[i] <= st.att[i] /\ st.detR[i] <= 1
    /\ (st.pres = "ok" => \A i \in Nodes : st.downs[i] = 1 /\ st.detS[i] = 1 /\ st.sysm[i] = 1)
\* after stop() no container is left unless that was reported
DownCheckedS(st) == st.pres = "ok" => \A i \in Nodes : st.cont[i] = "absent" \/ st.warn[i]
\* a start() that raises leaves no container behind (NOT true of the code: self-test only)
NoLeakOnFailedStartS(st) == st.sres \notin {"none", "ok"} => \A i \in Nodes : st.cont[i] = "absent"

StartHealthy == StartHealthyS(s)
PollBound == PollBoundS(s)
DownEveryNode == DownEveryNodeS(s)
DownChecked == DownCheckedS(s)
NoLeakOnFailedStart == NoLeakOnFailedStartS(s)
=============================================================================
