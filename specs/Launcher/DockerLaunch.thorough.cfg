SPECIFICATION Spec
CONSTANTS
  Scenarios <- ThoroughScn
  CmdMayFail = TRUE
  CheckDown = FALSE
VIEW view
INVARIANT StartHealthy
INVARIANT PollBound
INVARIANT DownEveryNode
CHECK_DEADLOCK FALSE
