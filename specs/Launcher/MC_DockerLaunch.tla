---- MODULE MC_DockerLaunch ----
EXTENDS DockerLaunch
Sc(n, pt) == [n |-> n, pt |-> pt]
QuickScn == {Sc(1, 4), Sc(2, 3), Sc(3, 2)}
ThoroughScn == {Sc(1, 6), Sc(2, 4), Sc(3, 3), Sc(4, 2)}
SimScn == {Sc(n, pt) : n \in 1..3, pt \in 2..4}
====
