SPECIFICATION Spec
CONSTANTS
  Scenarios <- HostileScn
  Pid0 <- PAll
  Q0 <- QAll
  MayCrash = TRUE
  SpawnMayFail = TRUE
  PidReuse = TRUE
  RemoveStalePid = FALSE
  WaitAfterKill = FALSE
  ContinuePastFailure = FALSE
  DetachGone = FALSE
VIEW view
INVARIANT TypeOK
INVARIANT SignalDiscipline
INVARIANT FailureReported
INVARIANT TelemetryOrder
INVARIANT NoSurvivorWeak
INVARIANT StopCoversAllOk
INVARIANT TelemetryCompleteFound
INVARIANT TelemetryAsIs
PROPERTY KillAfterGrace
CHECK_DEADLOCK FALSE
