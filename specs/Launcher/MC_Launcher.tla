---- MODULE MC_Launcher ----
EXTENDS Launcher
Sc(n, root, devfail, pt, gr) == [n |-> n, root |-> root, devfail |-> devfail, pt |-> pt, gr |-> gr]
\* no faults injected by the scenario itself
CleanScn == {Sc(1, FALSE, 0, 3, 2), Sc(2, FALSE, 0, 3, 2), Sc(1, TRUE, 0, 2, 2), Sc(2, TRUE, 0, 2, 2)}
Clean3Scn == CleanScn \cup {Sc(3, FALSE, 0, 3, 2)}
\* a telemetry device of node 1 or 2 raises in detach_from_node(running=True)
FaultScn == {Sc(2, FALSE, 1, 2, 1), Sc(2, FALSE, 2, 2, 2), Sc(1, FALSE, 1, 2, 2)}
HostileScn == {Sc(1, FALSE, 0, 3, 2), Sc(2, FALSE, 0, 2, 2), Sc(1, TRUE, 0, 2, 2)} \cup FaultScn
One == {Sc(1, FALSE, 0, 2, 2)}
Two == {Sc(2, FALSE, 0, 1, 1)}
TwoFault == {Sc(2, FALSE, 1, 1, 1)}
SimScn == {sc \in {Sc(n, r, d, pt, gr) : n \in 1..3, r \in {FALSE}, d \in 0..2, pt \in {2, 3}, gr \in {1, 2}} : sc.devfail <= sc.n} \cup {Sc(2, TRUE, 0, 2, 2)}
ThoroughScn == {sc \in {Sc(n, r, d, pt, gr) : n \in 1..3, r \in {FALSE}, d \in 0..2, pt \in {3}, gr \in {2}} : sc.devfail <= sc.n} \cup {Sc(2, TRUE, 0, 2, 2)}
PAbsent == {"absent"}
PStale == {"absent", "stale"}
PAll == {"absent", "stale", "garbage"}
QNone == {"none"}
QAlive == {"none", "alive"}
QAll == {"none", "alive", "denied"}
====
