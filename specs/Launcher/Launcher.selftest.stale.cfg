SPECIFICATION Spec
CONSTANTS
  Scenarios <- One
  Pid0 <- PStale
  Q0 <- QAlive
  MayCrash = FALSE
  SpawnMayFail = TRUE
  PidReuse = FALSE
  RemoveStalePid = FALSE
  WaitAfterKill = FALSE
  ContinuePastFailure = FALSE
  DetachGone = FALSE
VIEW view
INVARIANT StartConsistent
CHECK_DEADLOCK FALSE
