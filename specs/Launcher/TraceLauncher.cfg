SPECIFICATION TSpec
CONSTANTS
  Scenarios = {}
  Pid0 = {}
  Q0 = {}
  MayCrash = TRUE
  SpawnMayFail = TRUE
  PidReuse = TRUE
  RemoveStalePid = FALSE
  WaitAfterKill = FALSE
  ContinuePastFailure = FALSE
  DetachGone = FALSE
CHECK_DEADLOCK FALSE
