SPECIFICATION Spec
CONSTANTS
  MaxAttempts <- QuickMax
  Classes <- AllClasses
  ExactAttempts = TRUE
VIEW view
INVARIANT AtMostMax
INVARIANT SleepBetween
INVARIANT TrueOnFirstSuccess
INVARIANT WrongScheme
INVARIANT RetriesUsedUp
INVARIANT FatalRaised
INVARIANT FalseMeansNoAttempt
CHECK_DEADLOCK FALSE
