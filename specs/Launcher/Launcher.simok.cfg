SPECIFICATION Spec
CONSTANTS
  Scenarios <- SimScn
  Pid0 <- PAbsent
  Q0 <- QNone
  MayCrash = FALSE
  SpawnMayFail = FALSE
  PidReuse = FALSE
  RemoveStalePid = FALSE
  WaitAfterKill = FALSE
  ContinuePastFailure = FALSE
  DetachGone = FALSE
VIEW view
INVARIANT TypeOK
INVARIANT SignalDiscipline
INVARIANT FailureReported
INVARIANT TelemetryOrder
INVARIANT NoSurvivorWeak
INVARIANT StopCoversAllOk
INVARIANT TelemetryCompleteFound
INVARIANT TelemetryAsIs
PROPERTY KillAfterGrace
CHECK_DEADLOCK FALSE
