SPECIFICATION Spec
CONSTANTS
  Scenarios <- QuickScn
  CmdMayFail = TRUE
  CheckDown = FALSE
VIEW view
INVARIANT DownChecked
CHECK_DEADLOCK FALSE
