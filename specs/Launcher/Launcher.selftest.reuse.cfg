SPECIFICATION Spec
CONSTANTS
  Scenarios <- One
  Pid0 <- PAbsent
  Q0 <- QNone
  MayCrash = TRUE
  SpawnMayFail = TRUE
  PidReuse = TRUE
  RemoveStalePid = FALSE
  WaitAfterKill = FALSE
  ContinuePastFailure = FALSE
  DetachGone = FALSE
VIEW view
INVARIANT OnlyOwnSignalled
CHECK_DEADLOCK FALSE
