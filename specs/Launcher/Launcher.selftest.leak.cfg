SPECIFICATION Spec
CONSTANTS
  Scenarios <- Two
  Pid0 <- PAbsent
  Q0 <- QNone
  MayCrash = FALSE
  SpawnMayFail = TRUE
  PidReuse = FALSE
  RemoveStalePid = FALSE
  WaitAfterKill = FALSE
  ContinuePastFailure = FALSE
  DetachGone = FALSE
VIEW view
INVARIANT NoLeakOnFailedStart
CHECK_DEADLOCK FALSE
