SPECIFICATION Spec
CONSTANTS
  Scenarios <- HostileScn
  Pid0 <- PAll
  Q0 <- QAll
  MayCrash = TRUE
  SpawnMayFail = TRUE
  PidReuse = TRUE
  RemoveStalePid = TRUE
  WaitAfterKill = TRUE
  ContinuePastFailure = TRUE
  DetachGone = TRUE
VIEW view
INVARIANT TypeOK
INVARIANT SignalDiscipline
INVARIANT FailureReported
INVARIANT TelemetryOrder
INVARIANT StartConsistent
INVARIANT NoSurvivor
INVARIANT StopCoversAll
INVARIANT TelemetryComplete
PROPERTY KillAfterGrace
CHECK_DEADLOCK FALSE
