SPECIFICATION Spec
CONSTANTS
  Scenarios <- SimScn
  CmdMayFail = FALSE
  CheckDown = FALSE
VIEW view
INVARIANT StartHealthy
INVARIANT PollBound
INVARIANT DownEveryNode
CHECK_DEADLOCK FALSE
