------------------------------ MODULE Launcher ------------------------------
(***************************************************************************)
(* Life cycle of the Elasticsearch node processes that Rally's             *)
(* ProcessLauncher (esrally/mechanic/launcher.py) starts and stops on one  *)
(* host, seen as the sequence of system calls the launcher makes against a *)
(* small model of the operating system.                                    *)
(*                                                                         *)
(* Operating system (per node i of the host):                              *)
(*   proc[i]   the daemon spawned for node i                               *)
(*             absent -> starting -> running -> terminating|killed -> gone *)
(*             (starting: forked, pid file not yet written; terminating:   *)
(*             SIGTERM received, still alive; killed: SIGKILL sent but the *)
(*             process has not yet disappeared: signals take effect after  *)
(*             a nondeterministic delay)                                   *)
(*   pidf[i]   the pid file <install>/pid: absent | empty (created, not    *)
(*             yet written) | own (pid of proc[i]) | stale (pid of an      *)
(*             earlier process, left behind by a killed node) | garbage    *)
(*   qproc[i]  whoever holds the stale pid now, rproc[i] whoever got the   *)
(*             pid of proc[i] after it had gone (pid reuse):               *)
(*             none | alive | denied (owned by another user) |             *)
(*             terminating | killed                                        *)
(* Launcher (one start(node_1..node_n) call followed, if it returned, by   *)
(* one stop(nodes) call); every launcher event is one system call / one    *)
(* telemetry hook / one return:                                            *)
(*   pre, spawn, poll, sleep, attach, sret      (start; per node in order) *)
(*   lookup, detR, term, wtick, waitret, kill, detS, sysm, pret    (stop)  *)
(* Time passes only where the launcher sleeps or waits (sw = ticks on the  *)
(* stop watch that is running: polling of the pid file, 1 tick = one       *)
(* sleep(0.5); the wait(10) after SIGTERM, scn.gr ticks = 10 s).           *)
(*                                                                         *)
(* An event is a record [a, n, r] (name, node, result).  Enabled(st) is    *)
(* the set of events possible in state st, Eff(st, ev) the state after ev. *)
(* The launcher's event is determined by its program counter and by what   *)
(* the operating system answers; the environment's events are free.        *)
(*                                                                         *)
(* Switches (TRUE = repaired behaviour, FALSE = esrally as it is):         *)
(*   RemoveStalePid       the pid file is removed before the daemon is     *)
(*                        spawned (as it is: a file left by an earlier     *)
(*                        node is read at once and its pid returned)       *)
(*   WaitAfterKill        stop() waits for the process after SIGKILL (as   *)
(*                        it is: the node is reported stopped at once)     *)
(*   ContinuePastFailure  an exception of a telemetry device or an         *)
(*                        AccessDenied of terminate() is confined to the   *)
(*                        node (as it is: stop() raises, the remaining     *)
(*                        nodes are never signalled)                       *)
(*   DetachGone           telemetry is detached (running=False) also from  *)
(*                        a node whose process has already gone (as it is: *)
(*                        never detached)                                  *)
(***************************************************************************)
EXTENDS Naturals, Sequences, FiniteSets, TLC

CONSTANTS Scenarios,            \* set of [n, root, devfail, pt, gr]: nodes, euid 0, node whose device raises in detach, pid-file timeout and grace period in ticks
          Pid0, Q0,             \* initial contents of a pid file / initial holders of the stale pid
          MayCrash, PidReuse,   \* environment: nodes may die on their own; pids of gone nodes may be reused
          SpawnMayFail,         \* environment: the daemon's launcher script may exit with a non-zero code
          RemoveStalePid, WaitAfterKill, ContinuePastFailure, DetachGone

VARIABLES scn, s, act
vars == <<scn, s, act>>
view == <<scn, s>>

AliveP == {"starting", "running", "terminating", "killed"}
FStates == {"none", "alive", "denied", "terminating", "killed"}
PidfStates == {"absent", "empty", "own", "stale", "garbage"}
Internal == {"pc", "cur", "err", "acc", "rpid"}     \* not observable from outside the launcher

E(a, n, r) == [a |-> a, n |-> n, r |-> r]
Inc(f, i) == [f EXCEPT ![i] = @ + 1]
Set(f, i, v) == [f EXCEPT ![i] = v]

InitState(sc, p0, q0) ==
    [proc |-> [i \in 1..sc.n |-> "absent"], pidf |-> p0, qproc |-> q0, rproc |-> [i \in 1..sc.n |-> "none"],
     npid |-> [i \in 1..sc.n |-> "none"], hnd |-> "none", sw |-> 0,
     pre |-> [i \in 1..sc.n |-> 0], att |-> [i \in 1..sc.n |-> 0], detR |-> [i \in 1..sc.n |-> 0],
     detS |-> [i \in 1..sc.n |-> 0], sysm |-> [i \in 1..sc.n |-> 0], term |-> [i \in 1..sc.n |-> 0],
     kill |-> [i \in 1..sc.n |-> 0],
     looked |-> [i \in 1..sc.n |-> FALSE], found |-> [i \in 1..sc.n |-> FALSE],
     nsp |-> [i \in 1..sc.n |-> FALSE], warn |-> [i \in 1..sc.n |-> FALSE],
     fsig |-> 0, sres |-> "none", pres |-> "none", ret |-> <<>>,
     pc |-> "pre", cur |-> 1, err |-> "", acc |-> <<>>, rpid |-> [i \in 1..sc.n |-> "none"]]

InitOK(sc, p0, q0) == \A i \in 1..sc.n : q0[i] # "none" => p0[i] = "stale"

Init == \E sc \in Scenarios : \E p0 \in [1..sc.n -> Pid0] : \E q0 \in [1..sc.n -> Q0] :
          /\ InitOK(sc, p0, q0)
          /\ scn = sc /\ s = InitState(sc, p0, q0) /\ act = E("init", 0, "")

(* ------------------------------------------------------------------------ *)
(* who is behind a pid                                                      *)
(* ------------------------------------------------------------------------ *)
\* the process that currently has the pid of class c ("own" | "stale") of node i
HolderP(st, i, c) ==
    IF c = "own" THEN (IF st.proc[i] \in AliveP THEN "es" ELSE IF st.rproc[i] # "none" THEN "r" ELSE "none")
    ELSE IF c = "stale" THEN (IF st.qproc[i] # "none" THEN "q" ELSE "none")
    ELSE "none"
Denied(st, i, h) == (h = "q" /\ st.qproc[i] = "denied") \/ (h = "r" /\ st.rproc[i] = "denied")
\* a process handle (psutil.Process) stays bound to the process it was created for: a reused pid is not followed
HAlive(st, i) == CASE st.hnd = "es" -> st.proc[i] \in AliveP
                   [] st.hnd = "q" -> st.qproc[i] # "none"
                   [] st.hnd = "r" -> st.rproc[i] # "none"
                   [] OTHER -> FALSE
AttachRes(st, i) == LET h == HolderP(st, i, st.rpid[i])
                    IN IF h = "none" THEN "NoSuchProcess" ELSE IF Denied(st, i, h) THEN "AccessDenied" ELSE "ok"

(* ------------------------------------------------------------------------ *)
(* enabled events                                                           *)
(* ------------------------------------------------------------------------ *)
LauncherEv(st) ==
    LET i == st.cur
    IN CASE st.pc = "pre" -> {E("pre", i, "ok")}
         [] st.pc = "spawn" -> IF scn.root THEN {E("sret", i, "root")}
                               ELSE {E("spawn", i, "ok")} \cup (IF SpawnMayFail THEN {E("spawn", i, "rc")} ELSE {})
         [] st.pc = "poll" -> IF st.sw < scn.pt THEN {E("poll", i, st.pidf[i])} ELSE {E("sret", i, "pidtimeout")}
         [] st.pc = "sleep" -> {E("sleep", i, "ok")}
         [] st.pc = "attach" -> {E("attach", i, AttachRes(st, i))}
         [] st.pc = "raise" -> {E("sret", i, st.err)}
         [] st.pc = "sretok" -> {E("sret", i, "ok")}
         [] st.pc = "lookup" -> {E("lookup", i, IF HolderP(st, i, st.npid[i]) = "none" THEN "gone" ELSE "ok")}
         [] st.pc = "detR" -> {E("detR", i, IF scn.devfail = i THEN "fail" ELSE "ok")}
         [] st.pc = "term" -> {E("term", i, IF ~HAlive(st, i) THEN "gone" ELSE IF Denied(st, i, st.hnd) THEN "denied" ELSE "ok")}
         [] st.pc \in {"wait", "wait2"} -> IF ~HAlive(st, i) THEN {E("waitret", i, "ok")}
                                          ELSE IF st.sw < (IF st.pc = "wait" THEN scn.gr ELSE 2 * scn.gr) THEN {E("wtick", i, "ok")}
                                          ELSE {E("waitret", i, "timeout")}
         [] st.pc = "kill" -> {E("kill", i, IF ~HAlive(st, i) THEN "gone" ELSE "ok")}
         [] st.pc = "detS" -> {E("detS", i, "ok")}
         [] st.pc = "sysm" -> {E("sysm", i, "ok")}
         [] st.pc = "pretok" -> {E("pret", i, "ok")}
         [] st.pc = "praise" -> {E("pret", i, st.err)}
         [] OTHER -> {}

EnvNames == {"create", "write", "crash", "exit", "qexit", "rexit", "reuse"}
EnvEv(st) ==
    UNION {
        (IF st.proc[i] = "starting" /\ st.pidf[i] \notin {"empty", "own"} THEN {E("create", i, "ok")} ELSE {})
        \cup (IF st.proc[i] = "starting" /\ st.pidf[i] = "empty" THEN {E("write", i, "ok")} ELSE {})
        \cup (IF MayCrash /\ st.proc[i] \in {"starting", "running"} THEN {E("crash", i, "ok")} ELSE {})
        \cup (IF st.proc[i] \in {"terminating", "killed"} THEN {E("exit", i, "ok")} ELSE {})
        \cup (IF st.qproc[i] \in {"terminating", "killed"} THEN {E("qexit", i, "ok")} ELSE {})
        \cup (IF st.rproc[i] \in {"terminating", "killed"} THEN {E("rexit", i, "ok")} ELSE {})
        \cup (IF PidReuse /\ st.proc[i] = "gone" /\ st.rproc[i] = "none" /\ st.rpid[i] = "own" /\ ~st.looked[i]
              THEN {E("reuse", i, "alive"), E("reuse", i, "denied")} ELSE {})
        : i \in 1..scn.n}

Enabled(st) == LauncherEv(st) \cup EnvEv(st)

(* ------------------------------------------------------------------------ *)
(* effect of an event                                                       *)
(* ------------------------------------------------------------------------ *)
\* a signal reaches the process the handle is bound to
Signal(st, i, to) ==
    LET nxt(x) == IF to = "killed" THEN "killed" ELSE IF x \in {"starting", "running", "alive"} THEN "terminating" ELSE x
    IN CASE st.hnd = "es" -> [st EXCEPT !.proc[i] = nxt(@)]
         [] st.hnd = "q" -> [st EXCEPT !.qproc[i] = nxt(@), !.fsig = @ + 1]
         [] st.hnd = "r" -> [st EXCEPT !.rproc[i] = nxt(@), !.fsig = @ + 1]
         [] OTHER -> st

NoProc(st, i) == [st EXCEPT !.nsp[i] = TRUE, !.warn[i] = TRUE]
NextNodeOrEnd(st, i, again, end) == IF i < scn.n THEN [st EXCEPT !.pc = again, !.cur = i + 1] ELSE [st EXCEPT !.pc = end]

Eff(st, ev) ==
    LET i == ev.n
        r == ev.r
    IN CASE ev.a = "pre" -> [st EXCEPT !.pre = Inc(@, i), !.pc = "spawn"]
         [] ev.a = "spawn" ->
              LET t == IF RemoveStalePid THEN [st EXCEPT !.pidf[i] = "absent"] ELSE st
              IN IF r = "ok" THEN [t EXCEPT !.proc[i] = "starting", !.sw = 0, !.pc = "poll"]
                 ELSE [t EXCEPT !.err = "rc", !.pc = "raise"]
         [] ev.a = "poll" ->
              IF r \in {"absent", "empty"} THEN [st EXCEPT !.pc = "sleep"]
              ELSE IF r \in {"own", "stale"} THEN [st EXCEPT !.rpid[i] = r, !.pc = "attach"]
              ELSE [st EXCEPT !.err = "ValueError", !.pc = "raise"]
         [] ev.a = "sleep" -> [st EXCEPT !.sw = @ + 1, !.pc = "poll"]
         [] ev.a = "attach" ->
              LET t == [st EXCEPT !.npid[i] = st.rpid[i]]
              IN IF r = "ok" THEN NextNodeOrEnd([t EXCEPT !.att = Inc(@, i)], i, "pre", "sretok")
                 ELSE [t EXCEPT !.err = r, !.pc = "raise"]
         [] ev.a = "sret" ->
              IF r = "ok" THEN [st EXCEPT !.sres = "ok", !.pc = "lookup", !.cur = 1]
              ELSE [st EXCEPT !.sres = r, !.pc = "failed"]
         [] ev.a = "lookup" ->
              IF r = "ok" THEN [st EXCEPT !.looked[i] = TRUE, !.found[i] = TRUE, !.hnd = HolderP(st, i, st.npid[i]), !.pc = "detR"]
              ELSE [NoProc(st, i) EXCEPT !.looked[i] = TRUE, !.hnd = "none", !.pc = IF DetachGone THEN "detS" ELSE "sysm"]
         [] ev.a = "detR" ->
              LET t == [st EXCEPT !.detR = Inc(@, i)]
              IN IF r = "ok" THEN [t EXCEPT !.pc = "term"]
                 ELSE IF ContinuePastFailure THEN [t EXCEPT !.warn[i] = TRUE, !.pc = "term"]   \* logged, the node is stopped all the same
                 ELSE [t EXCEPT !.err = "device", !.pc = "praise"]
         [] ev.a = "term" ->
              IF r = "gone" THEN [NoProc(st, i) EXCEPT !.pc = "detS"]
              ELSE IF r = "denied" THEN (IF ContinuePastFailure THEN [st EXCEPT !.warn[i] = TRUE, !.pc = "detS"]
                                         ELSE [st EXCEPT !.err = "AccessDenied", !.pc = "praise"])
              ELSE [Signal(st, i, "terminating") EXCEPT !.term = Inc(@, i), !.sw = 0, !.pc = "wait"]
         [] ev.a = "wtick" -> [st EXCEPT !.sw = @ + 1]
         [] ev.a = "waitret" ->
              IF r = "ok" THEN [st EXCEPT !.acc = Append(@, i), !.pc = "detS"]
              ELSE IF st.pc = "wait" THEN [st EXCEPT !.pc = "kill"]
              ELSE [st EXCEPT !.warn[i] = TRUE, !.pc = "detS"]
         [] ev.a = "kill" ->
              IF r = "gone" THEN [NoProc(st, i) EXCEPT !.pc = "detS"]
              ELSE LET t == [Signal(st, i, "killed") EXCEPT !.kill = Inc(@, i)]
                   IN IF WaitAfterKill THEN [t EXCEPT !.pc = "wait2"]      \* a second wait of the same length: sw runs on to 2 * gr
                      ELSE [t EXCEPT !.acc = Append(@, i), !.pc = "detS"]
         [] ev.a = "detS" -> [st EXCEPT !.detS = Inc(@, i), !.pc = "sysm"]
         [] ev.a = "sysm" -> NextNodeOrEnd([st EXCEPT !.sysm = Inc(@, i)], i, "lookup", "pretok")
         [] ev.a = "pret" -> [st EXCEPT !.pres = r, !.ret = IF r = "ok" THEN st.acc ELSE <<>>, !.pc = "done"]
         \* ---- environment
         [] ev.a = "create" -> [st EXCEPT !.pidf[i] = "empty"]
         [] ev.a = "write" -> [st EXCEPT !.pidf[i] = "own", !.proc[i] = "running"]
         [] ev.a = "crash" -> [st EXCEPT !.proc[i] = "gone"]
         [] ev.a = "exit" -> [st EXCEPT !.proc[i] = "gone",
                                         !.pidf[i] = IF st.proc[i] = "terminating" /\ @ = "own" THEN "absent" ELSE @]
         [] ev.a = "qexit" -> [st EXCEPT !.qproc[i] = "none"]
         [] ev.a = "rexit" -> [st EXCEPT !.rproc[i] = "none"]
         [] ev.a = "reuse" -> [st EXCEPT !.rproc[i] = r]
         [] OTHER -> st

Next == \E ev \in Enabled(s) : s' = Eff(s, ev) /\ act' = ev /\ UNCHANGED scn
Spec == Init /\ [][Next]_vars

(* ------------------------------------------------------------------------ *)
(* properties (all stated on a state record st so that recorded executions  *)
(* of the real launcher can be judged by the same formulas)                 *)
(* ------------------------------------------------------------------------ *)
Nodes == 1..scn.n
Counter == 0..2
TypeOKs(st) ==
    /\ st.proc \in [Nodes -> {"absent", "gone"} \cup AliveP] /\ st.pidf \in [Nodes -> PidfStates]
    /\ st.qproc \in [Nodes -> FStates] /\ st.rproc \in [Nodes -> FStates]
    /\ st.npid \in [Nodes -> {"none", "own", "stale"}] /\ st.hnd \in {"none", "es", "q", "r"}
    /\ st.sw \in Nat
    /\ \A f \in {"pre", "att", "detR", "detS", "sysm", "term", "kill"} : st[f] \in [Nodes -> Counter]
    /\ \A f \in {"looked", "found", "nsp", "warn"} : st[f] \in [Nodes -> BOOLEAN]
    /\ st.fsig \in Nat /\ st.ret \in Seq(Nodes)

InRet(st, i) == \E k \in 1..Len(st.ret) : st.ret[k] = i

\* start() returns a node only with the pid that the daemon it spawned for this node wrote into the pid file
StartConsistentS(st) == st.sres = "ok" => \A i \in Nodes : st.npid[i] = "own" /\ st.att[i] = 1
\* every node gets at most one SIGTERM and one SIGKILL, SIGKILL never without SIGTERM
SignalDisciplineS(st) == \A i \in Nodes : st.kill[i] <= st.term[i] /\ st.term[i] <= 1
\* SIGKILL only after the grace period that follows SIGTERM has expired (action level: st = state before ev)
KillAfterGraceA(st, ev) == (ev.a = "kill" /\ ev.r = "ok") => st.term[ev.n] = 1 /\ st.sw >= scn.gr
\* after stop() has returned, the process of every node it reports as stopped has gone ...
NoSurvivorS(st) == st.pres = "ok" => \A i \in Nodes : InRet(st, i) => st.proc[i] \notin AliveP
\* ... as it is: has gone or has been sent SIGKILL, provided start() had returned its pid
NoSurvivorWeakS(st) == st.pres = "ok" => \A i \in Nodes : InRet(st, i) /\ st.npid[i] = "own" => st.proc[i] \notin (AliveP \ {"killed"})
\* a started node that stop() does not report as stopped was reported in the log; a node reported as stopped got SIGTERM; no duplicates
FailureReportedS(st) ==
    st.pres = "ok" => /\ \A i \in Nodes : IF InRet(st, i) THEN st.term[i] = 1 ELSE st.warn[i]
                      /\ \A k, m \in 1..Len(st.ret) : k # m => st.ret[k] # st.ret[m]
\* stop() deals with every node it was given, whatever happened with the nodes before it ...
StopCoversAllS(st) == st.pres # "none" => \A i \in Nodes : st.looked[i]
\* ... as it is: when it returns normally
StopCoversAllOkS(st) == st.pres = "ok" => \A i \in Nodes : st.looked[i]
\* telemetry hooks: pre-start before attach, detach only after attach, each at most once; detach(running=True) while the process
\* is there and before it is signalled, detach(running=False) only after it was signalled or found gone
TelemetryOrderS(st) ==
    \A i \in Nodes : /\ st.pre[i] <= 1 /\ st.att[i] <= st.pre[i]
                     /\ st.detR[i] <= st.att[i] /\ st.detS[i] <= st.att[i] /\ st.sysm[i] <= st.att[i]
                     /\ (st.detR[i] = 1 => st.found[i])
                     /\ (st.term[i] = 1 => st.detR[i] = 1)
                     /\ (st.detS[i] = 1 => st.term[i] = 1 \/ st.nsp[i] \/ st.warn[i])
\* after stop() has returned every started node has been detached (running=False) and its system metrics stored once ...
TelemetryCompleteS(st) == st.pres = "ok" => \A i \in Nodes : st.detS[i] = 1 /\ st.sysm[i] = 1
\* ... as it is: every node whose process was still there when stop() looked it up
TelemetryCompleteFoundS(st) ==
    st.pres = "ok" => \A i \in Nodes : st.sysm[i] = 1 /\ (st.found[i] => st.detR[i] = 1 /\ st.detS[i] = 1)
\* ... and no other (model checking of the code as it is only; for recorded runs this is a matter of L2)
TelemetryAsIsS(st) ==
    st.pres = "ok" => \A i \in Nodes : st.detR[i] = (IF st.found[i] THEN 1 ELSE 0) /\ st.detS[i] = st.detR[i]
\* no process other than the ones start() spawned is ever signalled (environment: no stale pid file, no pid reuse)
OnlyOwnSignalledS(st) == st.fsig = 0
\* a start() that raises leaves no fully started node of the same call behind (NOT true of the code, self-test only)
NoLeakOnFailedStartS(st) == st.sres \notin {"none", "ok"} => \A i \in Nodes : st.att[i] = 1 => st.proc[i] \notin {"starting", "running"}

TypeOK == TypeOKs(s)
StartConsistent == StartConsistentS(s)
SignalDiscipline == SignalDisciplineS(s)
NoSurvivor == NoSurvivorS(s)
NoSurvivorWeak == NoSurvivorWeakS(s)
FailureReported == FailureReportedS(s)
StopCoversAll == StopCoversAllS(s)
StopCoversAllOk == StopCoversAllOkS(s)
TelemetryOrder == TelemetryOrderS(s)
TelemetryComplete == TelemetryCompleteS(s)
TelemetryCompleteFound == TelemetryCompleteFoundS(s)
TelemetryAsIs == TelemetryAsIsS(s)
OnlyOwnSignalled == OnlyOwnSignalledS(s)
NoLeakOnFailedStart == NoLeakOnFailedStartS(s)
KillAfterGrace == [][KillAfterGraceA(s, act')]_vars
=============================================================================
