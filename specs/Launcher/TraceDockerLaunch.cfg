SPECIFICATION TSpec
CONSTANTS
  Scenarios = {}
  CmdMayFail = TRUE
  CheckDown = FALSE
CHECK_DEADLOCK FALSE
