---- MODULE MC_RestLayer ----
EXTENDS RestLayer
AllClasses == {"ok", "ser", "serhttps", "tls", "conn", "proto", "conntimeout", "transport", "api503", "api401", "api408", "api404", "api500", "api429", "other"}
QuickMax == {-1, 0, 1, 2}
ThoroughMax == {-1, 0, 1, 2, 3, 4}
====
