SPECIFICATION Spec
CONSTANTS
  Scenarios <- One
  Pid0 <- PAbsent
  Q0 <- QNone
  MayCrash = TRUE
  SpawnMayFail = TRUE
  PidReuse = FALSE
  RemoveStalePid = FALSE
  WaitAfterKill = FALSE
  ContinuePastFailure = FALSE
  DetachGone = FALSE
VIEW view
INVARIANT TelemetryComplete
CHECK_DEADLOCK FALSE
