--------------------------- MODULE TraceLauncher ---------------------------
(***************************************************************************)
(* Validates recorded executions of the REAL esrally ProcessLauncher       *)
(* (start + stop against the fake operating system of                      *)
(* harness/extras/launcher.py) against Launcher.tla.                       *)
(* Input (env VERIF_TRACES): JSON array of items                           *)
(*   [id, scn: [n, root, devfail, pt, gr], init: OBS, events: <<ev>>]      *)
(*   ev = [a, n, r, st: OBS]   event name / node / result and the          *)
(*   observable state after it (every field of the state record of         *)
(*   Launcher.tla except the launcher's internal ones: pc, cur, err, acc,  *)
(*   rpid, which are taken from the specification's own step).             *)
(* For every event TLC binds the recorded post-state and evaluates         *)
(*   L1: the property formulas of Launcher.tla (strong forms) on the       *)
(*       recorded state / on the recorded step,                            *)
(*   L2: the event is enabled in the specification (code as it is: all     *)
(*       switches FALSE) and the specification's effect equals the         *)
(*       recorded state.                                                   *)
(* <<"V", id, line, "L1"|"L2", clauses>> per failing event (line 0 =       *)
(* initial state, #events + 1 = end of run), <<"DONE", #items, #events>>.  *)
(***************************************************************************)
EXTENDS Launcher, Json, IOUtils

Traces == JsonDeserialize(IOEnv.VERIF_TRACES)

VARIABLES tid, l, nev, dead
tvars == <<vars, tid, l, nev, dead>>

Item == Traces[tid]

ObsOf(st) == [k \in (DOMAIN st) \ Internal |-> st[k]]
WithInternal(o, m) == o @@ [k \in Internal |-> m[k]]

DummyScn == [n |-> 1, root |-> FALSE, devfail |-> 0, pt |-> 1, gr |-> 1]
TInit == /\ tid = 1 /\ l = 0 /\ nev = 0 /\ dead = FALSE
         /\ scn = DummyScn /\ s = InitState(DummyScn, <<"absent">>, <<"none">>) /\ act = E("init", 0, "")

Begin ==
    /\ tid <= Len(Traces) /\ l = 0
    /\ LET sc == Item.scn
           m == InitState(sc, Item.init.pidf, Item.init.qproc)
           l2 == /\ sc.n \in 1..4 /\ sc.devfail \in 0..sc.n /\ sc.pt \in Nat /\ sc.gr \in Nat
                 /\ Len(Item.init.pidf) = sc.n /\ Len(Item.init.qproc) = sc.n
                 /\ \A i \in 1..sc.n : Item.init.pidf[i] \in {"absent", "stale", "garbage"} /\ Item.init.qproc[i] \in {"none", "alive", "denied"}
                 /\ InitOK(sc, Item.init.pidf, Item.init.qproc)
                 /\ ObsOf(m) = Item.init
       IN /\ scn' = sc
          /\ s' = WithInternal(Item.init, m)
          /\ IF l2 THEN TRUE ELSE PrintT(<<"V", Item.id, 0, "L2", {"init"}>>)
          /\ dead' = ~l2
    /\ act' = act /\ l' = 1 /\ UNCHANGED <<tid, nev>>

\* strong forms and, for those the code as it is does not meet in corner cases, the forms it does meet
L1Clauses == {"StartConsistent", "SignalDiscipline", "KillAfterGrace", "NoSurvivor", "FailureReported",
              "StopCoversAll", "TelemetryOrder", "TelemetryComplete",
              "StartConsistentClean", "NoSurvivorWeak", "StopCoversAllOk", "TelemetryCompleteFound"}
NoStaleFile == \A i \in 1..Item.scn.n : Item.init.pidf[i] # "stale"

Consume ==
    /\ tid <= Len(Traces) /\ l >= 1 /\ l <= Len(Item.events)
    /\ LET e == Item.events[l]
           ev == E(e.a, e.n, e.r)
           m == Eff(s, ev)
           l2 == /\ ev \in Enabled(s)
                 /\ ObsOf(m) = e.st
       IN /\ s' = WithInternal(e.st, m)
          /\ act' = ev
          /\ LET holds == [c \in L1Clauses |->
                   CASE c = "StartConsistent" -> StartConsistentS(s')
                     [] c = "SignalDiscipline" -> SignalDisciplineS(s')
                     [] c = "KillAfterGrace" -> KillAfterGraceA(s, ev)
                     [] c = "NoSurvivor" -> NoSurvivorS(s')
                     [] c = "FailureReported" -> FailureReportedS(s')
                     [] c = "StopCoversAll" -> StopCoversAllS(s')
                     [] c = "TelemetryOrder" -> TelemetryOrderS(s')
                     [] c = "TelemetryComplete" -> TelemetryCompleteS(s')
                     [] c = "StartConsistentClean" -> (NoStaleFile => StartConsistentS(s'))
                     [] c = "NoSurvivorWeak" -> NoSurvivorWeakS(s')
                     [] c = "StopCoversAllOk" -> StopCoversAllOkS(s')
                     [] c = "TelemetryCompleteFound" -> TelemetryCompleteFoundS(s')]
                 l1 == {c \in L1Clauses : ~holds[c]}
             IN /\ IF l1 = {} THEN TRUE ELSE PrintT(<<"V", Item.id, l, "L1", l1>>)
                /\ IF dead \/ l2 THEN TRUE ELSE PrintT(<<"V", Item.id, l, "L2", {e.a}>>)
          /\ dead' = (dead \/ ~l2)
    /\ l' = l + 1 /\ nev' = nev + 1
    /\ UNCHANGED <<scn, tid>>

EndOfRun ==
    /\ tid <= Len(Traces) /\ l = Len(Item.events) + 1
    /\ LET l2 == s.pc \in {"done", "failed"}
       IN IF dead \/ l2 THEN TRUE ELSE PrintT(<<"V", Item.id, l, "L2", {"end"}>>)
    /\ IF tid < Len(Traces) THEN TRUE ELSE PrintT(<<"DONE", Len(Traces), nev>>)
    /\ tid' = tid + 1 /\ l' = 0 /\ dead' = FALSE
    /\ UNCHANGED <<vars, nev>>

TNext == Begin \/ Consume \/ EndOfRun
TSpec == TInit /\ [][TNext]_tvars
=============================================================================
