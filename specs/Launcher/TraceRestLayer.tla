--------------------------- MODULE TraceRestLayer ---------------------------
(***************************************************************************)
(* Validates recorded executions of the REAL wait_for_rest_layer (scripted *)
(* fake Elasticsearch client, virtual clock) against RestLayer.tla.        *)
(* Input (env VERIF_TRACES): JSON array of items                           *)
(*   [id, max, events: <<[a, r, st: [calls, sleeps, slept, hist, res]]>>]  *)
(* L1: the property formulas of RestLayer.tla on the recorded state;       *)
(* L2: the event is enabled in the specification (code as it is) and its   *)
(* effect equals the recorded state.  Verdict lines as in TraceLauncher.   *)
(***************************************************************************)
EXTENDS RestLayer, Json, IOUtils

Traces == JsonDeserialize(IOEnv.VERIF_TRACES)

VARIABLES tid, l, nev, dead
tvars == <<vars, tid, l, nev, dead>>
Item == Traces[tid]

ObsOf(st) == [k \in (DOMAIN st) \ {"pc"} |-> st[k]]

TInit == /\ tid = 1 /\ l = 0 /\ nev = 0 /\ dead = FALSE /\ max = 0 /\ s = InitState /\ act = E("init", "")

Begin ==
    /\ tid <= Len(Traces) /\ l = 0
    /\ max' = Item.max /\ s' = InitState /\ act' = act /\ dead' = FALSE /\ l' = 1
    /\ UNCHANGED <<tid, nev>>

L1Clauses == {"AtMostMax", "AtMostMaxPlusOne", "SleepBetween", "TrueOnFirstSuccess", "WrongScheme", "RetriesUsedUp", "FatalRaised"}

Consume ==
    /\ tid <= Len(Traces) /\ l >= 1 /\ l <= Len(Item.events)
    /\ LET e == Item.events[l]
           ev == E(e.a, e.r)
           m == Eff(s, ev)
           l2 == ev \in Enabled(max, s) /\ ObsOf(m) = e.st
       IN /\ s' = e.st @@ [pc |-> m.pc]
          /\ act' = ev
          /\ LET holds == [c \in L1Clauses |->
                   CASE c = "AtMostMax" -> AtMostMaxS(max, s')
                     [] c = "AtMostMaxPlusOne" -> AtMostMaxPlusOneS(max, s')
                     [] c = "SleepBetween" -> SleepBetweenS(max, s')
                     [] c = "TrueOnFirstSuccess" -> TrueOnFirstSuccessS(max, s')
                     [] c = "WrongScheme" -> WrongSchemeS(max, s')
                     [] c = "RetriesUsedUp" -> RetriesUsedUpS(max, s')
                     [] c = "FatalRaised" -> FatalRaisedS(max, s')]
                 l1 == {c \in L1Clauses : ~holds[c]}
             IN /\ IF l1 = {} THEN TRUE ELSE PrintT(<<"V", Item.id, l, "L1", l1>>)
                /\ IF dead \/ l2 THEN TRUE ELSE PrintT(<<"V", Item.id, l, "L2", {e.a}>>)
          /\ dead' = (dead \/ ~l2)
    /\ l' = l + 1 /\ nev' = nev + 1
    /\ UNCHANGED <<max, tid>>

EndOfRun ==
    /\ tid <= Len(Traces) /\ l = Len(Item.events) + 1
    /\ IF dead \/ s.pc = "done" THEN TRUE ELSE PrintT(<<"V", Item.id, l, "L2", {"end"}>>)
    /\ IF tid < Len(Traces) THEN TRUE ELSE PrintT(<<"DONE", Len(Traces), nev>>)
    /\ tid' = tid + 1 /\ l' = 0 /\ dead' = FALSE
    /\ UNCHANGED <<vars, nev>>

TNext == Begin \/ Consume \/ EndOfRun
TSpec == TInit /\ [][TNext]_tvars
=============================================================================
