------------------------------ MODULE RestLayer ------------------------------
(***************************************************************************)
(* esrally/client/factory.py: wait_for_rest_layer(es, max_attempts): the   *)
(* retry loop around es.cluster.health(wait_for_nodes=">=N").              *)
(* Every health call ends in one outcome class:                            *)
(*   ok | ser (SerializationError) | serhttps (SerializationError "Client  *)
(*   sent an HTTP request to an HTTPS server") | tls (TlsError) | conn     *)
(*   (ConnectionError) | proto (ConnectionError caused by a ProtocolError) *)
(*   | conntimeout (ConnectionTimeout) | transport (any other              *)
(*   TransportError) | api<status> (ApiError) | other (anything else).     *)
(* Events: [a |-> "call", r |-> class], [a |-> "sleep", r |-> seconds],    *)
(*         [a |-> "ret", r |-> "True" | "False" | "setup:<why>" |          *)
(*         "raise:<class>" (the exception of the last call re-raised)].    *)
(* ExactAttempts = FALSE is the code as it is: the loop counts             *)
(* `while attempt <= max_attempts` from 0, i.e. max_attempts + 1 calls;    *)
(* TRUE = at most max_attempts calls.                                      *)
(***************************************************************************)
EXTENDS Integers, Sequences, TLC

CONSTANTS MaxAttempts,   \* set of values of max_attempts
          Classes,       \* outcome classes the environment may produce
          ExactAttempts

VARIABLES max, s, act
vars == <<max, s, act>>
view == <<max, s>>

E(a, r) == [a |-> a, r |-> r]
SLEEP == 3

Group(c) == CASE c = "ok" -> "ok"
              [] c = "ser" -> "retry"
              [] c = "conn" -> "retry"
              [] c \in {"conntimeout", "transport"} -> "retry"
              [] c \in {"api503", "api401", "api408"} -> "retry"
              [] c = "serhttps" -> "setup"
              [] c = "tls" -> "setup"
              [] c = "proto" -> "setup"
              [] OTHER -> "fatal"       \* other ApiError status codes, exceptions outside elastic_transport
SetupWhy(c) == CASE c = "serhttps" -> "setup:http-to-https" [] c = "tls" -> "setup:tls" [] OTHER -> "setup:protocol"

InitState == [calls |-> 0, sleeps |-> 0, slept |-> 0, hist |-> <<>>, res |-> "none", pc |-> "loop"]
Init == /\ max \in MaxAttempts /\ s = InitState /\ act = E("init", "")

\* loop condition before a call (attempt = number of calls so far) and retry condition after it (attempt already incremented)
Cont(m, k) == IF ExactAttempts THEN k < m ELSE k <= m
Retry(m, k) == IF ExactAttempts THEN k < m ELSE k <= m

Enabled(m, st) ==
    CASE st.pc = "loop" -> IF Cont(m, st.calls) THEN {E("call", c) : c \in Classes} ELSE {E("ret", "False")}
      [] st.pc = "handle" ->
           LET c == st.hist[st.calls]
               g == Group(c)
           IN IF g = "ok" THEN {E("ret", "True")}
              ELSE IF g = "setup" THEN {E("ret", SetupWhy(c))}
              ELSE IF g = "retry" /\ Retry(m, st.calls) THEN {E("sleep", SLEEP)}
              ELSE {E("ret", "raise:" \o c)}
      [] OTHER -> {}

Eff(st, ev) ==
    CASE ev.a = "call" -> [st EXCEPT !.calls = @ + 1, !.hist = Append(@, ev.r), !.pc = "handle"]
      [] ev.a = "sleep" -> [st EXCEPT !.sleeps = @ + 1, !.slept = @ + ev.r, !.pc = "loop"]
      [] ev.a = "ret" -> [st EXCEPT !.res = ev.r, !.pc = "done"]
      [] OTHER -> st

Next == \E ev \in Enabled(max, s) : s' = Eff(s, ev) /\ act' = ev /\ UNCHANGED max
Spec == Init /\ [][Next]_vars

(* ---- properties, stated on (max_attempts, state record) ---- *)
Max0(m) == IF m < 0 THEN 0 ELSE m
Last(st) == st.hist[st.calls]
\* "max_attempts: the maximum number of attempts to check whether the REST API is available"
AtMostMaxS(m, st) == st.calls <= Max0(m)
\* as it is
AtMostMaxPlusOneS(m, st) == st.calls <= Max0(m + 1)
\* exactly one sleep between two consecutive calls, none before the first or after the last (its length, 3 s, is a matter of L2)
SleepBetweenS(m, st) ==
    /\ st.sleeps <= st.calls /\ st.sleeps + 1 >= st.calls
    /\ (st.res # "none" => st.sleeps = (IF st.calls = 0 THEN 0 ELSE st.calls - 1))
SleepLengthS(m, st) == st.slept = SLEEP * st.sleeps
\* True iff the last call succeeded, and nothing is called after a success
TrueOnFirstSuccessS(m, st) ==
    /\ \A k \in 1..(st.calls - 1) : st.hist[k] # "ok"
    /\ (st.res # "none" => (st.res = "True" <=> (st.calls > 0 /\ Last(st) = "ok")))
\* a wrong scheme (HTTP vs HTTPS) is reported at once as a SystemSetupError that says so
WrongSchemeS(m, st) ==
    /\ \A k \in 1..(st.calls - 1) : Group(st.hist[k]) # "setup"
    /\ (st.res # "none" /\ st.calls > 0 /\ Group(Last(st)) = "setup" => st.res = SetupWhy(Last(st)))
\* the function gives up on a retryable error only when the attempts are used up, and then never with True
\* (as it is the error is re-raised; L2 checks that)
RetriesUsedUpS(m, st) ==
    (st.res # "none" /\ st.calls > 0 /\ Group(Last(st)) = "retry") => st.res \in {"raise:" \o Last(st), "False"} /\ st.calls >= Max0(m)
\* anything else is raised unchanged at once
FatalRaisedS(m, st) ==
    /\ \A k \in 1..(st.calls - 1) : Group(st.hist[k]) = "retry"
    /\ (st.res # "none" /\ st.calls > 0 /\ Group(Last(st)) = "fatal" => st.res = "raise:" \o Last(st))

AtMostMax == AtMostMaxS(max, s)
AtMostMaxPlusOne == AtMostMaxPlusOneS(max, s)
SleepBetween == SleepBetweenS(max, s) /\ SleepLengthS(max, s)
TrueOnFirstSuccess == TrueOnFirstSuccessS(max, s)
WrongScheme == WrongSchemeS(max, s)
RetriesUsedUp == RetriesUsedUpS(max, s)
FatalRaised == FatalRaisedS(max, s)
\* the return value False is reachable only without any attempt (the caller's `else` branch in driver.py is dead code for max_attempts >= 0)
FalseMeansNoAttempt == s.res = "False" => s.calls = 0
=============================================================================
