SPECIFICATION Spec
CONSTANTS
  Scenarios <- QuickScn
  CmdMayFail = TRUE
  CheckDown = FALSE
VIEW view
INVARIANT NoLeakOnFailedStart
CHECK_DEADLOCK FALSE
