SPECIFICATION Spec
CONSTANTS
  Scenarios <- TwoFault
  Pid0 <- PAbsent
  Q0 <- QNone
  MayCrash = FALSE
  SpawnMayFail = TRUE
  PidReuse = FALSE
  RemoveStalePid = FALSE
  WaitAfterKill = FALSE
  ContinuePastFailure = FALSE
  DetachGone = FALSE
VIEW view
INVARIANT StopCoversAll
CHECK_DEADLOCK FALSE
