SPECIFICATION Spec
CONSTANTS
  MaxAttempts <- QuickMax
  Classes <- AllClasses
  ExactAttempts = FALSE
VIEW view
INVARIANT AtMostMax
CHECK_DEADLOCK FALSE
