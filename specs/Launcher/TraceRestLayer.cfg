SPECIFICATION TSpec
CONSTANTS
  MaxAttempts = {}
  Classes = {"ok", "ser", "serhttps", "tls", "conn", "proto", "conntimeout", "transport", "api503", "api401", "api408", "api404", "api500", "api429", "api400", "api403", "api502", "other"}
  ExactAttempts = FALSE
CHECK_DEADLOCK FALSE
