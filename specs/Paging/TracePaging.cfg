SPECIFICATION TSpec
CONSTANTS
  Scenarios = {}
  ResetBody = FALSE
  RefreshScrollId = FALSE
  DefaultPageSize = FALSE
CHECK_DEADLOCK FALSE
