---------------------------- MODULE TracePaging ----------------------------
(***************************************************************************)
(* Validates recorded executions of the REAL runners (runner.Query,         *)
(* OpenPointInTime, ClosePointInTime, CompositeContext as registered by     *)
(* register_default_runners) against a scripted fake Elasticsearch client   *)
(* (harness/extras/paging.py) against Paging.tla.                           *)
(* Input (env VERIF_TRACES): JSON array of items                            *)
(*   [id, scn, skip: << event numbers without L2 >>, events: << ev >>]      *)
(*   ev = [a |-> "B", it, k, op]        a runner call begins                *)
(*      | [a |-> "Q", req, resp, es]    one request on the wire, its        *)
(*                                      response, the fake's books after it *)
(*      | [a |-> "R", st, why, meta]    the call returned / raised          *)
(* For every event TLC binds the recorded post-state (histories wire and    *)
(* calls, the fake's state) and evaluates                                   *)
(*   L1: every property of Paging.tla on the recorded state,                *)
(*   L2: the event is the specification's step: the request is the one the  *)
(*       model runner sends in this state, the response is the one the      *)
(*       model Elasticsearch gives, the returned meta data are the model's. *)
(* <<"V", id, line, "L1"|"L2", clauses>> per failing event (line = #events  *)
(* + 1: end of run), <<"DONE", #items, #events>> at the end.                *)
(***************************************************************************)
EXTENDS Paging, Json, IOUtils, TLC

Traces == JsonDeserialize(IOEnv.VERIF_TRACES)

VARIABLES tid, l, nev, dead

tvars == <<vars, tid, l, nev, dead>>

Item == Traces[tid]
NoScn == [seg |-> "search", iters |-> 1, cont |-> FALSE, n |-> 0, size |-> 0, pages |-> 0, cap |-> 0, fail |-> 0, tout |-> 0,
          rot |-> FALSE, dsize |-> 1]

TInit == /\ tid = 1 /\ l = 0 /\ nev = 0 /\ dead = FALSE
         /\ scn = NoScn /\ es = Es0 /\ rn = Rn0 /\ wire = <<>> /\ calls = <<>>

BeginItem ==
    /\ tid <= Len(Traces) /\ l = 0
    /\ scn' = Item.scn /\ es' = Es0 /\ rn' = Rn0 /\ wire' = <<>> /\ calls' = <<>>
    /\ dead' = FALSE /\ l' = 1 /\ UNCHANGED <<tid, nev>>

Skipped(n) == \E i \in 1..Len(Item.skip) : Item.skip[i] = n

(* ---- L2: the recorded event is the step of the specification ---- *)
Conforms(e) ==
    CASE e.a = "B" -> CanBegin(S) /\ e.it = rn.it /\ e.k = rn.k /\ e.op = OpOf(scn, rn)
      [] e.a = "Q" -> /\ CanSend(S)
                      /\ e.req = NextReq(scn, rn)
                      /\ Serve(scn, es, e.req) = [resp |-> e.resp, es |-> e.es]
      [] e.a = "R" -> /\ CanReturn(S)
                      /\ e.st = (IF rn.exc = "" THEN "ok" ELSE "err") /\ e.why = rn.exc
                      /\ e.meta = RetMeta(scn, rn)
      [] OTHER -> FALSE

(* ---- binding of the recorded post-state; the model runner follows as long as the run conforms ---- *)
Apply(e, ok) ==
    /\ scn' = scn
    /\ CASE e.a = "B" -> /\ calls' = Append(calls, [it |-> e.it, k |-> e.k, op |-> e.op, st |-> "run", why |-> "", meta |-> NoMeta])
                         /\ wire' = wire /\ es' = es
                         /\ rn' = IF ok THEN BeginRn(scn, rn) ELSE rn
         [] e.a = "Q" -> /\ wire' = Append(wire, [call |-> Len(calls), req |-> e.req, resp |-> e.resp])
                         /\ es' = e.es /\ calls' = calls
                         /\ rn' = IF ok THEN OnResp(scn, rn, e.req, e.resp) ELSE rn
         [] e.a = "R" -> /\ calls' = [calls EXCEPT ![Len(calls)] = [@ EXCEPT !.st = e.st, !.why = e.why, !.meta = e.meta]]
                         /\ wire' = wire /\ es' = es
                         /\ rn' = IF ok THEN AfterReturn(scn, rn) ELSE rn
         [] OTHER -> UNCHANGED <<es, rn, wire, calls>>

WireClauses == {"InOrderOnce", "StartsAtFirstHit", "PagesWithinLimit", "NoRequestAfterEmptyPage", "NoUseAfterClear",
                "LatestScrollId", "LatestPitId", "SearchAfterChain", "NothingAfterError", "NoSearchOnClosedPit", "RequestShape"}
CallClauses == {"Complete", "PageCount", "ScrollCleared", "MetaFaithful", "NoSuccessOnFailure", "ErrOnlyIfRequestFailed", "OneCallAtATime",
                "PitClosedOnSuccess"}
L1Clauses == WireClauses \cup CallClauses \cup {"EsBooks"}

(* clause c in the state after the step, on the positions selected by mode: "Q" = the last request, "C" = the last call,
   "all" = every position (mode is a literal: the positions are taken in the primed state) *)
PosW(mode) == IF mode = "Q" THEN {Len(wire)} ELSE IF mode = "all" THEN Wire ELSE {}
PosC(mode) == IF mode = "C" THEN {Len(calls)} ELSE IF mode = "all" THEN Calls ELSE {}
HoldsOn(c, mode) ==
    CASE c = "InOrderOnce" -> InOrderOnceOn(PosW(mode))'
      [] c = "StartsAtFirstHit" -> StartsAtFirstHitOn(PosW(mode))'
      [] c = "PagesWithinLimit" -> PagesWithinLimitOn(PosW(mode))'
      [] c = "NoRequestAfterEmptyPage" -> NoRequestAfterEmptyPageOn(PosW(mode))'
      [] c = "NoUseAfterClear" -> NoUseAfterClearOn(PosW(mode))'
      [] c = "LatestScrollId" -> LatestScrollIdOn(PosW(mode))'
      [] c = "LatestPitId" -> LatestPitIdOn(PosW(mode))'
      [] c = "SearchAfterChain" -> SearchAfterChainOn(PosW(mode))'
      [] c = "NothingAfterError" -> NothingAfterErrorOn(PosW(mode))'
      [] c = "NoSearchOnClosedPit" -> NoSearchOnClosedPitOn(PosW(mode))'
      [] c = "RequestShape" -> RequestShapeOn(PosW(mode))'
      [] c = "Complete" -> CompleteOn(PosC(mode))'
      [] c = "PageCount" -> PageCountOn(PosC(mode))'
      [] c = "ScrollCleared" -> ScrollClearedOn(PosC(mode))'
      [] c = "MetaFaithful" -> MetaFaithfulOn(PosC(mode))'
      [] c = "NoSuccessOnFailure" -> NoSuccessOnFailureOn(PosC(mode))'
      [] c = "ErrOnlyIfRequestFailed" -> ErrOnlyIfRequestFailedOn(PosC(mode))'
      [] c = "OneCallAtATime" -> OneCallAtATimeOn(PosC(mode))'
      [] c = "PitClosedOnSuccess" -> PitClosedOnSuccessOn(PosC(mode))'
      [] c = "EsBooks" -> EsBooks'

Consume ==
    /\ tid <= Len(Traces) /\ l >= 1 /\ l <= Len(Item.events)
    /\ LET e == Item.events[l]
           l2 == IF dead \/ Skipped(l) THEN FALSE ELSE Conforms(e)
       IN /\ Apply(e, l2)
          (* the new position of the history that this event has written; the earlier ones were judged by earlier events *)
          /\ LET l1 == IF e.a = "Q" THEN {c \in L1Clauses : ~HoldsOn(c, "Q")} ELSE {c \in L1Clauses : ~HoldsOn(c, "C")}
             IN /\ IF l1 = {} THEN TRUE ELSE PrintT(<<"V", Item.id, l, "L1", l1>>)
                /\ IF dead \/ l2 THEN TRUE ELSE PrintT(<<"V", Item.id, l, "L2", {e.a}>>)
          /\ dead' = (dead \/ ~l2)
    /\ l' = l + 1 /\ nev' = nev + 1
    /\ UNCHANGED tid

(* end of a run: every clause once more on ALL positions of the final state, the run is over in the model, too *)
EndOfRun ==
    /\ tid <= Len(Traces) /\ l = Len(Item.events) + 1
    /\ UNCHANGED <<vars, dead>>
    /\ LET l1 == {c \in L1Clauses : ~HoldsOn(c, "all")} \cup {c \in {"Terminates"} : \E c2 \in Calls : calls[c2].st = "run"}
       IN /\ IF l1 = {} THEN TRUE ELSE PrintT(<<"V", Item.id, l, "L1", l1>>)
          /\ IF dead \/ Terminated THEN TRUE ELSE PrintT(<<"V", Item.id, l, "L2", {"end"}>>)
    /\ nev' = nev + 1
    /\ IF tid < Len(Traces) THEN TRUE ELSE PrintT(<<"DONE", Len(Traces), nev'>>)
    /\ tid' = tid + 1 /\ l' = 0

TNext == BeginItem \/ Consume \/ EndOfRun
TSpec == TInit /\ [][TNext]_tvars
=============================================================================
