SPECIFICATION Spec
CONSTANTS
  Scenarios <- SelfTestScenarios
  ResetBody = TRUE
  RefreshScrollId = TRUE
  DefaultPageSize = FALSE
INVARIANT ErrOnlyIfRequestFailed
CHECK_DEADLOCK FALSE
