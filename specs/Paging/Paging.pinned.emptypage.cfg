SPECIFICATION Spec
CONSTANTS
  Scenarios <- SelfTestScenarios2
  ResetBody = FALSE
  RefreshScrollId = TRUE
  DefaultPageSize = TRUE
INVARIANT NoRequestAfterEmptyPage
CHECK_DEADLOCK FALSE
