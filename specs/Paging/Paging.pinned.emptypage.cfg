SPECIFICATION Spec
CONSTANTS
  Scenarios <- QuickScenarios3
  ResetBody = FALSE
  RefreshScrollId = TRUE
  DefaultPageSize = TRUE
INVARIANT NoRequestAfterEmptyPage
CHECK_DEADLOCK FALSE
