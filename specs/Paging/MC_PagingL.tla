----------------------------- MODULE MC_PagingL -----------------------------
(* the big scenario sets of the thorough tier *)
EXTENDS MC_Paging

ThoroughScenarios == Gen(AllSegs, 2, 0..6, {0, 1, 2, 3}, {0, 1, 2, 3, 4}, {2, 3, Big}, 0..9, {0, 1, 3}, 2)
                     \cup Gen({"pag", "pit", "scroll"}, 3, 0..5, {1, 2, 3}, {0, 1, 2}, {Big}, 0..12, {0}, 2)
TableBigScenarios == Gen(AllSegs, 2, 0..4, {0, 1, 2, 3}, {0, 1, 2, 3}, {1, 2, Big}, 0..6, {0, 1}, 2)
=============================================================================
