------------------------------- MODULE Paging -------------------------------
(***************************************************************************)
(* Request protocols of Rally's stateful search runners                    *)
(* (esrally/driver/runner.py: Query._request_body_query / _scroll_query /  *)
(* _search_after_query, OpenPointInTime, ClosePointInTime,                 *)
(* CompositeContext, SearchAfterExtractor; docs/track.rst "search",        *)
(* "paginated-search", "scroll-search", "open-point-in-time").             *)
(*                                                                         *)
(* Two deterministic state machines and the history of what they say to    *)
(* each other:                                                             *)
(*  * `es`   the (fake) Elasticsearch: an index with scn.n hits (hit i has *)
(*           sort value i), total-hits tracking capped at scn.cap           *)
(*           (relation "gte" above it), scroll contexts and points in time *)
(*           that are open or closed, one scripted failing request         *)
(*           (scn.fail) and one response with timed_out (scn.tout);        *)
(*           with scn.rot every response carries a NEW scroll / pit id.    *)
(*  * `rn`   the runner: a task of scn.iters iterations of one segment     *)
(*           ("search" | "dsearch" (detailed-results) | "scroll" |         *)
(*           "oscroll" (search + pages, deprecated) | "pag" | "pit" =      *)
(*           open-point-in-time, paginated-search with-point-in-time-from, *)
(*           close-point-in-time inside one composite context).  All       *)
(*           iterations use the SAME params object (track.params           *)
(*           SearchParamSource.params() returns the same dict, the items   *)
(*           of a composite are the same dicts), so what a call leaves in  *)
(*           the body is seen by the next call (rn.bsa).  A failing call   *)
(*           aborts its segment; the task goes on with the next iteration  *)
(*           iff scn.cont (on-error: continue).                            *)
(*  * `wire` every request with its response, `calls` every runner call    *)
(*           with what it returned.                                        *)
(* One action = one runner call begins (Begin), one request / response     *)
(* (Send), one runner call returns or raises (Return).                     *)
(*                                                                         *)
(* Switches (TRUE = intended behaviour, FALSE = the code as it is):        *)
(*  ResetBody        FALSE: _search_after_query removes `search_after`     *)
(*                   from the shared body only when it stops because the   *)
(*                   result set is exhausted; when it stops at the `pages` *)
(*                   limit or raises, the next call STARTS AFTER the last  *)
(*                   hit of this one (and finally sends search_after:null).*)
(*  RefreshScrollId  FALSE: _scroll_query uses the _scroll_id of the       *)
(*                   initial response for every scroll request and for     *)
(*                   clear_scroll; ES documents that only the most         *)
(*                   recently received id should be used.                  *)
(*  DefaultPageSize  FALSE: paginated-search without results-per-page      *)
(*                   raises TypeError after the first response (documented:*)
(*                   "defaults to 10").                                    *)
(***************************************************************************)
EXTENDS Integers, Sequences, FiniteSets

CONSTANTS Scenarios,        \* set of scenario records, see MC_Paging.tla
          ResetBody,
          RefreshScrollId,
          DefaultPageSize

VARIABLES scn,              \* the scenario (constant along a behaviour)
          es,               \* fake Elasticsearch: [nreq, scrolls, pits]
          rn,               \* runner: control state of the code
          wire,             \* history: << [call, req, resp] >>
          calls             \* history: << [it, k, op, st, why, meta] >>

vars == <<scn, es, rn, wire, calls>>

Min(a, b) == IF a <= b THEN a ELSE b
Max(a, b) == IF a >= b THEN a ELSE b
SetMax(S) == CHOOSE x \in S : \A y \in S : y <= x
SetMin(S) == CHOOSE x \in S : \A y \in S : x <= y

(* ---------------------------------------------------------------------- *)
(* vocabulary                                                             *)
(* ---------------------------------------------------------------------- *)
NoId == [k |-> "none", c |-> 0, v |-> 0]
SId(c, v) == [k |-> "s", c |-> c, v |-> v]     \* scroll id of context c, version v
PId(c, v) == [k |-> "p", c |-> c, v |-> v]     \* pit id

(* sa: search_after; 0 = absent, -1 = null, else the sort value.  size: 0 = absent *)
Req(op, idx, size, sa, pit, sid, scroll) ==
    [op |-> op, idx |-> idx, size |-> size, sa |-> sa, pit |-> pit, sid |-> sid, scroll |-> scroll]
SearchReq(idx, size, sa, pit, scroll) == Req("search", idx, size, sa, pit, NoId, scroll)
ScrollReq(sid) == Req("scroll", FALSE, 0, 0, NoId, sid, FALSE)
ClearReq(sid) == Req("clear", FALSE, 0, 0, NoId, sid, FALSE)
OpenReq == Req("open", TRUE, 0, 0, NoId, NoId, FALSE)
CloseReq(pit) == Req("close", FALSE, 0, 0, pit, NoId, FALSE)
NoReq == Req("none", FALSE, 0, 0, NoId, NoId, FALSE)

(* a page: hits from .. from+cnt-1 (from = position of the cursor + 1 also for an empty page) *)
OkResp(from, cnt, total, rel, id, tout, took) ==
    [ok |-> TRUE, why |-> "", from |-> from, cnt |-> cnt, total |-> total, rel |-> rel, id |-> id, tout |-> tout, took |-> took]
FailResp(why) ==
    [ok |-> FALSE, why |-> why, from |-> 0, cnt |-> 0, total |-> 0, rel |-> "", id |-> NoId, tout |-> FALSE, took |-> 0]
Ack(id) == OkResp(0, 0, 0, "", id, FALSE, 0)

NoMeta == [w |-> 0, unit |-> "", pages |-> -1, hits |-> -1, rel |-> "", tout |-> FALSE, took |-> -1]
Meta(w, unit, pages, hits, rel, tout, took) ==
    [w |-> w, unit |-> unit, pages |-> pages, hits |-> hits, rel |-> rel, tout |-> tout, took |-> took]

Scrolls == {"scroll", "oscroll"}
Paginated == {"pag", "ppag"}
SegOps(seg) == IF seg = "pit" THEN <<"open", "ppag", "close">> ELSE <<seg>>

(* ---------------------------------------------------------------------- *)
(* the fake Elasticsearch                                                 *)
(* ---------------------------------------------------------------------- *)
Es0 == [nreq |-> 0, scrolls |-> <<>>, pits |-> <<>>]
Total(sc) == Min(sc.n, sc.cap)
Rel(sc) == IF sc.n > sc.cap THEN "gte" ELSE "eq"
ValidS(e, id) == id.k = "s" /\ id.c \in 1..Len(e.scrolls) /\ e.scrolls[id.c].st = "open"
ValidP(e, id) == id.k = "p" /\ id.c \in 1..Len(e.pits) /\ e.pits[id.c].st = "open"
Bump(sc, v) == IF sc.rot THEN v + 1 ELSE v

Serve(sc, e, q) ==
    LET r == e.nreq + 1
        e1 == [e EXCEPT !.nreq = r]
        to == (sc.tout = r)
        failed(why) == [resp |-> FailResp(why), es |-> e1]
    IN IF sc.fail = r THEN failed("boom")
       ELSE CASE q.op = "search" ->
                   IF q.sa < 0 THEN failed("badreq")
                   ELSE IF q.pit # NoId /\ ~ValidP(e, q.pit) THEN failed("notfound")
                   ELSE LET sz == IF q.size = 0 THEN sc.dsize ELSE q.size
                            start == IF q.scroll THEN 0 ELSE q.sa
                            cnt == Max(0, Min(sc.n, start + sz) - start)
                        IN IF q.scroll
                           THEN [resp |-> OkResp(start + 1, cnt, Total(sc), Rel(sc), SId(Len(e.scrolls) + 1, 0), to, r),
                                 es |-> [e1 EXCEPT !.scrolls = Append(@, [st |-> "open", pos |-> cnt, size |-> sz, v |-> 0])]]
                           ELSE IF q.pit # NoId
                           THEN LET c == q.pit.c
                                    v == Bump(sc, e.pits[c].v)
                                IN [resp |-> OkResp(start + 1, cnt, Total(sc), Rel(sc), PId(c, v), to, r),
                                    es |-> [e1 EXCEPT !.pits[c].v = v]]
                           ELSE [resp |-> OkResp(start + 1, cnt, Total(sc), Rel(sc), NoId, to, r), es |-> e1]
              [] q.op = "scroll" ->
                   IF ~ValidS(e, q.sid) THEN failed("notfound")
                   ELSE LET c == q.sid.c
                            x == e.scrolls[c]
                            cnt == Max(0, Min(sc.n, x.pos + x.size) - x.pos)
                            v == Bump(sc, x.v)
                        IN [resp |-> OkResp(x.pos + 1, cnt, Total(sc), Rel(sc), SId(c, v), to, r),
                            es |-> [e1 EXCEPT !.scrolls[c] = [x EXCEPT !.pos = x.pos + cnt, !.v = v]]]
              [] q.op = "clear" ->
                   IF ~ValidS(e, q.sid) THEN failed("notfound")
                   ELSE [resp |-> Ack(NoId), es |-> [e1 EXCEPT !.scrolls[q.sid.c].st = "closed"]]
              [] q.op = "open" ->
                   [resp |-> Ack(PId(Len(e.pits) + 1, 0)), es |-> [e1 EXCEPT !.pits = Append(@, [st |-> "open", v |-> 0])]]
              [] q.op = "close" ->
                   IF ~ValidP(e, q.pit) THEN failed("notfound")
                   ELSE [resp |-> Ack(NoId), es |-> [e1 EXCEPT !.pits[q.pit.c].st = "closed"]]
              [] OTHER -> failed("badreq")

(* ---------------------------------------------------------------------- *)
(* the runner                                                             *)
(* rn = [it, k      position: iteration, operation within the segment      *)
(*       stage      "idle" (between calls) | "run" | "end"                 *)
(*       todo       inside a call: "page" | "clear" | "ret"                *)
(*       page       pages retrieved by the current call                    *)
(*       bsa        `search_after` in the shared body (0 absent, -1 null)  *)
(*       cc         CompositeContext[open-pit name] (NoId = absent)        *)
(*       sid        scroll_id held by _scroll_query                        *)
(*       acc        [hits, rel, tout, took] accumulated meta data          *)
(*       exc]       "" | pending exception of the current call             *)
(* ---------------------------------------------------------------------- *)
Acc0 == [hits |-> -1, rel |-> "", tout |-> FALSE, took |-> 0]
Rn0 == [it |-> 1, k |-> 1, stage |-> "idle", todo |-> "ret", page |-> 0, bsa |-> 0, cc |-> NoId, sid |-> NoId,
        acc |-> Acc0, exc |-> ""]
OpOf(sc, r) == SegOps(sc.seg)[r.k]
LimitReached(sc, p) == sc.pages # 0 /\ p >= sc.pages

BeginRn(sc, r) ==
    LET op == OpOf(sc, r)
        nokey == op \in {"ppag", "close"} /\ r.cc = NoId      \* CompositeContext.get raises KeyError
    IN [r EXCEPT !.stage = "run", !.page = 0, !.sid = NoId, !.acc = Acc0,
                 !.exc = IF nokey THEN "internal" ELSE "",
                 !.todo = IF nokey THEN "ret" ELSE "page"]

NextReq(sc, r) ==
    LET op == OpOf(sc, r)
    IN IF r.todo = "clear" THEN ClearReq(r.sid)
       ELSE IF r.todo # "page" THEN NoReq
       ELSE CASE op \in {"search", "dsearch"} -> SearchReq(TRUE, sc.size, 0, NoId, FALSE)
              [] op \in Scrolls -> IF r.page = 0 THEN SearchReq(TRUE, sc.size, 0, NoId, TRUE) ELSE ScrollReq(r.sid)
              [] op = "pag" -> SearchReq(TRUE, sc.size, r.bsa, NoId, FALSE)
              [] op = "ppag" -> SearchReq(FALSE, sc.size, r.bsa, r.cc, FALSE)
              [] op = "open" -> OpenReq
              [] op = "close" -> CloseReq(r.cc)
              [] OTHER -> NoReq

AccAdd(a, p, first) ==
    [hits |-> IF first THEN p.total ELSE a.hits,
     rel |-> IF first THEN p.rel ELSE a.rel,
     tout |-> a.tout \/ p.tout,
     took |-> a.took + p.took]

OnResp(sc, r, q, p) ==
    LET op == OpOf(sc, r)
    IN IF q.op = "clear" THEN [r EXCEPT !.todo = "ret"]                 \* a failing clear_scroll is only logged
       ELSE IF ~p.ok THEN
            [r EXCEPT !.exc = p.why,
                      !.todo = IF op \in Scrolls /\ r.sid # NoId THEN "clear" ELSE "ret",
                      !.bsa = IF op \in Paginated /\ ResetBody THEN 0 ELSE @]
       ELSE CASE op \in {"search", "dsearch"} ->
                   [r EXCEPT !.acc = AccAdd(@, p, TRUE), !.page = 1, !.todo = "ret"]
              [] op \in Scrolls ->
                   LET first == r.page = 0
                       done == IF first THEN (sc.size # 0 /\ p.total < sc.size) \/ p.total = 0 ELSE p.cnt = 0
                       pg == r.page + 1
                   IN [r EXCEPT !.acc = AccAdd(@, p, first), !.page = pg,
                                !.sid = IF first \/ RefreshScrollId THEN p.id ELSE @,
                                !.todo = IF done \/ LimitReached(sc, pg) THEN "clear" ELSE "page"]
              [] op \in Paginated ->
                   LET pg == r.page + 1
                       a == AccAdd(r.acc, p, r.page = 0)
                       cc2 == IF op = "ppag" THEN p.id ELSE r.cc
                       last == IF p.cnt > 0 THEN p.from + p.cnt - 1 ELSE -1
                   IN IF sc.size = 0 /\ ~DefaultPageSize
                      THEN [r EXCEPT !.acc = a, !.page = pg, !.cc = cc2, !.exc = "internal", !.todo = "ret"]
                      ELSE LET sz == IF sc.size = 0 THEN sc.dsize ELSE sc.size
                               more == a.hits > pg * sz
                               stop == ~more \/ LimitReached(sc, pg)
                           IN [r EXCEPT !.acc = a, !.page = pg, !.cc = cc2,
                                        !.bsa = IF ~more \/ (stop /\ ResetBody) THEN 0 ELSE last,
                                        !.todo = IF stop THEN "ret" ELSE "page"]
              [] op = "open" -> [r EXCEPT !.cc = p.id, !.todo = "ret"]
              [] op = "close" -> [r EXCEPT !.cc = NoId, !.todo = "ret"]
              [] OTHER -> r

RetMeta(sc, r) ==
    LET op == OpOf(sc, r)
    IN IF r.exc # "" THEN NoMeta
       ELSE CASE op = "search" -> Meta(1, "ops", -1, -1, "", FALSE, -1)
              [] op = "dsearch" -> Meta(1, "ops", -1, r.acc.hits, r.acc.rel, r.acc.tout, r.acc.took)
              [] op \in Scrolls \cup Paginated -> Meta(r.page, "pages", r.page, r.acc.hits, r.acc.rel, r.acc.tout, r.acc.took)
              [] OTHER -> NoMeta

AfterReturn(sc, r) ==
    LET failed == r.exc # ""
        clean == [r EXCEPT !.todo = "ret", !.page = 0, !.sid = NoId, !.acc = Acc0, !.exc = ""]
    IN IF ~failed /\ r.k < Len(SegOps(sc.seg)) THEN [clean EXCEPT !.stage = "idle", !.k = r.k + 1]
       ELSE IF r.it < sc.iters /\ (~failed \/ sc.cont)
            THEN [clean EXCEPT !.stage = "idle", !.it = r.it + 1, !.k = 1, !.cc = NoId]     \* a new composite context
       ELSE [clean EXCEPT !.stage = "end"]

(* ---------------------------------------------------------------------- *)
(* the three steps as functions on the whole state                        *)
(* ---------------------------------------------------------------------- *)
State(sc, e, r, w, c) == [scn |-> sc, es |-> e, rn |-> r, wire |-> w, calls |-> c]

CanBegin(s) == s.rn.stage = "idle"
CanSend(s) == s.rn.stage = "run" /\ s.rn.todo \in {"page", "clear"}
CanReturn(s) == s.rn.stage = "run" /\ s.rn.todo = "ret"

BeginF(s) ==
    [s EXCEPT !.rn = BeginRn(s.scn, s.rn),
              !.calls = Append(@, [it |-> s.rn.it, k |-> s.rn.k, op |-> OpOf(s.scn, s.rn), st |-> "run", why |-> "", meta |-> NoMeta])]
SendF(s) ==
    LET q == NextReq(s.scn, s.rn)
        sr == Serve(s.scn, s.es, q)
    IN [s EXCEPT !.es = sr.es,
                 !.rn = OnResp(s.scn, s.rn, q, sr.resp),
                 !.wire = Append(@, [call |-> Len(s.calls), req |-> q, resp |-> sr.resp])]
ReturnF(s) ==
    [s EXCEPT !.rn = AfterReturn(s.scn, s.rn),
              !.calls[Len(s.calls)] = [@ EXCEPT !.st = IF s.rn.exc = "" THEN "ok" ELSE "err", !.why = s.rn.exc, !.meta = RetMeta(s.scn, s.rn)]]

StepF(s) == IF CanBegin(s) THEN BeginF(s) ELSE IF CanSend(s) THEN SendF(s) ELSE IF CanReturn(s) THEN ReturnF(s) ELSE s
RECURSIVE RunF(_)
RunF(s) == IF s.rn.stage = "end" THEN s ELSE RunF(StepF(s))

S == State(scn, es, rn, wire, calls)
Set(t) == scn' = t.scn /\ es' = t.es /\ rn' = t.rn /\ wire' = t.wire /\ calls' = t.calls

Init == /\ scn \in Scenarios /\ es = Es0 /\ rn = Rn0 /\ wire = <<>> /\ calls = <<>>
Begin == CanBegin(S) /\ Set(BeginF(S))
Send == CanSend(S) /\ Set(SendF(S))
Return == CanReturn(S) /\ Set(ReturnF(S))
Next == Begin \/ Send \/ Return
Spec == Init /\ [][Next]_vars

(* the whole run in one step: the reachable states are a table scenario -> wire + returned meta data *)
Eval == rn.stage # "end" /\ Set(RunF(S))
SpecTable == Init /\ [][Eval]_vars

(* ---------------------------------------------------------------------- *)
(* properties: state predicates over scn, es and the histories.           *)
(* A clause about requests is written XOn(J) for a set J of positions of   *)
(* `wire` and only looks at the history up to each j \in J; a clause about *)
(* runner calls is written XOn(C) for a set C of positions of `calls`.     *)
(* The invariant is X == XOn(all positions).  (Trace validation checks the *)
(* new position after every event and all positions at the end of a run.)  *)
(* ---------------------------------------------------------------------- *)
Calls == 1..Len(calls)
Wire == 1..Len(wire)
CallOf(j) == wire[j].call
OpOfCall(j) == calls[CallOf(j)].op
OfCall(c) == {i \in Wire : wire[i].call = c}
IsPageReq(j) == wire[j].req.op \in {"search", "scroll"}
PageReqs(c) == {i \in OfCall(c) : IsPageReq(i)}
OkPages(c) == {i \in PageReqs(c) : wire[i].resp.ok}
PagedOp(op) == op \in Scrolls \cup Paginated
PrevIn(X, j) == LET B == {i \in X : i < j} IN IF B = {} THEN 0 ELSE SetMax(B)
LastHit(p) == p.from + p.cnt - 1
(* sum of `took` over the answered page requests of call c among wire[1..k]  (written without set arguments: TLC does not
   cache lazily evaluated arguments inside primed formulas) *)
RECURSIVE SumTook(_, _)
SumTook(c, k) == IF k = 0 THEN 0
                 ELSE (IF wire[k].call = c /\ IsPageReq(k) /\ wire[k].resp.ok THEN wire[k].resp.took ELSE 0) + SumTook(c, k - 1)

(* every hit of the result set is fetched at most once and in order: the pages of one call are contiguous *)
InOrderOnceOn(J) ==
    \A j \in J : (IsPageReq(j) /\ wire[j].resp.ok) =>
        LET i == PrevIn(OkPages(CallOf(j)), j) IN i # 0 => wire[j].resp.from = wire[i].resp.from + wire[i].resp.cnt
(* ... and every call starts in front of the first hit *)
StartsAtFirstHitOn(J) ==
    \A j \in J : (IsPageReq(j) /\ PagedOp(OpOfCall(j))) =>
        /\ PrevIn(PageReqs(CallOf(j)), j) = 0 => wire[j].req.sa = 0
        /\ (wire[j].resp.ok /\ PrevIn(OkPages(CallOf(j)), j) = 0) => wire[j].resp.from = 1
(* never more pages than asked for *)
PagesWithinLimitOn(J) ==
    \A j \in J : (IsPageReq(j) /\ PagedOp(OpOfCall(j)) /\ scn.pages # 0) =>
        Cardinality({i \in PageReqs(CallOf(j)) : i <= j}) <= scn.pages
(* "if a query yields fewer results than the specified number of pages we terminate earlier" *)
NoRequestAfterEmptyPageOn(J) ==
    \A j \in J : IsPageReq(j) => \A i \in PageReqs(CallOf(j)) : i < j => ~(wire[i].resp.ok /\ wire[i].resp.cnt = 0)
(* the scroll context is never used after it has been cleared *)
NoUseAfterClearOn(J) ==
    \A j \in J : wire[j].req.op \in {"scroll", "clear"} =>
        \A i \in 1..(j - 1) : (wire[i].req.op = "clear" /\ wire[i].resp.ok) => wire[j].req.sid.c # wire[i].req.sid.c
(* the scroll id / pit id sent is the one most recently returned *)
LatestScrollIdOn(J) ==
    \A j \in J : wire[j].req.op \in {"scroll", "clear"} =>
        LET prev == {i \in 1..(j - 1) : wire[i].resp.ok /\ wire[i].resp.id.k = "s" /\ wire[i].resp.id.c = wire[j].req.sid.c}
        IN prev # {} /\ wire[j].req.sid = wire[SetMax(prev)].resp.id
ItOf(i) == calls[wire[i].call].it
LatestPitIdOn(J) ==
    \A j \in J : (wire[j].req.pit # NoId \/ wire[j].req.op = "close") =>
        LET prev == {i \in 1..(j - 1) : ItOf(i) = ItOf(j) /\ wire[i].resp.ok /\ wire[i].resp.id.k = "p"}
        IN prev # {} /\ wire[j].req.pit = wire[SetMax(prev)].resp.id
(* search_after of request i+1 = sort values of the last hit of response i *)
SearchAfterChainOn(J) ==
    \A j \in J : (IsPageReq(j) /\ OpOfCall(j) \in Paginated) =>
        LET i == PrevIn(PageReqs(CallOf(j)), j)
        IN i # 0 => wire[i].resp.ok /\ (wire[i].resp.cnt > 0 => wire[j].req.sa = LastHit(wire[i].resp))
(* nothing is requested after an error, except the clean-up of the scroll *)
NothingAfterErrorOn(J) ==
    \A j \in J : wire[j].req.op # "clear" => \A i \in OfCall(CallOf(j)) : i < j => wire[i].resp.ok
(* a point in time is never used after it has been closed *)
NoSearchOnClosedPitOn(J) ==
    \A j \in J : wire[j].req.pit # NoId =>
        \A i \in 1..(j - 1) : (wire[i].req.op = "close" /\ wire[i].resp.ok) => wire[j].req.pit.c # wire[i].req.pit.c
(* what is on the wire: results-per-page as `size`, scroll only on the first request of a scroll call, no index with a pit *)
RequestShapeOn(J) ==
    \A j \in J :
        LET q == wire[j].req
            op == OpOfCall(j)
        IN /\ q.op = "search" => /\ q.size = scn.size
                                 /\ q.scroll = (op \in Scrolls /\ PrevIn(PageReqs(CallOf(j)), j) = 0)
                                 /\ (q.pit # NoId) = (op = "ppag")
                                 /\ q.idx = (q.pit = NoId)
                                 /\ op \in {"search", "dsearch", "pag", "ppag"} \cup Scrolls
           /\ q.op \in {"scroll", "clear"} => op \in Scrolls
           /\ (q.op = "open") = (op = "open")
           /\ (q.op = "close") = (op = "close")

(* a successful call that was not stopped by the page limit has seen the whole result set (exact totals only) *)
CompleteOn(C) ==
    \A c \in C : (PagedOp(calls[c].op) /\ calls[c].st = "ok" /\ Rel(scn) = "eq" /\ OkPages(c) # {}
                  /\ (scn.pages = 0 \/ Cardinality(PageReqs(c)) < scn.pages)) =>
        LET p == wire[SetMax(OkPages(c))].resp IN p.cnt = 0 \/ LastHit(p) >= scn.n
(* how many pages a successful call that started at the first hit fetches.  paginated-search trusts the reported total
   (a lower bound stops it early) and never fetches an empty page except for an empty result set; a scroll stops after the
   first page if the reported total is smaller than the page size, otherwise only at the first EMPTY page, which it counts *)
Ceil(a, b) == (a + b - 1) \div b
ExpectedPages(op) ==
    LET sz == IF scn.size = 0 THEN scn.dsize ELSE scn.size
        T == Total(scn)
        lim(x) == IF scn.pages = 0 THEN x ELSE Min(scn.pages, x)
    IN IF op \in Scrolls
       THEN (IF (scn.size # 0 /\ T < scn.size) \/ T = 0 THEN 1 ELSE lim(Ceil(scn.n, sz) + 1))
       ELSE lim(Max(1, Ceil(T, sz)))
PageCountOn(C) ==
    \A c \in C : (PagedOp(calls[c].op) /\ calls[c].st = "ok" /\ PageReqs(c) # {}) =>
        (wire[SetMin(PageReqs(c))].req.sa = 0 => Cardinality(PageReqs(c)) = ExpectedPages(calls[c].op))
(* the scroll context is ALWAYS cleared, also when a scroll request raised (unless clear_scroll itself failed) *)
ScrollClearedOn(C) ==
    \A c \in C : calls[c].st # "run" =>
        \A i \in OfCall(c) : (wire[i].req.scroll /\ wire[i].resp.ok) =>
            LET x == wire[i].resp.id.c
            IN /\ x \in 1..Len(es.scrolls)
               /\ \/ es.scrolls[x].st = "closed"
                  \/ \E j \in OfCall(c) : wire[j].req.op = "clear" /\ ~wire[j].resp.ok /\ wire[j].req.sid.c = x
(* the returned meta data are what the fake served *)
MetaFaithfulOn(C) ==
    \A c \in C : calls[c].st = "ok" =>
        LET m == calls[c].meta
            P == OkPages(c)
            f == wire[SetMin(P)].resp
        IN CASE PagedOp(calls[c].op) ->
                    /\ P # {} /\ m.w = Cardinality(P) /\ m.pages = m.w /\ m.unit = "pages"
                    /\ m.hits = f.total /\ m.rel = f.rel
                    /\ m.tout = (\E i \in P : wire[i].resp.tout) /\ m.took = SumTook(c, Len(wire))
             [] calls[c].op = "dsearch" ->
                    /\ P # {} /\ m.w = 1 /\ m.unit = "ops" /\ m.hits = f.total /\ m.rel = f.rel
                    /\ m.tout = f.tout /\ m.took = f.took
             [] calls[c].op = "search" -> m.w = 1 /\ m.unit = "ops"
             [] OTHER -> TRUE
(* errors surface, and only errors (a failing clear_scroll is only logged) *)
NoSuccessOnFailureOn(C) ==
    \A c \in C : calls[c].st = "ok" => \A i \in OfCall(c) : wire[i].resp.ok \/ wire[i].req.op = "clear"
ErrOnlyIfRequestFailedOn(C) ==
    \A c \in C : calls[c].st = "err" => \E i \in OfCall(c) : ~wire[i].resp.ok /\ wire[i].req.op # "clear"
OneCallAtATimeOn(C) == \A c \in C : calls[c].st = "run" => c = Len(calls)
(* points in time are closed when the segment succeeded (a failing segment LEAKS its pit: nothing closes it) *)
PitClosedOnSuccessOn(C) ==
    \A c \in C : (calls[c].op = "close" /\ calls[c].st = "ok") =>
        \A i \in Wire : (wire[i].req.op = "open" /\ wire[i].resp.ok /\ ItOf(i) = calls[c].it) =>
            LET x == wire[i].resp.id.c IN x \in 1..Len(es.pits) /\ es.pits[x].st = "closed"
(* the fake keeps its books: contexts are only opened by requests *)
EsBooks ==
    /\ es.nreq = Len(wire)
    /\ Len(es.scrolls) = Cardinality({i \in Wire : wire[i].req.op = "search" /\ wire[i].req.scroll /\ wire[i].resp.ok})
    /\ Len(es.pits) = Cardinality({i \in Wire : wire[i].req.op = "open" /\ wire[i].resp.ok})

InOrderOnce == InOrderOnceOn(Wire)
StartsAtFirstHit == StartsAtFirstHitOn(Wire)
PagesWithinLimit == PagesWithinLimitOn(Wire)
NoRequestAfterEmptyPage == NoRequestAfterEmptyPageOn(Wire)
NoUseAfterClear == NoUseAfterClearOn(Wire)
LatestScrollId == LatestScrollIdOn(Wire)
LatestPitId == LatestPitIdOn(Wire)
SearchAfterChain == SearchAfterChainOn(Wire)
NothingAfterError == NothingAfterErrorOn(Wire)
NoSearchOnClosedPit == NoSearchOnClosedPitOn(Wire)
RequestShape == RequestShapeOn(Wire)
Complete == CompleteOn(Calls)
PageCount == PageCountOn(Calls)
ScrollCleared == ScrollClearedOn(Calls)
MetaFaithful == MetaFaithfulOn(Calls)
NoSuccessOnFailure == NoSuccessOnFailureOn(Calls)
ErrOnlyIfRequestFailed == ErrOnlyIfRequestFailedOn(Calls)
OneCallAtATime == OneCallAtATimeOn(Calls)
PitClosedOnSuccess == PitClosedOnSuccessOn(Calls)

TypeOK ==
    /\ rn.stage \in {"idle", "run", "end"} /\ rn.todo \in {"page", "clear", "ret"}
    /\ rn.exc \in {"", "boom", "notfound", "badreq", "internal"}
    /\ \A c \in Calls : calls[c].st \in {"run", "ok", "err"} /\ calls[c].op \in {"search", "dsearch", "scroll", "oscroll", "pag", "ppag", "open", "close"}
    /\ \A i \in Wire : wire[i].call \in Calls /\ wire[i].req.op \in {"search", "scroll", "clear", "open", "close"}
TypeOKSim == rn.stage \in {"cfgA", "cfgB", "cfgC"} \/ TypeOK
Terminated == rn.stage = "end"
=============================================================================
