SPECIFICATION Spec
CONSTANTS
  Scenarios <- SelfTestScenarios
  ResetBody = TRUE
  RefreshScrollId = FALSE
  DefaultPageSize = TRUE
INVARIANT LatestScrollId
CHECK_DEADLOCK FALSE
