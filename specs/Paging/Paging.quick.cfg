SPECIFICATION Spec
CONSTANTS
  Scenarios <- QuickAll
  ResetBody = FALSE
  RefreshScrollId = FALSE
  DefaultPageSize = FALSE
INVARIANT TypeOK
INVARIANT InOrderOnce
INVARIANT PagesWithinLimit
INVARIANT Complete
INVARIANT PageCount
INVARIANT ScrollCleared
INVARIANT NoUseAfterClear
INVARIANT LatestPitId
INVARIANT SearchAfterChain
INVARIANT MetaFaithful
INVARIANT NothingAfterError
INVARIANT NoSuccessOnFailure
INVARIANT OneCallAtATime
INVARIANT PitClosedOnSuccess
INVARIANT NoSearchOnClosedPit
INVARIANT RequestShape
INVARIANT EsBooks
CHECK_DEADLOCK FALSE
