SPECIFICATION Spec
CONSTANTS
  Scenarios <- SelfTestScenarios
  ResetBody = FALSE
  RefreshScrollId = TRUE
  DefaultPageSize = TRUE
INVARIANT StartsAtFirstHit
CHECK_DEADLOCK FALSE
