SPECIFICATION Spec
CONSTANTS
  Scenarios <- ThoroughScenarios
  ResetBody = TRUE
  RefreshScrollId = TRUE
  DefaultPageSize = TRUE
INVARIANT TypeOK
INVARIANT InOrderOnce
INVARIANT PagesWithinLimit
INVARIANT Complete
INVARIANT PageCount
INVARIANT ScrollCleared
INVARIANT NoUseAfterClear
INVARIANT LatestPitId
INVARIANT SearchAfterChain
INVARIANT MetaFaithful
INVARIANT NothingAfterError
INVARIANT NoSuccessOnFailure
INVARIANT OneCallAtATime
INVARIANT PitClosedOnSuccess
INVARIANT NoSearchOnClosedPit
INVARIANT RequestShape
INVARIANT EsBooks
INVARIANT StartsAtFirstHit
INVARIANT NoRequestAfterEmptyPage
INVARIANT LatestScrollId
INVARIANT ErrOnlyIfRequestFailed
CHECK_DEADLOCK FALSE
