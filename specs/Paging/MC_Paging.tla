----------------------------- MODULE MC_Paging -----------------------------
EXTENDS Paging

Scn(seg, iters, cont, n, size, pages, cap, fail, tout, rot, dsize) ==
    [seg |-> seg, iters |-> iters, cont |-> cont, n |-> n, size |-> size, pages |-> pages, cap |-> cap,
     fail |-> fail, tout |-> tout, rot |-> rot, dsize |-> dsize]

Big == 99

(* canonical scenarios: parameters that cannot matter are fixed *)
Canon(s) ==
    /\ (s.seg \in {"search", "dsearch"} => s.pages = 0 /\ s.iters = 1 /\ s.fail <= 1 /\ s.tout <= 1)
    /\ (s.seg \in {"search", "dsearch", "pag"} => ~s.rot)
    /\ (s.cont => s.fail > 0 /\ s.iters > 1)
    /\ (s.cap # Big => s.n > s.cap)

Gen(segs, maxIters, maxN, sizes, pagesSet, caps, maxFail, touts, dsz) ==
    {s \in {Scn(seg, it, co, n, sz, pg, cap, f, t, rot, dsz) :
                seg \in segs, it \in 1..maxIters, co \in BOOLEAN, n \in 0..maxN, sz \in sizes, pg \in pagesSet,
                cap \in caps, f \in 0..maxFail, t \in touts, rot \in BOOLEAN} : Canon(s)}

AllSegs == {"search", "dsearch", "scroll", "oscroll", "pag", "pit"}
MainSegs == {"search", "dsearch", "scroll", "pag", "pit"}

(* quick: every combination of <= 4 hits, page size absent/1/2, pages all/1/2/3, exact or capped totals,
   one failing request among the first 6, two iterations *)
QuickScenarios == Gen(MainSegs, 2, 4, {0, 1, 2}, {0, 1, 2, 3}, {2, Big}, 6, {0, 2}, 2)
(* the stale search_after needs a third iteration to reach search_after:null *)
QuickScenarios3 == Gen({"pag", "pit"}, 3, 3, {1, 2}, {1, 2}, {Big}, 0, {0}, 2)
QuickAll == QuickScenarios \cup QuickScenarios3
IntendedScenarios == Gen(MainSegs, 2, 3, {0, 1, 2}, {0, 1, 2}, {2, Big}, 5, {0, 2}, 2) \cup QuickScenarios3
ThoroughScenarios == Gen(AllSegs, 2, 6, {0, 1, 2, 3}, {0, 1, 2, 3, 4}, {2, 3, Big}, 9, {0, 1, 3}, 2)
                     \cup Gen({"pag", "pit", "scroll"}, 3, 5, {1, 2, 3}, {0, 1, 2}, {Big}, 12, {0}, 2)
SimScenarios == Gen(AllSegs, 3, 9, {0, 1, 2, 3, 4}, {0, 1, 2, 3, 5}, {2, 4, Big}, 14, {0, 1, 2, 5}, 3)
TableScenarios == Gen(AllSegs, 2, 3, {0, 1, 2}, {0, 1, 2}, {1, Big}, 4, {0, 1}, 2)
SelfTestScenarios == Gen({"scroll", "pag", "pit"}, 2, 3, {0, 1, 2}, {0, 1, 2}, {Big}, 0, {0}, 2)
=============================================================================
