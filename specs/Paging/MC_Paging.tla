----------------------------- MODULE MC_Paging -----------------------------
(* Scenario sets for the quick configurations.  TLC evaluates every constant definition of a module at start-up, *)
(* so the big sets of the thorough tier live in MC_PagingL.tla.                                                  *)
EXTENDS Paging

Scn(seg, iters, cont, n, size, pages, cap, fail, tout, rot, dsize) ==
    [seg |-> seg, iters |-> iters, cont |-> cont, n |-> n, size |-> size, pages |-> pages, cap |-> cap,
     fail |-> fail, tout |-> tout, rot |-> rot, dsize |-> dsize]

Big == 99

(* canonical scenarios: parameters that cannot matter are fixed *)
Canon(s) ==
    /\ (s.seg \in {"search", "dsearch"} => s.pages = 0 /\ s.iters = 1 /\ s.fail <= 1 /\ s.tout <= 1)
    /\ (s.seg \in {"search", "dsearch", "pag"} => ~s.rot)
    /\ (s.cont => s.fail > 0 /\ s.iters > 1)
    /\ (s.cap # Big => s.n > s.cap)

Gen(segs, maxIters, ns, sizes, pagesSet, caps, fails, touts, dsz) ==
    {s \in [seg : segs, iters : 1..maxIters, cont : BOOLEAN, n : ns, size : sizes, pages : pagesSet, cap : caps,
            fail : fails, tout : touts, rot : BOOLEAN, dsize : {dsz}] : Canon(s)}

AllSegs == {"search", "dsearch", "scroll", "oscroll", "pag", "pit"}
MainSegs == {"search", "dsearch", "scroll", "pag", "pit"}

(* quick: every combination of <= 4 hits, page size absent/1/2, pages all/1/2/3, exact or capped totals,
   one failing request among the first 6, two iterations *)
QuickScenarios == Gen(MainSegs, 2, 0..4, {0, 1, 2}, {0, 1, 2, 3}, {2, Big}, 0..6, {0, 2}, 2)
(* the stale search_after needs a third iteration to reach search_after:null *)
QuickScenarios3 == Gen({"pag", "pit"}, 3, 0..3, {1, 2}, {1, 2}, {Big}, {0}, {0}, 2)
QuickAll == QuickScenarios \cup QuickScenarios3
IntendedScenarios == Gen(MainSegs, 2, 0..3, {0, 1, 2}, {0, 1, 2}, {2, Big}, 0..5, {0, 2}, 2) \cup QuickScenarios3
TableScenarios == Gen(MainSegs, 2, 0..3, {0, 1, 2}, {0, 1, 2}, {Big}, 0..3, {0}, 2) \cup Gen(AllSegs, 1, 0..3, {0, 1, 2}, {0, 1, 2}, {1, Big}, {0}, {0, 1}, 2)
SelfTestScenarios == Gen({"scroll", "pag", "pit"}, 2, 0..3, {0, 1, 2}, {0, 1, 2}, {Big}, {0}, {0}, 2)
SelfTestScenarios2 == Gen({"pag"}, 2, 0..4, {1}, {3}, {Big}, {0}, {0}, 2)

(* ---- simulation: the scenario is chosen in three small steps so that wide alphabets need no huge set of initial states ---- *)
SimSeeds == {s \in [seg : AllSegs, iters : 1..3, cont : BOOLEAN, n : {0}, size : {0}, pages : {0}, cap : {Big},
                    fail : {0}, tout : {0}, rot : BOOLEAN, dsize : {3}] : s.seg \in {"search", "dsearch", "pag"} => ~s.rot}
SimNs == 0..10
SimSizes == 0..4
SimPages == {0, 1, 2, 3, 4, 6}
SimCaps == {2, 4, Big}
SimFails == 0..16
SimTouts == {0, 1, 2, 3, 5}
Simple(s) == s.seg \in {"search", "dsearch"}
InitSim == /\ scn \in SimSeeds /\ es = Es0 /\ rn = [Rn0 EXCEPT !.stage = "cfgA"] /\ wire = <<>> /\ calls = <<>>
ChooseA == /\ rn.stage = "cfgA"
           /\ \E n \in SimNs, sz \in SimSizes : scn' = [scn EXCEPT !.n = n, !.size = sz]
           /\ rn' = [rn EXCEPT !.stage = "cfgB"] /\ UNCHANGED <<es, wire, calls>>
ChooseB == /\ rn.stage = "cfgB"
           /\ \E pg \in SimPages, cap \in SimCaps :
                scn' = [scn EXCEPT !.pages = IF Simple(scn) THEN 0 ELSE pg, !.cap = IF scn.n > cap THEN cap ELSE Big]
           /\ rn' = [rn EXCEPT !.stage = "cfgC"] /\ UNCHANGED <<es, wire, calls>>
ChooseC == /\ rn.stage = "cfgC"
           /\ \E f \in SimFails, t \in SimTouts :
                LET f2 == IF Simple(scn) THEN (IF f > 1 THEN 0 ELSE f) ELSE f
                IN scn' = [scn EXCEPT !.fail = f2, !.tout = IF Simple(scn) /\ t > 1 THEN 0 ELSE t,
                                      !.iters = IF Simple(scn) THEN 1 ELSE @,
                                      !.cont = @ /\ f2 > 0 /\ scn.iters > 1 /\ ~Simple(scn)]
           /\ rn' = [rn EXCEPT !.stage = "idle"] /\ UNCHANGED <<es, wire, calls>>
NextSim == ChooseA \/ ChooseB \/ ChooseC \/ Next
SpecSim == InitSim /\ [][NextSim]_vars
=============================================================================
