SPECIFICATION Spec
CONSTANTS
  CodeMaxRetries = 10
  DocRetries = 10
  KindSet <- Kinds
  Alpha <- AlphaHeavy
  JitSet <- JSim
  MaxDepth = 12
  ItemShapeTolerant = TRUE
INVARIANT PropertyHolds
CHECK_DEADLOCK FALSE
