SPECIFICATION TSpec
CONSTANTS
  CodeMaxRetries = 10
  DocRetries = 10
  KindSet = {}
  Alpha <- NoAlpha
  JitSet = {}
  MaxDepth = 12
CHECK_DEADLOCK FALSE
