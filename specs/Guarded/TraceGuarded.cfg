SPECIFICATION TSpec
CONSTANTS
  CodeMaxRetries = 10
  DocRetries = 10
  KindSet = {}
  Alpha <- NoAlpha
  JitSet = {}
  MaxDepth = 12
  ItemShapeTolerant = TRUE
CHECK_DEADLOCK FALSE
