------------------------------ MODULE Guarded ------------------------------
(***************************************************************************)
(* esrally.metrics.EsClient.guarded: the retry loop around every call to   *)
(* the Elasticsearch metrics store (property C17).  The environment        *)
(* chooses, for every invocation of the wrapped client function, an        *)
(* outcome o and the value r of random.random() drawn in that iteration.   *)
(*                                                                         *)
(* An outcome is a record [k, code, items, shape]:                         *)
(*   k = "ok"             the client function returns                       *)
(*   k = "connTimeout"    elasticsearch.ConnectionTimeout                   *)
(*   k = "connError"      elasticsearch.ConnectionError (incl. TlsError)    *)
(*   k = "api"            elasticsearch.ApiError with HTTP status `code`    *)
(*                        (401 AuthenticationException, 403 Authorization-  *)
(*                        Exception, 404 NotFoundError, 400, 409, ...)      *)
(*   k = "transportOther" any other TransportError (SerializationError ...) *)
(*   k = "bulk"           elasticsearch.helpers.BulkIndexError whose failed *)
(*                        items carry the statuses in the set `items`       *)
(*   shape                for k = "api": the shape of ApiError.body, i.e. of *)
(*                        the HTTP response body as elasticsearch-py delivers*)
(*                        it: "es" {"error": {"type", "reason", ...}},       *)
(*                        "errstr" {"error": "<string>"}, "notype" {"error": *)
(*                        {"reason"}} (message is a dict), "noerror" (JSON   *)
(*                        object without "error", e.g. a proxy's), "empty"   *)
(*                        {}, "none" (HEAD: no body), "str" (text/html or    *)
(*                        text/plain of a load balancer), "bytes", "list";   *)
(*                        for k = "bulk": the shape of the failed items'     *)
(*                        "error" member: "es" (object) or "errstr" (string),*)
(*                        "esmany": object, more than ten failed items per   *)
(*                        status; for k = "connError" / "connTimeout": the   *)
(*                        concrete exception class ("ConnectionError",       *)
(*                        "TlsError" (= SSLError), "ConnectionTimeout");     *)
(*                        "" otherwise.  The documented reaction does not    *)
(*                        depend on the shape / class.                       *)
(* Pauses are counted in 1/1024 s (Unit), so 2^n + random.random() is an    *)
(* integer for the dyadic random values the harness injects.                *)
(***************************************************************************)
EXTENDS Integers, Sequences, FiniteSets, TLC

CONSTANTS CodeMaxRetries,   \* max_execution_count in the code
          DocRetries,       \* "up to ten retries" of the property statement
          KindSet,          \* kinds of store operations: "plain" (returns the client's result),
                            \* "bulk" (bulk_index: elasticsearch.helpers.bulk, returns nothing), "bulk1" (index: one document)
          Alpha(_),         \* kind -> set of outcomes the environment may choose
          JitSet,           \* values of random.random() (in 1/Unit s)
          MaxDepth,
          ItemShapeTolerant \* TRUE: repaired code (bulk item errors are classified by their status whatever the shape of the
                            \* item's "error" member); FALSE: pinned behaviour (`.get("error", {}).get("type")` on a string
                            \* error raises AttributeError inside the handler: not retried, not a Rally error)

Unit == 1024
RetryableCodes == {502, 503, 504, 429}        \* self.retryable_status_codes

RECURSIVE Pow2(_)
Pow2(n) == IF n <= 0 THEN 1 ELSE 2 * Pow2(n - 1)

SetMin(S) == CHOOSE x \in S : \A y \in S : x <= y

O(k, code, items, shape) == [k |-> k, code |-> code, items |-> items, shape |-> shape]
Ok == O("ok", 0, {}, "")
ApiS(code, shape) == O("api", code, {}, shape)
Api(code) == ApiS(code, "es")
BulkS(items, shape) == O("bulk", 0, items, shape)
Bulk(items) == BulkS(items, "es")

VARIABLES kind,     \* kind of the store operation
          calls,    \* history: <<[o, r, p, ns]>> outcome, random value drawn, total pause after the call, number of sleeps
          status    \* [k, of, rally, names, cls, msg, named]

vars == <<kind, calls, status>>

Running     == [k |-> "running", of |-> 0, rally |-> FALSE, names |-> FALSE, cls |-> "", msg |-> "", named |-> 0]
Returned(n) == [k |-> "returned", of |-> n, rally |-> FALSE, names |-> FALSE, cls |-> "", msg |-> "", named |-> 0]
Raised(cls, msg, named) == [k |-> "raised", of |-> 0, rally |-> TRUE, names |-> TRUE, cls |-> cls, msg |-> msg, named |-> named]
Escaped(cls) == [k |-> "raised", of |-> 0, rally |-> FALSE, names |-> FALSE, cls |-> cls, msg |-> "other", named |-> 0]

-----------------------------------------------------------------------------
(* Transcription of EsClient.guarded, except clause by except clause.  n = execution_count after the increment. *)
BadItems(o) == {s \in o.items : s \notin RetryableCodes}

Again == [k |-> "again"]
Ret   == [k |-> "return"]
Raise(cls, msg, named) == [k |-> "raise", cls |-> cls, msg |-> msg, named |-> named]
Escape(cls) == [k |-> "escape", cls |-> cls, msg |-> "other", named |-> 0]   \* an exception raised inside a handler escapes
NoToken == {"empty", "none"}      \* body shapes from which the client derives no error type / message

CodeReact(n, o) ==
    CASE o.k = "ok" -> Ret
      [] o.k = "connTimeout" ->                          \* except ConnectionTimeout
            IF n <= CodeMaxRetries THEN Again ELSE Raise("RallyError", "timeout", 0)
      [] o.k = "connError" ->                            \* except ConnectionError
            IF n <= CodeMaxRetries THEN Again ELSE Raise("RallyError", "connect", 0)
      [] o.k = "api" /\ o.code = 401 -> Raise("SystemSetupError", "authn", 0)     \* except AuthenticationException
      [] o.k = "api" /\ o.code = 403 -> Raise("SystemSetupError", "authz", 0)     \* except AuthorizationException
      [] o.k = "bulk" ->                                 \* except BulkIndexError: first item with a non-retryable status
            IF ~ItemShapeTolerant /\ o.shape = "errstr" THEN Escape("AttributeError")   \* err_type = ....get("error", {}).get("type")
            ELSE IF BadItems(o) # {} THEN Raise("RallyError", "bulk-unretryable", SetMin(BadItems(o)))
            ELSE IF n <= CodeMaxRetries THEN Again ELSE Raise("RallyError", "bulk-exhausted", 0)
      [] o.k = "api" /\ o.code \notin {401, 403} ->      \* except ApiError
            IF o.code \in RetryableCodes /\ n <= CodeMaxRetries THEN Again
            ELSE Raise("RallyError", "api", IF o.shape \in NoToken THEN 0 ELSE o.code)   \* "An error [e.error] occurred"
      [] o.k = "transportOther" -> Raise("RallyError", "transport", 0)            \* except TransportError

(* one iteration of the while loop: time_to_sleep = 2**execution_count + random.random(); call; react *)
Step(kd, cs, o, r) ==
    LET n == Len(cs) + 1
        x == CodeReact(n, o)
    IN  IF x.k = "again"
        THEN [calls |-> Append(cs, [o |-> o, r |-> r, p |-> Pow2(n - 1) * Unit + r, ns |-> 1]), status |-> Running]
        ELSE [calls |-> Append(cs, [o |-> o, r |-> r, p |-> 0, ns |-> 0]),
              status |-> IF x.k = "return" THEN Returned(IF kd = "plain" THEN n ELSE 0)   \* bulk_index / index return nothing
                         ELSE IF x.k = "escape" THEN Escaped(x.cls)
                         ELSE Raised(x.cls, x.msg, x.named)]

Init == /\ kind \in KindSet
        /\ calls = <<>>
        /\ status = Running

Attempt(o, r) ==
    /\ status.k = "running"
    /\ Len(calls) < MaxDepth
    /\ Len(calls) <= CodeMaxRetries                      \* while execution_count <= max_execution_count
    /\ LET s == Step(kind, calls, o, r) IN calls' = s.calls /\ status' = s.status
    /\ UNCHANGED kind

Next == \E o \in Alpha(kind), r \in JitSet : Attempt(o, r)

Spec == Init /\ [][Next]_vars

(* for the memoryless exhaustive run over the full alphabet: the loop's reaction depends on the number of calls only *)
view == <<kind, Len(calls), status, IF calls = <<>> THEN Ok ELSE calls[Len(calls)].o>>

-----------------------------------------------------------------------------
(* PROPERTY C17, clause by clause, as predicates over (kind, history, status).  Prefix-closed. *)
IsTransient(o) == \/ o.k \in {"connTimeout", "connError"}
                  \/ o.k = "api" /\ o.code \in {429, 502, 503, 504}
                  \/ o.k = "bulk" /\ o.items # {} /\ o.items \subseteq {429, 502, 503, 504}
Terminal(st) == st.k # "running"

(* "up to ten retries" *)
Budget(kd, cs, st) == Len(cs) <= DocRetries + 1

(* "retried with exponentially growing pauses": the pause before the i-th retry is 2^(i-1) s plus a jitter smaller than that *)
Backoff(kd, cs, st) == \A i \in 1..(Len(cs) - 1) : Pow2(i - 1) * Unit <= cs[i].p /\ cs[i].p < Pow2(i) * Unit

(* retried only on connection timeouts, connection errors and HTTP 429/502/503/504 (also per bulk item) *)
RetryOnlyTransient(kd, cs, st) == \A i \in 1..(Len(cs) - 1) : IsTransient(cs[i].o)

(* "the first successful attempt's result is returned and the call is not repeated after success" *)
NoCallAfterSuccess(kd, cs, st) == \A i \in 1..(Len(cs) - 1) : cs[i].o.k # "ok"
ReturnsFirstSuccess(kd, cs, st) ==
    (Len(cs) >= 1 /\ cs[Len(cs)].o.k = "ok") => (st.k = "returned" /\ (kd = "plain" => st.of = Len(cs)))

(* "authentication, authorization, other API or transport errors and non-retryable bulk item errors are not retried *)
(*  and surface as Rally errors naming the cause"                                                                    *)
NonRetryableSurface(kd, cs, st) ==
    (Len(cs) >= 1 /\ cs[Len(cs)].o.k # "ok" /\ ~IsTransient(cs[Len(cs)].o)) => (st.k = "raised" /\ st.rally /\ st.names)

(* "... as does exhausting the retries" *)
ExhaustionRaises(kd, cs, st) ==
    (Len(cs) >= DocRetries + 1 /\ IsTransient(cs[Len(cs)].o)) => (st.k = "raised" /\ st.rally /\ st.names)

(* "every call ... is retried ... up to ten retries": it does not give up on a transient fault while retries remain, *)
(* and it does not finish without calling the store                                                                  *)
RetriesTransient(kd, cs, st) ==
    /\ (Terminal(st) /\ Len(cs) >= 1 /\ IsTransient(cs[Len(cs)].o)) => Len(cs) >= DocRetries + 1
    /\ Terminal(st) => Len(cs) >= 1

NoRunaway(kd, cs, st) == st.k \in {"running", "returned", "raised"}

Clauses == {"Budget", "Backoff", "RetryOnlyTransient", "NoCallAfterSuccess", "ReturnsFirstSuccess",
            "NonRetryableSurface", "ExhaustionRaises", "RetriesTransient", "NoRunaway"}

Holds(name, kd, cs, st) ==
    CASE name = "Budget" -> Budget(kd, cs, st)
      [] name = "Backoff" -> Backoff(kd, cs, st)
      [] name = "RetryOnlyTransient" -> RetryOnlyTransient(kd, cs, st)
      [] name = "NoCallAfterSuccess" -> NoCallAfterSuccess(kd, cs, st)
      [] name = "ReturnsFirstSuccess" -> ReturnsFirstSuccess(kd, cs, st)
      [] name = "NonRetryableSurface" -> NonRetryableSurface(kd, cs, st)
      [] name = "ExhaustionRaises" -> ExhaustionRaises(kd, cs, st)
      [] name = "RetriesTransient" -> RetriesTransient(kd, cs, st)
      [] name = "NoRunaway" -> NoRunaway(kd, cs, st)

Failing(kd, cs, st) == {name \in Clauses : ~Holds(name, kd, cs, st)}

PropertyHolds == Failing(kind, calls, status) = {}

(* the transcription retries exactly the documented transient classes, exactly while retries remain *)
(* (a fact about the alphabet and the kind only: evaluated in the initial states)                   *)
ReactionAsDocumented ==
    calls = <<>> =>
        \A o \in Alpha(kind) : \A n \in 1..(CodeMaxRetries + 1) :
            /\ (CodeReact(n, o).k = "again") <=> (IsTransient(o) /\ n <= DocRetries)
            /\ CodeReact(n, o).k # "escape"

TypeOK == /\ status.k \in {"running", "returned", "raised"}
          /\ Len(calls) <= CodeMaxRetries + 1
=============================================================================
