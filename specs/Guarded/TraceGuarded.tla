---------------------------- MODULE TraceGuarded ----------------------------
(***************************************************************************)
(* Validates recorded executions of the real esrally.metrics.EsClient      *)
(* operations (env VERIF_TRACES: JSON array of items)                      *)
(*   [id, kd, calls, st]                                                   *)
(*   kd     kind of the store operation ("plain" | "bulk" | "bulk1")       *)
(*   calls  <<[o, r, p, ns]>> per invocation of the wrapped client function:*)
(*          o = [k, code, items (array), shape] what the scripted client    *)
(*          did (shape of the ApiError body / of the bulk items' error),    *)
(*          r = value of random.random() drawn before it (1/1024),          *)
(*          p = total time.sleep() after it and before the next invocation  *)
(*              or the end (1/1024 s), ns = number of time.sleep() calls    *)
(*   st     [k, of, rally, names, cls, msg, named]: how the operation       *)
(*          finished; of = invocation whose value was returned (plain),     *)
(*          rally = isinstance(exc, RallyError), names = the message names  *)
(*          the cause, cls/msg/named = exact class / message template /     *)
(*          status named (L2 only)                                          *)
(* L1: the clauses of property C17 (Guarded!Failing) on the recorded run    *)
(* L2: the run is the behaviour of the transcription for these outcomes     *)
(***************************************************************************)
EXTENDS Guarded, Json, IOUtils

Items == JsonDeserialize(IOEnv.VERIF_TRACES)
ToSet(s) == {s[j] : j \in 1..Len(s)}

VARIABLES i

NoAlpha(kd) == {}     \* the trace specification does not generate outcomes

NormCall(c) == [o |-> [k |-> c.o.k, code |-> c.o.code, items |-> ToSet(c.o.items), shape |-> c.o.shape], r |-> c.r, p |-> c.p, ns |-> c.ns]
NormCalls(cs) == [j \in 1..Len(cs) |-> NormCall(cs[j])]

RECURSIVE Replay(_, _, _)
Replay(kd, s, rec) ==
    IF rec = <<>> \/ s.status.k # "running" THEN s
    ELSE Replay(kd, Step(kd, s.calls, Head(rec).o, Head(rec).r), Tail(rec))

Kinds == {"ok", "connTimeout", "connError", "api", "transportOther", "bulk"}
WellFormed(kd, cs, st) == /\ kd \in {"plain", "bulk", "bulk1"}
                          /\ \A j \in 1..Len(cs) : cs[j].o.k \in Kinds
                          /\ st.k \in {"returned", "raised", "aborted"}

Check(it) ==
    LET cs  == NormCalls(it.calls)
        l1  == IF WellFormed(it.kd, cs, it.st) THEN Failing(it.kd, cs, it.st) ELSE {"Malformed"}
        exp == Replay(it.kd, [calls |-> <<>>, status |-> Running], cs)
        \* which of several non-retryable items is named depends on their order in the response: any of them is accepted
        namedOk == IF exp.status.msg = "bulk-unretryable" /\ cs # <<>>
                   THEN it.st.named \in BadItems(cs[Len(cs)].o) ELSE it.st.named = exp.status.named
        l2  == /\ exp.calls = cs
               /\ [exp.status EXCEPT !.named = 0] = [it.st EXCEPT !.named = 0]
               /\ namedOk
    IN /\ IF l1 = {} THEN TRUE ELSE PrintT(<<"V", it.id, 1, "L1", l1>>)
       /\ IF l1 # {} \/ l2 THEN TRUE ELSE PrintT(<<"V", it.id, 1, "L2", {}>>)

TInit == i = 1 /\ kind = "plain" /\ calls = <<>> /\ status = Running

TNext == /\ i <= Len(Items)
         /\ Check(Items[i])
         /\ i' = i + 1
         /\ IF i < Len(Items) THEN TRUE ELSE PrintT(<<"DONE", Len(Items), Len(Items)>>)
         /\ UNCHANGED vars

TSpec == TInit /\ [][TNext]_<<vars, i>>
=============================================================================
