\* pinned behaviour of /repo: a bulk item whose "error" member is a string makes the handler raise AttributeError. Self-test only.
SPECIFICATION Spec
CONSTANTS
  CodeMaxRetries = 2
  DocRetries = 2
  KindSet <- Kinds
  Alpha <- AlphaShapes
  JitSet <- J0
  MaxDepth = 12
  ItemShapeTolerant = FALSE
INVARIANT PropertyHolds
CHECK_DEADLOCK FALSE
