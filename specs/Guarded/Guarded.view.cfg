\* the real budget, full alphabet; the history is hidden by VIEW (the reaction depends on the number of calls only)
SPECIFICATION Spec
CONSTANTS
  CodeMaxRetries = 10
  DocRetries = 10
  KindSet <- Kinds
  Alpha <- AlphaFull
  JitSet <- J0
  MaxDepth = 12
  ItemShapeTolerant = TRUE
VIEW view
INVARIANT TypeOK
INVARIANT PropertyHolds
INVARIANT ReactionAsDocumented
CHECK_DEADLOCK FALSE
