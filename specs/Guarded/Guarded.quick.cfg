\* the real budget (10 retries), full history, reduced alphabet: every path is enumerated and replayed on the code
SPECIFICATION Spec
CONSTANTS
  CodeMaxRetries = 10
  DocRetries = 10
  KindSet <- Kinds
  Alpha <- AlphaPathsQ
  JitSet <- J0
  MaxDepth = 12
  ItemShapeTolerant = TRUE
INVARIANT TypeOK
INVARIANT PropertyHolds
INVARIANT ReactionAsDocumented
CHECK_DEADLOCK FALSE
