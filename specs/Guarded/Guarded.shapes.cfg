\* every body shape x representative statuses, full history, small budget (2 retries)
SPECIFICATION Spec
CONSTANTS
  CodeMaxRetries = 2
  DocRetries = 2
  KindSet <- Kinds
  Alpha <- AlphaShapes
  JitSet <- J0
  MaxDepth = 12
  ItemShapeTolerant = TRUE
INVARIANT TypeOK
INVARIANT PropertyHolds
INVARIANT ReactionAsDocumented
CHECK_DEADLOCK FALSE
