---- MODULE MC_Guarded ----
EXTENDS Guarded
Kinds == {"plain", "bulk", "bulk1"}
ApiCodes == {429, 502, 503, 504, 401, 403, 404, 400, 409, 500}
ItemCodes == {429, 502, 503, 504, 400, 409}
Base == {Ok, O("connTimeout", 0, {}), O("connError", 0, {}), O("transportOther", 0, {})} \cup {Api(c) : c \in ApiCodes}
BulkAll == {Bulk(S) : S \in (SUBSET ItemCodes) \ {{}}}
BulkOne == {Bulk({c}) : c \in ItemCodes}

(* full alphabet *)
AlphaFull(kd) == IF kd = "plain" THEN Base ELSE IF kd = "bulk" THEN Base \cup BulkAll ELSE Base \cup BulkOne

(* reduced alphabets for the exhaustive enumeration of all paths up to the full budget of 11 calls: *)
(* two transient letters per kind and two (quick) or four (thorough) final letters                  *)
AlphaPathsT(kd) ==
    IF kd = "plain" THEN {O("connTimeout", 0, {}), Api(503), Ok, Api(401), Api(404), O("transportOther", 0, {})}
    ELSE IF kd = "bulk" THEN {O("connError", 0, {}), Bulk({429, 503}), Ok, Bulk({429, 400}), Api(403), Bulk({409})}
    ELSE {Bulk({429}), Api(429), Ok, Bulk({400}), Api(500), O("transportOther", 0, {})}
AlphaPathsQ(kd) ==
    IF kd = "plain" THEN {O("connTimeout", 0, {}), Api(503), Ok, Api(404)}
    ELSE IF kd = "bulk" THEN {O("connError", 0, {}), Bulk({429, 503}), Ok, Bulk({429, 400})}
    ELSE {Bulk({429}), Api(429), Ok, O("transportOther", 0, {})}

(* simulation: all transient letters, a few final ones, so that behaviours get long *)
AlphaHeavy(kd) == {o \in AlphaFull(kd) : IsTransient(o)} \cup {Ok, Api(401), Api(404), O("transportOther", 0, {})}
                  \cup (IF kd = "bulk" THEN {Bulk({429, 400}), Bulk({409})} ELSE IF kd = "bulk1" THEN {Bulk({400})} ELSE {})

J0 == {0}
JSim == {0, 512, 1023}
====
