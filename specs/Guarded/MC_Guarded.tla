---- MODULE MC_Guarded ----
EXTENDS Guarded
Kinds == {"plain", "bulk", "bulk1"}
ApiCodes == {429, 502, 503, 504, 401, 403, 404, 400, 409, 500}
ItemCodes == {429, 502, 503, 504, 400, 409}
ApiShapes == {"es", "errstr", "notype", "noerror", "empty", "none", "str", "bytes", "list"}
ItemShapes == {"es", "errstr"}
ManyShapes == {"esmany"}        \* more than ten failed items per status (bulk_index only: index sends one document)
(* concrete classes of connection errors / timeouts that elastic_transport and elasticsearch.exceptions export *)
(* (TlsError = elasticsearch.exceptions.SSLError is a subclass of ConnectionError)                             *)
ConnClasses == {"ConnectionError", "TlsError"}
Plain(k) == O(k, 0, {}, "")
Conn(cls) == O("connError", 0, {}, cls)
Timeout == O("connTimeout", 0, {}, "ConnectionTimeout")
NonApi == {Ok, Timeout, Plain("transportOther")} \cup {Conn(c) : c \in ConnClasses}

(* full alphabet: every status x every body shape, every set of item statuses x every item error shape *)
Base == NonApi \cup {ApiS(c, s) : c \in ApiCodes, s \in ApiShapes}
BulkAll == {BulkS(S, s) : S \in (SUBSET ItemCodes) \ {{}}, s \in ItemShapes \cup ManyShapes}
BulkOne == {BulkS({c}, s) : c \in ItemCodes, s \in ItemShapes}
AlphaFull(kd) == IF kd = "plain" THEN Base ELSE IF kd = "bulk" THEN Base \cup BulkAll ELSE Base \cup BulkOne

(* every status / set of item statuses, Elasticsearch-style bodies only (full history, small budget) *)
AlphaEs(kd) == {o \in AlphaFull(kd) : o.k \notin {"api", "bulk"} \/ o.shape = "es"}

(* every body shape x representative statuses (full history, small budget) *)
AlphaShapes(kd) ==
    {Ok, Timeout} \cup {Conn(c) : c \in ConnClasses} \cup {ApiS(c, s) : c \in {503, 429, 404, 401}, s \in ApiShapes}
    \cup (IF kd = "bulk" THEN {BulkS(S, s) : S \in {{429}, {429, 503}, {429, 400}, {400}}, s \in ItemShapes \cup ManyShapes}
          ELSE IF kd = "bulk1" THEN {BulkS(S, s) : S \in {{429}, {400}}, s \in ItemShapes} ELSE {})

(* reduced alphabets for the exhaustive enumeration of all paths up to the full budget of 11 calls: *)
(* two transient letters per kind and success (quick) or success and three fatal letters (thorough); *)
(* fatal letters at every depth are covered by the harness's edge cover in both tiers               *)
AlphaPathsT(kd) ==
    IF kd = "plain" THEN {Timeout, ApiS(503, "str"), Ok, ApiS(401, "none"), ApiS(404, "empty"), Plain("transportOther")}
    ELSE IF kd = "bulk" THEN {Conn("TlsError"), Bulk({429, 503}), Ok, BulkS({429, 400}, "esmany"), ApiS(403, "list"), Bulk({409})}
    ELSE {Bulk({429}), ApiS(429, "errstr"), Ok, Bulk({400}), ApiS(500, "noerror"), Plain("transportOther")}
AlphaPathsQ(kd) ==
    IF kd = "plain" THEN {Timeout, ApiS(503, "str"), Ok}
    ELSE IF kd = "bulk" THEN {Conn("TlsError"), Bulk({429, 503}), Ok}
    ELSE {Bulk({429}), ApiS(429, "errstr"), Ok}

(* simulation: all transient letters with Elasticsearch-style bodies, one transient letter per other body shape  *)
(* (string item errors for two of the bulk letters), a few final ones, so that behaviours get long              *)
ShapeSample == {ApiS(429, "errstr"), ApiS(502, "str"), ApiS(503, "str"), ApiS(504, "bytes"), ApiS(503, "none"),
                ApiS(429, "empty"), ApiS(502, "notype"), ApiS(504, "noerror"), ApiS(503, "list")}
AlphaHeavy(kd) == {o \in AlphaEs(kd) : IsTransient(o)} \cup ShapeSample
                  \cup {Ok, Api(401), ApiS(404, "str"), Plain("transportOther")}
                  \cup (IF kd = "bulk" THEN {Bulk({429, 400}), Bulk({409}), BulkS({429}, "errstr"), BulkS({503, 504}, "errstr"),
                                              BulkS({429, 503}, "esmany"), BulkS({429, 400}, "esmany"), BulkS({502, 409}, "esmany")}
                        ELSE IF kd = "bulk1" THEN {Bulk({400}), BulkS({429}, "errstr")} ELSE {})

J0 == {0}
JSim == {0, 512, 1023}
====
