\* self-test: a loop that allows one retry more than documented must violate the property in the model
SPECIFICATION Spec
CONSTANTS
  CodeMaxRetries = 3
  DocRetries = 2
  KindSet <- Kinds
  Alpha <- AlphaPathsQ
  JitSet <- J0
  MaxDepth = 12
  ItemShapeTolerant = TRUE
INVARIANT PropertyHolds
CHECK_DEADLOCK FALSE
