\* full alphabet, full history, small budget (2 retries): every sequence is a path
SPECIFICATION Spec
CONSTANTS
  CodeMaxRetries = 2
  DocRetries = 2
  KindSet <- Kinds
  Alpha <- AlphaFull
  JitSet <- J0
  MaxDepth = 12
INVARIANT TypeOK
INVARIANT PropertyHolds
CHECK_DEADLOCK FALSE
