\* every status and set of item statuses (Elasticsearch-style bodies), full history, small budget (2 retries): every sequence is a path
SPECIFICATION Spec
CONSTANTS
  CodeMaxRetries = 2
  DocRetries = 2
  KindSet <- Kinds
  Alpha <- AlphaEs
  JitSet <- J0
  MaxDepth = 12
  ItemShapeTolerant = TRUE
INVARIANT TypeOK
INVARIANT PropertyHolds
CHECK_DEADLOCK FALSE
