---- MODULE MC_RunnerRegistry ----
EXTENDS RunnerRegistry
I(n) == [t |-> "int", n |-> n, s |-> "", d |-> <<>>]
B(b) == [t |-> "bool", n |-> IF b THEN 1 ELSE 0, s |-> "", d |-> <<>>]
S(s) == [t |-> "str", n |-> 0, s |-> s, d |-> <<>>]
D(d) == [t |-> "dict", n |-> 0, s |-> "", d |-> d]
KV(k, v) == [key |-> k, v |-> v]
Val(v) == [k |-> "val", v |-> v, n |-> 0, s |-> ""]
RHit == Val(D(<<KV("hits", I(5)), KV("nested", D(<<KV("a", I(2))>>)), KV("weight", I(3)), KV("unit", S("docs"))>>))
RPlain == Val(D(<<KV("hits", I(0))>>))
RFail == Val(D(<<KV("success", B(FALSE)), KV("hits", I(0))>>))
REmpty == Val(D(<<>>))
RTuple == [k |-> "tuple", v |-> Nil, n |-> 2, s |-> "docs"]
RTuple3 == [k |-> "tuple3", v |-> Nil, n |-> 0, s |-> ""]
RNone == [k |-> "none", v |-> Nil, n |-> 0, s |-> ""]
RStr == Val(S("done"))
RRaise == [k |-> "raise", v |-> Nil, n |-> 0, s |-> "UserError"]
RRaiseKey == [k |-> "raise", v |-> Nil, n |-> 0, s |-> "KeyError"]
Rets == {RHit, RPlain, RFail, REmpty, RTuple, RTuple3, RNone, RStr, RRaise, RRaiseKey}

As(p, c, v) == [p |-> p, c |-> c, v |-> v]
A1 == As(<<"hits">>, ">", I(0))
A2 == As(<<"hits">>, ">", I(5))
A3 == As(<<"nested", "a">>, "==", I(2))
A4 == As(<<"missing">>, ">=", I(1))
A5 == As(<<"hits", "x">>, "==", I(1))
A6 == As(<<"hits">>, "!=", I(2))
A7 == As(<<"hits">>, "<", S("a"))
A8 == As(<<"hits">>, "==", S("a"))
A9 == As(<<"hits">>, "<=", I(5))
A10 == As(<<"weight">>, "==", I(3))
A11 == As(<<"success">>, "==", I(0))
A12 == As(<<"nested", "b">>, "<", I(1))
A13 == As(<<"hits">>, ">=", I(0))
AsLists == {<<>>, <<A1>>, <<A2>>, <<A3>>, <<A4>>, <<A5>>, <<A6>>, <<A7>>, <<A8>>, <<A9>>, <<A10>>, <<A11>>, <<A12>>, <<A13>>,
            <<A1, A2>>, <<A2, A1>>, <<A3, A4>>, <<A4, A2>>, <<A1, A3, A9>>, <<A13, A5, A2>>, <<A2, A4>>}

Call(kind, mc, prog, retry, deleg, async, enabled, has, name, ret, as, stage, rp) ==
    [part |-> "call", kind |-> kind, mc |-> mc, prog |-> prog, retry |-> retry, deleg |-> deleg, async |-> async, enabled |-> enabled,
     has |-> has, name |-> name, ret |-> ret, as |-> as, stage |-> stage, rp |-> rp]

(* family R: every shape of the registered object with one call *)
Shapes == {Call(k, mc, pg, rt, dg, as, TRUE, TRUE, "q", rr, <<A1>>, "direct", FALSE) :
             k \in {"fn", "obj", "cm", "half"}, mc \in BOOLEAN, pg \in {"none", "half", "both"}, rt \in BOOLEAN, dg \in BOOLEAN,
             as \in {"true", "false", "absent"}, rr \in {RHit, RRaise}}
FamR == {a \in Shapes : (a.retry => a.kind = "cm") /\ (a.deleg => a.kind # "fn" /\ ~a.retry) /\ (a.async # "true" => a.ret = RHit)}
FamA0(kinds, names, stages) == {Call(k, FALSE, "none", FALSE, FALSE, "true", en, has, nm, rr, as, sg, FALSE) :
             k \in kinds, en \in BOOLEAN, has \in BOOLEAN, nm \in names, rr \in Rets, as \in AsLists, sg \in stages}
(* family A: assertions (when they are not evaluated anyway, three lists are enough) *)
FamA(kinds, names, stages) == {a \in FamA0(kinds, names, stages) : (a.enabled /\ a.has) \/ a.as \in {<<>>, <<A2>>, <<A4>>}}
(* family X: assertions under Retry / multi-cluster / completion *)
FamX == {Call("cm", mc, "both", rt, FALSE, "true", TRUE, TRUE, "q", rr, as, sg, rp) :
             rp \in BOOLEAN, mc \in BOOLEAN, rt \in BOOLEAN, rr \in {RHit, RNone, RRaise}, as \in {<<A1>>, <<A2>>, <<A4>>}, sg \in {"direct", "cont"}}

(* histories over the alphabet *)
Step(a, op, ok, en) == [a |-> a, op |-> op, ok |-> ok, enum |-> en]
Alphabet == {Step("reg", "a", TRUE, FALSE), Step("reg", "a", FALSE, FALSE), Step("reg", "force-merge", TRUE, FALSE), Step("reg", "force-merge", TRUE, TRUE),
             Step("rm", "a", FALSE, FALSE), Step("rm", "force-merge", FALSE, FALSE), Step("get", "a", FALSE, FALSE), Step("get", "force-merge", FALSE, FALSE),
             Step("defaults", "", FALSE, FALSE)}
HOps == <<"a", "force-merge">>
Hist(n) == {[part |-> "hist", ops |-> HOps, h |-> h] : h \in UNION {[1..k -> Alphabet] : k \in 0..n}}

Mand == {[part |-> "mand", keys |-> ks, key |-> k, op |-> o, nul |-> n] :
            ks \in {<<>>, <<"index">>, <<"body", "index">>}, k \in {"index", "body", ""}, o \in {"bulk", ""}, n \in BOOLEAN}
InputsQuick == Mand \cup FamR \cup FamA({"cm"}, {"q", "", "<absent>"}, {"direct", "cont", "abort"}) \cup FamX \cup Hist(3)
InputsThorough == Mand \cup FamR \cup FamA({"obj", "cm"}, {"q", "", "<absent>"}, {"direct", "cont", "abort"}) \cup FamX \cup Hist(4)
InputsPinned == FamR \cup FamA({"cm"}, {"q"}, {"direct", "cont"})
====
