SPECIFICATION Spec
CONSTANTS
  Inputs <- InputsQuick
  MissingIsAssertionError = FALSE
  UnwrapStopsAtUser = FALSE
INVARIANT WeakHold
CHECK_DEADLOCK FALSE
