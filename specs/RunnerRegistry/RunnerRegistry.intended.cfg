SPECIFICATION Spec
CONSTANTS
  Inputs <- InputsPinned
  MissingIsAssertionError = TRUE
  UnwrapStopsAtUser = TRUE
INVARIANT WeakHold
INVARIANT StrongHold
CHECK_DEADLOCK FALSE
