----------------------- MODULE TraceRunnerRegistry -----------------------
(***************************************************************************)
(* Validates recorded runs of the REAL esrally.driver.runner registry /    *)
(* wrapper stack (and driver.execute_single): items [id, a, r] with a = an *)
(* input of RunnerRegistry.tla (part "call" or "hist") and r = what was    *)
(* observed (see harness/extras/runnerregistry.py).                        *)
(* L1: the clauses of RunnerRegistry.tla on the recorded result;           *)
(* L2: the recorded result is Code(a) under the cfg's switches.            *)
(***************************************************************************)
EXTENDS RunnerRegistry, Json, IOUtils

Items == JsonDeserialize(IOEnv.VERIF_TRACES)

VARIABLES i

TInit == i = 1 /\ in = [part |-> "none"] /\ res = NoRes /\ done = FALSE

(* JSON has no sets: the keys of the meta-data dict are recorded as a list *)
Fix(r) == IF r.part = "call" /\ r.reg = "ok" THEN [r EXCEPT !.norm.keys = {@[k] : k \in 1..Len(@)}] ELSE r

Check(it) ==
    LET r == Fix(it.r)
        l1 == {c \in ClausesOf(it.a) : ~Holds(c, it.a, r)}
        l2 == r = Code(it.a)
    IN /\ IF l1 = {} THEN TRUE ELSE PrintT(<<"V", it.id, 1, "L1", l1>>)
       /\ IF l2 THEN TRUE ELSE PrintT(<<"V", it.id, 1, "L2", {}>>)

TNext == /\ i <= Len(Items)
         /\ Check(Items[i])
         /\ i' = i + 1
         /\ IF i < Len(Items) THEN TRUE ELSE PrintT(<<"DONE", Len(Items), Len(Items)>>)
         /\ UNCHANGED vars

TSpec == TInit /\ [][TNext]_<<vars, i>>
=============================================================================
