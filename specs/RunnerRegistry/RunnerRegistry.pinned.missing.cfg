SPECIFICATION Spec
CONSTANTS
  Inputs <- InputsPinned
  MissingIsAssertionError = FALSE
  UnwrapStopsAtUser = TRUE
INVARIANT IBadAssertionIsAssertionError
CHECK_DEADLOCK FALSE
