SPECIFICATION Spec
CONSTANTS
  Inputs <- InputsThorough
  MissingIsAssertionError = FALSE
  UnwrapStopsAtUser = FALSE
INVARIANT WeakHold
CHECK_DEADLOCK FALSE
