SPECIFICATION Spec
CONSTANTS
  Inputs <- InputsPinned
  MissingIsAssertionError = TRUE
  UnwrapStopsAtUser = FALSE
INVARIANT IUnwrapReturnsUser
CHECK_DEADLOCK FALSE
