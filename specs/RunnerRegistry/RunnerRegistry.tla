--------------------------- MODULE RunnerRegistry ---------------------------
(***************************************************************************)
(* The runner registry and wrapper stack of esrally/driver/runner.py       *)
(* (register_runner / runner_for / remove_runner / register_default_runners*)
(* / unwrap / _with_completion / _with_assertions / MultiClientRunner) and *)
(* the normalisation of a runner's return value by driver.execute_single.  *)
(*                                                                         *)
(* Part "call" (function-like): one registration of a user's runner object *)
(* (kind, attributes, async_runner flag) followed by one invocation        *)
(* `async with w: await w(es, params)` (stage "direct") or                 *)
(* driver.execute_single(w, es, params, on_error) (stage "cont"/"abort")   *)
(* of the registered stack w = runner_for(op).  The result is what an      *)
(* observer sees: the wrapper chain, repr, unwrap, completed /             *)
(* percent_completed, which client(s) the user's runner received, the      *)
(* enter/call/exit events, the keys read from the returned dict, and the   *)
(* outcome (the very object returned / the exception class and message /   *)
(* the normalised triple of execute_single).                               *)
(*                                                                         *)
(* Part "mand": runner.mandatory(params, key, op).                         *)
(*                                                                         *)
(* Part "census": the stack register_default_runners builds per operation   *)
(* type of track.OperationType (retry / plain), i.e. WHERE Retry is applied *)
(* (what Retry does: specs/Retry).                                         *)
(*                                                                         *)
(* Part "hist" (function-like over a history): a sequence of register /    *)
(* remove / lookup / register_default_runners calls and, per call, its     *)
(* observation and the registry afterwards.                                *)
(*                                                                         *)
(* Values are tagged: [t |-> "int"|"bool"|"str"|"dict"|"nil", n, s, d],    *)
(* a dict is a sequence of [key, v] with distinct keys.                    *)
(*                                                                         *)
(* Switches (FALSE = the code as it is in /repo):                          *)
(*  MissingIsAssertionError: an assertion whose property path does not     *)
(*     exist in the result / whose condition is unknown / whose values     *)
(*     cannot be compared is reported as RallyTaskAssertionError naming    *)
(*     the property (code: KeyError / TypeError escape; execute_single     *)
(*     turns the KeyError into "Cannot execute [...] Provided parameters   *)
(*     are ...").                                                          *)
(*  UnwrapStopsAtUser: unwrap / the multi_cluster and completion probes    *)
(*     stop at the registered object even if it has an attribute           *)
(*     `delegate` of its own (code: they follow it).                       *)
(***************************************************************************)
EXTENDS Integers, Sequences, FiniteSets, TLC

CONSTANTS Inputs, MissingIsAssertionError, UnwrapStopsAtUser

VARIABLES in, res, done
vars == <<in, res, done>>

NoRes == [part |-> "none"]
Conds == {">", ">=", "<", "<=", "=="}
BuiltinOps == {"force-merge"}         \* operation types of track.OperationType used in histories

(* ------------------------------ values -------------------------------- *)
Nil == [t |-> "nil", n |-> 0, s |-> "", d |-> <<>>]
IsNum(v) == v.t \in {"int", "bool"}
Has(d, key) == \E i \in 1..Len(d) : d[i].key = key
Get(d, key) == d[CHOOSE i \in 1..Len(d) : d[i].key = key].v
Keys(d) == {d[i].key : i \in 1..Len(d)}
ToStr(v) == CASE v.t = "int" -> ToString(v.n)
              [] v.t = "bool" -> IF v.n = 1 THEN "True" ELSE "False"
              [] v.t = "str" -> v.s
              [] v.t = "nil" -> "None"
              [] OTHER -> "<dict>"

RECURSIVE Join(_)
Join(p) == IF p = <<>> THEN "" ELSE IF Len(p) = 1 THEN p[1] ELSE p[1] \o "." \o Join(Tail(p))

(* property path lookup of AssertingRunner.check_assertion: actual_value = actual_value[k] for k in path.split(".") *)
(* -> [k |-> "val", v] | [k |-> "keyerr", at |-> number of keys consumed] | [k |-> "typeerr", at]               *)
RECURSIVE Look(_, _, _)
Look(v, p, j) == IF j > Len(p) THEN [k |-> "val", v |-> v, at |-> j - 1]
                 ELSE IF v.t # "dict" THEN [k |-> "typeerr", v |-> Nil, at |-> j - 1]
                 ELSE IF ~Has(v.d, p[j]) THEN [k |-> "keyerr", v |-> Nil, at |-> j]
                 ELSE Look(Get(v.d, p[j]), p, j + 1)

(* the operator table; "T"/"F" or "keyerr" (unknown condition) / "typeerr" (unorderable operands) *)
Pred(c, exp, actual) ==
    IF c \notin Conds THEN "keyerr"
    ELSE IF IsNum(exp) /\ IsNum(actual) THEN
         (IF (CASE c = ">" -> actual.n > exp.n [] c = ">=" -> actual.n >= exp.n [] c = "<" -> actual.n < exp.n
                [] c = "<=" -> actual.n <= exp.n [] OTHER -> actual.n = exp.n) THEN "T" ELSE "F")
    ELSE IF c = "==" THEN (IF exp.t = actual.t /\ exp.t = "str" /\ exp.s = actual.s THEN "T" ELSE "F")
    ELSE "typeerr"

(* the documented predicate of one assertion on a result dict *)
Documented(as, d) == LET l == Look(d, as.p, 1) IN l.k = "val" /\ Pred(as.c, as.v, l.v) = "T"

Msg(a, as, actual) ==
    "Expected [" \o Join(as.p) \o "]" \o (IF a.name \in {"", "<absent>"} THEN "" ELSE " in [" \o a.name \o "]")
    \o " to be " \o as.c \o " [" \o ToStr(as.v) \o "] but was [" \o ToStr(actual) \o "]."

(* ------------------------- registration ------------------------------- *)
Accepted(a) == a.async = "true"                         \* kwargs.get("async_runner", False)
Probe(a) == IF a.deleg /\ ~UnwrapStopsAtUser THEN [mc |-> FALSE, prog |-> "none"] ELSE [mc |-> a.mc, prog |-> a.prog]
CtxEnabled(a) == a.kind = "cm"                          \* both __aenter__ and __aexit__ (Retry has both and needs a Runner inside)
(* name: runner.__name__ of a function, str(runner) otherwise -- and str(runner) also for a FUNCTION carrying multi_cluster (recorded as "<function>") *)
InnerName(a) == IF a.retry THEN "retryable U" ELSE IF a.kind = "fn" /\ Probe(a).mc THEN "<function>" ELSE "U"
Repr(a) == (IF CtxEnabled(a) THEN "user-defined context-manager enabled runner for [" ELSE "user-defined runner for [") \o InnerName(a) \o "]"
Chain(a) == <<IF Probe(a).prog = "both" THEN "WithCompletion" ELSE "NoCompletion", "AssertingRunner", "MultiClientRunner">>
            \o (IF a.retry THEN <<"Retry">> ELSE <<>>)
Compl(a) == IF Probe(a).prog = "both" THEN "user" ELSE "none"
Client(a) == IF Probe(a).mc THEN "all" ELSE "default"
UnwrapIsUser(a) == ~a.deleg \/ UnwrapStopsAtUser
Events(a) == IF CtxEnabled(a) THEN <<"enter", "call", "exit">> ELSE <<"call">>

(* --------------------------- assertions ------------------------------- *)
Checks(a) == a.enabled /\ a.has                          \* AssertingRunner.assertions_enabled and "assertions" in params
ReadsOf(as, d) == LET l == Look(d, as.p, 1) IN [j \in 1..l.at |-> Join(SubSeq(as.p, 1, j))]

(* outcome of one assertion: "pass" or the exception *)
Exc(cls, msg) == [k |-> "exc", cls |-> cls, msg |-> msg]
One(a, as, d) ==
    LET l == Look(d, as.p, 1)
        bad(what) == IF MissingIsAssertionError THEN Exc("RallyTaskAssertionError", "") ELSE Exc(what, "")
    IN IF l.k = "keyerr" THEN (IF MissingIsAssertionError THEN Exc("RallyTaskAssertionError", "") ELSE Exc("KeyError", "'" \o as.p[l.at] \o "'"))
       ELSE IF l.k = "typeerr" THEN bad("TypeError")
       ELSE LET r == Pred(as.c, as.v, l.v) IN
            IF r = "T" THEN [k |-> "pass", cls |-> "", msg |-> ""]
            ELSE IF r = "F" THEN Exc("RallyTaskAssertionError", Msg(a, as, l.v))
            ELSE IF r = "keyerr" THEN (IF MissingIsAssertionError THEN Exc("RallyTaskAssertionError", "") ELSE Exc("KeyError", "'" \o as.c \o "'"))
            ELSE bad("TypeError")

(* assertions are checked in order, the first one that does not pass ends the call *)
RECURSIVE Walk(_, _, _, _)
Walk(a, d, i, reads) ==
    IF i > Len(a.as) THEN [o |-> [k |-> "pass", cls |-> "", msg |-> ""], reads |-> reads]
    ELSE LET o == One(a, a.as[i], d) r2 == reads \o ReadsOf(a.as[i], d)
         IN IF o.k = "pass" THEN Walk(a, d, i + 1, r2) ELSE [o |-> o, reads |-> r2]

(* a.rp: the params ask for retries (retries = 2, retry-on-error = true). Retry sits INSIDE the assertion check: a failed assertion is never
   retried; what Retry does with a result reporting success = false is specs/Retry and excluded here *)
ReportsSuccess(a) == ~(a.ret.k = "val" /\ a.ret.v.t = "dict" /\ Has(a.ret.v.d, "success") /\ Get(a.ret.v.d, "success").n = 0)
NameStr(a) == IF a.name = "<absent>" THEN "None" ELSE a.name
Raises(a) == a.ret.k = "raise"
IsDict(a) == a.ret.k = "val" /\ a.ret.v.t = "dict"

(* what `async with w: await w(es, params)` gives: [k |-> "ret"] (the object the user's runner returned) or an exception *)
Direct(a) ==
    IF Raises(a) THEN [o |-> Exc(a.ret.s, IF a.ret.s = "KeyError" THEN "'k'" ELSE "boom"), reads |-> <<>>, same |-> TRUE]
    ELSE IF ~Checks(a) THEN [o |-> [k |-> "ret", cls |-> "", msg |-> ""], reads |-> <<>>, same |-> TRUE]
    ELSE IF ~IsDict(a) THEN [o |-> Exc("DataError", "Cannot check assertion in [" \o NameStr(a) \o "] as [" \o Repr(a) \o "] did not return a dict."),
                             reads |-> <<>>, same |-> FALSE]
    ELSE LET w == Walk(a, a.ret.v, 1, <<>>)
         IN [o |-> (IF w.o.k = "pass" THEN [k |-> "ret", cls |-> "", msg |-> ""] ELSE w.o), reads |-> w.reads, same |-> w.o.k = "pass"]

(* driver.execute_single: (weight, unit, meta) of a returned value, KeyError -> SystemSetupError, on_error = abort *)
ParamKeys(a) == (IF a.name = "<absent>" THEN <<>> ELSE <<"name">>) \o (IF a.has THEN <<"assertions">> ELSE <<>>)
                \o (IF a.rp THEN <<"retries", "retry-on-error">> ELSE <<>>)
RECURSIVE PyList(_)
PyList(s) == IF s = <<>> THEN "" ELSE "'" \o s[1] \o "'" \o (IF Len(s) > 1 THEN ", " ELSE "") \o PyList(Tail(s))
NoNorm == [ops |-> 0, unit |-> "", keys |-> {}, success |-> FALSE]
Norm(a) ==
    IF a.ret.k = "tuple" THEN [ops |-> a.ret.n, unit |-> a.ret.s, keys |-> {"success"}, success |-> TRUE]
    ELSE IF IsDict(a) THEN
        LET d == a.ret.v.d IN
        [ops |-> IF Has(d, "weight") THEN Get(d, "weight").n ELSE 1,
         unit |-> IF Has(d, "unit") THEN Get(d, "unit").s ELSE "ops",
         keys |-> (Keys(d) \ {"weight", "unit"}) \cup {"success"},
         success |-> IF Has(d, "success") THEN Get(d, "success").n = 1 ELSE TRUE]
    ELSE [ops |-> 1, unit |-> "ops", keys |-> {"success"}, success |-> TRUE]

Exec(a) ==
    LET dr == Direct(a) IN
    IF dr.o.k = "exc" THEN
        (IF dr.o.cls = "KeyError"
         THEN [dr EXCEPT !.o = Exc("SystemSetupError", "Cannot execute [" \o Repr(a) \o "]. Provided parameters are: [" \o PyList(ParamKeys(a))
                                       \o "]. Error: [" \o dr.o.msg \o "]."), !.same = FALSE]
         ELSE dr) @@ [norm |-> NoNorm]
    ELSE LET n == Norm(a) IN
         IF ~n.success /\ a.stage = "abort"
         THEN [o |-> Exc("RallyAssertionError", "Request returned an error. Error type: Unknown"), reads |-> dr.reads, same |-> FALSE, norm |-> NoNorm]
         ELSE [o |-> [k |-> "norm", cls |-> "", msg |-> ""], reads |-> dr.reads, same |-> IsDict(a), norm |-> n]

CallCode(a) ==
    IF ~Accepted(a) THEN [part |-> "call", reg |-> "refused"]
    ELSE LET x == IF a.stage = "direct" THEN Direct(a) @@ [norm |-> NoNorm] ELSE Exec(a) IN
         [part |-> "call", reg |-> "ok", chain |-> Chain(a), repr |-> Repr(a), unwrapU |-> UnwrapIsUser(a), compl |-> Compl(a),
          client |-> Client(a), ev |-> Events(a), o |-> x.o, reads |-> x.reads, same |-> x.same, norm |-> x.norm]

(* ------------------------------ histories ----------------------------- *)
(* step: [a |-> "reg"|"rm"|"get"|"defaults", op, ok (reg: async_runner=True), enum (reg: operation type given as OperationType)] *)
(* registry: function op -> rid; rid = index of the registering step, 0 = a built-in runner, -1 = none                         *)
Absent == -1
Builtin == 0
Snap(reg, ops) == [i \in 1..Len(ops) |-> reg[ops[i]]]
StepEff(reg, st, i) ==
    CASE st.a = "reg" -> IF st.ok THEN [r |-> "ok", reg |-> [reg EXCEPT ![st.op] = i]] ELSE [r |-> "RallyAssertionError", reg |-> reg]
      [] st.a = "rm" -> IF reg[st.op] # Absent THEN [r |-> "ok", reg |-> [reg EXCEPT ![st.op] = Absent]] ELSE [r |-> "KeyError", reg |-> reg]
      [] st.a = "get" -> [r |-> IF reg[st.op] = Absent THEN "RallyError" ELSE ToString(reg[st.op]), reg |-> reg]
      [] OTHER -> [r |-> "ok", reg |-> [o \in DOMAIN reg |-> IF o \in BuiltinOps THEN Builtin ELSE reg[o]]]

RECURSIVE Fold(_, _, _, _, _)
Fold(h, ops, reg, i, acc) ==
    IF i > Len(h) THEN acc
    ELSE LET e == StepEff(reg, h[i], i) IN Fold(h, ops, e.reg, i + 1, Append(acc, [r |-> e.r, st |-> Snap(e.reg, ops)]))

HistCode(a) == [part |-> "hist", obs |-> Fold(a.h, a.ops, [o \in {a.ops[i] : i \in 1..Len(a.ops)} |-> Absent], 1, <<>>)]

(* ------------------- register_default_runners: WHERE Retry is applied ----------------- *)
NotRetryable == {"bulk", "force-merge", "node-stats", "search", "paginated-search", "composite-agg", "scroll-search", "raw-request", "composite",
                 "submit-async-search", "delete-async-search", "open-point-in-time", "close-point-in-time", "sql", "field-caps", "esql",
                 "sleep", "create-snapshot", "restore-snapshot", "downsample"}
CensusCode(a) == [part |-> "census", stacks |-> [k \in 1..Len(a.types) |-> IF a.types[k] \in NotRetryable THEN "plain" ELSE "retry"]]
CensusClauses == {"EveryTypeHasRunner", "DefaultStackOrder"}
CensusHolds(c, a, r) == /\ Len(r.stacks) = Len(a.types)
                        /\ \A k \in 1..Len(a.types) : IF c = "EveryTypeHasRunner" THEN r.stacks[k] # "missing" ELSE r.stacks[k] # "odd"

(* ------------------- mandatory(params, key, op) ----------------- *)
(* a = [keys (of params), key, op, nul (the value of every key is None)]; r.k = "val" (the very value of params[key]) | "exc" *)
MandCode(a) == IF \E k \in 1..Len(a.keys) : a.keys[k] = a.key THEN [part |-> "mand", k |-> "val", cls |-> "", msg |-> ""]
               ELSE [part |-> "mand", k |-> "exc", cls |-> "DataError",
                     msg |-> "Parameter source for operation '" \o a.op \o "' did not provide the mandatory parameter '" \o a.key
                             \o "'. Add it to your parameter source and try again."]
MandClauses == {"PresentIsReturned", "MissingIsDataError"}
MandHolds(c, a, r) == LET present == \E k \in 1..Len(a.keys) : a.keys[k] = a.key IN
                      IF c = "PresentIsReturned" THEN present => r.k = "val"          \* also a value None: present, not "missing"
                      ELSE ~present => r.k = "exc" /\ r.cls = "DataError"

Code(a) == IF a.part = "call" THEN CallCode(a) ELSE IF a.part = "hist" THEN HistCode(a) ELSE IF a.part = "mand" THEN MandCode(a) ELSE CensusCode(a)

(* ------------------------------ clauses ------------------------------- *)
CallClauses == {"AsyncRequired", "StackOrder", "RetryInnermostWrapper", "ReprNamesRunner", "ClientSelection", "ContextManagerHonoured",
                "CompletionFromUser", "PassingCallUnchanged", "UserExceptionPropagates", "DisabledNeverEvaluates", "FailsIffPredicateFalse",
                "NoReturnOnFailure", "FailureMessage", "NonDictIsDataError", "NormalisedTriple", "AssertionFailureNotRetried"}
StrongCall == {"UnwrapReturnsUser", "BadAssertionIsAssertionError"}

AllPass(a) == \A i \in 1..Len(a.as) : Documented(a.as[i], a.ret.v)
FirstBad(a) == CHOOSE i \in 1..Len(a.as) : ~Documented(a.as[i], a.ret.v) /\ \A j \in 1..(i - 1) : Documented(a.as[j], a.ret.v)
WellFormed(as, d) == LET l == Look(d, as.p, 1) IN l.k = "val" /\ Pred(as.c, as.v, l.v) \in {"T", "F"}
Evaluates(a) == Accepted(a) /\ ~Raises(a) /\ a.enabled /\ a.has
Returned(r) == r.o.k \in {"ret", "norm"}
OwnErrors == {"RallyTaskAssertionError", "DataError"}

CallHolds(c, a, r) ==
    CASE c = "AsyncRequired" -> (r.reg = "ok") = (a.async = "true")
      [] r.reg # "ok" -> TRUE
      [] c = "StackOrder" -> /\ Len(r.chain) >= 3 /\ r.chain[1] \in {"WithCompletion", "NoCompletion"}
                             /\ r.chain[2] = "AssertingRunner" /\ r.chain[3] = "MultiClientRunner"
      [] c = "RetryInnermostWrapper" -> r.chain = SubSeq(r.chain, 1, 3) \o (IF a.retry THEN <<"Retry">> ELSE <<>>)
      [] c = "ReprNamesRunner" -> r.repr = Repr(a)
      [] c = "ClientSelection" -> a.deleg \/ r.client = (IF a.mc THEN "all" ELSE "default")
      [] c = "ContextManagerHonoured" -> r.ev = (IF a.kind = "cm" THEN <<"enter", "call", "exit">> ELSE <<"call">>)
      [] c = "CompletionFromUser" -> a.deleg \/ (r.compl = (IF a.prog = "both" THEN "user" ELSE "none")
                                                  /\ (r.chain[1] = "WithCompletion") = (a.prog = "both"))
      [] c = "UnwrapReturnsUser" -> r.unwrapU
      [] c = "UserExceptionPropagates" -> Raises(a) /\ ~(a.stage # "direct" /\ a.ret.s = "KeyError") =>
                                              r.o.k = "exc" /\ r.o.cls = a.ret.s /\ r.same /\ r.reads = <<>>
      [] c = "DisabledNeverEvaluates" -> ~Evaluates(a) /\ ~Raises(a) => r.reads = <<>> /\ (r.o.k = "exc" => r.o.cls \notin OwnErrors \cup {"KeyError", "TypeError", "SystemSetupError"})
      [] c = "PassingCallUnchanged" -> ~Raises(a) /\ (~Evaluates(a) \/ (IsDict(a) /\ AllPass(a))) =>
                                           IF a.stage = "direct" THEN r.o.k = "ret" /\ r.same
                                           ELSE r.o.k = "norm" \/ (a.stage = "abort" /\ r.o.cls = "RallyAssertionError")
      [] c = "FailsIffPredicateFalse" -> Evaluates(a) /\ IsDict(a) /\ (\A i \in 1..Len(a.as) : WellFormed(a.as[i], a.ret.v)) =>
                                             (r.o.k = "exc" /\ r.o.cls = "RallyTaskAssertionError") = ~AllPass(a)
      [] c = "NoReturnOnFailure" -> Evaluates(a) /\ IsDict(a) /\ ~AllPass(a) => ~Returned(r)
      [] c = "FailureMessage" -> Evaluates(a) /\ IsDict(a) /\ ~AllPass(a) /\ WellFormed(a.as[FirstBad(a)], a.ret.v) =>
                                     r.o.k = "exc" /\ r.o.msg = Msg(a, a.as[FirstBad(a)], Look(a.ret.v, a.as[FirstBad(a)].p, 1).v)
      [] c = "BadAssertionIsAssertionError" -> Evaluates(a) /\ IsDict(a) /\ ~AllPass(a) => r.o.k = "exc" /\ r.o.cls = "RallyTaskAssertionError"
      [] c = "NonDictIsDataError" -> Evaluates(a) /\ ~IsDict(a) => r.o.k = "exc" /\ r.o.cls = "DataError"
      [] c = "AssertionFailureNotRetried" -> ReportsSuccess(a) => Cardinality({k \in 1..Len(r.ev) : r.ev[k] = "call"}) = 1
      [] c = "NormalisedTriple" -> r.o.k = "norm" => /\ r.norm = Norm(a) /\ "success" \in r.norm.keys
                                                     /\ {"weight", "unit"} \cap r.norm.keys = {}
                                                     /\ (~IsDict(a) => r.norm.keys = {"success"} /\ r.norm.success)
      [] OTHER -> FALSE

(* histories: formulated on the recorded observations, independently of the fold above *)
HistClauses == {"LatestRegistrationWins", "FailedCallChangesNothing", "OnlyOwnOperationType", "DefaultsCoverBuiltins", "LookupTotal"}
Idx(ops, op) == CHOOSE i \in 1..Len(ops) : ops[i] = op
Before(a, r, i) == IF i = 1 THEN [k \in 1..Len(a.ops) |-> Absent] ELSE r.obs[i - 1].st
Succeeded(a, r, j) == r.obs[j].r = "ok"
(* the last step before i that successfully determined the entry of op *)
Determines(a, r, j, op) == /\ Succeeded(a, r, j)
                           /\ \/ a.h[j].a \in {"reg", "rm"} /\ a.h[j].op = op
                              \/ a.h[j].a = "defaults" /\ op \in BuiltinOps
Expected(a, r, i, op) ==
    LET J == {j \in 1..(i - 1) : Determines(a, r, j, op)} IN
    IF J = {} THEN Absent
    ELSE LET m == CHOOSE j \in J : \A k \in J : k <= j IN
         IF a.h[m].a = "reg" THEN m ELSE IF a.h[m].a = "rm" THEN Absent ELSE Builtin

HistHolds(c, a, r) ==
    /\ Len(r.obs) = Len(a.h)
    /\ \A i \in 1..Len(a.h) :
        LET st == a.h[i] o == r.obs[i] pre == Before(a, r, i) IN
        CASE c = "LatestRegistrationWins" ->
                 st.a = "get" => o.r = (IF Expected(a, r, i, st.op) = Absent THEN "RallyError" ELSE ToString(Expected(a, r, i, st.op)))
          [] c = "FailedCallChangesNothing" -> (o.r # "ok" \/ st.a = "get") => o.st = pre
          [] c = "OnlyOwnOperationType" -> st.a \in {"reg", "rm"} => \A k \in 1..Len(a.ops) : a.ops[k] # st.op => o.st[k] = pre[k]
          [] c = "DefaultsCoverBuiltins" -> st.a = "defaults" => /\ o.r = "ok"
                                                                 /\ \A k \in 1..Len(a.ops) : o.st[k] = (IF a.ops[k] \in BuiltinOps THEN Builtin ELSE pre[k])
          [] c = "LookupTotal" -> /\ st.a = "get" => (o.r = "RallyError") = (pre[Idx(a.ops, st.op)] = Absent)
                                  /\ st.a = "rm" => (o.r = "KeyError") = (pre[Idx(a.ops, st.op)] = Absent)
                                  /\ st.a = "reg" => (o.r = "ok") = st.ok /\ (st.ok => o.st[Idx(a.ops, st.op)] = i)
          [] OTHER -> FALSE

Holds(c, a, r) == IF a.part = "call" THEN CallHolds(c, a, r) ELSE IF a.part = "hist" THEN HistHolds(c, a, r)
                  ELSE IF a.part = "mand" THEN MandHolds(c, a, r) ELSE CensusHolds(c, a, r)
ClausesOf(a) == IF a.part = "call" THEN CallClauses \cup StrongCall ELSE IF a.part = "hist" THEN HistClauses ELSE IF a.part = "mand" THEN MandClauses ELSE CensusClauses
Weak(a) == ClausesOf(a) \ StrongCall

(* ------------------------------ behaviour ----------------------------- *)
Init == in \in Inputs /\ res = NoRes /\ done = FALSE
Eval == ~done /\ res' = Code(in) /\ done' = TRUE /\ UNCHANGED in
Next == Eval
Spec == Init /\ [][Next]_vars

WeakHold == done => \A c \in Weak(in) : Holds(c, in, res)
IUnwrapReturnsUser == done /\ in.part = "call" => Holds("UnwrapReturnsUser", in, res)
IBadAssertionIsAssertionError == done /\ in.part = "call" => Holds("BadAssertionIsAssertionError", in, res)
StrongHold == IUnwrapReturnsUser /\ IBadAssertionIsAssertionError
=============================================================================
