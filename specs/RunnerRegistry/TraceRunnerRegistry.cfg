SPECIFICATION TSpec
CONSTANTS
  Inputs = {}
  MissingIsAssertionError = FALSE
  UnwrapStopsAtUser = FALSE
CHECK_DEADLOCK FALSE
