\* one client, root + 2 child tasks, 4 contexts, depth 3, 3 wire requests: repaired propagation, the property holds
SPECIFICATION Spec
CONSTANTS
  Tasks <- T3
  Roots <- R1
  MaxCtx = 4
  MaxWire = 3
  MaxDepth = 3
  MaxKids = 2
  MaxChunks = 0
  MinMaxPropagation = TRUE
  StreamsAwaited = TRUE
VIEW view
INVARIANT TypeOK
INVARIANT PointerIsScope
INVARIANT SpanStart
INVARIANT SpanEnd
INVARIANT LeafExact
PROPERTY NoLeak
CHECK_DEADLOCK FALSE
