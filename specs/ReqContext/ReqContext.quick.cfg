\* repaired propagation (MinMaxPropagation = TRUE): the property holds for every interleaving and completion order
SPECIFICATION Spec
CONSTANTS
  Tasks <- T4
  Roots <- R2
  MaxCtx = 4
  MaxWire = 3
  MaxDepth = 3
  MaxKids = 2
  MaxChunks = 1
  MinMaxPropagation = TRUE
VIEW view
INVARIANT TypeOK
INVARIANT PointerIsScope
INVARIANT SpanStart
INVARIANT SpanEnd
INVARIANT LeafExact
INVARIANT Nesting
PROPERTY NoLeak
CHECK_DEADLOCK FALSE
