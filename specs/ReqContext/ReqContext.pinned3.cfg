\* The caller as written before f822262 (Composite did not await its stream tasks after a failure), propagation repaired.
\* Self-test: TLC must report a violation (a request in flight in an abandoned sibling is missing from the recorded timing).
SPECIFICATION Spec
CONSTANTS
  Tasks <- T3
  Roots <- R1
  MaxCtx = 3
  MaxWire = 2
  MaxDepth = 2
  MaxKids = 2
  MaxChunks = 0
  MinMaxPropagation = TRUE
  StreamsAwaited = FALSE
INVARIANT SpanStart
INVARIANT SpanEnd
INVARIANT LeafExact
CHECK_DEADLOCK FALSE
