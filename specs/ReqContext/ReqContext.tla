----------------------------- MODULE ReqContext -----------------------------
(***************************************************************************)
(* Request timing contexts of elastic/rally (property C18).                *)
(*                                                                         *)
(* esrally/client/context.py keeps, in ONE context variable                *)
(* (RequestContextHolder.request_context), a pointer to the timing dict of  *)
(* the innermost open request context of the running asyncio task.         *)
(*   with holder.new_request_context() as c:   RequestContextManager        *)
(*      __enter__ : init_request_context(): ctx = {}, token = var.set(ctx)  *)
(*      __exit__  : restore_context(token)  (var.reset), then - unless the  *)
(*                  token's old value is MISSING - update_request_start /   *)
(*                  update_request_end of the dict that is current NOW      *)
(*                  (the parent's) with this context's start / end          *)
(*   on_request_start(): update_request_start(perf_counter())  of the dict  *)
(*                  the variable points to                                  *)
(*   on_request_end()  : update_request_end(perf_counter()), called once or *)
(*                  several times per wire request (aiohttp: per chunk)     *)
(* asyncio.create_task copies the contextvars Context SHALLOWLY: the child  *)
(* task starts with the same POINTER, parent and child share the dict until *)
(* one of them enters a new context (runner.Composite: one task per stream, *)
(* one RequestTiming context per operation, all below the context that      *)
(* AsyncExecutor opened for the whole composite request).                   *)
(*                                                                         *)
(* Every action below is one critical section of that code (no await        *)
(* inside).  Each action is the conjunction of                              *)
(*    G  its guard: the usage discipline of the callers,                    *)
(*    B  bounds of the model (not part of the behaviour),                   *)
(*    S  bookkeeping of the harness-visible structure and of the history    *)
(*       (lexical scopes, which wire request belongs to which context),     *)
(*    O  the effect on the code's own state: ctx (dict contents), cur (the  *)
(*       context variable as seen by each task), par (token.old_value).     *)
(* The trace specification evaluates G and O as booleans on recorded steps. *)
(*                                                                         *)
(* StreamsAwaited = FALSE is the caller (runner.Composite) as written before *)
(* it awaited all its stream tasks on failure; TRUE is the repaired caller.  *)
(* MinMaxPropagation = FALSE is the code as written ("first caller sets the *)
(* start, every caller overwrites the end", None included);                *)
(* MinMaxPropagation = TRUE  is the repaired behaviour (earliest start /    *)
(* latest end, None ignored).                                              *)
(***************************************************************************)
EXTENDS Naturals, Integers, Sequences, FiniteSets, TLC

CONSTANTS Tasks,              \* ids of asyncio task slots (positive naturals)
          Roots,              \* subset of Tasks: one root task per client (AsyncExecutor of that client)
          MaxCtx,             \* bound on the number of request contexts ever opened
          MaxWire,            \* bound on the total number of wire requests; -1: unbounded
          MaxDepth,           \* bound on the nesting depth of contexts
          MaxKids,            \* bound on the number of unjoined child tasks of one task
          MaxChunks,          \* bound on additional on_request_end calls (response chunks); -1: unbounded
          MinMaxPropagation,  \* TRUE: repaired propagation; FALSE: code as written
          StreamsAwaited      \* TRUE: repaired caller (runner.Composite awaits every stream task, also the cancelled ones, before
                              \*       it ends); FALSE: as written before: once a sub-request has failed, a task may leave its
                              \*       block / end while tasks it created inside are still running (not awaited, not even cancelled
                              \*       when the failure surfaces in the final gather)

Absent == -1    \* key not in the dict
NoneV  == -2    \* key in the dict with value None  (what the properties request_start/request_end return for Absent, too)

VARIABLES clock,    \* time.perf_counter(), never decreasing; strictly increasing in the model
          ts,       \* ts[t] \in {"new", "run", "wire", "done"}: not (yet) created / runnable / awaiting a wire response / finished
          tpar,     \* tpar[t]: the task that created t (0 for roots)
          cur,      \* cur[t]: value of the context variable in task t (0 = unset / Token.MISSING)            -- code state
          scope,    \* scope[t]: the contexts whose `with` block lexically encloses t's current position, outermost first
                    \*           (inherited from the creating task at create_task time, then its own)
          base,     \* base[t]: length of the inherited part of scope[t]
          ctx,      \* ctx[n] = [s, e]: the timing dict of context n (request_start, request_end)              -- code state
          par,      \* par[n]: token.old_value of context n's manager (0 = MISSING)                             -- code state
          open,     \* open[n]: the with block of n has not been left
          owner,    \* owner[n]: root task (= client) in whose tree n was opened
          lpar,     \* lpar[n]: lexically enclosing context of n (0 = none)
          sub,      \* sub[n]: a sub-request context has been opened inside n
          hs,       \* hs[n]: history, earliest on_request_start instant of all wire requests issued on behalf of n, i.e.
                    \*        inside its with block, in any task (Absent: none so far)
          he,       \* he[n]: history, latest on_request_end instant of those wire requests (Absent: none so far)
          nwire,    \* number of wire requests so far
          chunks,   \* number of additional on_request_end calls so far
          fail,     \* fail[t]: a sub-request failed in task t or in a task it awaited (gather re-raises the exception) and t has
                    \*          not left a block normally since
          act       \* last action (schedule extraction; hidden by VIEW)

vars == <<clock, ts, tpar, cur, scope, base, ctx, par, open, owner, lpar, sub, hs, he, nwire, chunks, fail, act>>

Last(s)  == s[Len(s)]
Front(s) == SubSeq(s, 1, Len(s) - 1)
Range(s) == {s[i] : i \in 1..Len(s)}
Ctxs == 1..Len(ctx)

RECURSIVE RootOf(_, _)
RootOf(tp, t) == IF tp[t] = 0 THEN t ELSE RootOf(tp, tp[t])

Live(t) == ts[t] \in {"run", "wire"}
(* left behind: the task that created u has ended, or the block in which u was created has been left (never so under   *)
(* the structured discipline, see PointerIsScope)                                                                       *)
Orphan(u) == \/ tpar[u] # 0 /\ ~Live(tpar[u])
             \/ base[u] > 0 /\ ~open[scope[u][base[u]]]
Kids(t) == {u \in Tasks : tpar[u] = t /\ Live(u) /\ ~Orphan(u)}   \* created by t, not yet finished/joined

-----------------------------------------------------------------------------
(* The code's arithmetic.  c is a dict [s, e], v a value handed to update_request_start / update_request_end. *)

Read(x) == IF x = Absent THEN NoneV ELSE x                    \* dict.get(key): RequestContextManager.request_start / request_end

UpdStart(mm, c, v) ==
    IF mm THEN IF v < 0 THEN c                                 \* repaired: None is ignored, earliest start wins
               ELSE IF c.s < 0 \/ v < c.s THEN [c EXCEPT !.s = v] ELSE c
    ELSE IF c.s = Absent THEN [c EXCEPT !.s = v] ELSE c        \* as written: `if "request_start" not in meta`; v may be None

UpdEnd(mm, c, v) ==
    IF mm THEN IF v < 0 THEN c                                 \* repaired: None is ignored, latest end wins
               ELSE IF c.e < 0 \/ v > c.e THEN [c EXCEPT !.e = v] ELSE c
    ELSE [c EXCEPT !.e = v]                                    \* as written: meta["request_end"] = v; v may be None

Fresh == [s |-> Absent, e |-> Absent]

-----------------------------------------------------------------------------
(* Enter(t):  `with holder.new_request_context()`  ->  init_request_context; the new context gets the next id *)
EnterG(t) == ts[t] = "run"
EnterB(t) == Len(ctx) < MaxCtx /\ Len(scope[t]) < MaxDepth
EnterS(t) ==
    LET n  == Len(ctx) + 1
        lp == IF scope[t] = <<>> THEN 0 ELSE Last(scope[t])
    IN /\ scope' = [scope EXCEPT ![t] = Append(@, n)]
       /\ open'  = Append(open, TRUE)
       /\ owner' = Append(owner, RootOf(tpar, t))
       /\ lpar'  = Append(lpar, lp)
       /\ sub'   = Append(IF lp = 0 THEN sub ELSE [sub EXCEPT ![lp] = TRUE], FALSE)
       /\ hs'    = Append(hs, Absent)
       /\ he'    = Append(he, Absent)
       /\ UNCHANGED <<clock, ts, tpar, base, nwire, chunks, fail>>
EnterO(t) ==
    /\ ctx' = Append(ctx, Fresh)                               \* ctx = {}
    /\ par' = Append(par, cur[t])                              \* token = request_context.set(ctx); token.old_value
    /\ cur' = [cur EXCEPT ![t] = Len(ctx) + 1]

(* WireStart(t): a wire request of task t begins -> on_request_start() at instant tau *)
WireStartG(t, tau) == ts[t] = "run" /\ scope[t] # <<>> /\ tau >= clock
WireStartB(t) == MaxWire < 0 \/ nwire < MaxWire
WireStartS(t, tau) ==
    /\ clock' = tau
    /\ nwire' = nwire + 1
    /\ hs'    = [n \in 1..Len(hs) |-> IF n \in Range(scope[t]) /\ (hs[n] = Absent \/ tau < hs[n]) THEN tau ELSE hs[n]]
    /\ ts'    = [ts EXCEPT ![t] = "wire"]
    /\ UNCHANGED <<tpar, scope, base, open, owner, lpar, sub, he, chunks, fail>>
WireStartO(mm, t, tau) ==
    /\ cur[t] \in Ctxs                                         \* request_context.get() raises LookupError otherwise
    /\ ctx' = [ctx EXCEPT ![cur[t]] = UpdStart(mm, @, tau)]
    /\ UNCHANGED <<cur, par>>

(* WireEnd(t, last): on_request_end() at instant tau; last = FALSE: a chunk, more calls follow for the same request *)
WireEndG(t, tau) == ts[t] = "wire" /\ tau >= clock
WireEndB(last) == last \/ MaxChunks < 0 \/ chunks < MaxChunks
WireEndS(t, last, tau) ==
    /\ clock'  = tau
    /\ he'     = [n \in 1..Len(he) |-> IF n \in Range(scope[t]) /\ (he[n] = Absent \/ tau > he[n]) THEN tau ELSE he[n]]
    /\ ts'     = [ts EXCEPT ![t] = IF last THEN "run" ELSE "wire"]
    /\ chunks' = IF last THEN chunks ELSE chunks + 1
    /\ UNCHANGED <<tpar, scope, base, open, owner, lpar, sub, hs, nwire, fail>>
WireEndO(mm, t, tau) ==
    /\ cur[t] \in Ctxs
    /\ ctx' = [ctx EXCEPT ![cur[t]] = UpdEnd(mm, @, tau)]
    /\ UNCHANGED <<cur, par>>

(* Exit(t, raised): leaving the innermost with block of t: restore_context(token), then propagation unless         *)
(* top-level.  raised = TRUE: the block is left by an exception (a failed sub-request: timeout, API error ...; the   *)
(* wire request has been issued and on_request_end has been called by the client's exception hook).  __exit__ does   *)
(* not look at exc_type: the propagation is the same, the exception travels on (return False).                      *)
(* Usage discipline of the callers (sa: structured concurrency, as in the repaired Composite.run_stream): tasks      *)
(* created inside the block have been awaited.  ~sa (Composite as written before): not so once a sub-request failed. *)
ExitG(sa, t) == /\ ts[t] = "run"
                /\ Len(scope[t]) > base[t]
                /\ (sa \/ ~fail[t]) => \A u \in Kids(t) : base[u] < Len(scope[t])
ExitS(t, raised) ==
    /\ scope' = [scope EXCEPT ![t] = Front(@)]
    /\ open'  = [open EXCEPT ![Last(scope[t])] = FALSE]
    /\ fail'  = [fail EXCEPT ![t] = raised]                   \* an exception is under way; a block left normally has handled it
    /\ UNCHANGED <<clock, ts, tpar, base, owner, lpar, sub, hs, he, nwire, chunks>>
ExitO(mm, t, raised) ==
    LET n == Last(scope[t])                                    \* the manager's own dict (self.ctx) and token
        p == par[n]
    IN /\ cur' = [cur EXCEPT ![t] = p]                         \* request_context.reset(token)
       /\ ctx' = IF p \in Ctxs                                 \* token.old_value != Token.MISSING
                 THEN [ctx EXCEPT ![p] = UpdEnd(mm, UpdStart(mm, @, Read(ctx[n].s)), Read(ctx[n].e))]
                 ELSE ctx
       /\ UNCHANGED par

(* Spawn(t, u): asyncio.create_task: u starts with a shallow copy of t's contextvars Context *)
SpawnG(t, u) == ts[t] = "run" /\ ts[u] = "new"
SpawnB(t, u) == /\ Cardinality(Kids(t)) < MaxKids
                /\ \A v \in Tasks : ts[v] = "new" => u <= v    \* task slots are interchangeable: take the smallest unused
SpawnS(t, u) ==
    /\ ts'    = [ts EXCEPT ![u] = "run"]
    /\ tpar'  = [tpar EXCEPT ![u] = t]
    /\ scope' = [scope EXCEPT ![u] = scope[t]]
    /\ base'  = [base EXCEPT ![u] = Len(scope[t])]
    /\ UNCHANGED <<clock, open, owner, lpar, sub, hs, he, nwire, chunks, fail>>
SpawnO(t, u) ==
    /\ cur' = [cur EXCEPT ![u] = cur[t]]
    /\ UNCHANGED <<ctx, par>>

(* Join(t, u): child u has left all its own with blocks, awaited its own children and returned or raised; t awaited *)
(* it (sa).  ~sa: after a failure u may end without having awaited its children, and nobody may await u any more.   *)
(* What the finished task's Context held is unobservable: its slot is cleared.                                      *)
JoinG(sa, t, u) == /\ tpar[u] = t /\ ts[u] = "run" /\ (sa => Live(t))
                   /\ Len(scope[u]) = base[u]
                   /\ (sa \/ ~(fail[u] \/ fail[t] \/ Orphan(u))) => Kids(u) = {}     \* ~sa: u failed or was cancelled
JoinS(t, u) ==
    /\ ts'    = [ts EXCEPT ![u] = "done"]
    /\ scope' = [scope EXCEPT ![u] = <<>>]
    /\ base'  = [base EXCEPT ![u] = 0]
    /\ fail'  = [fail EXCEPT ![t] = @ \/ fail[u]]
    /\ UNCHANGED <<clock, tpar, open, owner, lpar, sub, hs, he, nwire, chunks>>
JoinO(t, u) ==
    /\ cur' = [cur EXCEPT ![u] = 0]
    /\ UNCHANGED <<ctx, par>>

-----------------------------------------------------------------------------
Enter(t)          == EnterG(t) /\ EnterB(t) /\ EnterS(t) /\ EnterO(t)
                     /\ act' = [name |-> "Enter", t |-> t, u |-> 0, last |-> FALSE, raised |-> FALSE]
WireStart(t)      == WireStartG(t, clock + 1) /\ WireStartB(t) /\ WireStartS(t, clock + 1)
                     /\ WireStartO(MinMaxPropagation, t, clock + 1)
                     /\ act' = [name |-> "WireStart", t |-> t, u |-> 0, last |-> FALSE, raised |-> FALSE]
WireEnd(t, last)  == WireEndG(t, clock + 1) /\ WireEndB(last) /\ WireEndS(t, last, clock + 1)
                     /\ WireEndO(MinMaxPropagation, t, clock + 1)
                     /\ act' = [name |-> "WireEnd", t |-> t, u |-> 0, last |-> last, raised |-> FALSE]
Exit(t, raised)   == ExitG(StreamsAwaited, t) /\ ExitS(t, raised) /\ ExitO(MinMaxPropagation, t, raised)
                     /\ act' = [name |-> "Exit", t |-> t, u |-> 0, last |-> FALSE, raised |-> raised]
Spawn(t, u)       == SpawnG(t, u) /\ SpawnB(t, u) /\ SpawnS(t, u) /\ SpawnO(t, u)
                     /\ act' = [name |-> "Spawn", t |-> t, u |-> u, last |-> FALSE, raised |-> FALSE]
Join(t, u)        == JoinG(StreamsAwaited, t, u) /\ JoinS(t, u) /\ JoinO(t, u)
                     /\ act' = [name |-> "Join", t |-> t, u |-> u, last |-> FALSE, raised |-> FALSE]

InitWith(R) ==
    /\ clock = 0
    /\ ts = [t \in Tasks |-> IF t \in R THEN "run" ELSE "new"]
    /\ tpar = [t \in Tasks |-> 0]
    /\ cur = [t \in Tasks |-> 0]
    /\ scope = [t \in Tasks |-> <<>>]
    /\ base = [t \in Tasks |-> 0]
    /\ ctx = <<>> /\ par = <<>> /\ open = <<>> /\ owner = <<>> /\ lpar = <<>> /\ sub = <<>> /\ hs = <<>> /\ he = <<>>
    /\ nwire = 0
    /\ chunks = 0
    /\ fail = [t \in Tasks |-> FALSE]
    /\ act = [name |-> "Init", t |-> 0, u |-> 0, last |-> FALSE, raised |-> FALSE]

Init == InitWith(Roots)

Next == \/ \E t \in Tasks : Enter(t) \/ WireStart(t)
        \/ \E t \in Tasks, flag \in BOOLEAN : WireEnd(t, flag) \/ Exit(t, flag)
        \/ \E t, u \in Tasks : Spawn(t, u) \/ Join(t, u)

Spec == Init /\ [][Next]_vars

-----------------------------------------------------------------------------
(* PROPERTY C18.  State predicates over (ctx, open, hs, he, sub, owner) so that the trace specification     *)
(* evaluates the same formulas on states recorded from the implementation.                                  *)
(*                                                                                                          *)
(* "The start and end recorded for a logical request are the earliest start and the latest end of all HTTP  *)
(*  requests issued on its behalf, including sub-requests of composite operations that run nested or        *)
(*  concurrently, and each sub-request's own timing covers exactly that sub-request."                       *)
(* The timing of a request context is final when its with block is left (callers read it there); all wire   *)
(* requests issued on its behalf have ended by then - successfully or not: a request that failed has been    *)
(* issued, too.  Nothing is claimed for a context without any wire request.                                  *)

Settled(n)  == ~open[n] /\ hs[n] # Absent
IsLeaf(n)   == ~sub[n]                                         \* no sub-request context inside n

BadSpanStart == {n \in Ctxs : Settled(n) /\ ~IsLeaf(n) /\ Read(ctx[n].s) # hs[n]}
BadSpanEnd   == {n \in Ctxs : Settled(n) /\ ~IsLeaf(n) /\ Read(ctx[n].e) # he[n]}
BadLeaf      == {n \in Ctxs : Settled(n) /\ IsLeaf(n) /\ (Read(ctx[n].s) # hs[n] \/ Read(ctx[n].e) # he[n])}

SpanStart == BadSpanStart = {}     \* a request with sub-requests starts at the earliest start of all its wire requests
SpanEnd   == BadSpanEnd = {}       \* ... and ends at the latest end
LeafExact == BadLeaf = {}          \* a sub-request's own timing covers exactly that sub-request

(* "Timings of requests executed concurrently by different clients in the same process never influence each *)
(*  other": a step of a task of one client leaves every timing dict of every other client's tree unchanged. *)
Leaked(actor) == {n \in Ctxs : owner[n] # RootOf(tpar, actor) /\ ctx'[n] # ctx[n]}
NoLeak == [][act'.t # 0 => Leaked(act'.t) = {}]_vars

(* consequences (model only): non-negative service time, a request's interval contains its sub-requests' intervals *)
Nesting ==
    \A n \in Ctxs : Settled(n) =>
        /\ ctx[n].s >= 0 /\ ctx[n].e >= ctx[n].s
        /\ (lpar[n] # 0 /\ Settled(lpar[n])) => (ctx[lpar[n]].s <= ctx[n].s /\ ctx[n].e <= ctx[lpar[n]].e)

(* sanity of the transcription: the context variable of a live task points to its innermost lexically open  *)
(* context, the token of an open context holds its lexical parent, tasks only wait inside open contexts     *)
PointerIsScope ==
    /\ \A t \in Tasks : Live(t) => cur[t] = (IF scope[t] = <<>> THEN 0 ELSE Last(scope[t]))
    /\ \A n \in Ctxs : open[n] => par[n] = lpar[n] /\ (lpar[n] # 0 => open[lpar[n]])
    /\ \A t \in Tasks : Live(t) => \A i \in 1..Len(scope[t]) : open[scope[t][i]]
    /\ \A n \in Ctxs : Settled(n) => he[n] >= hs[n]

TypeOK ==
    /\ clock \in Nat
    /\ \A t \in Tasks : ts[t] \in {"new", "run", "wire", "done"} /\ cur[t] \in 0..Len(ctx)
    /\ \A n \in Ctxs : ctx[n].s \in Nat \cup {Absent, NoneV} /\ ctx[n].e \in Nat \cup {Absent, NoneV}
    /\ Len(par) = Len(ctx) /\ Len(open) = Len(ctx) /\ Len(owner) = Len(ctx) /\ Len(lpar) = Len(ctx)
    /\ Len(sub) = Len(ctx) /\ Len(hs) = Len(ctx) /\ Len(he) = Len(ctx)

-----------------------------------------------------------------------------
(* VIEW for exhaustive checking.                                                                            *)
(* (1) Every guard, effect and property clause only compares instants with each other, so behaviours are     *)
(*     invariant under order-preserving renaming of the instants: the view ranks them and omits the clock.   *)
(* (2) After its with block is left, nothing of a context is read again by any action and nothing of it      *)
(*     changes (PointerIsScope: no live task and no open context points to it).  The view keeps only the     *)
(*     verdict of the property clauses for it, so a state violating a clause is never identified with one    *)
(*     that does not.                                                                                        *)
LiveVals == UNION {{ctx[n].s, ctx[n].e, hs[n], he[n]} : n \in {m \in Ctxs : open[m]}}
Rank(v)  == IF v < 0 THEN v ELSE Cardinality({x \in LiveVals : x >= 0 /\ x < v})
(* (3) Context ids are interchangeable: an open context is named by the task that entered it and its depth there. *)
OwnerPos(n) == CHOOSE p \in {t \in Tasks : Live(t)} \X (1..MaxDepth) :
                   p[2] > base[p[1]] /\ p[2] <= Len(scope[p[1]]) /\ scope[p[1]][p[2]] = n
Name(n)     == IF n = 0 THEN <<0, 0>> ELSE IF n \in Ctxs /\ open[n] THEN OwnerPos(n) ELSE <<-1, -1>>
CtxDesc(n)  == <<Rank(ctx[n].s), Rank(ctx[n].e), Rank(hs[n]), Rank(he[n]), Name(par[n]), owner[n], Name(lpar[n]), sub[n]>>
TaskDesc(t) == IF Live(t)
               THEN <<ts[t], tpar[t], base[t], Name(cur[t]),
                      [i \in 1..Len(scope[t]) |-> IF i > base[t] THEN CtxDesc(scope[t][i]) ELSE Name(scope[t][i])]>>
               ELSE <<ts[t]>>
view == <<[t \in Tasks |-> TaskDesc(t)],
          {<<n \in BadSpanStart, n \in BadSpanEnd, n \in BadLeaf>> : n \in {m \in Ctxs : ~open[m]}},
          Len(ctx),
          IF MaxWire < 0 THEN 0 ELSE nwire,
          IF MaxChunks < 0 THEN 0 ELSE chunks,
          IF StreamsAwaited THEN 0 ELSE fail>>          \* fail is read by the guards of the as-written caller only
=============================================================================
