\* wide bounds for -simulate (behaviours for S2C; invariants checked along the way)
SPECIFICATION Spec
CONSTANTS
  Tasks <- T6
  Roots <- R2
  MaxCtx = 8
  MaxWire = 6
  MaxDepth = 3
  MaxKids = 3
  MaxChunks = 2
  MinMaxPropagation = TRUE
  StreamsAwaited = TRUE
INVARIANT TypeOK
INVARIANT PointerIsScope
INVARIANT SpanStart
INVARIANT SpanEnd
INVARIANT LeafExact
INVARIANT Nesting
PROPERTY NoLeak
CHECK_DEADLOCK FALSE
