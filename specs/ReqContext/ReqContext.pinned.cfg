\* The code as written (first caller sets the start, every caller overwrites the end). Self-test: TLC must report a violation.
SPECIFICATION Spec
CONSTANTS
  Tasks <- T3
  Roots <- R1
  MaxCtx = 3
  MaxWire = 2
  MaxDepth = 2
  MaxKids = 2
  MaxChunks = 0
  MinMaxPropagation = FALSE
  StreamsAwaited = TRUE
VIEW view
INVARIANT TypeOK
INVARIANT PointerIsScope
INVARIANT SpanStart
INVARIANT SpanEnd
INVARIANT LeafExact
PROPERTY NoLeak
CHECK_DEADLOCK FALSE
