\* composite shape: one client, 3 concurrent child tasks (streams), depth 2, 4 wire requests
SPECIFICATION Spec
CONSTANTS
  Tasks <- T4
  Roots <- R1
  MaxCtx = 4
  MaxWire = 4
  MaxDepth = 2
  MaxKids = 3
  MaxChunks = 0
  MinMaxPropagation = TRUE
  StreamsAwaited = TRUE
VIEW view
INVARIANT TypeOK
INVARIANT PointerIsScope
INVARIANT SpanStart
INVARIANT SpanEnd
INVARIANT LeafExact
PROPERTY NoLeak
CHECK_DEADLOCK FALSE
