-------------------------- MODULE TraceReqContext --------------------------
(***************************************************************************)
(* Validates recorded executions of the real request-context code           *)
(* (esrally.client.context, runner.Composite / RequestTiming,               *)
(* driver.AsyncExecutor) against ReqContext.tla.                            *)
(* Input (env VERIF_TRACES): JSON array of traces                           *)
(*   [id, roots: <<task>>, ev: << event >>]                                 *)
(* event = [a, t, u, last, raised, tau, cur, ucur, par, d, n, rs, st, ok,   *)
(*          deps]                                                           *)
(*   a     "Enter" | "WireStart" | "WireEnd" | "Exit" | "Spawn" | "Join"     *)
(*         | "Sample"                                                       *)
(*   t, u  acting task, other task (Spawn / Join), last: see WireEnd,        *)
(*         raised: Exit by an exception (exc_type seen by __exit__)          *)
(*   tau   virtual instant (ticks) of the step                              *)
(*   cur   context variable of t after the step, as a context id (0 unset)  *)
(*   ucur  Spawn: context variable the new task u starts with               *)
(*   par   Enter: token.old_value of the new manager as a context id        *)
(*   d     <<n, s, e>> for every timing dict whose content differs from the *)
(*         previous snapshot (all dicts of all clients are compared after   *)
(*         every step): s / e = ticks, -1 key absent, -2 None               *)
(*   Sample (composite driver): what AsyncExecutor handed to the sampler    *)
(*         for the request whose top-level context is n: rs request_start,  *)
(*         st service_time, ok: meta data says success (a failed composite  *)
(*         reports no dependent timings), deps <<m, rs, re, st, abs>> (abs:  *)
(*         absolute_time minus the epoch of the virtual wall clock), solo =  *)
(*         <<rs, st>> and solodeps <<m, rs, re, st, abs>>: the same request  *)
(*         of the same client executed WITHOUT the other clients             *)
(*         (m = context of that sub-request if the harness could link it,   *)
(*         else 0)                                                          *)
(* Context ids are given by the harness in order of creation, which is the  *)
(* model's numbering.  Structure and history (scope, hs, he ...) are        *)
(* advanced by the S part of the specification's action, the code state     *)
(* (ctx, cur, par) is bound to what was recorded; then, as booleans,        *)
(*   L1: the property clauses of ReqContext.tla on the recorded state       *)
(*       (new members of BadSpanStart / BadSpanEnd / BadLeaf, Leaked),      *)
(*   L2: the recorded step is the O part of the action, for the repaired    *)
(*       and for the as-written variant of the transcription; a trace is    *)
(*       rejected (L2) when it is consistently neither.  Steps are accepted  *)
(*       under the guards of the as-written caller (StreamsAwaited = FALSE), *)
(*       so that executions in which tasks are left behind are judged, too.  *)
(* Output: <<"V", id, line, "L1", clauses>>, <<"D", id, line, n, s, e, hs,  *)
(* he>> (detail for a failing context), <<"V", id, line, "L2", {}>>,        *)
(* <<"N", id, fix, pin, strict>> for traces on which the variants differ    *)
(* or which leave the structured usage discipline (judged all the same),    *)
(* <<"DONE", #traces, #events>>.                                            *)
(***************************************************************************)
EXTENDS ReqContext, Json, IOUtils

Traces == JsonDeserialize(IOEnv.VERIF_TRACES)

VARIABLES tid,      \* index of the current trace
          l,        \* index of the next event
          nev,      \* events consumed so far
          fix,      \* every step of the current trace so far is a step of the repaired transcription
          pin,      \* ... of the as-written transcription
          badl,     \* first line that is a step of neither (0: none)
          strict,   \* every step so far obeys the structured usage discipline (StreamsAwaited = TRUE): no task left a block or
                    \* ended while tasks it created inside were still running
          et        \* et[n]: instant at which request context n was entered (recorded tau of its Enter step)

tvars == <<vars, tid, l, nev, fix, pin, badl, strict, et>>

TInit == /\ InitWith(IF Len(Traces) > 0 THEN Range(Traces[1].roots) ELSE {})
         /\ tid = 1 /\ l = 1 /\ nev = 0 /\ fix = TRUE /\ pin = TRUE /\ badl = 0 /\ strict = TRUE /\ et = <<>>

TraceTasks == 1..128
NoTasks == {}

Reset(R) ==
    /\ clock' = 0
    /\ ts' = [t \in Tasks |-> IF t \in R THEN "run" ELSE "new"]
    /\ tpar' = [t \in Tasks |-> 0]
    /\ cur' = [t \in Tasks |-> 0]
    /\ scope' = [t \in Tasks |-> <<>>]
    /\ base' = [t \in Tasks |-> 0]
    /\ ctx' = <<>> /\ par' = <<>> /\ open' = <<>> /\ owner' = <<>> /\ lpar' = <<>> /\ sub' = <<>> /\ hs' = <<>> /\ he' = <<>>
    /\ nwire' = 0
    /\ chunks' = 0
    /\ fail' = [t \in Tasks |-> FALSE]
    /\ act' = [name |-> "Init", t |-> 0, u |-> 0, last |-> FALSE, raised |-> FALSE]

Delta(c, d) ==
    [n \in 1..Len(c) |->
        IF \E i \in 1..Len(d) : d[i][1] = n
        THEN LET i == CHOOSE j \in 1..Len(d) : d[j][1] = n IN [s |-> d[i][2], e |-> d[i][3]]
        ELSE c[n]]

Guard(sa, e) ==
    CASE e.a = "Enter"     -> EnterG(e.t)
      [] e.a = "WireStart" -> WireStartG(e.t, e.tau)
      [] e.a = "WireEnd"   -> WireEndG(e.t, e.tau)
      [] e.a = "Exit"      -> ExitG(sa, e.t)
      [] e.a = "Spawn"     -> SpawnG(e.t, e.u)
      [] e.a = "Join"      -> JoinG(sa, e.t, e.u)
      [] OTHER             -> FALSE

Structure(e) ==
    CASE e.a = "Enter"     -> EnterS(e.t)
      [] e.a = "WireStart" -> WireStartS(e.t, e.tau)
      [] e.a = "WireEnd"   -> WireEndS(e.t, e.last, e.tau)
      [] e.a = "Exit"      -> ExitS(e.t, e.raised)
      [] e.a = "Spawn"     -> SpawnS(e.t, e.u)
      [] e.a = "Join"      -> JoinS(e.t, e.u)

Recorded(e) ==
    /\ ctx' = Delta(IF e.a = "Enter" THEN Append(ctx, Fresh) ELSE ctx, e.d)
    /\ par' = IF e.a = "Enter" THEN Append(par, e.par) ELSE par
    /\ cur' = CASE e.a = "Spawn" -> [cur EXCEPT ![e.t] = e.cur, ![e.u] = e.ucur]
                [] e.a = "Join"  -> [cur EXCEPT ![e.u] = 0]      \* t only awaits (and may itself have ended: as-written caller)
                [] OTHER         -> [cur EXCEPT ![e.t] = e.cur]

Effect(mm, e) ==
    CASE e.a = "Enter"     -> EnterO(e.t)
      [] e.a = "WireStart" -> WireStartO(mm, e.t, e.tau)
      [] e.a = "WireEnd"   -> WireEndO(mm, e.t, e.tau)
      [] e.a = "Exit"      -> ExitO(mm, e.t, e.raised)
      [] e.a = "Spawn"     -> SpawnO(e.t, e.u)
      [] e.a = "Join"      -> JoinO(e.t, e.u)

Detail(id, S) == \A n \in S : PrintT(<<"D", id, l, n, ctx'[n].s, ctx'[n].e, hs'[n], he'[n]>>)

Step(id, e) ==
    /\ Structure(e)
    /\ Recorded(e)
    /\ act' = [name |-> e.a, t |-> e.t, u |-> e.u, last |-> e.last, raised |-> e.raised]
    /\ LET newStart == BadSpanStart' \ BadSpanStart
           newEnd   == BadSpanEnd' \ BadSpanEnd
           newLeaf  == BadLeaf' \ BadLeaf
           leaked   == Leaked(e.t)
           l1 == (IF newStart = {} THEN {} ELSE {"SpanStart"}) \cup (IF newEnd = {} THEN {} ELSE {"SpanEnd"})
                 \cup (IF newLeaf = {} THEN {} ELSE {"LeafExact"}) \cup (IF leaked = {} THEN {} ELSE {"NoLeak"})
           okFix == Effect(TRUE, e)
           okPin == Effect(FALSE, e)
       IN /\ IF l1 = {} THEN TRUE
             ELSE PrintT(<<"V", id, l, "L1", l1>>) /\ Detail(id, newStart \cup newEnd \cup newLeaf \cup leaked)
          /\ strict' = (strict /\ Guard(TRUE, e))
          /\ et' = IF e.a = "Enter" THEN Append(et, e.tau) ELSE et
          /\ fix' = (fix /\ okFix)
          /\ pin' = (pin /\ okPin)
          /\ badl' = IF badl = 0 /\ ~(fix /\ okFix) /\ ~(pin /\ okPin) THEN l ELSE badl

(* what AsyncExecutor recorded for a whole request (context e.n) and for its sub-requests *)
SubRequests(n) == {m \in Ctxs : lpar[m] = n}
Sample(id, e) ==
    LET n    == e.n
        known == n \in Ctxs /\ hs[n] # Absent
        span == known => (e.rs = hs[n] /\ e.rs >= 0 /\ e.rs + e.st = he[n])
        dep  == (known /\ e.ok) =>
                  /\ Len(e.deps) = Cardinality(SubRequests(n))
                  /\ \A i \in 1..Len(e.deps) :
                        LET x == e.deps[i]
                        IN /\ x[4] = x[3] - x[2]
                           /\ x[1] # 0 => (x[1] \in SubRequests(n) /\ x[2] = hs[x[1]] /\ x[3] = he[x[1]])
                  /\ \A m \in SubRequests(n) :
                        Cardinality({i \in 1..Len(e.deps) : e.deps[i][2] = hs[m] /\ e.deps[i][3] = he[m]})
                          = Cardinality({k \in SubRequests(n) : hs[k] = hs[m] /\ he[k] = he[m]})
        \* the absolute time of a sub-request lies in that sub-request: not before its timing context was entered (e.g. while it
        \* was still queueing for a connection), not after its first wire request
        dated == (known /\ e.ok) =>
                   \A i \in 1..Len(e.deps) :
                      LET x == e.deps[i] IN x[1] \in 1..Len(et) => (et[x[1]] <= x[5] /\ x[5] <= x[2])
        \* "timings of different clients never influence each other": what was recorded for this request (and its sub-requests)
        \* is what is recorded when the same client executes the same requests with the same scripted latencies ALONE
        Triples(d) == [i \in 1..Len(d) |-> <<d[i][2], d[i][3], d[i][4]>>]
        alone == /\ e.solo[1] = e.rs /\ e.solo[2] = e.st
                 /\ Len(e.solodeps) = Len(e.deps)
                 /\ \A i \in 1..Len(e.deps) :
                       Cardinality({j \in 1..Len(e.deps) : Triples(e.deps)[j] = Triples(e.deps)[i]})
                         = Cardinality({j \in 1..Len(e.solodeps) : Triples(e.solodeps)[j] = Triples(e.deps)[i]})
        l1 == (IF span THEN {} ELSE {"SampleSpan"}) \cup (IF dep THEN {} ELSE {"DependentExact"})
              \cup (IF dated THEN {} ELSE {"DependentDated"}) \cup (IF alone THEN {} ELSE {"ClientIndependent"})
    IN /\ IF l1 = {} THEN TRUE ELSE PrintT(<<"V", id, l, "L1", l1>>)
       /\ UNCHANGED <<vars, fix, pin, badl, strict, et>>

Consume ==
    /\ tid <= Len(Traces)
    /\ l <= Len(Traces[tid].ev)
    /\ LET e  == Traces[tid].ev[l]
           id == Traces[tid].id
       IN IF e.a = "Sample" THEN Sample(id, e) /\ l' = l + 1
          ELSE IF Guard(FALSE, e) THEN Step(id, e) /\ l' = l + 1
          ELSE \* not an execution of any usage discipline the specification describes: harness error or unknown behaviour
               /\ PrintT(<<"V", id, l, "L2", {}>>)
               /\ UNCHANGED <<vars, fix, pin, strict, et>>
               /\ badl' = 0
               /\ l' = Len(Traces[tid].ev) + 1
    /\ nev' = nev + 1 /\ tid' = tid

NextTrace ==
    /\ tid <= Len(Traces)
    /\ l > Len(Traces[tid].ev)
    /\ IF fix \/ pin \/ badl = 0 THEN TRUE ELSE PrintT(<<"V", Traces[tid].id, badl, "L2", {}>>)
    /\ IF fix /\ strict THEN TRUE ELSE PrintT(<<"N", Traces[tid].id, fix, pin, strict>>)
    /\ Reset(IF tid < Len(Traces) THEN Range(Traces[tid + 1].roots) ELSE {})
    /\ tid' = tid + 1 /\ l' = 1 /\ nev' = nev /\ fix' = TRUE /\ pin' = TRUE /\ badl' = 0 /\ strict' = TRUE /\ et' = <<>>
    /\ IF tid < Len(Traces) THEN TRUE ELSE PrintT(<<"DONE", Len(Traces), nev>>)

TNext == Consume \/ NextTrace
TSpec == TInit /\ [][TNext]_tvars
=============================================================================
