\* two clients, 2 child tasks, depth 3
SPECIFICATION Spec
CONSTANTS
  Tasks <- T4
  Roots <- R2
  MaxCtx = 4
  MaxWire = 3
  MaxDepth = 3
  MaxKids = 2
  MaxChunks = 0
  MinMaxPropagation = TRUE
  StreamsAwaited = TRUE
VIEW view
INVARIANT TypeOK
INVARIANT PointerIsScope
INVARIANT SpanStart
INVARIANT SpanEnd
INVARIANT LeafExact
PROPERTY NoLeak
CHECK_DEADLOCK FALSE
