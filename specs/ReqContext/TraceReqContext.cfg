SPECIFICATION TSpec
CONSTANTS
  Tasks <- TraceTasks
  Roots <- NoTasks
  MaxCtx = 0
  MaxWire = 0
  MaxDepth = 0
  MaxKids = 0
  MaxChunks = 0
  MinMaxPropagation = TRUE
  StreamsAwaited = TRUE
CHECK_DEADLOCK FALSE
