---- MODULE MC_ReqContext ----
EXTENDS ReqContext
T3 == 1..3
T4 == 1..4
T5 == 1..5
T6 == 1..6
R1 == {1}
R2 == {1, 2}
Unbounded == -1
====
