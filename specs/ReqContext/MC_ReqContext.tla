---- MODULE MC_ReqContext ----
EXTENDS ReqContext
T3 == 1..3
T4 == 1..4
T5 == 1..5
T6 == 1..6
R1 == {1}
R2 == {1, 2}
Unbounded == -1
\* self-test helper for the as-written variant: every violation involves a None (violated by the out-of-order completion case)
ViolationsOnlyThroughNone == \A n \in BadSpanStart \cup BadSpanEnd \cup BadLeaf : ctx[n].s < 0 \/ ctx[n].e < 0
====
