\* two clients in one process (NoLeak), one child task, chunked responses
SPECIFICATION Spec
CONSTANTS
  Tasks <- T3
  Roots <- R2
  MaxCtx = 3
  MaxWire = 3
  MaxDepth = 2
  MaxKids = 1
  MaxChunks = 1
  MinMaxPropagation = TRUE
  StreamsAwaited = TRUE
VIEW view
INVARIANT TypeOK
INVARIANT PointerIsScope
INVARIANT SpanStart
INVARIANT SpanEnd
INVARIANT LeafExact
PROPERTY NoLeak
CHECK_DEADLOCK FALSE
