\* one client, up to 4 child tasks, for -simulate
SPECIFICATION Spec
CONSTANTS
  Tasks <- T5
  Roots <- R1
  MaxCtx = 7
  MaxWire = 7
  MaxDepth = 3
  MaxKids = 3
  MaxChunks = 1
  MinMaxPropagation = TRUE
  StreamsAwaited = TRUE
INVARIANT TypeOK
INVARIANT PointerIsScope
INVARIANT SpanStart
INVARIANT SpanEnd
INVARIANT LeafExact
INVARIANT Nesting
PROPERTY NoLeak
CHECK_DEADLOCK FALSE
