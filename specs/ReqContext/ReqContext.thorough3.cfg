\* chunked responses (on_request_end several times per wire request)
SPECIFICATION Spec
CONSTANTS
  Tasks <- T3
  Roots <- R1
  MaxCtx = 3
  MaxWire = 3
  MaxDepth = 3
  MaxKids = 2
  MaxChunks = 2
  MinMaxPropagation = TRUE
  StreamsAwaited = TRUE
VIEW view
INVARIANT TypeOK
INVARIANT PointerIsScope
INVARIANT SpanStart
INVARIANT SpanEnd
INVARIANT LeafExact
PROPERTY NoLeak
CHECK_DEADLOCK FALSE
