\* Wide configuration for -simulate (behaviours to be executed on the real code); the crash point is fixed by fuse.
SPECIFICATION SimSpec
CONSTANTS
  Retries = 10
  StrictLineCount = TRUE
  AtomicDecompress = FALSE
  AtomicVerifiedTable = FALSE
  DropTableOnRewrite = FALSE
  ValidateReusedTable = FALSE
  DetectTruncation = FALSE
  Fmts <- FmtsAll
  ToolModes <- ToolsAll
  NetModes <- NetAll
  Entries <- EntriesAll
  Outcomes <- OutcomesAll
  CrashKinds <- CrashAll
  InitDocs <- DocsAll
  InitArchs <- ArchsAll
  InitOffs <- OffsAll
  InitTmps <- TmpsAll
  ConsVals <- BoolAll
  FuseVals <- FuseSim
CHECK_DEADLOCK FALSE
