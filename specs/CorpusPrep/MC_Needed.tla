----------------------------- MODULE MC_Needed -----------------------------
EXTENDS Needed, TLC
MCFiles == {[c |-> "a", i |-> "i1", f |-> "a1"], [c |-> "a", i |-> "i2", f |-> "a2"], [c |-> "b", i |-> "i1", f |-> "b1"]}
Tasks == {t \in [corp : SUBSET {"a", "b"} \ {{}}, idx : {{"*"}, {"i1"}, {"i2"}, {"i1", "i2"}}] : Sel(MCFiles, t) # {}}
Elements == {<<t>> : t \in Tasks} \cup {<<t, u>> : t \in Tasks, u \in Tasks}
VARIABLES s, out, done
Init == /\ s \in {<<e>> : e \in Elements} \cup {<<e, g>> : e \in {<<t>> : t \in Tasks}, g \in Elements} \cup {<<e, g, h>> : e \in {<<t>> : t \in Tasks}, g \in {<<t>> : t \in Tasks}, h \in {<<t>> : t \in Tasks}}
        /\ out = {} /\ done = FALSE
Next == /\ ~done /\ out' = Code(MCFiles, s) /\ done' = TRUE /\ UNCHANGED s
Spec == Init /\ [][Next]_<<s, out, done>>
PropertyHolds == done => NeededComplete(MCFiles, s, out)
CodeExact == done => NeededExact(MCFiles, s, out)
=============================================================================
