----------------------------- MODULE CorpusPrep -----------------------------
(***************************************************************************)
(* Corpus preparation of elastic/rally as a file-system state machine with  *)
(* faults and crashes (property C14).                                       *)
(*                                                                         *)
(* Code: esrally/track/loader.py  DocumentSetPreparator.prepare_document_set*)
(*       / prepare_bundled_document_set, Downloader.download,               *)
(*       Decompressor.decompress; esrally/utils/net.py download /           *)
(*       download_http / _download_http; esrally/utils/io.py decompress and *)
(*       helpers, prepare_file_offset_table, FileOffsetTable.is_valid.      *)
(*                                                                         *)
(* One directory holds (at most) four files:                                *)
(*   doc   the document file        absent | empty | mid | last | full |    *)
(*                                  other                                   *)
(*         empty/mid/last are proper prefixes of the published document:    *)
(*         0 bytes / cut before its last line (fewer lines) / cut inside    *)
(*         its last line (same number of lines); other = an unrelated       *)
(*         complete file of different size and line count                   *)
(*   arch  the archive              absent | G (genuine) | Th, Te (truncated*)
(*         in the middle / shortly before the end) | J (not an archive) |   *)
(*         E (0 bytes)                                                      *)
(*   tmp   <target>.tmp             absent | stale (left by an earlier run) *)
(*                                  | open (written by this run)            *)
(*   off   the line-offset table    absent | X (complete table of the       *)
(*         published document) | part (a prefix of X cut between entries,   *)
(*         possibly empty) | O (table of `other`) | torn (cut inside an     *)
(*         entry: parses, wrong number) | bad (cut so that it does not      *)
(*         parse)                                                           *)
(*   newer mtime(off) >= mtime(doc)  (FALSE unless both exist)              *)
(*                                                                         *)
(* A machine state m is one run of the preparation: every step is either a  *)
(* decision or exactly one change of the directory, so that the sequence of *)
(* distinct fs values of a run is what an observer of the directory sees,   *)
(* and every state is a point where the process can die.                    *)
(***************************************************************************)
EXTENDS Integers, Sequences, FiniteSets, TLC

CONSTANTS Retries,            \* net.HTTP_DOWNLOAD_RETRIES (10)
          \* ---- behaviour switches: FALSE = what the code does today, TRUE = repaired
          StrictLineCount,     \* create_file_offset_table compares the line count also when it is 0
          AtomicDecompress,    \* decompression goes to a temporary name, renamed after verification
          AtomicVerifiedTable, \* the offset table is built under a temporary name and published after the line count matched
          DropTableOnRewrite,  \* whenever the document file is (re)written an existing offset table is removed
          ValidateReusedTable, \* an existing table is reused only if it is the complete table of the present file
          DetectTruncation     \* the zstandard library path reports a truncated frame

Absent == "absent"

Kind(f) == CASE f = "none" -> "none"
             [] f \in {"bz2", "gz", "zst"} -> "stream"
             [] f = "zip" -> "zip"
             [] OTHER -> "tar"

(* p = [fmt, tool, uDecl, cDecl, net, cons, entry]                                              *)
(*   tool  : external decompressor on PATH: none | ok | fail (exits 1 without output)            *)
(*   uDecl / cDecl : the track declares uncompressed-bytes / compressed-bytes                    *)
(*   net   : nourl | offline | online                                                            *)
(*   cons  : what the track declares (size, document-count) is what the published archive holds  *)
(*   entry : plain = prepare_document_set, bundled = prepare_bundled_document_set                *)
TDecl(p) == IF p.fmt = "none" THEN p.uDecl ELSE p.cDecl

(* further classes: doc = flip : size and line count of the published document, one byte of content differs;           *)
(*                  arch = C   : size of the genuine archive, one payload byte differs (gzip only): expands to flip and  *)
(*                               then fails the CRC check in the trailer                                                *)
SizeRightArch == {"G", "C"}
DocSizeRight(p, d) == d \in {"full", "flip"} /\ p.cons
LinesOK(p, d) == d \in {"full", "last", "flip"} /\ p.cons
TableFor(d) == CASE d \in {"full", "last", "flip"} -> "X" [] d = "other" -> "O" [] OTHER -> "part"
AsDoc(c) == CASE c = "G" -> "full" [] c = "Th" -> "mid" [] c = "Te" -> "last" [] c = "J" -> "other" [] OTHER -> "empty"
NextCls(d, goal) == CASE d = "empty" -> "mid" [] d = "mid" -> "last" [] OTHER -> (IF goal = "flip" THEN "flip" ELSE "full")

(***************************************************************************)
(* What the decompressors do with each archive class (facts about bz2,      *)
(* gzip, zstandard, zipfile, tarfile of Python 3.12 and the pigz / bzip2 /  *)
(* zstd binaries; part of the trusted base, re-observed by every            *)
(* conformance run).  out = how far the output gets, err = an exception is  *)
(* raised / the tool exits non-zero after that.                            *)
(***************************************************************************)
LibOut(f, a) ==
    CASE a = "G"  -> [out |-> "full", err |-> FALSE]
      [] a = "J"  -> [out |-> "empty", err |-> TRUE]
      [] a = "E"  -> [out |-> "empty", err |-> f = "bz2"]
      [] a = "C"  -> [out |-> "last", err |-> TRUE]     \* gzip raises on the read that reaches the trailer: the last chunk is not written
      [] a = "Th" -> [out |-> "mid", err |-> (f # "zst") \/ DetectTruncation]
      [] OTHER    -> [out |-> IF f = "bz2" THEN "mid" ELSE "last", err |-> (f # "zst") \/ DetectTruncation]

ToolOut(f, a) ==
    CASE a = "G"  -> [out |-> "full", err |-> FALSE]
      [] a = "C"  -> [out |-> "flip", err |-> TRUE]     \* pigz streams everything, then reports the crc mismatch (exit 1)
      [] a = "Th" -> [out |-> "mid", err |-> TRUE]
      [] a = "Te" -> [out |-> IF f = "bz2" THEN "mid" ELSE "last", err |-> TRUE]
      [] OTHER    -> [out |-> "empty", err |-> TRUE]

(* zipfile.ZipFile(...) / tarfile.open(...) are evaluated before anything is written: opens = FALSE => raises there *)
ContOut(f, a) ==
    IF Kind(f) = "zip"
    THEN [opens |-> a = "G", out |-> "full", err |-> FALSE]
    ELSE CASE a = "G"  -> [opens |-> TRUE, out |-> "full", err |-> FALSE]
           [] a = "Th" -> [opens |-> TRUE, out |-> "mid", err |-> TRUE]
           [] a = "Te" -> [opens |-> TRUE, out |-> IF f = "tar.bz2" THEN "mid" ELSE "last", err |-> TRUE]
           [] OTHER    -> [opens |-> FALSE, out |-> "empty", err |-> FALSE]

-----------------------------------------------------------------------------
(* machine states *)
Start(fs) == [pc |-> "loop", fs |-> fs, att |-> 0, cur |-> "-", dout |-> "-", exc |-> "-", res |-> "-",
              wrote |-> FALSE, seg |-> 1, steps |-> 0]

Terminal(m) == m.pc = "done"
Raise(m, e) == [m EXCEPT !.pc = "done", !.res = "raised", !.exc = e]
Return(m) == [m EXCEPT !.pc = "done", !.res = "returned"]
Decline(m) == [m EXCEPT !.pc = "done", !.res = "declined"]
Goto(m, l) == [m EXCEPT !.pc = l]

(* the decompressor writes the document (or, repaired, a temporary file) up to class c *)
Rewritten(fs, c) == IF DropTableOnRewrite THEN [fs EXCEPT !.doc = c, !.off = Absent, !.newer = FALSE]
                    ELSE [fs EXCEPT !.doc = c, !.newer = FALSE]
DW(m, c) == IF AtomicDecompress THEN [m EXCEPT !.dout = c]
            ELSE [m EXCEPT !.dout = c, !.fs = Rewritten(m.fs, c)]

BodyOutcomes == {"G", "Th", "Te", "J", "E"}

(* one step of the run; o = what the server does with the next request (used at pc = dl.attempt only) *)
StepRaw(p, m, o) ==
    LET fs == m.fs f == p.fmt IN
    CASE m.pc = "loop" ->
           IF p.entry = "plain" THEN
               IF fs.doc # Absent /\ (p.uDecl => DocSizeRight(p, fs.doc)) THEN Goto(m, "off.check")
               ELSE IF f # "none" /\ fs.arch # Absent /\ (p.cDecl => fs.arch \in SizeRightArch) THEN Goto(m, "dec.begin")
               ELSE Goto(m, "dl.begin")
           ELSE
               IF fs.doc # Absent THEN
                   IF p.uDecl => DocSizeRight(p, fs.doc) THEN Goto(m, "off.check") ELSE Raise(m, "DataError")
               ELSE IF f # "none" /\ fs.arch # Absent THEN
                   IF p.cDecl => fs.arch \in SizeRightArch THEN Goto(m, "dec.begin") ELSE Raise(m, "DataError")
               ELSE Decline(m)
      (* ---- Downloader.download / net.download / download_http / _download_http ---- *)
      [] m.pc = "dl.begin" ->
           IF DropTableOnRewrite /\ f = "none" /\ fs.off # Absent THEN [m EXCEPT !.fs.off = Absent, !.fs.newer = FALSE]
           ELSE IF p.net = "nourl" THEN Raise(m, "DataError")
           ELSE IF p.net = "offline" THEN Raise(m, "SystemSetupError")
           ELSE [m EXCEPT !.pc = "dl.attempt", !.att = 0]
      [] m.pc = "dl.attempt" ->      \* the request, then open(<target>.tmp, "wb")
           IF o = "refused" THEN [m EXCEPT !.pc = "dl.cleanup", !.exc = "NetError", !.cur = o]
           ELSE [m EXCEPT !.pc = "dl.body", !.cur = o, !.fs.tmp = "open"]
      [] m.pc = "dl.body" ->
           IF m.cur = "http" THEN [m EXCEPT !.pc = "dl.cleanup", !.exc = "DataError"]
           ELSE IF m.cur = "proto" THEN      \* ProtocolError / ReadTimeoutError: retried with a pause
               IF m.att = Retries THEN [m EXCEPT !.pc = "dl.cleanup", !.exc = "NetError"]
               ELSE [m EXCEPT !.pc = "dl.attempt", !.att = @ + 1]
           ELSE IF TDecl(p) => (m.cur \in SizeRightArch /\ (f = "none" => p.cons)) THEN Goto(m, "dl.rename")
           ELSE [m EXCEPT !.pc = "dl.cleanup", !.exc = "DataError"]
      [] m.pc = "dl.cleanup" -> Raise([m EXCEPT !.fs.tmp = Absent], m.exc)
      [] m.pc = "dl.rename" ->
           IF f = "none"
           THEN [m EXCEPT !.pc = "loop", !.fs = Rewritten([fs EXCEPT !.tmp = Absent], AsDoc(m.cur)), !.wrote = TRUE]
           ELSE [m EXCEPT !.pc = "loop", !.fs.tmp = Absent, !.fs.arch = m.cur, !.wrote = TRUE]
      (* ---- Decompressor.decompress / io.decompress ---- *)
      [] m.pc = "dec.begin" ->
           IF Kind(f) = "stream" THEN Goto(m, IF p.tool = "none" THEN "lib.open" ELSE "ext.open")
           ELSE IF ContOut(f, fs.arch).opens THEN Goto(m, "cont.open") ELSE Raise(m, "LibError")
      [] m.pc = "ext.open" -> Goto(DW(m, "empty"), "ext.run")
      [] m.pc = "ext.run" ->
           LET t == IF p.tool = "ok" THEN ToolOut(f, fs.arch) ELSE [out |-> "empty", err |-> TRUE]
           IN Goto(DW(m, t.out), IF t.err THEN "lib.open" ELSE "dec.check")
      [] m.pc = "lib.open" -> Goto(DW(m, "empty"), "lib.write")
      [] m.pc = "lib.write" ->
           LET g == LibOut(f, fs.arch)
           IN IF m.dout = g.out THEN (IF g.err THEN Raise(m, "LibError") ELSE Goto(m, "dec.check"))
              ELSE DW(m, NextCls(m.dout, g.out))
      [] m.pc = "cont.open" -> Goto(DW(m, "empty"), "cont.write")
      [] m.pc = "cont.write" ->
           LET g == ContOut(f, fs.arch)
           IN IF m.dout = g.out
              THEN (IF g.err THEN Raise(m, "LibError") ELSE Goto(m, IF Kind(f) = "tar" THEN "cont.meta" ELSE "dec.check"))
              ELSE DW(m, NextCls(m.dout, g.out))
      [] m.pc = "cont.meta" ->       \* tarfile restores the member's (old) mtime
           IF AtomicDecompress THEN Goto(m, "dec.check")
           ELSE [m EXCEPT !.pc = "dec.check", !.fs.newer = (fs.off # Absent)]
      [] m.pc = "dec.check" ->
           IF p.uDecl /\ ~DocSizeRight(p, m.dout) THEN Raise(m, "DataError")
           ELSE IF AtomicDecompress
                THEN IF DropTableOnRewrite /\ fs.off # Absent THEN [m EXCEPT !.fs.off = Absent, !.fs.newer = FALSE]
                     ELSE       \* the rename keeps the (old, for tar) mtime of the extracted file
                          [m EXCEPT !.pc = "loop", !.fs.doc = m.dout, !.fs.newer = (Kind(f) = "tar" /\ fs.off # Absent)]
                ELSE Goto(m, "loop")
      (* ---- create_file_offset_table / io.prepare_file_offset_table ---- *)
      [] m.pc = "off.check" ->
           IF fs.off # Absent /\ fs.newer /\ (ValidateReusedTable => fs.off = TableFor(fs.doc)) THEN Return(m)
           ELSE Goto(m, "off.open")
      [] m.pc = "off.open" ->
           IF AtomicVerifiedTable THEN Goto(m, "off.close")
           ELSE [m EXCEPT !.pc = "off.close", !.fs.off = "part", !.fs.newer = TRUE]
      [] m.pc = "off.close" ->
           LET m2 == [m EXCEPT !.fs.off = TableFor(fs.doc), !.fs.newer = TRUE]
               mismatch == IF StrictLineCount THEN ~LinesOK(p, fs.doc) ELSE (fs.doc # "empty" /\ ~LinesOK(p, fs.doc))
           IN IF AtomicVerifiedTable \* repaired: the table gets its name only after the line count was verified
              THEN (IF mismatch THEN Raise(m, "DataError") ELSE Return(m2))
              ELSE (IF mismatch THEN Goto(m2, "off.rm") ELSE Return(m2))
      [] m.pc = "off.rm" -> Raise([m EXCEPT !.fs.off = Absent, !.fs.newer = FALSE], "DataError")
      [] OTHER -> m

Step(p, m, o) ==
    LET n == StepRaw(p, m, o)
    IN [n EXCEPT !.seg = IF n.fs # m.fs THEN m.seg + 1 ELSE m.seg, !.steps = m.steps + 1]

NeedsOutcome(m) == m.pc = "dl.attempt"

(***************************************************************************)
(* The process dies in state m.                                             *)
(*   kill : nothing else happens; the directory stays as it is.             *)
(*   intr : an exception is raised at the point of execution (Ctrl-C):      *)
(*          net.download removes the temporary file (except BaseException), *)
(*          io._do_decompress turns it into a RuntimeError, `with` blocks   *)
(*          close (= flush) the files they opened.                          *)
(* Result: set of [res, exc, fs] the run can end with.                      *)
(***************************************************************************)
Flushed(q, mm) ==      \* closing the half-written document flushes what was still buffered: it may reach the next class
    LET goal == IF mm.pc = "lib.write" THEN LibOut(q.fmt, mm.fs.arch).out ELSE ContOut(q.fmt, mm.fs.arch).out
    IN {mm.fs} \cup (IF ~AtomicDecompress /\ mm.pc \in {"lib.write", "cont.write"} /\ mm.dout # goal
                     THEN {[mm.fs EXCEPT !.doc = NextCls(mm.dout, goal)]} ELSE {})

Leftovers(q, mm, kind) ==
    IF kind = "kill" THEN {[res |-> "crashed", exc |-> "-", fs |-> mm.fs]}
    ELSE IF mm.pc \in {"dl.attempt", "dl.body"} THEN {[res |-> "crashed", exc |-> "-", fs |-> [mm.fs EXCEPT !.tmp = Absent]]}
    ELSE IF mm.pc \in {"cont.open", "cont.write", "cont.meta"} THEN {[res |-> "raised", exc |-> "LibError", fs |-> x] : x \in Flushed(q, mm)}
    ELSE IF mm.pc = "dec.check" /\ Kind(q.fmt) \in {"zip", "tar"}     \* extractall() may still be winding up
         THEN {[res |-> "raised", exc |-> "LibError", fs |-> mm.fs], [res |-> "crashed", exc |-> "-", fs |-> mm.fs]}
    ELSE IF mm.pc = "lib.write" THEN {[res |-> "crashed", exc |-> "-", fs |-> x] : x \in Flushed(q, mm)}
    ELSE IF mm.pc = "off.close" /\ ~AtomicVerifiedTable
         THEN {[res |-> "crashed", exc |-> "-", fs |-> [mm.fs EXCEPT !.off = t, !.newer = TRUE]] : t \in {mm.fs.off, TableFor(mm.fs.doc)}}
    ELSE {[res |-> "crashed", exc |-> "-", fs |-> mm.fs]}

(* the next run finds what the previous one left; a temporary file written by it is now a stale one *)
Settle(fs) == [fs EXCEPT !.tmp = IF @ = "open" THEN "stale" ELSE @]

-----------------------------------------------------------------------------
(* Model: initial state, then a first run that ends by itself or is crashed, then a second, fresh run. *)
CONSTANTS Fmts, ToolModes, NetModes, Entries, Outcomes, CrashKinds, InitDocs, InitArchs, InitOffs, InitTmps, ConsVals,
          FuseVals     \* {-1}: the first run can be crashed in any state (model checking); n >= 0: exactly after n steps
                       \* (simulation: spreads the crash points evenly over the run)

VARIABLES p, m, run, fuse, act
vars == <<p, m, run, fuse, act>>
view == <<p, m, run, fuse>>

Params == {q \in [fmt : Fmts, tool : ToolModes, uDecl : BOOLEAN, cDecl : BOOLEAN, net : NetModes, cons : ConsVals, entry : Entries] :
              /\ (Kind(q.fmt) # "stream" => q.tool = "none")
              /\ (q.fmt = "none" => ~q.cDecl)}

(***************************************************************************)
(* Domain of initial states (what the statement quantifies over, minus what *)
(* no implementation could tell apart without checksums, see assumptions):  *)
(* a document file whose size is not declared is either missing or genuine; *)
(* `other`/partial documents are wrong-sized relative to a DECLARED size.   *)
(* Partial documents of undeclared size are reached through crashes.        *)
(***************************************************************************)
InDomain(q, fs) ==
    /\ fs.doc \in InitDocs /\ fs.arch \in InitArchs /\ fs.off \in InitOffs /\ fs.tmp \in InitTmps
    /\ (fs.doc \notin {Absent, "full"} => q.uDecl)
    /\ (q.fmt = "none" => fs.arch = Absent)
    /\ (Kind(q.fmt) \in {"zip"} => fs.arch # "Te")
    /\ (fs.arch = "C" => q.fmt = "gz")
    /\ (fs.newer => fs.doc # Absent /\ fs.off # Absent)

InitFs(q) == {fs \in [doc : InitDocs, arch : InitArchs, tmp : InitTmps, off : InitOffs, newer : BOOLEAN] : InDomain(q, fs)}

(* a complete exchange that delivers something else than the genuine file is only told apart by a declared size,  *)
(* by the archive format, or by the line count: for an uncompressed corpus of undeclared size a body cut inside    *)
(* the last line is indistinguishable from the published file and is excluded                                     *)
OutcomeAllowed(q, o) == ~(q.fmt = "none" /\ ~q.uDecl /\ o = "Te") /\ (o = "C" => q.fmt = "gz")

Init == /\ p \in Params
        /\ \E fs \in InitFs(p) : m = Start(fs)
        /\ run = 1
        /\ fuse \in FuseVals
        /\ act = [name |-> "Init", arg |-> "-"]

DoStep == /\ ~Terminal(m)
          /\ (run = 1 /\ fuse >= 0) => m.steps # fuse
          /\ IF NeedsOutcome(m)
             THEN \E o \in Outcomes : /\ OutcomeAllowed(p, o)
                                      /\ m' = Step(p, m, o)
                                      /\ act' = [name |-> "Attempt", arg |-> o]
             ELSE /\ m' = Step(p, m, "-")
                  /\ act' = [name |-> "Step", arg |-> m.pc]
          /\ UNCHANGED <<p, run, fuse>>

Crash == /\ run = 1 /\ ~Terminal(m)
         /\ fuse = -1 \/ fuse = m.steps
         /\ \E k \in CrashKinds : \E l \in Leftovers(p, m, k) :
               /\ m' = [m EXCEPT !.pc = "done", !.res = l.res, !.exc = l.exc, !.fs = l.fs]
               /\ act' = [name |-> "Crash", arg |-> k]
         /\ UNCHANGED <<p, run, fuse>>

Restart == /\ run = 1 /\ Terminal(m)
           /\ m' = Start(Settle(m.fs))
           /\ run' = 2
           /\ act' = [name |-> "Restart", arg |-> "-"]
           /\ UNCHANGED <<p, fuse>>

Next == DoStep \/ Crash \/ Restart
Spec == Init /\ [][Next]_vars

(* the same behaviours with the initial choices made in three small steps (TLC -simulate enumerates all successors of a state) *)
SimInit == /\ p \in Params /\ m = [pc |-> "setup"] /\ run = 0 /\ fuse = -1 /\ act = [name |-> "Init", arg |-> "-"]
SimSetup == /\ run = 0
            /\ \/ /\ m.pc = "setup"
                  /\ \E fs \in InitFs(p) : m' = Start(fs)
                  /\ UNCHANGED <<p, run, fuse>>
               \/ /\ m.pc = "loop"
                  /\ \E f \in FuseVals : fuse' = f
                  /\ run' = 1
                  /\ UNCHANGED <<p, m>>
            /\ act' = [name |-> "Setup", arg |-> "-"]
SimSpec == SimInit /\ [][SimSetup \/ (run > 0 /\ Next)]_vars

-----------------------------------------------------------------------------
(* PROPERTY C14 *)

(* after preparation returns: the document exists with the declared size and the published content, together with an *)
(* offset table that positions exactly (a table that is a prefix of the complete one between entries does)           *)
OffsetsCorrectFor(d, t) == (d \in {"full", "last", "flip"} /\ t \in {"X", "part"}) \/ (d \in {"empty", "mid"} /\ t = "part") \/ (d = "other" /\ t \in {"O", "part"})
Post(q, fs) == /\ fs.doc = "full"
               /\ (q.uDecl => q.cons)
               /\ fs.off # Absent /\ OffsetsCorrectFor(fs.doc, fs.off)

ReturnedOK == (Terminal(m) /\ m.res = "returned") => Post(p, m.fs)

(* every run ends, and ends by returning, declining (bundled: "not here") or raising *)
MaxSteps == 3 * (Retries + 1) + 24
Terminates == m.steps <= MaxSteps
ExplicitEnd == Terminal(m) => m.res \in {"returned", "declined", "raised", "crashed"}

(* a file under the final name that was put there by a download is complete and verified *)
Target(q, fs) == IF q.fmt = "none" THEN fs.doc ELSE fs.arch
NoPartialFinal == m.wrote => (TDecl(p) => (IF p.fmt = "none" THEN Target(p, m.fs) = "full" ELSE Target(p, m.fs) \in SizeRightArch))

(* the violations of ReturnedOK that the CURRENT code is known to have (all switches FALSE); used to show that there are no others *)
PartialDocAccepted(q, fs) == ~q.uDecl /\ fs.doc \in {"empty", "mid", "last", "other"}
BadTableTrusted(q, fs) == fs.doc = "full" /\ fs.off \in {"torn", "bad", "O"}
(* a document of the right size with wrong content is under the final name only between the end of a failing external tool and *)
(* the library fall-back (a crash exactly there leaves it): same root cause as PartialDocAccepted, also with a declared size    *)
CorruptPayloadLeft(q, fs) == fs.doc = "flip"
ReturnedOKModuloKnown == ReturnedOK \/ PartialDocAccepted(p, m.fs) \/ BadTableTrusted(p, m.fs) \/ CorruptPayloadLeft(p, m.fs)
=============================================================================
