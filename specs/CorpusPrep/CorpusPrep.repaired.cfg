\* All repairs switched on: the property holds without exception (shows that L1 is satisfiable and which repairs it needs).
SPECIFICATION Spec
CONSTANTS
  Retries = 10
  StrictLineCount = TRUE
  AtomicDecompress = TRUE
  AtomicVerifiedTable = TRUE
  DropTableOnRewrite = TRUE
  ValidateReusedTable = TRUE
  DetectTruncation = TRUE
  Fmts <- FmtsQuick
  ToolModes <- ToolsTwo
  NetModes <- NetOn
  Entries <- EntriesPlain
  Outcomes <- OutcomesAll
  CrashKinds <- CrashAll
  InitDocs <- DocsAll
  InitArchs <- ArchsAll
  InitOffs <- OffsAll
  InitTmps <- TmpsNone
  ConsVals <- TrueOnly
  FuseVals <- FuseAny
VIEW view
INVARIANT ReturnedOK
INVARIANT Terminates
INVARIANT ExplicitEnd
INVARIANT NoPartialFinal
CHECK_DEADLOCK FALSE
