---- MODULE MC_CorpusPrep ----
EXTENDS CorpusPrep
FmtsQuick == {"none", "gz", "zst", "zip", "tar.gz"}
FmtsAll == {"none", "bz2", "gz", "zst", "zip", "tar", "tar.gz", "tgz", "tar.bz2"}
ToolsAll == {"none", "ok", "fail"}
NetAll == {"nourl", "offline", "online"}
EntriesAll == {"plain", "bundled"}
EntriesPlain == {"plain"}
OutcomesAll == {"G", "Th", "Te", "J", "E", "C", "http", "proto", "refused"}
CrashAll == {"kill", "intr"}
DocsAll == {"absent", "empty", "mid", "last", "full", "other"}
ArchsAll == {"absent", "G", "Th", "Te", "J", "E", "C"}
OffsAll == {"absent", "X", "part", "O", "torn", "bad"}
TmpsAll == {"absent", "stale"}
TmpsNone == {"absent"}
BoolAll == {TRUE, FALSE}
TrueOnly == {TRUE}
FuseAny == {-1}
FuseSim == 0..34
FmtsB == {"gz", "zip"}
NetOn == {"online", "nourl"}
ToolsTwo == {"none", "ok"}
DocsB == {"absent", "mid", "full"}
ArchsB == {"absent", "G", "Th", "E", "C"}
OffsB == {"absent", "X", "torn"}
====
