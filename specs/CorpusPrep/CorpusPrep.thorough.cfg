\* The code as it is, every format, tool mode, entry point, declaration and initial state.
SPECIFICATION Spec
CONSTANTS
  Retries = 10
  StrictLineCount = TRUE
  AtomicDecompress = FALSE
  AtomicVerifiedTable = FALSE
  DropTableOnRewrite = FALSE
  ValidateReusedTable = FALSE
  DetectTruncation = FALSE
  Fmts <- FmtsAll
  ToolModes <- ToolsAll
  NetModes <- NetAll
  Entries <- EntriesAll
  Outcomes <- OutcomesAll
  CrashKinds <- CrashAll
  InitDocs <- DocsAll
  InitArchs <- ArchsAll
  InitOffs <- OffsAll
  InitTmps <- TmpsAll
  ConsVals <- BoolAll
  FuseVals <- FuseAny
VIEW view
INVARIANT ReturnedOKModuloKnown
INVARIANT Terminates
INVARIANT ExplicitEnd
INVARIANT NoPartialFinal
CHECK_DEADLOCK FALSE
