SPECIFICATION Spec
CONSTANTS
  UnionAcrossItems = FALSE
INVARIANT PropertyHolds
CHECK_DEADLOCK FALSE
