\* Self-test: with the behaviour of the current code the property ReturnedOK is violated in the model.
SPECIFICATION Spec
CONSTANTS
  Retries = 10
  StrictLineCount = FALSE
  AtomicDecompress = FALSE
  AtomicVerifiedTable = FALSE
  DropTableOnRewrite = FALSE
  ValidateReusedTable = FALSE
  DetectTruncation = FALSE
  Fmts <- FmtsQuick
  ToolModes <- ToolsTwo
  NetModes <- NetOn
  Entries <- EntriesPlain
  Outcomes <- OutcomesAll
  CrashKinds <- CrashAll
  InitDocs <- DocsAll
  InitArchs <- ArchsAll
  InitOffs <- OffsAll
  InitTmps <- TmpsNone
  ConsVals <- TrueOnly
  FuseVals <- FuseAny
VIEW view
INVARIANT ReturnedOK
INVARIANT Terminates
INVARIANT ExplicitEnd
INVARIANT NoPartialFinal
CHECK_DEADLOCK FALSE
