SPECIFICATION Spec
CONSTANTS
  UnionAcrossItems = TRUE
INVARIANT PropertyHolds
INVARIANT CodeExact
CHECK_DEADLOCK FALSE
