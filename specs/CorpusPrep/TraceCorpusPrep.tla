-------------------------- MODULE TraceCorpusPrep --------------------------
(***************************************************************************)
(* Validates recorded executions of the real corpus preparation             *)
(* (DocumentSetPreparator + Downloader + Decompressor + net.download +      *)
(* io.decompress + io.prepare_file_offset_table on real files) against      *)
(* CorpusPrep.tla.  Input (env VERIF_TRACES): JSON array of items           *)
(*   [id, p, init, runs: << [outs, crash: [kind, seg], end, exc, fs, offOK, *)
(*                           traj, tgt, nreq, sleeps] >>]                   *)
(* p/init as in CorpusPrep; one element of runs per preparation run in the  *)
(* same directory (the next run starts from what the previous one left).    *)
(*   outs  : what the scripted server does with the successive requests     *)
(*   crash : none | kill | intr injected while the observed directory was   *)
(*           in its seg-th distinct state                                   *)
(*   traj  : the distinct directory states observed, in order (projection)  *)
(*   fs    : the directory afterwards (by content), offOK = seek            *)
(*           equivalence of the offset table for every line of the document *)
(*   tgt   : distinct exact size classes seen under the download's final    *)
(*           name (odd = none of the complete files)                        *)
(* L1 = the property on what was recorded; L2 = the recorded run is the     *)
(* run of the specification.                                                *)
(***************************************************************************)
EXTENDS CorpusPrep, Json, IOUtils

Items == JsonDeserialize(IOEnv.VERIF_TRACES)
TFuse == {-1}

VARIABLES i
TInit == i = 1 /\ p = [fmt |-> "-"] /\ m = [pc |-> "-"] /\ run = 0 /\ fuse = -1 /\ act = [name |-> "-"]

RECURSIVE Traj(_, _, _, _)
Traj(q, mm, outs, acc) ==
    IF Terminal(mm) \/ Len(acc) > 120 THEN Append(acc, mm)
    ELSE IF NeedsOutcome(mm)
         THEN Traj(q, Step(q, mm, IF outs = <<>> THEN "G" ELSE Head(outs)), IF outs = <<>> THEN outs ELSE Tail(outs), Append(acc, mm))
         ELSE Traj(q, Step(q, mm, "-"), outs, Append(acc, mm))

RECURSIVE Dedupe(_)
Dedupe(s) == IF Len(s) <= 1 THEN s
             ELSE LET r == Dedupe(Tail(s)) IN IF Head(s) = Head(r) THEN r ELSE <<Head(s)>> \o r

FsSeq(mt) == [k \in 1..Len(mt) |-> mt[k].fs]
Attempts(mt) == Cardinality({k \in 1..Len(mt) : mt[k].pc = "dl.attempt"})
Pauses(mt) == Cardinality({k \in 2..Len(mt) : mt[k].pc = "dl.attempt" /\ mt[k].att > 0})

Core(r) == [doc |-> r.doc, arch |-> r.arch, tmp |-> r.tmp, off |-> r.off, newer |-> r.newer]

L1Run(q, r) ==
    LET ret == r.end = "returned" => (/\ r.fs.doc = "full"
                                      /\ (q.uDecl => q.cons)
                                      /\ r.fs.off # Absent
                                      /\ r.offOK)
        ends == /\ r.end \in {"returned", "declined", "raised", "crashed"}
                /\ (r.end = "crashed" => r.crash.kind # "none")
                /\ (r.end = "declined" => q.entry = "bundled")
        nop == \A k \in 2..Len(r.tgt) : /\ r.tgt[k] # "odd"
                                         /\ (TDecl(q) => r.tgt[k] \in {"G", "C", Absent})
    IN (IF ret THEN {} ELSE {"ReturnedOK"}) \cup (IF ends THEN {} ELSE {"ExplicitEnd"}) \cup (IF nop THEN {} ELSE {"NoPartialFinal"})

L2Run(q, pre, r) ==
    LET mt == Traj(q, Start(pre), r.outs, <<>>)
        last == mt[Len(mt)]
        rec == [res |-> r.end, exc |-> r.exc, fs |-> Core(r.fs)]
        mfs == Dedupe(FsSeq(mt))
    IN IF r.crash.kind = "none"
       THEN /\ Terminal(last)
            /\ mfs = r.traj
            /\ last.res = r.end /\ last.exc = r.exc /\ last.fs = Core(r.fs)
            /\ Attempts(mt) = r.nreq /\ Pauses(mt) = r.sleeps
       ELSE LET cands == UNION {Leftovers(q, mt[k], r.crash.kind) : k \in {j \in 1..Len(mt) : ~Terminal(mt[j]) /\ mt[j].seg = r.crash.seg}}
            IN /\ rec \in cands
               /\ r.crash.seg <= Len(mfs) /\ r.crash.seg <= Len(r.traj)
               /\ SubSeq(mfs, 1, r.crash.seg) = SubSeq(r.traj, 1, r.crash.seg)

RECURSIVE CheckRuns(_, _, _, _)
CheckRuns(it, pre, k, ok) ==
    IF k > Len(it.runs) THEN ok
    ELSE LET r == it.runs[k]
             l1 == L1Run(it.p, r)
             l2 == L2Run(it.p, pre, r)
             a == IF l1 = {} THEN TRUE ELSE PrintT(<<"V", it.id, k, "L1", l1>>)
             b == IF l1 # {} \/ l2 THEN TRUE ELSE PrintT(<<"V", it.id, k, "L2", {}>>)
         IN CheckRuns(it, Settle(Core(r.fs)), k + 1, ok /\ a /\ b)

Check(it) ==
    /\ IF InDomain(it.p, it.init) /\ (it.p \in Params) THEN TRUE ELSE PrintT(<<"V", it.id, 0, "L2", {"out of domain"}>>)
    /\ CheckRuns(it, it.init, 1, TRUE)

TNext == /\ i <= Len(Items)
         /\ Check(Items[i])
         /\ i' = i + 1
         /\ IF i < Len(Items) THEN TRUE ELSE PrintT(<<"DONE", Len(Items), Len(Items)>>)
         /\ UNCHANGED vars

TSpec == TInit /\ [][TNext]_<<vars, i>>
=============================================================================
