SPECIFICATION TSpec
CONSTANTS
  Retries = 10
  StrictLineCount = TRUE
  AtomicDecompress = FALSE
  AtomicVerifiedTable = FALSE
  DropTableOnRewrite = FALSE
  ValidateReusedTable = FALSE
  DetectTruncation = FALSE
  Fmts = {"none", "bz2", "gz", "zst", "zip", "tar", "tar.gz", "tgz", "tar.bz2"}
  ToolModes = {"none", "ok", "fail"}
  NetModes = {"nourl", "offline", "online"}
  Entries = {"plain", "bundled"}
  Outcomes = {"G", "Th", "Te", "J", "E", "C", "http", "proto", "refused"}
  CrashKinds = {"kill", "intr"}
  InitDocs = {"absent", "empty", "mid", "last", "full", "other"}
  InitArchs = {"absent", "G", "Th", "Te", "J", "E", "C"}
  InitOffs = {"absent", "X", "part", "O", "torn", "bad"}
  InitTmps = {"absent", "stale"}
  ConsVals = {TRUE, FALSE}
  FuseVals <- TFuse
CHECK_DEADLOCK FALSE
