\* The code as it is (all switches FALSE): every behaviour satisfies the property except for the known defect classes.
\* prepare_document_set, consistent track declaration; everything else full.
SPECIFICATION Spec
CONSTANTS
  Retries = 10
  StrictLineCount = TRUE
  AtomicDecompress = FALSE
  AtomicVerifiedTable = FALSE
  DropTableOnRewrite = FALSE
  ValidateReusedTable = FALSE
  DetectTruncation = FALSE
  Fmts <- FmtsQuick
  ToolModes <- ToolsTwo
  NetModes <- NetOn
  Entries <- EntriesPlain
  Outcomes <- OutcomesAll
  CrashKinds <- CrashAll
  InitDocs <- DocsAll
  InitArchs <- ArchsAll
  InitOffs <- OffsAll
  InitTmps <- TmpsNone
  ConsVals <- TrueOnly
  FuseVals <- FuseAny
VIEW view
INVARIANT ReturnedOKModuloKnown
INVARIANT Terminates
INVARIANT ExplicitEnd
INVARIANT NoPartialFinal
CHECK_DEADLOCK FALSE
