SPECIFICATION TSpec
CONSTANTS
  UnionAcrossItems = TRUE
CHECK_DEADLOCK FALSE
