\* Second quick configuration: bundled entry point, inconsistent declarations, offline mode, failing tools, stale
\* temporary files - on reduced sets of formats and initial states.
SPECIFICATION Spec
CONSTANTS
  Retries = 10
  StrictLineCount = TRUE
  AtomicDecompress = FALSE
  AtomicVerifiedTable = FALSE
  DropTableOnRewrite = FALSE
  ValidateReusedTable = FALSE
  DetectTruncation = FALSE
  Fmts <- FmtsB
  ToolModes <- ToolsAll
  NetModes <- NetAll
  Entries <- EntriesAll
  Outcomes <- OutcomesAll
  CrashKinds <- CrashAll
  InitDocs <- DocsB
  InitArchs <- ArchsB
  InitOffs <- OffsB
  InitTmps <- TmpsAll
  ConsVals <- BoolAll
  FuseVals <- FuseAny
VIEW view
INVARIANT ReturnedOKModuloKnown
INVARIANT Terminates
INVARIANT ExplicitEnd
INVARIANT NoPartialFinal
CHECK_DEADLOCK FALSE
