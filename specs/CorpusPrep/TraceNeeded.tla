---------------------------- MODULE TraceNeeded ----------------------------
(* Validates recorded runs of the real loader.used_corpora / DefaultTrackPreparator.on_prepare_track (env VERIF_TRACES: JSON     *)
(* array of items [id, files, s, prepared]); L1 = NeededComplete, L2 = the prepared set is the transcription's.                 *)
EXTENDS Needed, Json, IOUtils, TLC
Items == JsonDeserialize(IOEnv.VERIF_TRACES)
ToSet(q) == {q[j] : j \in 1..Len(q)}
VARIABLES i
NormTask(t) == [corp |-> ToSet(t.corp), idx |-> ToSet(t.idx)]
NormSched(s) == [e \in 1..Len(s) |-> [k \in 1..Len(s[e]) |-> NormTask(s[e][k])]]
Check(it) ==
    LET F == ToSet(it.files)
        s == NormSched(it.s)
        p == ToSet(it.prepared)
        l1 == IF NeededComplete(F, s, p) THEN {} ELSE {"NeededComplete"}
        l2 == p = Code(F, s)
    IN /\ IF l1 = {} THEN TRUE ELSE PrintT(<<"V", it.id, 1, "L1", l1>>)
       /\ IF l1 # {} \/ l2 THEN TRUE ELSE PrintT(<<"V", it.id, 1, "L2", {}>>)
TInit == i = 1
TNext == /\ i <= Len(Items)
         /\ Check(Items[i])
         /\ i' = i + 1
         /\ IF i < Len(Items) THEN TRUE ELSE PrintT(<<"DONE", Len(Items), Len(Items)>>)
TSpec == TInit /\ [][TNext]_i
=============================================================================
