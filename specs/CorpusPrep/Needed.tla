------------------------------- MODULE Needed -------------------------------
(***************************************************************************)
(* C14, "every document file the challenge needs": WHICH document files   *)
(* corpus preparation is asked to provide (esrally.track.loader            *)
(* used_corpora -> DefaultTrackPreparator.on_prepare_track).               *)
(* F: set of document files [c |-> corpus, i |-> target index, f |-> name].*)
(* A schedule is a sequence of elements, an element a sequence of bulk     *)
(* tasks [corp |-> set of corpus names, idx |-> set of indices or {"*"}].  *)
(* Function-like: Needed is the statement, Code the transcription.         *)
(***************************************************************************)
EXTENDS Naturals, Sequences, FiniteSets
CONSTANT UnionAcrossItems   \* TRUE = /repo: document sets of a corpus are united over ALL schedule items;
                            \* FALSE = a later schedule item replaces the corpus entry (self-test)

Sel(F, task) == {x \in F : x.c \in task.corp /\ ("*" \in task.idx \/ x.i \in task.idx)}
TasksOf(s) == UNION {{s[e][k] : k \in 1..Len(s[e])} : e \in 1..Len(s)}
Needed(F, s) == UNION {Sel(F, t) : t \in TasksOf(s)}

CorporaOf(F) == {x.c : x \in F}
ItemCorpora(F, el) == [c \in CorporaOf(F) |-> UNION {{x \in Sel(F, el[k]) : x.c = c} : k \in 1..Len(el)}]
RECURSIVE Fold(_, _, _, _)
Fold(F, s, e, acc) ==
    IF e > Len(s) THEN acc
    ELSE LET ic == ItemCorpora(F, s[e])
         IN Fold(F, s, e + 1, [c \in DOMAIN acc |-> IF UnionAcrossItems THEN acc[c] \cup ic[c]
                                                     ELSE IF ic[c] # {} THEN ic[c] ELSE acc[c]])
Code(F, s) == LET m == Fold(F, s, 1, [c \in CorporaOf(F) |-> {}]) IN UNION {m[c] : c \in DOMAIN m}

NeededComplete(F, s, prepared) == Needed(F, s) \subseteq prepared      \* the statement (L1)
NeededExact(F, s, prepared) == prepared = Needed(F, s)                 \* nothing else is prepared (L2 with Code)
=============================================================================
