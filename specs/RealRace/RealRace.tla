------------------------------ MODULE RealRace ------------------------------
(***************************************************************************)
(* A race of the load driver as it is seen through the trace hooks of      *)
(* esrally/utils/veriftrace.py (ESRALLY_VERIF_TRACE): one driver process   *)
(* and NW worker processes under the real Thespian actor system.  Every    *)
(* action of this module is one hook event ("after the state change").     *)
(*                                                                         *)
(* Steps are numbered 0..NJ-1, join points 0..NJ: step k lies between join *)
(* point k and join point k+1; join point 0 is the artificial one every    *)
(* worker reports right after StartWorker.                                 *)
(*                                                                         *)
(* Each event is split into                                                *)
(*   E_x : the EFFECT (what the event does to the abstract state, incl.    *)
(*         the FIFO channels between driver and workers; a receive is only *)
(*         possible when the message is the head of its channel) and the   *)
(*         L1 clauses the event must satisfy (names collected in `viol`);  *)
(*         clauses read process-local history only, everything across      *)
(*         processes is decided by the channels;                           *)
(*   G_x : the GUARD = when the code as it is performs the event (L2).     *)
(* The model is Next == \E event : G_x /\ E_x; trace validation applies    *)
(* E_x to the logged events in any causally possible order and records     *)
(* where G_x does not hold (TraceRealRace.tla).                            *)
(***************************************************************************)
EXTENDS Integers, Sequences, FiniteSets, TLC

CONSTANTS
    NW,          \* number of workers, ids 0..NW-1
    NJ,          \* id of the last join point = number of steps
    CB,          \* CB[k+1] \in {"none","task","any"}: completed-by kind of step k
    CBW,         \* CBW[k+1]: workers hosting the clients of the completing task of step k
    Rows,        \* Rows[w+1][k+1]: number of non-empty task rows of worker w in step k
    CpRow,       \* CpRow[w+1][k+1][r]: row r contains a task that completes its parent (its executor sets the worker's
                 \* complete flag itself when it ends: the worker skips its remaining rows of the step)
    MaxBatches,  \* model only: sample batches a worker may send per task row
    Slack,       \* switch: the driver moves on when at most Slack workers are missing (0 = the code)
    DropLast     \* switch: the worker drops the batch it drains at a join point (FALSE = the code)

Workers == 0 .. NW - 1
Steps == 0 .. NJ - 1
CBof(s) == IF s \in Steps THEN CB[s + 1] ELSE "none"
CBWof(s) == IF s \in Steps THEN CBW[s + 1] ELSE {}
RowsOf(w, s) == IF s \in Steps THEN Rows[w + 1][s + 1] ELSE 0
CpOf(w, s, r) == IF s \in Steps /\ r \in 1 .. Len(CpRow[w + 1][s + 1]) THEN CpRow[w + 1][s + 1][r] ELSE FALSE

VARIABLES
    \* driver (model state)
    started, dstep, atJoin, pend, compSent, dpc,
    \* driver (history the L1 clauses read)
    joined,     \* joined[w]: last join point w reported to the driver (-1: none)
    drives,     \* number of Drive broadcasts
    completes,  \* completes[s+1]: number of CompleteCurrentTask broadcasts in step s
    rcvd, raw, consumed, finals, finalKind,
    \* workers
    wph,        \* "new" | "go" (will call drive()) | "run" (tasks of the step started / skipped) | "atjp"
    wjp,        \* last join point sent (-1: none)
    wdrv,       \* Drive messages received
    wcomp,      \* complete flag set by CompleteCurrentTask
    wself,      \* a row with a completing task was started in this step (complete flag set by the worker's own executor)
    wrow, wstarts, wbat, sent,
    \* channels (FIFO per ordered pair, as ActorSem establishes for Thespian)
    c2d, d2c,
    viol

dvars == <<started, dstep, atJoin, pend, compSent, dpc>>
hvars == <<joined, drives, completes, rcvd, raw, consumed, finals, finalKind>>
wvars == <<wph, wjp, wdrv, wcomp, wself, wrow, wstarts, wbat, sent>>
vars == <<dvars, hvars, wvars, c2d, d2c, viol>>

Cl(cond, name) == IF cond THEN {} ELSE {name}

RECURSIVE SumTo(_, _)
SumTo(f, n) == IF n < 0 THEN 0 ELSE f[n] + SumTo(f, n - 1)
Sum(f) == SumTo(f, NW - 1)

Init ==
    /\ started = FALSE /\ dstep = -1 /\ atJoin = {} /\ pend = NW /\ compSent = FALSE /\ dpc = "idle"
    /\ joined = [w \in Workers |-> -1] /\ drives = 0 /\ completes = [s \in 1 .. NJ |-> 0]
    /\ rcvd = [w \in Workers |-> 0] /\ raw = 0 /\ consumed = 0 /\ finals = 0 /\ finalKind = "none"
    /\ wph = [w \in Workers |-> "new"] /\ wjp = [w \in Workers |-> -1] /\ wdrv = [w \in Workers |-> 0]
    /\ wcomp = [w \in Workers |-> FALSE] /\ wself = [w \in Workers |-> FALSE] /\ wrow = [w \in Workers |-> 0] /\ wstarts = [w \in Workers |-> 0]
    /\ wbat = [w \in Workers |-> 0] /\ sent = [w \in Workers |-> 0]
    /\ c2d = [w \in Workers |-> <<>>] /\ d2c = [w \in Workers |-> <<>>]
    /\ viol = {}

Broadcast(m) == d2c' = [w \in Workers |-> Append(d2c[w], m)]

(***************************** driver events *****************************)

\* Driver.start_benchmark: workers created, StartWorker sent to each
G_Start == ~started
E_Start ==
    /\ started' = TRUE
    /\ Broadcast("start")
    /\ viol' = viol \cup Cl(~started, "StartOnce")
    /\ UNCHANGED <<dstep, atJoin, pend, compSent, dpc, hvars, wvars, c2d>>

MayComplete(S) ==
    /\ ~compSent
    /\ \/ CBof(dstep) = "any"
       \/ CBof(dstep) = "task" /\ CBWof(dstep) \subseteq S

\* Driver.joinpoint_reached(w, ..): JoinPointReached(w, join point k) received
G_Jp(w, k) == dpc = "idle" /\ k = dstep + 1 /\ w \notin atJoin
E_Jp(w, k) ==
    /\ Len(c2d[w]) > 0 /\ Head(c2d[w]) = <<"jp", k>>
    /\ c2d' = [c2d EXCEPT ![w] = Tail(@)]
    /\ IF pend - 1 <= Slack
       THEN /\ dstep' = dstep + 1 /\ atJoin' = {} /\ pend' = NW /\ compSent' = FALSE /\ dpc' = "advance"
       ELSE /\ atJoin' = atJoin \cup {w} /\ pend' = pend - 1
            /\ dpc' = IF MayComplete(atJoin \cup {w}) THEN "maycomplete" ELSE "idle"
            /\ UNCHANGED <<dstep, compSent>>
    /\ joined' = [joined EXCEPT ![w] = k]
    /\ viol' = viol \cup Cl(k = joined[w] + 1, "JoinOnce") \cup Cl(finals = 0, "FinishOnce")
    /\ UNCHANGED <<started, drives, completes, rcvd, raw, consumed, finals, finalKind, wvars, d2c>>

\* Driver.post_process_samples: n raw samples handed to the post-processor (at a step change, or by the timer)
G_Post(n) == n = raw /\ started /\ finals = 0 /\ dpc \in {"advance", "idle"}
E_Post(n) ==
    /\ consumed' = consumed + n
    /\ raw' = IF raw >= n THEN raw - n ELSE 0
    /\ dpc' = IF dpc = "advance" THEN "posted" ELSE dpc
    /\ viol' = viol \cup Cl(n = raw, "SamplesConserved")
    /\ UNCHANGED <<started, dstep, atJoin, pend, compSent, joined, drives, completes, rcvd, finals, finalKind, wvars, c2d, d2c>>

\* Driver.move_to_next_task: Drive sent to every worker; s = the step that starts
G_Drive(s) == dpc = "posted" /\ s = dstep /\ dstep < NJ
E_Drive(s) ==
    /\ Broadcast("drive")
    /\ drives' = drives + 1
    /\ dpc' = "idle"
    /\ viol' = viol \cup Cl(\A w \in Workers : joined[w] = s, "Barrier")
                    \cup Cl(s = drives /\ s < NJ, "DriveOnce")
                    \cup Cl(finals = 0, "FinishOnce")
    /\ UNCHANGED <<started, dstep, atJoin, pend, compSent, joined, completes, rcvd, raw, consumed, finals, finalKind, wvars, c2d>>

\* Driver.may_complete_current_task: CompleteCurrentTask sent to every worker
G_Complete(s, kind) == dpc = "maycomplete" /\ s = dstep /\ kind = CBof(s)
E_Complete(s, kind) ==
    /\ Broadcast("complete")
    /\ compSent' = TRUE
    /\ dpc' = "idle"
    /\ completes' = IF s \in Steps THEN [completes EXCEPT ![s + 1] = @ + 1] ELSE completes
    /\ viol' = viol \cup Cl(s \in Steps /\ s = drives - 1 /\ completes[s + 1] = 0, "CompleteOnce")
                    \cup Cl(CBof(s) # "none", "CompleteOnlyCompletedBy")
                    \cup Cl(CBof(s) = "task" => \A w \in CBWof(s) : joined[w] = s + 1, "CompleteNotEarly")
    /\ UNCHANGED <<started, dstep, atJoin, pend, joined, drives, rcvd, raw, consumed, finals, finalKind, wvars, c2d>>

\* DriverActor.receiveMsg_UpdateSamples: n samples of worker w received, r raw samples are pending afterwards
G_Samples(w, n, r) == dpc = "idle"
E_Samples(w, n, r) ==
    /\ Len(c2d[w]) > 0 /\ Head(c2d[w]) = <<"s", n>>
    /\ c2d' = [c2d EXCEPT ![w] = Tail(@)]
    /\ rcvd' = [rcvd EXCEPT ![w] = @ + n]
    /\ raw' = raw + n
    /\ viol' = viol \cup Cl(r = raw + n, "SamplesConserved") \cup Cl(finals = 0, "FinishOnce")
    /\ UNCHANGED <<dvars, joined, drives, completes, consumed, finals, finalKind, wvars, d2c>>

\* the one final message to race control
G_Final(kind) == dpc = "posted" /\ dstep = NJ /\ kind = "complete"
E_Final(kind) ==
    /\ finals' = finals + 1
    /\ finalKind' = kind
    /\ dpc' = "done"
    /\ viol' = viol \cup Cl(finals = 0 /\ \A w \in Workers : joined[w] = NJ, "FinishOnce")
                    \cup Cl(kind = "complete", "NoSpuriousFailure")
                    \cup Cl(raw = 0, "SamplesConserved")
    /\ UNCHANGED <<started, dstep, atJoin, pend, compSent, joined, drives, completes, rcvd, raw, consumed, wvars, c2d, d2c>>

(***************************** worker events *****************************)

\* Worker.receiveMsg_StartWorker
G_Init(w) == wph[w] = "new"
E_Init(w) ==
    /\ Len(d2c[w]) > 0 /\ Head(d2c[w]) = "start"
    /\ d2c' = [d2c EXCEPT ![w] = Tail(@)]
    /\ wph' = [wph EXCEPT ![w] = "go"]
    /\ viol' = viol \cup Cl(wph[w] = "new", "StartOnce")
    /\ UNCHANGED <<dvars, hvars, wjp, wdrv, wcomp, wself, wrow, wstarts, wbat, sent, c2d>>

\* Worker.drive() at a join point: JoinPointReached(w, k) sent
G_JpSent(w, k) == wph[w] \in {"go", "run"} /\ k = wjp[w] + 1 /\ k <= NJ /\ wrow[w] = RowsOf(w, wjp[w])
E_JpSent(w, k) ==
    /\ c2d' = [c2d EXCEPT ![w] = Append(@, <<"jp", k>>)]
    /\ wjp' = [wjp EXCEPT ![w] = k]
    /\ wph' = [wph EXCEPT ![w] = "atjp"]
    /\ wcomp' = [wcomp EXCEPT ![w] = FALSE]
    /\ wself' = [wself EXCEPT ![w] = FALSE]
    /\ wrow' = [wrow EXCEPT ![w] = 0]
    /\ wstarts' = [wstarts EXCEPT ![w] = 0]
    /\ wbat' = [wbat EXCEPT ![w] = 0]
    /\ viol' = viol \cup Cl(k = wjp[w] + 1 /\ k <= NJ, "JoinOnce")
                    \cup Cl(wdrv[w] = k, "WorkerFollows")
                    \cup Cl(CBof(k - 1) = "none" => wstarts[w] = RowsOf(w, k - 1), "AllTasksStarted")
    /\ UNCHANGED <<dvars, hvars, wdrv, sent, d2c>>

\* Worker.receiveMsg_Drive
G_DriveRcvd(w) == wph[w] = "atjp"
E_DriveRcvd(w) ==
    /\ Len(d2c[w]) > 0 /\ Head(d2c[w]) = "drive"
    /\ d2c' = [d2c EXCEPT ![w] = Tail(@)]
    /\ wdrv' = [wdrv EXCEPT ![w] = @ + 1]
    /\ wph' = [wph EXCEPT ![w] = "go"]
    /\ viol' = viol
    /\ UNCHANGED <<dvars, hvars, wjp, wcomp, wself, wrow, wstarts, wbat, sent, c2d>>

\* Worker.drive(): the tasks of the next row are handed to the executor thread
G_TaskStart(w) == wph[w] \in {"go", "run"} /\ wjp[w] \in Steps /\ wrow[w] < RowsOf(w, wjp[w]) /\ ~wcomp[w] /\ ~wself[w]
E_TaskStart(w) ==
    /\ wph' = [wph EXCEPT ![w] = "run"]
    /\ wrow' = [wrow EXCEPT ![w] = @ + 1]
    /\ wstarts' = [wstarts EXCEPT ![w] = @ + 1]
    /\ wbat' = [wbat EXCEPT ![w] = 0]
    /\ wself' = [wself EXCEPT ![w] = @ \/ CpOf(w, wjp[w], wrow[w] + 1)]
    /\ viol' = viol \cup Cl(wdrv[w] = wjp[w] + 1 /\ wph[w] # "atjp", "WorkerFollows")
    /\ UNCHANGED <<dvars, hvars, wjp, wdrv, wcomp, sent, c2d, d2c>>

\* Worker.drive(): a row is skipped because the worker was told to complete the step
G_Skip(w) == wph[w] \in {"go", "run"} /\ wjp[w] \in Steps /\ wrow[w] < RowsOf(w, wjp[w]) /\ (wcomp[w] \/ wself[w])
E_Skip(w) ==
    /\ wph' = [wph EXCEPT ![w] = "run"]
    /\ wrow' = [wrow EXCEPT ![w] = @ + 1]
    /\ viol' = viol \cup Cl(wdrv[w] = wjp[w] + 1 /\ wph[w] # "atjp", "WorkerFollows")
                    \cup Cl(wcomp[w] \/ wself[w], "SkipOnlyWhenCompleted")
    /\ UNCHANGED <<dvars, hvars, wjp, wdrv, wcomp, wself, wstarts, wbat, sent, c2d, d2c>>

\* Worker.receiveMsg_CompleteCurrentTask; applied = the complete flag is set afterwards
G_CompleteRcvd(w, applied) == applied = (wcomp[w] \/ wph[w] # "atjp")
E_CompleteRcvd(w, applied) ==
    /\ Len(d2c[w]) > 0 /\ Head(d2c[w]) = "complete"
    /\ d2c' = [d2c EXCEPT ![w] = Tail(@)]
    /\ wcomp' = [wcomp EXCEPT ![w] = applied]
    /\ viol' = viol
    /\ UNCHANGED <<dvars, hvars, wph, wjp, wdrv, wself, wrow, wstarts, wbat, sent, c2d>>

\* Worker.send_samples: n > 0 samples drained from the sampler and sent (lost = dropped on the way, never in the code as it is)
G_SamplesSent(w, n) == n > 0 /\ wph[w] = "run" /\ wstarts[w] > 0
E_SamplesSent(w, n, lost) ==
    /\ c2d' = IF lost THEN c2d ELSE [c2d EXCEPT ![w] = Append(@, <<"s", n>>)]
    /\ sent' = [sent EXCEPT ![w] = @ + n]
    /\ wbat' = [wbat EXCEPT ![w] = @ + 1]
    /\ viol' = viol
    /\ UNCHANGED <<dvars, hvars, wph, wjp, wdrv, wcomp, wself, wrow, wstarts, d2c>>

(******************************* the model *******************************)

AtRowEnd(w) == wph[w] = "run" /\ wrow[w] = RowsOf(w, wjp[w])

Quiet == finals = 1 /\ \A w \in Workers : c2d[w] = <<>> /\ d2c[w] = <<>> /\ wjp[w] = NJ
Done == Quiet /\ UNCHANGED vars

Next ==
    \/ G_Start /\ E_Start
    \/ \E w \in Workers :
          \/ \E k \in 0 .. NJ : G_Jp(w, k) /\ E_Jp(w, k)
          \/ \E n \in 1 .. 2 : G_Samples(w, n, raw + n) /\ E_Samples(w, n, raw + n)
          \/ G_Init(w) /\ E_Init(w)
          \/ \E k \in 0 .. NJ : G_JpSent(w, k) /\ E_JpSent(w, k)
          \/ G_DriveRcvd(w) /\ E_DriveRcvd(w)
          \/ G_TaskStart(w) /\ E_TaskStart(w)
          \/ G_Skip(w) /\ E_Skip(w)
          \/ \E a \in BOOLEAN : G_CompleteRcvd(w, a) /\ E_CompleteRcvd(w, a)
          \/ \E n \in 1 .. 2 : /\ G_SamplesSent(w, n) /\ wbat[w] < MaxBatches
                               /\ E_SamplesSent(w, n, DropLast /\ AtRowEnd(w) /\ wbat[w] = MaxBatches - 1)
    \/ (raw > 0 \/ dpc = "advance") /\ G_Post(raw) /\ E_Post(raw)
    \/ \E s \in Steps : G_Drive(s) /\ E_Drive(s)
    \/ \E s \in Steps : G_Complete(s, CBof(s)) /\ E_Complete(s, CBof(s))
    \/ G_Final("complete") /\ E_Final("complete")
    \/ Done

Spec == Init /\ [][Next]_vars /\ WF_vars(Next)

(****************************** invariants *******************************)

NoViol == viol = {}

\* Drive for step k only after every worker reported join point k
Barrier == \A w \in Workers : drives <= joined[w] + 1

\* a worker is never inside step k before it has received the Drive for it, and never receives more Drives than were sent
WorkerFollows == \A w \in Workers : /\ wdrv[w] <= drives
                                    /\ (wph[w] \in {"go", "run"} /\ wjp[w] >= 0) => wdrv[w] = wjp[w] + 1
                                    /\ wjp[w] <= drives

\* each worker reports each join point once and in order (driver side never ahead of the worker side)
JoinOnce == \A w \in Workers : joined[w] <= wjp[w] /\ wjp[w] <= NJ /\ dstep <= NJ

CompleteAtMostOncePerStep == \A s \in Steps : completes[s + 1] <= 1 /\ (completes[s + 1] = 1 => CBof(s) # "none" /\ s < drives)

\* never received more than sent; the driver accounts for everything it received; at the end everything sent was post-processed
SamplesConserved ==
    /\ \A w \in Workers : rcvd[w] <= sent[w]
    /\ consumed + raw = Sum(rcvd)
    /\ finals = 1 => (raw = 0 /\ consumed = Sum(sent))

FinishOnce == /\ finals <= 1
              /\ finals = 1 => (finalKind = "complete" /\ \A w \in Workers : joined[w] = NJ /\ wjp[w] = NJ)

\* the race ends (checked as a property under weak fairness, and by deadlock checking: Done is the only terminal step)
Terminates == <>(Quiet)
=============================================================================
