SPECIFICATION Spec
CONSTANTS
  NW = 2
  NJ = 3
  CB <- Q_CB
  CBW <- Q_CBW
  Rows <- Q_Rows
  CpRow <- Q_Cp
  MaxBatches = 1
  Slack = 1
  DropLast = FALSE
INVARIANT NoViol
INVARIANT Barrier
INVARIANT WorkerFollows
INVARIANT JoinOnce
INVARIANT CompleteAtMostOncePerStep
INVARIANT SamplesConserved
INVARIANT FinishOnce
CHECK_DEADLOCK TRUE
