SPECIFICATION TSpec
CONSTANTS
  NW <- TrNW
  NJ <- TrNJ
  CB <- TrCB
  CBW <- TrCBW
  Rows <- TrRows
  CpRow <- TrCp
  MaxBatches = 0
  Slack = 0
  DropLast = FALSE
INVARIANT NotDone
CHECK_DEADLOCK FALSE
