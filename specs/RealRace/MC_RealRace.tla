---------------------------- MODULE MC_RealRace ----------------------------
EXTENDS RealRace

\* quick: 2 workers, 3 steps: a plain step, a parallel step completed by a task in worker 0's first row (both workers have two rows), a step only worker 0 works in
Q_CB == <<"none", "task", "none">>
Q_CBW == <<{}, {0}, {}>>
Q_Rows == << <<1, 2, 1>>, <<1, 2, 0>> >>
Q_Cp == << << <<FALSE>>, <<TRUE, FALSE>>, <<FALSE>> >>, << <<FALSE>>, <<FALSE, FALSE>>, <<>> >> >>

\* thorough: 3 workers, 4 steps, completed-by any and completed-by task, over-committed rows, an idle worker
T_CB == <<"none", "any", "task", "none">>
T_CBW == <<{}, {}, {0, 1}, {}>>
T_Rows == << <<1, 1, 1, 1>>, <<1, 2, 1, 0>>, <<0, 1, 2, 1>> >>
T_Cp == << << <<FALSE>>, <<TRUE>>, <<TRUE>>, <<FALSE>> >>, << <<FALSE>>, <<TRUE, TRUE>>, <<TRUE>>, <<>> >>, << <<>>, <<TRUE>>, <<FALSE, FALSE>>, <<FALSE>> >> >>
=============================================================================
