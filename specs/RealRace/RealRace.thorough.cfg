SPECIFICATION Spec
CONSTANTS
  NW = 3
  NJ = 4
  CB <- T_CB
  CBW <- T_CBW
  Rows <- T_Rows
  CpRow <- T_Cp
  MaxBatches = 1
  Slack = 0
  DropLast = FALSE
INVARIANT NoViol
INVARIANT Barrier
INVARIANT WorkerFollows
INVARIANT JoinOnce
INVARIANT CompleteAtMostOncePerStep
INVARIANT SamplesConserved
INVARIANT FinishOnce
CHECK_DEADLOCK TRUE
