--------------------------- MODULE TraceRealRace ---------------------------
(***************************************************************************)
(* Validates ONE recorded real race (esrally race under the real Thespian  *)
(* actor system, hooks of esrally/utils/veriftrace.py) against RealRace.   *)
(* Input (env VERIF_TRACES): a JSON object                                 *)
(*   id, nw, nj, cb, cbw, rowsdef[w][s] = <<[idx, tasks, cp], ..>>, jpidx,     *)
(*   minSamples, exact, files = << driver events, worker 0 events, .. >>   *)
(* Every process logged independently (per-process sequence numbers, no    *)
(* clocks), so the files are merged by CAUSALITY: one cursor per file; a   *)
(* step consumes the next line of SOME file if the effect E_x of that      *)
(* event is possible (a receive needs the message at the head of its FIFO  *)
(* channel, which only exists once the sender's line was consumed).  TLC   *)
(* searches the interleavings depth first; the trace is accepted when all  *)
(* files are consumed (DONE line).  On the way it collects                 *)
(*   viol  : L1 clauses of the events (RealRace.E_x) and the state         *)
(*           invariants of RealRace evaluated on every reached state,      *)
(*   drift : events that are not the model's step (guard G_x or a logged   *)
(*           field differs from the model's value) = L2.                   *)
(***************************************************************************)
EXTENDS RealRace, Json, IOUtils, TLCExt

T == JsonDeserialize(IOEnv.VERIF_TRACES)
SetOf(s) == {s[i] : i \in 1 .. Len(s)}
TrNW == T.nw
TrNJ == T.nj
TrCB == T.cb
TrCBW == [i \in 1 .. Len(T.cbw) |-> SetOf(T.cbw[i])]
TrRows == [w \in 1 .. T.nw |-> [s \in 1 .. T.nj |-> Len(T.rowsdef[w][s])]]
TrCp == [w \in 1 .. T.nw |-> [s \in 1 .. T.nj |-> [r \in 1 .. Len(T.rowsdef[w][s]) |-> T.rowsdef[w][s][r].cp]]]
Files == T.files
NF == Len(Files)

VARIABLES cur, drift, done
tvars == <<vars, cur, drift, done>>

Apply(e) ==
    CASE e.ev = "start" -> E_Start
      [] e.ev = "jp" -> E_Jp(e.w, e.jp)
      [] e.ev = "post" -> E_Post(e.n)
      [] e.ev = "drive" -> E_Drive(e.step)
      [] e.ev = "complete" -> E_Complete(e.step, e.kind)
      [] e.ev = "samples" -> E_Samples(e.w, e.n, e.raw)
      [] e.ev = "final" -> E_Final(e.kind)
      [] e.ev = "init" -> E_Init(e.w)
      [] e.ev = "jp_sent" -> E_JpSent(e.w, e.jp)
      [] e.ev = "drive_rcvd" -> E_DriveRcvd(e.w)
      [] e.ev = "task_start" -> E_TaskStart(e.w)
      [] e.ev = "skip" -> E_Skip(e.w)
      [] e.ev = "complete_rcvd" -> E_CompleteRcvd(e.w, e.applied)
      [] e.ev = "samples_sent" -> E_SamplesSent(e.w, e.n, FALSE)

RowDef(w) == T.rowsdef[w + 1][wjp[w] + 1][wrow[w] + 1]

Guard(e) ==
    CASE e.ev = "start" -> G_Start /\ e.workers = NW /\ e.steps = NJ
      [] e.ev = "jp" -> G_Jp(e.w, e.jp) /\ e.step = dstep /\ e.pending = pend - 1
      [] e.ev = "post" -> G_Post(e.n)
      [] e.ev = "drive" -> G_Drive(e.step) /\ e.n = NW
      [] e.ev = "complete" -> G_Complete(e.step, e.kind) /\ e.n = NW
      [] e.ev = "samples" -> G_Samples(e.w, e.n, e.raw)
      [] e.ev = "final" -> G_Final(e.kind)
      [] e.ev = "init" -> G_Init(e.w)
      [] e.ev = "jp_sent" -> G_JpSent(e.w, e.jp) /\ e.idx = T.jpidx[e.jp + 1]
      [] e.ev = "drive_rcvd" -> G_DriveRcvd(e.w) /\ e.idx = T.jpidx[wjp[e.w] + 1]
      [] e.ev = "task_start" -> G_TaskStart(e.w) /\ e.idx = RowDef(e.w).idx /\ e.tasks = RowDef(e.w).tasks
      [] e.ev = "skip" -> G_Skip(e.w) /\ e.idx = RowDef(e.w).idx
      [] e.ev = "complete_rcvd" -> G_CompleteRcvd(e.w, e.applied)
      [] e.ev = "samples_sent" -> G_SamplesSent(e.w, e.n)

StateClauses ==
    Cl(Barrier, "Barrier") \cup Cl(WorkerFollows, "WorkerFollows") \cup Cl(JoinOnce, "JoinOnce")
    \cup Cl(CompleteAtMostOncePerStep, "CompleteOnce") \cup Cl(SamplesConserved, "SamplesConserved") \cup Cl(FinishOnce, "FinishOnce")

VARIABLE sviol

TInit == Init /\ cur = [f \in 1 .. NF |-> 1] /\ drift = {} /\ done = FALSE /\ sviol = {}

TStep(f) ==
    /\ cur[f] <= Len(Files[f])
    /\ LET e == Files[f][cur[f]] IN
          /\ Apply(e)
          /\ drift' = drift \cup (IF Guard(e) THEN {} ELSE {e.ev})
    /\ cur' = [cur EXCEPT ![f] = @ + 1]
    /\ sviol' = sviol \cup StateClauses'
    /\ UNCHANGED done

\* FIFO: a sample batch at the head of w's channel that the driver's next receive from w passes over can never be received later:
\* it was sent and lost (deterministic, no branching)
Lose(w) ==
    /\ cur[1] <= Len(Files[1])
    /\ LET e == Files[1][cur[1]] IN
          /\ e.ev \in {"jp", "samples"}
          /\ e.w = w
          /\ Len(c2d[w]) > 0
          /\ Head(c2d[w])[1] = "s"
          /\ IF e.ev = "jp" THEN TRUE ELSE e.n # Head(c2d[w])[2]
    /\ c2d' = [c2d EXCEPT ![w] = Tail(@)]
    /\ viol' = viol \cup {"SamplesConserved"}
    /\ UNCHANGED <<dvars, hvars, wvars, d2c, cur, drift, sviol, done>>

AllRead == \A f \in 1 .. NF : cur[f] > Len(Files[f])

\* judged once, at the end of the race (the only point where counters of different processes are compared)
EndClauses ==
    Cl(finals = 1, "FinishOnce")
    \cup Cl(\A w \in Workers : c2d[w] = <<>>, "SamplesConserved")
    \cup Cl(raw = 0 /\ Sum(rcvd) = Sum(sent) /\ consumed = Sum(sent), "SamplesConserved")
    \cup Cl(consumed >= T.minSamples /\ (T.exact => consumed = T.minSamples), "SamplesComplete")
    \cup Cl(\A w \in Workers : wjp[w] = NJ /\ joined[w] = NJ, "JoinOnce")

EndDrift == drift \cup Cl(\A w \in Workers : d2c[w] = <<>>, "undelivered")

Finish ==
    /\ AllRead /\ ~done
    /\ done' = TRUE
    /\ PrintT(<<"DONE", T.id, viol \cup sviol \cup EndClauses, EndDrift, consumed>>)
    /\ UNCHANGED <<vars, cur, drift, sviol>>

TNext == (\E f \in 1 .. NF : TStep(f)) \/ (\E w \in Workers : Lose(w)) \/ Finish

TSpec == TInit /\ [][TNext]_<<tvars, sviol>>

\* its violation is the acceptance: TLC stops at the first interleaving that consumes every file
NotDone == ~done
=============================================================================
