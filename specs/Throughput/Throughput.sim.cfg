SPECIFICATION Spec
CONSTANTS
  TPS = 4
  BucketSecs = 1
  MaxSamples = 8
  MaxTime = 14
  Clients <- C3
  Periods <- P12
  OpsVals <- Ops012
  RunnerTput <- TputBoth
  ResetUnprocessed = TRUE
INVARIANT Conservation
INVARIANT NoDuplicateUnprocessed
INVARIANT ValuesWellFormed
INVARIANT AtLeastOneNormal
INVARIANT TypeMonotoneInCall
INVARIANT PassThroughUnchanged
PROPERTY TypeMonotone
PROPERTY FlushValues
CHECK_DEADLOCK FALSE
