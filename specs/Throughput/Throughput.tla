----------------------------- MODULE Throughput -----------------------------
(***************************************************************************)
(* Model of esrally.driver.driver.ThroughputCalculator for ONE task (tasks  *)
(* are independent: calculate() groups by task and keeps one TaskStats per  *)
(* task).  Samples arrive in any cross-client order and the driver cuts the *)
(* arrival stream into calculate() calls at arbitrary points.               *)
(*                                                                         *)
(* Time is counted in ticks, TPS ticks per second.  A throughput value is   *)
(* the pair <<ops, intervalTicks>> meaning ops*TPS/intervalTicks per second.*)
(***************************************************************************)
EXTENDS Naturals, Integers, Sequences, FiniteSets, TLC

CONSTANTS TPS,         \* ticks per second
          BucketSecs,  \* bucket_interval_secs
          MaxSamples,  \* bound on the number of samples of a stream
          Clients,     \* set of client ids
          MaxTime,     \* latest absolute time (ticks)
          Periods,     \* possible time_period values (ticks)
          OpsVals,     \* possible total_ops values
          RunnerTput   \* set of possible runner-provided throughputs; NoTput (-1) = None; 0 is a legal value

Warmup == 0
Normal == 1
NoTput == -1

VARIABLES stats,      \* TaskStats of the task ([exists |-> FALSE] before the first call)
          pending,    \* samples received by the driver but not yet given to calculate()
          lastOut,    \* tuples returned by the most recent calculate() call
          hist,       \* history: [fedOps, fedN, fedNormal, normalOut, lastTy, clientT, clientTy, mode]
          act         \* last action (for schedule extraction; hidden by VIEW)

vars == <<stats, pending, lastOut, hist, act>>
view == <<stats, pending, lastOut, hist>>

NoStats == [exists |-> FALSE, unproc |-> <<>>, total |-> 0, interval |-> 0, bucket |-> 0,
            stype |-> Warmup, has |-> FALSE, start |-> 0]

Max(a, b) == IF a >= b THEN a ELSE b

RECURSIVE SumOps(_)
SumOps(s) == IF s = <<>> THEN 0 ELSE Head(s).ops + SumOps(Tail(s))

(* stable insertion of x into the abs-sorted sequence s, after all elements with abs <= x.abs *)
RECURSIVE InsertSorted(_, _)
InsertSorted(s, x) ==
    IF s = <<>> THEN <<x>>
    ELSE IF Head(s).abs <= x.abs THEN <<Head(s)>> \o InsertSorted(Tail(s), x)
    ELSE <<x>> \o s

RECURSIVE StableSort(_)
StableSort(s) == IF s = <<>> THEN <<>> ELSE InsertSorted(StableSort(SubSeq(s, 1, Len(s) - 1)), s[Len(s)])

(***************************************************************************)
(* finish_bucket / the tuple that is appended afterwards                   *)
(***************************************************************************)
FinishBucket(ts, newTotal) ==
    [ts EXCEPT !.unproc = <<>>, !.total = newTotal, !.has = TRUE,
               !.bucket = (ts.interval \div TPS) * TPS + BucketSecs * TPS]

(* value = num/den operations per second (a rational; compared by cross-multiplication) *)
Tuple(ts, sample) == [abs |-> sample.abs, ty |-> ts.stype, num |-> ts.total * TPS, den |-> ts.interval]

(***************************************************************************)
(* The per-sample loop of calculate_task_throughput.  acc = [ts, count, out]*)
(* ResetUnprocessed = TRUE models the repaired code (fix: commit), FALSE the*)
(* pinned behaviour in which stale unprocessed samples are appended again.  *)
(***************************************************************************)
OneSample(acc, sample) ==
    LET ts1 == IF acc.ts.stype < sample.ty
               THEN [acc.ts EXCEPT !.stype = sample.ty, !.has = FALSE] ELSE acc.ts
        cnt == acc.count + sample.ops
        ts2 == [ts1 EXCEPT !.interval = Max(sample.abs - ts1.start, ts1.interval)]
    IN  IF ts2.interval > 0 /\ ts2.interval >= ts2.bucket
        THEN LET ts3 == FinishBucket(ts2, cnt)
             IN [ts |-> ts3, count |-> cnt, out |-> Append(acc.out, Tuple(ts3, sample))]
        ELSE [ts |-> [ts2 EXCEPT !.unproc = Append(ts2.unproc, sample)], count |-> cnt, out |-> acc.out]

RECURSIVE Loop(_, _)
Loop(acc, s) == IF s = <<>> THEN acc ELSE Loop(OneSample(acc, Head(s)), Tail(s))

CalcTask(ts0, batch, resetUnprocessed) ==
    LET cur  == StableSort(batch \o ts0.unproc)         \* itertools.chain(v, unprocessed), sorted (stable)
        first == cur[1]
        tsA  == IF ts0.exists THEN ts0
                ELSE [exists |-> TRUE, unproc |-> <<>>, total |-> 0, interval |-> 0,
                      bucket |-> BucketSecs * TPS, stype |-> first.ty, has |-> FALSE,
                      start |-> first.abs - first.per]
        tsB  == IF resetUnprocessed THEN [tsA EXCEPT !.unproc = <<>>] ELSE tsA
        r    == Loop([ts |-> tsB, count |-> tsB.total, out |-> <<>>], cur)
        last == cur[Len(cur)]
    IN  IF r.ts.interval > 0 /\ ~r.ts.has
        THEN LET ts3 == FinishBucket(r.ts, r.count)
             IN [ts |-> ts3, out |-> Append(r.out, Tuple(ts3, last))]
        ELSE [ts |-> r.ts, out |-> r.out]

(* map_task_throughput: runner-provided throughput is passed through, one tuple per sample *)
PassThrough(ts0, batch) ==
    LET cur == StableSort(batch \o ts0.unproc)
    IN [ts |-> ts0,
        out |-> [i \in 1..Len(cur) |-> [abs |-> cur[i].abs, ty |-> cur[i].ty, num |-> cur[i].tput, den |-> 1]]]

Calculate(ts0, batch, resetUnprocessed) ==
    LET cur == StableSort(batch \o ts0.unproc)
    IN IF cur[1].tput = NoTput THEN CalcTask(ts0, batch, resetUnprocessed) ELSE PassThrough(ts0, batch)

-----------------------------------------------------------------------------
CONSTANT ResetUnprocessed

InitHist == [fedOps |-> 0, fedN |-> 0, fedNormal |-> FALSE, normalOut |-> FALSE, lastTy |-> Warmup,
             clientT |-> [c \in Clients |-> 0], clientTy |-> [c \in Clients |-> Warmup], mode |-> -1]

Init == /\ stats = NoStats
        /\ pending = <<>>
        /\ lastOut = <<>>
        /\ hist = InitHist
        /\ act = [name |-> "Init"]

(* A sample of client c arrives at the driver.  Per client, times strictly increase and the sample *)
(* type never goes back; a stream is either runner-throughput or calculated (mode).                 *)
Arrive(c, t, per, ops, ty, tp) ==
    /\ hist.fedN + Len(pending) < MaxSamples
    /\ t > hist.clientT[c] /\ ty >= hist.clientTy[c]
    /\ (hist.mode = -1 \/ (hist.mode = 0) = (tp = NoTput))
    /\ LET s == [id |-> hist.fedN + Len(pending) + 1, c |-> c, abs |-> t, per |-> per, ops |-> ops, ty |-> ty, tput |-> tp]
       IN pending' = Append(pending, s)
    /\ hist' = [hist EXCEPT !.clientT[c] = t, !.clientTy[c] = ty, !.mode = IF tp = NoTput THEN 0 ELSE 1]
    /\ UNCHANGED <<stats, lastOut>>
    /\ act' = [name |-> "Arrive"]

AnyNormal(s) == \E i \in 1..Len(s) : s[i].ty = Normal

(* history bookkeeping shared by the model action and the trace specification *)
HistAfter(h, batch, out) ==
    [h EXCEPT !.fedOps = @ + SumOps(batch), !.fedN = @ + Len(batch),
              !.fedNormal = @ \/ AnyNormal(batch),
              !.normalOut = @ \/ AnyNormal(out),
              !.lastTy = IF out = <<>> THEN @ ELSE out[Len(out)].ty]

FlushWith(batch) ==
    LET r == Calculate(stats, batch, ResetUnprocessed)
    IN /\ stats' = r.ts
       /\ lastOut' = r.out
       /\ hist' = HistAfter(hist, batch, r.out)

Flush == /\ pending # <<>>
         /\ FlushWith(pending)
         /\ pending' = <<>>
         /\ act' = [name |-> "Flush"]

Next == \/ \E c \in Clients, t \in 1..MaxTime, per \in Periods, ops \in OpsVals, ty \in {Warmup, Normal}, tp \in RunnerTput :
              Arrive(c, t, per, ops, ty, tp)
        \/ Flush

Spec == Init /\ [][Next]_vars

-----------------------------------------------------------------------------
(* PROPERTIES (C06).  They are state predicates over (stats, lastOut, hist) so that the trace     *)
(* specification evaluates the very same formulas on states recorded from the implementation.     *)

Calculated == hist.mode = 0

(* every operation is counted exactly once: in a finished bucket or still waiting in unprocessed *)
Conservation == Calculated => stats.total + SumOps(stats.unproc) = hist.fedOps

NoDuplicateUnprocessed ==
    \A i, j \in 1..Len(stats.unproc) : i # j => stats.unproc[i].id # stats.unproc[j].id

RatLe(a, b) == a.num * b.den <= b.num * a.den       \* a <= b for values with positive denominators
RatEq(a, b) == a.num * b.den = b.num * a.den

(* state part: values are non-negative rationals, non-decreasing counts are not implied (interval  *)
(* grows too), but the LAST value of a call is total / (an elapsed time <= interval)               *)
ValuesWellFormed ==
    Calculated =>
      /\ \A i \in 1..Len(lastOut) : lastOut[i].num >= 0 /\ lastOut[i].den > 0
      /\ lastOut # <<>> => RatLe([num |-> stats.total * TPS, den |-> stats.interval], lastOut[Len(lastOut)])

(* action part, evaluated on every calculate() step <<prev, batch, out>>: the value reported with  *)
(* the sample at absolute time a is (operations counted so far) / (elapsed time so far):           *)
(*   elapsed = Max(previous elapsed, a - start)                                                    *)
(*   counted = previous total + all not-yet-counted operations with time < a, plus any subset of   *)
(*             those with time = a (ties may be processed in either order)                         *)
RECURSIVE SumOpsIf(_, _, _)
SumOpsIf(s, a, strict) ==
    IF s = <<>> THEN 0
    ELSE (IF (strict /\ Head(s).abs < a) \/ (~strict /\ Head(s).abs <= a) THEN Head(s).ops ELSE 0) + SumOpsIf(Tail(s), a, strict)

ValueIsOpsOverElapsed(prev, batch, out, start) ==
    LET cur == batch \o prev.unproc
    IN \A i \in 1..Len(out) :
         LET a == out[i].abs
             e == Max(prev.interval, a - start)
             lo == prev.total + SumOpsIf(cur, a, TRUE)
             hi == prev.total + SumOpsIf(cur, a, FALSE)
         IN /\ e > 0
            /\ \E cnt \in lo..hi : out[i].num * e = out[i].den * TPS * cnt

AtLeastOneNormal ==
    (Calculated /\ hist.fedNormal /\ stats.exists /\ stats.interval > 0) => hist.normalOut

TypeMonotoneInCall ==
    Calculated => \A i \in 1..(Len(lastOut) - 1) : lastOut[i].ty <= lastOut[i+1].ty

PassThroughUnchanged ==
    hist.mode = 1 => /\ stats = NoStats
                     /\ \A i \in 1..Len(lastOut) : lastOut[i].den = 1 /\ lastOut[i].num \in RunnerTput \ {NoTput}

(* action property: sample types of successive values never return to warm-up *)
TypeMonotone == [][Calculated' => hist'.lastTy >= hist.lastTy]_vars

(* action property of the model: every Flush step reports ops/elapsed *)
FlushValues == [][(Calculated' /\ act'.name = "Flush") => ValueIsOpsOverElapsed(stats, pending, lastOut', stats'.start)]_vars
=============================================================================
