SPECIFICATION Spec
CONSTANTS
  TPS = 2
  BucketSecs = 1
  MaxSamples = 5
  MaxTime = 5
  Clients <- C2
  Periods <- P1
  OpsVals <- Ops12
  RunnerTput <- TputNone
  ResetUnprocessed = TRUE
VIEW view
INVARIANT Conservation
INVARIANT NoDuplicateUnprocessed
INVARIANT ValuesWellFormed
INVARIANT AtLeastOneNormal
INVARIANT TypeMonotoneInCall
INVARIANT PassThroughUnchanged
PROPERTY TypeMonotone
PROPERTY FlushValues
CHECK_DEADLOCK FALSE
