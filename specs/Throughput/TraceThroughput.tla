-------------------------- MODULE TraceThroughput --------------------------
(***************************************************************************)
(* Validates recorded executions of the real ThroughputCalculator against  *)
(* Throughput.tla.  Input (env VERIF_TRACES): JSON array of traces          *)
(*   [id, events: << [batch: <<sample>>, st: [stats, out]] >>]             *)
(* one event per calculate() call of one task, st = projected TaskStats and *)
(* returned tuples AFTER the call.  All traces are checked in one TLC run;  *)
(* for each event TLC evaluates                                            *)
(*   L1: the property formulas of Throughput.tla on the recorded state,    *)
(*   L2: the recorded step is the FlushWith step of the specification.     *)
(* A line <<"V", id, line, "L1"|"L2", clauses>> is printed per failing     *)
(* event and <<"DONE", #traces, #events>> at the end.                      *)
(***************************************************************************)
EXTENDS Throughput, Json, IOUtils

Traces == JsonDeserialize(IOEnv.VERIF_TRACES)
TraceTput == {-1, 0, 7, 11}

VARIABLES tid, l, nev

tvars == <<vars, tid, l, nev>>

TInit == /\ Init /\ tid = 1 /\ l = 1 /\ nev = 0

OutEq(a, b) == /\ Len(a) = Len(b)
               /\ \A i \in 1..Len(a) : a[i].abs = b[i].abs /\ a[i].ty = b[i].ty /\ RatEq(a[i], b[i])

L1Clauses == {"Conservation", "NoDuplicateUnprocessed", "ValuesWellFormed", "AtLeastOneNormal",
              "TypeMonotoneInCall", "PassThroughUnchanged", "TypeMonotone", "ValueIsOpsOverElapsed", "Unit"}

Consume ==
    /\ tid <= Len(Traces)
    /\ l <= Len(Traces[tid].events)
    /\ LET e == Traces[tid].events[l]
           r == Calculate(stats, e.batch, ResetUnprocessed)
       IN /\ stats' = e.st.stats
          /\ lastOut' = e.st.out
          /\ hist' = HistAfter([hist EXCEPT !.mode = IF e.batch[1].tput = NoTput THEN 0 ELSE 1], e.batch, e.st.out)
          /\ pending' = <<>>
          /\ act' = [name |-> "Flush"]
          /\ LET holds == [c \in L1Clauses |->
                   CASE c = "Conservation" -> Conservation'
                     [] c = "NoDuplicateUnprocessed" -> NoDuplicateUnprocessed'
                     [] c = "ValuesWellFormed" -> ValuesWellFormed'
                     [] c = "AtLeastOneNormal" -> AtLeastOneNormal'
                     [] c = "TypeMonotoneInCall" -> TypeMonotoneInCall'
                     [] c = "PassThroughUnchanged" -> (hist'.mode = 1 => stats' = NoStats /\ OutEq(lastOut', r.out))
                     [] c = "TypeMonotone" -> (Calculated' => hist'.lastTy >= hist.lastTy)
                     [] c = "ValueIsOpsOverElapsed" -> (Calculated' => ValueIsOpsOverElapsed(stats, e.batch, lastOut', stats'.start))
                     \* the unit of a value is '<ops unit>/s' of a sample it is reported at (samples of this call or carried over);
                     \* (a failed request reports 0 "ops" whatever the operation's unit: units may be mixed within a task)
                     [] c = "Unit" -> \A i \in 1..Len(e.st.out) :
                            LET cands == {e.batch[k] : k \in 1..Len(e.batch)} \cup
                                         (IF stats.exists THEN {stats.unproc[k] : k \in 1..Len(stats.unproc)} ELSE {})
                                at == {x \in cands : x.abs = e.st.out[i].abs}
                            IN IF at # {} THEN \E x \in at : e.st.out[i].unit = x.unit \o "/s"
                               ELSE \E x \in cands : e.st.out[i].unit = x.unit \o "/s"]
                 l1 == {c \in L1Clauses : ~holds[c]}
                 l2 == /\ r.ts = e.st.stats
                       /\ OutEq(r.out, e.st.out)
             IN /\ IF l1 = {} THEN TRUE ELSE PrintT(<<"V", Traces[tid].id, l, "L1", l1>>)
                /\ IF l1 # {} \/ l2 THEN TRUE ELSE PrintT(<<"V", Traces[tid].id, l, "L2", {}>>)
    /\ l' = l + 1 /\ nev' = nev + 1 /\ tid' = tid

NextTrace ==
    /\ tid <= Len(Traces)
    /\ l > Len(Traces[tid].events)
    /\ stats' = NoStats /\ pending' = <<>> /\ lastOut' = <<>> /\ hist' = InitHist /\ act' = [name |-> "Init"]
    /\ tid' = tid + 1 /\ l' = 1 /\ nev' = nev
    /\ IF tid < Len(Traces) THEN TRUE ELSE PrintT(<<"DONE", Len(Traces), nev>>)

TNext == Consume \/ NextTrace
TSpec == TInit /\ [][TNext]_tvars
=============================================================================
