\* The behaviour of the pinned tree before the fix: commit (unprocessed samples appended again).
\* Used only by the self-test: TLC must report a Conservation violation here.
SPECIFICATION Spec
CONSTANTS
  TPS = 2
  BucketSecs = 1
  MaxSamples = 4
  MaxTime = 5
  Clients <- C2
  Periods <- P1
  OpsVals <- Ops12
  RunnerTput <- TputNone
  ResetUnprocessed = FALSE
VIEW view
INVARIANT Conservation
CHECK_DEADLOCK FALSE
