SPECIFICATION TSpec
CONSTANTS
  TPS = 4
  BucketSecs = 1
  MaxSamples = 0
  MaxTime = 0
  Clients = {1,2,3,4}
  Periods = {}
  OpsVals = {}
  RunnerTput <- TraceTput
  ResetUnprocessed = TRUE
CHECK_DEADLOCK FALSE
