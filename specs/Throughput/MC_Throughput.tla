---- MODULE MC_Throughput ----
EXTENDS Throughput
C1 == {1}
C2 == {1, 2}
C3 == {1, 2, 3}
P1 == {1}
P12 == {1, 2}
Ops12 == {1, 2}
Ops012 == {0, 1, 2}
TputNone == {-1}
TputOnly == {0, 7}
TputBoth == {-1, 0, 7}
====
