\* exhaustive small table (leg S2C, TLC -dump): every path registration? -> resolve -> at most one event, for every
\* parameter descriptor; no VIEW: a state = one path = one test of the real code
SPECIFICATION Spec
CONSTANTS
  CustomNames <- NamesC1
  CustomKinds <- KindsAll
  RegNames <- NamesC1
  SchedNames <- SchedQuick
  Specs <- SpecsAll
  ClientSet <- C4
  Handles <- HNo
  Weights <- W01
  Units <- UAll
  Nows <- N1
  MaxRegs = 1
  MaxEvents = 1
  FnStep = 7
  LegacyStep = 3
  FullStep = 11
  UnitCheckFirst = FALSE
  FnSchedulerWorks = FALSE
  GuardMissingThroughput = FALSE
  RejectNegative = FALSE
INVARIANT TypeOK
PROPERTY Weak
CHECK_DEADLOCK FALSE
