\* self-test: only GuardMissingThroughput = FALSE (code) -> NoInternalError is violated (AttributeError)
SPECIFICATION Spec
CONSTANTS
  CustomNames <- NamesC1
  CustomKinds <- KindsAll
  RegNames <- RegQuick
  SchedNames <- SchedQuick
  Specs <- SpecsQuick
  ClientSet <- C14
  Handles <- HNo
  Weights <- W01
  Units <- UOD
  Nows <- N1
  MaxRegs = 1
  MaxEvents = 4
  FnStep = 7
  LegacyStep = 3
  FullStep = 11
  UnitCheckFirst = TRUE
  FnSchedulerWorks = TRUE
  GuardMissingThroughput = FALSE
  RejectNegative = TRUE
VIEW view
INVARIANT TypeOK
PROPERTY PNoInternalError
CHECK_DEADLOCK FALSE
