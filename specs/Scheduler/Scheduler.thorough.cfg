\* code as it is, bigger alphabets (thorough tier)
SPECIFICATION Spec
CONSTANTS
  CustomNames <- NamesC1
  CustomKinds <- KindsAll
  RegNames <- RegQuick
  SchedNames <- SchedQuick
  Specs <- SpecsAll
  ClientSet <- C124
  Handles <- HNo
  Weights <- WBrief
  Units <- UAll
  Nows <- N1
  MaxRegs = 1
  MaxEvents = 5
  FnStep = 7
  LegacyStep = 3
  FullStep = 11
  UnitCheckFirst = FALSE
  FnSchedulerWorks = FALSE
  GuardMissingThroughput = FALSE
  RejectNegative = FALSE
VIEW view
INVARIANT TypeOK
PROPERTY Weak
CHECK_DEADLOCK FALSE
