\* code as it is (all switches FALSE): every weak clause holds
SPECIFICATION Spec
CONSTANTS
  CustomNames <- NamesC1
  CustomKinds <- KindsAll
  RegNames <- RegQuick
  SchedNames <- SchedQuick
  Specs <- SpecsQuick
  ClientSet <- C14
  Handles <- HNo
  Weights <- W01
  Units <- UOD
  Nows <- N1
  MaxRegs = 1
  MaxEvents = 4
  FnStep = 7
  LegacyStep = 3
  FullStep = 11
  UnitCheckFirst = FALSE
  FnSchedulerWorks = FALSE
  GuardMissingThroughput = FALSE
  RejectNegative = FALSE
VIEW view
INVARIANT TypeOK
PROPERTY Weak
CHECK_DEADLOCK FALSE
