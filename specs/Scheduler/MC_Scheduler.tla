--------------------------- MODULE MC_Scheduler ---------------------------
EXTENDS Scheduler

D(k, n, d, u) == [k |-> k, n |-> n, d |-> d, u |-> u]
Absent   == D("absent", 0, 1, "-")
Null     == D("null", 0, 1, "-")
Num(n, d) == D("num", n, d, "-")
Str(n, d, u) == D("str", n, d, u)
StrBad   == D("strbad", 0, 1, "-")
StrEmpty == D("strempty", 0, 1, "-")
True_    == D("true", 0, 1, "-")
False_   == D("false", 0, 1, "-")
Other    == D("other", 0, 1, "-")
Sp(tt, ti) == [tt |-> tt, ti |-> ti]

\* the alphabets of the brief: 100 (ops/s), "1000 docs/s", "2 pages/s", target-interval 0.5
SpecsCore == {Sp(Num(100, 1), Absent), Sp(Str(1000, 1, "docs"), Absent), Sp(Str(2, 1, "pages"), Absent), Sp(Absent, Num(1, 2))}
SpecsEdge == {Sp(Absent, Absent), Sp(Num(100, 1), Num(1, 2)), Sp(StrBad, Absent), Sp(Num(0, 1), Absent), Sp(Num(-4, 1), Absent),
              Sp(Str(10, 1, "ops"), Absent), Sp(True_, Absent), Sp(Absent, StrBad)}
SpecsMore == {Sp(Null, Null), Sp(Str(0, 1, "docs"), Absent), Sp(StrEmpty, Absent), Sp(False_, Absent), Sp(Other, Absent),
              Sp(Absent, Num(0, 1)), Sp(Num(0, 1), Num(0, 1)), Sp(Absent, True_), Sp(Absent, False_), Sp(Absent, Num(-2, 1)),
              Sp(Null, Num(4, 1)), Sp(Str(1, 2, "docs"), Absent), Sp(Num(5, 2), Absent), Sp(Str(3, 2, "ops"), Absent),
              Sp(Absent, Num(3, 1)), Sp(Num(7, 1), Null), Sp(Absent, StrEmpty), Sp(Str(250, 1, "MB"), Absent)}
SpecsQuick == SpecsCore \cup SpecsEdge
SpecsAll   == SpecsCore \cup SpecsEdge \cup SpecsMore
SpecsNoT   == {Sp(Absent, Absent)}
SpecsNeg   == {Sp(Num(-4, 1), Absent), Sp(Absent, Num(-2, 1))}
SpecsOps   == {Sp(Num(100, 1), Absent)}
SpecsDocs  == {Sp(Str(1000, 1, "docs"), Absent)}

KindsAll == {"fn", "legacy", "simple", "full"}
KFn      == {"fn"}
KSimple  == {"simple"}
NamesC1  == {"c1"}
NamesC12 == {"c1", "c2"}
RegQuick == {"c1", "deterministic"}
RegSim   == {"c1", "c2", "poisson"}
SchedQuick == {"none", "deterministic", "poisson", "c1", "unknown"}
SchedSim   == {"none", "deterministic", "poisson", "c1", "c2", "unknown"}
SchedBuiltin == {"none", "poisson"}
SchedC1  == {"c1"}
C1 == {1}
C14 == {1, 4}
C4 == {4}
C124 == {1, 2, 4}
C1248 == {1, 2, 3, 4, 8}
HNo == {FALSE}
HBoth == {FALSE, TRUE}
W01 == {0, 1, 500}
WBrief == {0, 1, 500, 1000}
WSim == {0, 1, 2, 500, 1000}
UOD == {"ops", "docs"}
UAll == {"ops", "docs", "pages"}
N1 == {1}
N13 == {1, 3}
=============================================================================
