----------------------------- MODULE Scheduler -----------------------------
(***************************************************************************)
(* esrally/driver/scheduler.py and the part of esrally/track/track.py that  *)
(* decides which scheduler a task gets (Task.target_throughput).            *)
(*                                                                         *)
(* One behaviour = one client of one task:                                  *)
(*   register*   register_scheduler(name, obj) as a track plugin does it    *)
(*   resolve     scheduler.scheduler_for(task) (through driver.schedule_for *)
(*               when task.handle)                                          *)
(*   next        one iteration of ScheduleHandle.__call__:                  *)
(*               next_scheduled = sched.next(next_scheduled)                *)
(*   before(now) / after(now, weight, unit, meta)   ScheduleHandle forwards *)
(*                                                                         *)
(* Registered objects are described by their KIND:                          *)
(*   det / poi   the built-in classes (names deterministic / poisson)       *)
(*   fn          function current -> next            (deprecated API)       *)
(*   legacy      class __init__(self, params)        (deprecated API)       *)
(*   simple      class __init__(self, task, target_throughput) + next       *)
(*   full        class __init__(self, task) + before_request /              *)
(*               after_request / next                                       *)
(* The custom objects of the harness behave like next(current) = current +  *)
(* step (fn, legacy, full) resp. current + 1/target_throughput (simple, as  *)
(* in docs/advanced.rst) and log every call they receive (ctor, fwd).       *)
(*                                                                         *)
(* All times and rates are exact rationals [n, d] (d > 0, lowest terms).    *)
(* A Poisson schedule is kept symbolically: last.k = number of draws that   *)
(* are part of the last scheduled time, pd = the rate (lambda) of every     *)
(* draw so far; the harness compares the floats with a replica of the       *)
(* seeded generator.                                                        *)
(*                                                                         *)
(* Switches (TRUE = intended behaviour, FALSE = /repo as it is):            *)
(*   UnitCheckFirst          unit check and ops/s weight normalisation for  *)
(*                           EVERY successful response, before the weight   *)
(*                           comparison (code: only inside `first request   *)
(*                           or weight changed`)                            *)
(*   FnSchedulerWorks        a registered function is used as scheduler     *)
(*                           (code: wrapped into a one-argument lambda that *)
(*                           UnitAwareScheduler calls with two arguments)   *)
(*   GuardMissingThroughput  a simple scheduler class without target        *)
(*                           throughput is refused by scheduler_for (code:  *)
(*                           AttributeError in the first after_request)     *)
(*   RejectNegative          Task.target_throughput refuses negative        *)
(*                           numbers (code: negative waits)                 *)
(***************************************************************************)
EXTENDS Integers, Sequences, FiniteSets, TLC

CONSTANTS CustomNames,   \* names a track plugin may register
          CustomKinds,   \* kinds of objects it registers, subset of {"fn", "legacy", "simple", "full"}
          RegNames,      \* names used in register calls (CustomNames and possibly built-in names)
          SchedNames,    \* values of task.schedule; "none" = not given
          Specs,         \* [tt, ti]: descriptors of the task parameters target-throughput / target-interval
          ClientSet,     \* task.clients
          Handles,       \* subset of BOOLEAN: resolution through driver.schedule_for + ScheduleHandle
          Weights, Units, Nows,
          MaxRegs, MaxEvents,
          FnStep, LegacyStep, FullStep,
          UnitCheckFirst, FnSchedulerWorks, GuardMissingThroughput, RejectNegative

VARIABLES reg,    \* registry: name -> kind
          task,   \* [sched, spec, clients, handle]
          s,      \* scheduler + everything observed about it, see S0
          h,      \* history for the properties: [ok, w, u, mixed]: effective weight of the latest compatible successful
                  \* response, unit of the first one, have compatible responses reported different units
          cnt,    \* [regs, evs]
          act,    \* last action
          path    \* all actions so far (only for tables / schedule extraction)

vars == <<reg, task, s, h, cnt, act, path>>
view == <<reg, task, s, h, cnt>>

(***************************************************************************)
(* Rationals                                                               *)
(***************************************************************************)
Abs(x) == IF x < 0 THEN -x ELSE x

RECURSIVE GCD(_, _)
GCD(a, b) == IF b = 0 THEN a ELSE GCD(b, a % b)

Norm(n, d) ==   \* total: x/0 is read as 0 (only recorded states of a broken implementation get there)
    IF d = 0 THEN [n |-> 0, d |-> 1]
    ELSE LET sg == IF d < 0 THEN -1 ELSE 1
             g  == GCD(Abs(n), Abs(d))
         IN [n |-> sg * (n \div g), d |-> sg * (d \div g)]

QInt(i)    == [n |-> i, d |-> 1]
Zero       == QInt(0)
QAdd(a, b) == LET l == a.d * (b.d \div GCD(a.d, b.d)) IN Norm(a.n * (l \div a.d) + b.n * (l \div b.d), l)
QNeg(a)    == [n |-> -a.n, d |-> a.d]
QSub(a, b) == QAdd(a, QNeg(b))
QDiv(a, b) == Norm(a.n * b.d, a.d * b.n)
QInv(a)    == QDiv(QInt(1), a)

(***************************************************************************)
(* Task.target_throughput.  A parameter is described by [k, n, d, u]:       *)
(*   absent (key missing) | null (None) | num n/d | str "n/d u/s" (matches  *)
(*   THROUGHPUT_PATTERN, also with trailing text) | strbad (any other non-  *)
(*   empty string) | strempty | true | false | other (non-empty list ...)   *)
(***************************************************************************)
NoneKinds == {"absent", "null"}
Falsy(x)  == x.k \in {"absent", "null", "false", "strempty"} \/ (x.k = "num" /\ x.n = 0)

PErr(why) == [r |-> "err", why |-> why, v |-> Zero, u |-> "-"]
PNone     == [r |-> "none", why |-> "-", v |-> Zero, u |-> "-"]
POk(v, u, rej) == IF v.n = 0 THEN PNone
                  ELSE IF rej /\ v.n < 0 THEN PErr("value")
                  ELSE [r |-> "ok", why |-> "-", v |-> v, u |-> u]

ParseR(tt, ti, rej) ==   \* rej: negative values are refused
    IF tt.k \notin NoneKinds /\ ti.k \notin NoneKinds THEN PErr("both")
    ELSE IF ~Falsy(ti) THEN (IF ti.k # "num" THEN PErr("interval") ELSE POk(QInv(Norm(ti.n, ti.d)), "ops", rej))
    ELSE IF ~Falsy(tt) THEN
         CASE tt.k = "str"    -> POk(Norm(tt.n, tt.d), tt.u, rej)
           [] tt.k = "strbad" -> PErr("pattern")
           [] tt.k = "num"    -> POk(Norm(tt.n, tt.d), "ops", rej)
           [] OTHER           -> PErr("type")
    ELSE PNone

PFor(rej) == ParseR(task.spec.tt, task.spec.ti, rej)
P == PFor(RejectNegative)

BuiltinNames == {"deterministic", "poisson"}
Reg0 == [x \in BuiltinNames |-> IF x = "poisson" THEN "poi" ELSE "det"]
EffName == IF task.sched = "none" THEN "deterministic" ELSE task.sched
BuiltinSchedule == task.sched \in {"none"} \cup BuiltinNames

(***************************************************************************)
(* State of the scheduler object and of the observers around it             *)
(***************************************************************************)
NoFwd == [m |-> "-", now |-> 0, w |-> 0, u |-> "-", md |-> FALSE, cur |-> Zero]
S0 == [kind    |-> "unres",  \* unres | unthr | ua (UnitAwareScheduler) | legacy (LegacyWrappingScheduler) | full | fnd | err
       name    |-> "-",      \* registry name of the class / function that was resolved
       cls     |-> "-",      \* its kind
       err     |-> "-",      \* error of scheduler_for: InvalidSyntax | RallyError
       why     |-> "-",
       tput    |-> [r |-> "none", v |-> Zero, u |-> "-"],   \* task.target_throughput
       first   |-> TRUE,     \* UnitAwareScheduler.first_request
       cw      |-> 0,        \* .current_weight (0 = None)
       dk      |-> "-",      \* delegate: unthr | det | poi | simple
       rate    |-> Zero,     \* requests per second given to the delegate
       created |-> 0,        \* delegates created so far
       warned  |-> 0,        \* "throttles based on ops/s but reports ..." warnings
       last    |-> Zero,     \* last scheduled time (deterministic part)
       k       |-> 0,        \* ... plus this many Poisson draws
       pd      |-> <<>>,     \* lambda of every draw
       ctor    |-> <<>>,     \* constructor calls of custom classes: [name, args, rate]
       fwd     |-> NoFwd,    \* last call a custom object received
       ps      |-> FALSE,    \* parameter source injected into the custom (full) scheduler
       sumok   |-> TRUE,     \* the time returned by the last next() is (bit by bit) the previous one plus the draw
       exc     |-> "-"]      \* exception of the last call

Resolve ==
    LET p    == P
        base == [S0 EXCEPT !.tput = [r |-> p.r, v |-> p.v, u |-> p.u]]
        fail(e, why) == [base EXCEPT !.kind = "err", !.err = e, !.why = why, !.exc = e]
    IN  IF p.r = "err" THEN [fail("InvalidSyntax", p.why) EXCEPT !.tput = S0.tput]
        ELSE IF p.r = "none" /\ BuiltinSchedule THEN [base EXCEPT !.kind = "unthr"]
        ELSE IF EffName \notin DOMAIN reg THEN fail("RallyError", "unknown-name")
        ELSE LET c == reg[EffName]
                 found == [base EXCEPT !.name = EffName, !.cls = c]
             IN CASE c = "legacy" -> [found EXCEPT !.kind = "legacy", !.ctor = <<[name |-> EffName, args |-> "params", rate |-> Zero]>>]
                  [] c = "full"   -> [found EXCEPT !.kind = "full", !.ctor = <<[name |-> EffName, args |-> "task", rate |-> Zero]>>,
                                                   !.ps = task.handle]
                  [] c = "fn" /\ FnSchedulerWorks -> [found EXCEPT !.kind = "fnd"]
                  [] c \in {"fn", "simple"} /\ p.r = "none" /\ GuardMissingThroughput -> fail("RallyError", "needs-throughput")
                  [] OTHER -> [found EXCEPT !.kind = "ua", !.dk = "unthr"]

(* UnitAwareScheduler.after_request *)
AfterUA(x, w, u) ==
    LET tg   == x.tput
        mism == u # tg.u
        bad  == mism /\ tg.u # "ops"
        w1   == IF mism THEN 1 ELSE w
        enter == x.first \/ x.cw # (IF UnitCheckFirst THEN w1 ELSE w)
        quiet == [x EXCEPT !.exc = "-"]
    IN  IF w <= 0 THEN quiet
        ELSE IF tg.r # "ok" THEN [x EXCEPT !.exc = "AttributeError"]     \* task.target_throughput is None
        ELSE IF UnitCheckFirst /\ bad THEN [x EXCEPT !.exc = "RallyAssertionError"]
        ELSE IF ~enter THEN quiet
        ELSE IF bad THEN [x EXCEPT !.exc = "RallyAssertionError"]
        ELSE LET x1   == [x EXCEPT !.first = FALSE, !.cw = w1, !.warned = IF mism /\ x.first THEN @ + 1 ELSE @]
                 rate == QDiv(tg.v, QInt(task.clients * w1))
             IN IF x.cls = "fn" THEN [x1 EXCEPT !.exc = "TypeError"]   \* the lambda takes one argument
                ELSE [x1 EXCEPT !.dk = x.cls, !.rate = rate, !.created = @ + 1, !.exc = "-",
                                !.ctor = IF x.cls = "simple" THEN Append(@, [name |-> x.name, args |-> "task,rate", rate |-> rate]) ELSE @]

After(x, now, w, u) ==
    CASE x.kind = "ua"   -> AfterUA(x, w, u)
      [] x.kind = "full" -> [x EXCEPT !.exc = "-", !.fwd = [m |-> "after", now |-> now, w |-> w, u |-> u, md |-> TRUE, cur |-> Zero]]
      [] OTHER           -> [x EXCEPT !.exc = "-"]

Before(x, now) ==
    IF x.kind = "full" THEN [x EXCEPT !.exc = "-", !.fwd = [m |-> "before", now |-> now, w |-> 0, u |-> "-", md |-> FALSE, cur |-> Zero]]
    ELSE [x EXCEPT !.exc = "-"]

NextFwd(x) == [m |-> "next", now |-> 0, w |-> 0, u |-> "-", md |-> FALSE, cur |-> x.last]

NextOf(x) ==
    LET q == [x EXCEPT !.exc = "-"]
        step(d) == [q EXCEPT !.last = QAdd(x.last, d)]
    IN CASE x.kind = "unthr"  -> [q EXCEPT !.last = Zero, !.k = 0]
         [] x.kind = "legacy" -> [step(QInt(LegacyStep)) EXCEPT !.fwd = NextFwd(x)]
         [] x.kind = "full"   -> [step(QInt(FullStep)) EXCEPT !.fwd = NextFwd(x)]
         [] x.kind = "fnd"    -> [step(QInt(FnStep)) EXCEPT !.fwd = NextFwd(x)]
         [] x.kind = "ua" ->
              CASE x.dk = "unthr"  -> [q EXCEPT !.last = Zero, !.k = 0]
                [] x.dk = "det"    -> step(QInv(x.rate))
                [] x.dk = "simple" -> [step(QInv(x.rate)) EXCEPT !.fwd = NextFwd(x)]
                [] x.dk = "poi"    -> [q EXCEPT !.k = @ + 1, !.pd = Append(@, x.rate)]

Register(r, x, name, kind) ==
    IF name \in DOMAIN r THEN [reg |-> r, s |-> [x EXCEPT !.exc = "SystemSetupError"]]
    ELSE [reg |-> [n \in DOMAIN r \cup {name} |-> IF n = name THEN kind ELSE r[n]], s |-> [x EXCEPT !.exc = "-"]]

Resolved == s.kind \notin {"unres", "err"}

(* the step of the specification for action a *)
Apply0(a) ==
    CASE a.a = "register" -> Register(reg, s, a.name, a.kind)
      [] a.a = "resolve"  -> [reg |-> reg, s |-> Resolve]
      [] a.a = "next"     -> [reg |-> reg, s |-> NextOf(s)]
      [] a.a = "before"   -> [reg |-> reg, s |-> Before(s, a.now)]
      [] a.a = "after"    -> [reg |-> reg, s |-> After(s, a.now, a.w, a.u)]
Apply(a) == LET r == Apply0(a) IN [reg |-> r.reg, s |-> [r.s EXCEPT !.sumok = TRUE]]

CanDo(a) ==
    CASE a.a = "register" -> s.kind = "unres"
      [] a.a = "resolve"  -> s.kind = "unres"
      [] OTHER            -> Resolved

Compatible(a) == a.a = "after" /\ a.w > 0 /\ P.r = "ok" /\ (a.u = P.u \/ P.u = "ops")
HNext(a) == IF Compatible(a)
            THEN [ok |-> TRUE, w |-> IF a.u = P.u THEN a.w ELSE 1, u |-> IF h.ok THEN h.u ELSE a.u, mixed |-> h.mixed \/ (h.ok /\ a.u # h.u)]
            ELSE h
H0 == [ok |-> FALSE, w |-> 0, u |-> "-", mixed |-> FALSE]

A(name, n, k, now, w, u) == [a |-> name, name |-> n, kind |-> k, now |-> now, w |-> w, u |-> u]
Actions ==
    {A("register", n, k, 0, 0, "-") : n \in RegNames, k \in CustomKinds}
    \cup {A("resolve", "-", "-", 0, 0, "-"), A("next", "-", "-", 0, 0, "-")}
    \cup {A("before", "-", "-", t, 0, "-") : t \in Nows}
    \cup {A("after", "-", "-", t, w, u) : t \in Nows, w \in Weights, u \in Units}

Tasks == [sched : SchedNames, spec : Specs, clients : ClientSet, handle : Handles]

Init == /\ reg = Reg0
        /\ task \in Tasks
        /\ s = S0
        /\ h = H0
        /\ cnt = [regs |-> 0, evs |-> 0]
        /\ act = A("init", "-", "-", 0, 0, "-")
        /\ path = <<>>

Do(a) ==
    /\ CanDo(a)
    /\ IF a.a = "register" THEN cnt.regs < MaxRegs ELSE a.a = "resolve" \/ cnt.evs < MaxEvents
    /\ LET r == Apply(a) IN reg' = r.reg /\ s' = r.s
    /\ h' = HNext(a)
    /\ cnt' = IF a.a = "register" THEN [cnt EXCEPT !.regs = @ + 1] ELSE IF a.a = "resolve" THEN cnt ELSE [cnt EXCEPT !.evs = @ + 1]
    /\ act' = a
    /\ path' = Append(path, a)
    /\ task' = task

Next == \E a \in Actions : Do(a)

Spec == Init /\ [][Next]_vars

(***************************************************************************)
(* Properties.  Each clause is an action formula over (unprimed, primed)    *)
(* = (state before, state after) the step act'; Trace validation evaluates  *)
(* the same formulas on recorded states.                                    *)
(***************************************************************************)
Is(x) == act'.a = x
UA == s.kind = "ua"
Raised(e) == s'.exc = e
ExpRate == QDiv(P.v, QInt(task.clients * h.w))   \* requests per second and client once h.ok

(* --- registry and resolution *)
RegisterOnce ==
    Is("register") =>
        IF act'.name \in DOMAIN reg THEN Raised("SystemSetupError") /\ reg' = reg
        ELSE /\ Raised("-") /\ DOMAIN reg' = DOMAIN reg \cup {act'.name}
             /\ reg'[act'.name] = act'.kind /\ \A n \in DOMAIN reg : reg'[n] = reg[n]

RegistryStable == ~Is("register") => reg' = reg

(* The documentation says nothing about negative values: refusing them and taking them literally are both fine here. *)
ResolvedExactFor(p) ==
    /\ (s'.kind = "unthr") <=> (p.r = "none" /\ BuiltinSchedule)
    /\ (s'.err = "InvalidSyntax") <=> (p.r = "err")
    /\ (p.r # "err" /\ ~(p.r = "none" /\ BuiltinSchedule) /\ EffName \notin DOMAIN reg) => s'.err = "RallyError"
    /\ s'.kind \in {"ua", "legacy", "full", "fnd"} =>
          /\ EffName \in DOMAIN reg /\ s'.name = EffName /\ s'.cls = reg[EffName]
          /\ s'.cls \in {"det", "poi", "simple"} => s'.kind = "ua"
          /\ s'.cls = "legacy" => s'.kind = "legacy"
          /\ s'.cls = "full" => s'.kind = "full"
    /\ (s'.kind = "err") <=> (s'.err # "-")
    /\ s'.last = Zero /\ s'.k = 0

ResolvedExact == Is("resolve") => ResolvedExactFor(PFor(FALSE)) \/ ResolvedExactFor(PFor(TRUE))

ThroughputParsedFor(p) == p.r # "err" => s'.tput = [r |-> p.r, v |-> p.v, u |-> p.u]

ThroughputParsed ==   \* what task.target_throughput returns is the documented reading of the parameters
    Is("resolve") => ThroughputParsedFor(PFor(FALSE)) \/ (s'.err = "InvalidSyntax" /\ ThroughputParsedFor(PFor(TRUE)))

CtorOfRegistered == \A i \in 1..Len(s'.ctor) : s'.ctor[i].name = EffName

(* --- unthrottled *)
UnthrottledZero == Is("next") /\ s.kind = "unthr" => s'.last = Zero /\ s'.k = 0 /\ s'.pd = s.pd

(* --- unit-aware throttling, built-in deterministic schedule *)
FirstUnthrottled ==   \* until the first successful response in the target's unit every request is scheduled at 0
    Is("next") /\ UA /\ ~h.ok => s'.last = Zero /\ s'.k = 0 /\ s'.pd = s.pd

DetStep == s'.last = QAdd(s.last, QInv(ExpRate)) /\ s'.k = s.k /\ s'.pd = s.pd
PoiStep == /\ s'.k = s.k + 1 /\ s'.last = s.last
           /\ Len(s'.pd) = Len(s.pd) + 1 /\ s'.pd[Len(s'.pd)] = ExpRate /\ SubSeq(s'.pd, 1, Len(s.pd)) = s.pd

(* afterwards consecutive requests of a client are weight * clients / T apart (weight of the latest successful response in the
   unit of the target; a response in another unit counts as 1 op for an ops/s target) - as long as the runner sticks to one unit *)
Spacing == Is("next") /\ UA /\ s.cls = "det" /\ h.ok /\ ~h.mixed => DetStep

(* Poisson: one draw per request, with lambda = T / (clients * weight) *)
PoissonRate == Is("next") /\ UA /\ s.cls = "poi" /\ h.ok /\ ~h.mixed => PoiStep

TimeIsSum == s'.sumok   \* Poisson: scheduled time = previous scheduled time + the draw

DrawsOnlyInNext == ~(Is("next") /\ UA /\ s.cls = "poi") => s'.pd = s.pd

TimeOnlyInNext == ~Is("next") /\ ~Is("resolve") => s'.last = s.last /\ s'.k = s.k

RealMismatch(a) == a.a = "after" /\ a.w > 0 /\ P.r = "ok" /\ a.u # P.u /\ P.u # "ops"

RaiseOnlyOnMismatch == Raised("RallyAssertionError") => RealMismatch(act')

FirstMismatchRaises == UA /\ RealMismatch(act') /\ ~h.ok => Raised("RallyAssertionError")

ZeroWeightIgnored ==  \* a failed request (weight 0) raises nothing and never changes the schedule
    Is("after") /\ act'.w = 0 /\ s.kind # "full" => Raised("-") /\ s'.ctor = s.ctor /\ s'.fwd = s.fwd

(* --- what custom schedulers receive *)
SimpleArgs ==
    UA /\ s.cls = "simple" =>
        /\ \/ s'.ctor = s.ctor
           \/ /\ Is("after") /\ Compatible(act')
              /\ s'.ctor = Append(s.ctor, [name |-> EffName, args |-> "task,rate", rate |-> QDiv(P.v, QInt(task.clients * h'.w))])
        /\ Is("after") /\ Compatible(act') /\ ~h'.mixed /\ (~h.ok \/ h'.w # h.w) => Len(s'.ctor) = Len(s.ctor) + 1

SimpleNext ==
    Is("next") /\ UA /\ s.cls = "simple" /\ h.ok /\ Len(s.ctor) > 0 =>
        s'.fwd = NextFwd(s) /\ s'.last = QAdd(s.last, QInv(s.ctor[Len(s.ctor)].rate))

LegacyArgs ==
    /\ Is("resolve") /\ s'.kind = "legacy" => s'.ctor = <<[name |-> EffName, args |-> "params", rate |-> Zero]>>
    /\ s.kind = "legacy" => s'.ctor = s.ctor
    /\ Is("next") /\ s.kind = "legacy" => s'.fwd = NextFwd(s) /\ s'.last = QAdd(s.last, QInt(LegacyStep))
    /\ ~Is("next") /\ s.kind = "legacy" => s'.fwd = s.fwd

FullArgs ==
    /\ Is("resolve") /\ s'.kind = "full" => s'.ctor = <<[name |-> EffName, args |-> "task", rate |-> Zero]>> /\ s'.ps = task.handle
    /\ s.kind = "full" => s'.ctor = s.ctor /\ s'.ps = s.ps
    /\ Is("next") /\ s.kind = "full" => s'.fwd = NextFwd(s) /\ s'.last = QAdd(s.last, QInt(FullStep))
    /\ Is("before") /\ s.kind = "full" => s'.fwd = [m |-> "before", now |-> act'.now, w |-> 0, u |-> "-", md |-> FALSE, cur |-> Zero]
    /\ Is("after") /\ s.kind = "full" => s'.fwd = [m |-> "after", now |-> act'.now, w |-> act'.w, u |-> act'.u, md |-> TRUE, cur |-> Zero]

(* --- strong forms which /repo does not meet (each pinned by a switch) *)
SpacingAlways ==                                                                        \* UnitCheckFirst
    Is("next") /\ UA /\ h.ok => (s.cls = "det" => DetStep) /\ (s.cls = "poi" => PoiStep)

MismatchAlwaysRaises == UA /\ RealMismatch(act') => Raised("RallyAssertionError")        \* UnitCheckFirst

RecreateOnlyOnChange == s'.created > s.created => (s.created = 0 \/ s'.rate # s.rate)  \* UnitCheckFirst

NoInternalError == ~Raised("TypeError") /\ ~Raised("AttributeError")                     \* FnSchedulerWorks, GuardMissingThroughput

FnUsed ==                                                                               \* FnSchedulerWorks
    Is("next") /\ Resolved /\ s.cls = "fn" => s'.fwd = NextFwd(s) /\ s'.last = QAdd(s.last, QInt(FnStep))

MonotoneSchedule == Is("next") => QSub(s'.last, s.last).n >= 0 /\ s'.k >= s.k            \* RejectNegative

WeakClauses == {"RegisterOnce", "RegistryStable", "ResolvedExact", "ThroughputParsed", "CtorOfRegistered", "UnthrottledZero",
                "FirstUnthrottled", "Spacing", "PoissonRate", "TimeIsSum", "DrawsOnlyInNext", "TimeOnlyInNext", "RaiseOnlyOnMismatch",
                "FirstMismatchRaises", "ZeroWeightIgnored", "SimpleArgs", "SimpleNext", "LegacyArgs", "FullArgs"}
StrongClauses == {"SpacingAlways", "MismatchAlwaysRaises", "RecreateOnlyOnChange", "NoInternalError", "FnUsed", "MonotoneSchedule"}

Holds(c) ==
    CASE c = "RegisterOnce" -> RegisterOnce
      [] c = "RegistryStable" -> RegistryStable
      [] c = "ResolvedExact" -> ResolvedExact
      [] c = "ThroughputParsed" -> ThroughputParsed
      [] c = "CtorOfRegistered" -> CtorOfRegistered
      [] c = "UnthrottledZero" -> UnthrottledZero
      [] c = "FirstUnthrottled" -> FirstUnthrottled
      [] c = "Spacing" -> Spacing
      [] c = "PoissonRate" -> PoissonRate
      [] c = "TimeIsSum" -> TimeIsSum
      [] c = "DrawsOnlyInNext" -> DrawsOnlyInNext
      [] c = "TimeOnlyInNext" -> TimeOnlyInNext
      [] c = "RaiseOnlyOnMismatch" -> RaiseOnlyOnMismatch
      [] c = "FirstMismatchRaises" -> FirstMismatchRaises
      [] c = "ZeroWeightIgnored" -> ZeroWeightIgnored
      [] c = "SimpleArgs" -> SimpleArgs
      [] c = "SimpleNext" -> SimpleNext
      [] c = "LegacyArgs" -> LegacyArgs
      [] c = "FullArgs" -> FullArgs
      [] c = "SpacingAlways" -> SpacingAlways
      [] c = "MismatchAlwaysRaises" -> MismatchAlwaysRaises
      [] c = "RecreateOnlyOnChange" -> RecreateOnlyOnChange
      [] c = "NoInternalError" -> NoInternalError
      [] c = "FnUsed" -> FnUsed
      [] c = "MonotoneSchedule" -> MonotoneSchedule

Weak   == [][\A c \in WeakClauses : Holds(c)]_vars
Strong == [][\A c \in StrongClauses : Holds(c)]_vars
PSpacingAlways        == [][SpacingAlways]_vars
PMismatchAlwaysRaises == [][MismatchAlwaysRaises]_vars
PRecreateOnlyOnChange == [][RecreateOnlyOnChange]_vars
PNoInternalError      == [][NoInternalError]_vars
PFnUsed               == [][FnUsed]_vars
PMonotoneSchedule     == [][MonotoneSchedule]_vars

(* state invariants *)
TypeOK ==
    /\ s.kind \in {"unres", "unthr", "ua", "legacy", "full", "fnd", "err"}
    /\ s.rate.d > 0 /\ s.last.d > 0
    /\ s.kind = "ua" => s.dk \in {"unthr", "det", "poi", "simple"}
    /\ (s.kind = "ua" /\ s.dk # "unthr") => s.rate.n # 0 /\ ~s.first /\ s.cw > 0
    /\ s.k <= Len(s.pd)
=============================================================================
