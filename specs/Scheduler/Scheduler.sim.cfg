\* wide alphabets for `tlc -simulate` (leg S2C): the behaviours are executed on the real code
SPECIFICATION Spec
CONSTANTS
  CustomNames <- NamesC12
  CustomKinds <- KindsAll
  RegNames <- RegSim
  SchedNames <- SchedSim
  Specs <- SpecsAll
  ClientSet <- C1248
  Handles <- HBoth
  Weights <- WSim
  Units <- UAll
  Nows <- N13
  MaxRegs = 3
  MaxEvents = 12
  FnStep = 7
  LegacyStep = 3
  FullStep = 11
  UnitCheckFirst = FALSE
  FnSchedulerWorks = FALSE
  GuardMissingThroughput = FALSE
  RejectNegative = FALSE
INVARIANT TypeOK
PROPERTY Weak
CHECK_DEADLOCK FALSE
