SPECIFICATION TSpec
CONSTANTS
  CustomNames = {}
  CustomKinds = {}
  RegNames = {}
  SchedNames = {}
  Specs = {}
  ClientSet = {}
  Handles = {}
  Weights = {}
  Units = {}
  Nows = {}
  MaxRegs = 0
  MaxEvents = 0
  FnStep = 7
  LegacyStep = 3
  FullStep = 11
  UnitCheckFirst = FALSE
  FnSchedulerWorks = FALSE
  GuardMissingThroughput = FALSE
  RejectNegative = FALSE
CHECK_DEADLOCK FALSE
