-------------------------- MODULE TraceScheduler --------------------------
(***************************************************************************)
(* Validates recorded executions of the REAL esrally.driver.scheduler       *)
(* (scheduler objects obtained through scheduler.scheduler_for /            *)
(* driver.schedule_for for real track.Task objects, driven by               *)
(* harness/extras/scheduler.py) against Scheduler.tla.                      *)
(* Input (env VERIF_TRACES): JSON array of items                            *)
(*   [id, task, skip: << event numbers without L2 >>, events: << ev >>]     *)
(*   ev = [act, reg, st, fok]: the action (record of Scheduler!Actions),    *)
(*        the registry and the complete observed state s AFTER it, fok =    *)
(*        the floats of this step are what the abstraction says (returned   *)
(*        time = previous time + the draw of the seeded generator, every    *)
(*        float within 1e-9 of the recorded rational).                      *)
(* For every event TLC binds the recorded post-state and evaluates          *)
(*   L1: every clause of Scheduler.tla (weak and strong) on (state before,  *)
(*       state after),                                                      *)
(*   L2: the recorded post-state is the specification's step Apply(act).    *)
(* <<"V", id, line, "L1"|"L2", clauses>> per failing event,                 *)
(* <<"DONE", #items, #events>> at the end.                                  *)
(***************************************************************************)
EXTENDS Scheduler, Json, IOUtils

Traces == JsonDeserialize(IOEnv.VERIF_TRACES)

VARIABLES tid, l, nev

tvars == <<vars, tid, l, nev>>

NoTask == [sched |-> "none", spec |-> [tt |-> [k |-> "absent", n |-> 0, d |-> 1, u |-> "-"], ti |-> [k |-> "absent", n |-> 0, d |-> 1, u |-> "-"]],
           clients |-> 1, handle |-> FALSE]
InitAct == A("init", "-", "-", 0, 0, "-")

Fresh(i) == /\ reg' = Reg0 /\ s' = S0 /\ h' = H0 /\ cnt' = [regs |-> 0, evs |-> 0] /\ act' = InitAct /\ path' = <<>>
            /\ task' = IF i <= Len(Traces) THEN Traces[i].task ELSE NoTask

TInit == /\ tid = 1 /\ l = 1 /\ nev = 0
         /\ reg = Reg0 /\ s = S0 /\ h = H0 /\ cnt = [regs |-> 0, evs |-> 0] /\ act = InitAct /\ path = <<>>
         /\ task = IF Len(Traces) >= 1 THEN Traces[1].task ELSE NoTask

Skipped(n) == \E i \in 1..Len(Traces[tid].skip) : Traces[tid].skip[i] = n

AllClauses == WeakClauses \cup StrongClauses

Consume ==
    /\ tid <= Len(Traces)
    /\ l <= Len(Traces[tid].events)
    /\ LET e == Traces[tid].events[l]
       IN /\ act' = e.act
          /\ reg' = e.reg
          /\ s' = e.st
          /\ h' = HNext(e.act)
          /\ task' = task /\ cnt' = cnt /\ path' = <<>>
          /\ LET l1 == {c \in AllClauses : ~Holds(c)}
                 l2 == \/ Skipped(l)
                       \/ /\ e.fok
                          /\ CanDo(e.act)
                          /\ LET r == Apply(e.act) IN r.reg = e.reg /\ r.s = e.st
             IN /\ IF l1 = {} THEN TRUE ELSE PrintT(<<"V", Traces[tid].id, l, "L1", l1>>)
                /\ IF l2 THEN TRUE ELSE PrintT(<<"V", Traces[tid].id, l, "L2", {}>>)
    /\ l' = l + 1 /\ nev' = nev + 1 /\ tid' = tid

NextTrace ==
    /\ tid <= Len(Traces)
    /\ l > Len(Traces[tid].events)
    /\ Fresh(tid + 1)
    /\ tid' = tid + 1 /\ l' = 1 /\ nev' = nev
    /\ IF tid < Len(Traces) THEN TRUE ELSE PrintT(<<"DONE", Len(Traces), nev>>)

TNext == Consume \/ NextTrace
TSpec == TInit /\ [][TNext]_tvars
=============================================================================
