SPECIFICATION SpecQuick
CONSTANTS
  Scenarios = {}
  MaxSleeps = 2
  MaxCalls = 3
  WeightAsDocumented = TRUE
  RestoreOnlyIfChanged = FALSE
  PartialTerminates = TRUE
  MissingSnapshotChecked = TRUE
  ZeroDurationSafe = TRUE
  FreshPerTask = TRUE
CONSTRAINT Bounded
INVARIANT SettingRestored
CHECK_DEADLOCK FALSE
