SPECIFICATION SpecQuick
CONSTANTS
  Scenarios = {}
  MaxSleeps = 2
  MaxCalls = 3
  WeightAsDocumented = TRUE
  RestoreOnlyIfChanged = TRUE
  PartialTerminates = FALSE
  MissingSnapshotChecked = TRUE
  ZeroDurationSafe = TRUE
  FreshPerTask = TRUE
CONSTRAINT Bounded
INVARIANT NoPollAfterTerminal
CHECK_DEADLOCK FALSE
