SPECIFICATION TSpec
CONSTANTS
  Scenarios = {}
  MaxSleeps = 0
  MaxCalls = 0
  WeightAsDocumented = FALSE
  RestoreOnlyIfChanged = FALSE
  PartialTerminates = FALSE
  MissingSnapshotChecked = FALSE
  ZeroDurationSafe = FALSE
  FreshPerTask = FALSE
CHECK_DEADLOCK FALSE
