----------------------------- MODULE MC_PollingL -----------------------------
(* The thorough configurations and the simulation: wider alphabets. *)
EXTENDS MC_PollingGen

WideVariants(s) ==
    VariantsOf(s, TfScns({0}, {1, 2}, BOOLEAN, BOOLEAN, BOOLEAN, {1, 3, 100}, {BigSteps, SmallSteps}))
ThoroughFails(s) ==
    CASE s.fam = "obj" /\ s.op \in CreateOps -> 0..3
      [] s.fam = "obj" -> 0..12
      [] s.fam = "fm" -> 0..4
      [] s.fam = "snap" -> 0..6
      [] s.fam = "cur" -> 0..5
      [] s.fam = "rec" -> 0..6
      [] s.fam = "tf" -> IF s.n = 1 THEN 0..8 ELSE 0..3
      [] s.fam = "as" -> 0..9
      [] s.fam = "hl" -> 0..4
      [] s.fam = "shr" -> 0..11
      [] OTHER -> {0}
SimFails(s) == 0..14
SpecThorough == InitStaged /\ [][StagedNext(WideVariants, ThoroughFails)]_vars
SpecSim == InitStaged /\ [][StagedNext(WideVariants, SimFails)]_vars
=============================================================================
