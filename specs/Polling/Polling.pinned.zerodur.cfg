SPECIFICATION SpecQuick
CONSTANTS
  Scenarios = {}
  MaxSleeps = 2
  MaxCalls = 3
  WeightAsDocumented = TRUE
  RestoreOnlyIfChanged = TRUE
  PartialTerminates = TRUE
  MissingSnapshotChecked = TRUE
  ZeroDurationSafe = FALSE
  FreshPerTask = TRUE
CONSTRAINT Bounded
INVARIANT NoInternalError
CHECK_DEADLOCK FALSE
