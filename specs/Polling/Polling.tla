------------------------------- MODULE Polling -------------------------------
(***************************************************************************)
(* Administrative and long-running-operation runners of Rally whose        *)
(* correctness is a PROTOCOL against cluster state                         *)
(* (esrally/driver/runner.py: Create/Delete{Index, DataStream,             *)
(* ComponentTemplate, ComposableTemplate, IndexTemplate},                  *)
(* set_destructive_requires_name, ForceMerge, CreateSnapshot,              *)
(* WaitForSnapshotCreate, WaitForCurrentSnapshotsCreate, RestoreSnapshot,  *)
(* IndicesRecovery, ShrinkIndex, StartTransform, WaitForTransform, Submit- *)
(* / Get- / DeleteAsyncSearch with CompositeContext, ClusterHealth;        *)
(* the registered instances, i.e. inside runner.Retry where                *)
(* register_default_runners wraps them; docs/track.rst).                   *)
(*                                                                         *)
(* Three parties and the history of what they do:                          *)
(*  * `es`   a small cluster: which indices / data streams / component,    *)
(*           composable and legacy templates exist (names a, b), the       *)
(*           transient setting action.destructive_requires_name, a force   *)
(*           merge task, one snapshot (+ other running snapshots), the     *)
(*           recovery of an index (not scheduled / shards INIT, INDEX,     *)
(*           DONE), a batch transform (state, checkpoint progress,         *)
(*           counters), async searches, cluster health, and a clock.       *)
(*           Serve answers a request; EnvSucc are the steps the cluster    *)
(*           takes BY ITSELF at any time (the merge ends, the snapshot     *)
(*           ends SUCCESS / FAILED / PARTIAL, a shard advances, the        *)
(*           transform proceeds / stops at its checkpoint / fails, a       *)
(*           search completes, health improves).                           *)
(*  * `rn`   the runner: control state of the code of the current call of  *)
(*           the scenario's segment (scn.fam, scn.op), one deterministic   *)
(*           machine per runner: which request it sends next (ReqAt), how  *)
(*           long it sleeps (SleepAt), what it does with the answer        *)
(*           (OnResp), what it returns or raises (RetOf).  The instance    *)
(*           state of WaitForTransform (rn.inst) and the CompositeContext  *)
(*           (rn.cc) live across calls.  A wait-for-transform TASK is the  *)
(*           driver's loop: call again until runner.completed.             *)
(*  * `h`    every request with its response, every sleep and every step   *)
(*           of the cluster, in order; `calls` every runner call with what *)
(*           it returned, `completed` / `percent_completed` / the context  *)
(*           after it and the cluster state at that moment.                *)
(* One action = a call begins (Begin), one request / response (Send), one  *)
(* asyncio.sleep (Sleep), a call returns or raises (Return), the cluster   *)
(* moves (Env).  Time is counted in ticks of 0.5 s and passes in sleeps.   *)
(*                                                                         *)
(* Switches (TRUE = intended behaviour, FALSE = the code as it is):        *)
(*  WeightAsDocumented     FALSE: delete-* with only-if-exists=false count *)
(*                         the 404s; delete-composable/index-template add  *)
(*                         +1 per settings round trip and per pattern      *)
(*                         delete (docs: "weight: the number of ...        *)
(*                         that have been deleted").                       *)
(*  RestoreOnlyIfChanged   FALSE: delete-*-template mark the destructive   *)
(*                         setting as changed BEFORE reading / writing it: *)
(*                         if that read or write fails, `finally` resets   *)
(*                         the transient setting to null although it was   *)
(*                         never changed (and the prior value is unknown). *)
(*  PartialTerminates      FALSE: wait-for-snapshot-create polls for ever  *)
(*                         on a snapshot whose status is PARTIAL (whether  *)
(*                         the status API ever says so depends on the      *)
(*                         Elasticsearch version; FAILED does raise).      *)
(*  MissingSnapshotChecked FALSE: status {"snapshots": []} (snapshot does  *)
(*                         not exist, ignore_unavailable) -> IndexError.   *)
(*  ZeroDurationSafe       FALSE: a snapshot / recovery that took 0 ms ->  *)
(*                         ZeroDivisionError in the throughput.            *)
(*  FreshPerTask           FALSE: the ONE registered WaitForTransform      *)
(*                         keeps _completed / _start_time / counters after *)
(*                         a task: a second wait-for-transform task sends  *)
(*                         no stop request and reports completed at its    *)
(*                         first poll, whatever the transform does.        *)
(***************************************************************************)
EXTENDS Integers, Sequences, FiniteSets

(* A scenario: fam / op (family, operation or variant of the segment), items (object names; source indices), oie (only-if-exists),  *)
(* dmi / pat (delete-matching-indices, index-pattern; shrink-node), fail (number of the request that fails, 0: none), mo (outcome   *)
(* of the merge request ok | timeout; behaviour of the health wait ok | timeout | stale), mode (blocking | polling), wfc (wait-for- *)
(* completion), fin (state of a snapshot created with wait_for_completion), mshape (status answer for an unknown snapshot), size,  *)
(* dur (bytes and ms of the snapshot; ms per shard), ver (Elasticsearch version), n (shards; tasks; searches; data nodes), m        *)
(* (searches retrieved), pp (poll period in ticks), tmo (transform-timeout in ticks), wfcp (wait-for-checkpoint), cont (continuous  *)
(* transform), dstep / pstep (documents and ms per progress step), sync (search completes within the submit request), rus (retry-  *)
(* until-success), exp / wfnrs (wait_for_status, wait_for_no_relocating_shards), gap (ticks between two transform tasks), sfx / tgt *)
(* (suffixes of the source names, target-index), rl (shards that start moving), es0 (the initial cluster).                         *)
CONSTANTS Scenarios,            \* set of scenarios for Spec; the configurations draw the scenario in two steps (MC_PollingGen.tla)
          MaxSleeps,            \* exploration bound: sleeps per call
          MaxCalls,             \* exploration bound: calls per wait-for-transform task
          WeightAsDocumented,
          RestoreOnlyIfChanged,
          PartialTerminates,
          MissingSnapshotChecked,
          ZeroDurationSafe,
          FreshPerTask

VARIABLES scn,                  \* the scenario (constant along a behaviour)
          es,                   \* the cluster
          rn,                   \* the runner
          h,                    \* history: requests, sleeps, cluster steps
          calls                 \* history: runner calls

vars == <<scn, es, rn, h, calls>>

Min(a, b) == IF a <= b THEN a ELSE b
Max(a, b) == IF a >= b THEN a ELSE b
SetMax(S) == CHOOSE x \in S : \A y \in S : y <= x
SetMin(S) == CHOOSE x \in S : \A y \in S : x <= y
RECURSIVE GCD(_, _)
GCD(a, b) == IF b = 0 THEN a ELSE GCD(b, a % b)
(* a throughput as a reduced fraction; d = 0: no throughput reported *)
Frac(n, d) == IF d = 0 THEN [n |-> 0, d |-> 0] ELSE IF n = 0 THEN [n |-> 0, d |-> 1] ELSE LET g == GCD(n, d) IN [n |-> n \div g, d |-> d \div g]

(* ---------------------------------------------------------------------- *)
(* vocabulary                                                             *)
(* ---------------------------------------------------------------------- *)
ObjKinds == {"idx", "ds", "ct", "pt", "lt"}
NoObjs == [a |-> FALSE, b |-> FALSE]

(* a request: api, object kind (object apis only), a string, a number and a flag whose meaning depends on the api:
   create/delete/exists(k, x = name, f = 404 ignored), deletepat(x = pattern), settings.put(x = value),
   fm.merge, tasks.list, snap.create(f = wait_for_completion), snap.current(f = index_names=false sent), snap.status,
   snap.restore(f = wait_for_completion), info, idx.recovery, tf.start, tf.stop(f = wait_for_checkpoint), tf.stats,
   as.submit(y = number of the search), as.get(y = id), as.delete(y = id), health(x = wait_for_status, f = wait_for_no_relocating_shards),
   shr.get, nodes.info, shr.settings(x = source index, f = the node is a data node / the given node), shr.health(x = index),
   shr.shrink(x = source index, k = target index) *)
Req(api, k, x, y, f) == [api |-> api, k |-> k, x |-> x, y |-> y, f |-> f]
NoReq == Req("none", "", "", 0, FALSE)

(* a response: val / s / a / b / c by api:
   exists: val; delete: val = acknowledged (FALSE: ignored 404); settings.get: s = transient value;
   tasks.list: val = a force merge task is listed; snap.current: val = our snapshot is listed, a = total;
   snap.status: s = state ("nokey": no `snapshots` key, "empty": empty list), a = size, b = time_in_millis, c = file_count;
   info: s = version number; idx.recovery: val = not empty, a = shards, b = shards DONE, c = ms per shard;
   tf.stats: s = state, a = percent_complete, b = documents_processed, c = sum of the three times;
   as.submit: a = id (0: none); as.get: val = is_running; health / shr.health: s = status, a = relocating_shards;
   shr.get: a = number of matching indices; nodes.info: a = number of data nodes *)
Resp(ok, why, val, s, a, b, c) == [ok |-> ok, why |-> why, val |-> val, s |-> s, a |-> a, b |-> b, c |-> c]
Ack(val) == Resp(TRUE, "", val, "", 0, 0, 0)
FailResp(why) == Resp(FALSE, why, FALSE, "", 0, 0, 0)
NoResp == Resp(TRUE, "", FALSE, "", 0, 0, 0)

(* what a call returns: weight / unit / success ("T", "F", "-": absent) / two numbers / throughput as fraction; None = NoMeta *)
NoMeta == [w |-> -1, unit |-> "", succ |-> "-", a |-> 0, b |-> 0, tn |-> 0, td |-> 0]
Meta(w, unit, succ, a, b, tp) == [w |-> w, unit |-> unit, succ |-> succ, a |-> a, b |-> b, tn |-> tp.n, td |-> tp.d]
NoTp == [n |-> 0, d |-> 0]
Ops(w) == Meta(w, "ops", "T", 0, 0, NoTp)

CreateOps == {"ci", "cds", "cct", "cpt", "cit"}
DeleteOps == {"di", "dds", "dct", "dpt", "dit"}
KindOf(op) == CASE op \in {"ci", "di"} -> "idx" [] op \in {"cds", "dds"} -> "ds" [] op \in {"cct", "dct"} -> "ct"
                [] op \in {"cpt", "dpt"} -> "pt" [] op \in {"cit", "dit"} -> "lt" [] OTHER -> ""
ExistsKind(op) == IF op = "dds" THEN "idx" ELSE KindOf(op)      \* delete-data-stream asks indices.exists
Bracket(op) == IF op = "di" THEN "always" ELSE IF op \in {"dpt", "dit"} THEN "lazy" ELSE "never"

SegOps(sc) ==
    CASE sc.fam = "obj" -> <<sc.op>>
      [] sc.fam = "fm" -> <<"fm">>
      [] sc.fam = "snap" -> IF sc.op = "cw" THEN <<"csnap", "wsnap">> ELSE <<"wsnap">>
      [] sc.fam = "cur" -> <<"wcur">>
      [] sc.fam = "rec" -> IF sc.op = "rw" THEN <<"rsnap", "wrec">> ELSE <<"wrec">>
      [] sc.fam = "tf" -> IF sc.n = 1 THEN <<"tstart", "twait">> ELSE <<"tstart", "twait", "tstart", "twait">>
      [] sc.fam = "as" -> IF sc.n = 1 THEN <<"sub", "get", "del">> ELSE <<"sub", "sub", "get", "del">>
      [] sc.fam = "hl" -> <<"hl">>
      [] sc.fam = "shr" -> <<"shr">>
      [] OTHER -> <<>>

(* the period of the polling loop of an operation, in ticks *)
RetryWait == 1        \* runner.Retry: retry-wait-period 0.5 s
Period(sc, op) == IF op \in {"get", "hl"} THEN RetryWait ELSE sc.pp
ShrinkWait == 6       \* ShrinkIndex._wait_for: "wait a little bit before the first check", 3 s
PollApis == {"tasks.list", "snap.current", "snap.status", "idx.recovery", "tf.stats", "as.get", "health", "shr.health"}

(* ---------------------------------------------------------------------- *)
(* the cluster                                                            *)
(* ---------------------------------------------------------------------- *)
Es0 == [nreq |-> 0, now |-> 0,
        idx |-> NoObjs, ds |-> NoObjs, ct |-> NoObjs, pt |-> NoObjs, lt |-> NoObjs,
        drn |-> "none",                                            \* transient action.destructive_requires_name
        merge |-> "none",                                          \* none | run | done
        snap |-> [st |-> "none", others |-> 0],                    \* none | run | SUCCESS | FAILED | PARTIAL
        rec |-> [req |-> FALSE, sched |-> FALSE, sh |-> <<>>],     \* stages 0 INIT, 1 INDEX, 2 DONE
        tf |-> [st |-> "stopped", pct |-> 0, docs |-> 0, pt |-> 0, stopreq |-> FALSE],
        srch |-> <<>>,                                             \* run | done | gone | sync
        hl |-> [status |-> "green", reloc |-> 0],
        shr |-> <<>>]                                              \* the indices created by shrinking

Rank(s) == CASE s \in {"red", "RED"} -> 1 [] s \in {"yellow", "YELLOW"} -> 2 [] s \in {"green", "GREEN"} -> 3 [] OTHER -> 0
AllDone(sh) == \A j \in 1..Len(sh) : sh[j] = 2
NDone(sh) == Cardinality({j \in 1..Len(sh) : sh[j] = 2})
Running(e) == e.snap.others + (IF e.snap.st = "run" THEN 1 ELSE 0)
NewerThan83(v) == v \in {"8.3.0", "nonum"}                         \* "nonum": no version number -> the code assumes 8.3.0

Serve(sc, e, q) ==
    LET r == e.nreq + 1
        e1 == [e EXCEPT !.nreq = r]
        ok(p, e2) == [resp |-> p, es |-> e2, chg |-> e2 # e1]
        failed(why) == [resp |-> FailResp(why), es |-> e1, chg |-> FALSE]
    IN IF sc.fail = r THEN failed("boom")
       ELSE CASE q.api = "exists" ->
                   ok(Ack(IF q.k = "idx" THEN e.idx[q.x] \/ e.ds[q.x] ELSE e[q.k][q.x]), e1)
              [] q.api = "delete" ->
                   IF e[q.k][q.x] THEN ok(Ack(TRUE), [e1 EXCEPT ![q.k][q.x] = FALSE])
                   ELSE IF q.f THEN ok(Ack(FALSE), e1)
                   ELSE failed("notfound")
              [] q.api = "create" ->
                   IF q.k \in {"idx", "ds"} /\ e[q.k][q.x] THEN failed("exists")
                   ELSE ok(Ack(TRUE), [e1 EXCEPT ![q.k][q.x] = TRUE])
              [] q.api = "deletepat" ->
                   IF q.x # "*" \/ e.drn # "false" THEN failed("badreq")
                   ELSE ok(Ack(TRUE), [e1 EXCEPT !.idx = NoObjs])
              [] q.api = "settings.get" -> ok(Resp(TRUE, "", FALSE, e.drn, 0, 0, 0), e1)
              [] q.api = "settings.put" -> ok(Ack(TRUE), [e1 EXCEPT !.drn = q.x])
              [] q.api = "fm.merge" ->
                   IF sc.mo = "timeout" THEN [resp |-> FailResp("timeout"), es |-> [e1 EXCEPT !.merge = "run"], chg |-> TRUE]
                   ELSE ok(Ack(TRUE), [e1 EXCEPT !.merge = "done"])
              [] q.api = "tasks.list" -> ok(Ack(e.merge = "run"), e1)
              [] q.api = "snap.create" ->
                   IF e.snap.st # "none" THEN failed("exists")
                   ELSE ok(Ack(TRUE), [e1 EXCEPT !.snap.st = IF q.f THEN sc.fin ELSE "run"])
              [] q.api = "snap.current" -> ok(Resp(TRUE, "", e.snap.st = "run", "", Running(e), 0, 0), e1)
              [] q.api = "snap.status" ->
                   LET s == CASE e.snap.st = "none" -> sc.mshape [] e.snap.st = "run" -> "STARTED" [] OTHER -> e.snap.st
                   IN IF s \in {"nokey", "empty"} THEN ok(Resp(TRUE, "", FALSE, s, 0, 0, 0), e1)
                      ELSE ok(Resp(TRUE, "", FALSE, s, sc.size, sc.dur, 7), e1)
              [] q.api = "info" -> ok(Resp(TRUE, "", FALSE, sc.ver, 0, 0, 0), e1)
              [] q.api = "snap.restore" ->
                   IF q.f THEN ok(Ack(TRUE), [e1 EXCEPT !.rec = [req |-> TRUE, sched |-> TRUE, sh |-> [j \in 1..sc.n |-> 2]]])
                   ELSE ok(Ack(TRUE), [e1 EXCEPT !.rec.req = TRUE])
              [] q.api = "idx.recovery" ->
                   IF ~e.rec.sched THEN ok(Resp(TRUE, "", FALSE, "", 0, 0, 0), e1)
                   ELSE ok(Resp(TRUE, "", TRUE, "", Len(e.rec.sh), NDone(e.rec.sh), sc.dur), e1)
              [] q.api = "tf.start" ->
                   IF e.tf.st # "stopped" THEN failed("conflict")
                   ELSE ok(Ack(TRUE), [e1 EXCEPT !.tf = [@ EXCEPT !.st = "indexing", !.pct = 0, !.stopreq = FALSE]])
              [] q.api = "tf.stop" ->
                   IF e.tf.st = "indexing" /\ ~q.f THEN ok(Ack(TRUE), [e1 EXCEPT !.tf.st = "stopped"])
                   ELSE IF e.tf.st = "indexing" THEN ok(Ack(TRUE), [e1 EXCEPT !.tf.stopreq = TRUE])
                   ELSE ok(Ack(TRUE), e1)
              [] q.api = "tf.stats" -> ok(Resp(TRUE, "", FALSE, e.tf.st, e.tf.pct, e.tf.docs, e.tf.pt), e1)
              [] q.api = "as.submit" ->
                   IF sc.sync[q.y] THEN ok(Resp(TRUE, "", FALSE, "", 0, 0, 0), [e1 EXCEPT !.srch = Append(@, "sync")])
                   ELSE ok(Resp(TRUE, "", FALSE, "", Len(e.srch) + 1, 0, 0), [e1 EXCEPT !.srch = Append(@, "run")])
              [] q.api = "as.get" ->
                   IF q.y \in 1..Len(e.srch) /\ e.srch[q.y] \in {"run", "done"} THEN ok(Ack(e.srch[q.y] = "run"), e1)
                   ELSE failed("notfound")
              [] q.api = "as.delete" ->
                   IF q.y \in 1..Len(e.srch) /\ e.srch[q.y] \in {"run", "done"} THEN ok(Ack(TRUE), [e1 EXCEPT !.srch[q.y] = "gone"])
                   ELSE failed("notfound")
              [] q.api = "health" -> ok(Resp(TRUE, "", FALSE, e.hl.status, e.hl.reloc, 0, 0), e1)
              [] q.api = "shr.get" -> ok(Resp(TRUE, "", FALSE, "", Len(sc.items), 0, 0), e1)
              [] q.api = "nodes.info" -> ok(Resp(TRUE, "", FALSE, "", sc.n, 0, 0), e1)
              [] q.api = "shr.settings" -> ok(Ack(TRUE), [e1 EXCEPT !.hl.reloc = sc.rl])           \* the shards start to move
              [] q.api = "shr.health" ->
                   (* wait_for_no_relocating_shards: Elasticsearch waits ("ok"), gives up with a 408 ("timeout") or - older versions -
                      answers 200 with the shards still moving ("stale") *)
                   IF e.hl.reloc = 0 THEN ok(Resp(TRUE, "", FALSE, "green", 0, 0, 0), e1)
                   ELSE CASE sc.mo = "ok" -> ok(Resp(TRUE, "", FALSE, "green", 0, 0, 0), [e1 EXCEPT !.hl.reloc = 0])
                          [] sc.mo = "timeout" -> failed("timeout408")
                          [] OTHER -> ok(Resp(TRUE, "", FALSE, "green", e.hl.reloc, 0, 0), e1)
              [] q.api = "shr.shrink" ->
                   IF \E j \in 1..Len(e.shr) : e.shr[j] = q.k THEN failed("exists")
                   ELSE ok(Ack(TRUE), [e1 EXCEPT !.shr = Append(@, q.k), !.hl.reloc = sc.rl])
              [] OTHER -> failed("badreq")

(* what the cluster does by itself: set of [lab, n, es] *)
EnvStep(lab, n, e2) == [lab |-> lab, n |-> n, es |-> e2]
EnvSucc(sc, e) ==
    (IF e.merge = "run" THEN {EnvStep("merged", 0, [e EXCEPT !.merge = "done"])} ELSE {})
    \cup (IF e.snap.st = "run" THEN {EnvStep("snapend", 1, [e EXCEPT !.snap.st = "SUCCESS"]),
                                     EnvStep("snapend", 2, [e EXCEPT !.snap.st = "FAILED"]),
                                     EnvStep("snapend", 3, [e EXCEPT !.snap.st = "PARTIAL"])} ELSE {})
    \cup (IF e.snap.others > 0 THEN {EnvStep("otherend", 0, [e EXCEPT !.snap.others = @ - 1])} ELSE {})
    \cup (IF e.rec.req /\ ~e.rec.sched THEN {EnvStep("sched", 0, [e EXCEPT !.rec.sched = TRUE, !.rec.sh = [j \in 1..sc.n |-> 0]])} ELSE {})
    \cup (IF e.rec.sched THEN {EnvStep("shard", j, [e EXCEPT !.rec.sh[j] = @ + 1]) : j \in {i \in 1..Len(e.rec.sh) : e.rec.sh[i] < 2}} ELSE {})
    \cup (IF e.tf.st = "indexing"
          THEN (IF e.tf.docs < 6 * sc.dstep \/ e.tf.stopreq         \* exploration bound: six steps unless it is about to stop
                THEN {EnvStep("tfprog", 0,
                              LET full == e.tf.pct + 50 >= 100                       \* the checkpoint is complete
                                  stop == full /\ (~sc.cont \/ e.tf.stopreq)         \* a batch transform is done, a continuous one goes on
                              IN [e EXCEPT !.tf = [@ EXCEPT !.pct = IF full /\ ~stop THEN 0 ELSE Min(100, e.tf.pct + 50),
                                                           !.docs = @ + sc.dstep, !.pt = @ + sc.pstep,
                                                           !.st = IF stop THEN "stopped" ELSE "indexing"]])}
                ELSE {})
               \cup {EnvStep("tffail", 0, [e EXCEPT !.tf.st = "failed"])}
          ELSE {})
    \cup {EnvStep("sdone", k, [e EXCEPT !.srch[k] = "done"]) : k \in {i \in 1..Len(e.srch) : e.srch[i] = "run"}}
    \cup (IF sc.fam = "hl" /\ Rank(e.hl.status) < 3
          THEN {EnvStep("hup", 0, [e EXCEPT !.hl.status = IF e.hl.status = "red" THEN "yellow" ELSE "green"])} ELSE {})
    \cup (IF sc.fam \in {"hl", "shr"} /\ e.hl.reloc > 0 THEN {EnvStep("rdown", 0, [e EXCEPT !.hl.reloc = @ - 1])} ELSE {})

(* ---------------------------------------------------------------------- *)
(* the runner                                                             *)
(* rn = [stage   "idle" (between calls) | "run" | "end"                    *)
(*       k       position in the segment                                   *)
(*       pc      where the code of the current call stands; "sl" = in      *)
(*               asyncio.sleep (then on to rn.back), "ret" = returns       *)
(*       i       loop index (item of the list / shard / search)            *)
(*       ops     the counter the call returns as weight                    *)
(*       prior, cur   prior_destructive_setting, current_..._setting set   *)
(*       tmp     the setting read by set_destructive_requires_name         *)
(*       exc     "" | the pending exception                                *)
(*       good    `success` accumulator of get-async-search / cluster-health*)
(*       meta    the value to return                                       *)
(*       ns, nc  sleeps in this call, calls in this task (bounds only)     *)
(*       inst    the WaitForTransform instance                             *)
(*       cc]     CompositeContext: per search -1 absent, 0 None, else id   *)
(* ---------------------------------------------------------------------- *)
Inst0 == [started |-> FALSE, t0 |-> 0, comp |-> FALSE, pct |-> 0, ld |-> 0, lp |-> 0]
NoCc == <<-1, -1>>
Rn0 == [stage |-> "idle", k |-> 1, pc |-> "ret", back |-> "ret", i |-> 0, ops |-> 0, prior |-> "none", tmp |-> "none", cur |-> FALSE, exc |-> "",
        good |-> TRUE, meta |-> NoMeta, ns |-> 0, nc |-> 0, inst |-> Inst0, cc |-> NoCc]
OpOf(sc, r) == SegOps(sc)[r.k]

Raise(r, why) == [r EXCEPT !.exc = why, !.pc = "ret", !.meta = NoMeta]
Return(r, m) == [r EXCEPT !.pc = "ret", !.meta = m]
SleepThen(r, back) == [r EXCEPT !.pc = "sl", !.back = back]

(* ---- delete-* ---- *)
ToFin(sc, r) ==
    IF Bracket(sc.op) = "always" \/ (Bracket(sc.op) = "lazy" /\ r.cur) THEN [r EXCEPT !.pc = "fget"]
    ELSE IF r.exc # "" THEN [r EXCEPT !.pc = "ret", !.meta = NoMeta] ELSE Return(r, Ops(r.ops))
ToItem(sc, r, i) ==
    IF i > Len(sc.items) THEN ToFin(sc, [r EXCEPT !.i = i])
    ELSE [r EXCEPT !.i = i, !.pc = IF sc.oie THEN "ex" ELSE "del"]
AfterDel(sc, r) ==
    IF Bracket(sc.op) = "lazy" /\ sc.dmi /\ sc.pat # ""
    THEN (IF ~r.cur THEN [r EXCEPT !.cur = TRUE, !.pc = "lget"] ELSE [r EXCEPT !.pc = "pat"])
    ELSE ToItem(sc, r, r.i + 1)
(* an exception inside the try block: on to the finally clause *)
FailInTry(sc, r, why) == ToFin(sc, [r EXCEPT !.exc = why])
(* weight increments which the documentation does not count *)
Extra(n) == IF WeightAsDocumented THEN 0 ELSE n

DeleteResp(sc, r, p) ==
    CASE r.pc = "pget" -> IF p.ok THEN [r EXCEPT !.prior = p.s, !.pc = "pput"] ELSE Raise(r, p.why)
      [] r.pc = "pput" -> IF p.ok THEN ToItem(sc, r, 1) ELSE Raise(r, p.why)
      [] r.pc = "ex" -> IF ~p.ok THEN FailInTry(sc, r, p.why)
                        ELSE IF p.val THEN [r EXCEPT !.pc = "del"] ELSE AfterDel(sc, r)
      [] r.pc = "del" -> IF ~p.ok THEN FailInTry(sc, r, p.why)
                         ELSE AfterDel(sc, [r EXCEPT !.ops = @ + (IF p.val \/ ~WeightAsDocumented THEN 1 ELSE 0)])
      [] r.pc = "lget" -> IF p.ok THEN [r EXCEPT !.tmp = p.s, !.pc = "lput"]     \* prior_... is assigned when set_destructive_... returns
                          ELSE FailInTry(sc, [r EXCEPT !.cur = IF RestoreOnlyIfChanged THEN FALSE ELSE @], p.why)
      [] r.pc = "lput" -> IF p.ok THEN [r EXCEPT !.prior = r.tmp, !.ops = @ + Extra(1), !.pc = "pat"]
                          ELSE FailInTry(sc, [r EXCEPT !.cur = IF RestoreOnlyIfChanged THEN FALSE ELSE @], p.why)
      [] r.pc = "pat" -> IF p.ok THEN ToItem(sc, [r EXCEPT !.ops = @ + Extra(1)], r.i + 1) ELSE FailInTry(sc, r, p.why)
      [] r.pc = "fget" -> IF p.ok THEN [r EXCEPT !.pc = "fput"] ELSE Raise(r, p.why)       \* replaces a pending exception
      [] r.pc = "fput" -> IF ~p.ok THEN Raise(r, p.why)
                          ELSE IF r.exc # "" THEN [r EXCEPT !.pc = "ret", !.meta = NoMeta]
                          ELSE Return(r, Ops(r.ops + (IF Bracket(sc.op) = "lazy" THEN Extra(1) ELSE 0)))
      [] OTHER -> r

DeleteReq(sc, r) ==
    CASE r.pc \in {"pget", "lget", "fget"} -> Req("settings.get", "", "", 0, FALSE)
      [] r.pc \in {"pput", "lput"} -> Req("settings.put", "", "false", 0, FALSE)
      [] r.pc = "fput" -> Req("settings.put", "", r.prior, 0, FALSE)
      [] r.pc = "ex" -> Req("exists", ExistsKind(sc.op), sc.items[r.i], 0, FALSE)
      [] r.pc = "del" -> Req("delete", KindOf(sc.op), sc.items[r.i], 0, ~sc.oie)
      [] r.pc = "pat" -> Req("deletepat", "", sc.pat, 0, FALSE)
      [] OTHER -> NoReq

(* ---- wait-for-transform ---- *)
TfReturn(sc, r, p) ==
    LET comp == p.s = "stopped" \/ ~sc.wfc \/ r.inst.comp
        pct == IF p.s = "stopped" \/ ~sc.wfc THEN 100 ELSE p.a
        dd == p.b - r.inst.ld
        dp == p.c - r.inst.lp
        i2 == [r.inst EXCEPT !.comp = comp, !.pct = pct]
        tp == IF comp THEN (IF p.c > 0 THEN Frac(p.b * 1000, p.c) ELSE Frac(0, 1))
              ELSE IF dp > 0 THEN Frac(dd * 1000, dp) ELSE Frac(0, 1)
    IN IF comp \/ (dd > 5000 /\ dp > 500)
       THEN Return([r EXCEPT !.inst = [i2 EXCEPT !.ld = p.b, !.lp = p.c]], Meta(p.b, "docs", "T", 0, 0, tp))
       ELSE SleepThen([r EXCEPT !.inst = i2], "stats")

(* ---- shrink-index ---- *)
Target(sc, i) == IF sc.sfx[i] = "" THEN sc.tgt ELSE sc.tgt \o sc.sfx[i]
(* ShrinkIndex._wait_for after the sleep: cluster health inside its own Retry (retries only on time-outs, for ever) *)
ShrinkHealth(sc, r, p, next) ==
    IF ~p.ok THEN (IF p.why = "timeout408" THEN SleepThen([r EXCEPT !.cur = TRUE], r.pc) ELSE Raise(r, p.why))
    ELSE IF p.a > 0 THEN Raise(r, "assert")
    ELSE next
ShrinkResp(sc, r, p) ==
    CASE r.pc = "get" -> IF ~p.ok THEN Raise(r, p.why) ELSE [r EXCEPT !.i = 1, !.pc = IF sc.pat # "" THEN "set" ELSE "ninfo"]
      [] r.pc = "ninfo" -> IF ~p.ok THEN Raise(r, p.why) ELSE IF p.a = 0 THEN Raise(r, "assert") ELSE [r EXCEPT !.pc = "set"]
      [] r.pc = "set" -> IF ~p.ok THEN Raise(r, p.why) ELSE SleepThen([r EXCEPT !.cur = FALSE], "h1")
      [] r.pc = "h1" -> ShrinkHealth(sc, r, p, [r EXCEPT !.pc = "shrink"])
      [] r.pc = "shrink" -> IF ~p.ok THEN Raise(r, p.why) ELSE SleepThen([r EXCEPT !.cur = FALSE], "h2")
      [] r.pc = "h2" -> ShrinkHealth(sc, r, p, IF r.i < Len(sc.items) THEN [r EXCEPT !.i = @ + 1, !.pc = "set"] ELSE Return(r, Ops(Len(sc.items))))
      [] OTHER -> r
ShrinkReq(sc, r) ==
    CASE r.pc = "get" -> Req("shr.get", "", "", 0, FALSE)
      [] r.pc = "ninfo" -> Req("nodes.info", "", "", 0, FALSE)
      [] r.pc = "set" -> Req("shr.settings", "", sc.items[r.i], 0, TRUE)
      [] r.pc = "h1" -> Req("shr.health", "", sc.items[r.i], 0, TRUE)
      [] r.pc = "shrink" -> Req("shr.shrink", Target(sc, r.i), sc.items[r.i], 0, FALSE)
      [] r.pc = "h2" -> Req("shr.health", "", Target(sc, r.i), 0, TRUE)
      [] OTHER -> NoReq

(* ---- the response handlers ---- *)
OnResp(sc, r, q, p, now) ==
    LET op == OpOf(sc, r)
    IN CASE op \in DeleteOps -> DeleteResp(sc, r, p)
         [] op \in CreateOps ->
              IF ~p.ok THEN Raise(r, p.why)
              ELSE IF r.i < Len(sc.items) THEN [r EXCEPT !.i = @ + 1]
              ELSE Return(r, Ops(Len(sc.items)))
         [] op = "fm" ->
              IF r.pc = "merge"
              THEN (IF p.ok THEN Return(r, NoMeta)
                    ELSE IF p.why = "timeout" /\ sc.mode = "polling" THEN SleepThen(r, "poll")
                    ELSE Raise(r, p.why))
              ELSE (IF ~p.ok THEN Raise(r, p.why) ELSE IF p.val THEN SleepThen(r, "poll") ELSE Return(r, NoMeta))
         [] op \in {"csnap", "rsnap", "tstart"} -> IF p.ok THEN Return(r, NoMeta) ELSE Raise(r, p.why)
         [] op = "wsnap" ->
              IF ~p.ok THEN Raise(r, p.why)
              ELSE IF r.pc = "cur" THEN (IF p.val THEN SleepThen(r, "cur") ELSE [r EXCEPT !.pc = "status"])
              ELSE CASE p.s = "nokey" -> SleepThen(r, "cur")
                     [] p.s = "empty" -> IF MissingSnapshotChecked THEN SleepThen(r, "cur") ELSE Raise(r, "internal")
                     [] p.s = "FAILED" -> Raise(r, "assert")
                     [] p.s = "PARTIAL" -> IF PartialTerminates THEN Raise(r, "assert") ELSE SleepThen(r, "cur")
                     [] p.s = "SUCCESS" ->
                          IF p.b = 0 THEN (IF ZeroDurationSafe THEN Return(r, Meta(p.a, "byte", "T", p.b, p.c, Frac(0, 1))) ELSE Raise(r, "internal"))
                          ELSE Return(r, Meta(p.a, "byte", "T", p.b, p.c, Frac(p.a * 1000, p.b)))
                     [] OTHER -> SleepThen(r, "cur")
         [] op = "wcur" ->
              IF ~p.ok THEN Raise(r, p.why)
              ELSE IF r.pc = "info" THEN [r EXCEPT !.pc = "cur", !.good = NewerThan83(p.s)]
              ELSE IF p.a = 0 THEN Return(r, NoMeta) ELSE SleepThen(r, "cur")
         [] op = "wrec" ->
              IF ~p.ok THEN Raise(r, p.why)
              ELSE IF ~p.val \/ p.b < p.a THEN SleepThen(r, "rq")
              ELSE LET bytes == (p.a * (p.a + 1) * 1000) \div 2       \* shard j recovered j * 1000 bytes
                       ms == p.c * p.a                                  \* started at 100, shard j stopped at 100 + c * j
                   IN IF ms = 0 THEN (IF ZeroDurationSafe THEN Return(r, Meta(bytes, "byte", "T", 100, 100, Frac(0, 1))) ELSE Raise(r, "internal"))
                      ELSE Return(r, Meta(bytes, "byte", "T", 100, 100 + ms, Frac(bytes * 1000, ms)))
         [] op = "twait" ->
              IF ~p.ok THEN Raise(r, p.why)
              ELSE IF r.pc = "stop" THEN [r EXCEPT !.pc = "stats"]
              ELSE IF now - r.inst.t0 > sc.tmo THEN Raise(r, "assert")
              ELSE IF p.s = "failed" THEN Raise(r, "assert")
              ELSE TfReturn(sc, r, p)
         [] op = "sub" -> IF p.ok THEN Return([r EXCEPT !.cc[r.k] = p.a], NoMeta) ELSE Raise(r, p.why)
         [] op = "get" ->
              IF ~p.ok THEN Raise(r, p.why)
              ELSE LET r2 == [r EXCEPT !.good = @ /\ ~p.val, !.ops = @ + (IF p.val THEN 0 ELSE 1)]
                       nxt == {j \in (r.i + 1)..sc.m : r.cc[j] > 0}
                   IN IF nxt # {} THEN [r2 EXCEPT !.i = SetMin(nxt)]
                      ELSE IF r2.good \/ ~sc.rus THEN Return(r2, Meta(r2.ops, "ops", IF r2.good THEN "T" ELSE "F", r2.ops, 0, NoTp))
                      ELSE SleepThen(r2, "pass")
         [] op = "del" ->
              IF ~p.ok THEN Raise(r, p.why)
              ELSE LET r2 == [r EXCEPT !.cc[r.i] = -1]
                       nxt == {j \in (r.i + 1)..sc.n : r.cc[j] > 0}
                   IN IF nxt # {} THEN [r2 EXCEPT !.i = SetMin(nxt)] ELSE Return(r2, NoMeta)
         [] op = "shr" -> ShrinkResp(sc, r, p)
         [] op = "hl" ->
              IF ~p.ok THEN Raise(r, p.why)
              ELSE LET good == Rank(p.s) >= Rank(sc.exp) /\ (sc.wfnrs => p.a = 0)
                       m == Meta(1, "ops", IF good THEN "T" ELSE "F", Rank(p.s), p.a, NoTp)
                   IN IF good \/ ~sc.rus THEN Return(r, m) ELSE SleepThen(r, "hq")
         [] OTHER -> r

(* a pass of get-async-search over the searches that have an id *)
StartPass(sc, r) ==
    LET todo == {j \in 1..sc.m : r.cc[j] > 0}
    IN IF todo = {} THEN Return([r EXCEPT !.good = TRUE, !.ops = 0], Meta(0, "ops", "T", 0, 0, NoTp))
       ELSE [r EXCEPT !.pc = "g", !.i = SetMin(todo), !.good = TRUE, !.ops = 0]

BeginRn(sc, r, now) ==
    LET op == OpOf(sc, r)
        r0 == [r EXCEPT !.stage = "run", !.back = "ret", !.i = 0, !.ops = 0, !.prior = "none", !.tmp = "none", !.cur = FALSE, !.exc = "", !.good = TRUE,
                        !.meta = NoMeta, !.ns = 0]
    IN CASE op \in DeleteOps -> IF Bracket(op) = "always" THEN [r0 EXCEPT !.pc = "pget"] ELSE ToItem(sc, r0, 1)
         [] op \in CreateOps -> IF Len(sc.items) = 0 THEN Return(r0, Ops(0)) ELSE [r0 EXCEPT !.pc = "cr", !.i = 1]
         [] op = "fm" -> [r0 EXCEPT !.pc = "merge"]
         [] op = "csnap" -> [r0 EXCEPT !.pc = "cs"]
         [] op = "rsnap" -> [r0 EXCEPT !.pc = "rs"]
         [] op = "wsnap" -> [r0 EXCEPT !.pc = "cur"]
         [] op = "wcur" -> [r0 EXCEPT !.pc = "info"]
         [] op = "wrec" -> [r0 EXCEPT !.pc = "rq"]
         [] op = "tstart" -> [r0 EXCEPT !.pc = "ts", !.nc = 0]
         [] op = "twait" ->
              LET fresh == FreshPerTask /\ r.nc = 0
                  i0 == IF fresh THEN Inst0 ELSE r.inst
              IN IF i0.started THEN [r0 EXCEPT !.pc = "stats", !.inst = i0, !.nc = r.nc + 1]
                 ELSE [r0 EXCEPT !.pc = "stop", !.inst = [i0 EXCEPT !.started = TRUE, !.t0 = now], !.nc = r.nc + 1]
         [] op = "sub" -> [r0 EXCEPT !.pc = "su"]
         [] op = "get" -> StartPass(sc, r0)
         [] op = "del" ->
              LET todo == {j \in 1..sc.n : r.cc[j] > 0}
              IN IF todo = {} THEN Return(r0, NoMeta) ELSE [r0 EXCEPT !.pc = "d", !.i = SetMin(todo)]
         [] op = "hl" -> [r0 EXCEPT !.pc = "hq"]
         [] op = "shr" -> [r0 EXCEPT !.pc = "get"]
         [] OTHER -> r0

ReqAt(sc, r) ==
    LET op == OpOf(sc, r)
    IN CASE op \in DeleteOps -> DeleteReq(sc, r)
         [] op \in CreateOps -> Req("create", KindOf(op), sc.items[r.i], 0, FALSE)
         [] op = "fm" -> IF r.pc = "merge" THEN Req("fm.merge", "", "", 0, FALSE) ELSE Req("tasks.list", "", "", 0, FALSE)
         [] op = "csnap" -> Req("snap.create", "", "", 0, sc.wfc)
         [] op = "rsnap" -> Req("snap.restore", "", "", 0, sc.wfc)
         [] op = "wsnap" -> IF r.pc = "cur" THEN Req("snap.current", "", "", 0, FALSE) ELSE Req("snap.status", "", "", 0, FALSE)
         [] op = "wcur" -> IF r.pc = "info" THEN Req("info", "", "", 0, FALSE) ELSE Req("snap.current", "", "", 0, r.good)
         [] op = "wrec" -> Req("idx.recovery", "", "", 0, FALSE)
         [] op = "tstart" -> Req("tf.start", "", "", 0, FALSE)
         [] op = "twait" -> IF r.pc = "stop" THEN Req("tf.stop", "", "", 0, sc.wfcp) ELSE Req("tf.stats", "", "", 0, FALSE)
         [] op = "sub" -> Req("as.submit", "", "", r.k, FALSE)
         [] op = "get" -> Req("as.get", "", "", r.cc[r.i], FALSE)
         [] op = "del" -> Req("as.delete", "", "", r.cc[r.i], FALSE)
         [] op = "hl" -> Req("health", "", sc.exp, 0, sc.wfnrs)
         [] op = "shr" -> ShrinkReq(sc, r)
         [] OTHER -> NoReq

SleepAt(sc, r) == IF OpOf(sc, r) = "shr" THEN (IF r.cur THEN RetryWait ELSE ShrinkWait) ELSE Period(sc, OpOf(sc, r))
OnSlept(sc, r) ==
    LET r2 == [r EXCEPT !.ns = @ + 1]
    IN IF r.back = "pass" THEN StartPass(sc, r2) ELSE [r2 EXCEPT !.pc = r.back]

(* completed / percent_completed of the registered runner after a call: only wait-for-transform has them *)
CompOf(sc, r) == IF OpOf(sc, r) = "twait" THEN (IF r.inst.comp THEN "T" ELSE "F") ELSE "N"
PctOf(sc, r) == IF OpOf(sc, r) = "twait" THEN r.inst.pct ELSE -1
RetOf(sc, r) == [st |-> IF r.exc = "" THEN "ok" ELSE "err", why |-> r.exc, meta |-> IF r.exc = "" THEN r.meta ELSE NoMeta,
                 comp |-> CompOf(sc, r), pct |-> PctOf(sc, r), cc |-> r.cc]

AfterReturn(sc, r) ==
    LET failed == r.exc # ""
        again == OpOf(sc, r) = "twait" /\ ~failed /\ ~r.inst.comp          \* the driver's loop: until runner.completed
        clean == [r EXCEPT !.pc = "ret", !.back = "ret", !.i = 0, !.ops = 0, !.prior = "none", !.tmp = "none", !.cur = FALSE, !.exc = "", !.good = TRUE,
                           !.meta = NoMeta, !.ns = 0]
    IN IF again THEN [clean EXCEPT !.stage = "idle"]
       ELSE IF ~failed /\ r.k < Len(SegOps(sc)) THEN [clean EXCEPT !.stage = "idle", !.k = r.k + 1, !.nc = 0]
       ELSE [clean EXCEPT !.stage = "end", !.cc = NoCc]

(* ---------------------------------------------------------------------- *)
(* the steps                                                              *)
(* ---------------------------------------------------------------------- *)
Kind(r) == IF r.stage # "run" THEN "-" ELSE IF r.pc = "ret" THEN "R" ELSE IF r.pc = "sl" THEN "S" ELSE "Q"

EvQ(c, q, p, chg, t) == [a |-> "Q", call |-> c, req |-> q, resp |-> p, d |-> 0, chg |-> chg, lab |-> "", n |-> 0, t |-> t]
EvS(c, d, t) == [a |-> "S", call |-> c, req |-> NoReq, resp |-> NoResp, d |-> d, chg |-> FALSE, lab |-> "", n |-> 0, t |-> t]
EvE(c, lab, n, t) == [a |-> "E", call |-> c, req |-> NoReq, resp |-> NoResp, d |-> 0, chg |-> TRUE, lab |-> lab, n |-> n, t |-> t]
NewCall(sc, r) == [k |-> r.k, op |-> OpOf(sc, r), st |-> "run", why |-> "", meta |-> NoMeta, comp |-> "N", pct |-> -1, cc |-> NoCc, es |-> Es0, at |-> 0]

Init == /\ scn \in Scenarios /\ es = scn.es0 /\ rn = Rn0 /\ h = <<>> /\ calls = <<>>

(* between two tasks other tasks may run: scn.gap ticks pass before the second start-transform *)
GapAt(sc, r) == IF r.k > 1 /\ OpOf(sc, r) = "tstart" THEN sc.gap ELSE 0
Begin == /\ rn.stage = "idle"
         /\ es' = [es EXCEPT !.now = @ + GapAt(scn, rn)]
         /\ rn' = BeginRn(scn, rn, es'.now)
         /\ calls' = Append(calls, NewCall(scn, rn))
         /\ UNCHANGED <<scn, h>>
Send == /\ Kind(rn) = "Q"
        /\ LET q == ReqAt(scn, rn)
               sr == Serve(scn, es, q)
           IN /\ es' = sr.es
              /\ rn' = OnResp(scn, rn, q, sr.resp, es.now)
              /\ h' = Append(h, EvQ(Len(calls), q, sr.resp, sr.chg, es.now))
        /\ UNCHANGED <<scn, calls>>
Sleep == /\ Kind(rn) = "S"
         /\ es' = [es EXCEPT !.now = @ + SleepAt(scn, rn)]
         /\ rn' = OnSlept(scn, rn)
         /\ h' = Append(h, EvS(Len(calls), SleepAt(scn, rn), es.now))
         /\ UNCHANGED <<scn, calls>>
Ret == /\ Kind(rn) = "R"
       /\ LET x == RetOf(scn, rn)
          IN calls' = [calls EXCEPT ![Len(calls)] = [@ EXCEPT !.st = x.st, !.why = x.why, !.meta = x.meta, !.comp = x.comp, !.pct = x.pct,
                                                               !.cc = x.cc, !.es = es, !.at = Len(h)]]
       /\ rn' = AfterReturn(scn, rn)
       /\ UNCHANGED <<scn, es, h>>
(* The cluster may move at any time.  A step of the cluster commutes with a sleep, a return and the beginning of a call, so the
   model lets it move only when the runner is about to send a request (trace validation accepts it anywhere). *)
Env == /\ Kind(rn) = "Q"
       /\ \E s \in EnvSucc(scn, es) :
            /\ es' = s.es
            /\ h' = Append(h, EvE(Len(calls), s.lab, s.n, es.now))
       /\ UNCHANGED <<scn, rn, calls>>
Next == Begin \/ Send \/ Sleep \/ Ret \/ Env
Spec == Init /\ [][Next]_vars

(* exploration bound: polling loops are cut after MaxSleeps sleeps, wait-for-transform tasks after MaxCalls calls *)
Bounded == rn.ns <= MaxSleeps + (IF scn.fam = "shr" THEN 2 * Len(scn.items) ELSE 0) /\ rn.nc <= MaxCalls

(* ---------------------------------------------------------------------- *)
(* properties: state predicates over scn and the histories; XOn(C) looks   *)
(* at the calls C \subseteq 1..Len(calls) (trace validation checks the     *)
(* current call after every event and all calls at the end of a run).     *)
(* ---------------------------------------------------------------------- *)
Calls == 1..Len(calls)
H == 1..Len(h)
OfCall(c) == {i \in H : h[i].call = c}
Qs(c) == {i \in OfCall(c) : h[i].a = "Q"}
Ss(c) == {i \in OfCall(c) : h[i].a = "S"}
Api(c, api) == {i \in Qs(c) : h[i].req.api = api}
Ended(c) == calls[c].st # "run"
Ok(c) == calls[c].st = "ok"
Op(c) == calls[c].op
(* the requests a call may send after one of its requests has failed: the finally clause of the delete runners *)
Cleanup(i) == h[i].req.api \in {"settings.get", "settings.put"}
(* a failing request that the runner is documented to tolerate *)
Tolerated(i) == \/ h[i].req.api = "fm.merge" /\ h[i].resp.why = "timeout" /\ scn.mode = "polling"
                \/ h[i].req.api = "shr.health" /\ h[i].resp.why = "timeout408"
Failed(c) == {i \in Qs(c) : ~h[i].resp.ok /\ ~Tolerated(i)}
(* first call of the task that call c belongs to (tasks of several calls: wait-for-transform) *)
TaskStart(c) == SetMin({b \in 1..c : \A x \in b..c : calls[x].k = calls[c].k})
TaskCalls(c) == {x \in Calls : calls[x].k = calls[c].k}
TaskQs(c) == UNION {Qs(x) : x \in TaskCalls(c)}
PrevIn(X, i) == LET B == {j \in X : j < i} IN IF B = {} THEN 0 ELSE SetMax(B)
NextInCall(i) == LET A == {j \in OfCall(h[i].call) : j > i /\ h[j].a # "E"} IN IF A = {} THEN 0 ELSE SetMin(A)

(* ---- all operations ---- *)
(* errors surface ... *)
NoSuccessOnFailureOn(C) == \A c \in C : Ok(c) => Failed(c) = {}
(* ... as the error of the request, or as the documented assertion error - never as an internal error of the runner *)
NoInternalErrorOn(C) == \A c \in C : calls[c].st = "err" => calls[c].why # "internal"
ErrHasCauseOn(C) ==
    \A c \in C : (calls[c].st = "err" /\ calls[c].why \notin {"assert", "internal"}) => \E i \in Failed(c) : h[i].resp.why = calls[c].why
(* after a failing request nothing but the clean-up of the delete runners is sent, and nobody sleeps *)
NothingAfterErrorOn(C) ==
    \A c \in C : \A i \in Failed(c) : \A j \in OfCall(c) : (j > i /\ h[j].a \in {"Q", "S"}) => (h[j].a = "Q" /\ Cleanup(j))
OneCallAtATimeOn(C) == \A c \in C : ~Ended(c) => c = Len(calls)
(* the request that starts something is never sent twice by a call *)
Triggers == {"fm.merge", "snap.create", "snap.restore", "tf.start", "tf.stop", "as.submit"}
TriggerOnceOn(C) == \A c \in C : \A api \in Triggers : Cardinality(Api(c, api)) <= 1
(* between two polls with the same request lies exactly one sleep, of the configured period; a sleep is followed by a request *)
SleepBetweenPollsOn(C) ==
    \A c \in C :
        /\ \A i, j \in Qs(c) :
              (i < j /\ h[i].req.api \in PollApis /\ h[i].req = h[j].req /\ ~\E x \in Qs(c) : i < x /\ x < j /\ h[x].req = h[i].req)
                  => Cardinality({s \in Ss(c) : i < s /\ s < j}) = 1
        /\ \A s \in Ss(c) : /\ IF Op(c) # "shr" THEN h[s].d = Period(scn, Op(c))
                               ELSE LET p == PrevIn({j \in OfCall(c) : h[j].a # "E"}, s)
                                    IN p # 0 /\ h[p].a = "Q"
                                       /\ h[s].d = (IF h[p].req.api = "shr.health" /\ ~h[p].resp.ok THEN RetryWait ELSE ShrinkWait)
                            /\ LET nx == NextInCall(s) IN (nx # 0 => h[nx].a = "Q" /\ h[nx].req.api \in PollApis) /\ (nx = 0 => ~Ended(c))
(* the answer that ends the waiting: nothing is polled after it *)
Terminal(c, i) ==
    LET q == h[i].req
        p == h[i].resp
    IN p.ok /\ CASE q.api = "tasks.list" -> ~p.val
                 [] q.api = "snap.status" -> p.s \in {"SUCCESS", "FAILED", "PARTIAL"}
                 [] q.api = "snap.current" -> Op(c) = "wcur" /\ p.a = 0
                 [] q.api = "idx.recovery" -> p.val /\ p.b = p.a
                 [] q.api = "tf.stats" -> p.s \in {"stopped", "failed"}
                 [] OTHER -> FALSE
NoPollAfterTerminalOn(C) == \A c \in C : \A i \in Qs(c) : Terminal(c, i) => ~\E j \in OfCall(c) : j > i /\ h[j].a \in {"Q", "S"}
(* a call that returns normally returns only when the cluster is in the state it was asked to wait for *)
Holds(c) ==
    LET e == calls[c].es
        op == Op(c)
    IN CASE op = "fm" -> e.merge = "done"
         [] op = "wsnap" -> e.snap.st = "SUCCESS"
         [] op = "wcur" -> Running(e) = 0
         [] op = "wrec" -> e.rec.sched /\ AllDone(e.rec.sh)
         [] op = "twait" -> calls[c].comp = "T" => (e.tf.st = "stopped" \/ ~scn.wfc)
         [] op = "get" -> calls[c].meta.succ = "T" => \A j \in 1..scn.m : calls[c].cc[j] > 0 => e.srch[calls[c].cc[j]] # "run"
         [] op = "hl" -> calls[c].meta.succ = "T" => (Rank(e.hl.status) >= Rank(scn.exp) /\ (scn.wfnrs => e.hl.reloc = 0))
         [] op = "shr" -> e.hl.reloc = 0 /\ Len(e.shr) = Len(scn.items)
         [] OTHER -> TRUE
ReturnsOnlyWhenHoldsOn(C) == \A c \in C : Ok(c) => Holds(c)
(* retry-until-success (default of get-async-search, option of cluster-health): no unsuccessful return *)
UntilSuccessOn(C) == \A c \in C : (Ok(c) /\ Op(c) \in {"get", "hl"} /\ scn.rus) => calls[c].meta.succ = "T"
(* a snapshot that did not succeed / a failed transform is never reported as success; the assertion error has its documented cause *)
FailureRaisedOn(C) ==
    \A c \in C : Ended(c) =>
        /\ (Op(c) = "wsnap" /\ \E i \in Api(c, "snap.status") : h[i].resp.ok /\ h[i].resp.s = "FAILED") => calls[c].why = "assert"
        /\ (Op(c) = "twait" /\ \E i \in Api(c, "tf.stats") : h[i].resp.ok /\ h[i].resp.s = "failed") => calls[c].st = "err"
        /\ (Op(c) = "shr" /\ \E i \in Api(c, "shr.health") : h[i].resp.ok /\ h[i].resp.a > 0) => calls[c].why = "assert"
TaskT0(c) == IF TaskQs(c) = {} THEN 0 ELSE h[SetMin(TaskQs(c))].t
AssertHasCauseOn(C) ==
    \A c \in C : (calls[c].st = "err" /\ calls[c].why = "assert") =>
        \/ Op(c) = "wsnap" /\ \E i \in Api(c, "snap.status") : h[i].resp.s \in {"FAILED", "PARTIAL"}
        \/ Op(c) = "twait" /\ \E i \in Api(c, "tf.stats") : h[i].resp.s = "failed" \/ h[i].t - TaskT0(c) > scn.tmo
        \/ Op(c) = "shr" /\ \E i \in Qs(c) : h[i].resp.ok /\ (IF h[i].req.api = "nodes.info" THEN h[i].resp.a = 0
                                                                 ELSE h[i].req.api = "shr.health" /\ h[i].resp.a > 0)
(* only wait-for-transform has a completion state *)
NoCompletionOn(C) == \A c \in C : (Ended(c) /\ Op(c) # "twait") => (calls[c].comp = "N" /\ calls[c].pct = -1)

(* ---- create-* / delete-* ---- *)
Deletes(c) == Api(c, "delete")
Creates(c) == Api(c, "create")
(* an object is deleted only if it was seen to exist or only-if-exists is false; each listed object once, in order *)
DeleteGuardedOn(C) ==
    \A c \in C : Op(c) \in DeleteOps =>
        /\ \A i \in Deletes(c) :
              /\ h[i].req.k = KindOf(Op(c)) /\ h[i].req.f = ~scn.oie
              /\ scn.oie => LET p == PrevIn(Qs(c), i)
                             IN p # 0 /\ h[p].req = Req("exists", ExistsKind(Op(c)), h[i].req.x, 0, FALSE) /\ h[p].resp.ok /\ h[p].resp.val
        /\ \A i, j \in Deletes(c) \cup Api(c, "exists") :
              (i < j /\ h[i].req.api = h[j].req.api) =>
                  \E a, b \in 1..Len(scn.items) : a < b /\ scn.items[a] = h[i].req.x /\ scn.items[b] = h[j].req.x
        /\ \A i \in Api(c, "exists") : scn.oie
OnlyIfExistsNever404On(C) == \A c \in C : (Op(c) \in DeleteOps /\ scn.oie) => ~\E i \in Qs(c) : h[i].resp.why = "notfound"
(* docs: "weight: the number of indices / templates / data streams that have been deleted (created)" *)
Effective(c) == Cardinality({i \in Deletes(c) \cup Creates(c) : h[i].resp.ok /\ h[i].resp.val})
Mutating(c) == Cardinality({i \in Qs(c) : h[i].req.api \in {"delete", "create", "deletepat", "settings.put"}})
WeightIsEffectOn(C) == \A c \in C : (Ok(c) /\ Op(c) \in DeleteOps \cup CreateOps) => calls[c].meta.w = Effective(c)
WeightBoundsOn(C) ==
    \A c \in C : (Ok(c) /\ Op(c) \in DeleteOps \cup CreateOps) =>
        /\ Effective(c) <= calls[c].meta.w /\ calls[c].meta.w <= Mutating(c)
        /\ calls[c].meta.unit = "ops" /\ calls[c].meta.succ = "T"
(* the transient setting is put back: afterwards it has the value it had before the call, unless a settings request failed
   after the call had switched it off *)
SettingRestoredOn(C) ==
    \A c \in C : (Ended(c) /\ Op(c) \in DeleteOps) =>
        \/ calls[c].es.drn = scn.es0.drn
        \/ \E i, j \in Qs(c) : i < j /\ h[i].req = Req("settings.put", "", "false", 0, FALSE) /\ h[i].resp.ok /\ Cleanup(j) /\ ~h[j].resp.ok
(* a wildcard delete is sent only with a non-empty pattern, only for delete-matching-indices, only while the setting is switched off *)
PatternGuardedOn(C) ==
    \A c \in C : \A i \in Api(c, "deletepat") :
        /\ scn.dmi /\ h[i].req.x # "" /\ Op(c) \in {"dpt", "dit"}
        /\ LET P == {j \in Api(c, "settings.put") : j < i /\ h[j].resp.ok} IN P # {} /\ h[SetMax(P)].req.x = "false"
        /\ h[i].resp.why # "badreq"
(* delete-matching-indices: "indices with the provided index-pattern are deleted regardless whether the template existed" *)
MatchingDeletedOn(C) ==
    \A c \in C : (Ok(c) /\ Op(c) \in {"dpt", "dit"} /\ scn.dmi /\ scn.pat = "*" /\ Len(scn.items) > 0) => calls[c].es.idx = NoObjs
(* what a successful call leaves behind: every listed object created / none of them left *)
EffectOn(C) ==
    \A c \in C : Ok(c) =>
        /\ Op(c) \in CreateOps => (\A x \in 1..Len(scn.items) : calls[c].es[KindOf(Op(c))][scn.items[x]]) /\ Cardinality(Creates(c)) = Len(scn.items)
        /\ Op(c) \in DeleteOps => \A x \in 1..Len(scn.items) : ~calls[c].es[KindOf(Op(c))][scn.items[x]]
(* create-*: one request per listed object, in order *)
CreateInOrderOn(C) ==
    \A c \in C : Op(c) \in CreateOps =>
        \A i \in Qs(c) : LET pos == Cardinality({j \in Qs(c) : j <= i})
                         IN pos <= Len(scn.items) /\ h[i].req = Req("create", KindOf(Op(c)), scn.items[pos], 0, FALSE)

(* ---- force-merge ---- *)
MergeProtocolOn(C) ==
    \A c \in C : Op(c) = "fm" =>
        /\ \A i \in Qs(c) : h[i].req.api \in {"fm.merge", "tasks.list"}
        /\ \A i \in Api(c, "tasks.list") :
              /\ scn.mode = "polling" /\ \E j \in Api(c, "fm.merge") : j < i /\ h[j].resp.why = "timeout"
              /\ LET p == PrevIn({j \in OfCall(c) : h[j].a # "E"}, i) IN p # 0 /\ h[p].a = "S"
        /\ (Ended(c) /\ scn.mode # "polling") => Ss(c) = {}

(* ---- shrink-index ---- *)
Shrinks(c) == Api(c, "shr.shrink")
ShrinkProtocolOn(C) ==
    \A c \in C : Op(c) = "shr" =>
        (* an index is shrunk only after it has been pinned to one node and its shards have stopped moving *)
        /\ \A i \in Shrinks(c) :
              \E s \in Api(c, "shr.settings"), j \in Api(c, "shr.health") :
                  s < j /\ j < i /\ h[s].req.x = h[i].req.x /\ h[j].req.x = h[i].req.x /\ h[j].resp.ok /\ h[j].resp.a = 0
        (* one shrink per source index, in order, into target-index + the suffix that is left of the source's name without the
           common prefix of all source names; distinct targets *)
        /\ \A i \in Shrinks(c) :
              LET pos == Cardinality({j \in Shrinks(c) : j <= i})
              IN pos <= Len(scn.items) /\ h[i].req.x = scn.items[pos] /\ h[i].req.k = Target(scn, pos)
        /\ \A i, j \in Shrinks(c) : i # j => h[i].req.k # h[j].req.k
        (* the index is pinned to a data node (or the given node); the check waits first *)
        /\ \A i \in Api(c, "shr.settings") : h[i].req.f
        /\ \A i \in Api(c, "shr.health") : LET p == PrevIn({j \in OfCall(c) : h[j].a # "E"}, i) IN p # 0 /\ h[p].a = "S"
        (* success: every source index has been shrunk and the last target has settled *)
        /\ Ok(c) => /\ calls[c].meta = Ops(Len(scn.items)) /\ Cardinality(Shrinks(c)) = Len(scn.items)
                     /\ \A i \in Shrinks(c) : \E j \in Api(c, "shr.health") : j > i /\ h[j].req.x = h[i].req.k /\ h[j].resp.ok /\ h[j].resp.a = 0

(* ---- snapshots / recovery ---- *)
MetaFaithfulOn(C) ==
    \A c \in C : Ok(c) =>
        LET m == calls[c].meta
        IN CASE Op(c) = "wsnap" ->
                    Api(c, "snap.status") # {} /\
                    LET p == h[SetMax(Api(c, "snap.status"))].resp
                    IN m.w = p.a /\ m.unit = "byte" /\ m.succ = "T" /\ m.a = p.b /\ m.b = p.c /\ (p.b > 0 => m.tn * p.b = p.a * 1000 * m.td /\ m.td > 0)
             [] Op(c) = "wrec" ->
                    Api(c, "idx.recovery") # {} /\
                    LET p == h[SetMax(Api(c, "idx.recovery"))].resp
                    IN m.w = (p.a * (p.a + 1) * 1000) \div 2 /\ m.unit = "byte" /\ m.succ = "T" /\ m.a = 100 /\ m.b = 100 + p.c * p.a
             [] Op(c) = "twait" ->
                    Api(c, "tf.stats") # {} /\
                    LET p == h[SetMax(Api(c, "tf.stats"))].resp IN m.w = p.b /\ m.unit = "docs" /\ m.succ = "T"
             [] Op(c) = "get" ->
                    LET S == Ss(c)
                        last == {i \in Api(c, "as.get") : S = {} \/ i > SetMax(S)}
                    IN m.unit = "ops" /\ m.w = Cardinality({i \in last : ~h[i].resp.val})
                       /\ (m.succ = "T") = (\A i \in last : ~h[i].resp.val)
             [] Op(c) = "hl" ->
                    Api(c, "health") # {} /\
                    LET p == h[SetMax(Api(c, "health"))].resp
                    IN m.w = 1 /\ m.unit = "ops" /\ m.a = Rank(p.s) /\ m.b = p.a
                       /\ (m.succ = "T") = (Rank(p.s) >= Rank(scn.exp) /\ (scn.wfnrs => p.a = 0))
             [] Op(c) \in {"fm", "csnap", "rsnap", "wcur", "tstart", "sub", "del"} -> m = NoMeta
             [] OTHER -> TRUE
(* index_names=false is sent iff Elasticsearch is at least 8.3.0 *)
IndexNamesGateOn(C) == \A c \in C : Op(c) = "wcur" => \A i \in Api(c, "snap.current") : h[i].req.f = NewerThan83(scn.ver)

(* ---- wait-for-transform ---- *)
IsLastOfTask(c) == ~\E x \in TaskCalls(c) : x > c
(* a task stops the transform exactly once, with its first request *)
StopOncePerTaskOn(C) ==
    \A c \in C : Op(c) = "twait" =>
        LET T == TaskQs(c) IN T # {} => (h[SetMin(T)].req.api = "tf.stop" /\ Cardinality({i \in T : h[i].req.api = "tf.stop"}) = 1)
(* completed is reported exactly once, by the last call; percent_completed never decreases, stays in [0, 1], is 1 exactly then *)
CompletionProtocolOn(C) ==
    \A c \in C : (Op(c) = "twait" /\ Ended(c)) =>
        /\ calls[c].comp \in {"T", "F"} /\ calls[c].pct \in 0..100
        /\ calls[c].comp = "T" => (IsLastOfTask(c) /\ Ok(c))
        /\ Ok(c) => ((calls[c].comp = "T") = (calls[c].pct = 100 /\ (calls[c].es.tf.st = "stopped" \/ ~scn.wfc)))
        /\ \A x \in TaskCalls(c) : x < c => (calls[x].comp = "F" /\ (Ok(c) => calls[x].pct <= calls[c].pct))
(* the overall time-out: a poll later than transform-timeout after the task's first request ends the task *)
TimeoutHonouredOn(C) ==
    \A c \in C : Op(c) = "twait" =>
        \A i \in Api(c, "tf.stats") : (h[i].resp.ok /\ h[i].t - TaskT0(c) > scn.tmo) =>
            /\ ~\E j \in OfCall(c) : j > i /\ h[j].a \in {"Q", "S"}
            /\ Ended(c) => (calls[c].st = "err" /\ calls[c].why = "assert")

(* ---- async search ---- *)
SubmitOf(j, upto) == LET A == {i \in 1..upto : h[i].a = "Q" /\ h[i].req = Req("as.submit", "", "", j, FALSE) /\ h[i].resp.ok} IN IF A = {} THEN 0 ELSE SetMax(A)
(* the ids used are the ids returned for the named searches, in the order of the list; searches without id are skipped *)
IdsFromSubmitOn(C) ==
    \A c \in C : Op(c) \in {"get", "del"} =>
        \A i \in Api(c, "as.get") \cup Api(c, "as.delete") :
            \E j \in 1..(IF Op(c) = "get" THEN scn.m ELSE scn.n) : SubmitOf(j, i) # 0 /\ h[SubmitOf(j, i)].resp.a = h[i].req.y /\ h[i].req.y > 0
(* the context holds a search from its submission until its deletion: removed exactly when deleted *)
CtxExactOn(C) ==
    \A c \in C : (Ended(c) /\ Op(c) \in {"sub", "get", "del"}) =>
        \A j \in 1..2 :
            LET s == SubmitOf(j, calls[c].at)
                deleted == s # 0 /\ h[s].resp.a > 0
                           /\ \E i \in 1..calls[c].at : h[i].a = "Q" /\ h[i].req = Req("as.delete", "", "", h[s].resp.a, FALSE) /\ h[i].resp.ok
            IN calls[c].cc[j] = (IF s = 0 \/ deleted THEN -1 ELSE h[s].resp.a)
NoUseAfterDeleteOn(C) ==
    \A c \in C : \A i \in Api(c, "as.get") \cup Api(c, "as.delete") :
        ~\E j \in H : j < i /\ h[j].a = "Q" /\ h[j].req = Req("as.delete", "", "", h[i].req.y, FALSE) /\ h[j].resp.ok
(* delete-async-search deletes every stored search of its list *)
DeletedAllOn(C) == \A c \in C : (Ok(c) /\ Op(c) = "del") => \A j \in 1..Len(calls[c].es.srch) : calls[c].es.srch[j] \notin {"run", "done"}

(* ---- bookkeeping of the fake ---- *)
EsBooks ==
    /\ es.nreq = Cardinality({i \in H : h[i].a = "Q"})
    /\ \A i \in H : h[i].t <= es.now /\ (i > 1 => h[i - 1].t <= h[i].t)

(* As invariants the clauses are stated about the call in progress / just ended (every call is the last one while it lasts and a
   clause about an ended call only looks at the history up to its end or is re-stated by the later calls of its task). *)
Last == IF calls = <<>> THEN {} ELSE {Len(calls)}
NoSuccessOnFailure == NoSuccessOnFailureOn(Last)
NoInternalError == NoInternalErrorOn(Last)
ErrHasCause == ErrHasCauseOn(Last)
NothingAfterError == NothingAfterErrorOn(Last)
OneCallAtATime == OneCallAtATimeOn(Last)
TriggerOnce == TriggerOnceOn(Last)
SleepBetweenPolls == SleepBetweenPollsOn(Last)
NoPollAfterTerminal == NoPollAfterTerminalOn(Last)
ReturnsOnlyWhenHolds == ReturnsOnlyWhenHoldsOn(Last)
UntilSuccess == UntilSuccessOn(Last)
FailureRaised == FailureRaisedOn(Last)
AssertHasCause == AssertHasCauseOn(Last)
NoCompletion == NoCompletionOn(Last)
DeleteGuarded == DeleteGuardedOn(Last)
OnlyIfExistsNever404 == OnlyIfExistsNever404On(Last)
WeightIsEffect == WeightIsEffectOn(Last)
WeightBounds == WeightBoundsOn(Last)
SettingRestored == SettingRestoredOn(Last)
PatternGuarded == PatternGuardedOn(Last)
MatchingDeleted == MatchingDeletedOn(Last)
Effect == EffectOn(Last)
CreateInOrder == CreateInOrderOn(Last)
MergeProtocol == MergeProtocolOn(Last)
MetaFaithful == MetaFaithfulOn(Last)
IndexNamesGate == IndexNamesGateOn(Last)
StopOncePerTask == StopOncePerTaskOn(Last)
CompletionProtocol == CompletionProtocolOn(Last)
TimeoutHonoured == TimeoutHonouredOn(Last)
IdsFromSubmit == IdsFromSubmitOn(Last)
CtxExact == CtxExactOn(Last)
NoUseAfterDelete == NoUseAfterDeleteOn(Last)
DeletedAll == DeletedAllOn(Last)
ShrinkProtocol == ShrinkProtocolOn(Last)

TypeOK ==
    /\ rn.stage \in {"idle", "run", "end"}
    /\ rn.exc \in {"", "boom", "notfound", "exists", "badreq", "timeout", "conflict", "assert", "internal"}
    /\ \A c \in Calls : calls[c].st \in {"run", "ok", "err"}
    /\ \A i \in H : h[i].a \in {"Q", "S", "E"} /\ h[i].call \in 0..Len(calls)
Terminated == rn.stage = "end"
=============================================================================
