---------------------------- MODULE TracePolling ----------------------------
(***************************************************************************)
(* Validates recorded executions of the REAL registered runners (create-* /*)
(* delete-*, force-merge, create-snapshot, wait-for-snapshot-create,        *)
(* wait-for-current-snapshots-create, restore-snapshot, wait-for-recovery,  *)
(* shrink-index, start-transform, wait-for-transform, submit- / get- /      *)
(* delete-async-search, cluster-health) against a scripted fake client on   *)
(* a virtual clock (harness/extras/polling.py) against Polling.tla.         *)
(* Input (env VERIF_TRACES): JSON array of items                            *)
(*   [id, scn, cut, skip: << event numbers without L2 >>, events: << ev >>] *)
(*   ev = [a |-> "B", k, op, gap]            a runner call begins           *)
(*      | [a |-> "Q", req, resp, chg, es]    a request, its response, the   *)
(*                                           cluster after it               *)
(*      | [a |-> "S", d, es]                 asyncio.sleep(d ticks)         *)
(*      | [a |-> "E", lab, n, es]            the cluster moved by itself    *)
(*      | [a |-> "R", st, why, meta, comp, pct, cc]   the call returned /   *)
(*                                           raised; completed, percent_-   *)
(*                                           completed and the composite    *)
(*                                           context right after it         *)
(* cut: the harness has cancelled a call that polled for ever.              *)
(* For every event TLC binds the recorded post-state (histories h, calls,   *)
(* the cluster es) and evaluates                                            *)
(*   L1: every property of Polling.tla on the recorded state (the call in   *)
(*       progress; all calls at the end of the run),                        *)
(*   L2: the event is the specification's step: the request / the sleep is  *)
(*       the one the model runner takes in this state, the response is the  *)
(*       model cluster's, the cluster step is one of EnvSucc, the returned  *)
(*       value / exception / completion state are the model's.              *)
(* <<"V", id, line, "L1"|"L2", clauses>> per failing event (line = #events  *)
(* + 1: end of run), <<"DONE", #items, #events>> at the end.                *)
(***************************************************************************)
EXTENDS Polling, Json, IOUtils, TLC

Traces == JsonDeserialize(IOEnv.VERIF_TRACES)

VARIABLES tid, l, nev, dead

tvars == <<vars, tid, l, nev, dead>>

Item == Traces[tid]
NoScn == [fam |-> "", op |-> "", es0 |-> Es0]

TInit == /\ tid = 1 /\ l = 0 /\ nev = 0 /\ dead = FALSE
         /\ scn = NoScn /\ es = Es0 /\ rn = Rn0 /\ h = <<>> /\ calls = <<>>

BeginItem ==
    /\ tid <= Len(Traces) /\ l = 0
    /\ scn' = Item.scn /\ es' = Item.scn.es0 /\ rn' = Rn0 /\ h' = <<>> /\ calls' = <<>>
    /\ dead' = FALSE /\ l' = 1 /\ UNCHANGED <<tid, nev>>

Skipped(n) == \E i \in 1..Len(Item.skip) : Item.skip[i] = n
CallRunning == calls # <<>> /\ calls[Len(calls)].st = "run"

(* ---- L2: the recorded event is the step of the specification ---- *)
Conforms(e) ==
    CASE e.a = "B" -> rn.stage = "idle" /\ e.k = rn.k /\ e.op = OpOf(scn, rn) /\ e.gap = GapAt(scn, rn)
      [] e.a = "Q" -> /\ Kind(rn) = "Q"
                      /\ e.req = ReqAt(scn, rn)
                      /\ Serve(scn, es, e.req) = [resp |-> e.resp, es |-> e.es, chg |-> e.chg]
      [] e.a = "S" -> /\ Kind(rn) = "S"
                      /\ e.d = SleepAt(scn, rn)
                      /\ e.es = [es EXCEPT !.now = @ + e.d]
      [] e.a = "E" -> \E s \in EnvSucc(scn, es) : s.lab = e.lab /\ s.n = e.n /\ s.es = e.es
      [] e.a = "R" -> /\ Kind(rn) = "R"
                      /\ RetOf(scn, rn) = [st |-> e.st, why |-> e.why, meta |-> e.meta, comp |-> e.comp, pct |-> e.pct, cc |-> e.cc]
      [] OTHER -> FALSE

(* ---- binding of the recorded post-state; the model runner follows as long as the run conforms ---- *)
Apply(e, ok) ==
    /\ scn' = scn
    /\ CASE e.a = "B" -> /\ calls' = Append(calls, [k |-> e.k, op |-> e.op, st |-> "run", why |-> "", meta |-> NoMeta, comp |-> "N", pct |-> -1,
                                                    cc |-> NoCc, es |-> Es0, at |-> 0])
                         /\ h' = h /\ es' = [es EXCEPT !.now = @ + e.gap]
                         /\ rn' = IF ok THEN BeginRn(scn, rn, es'.now) ELSE rn
         [] e.a = "Q" -> /\ h' = Append(h, EvQ(Len(calls), e.req, e.resp, e.chg, es.now))
                         /\ es' = e.es /\ calls' = calls
                         /\ rn' = IF ok THEN OnResp(scn, rn, e.req, e.resp, es.now) ELSE rn
         [] e.a = "S" -> /\ h' = Append(h, EvS(Len(calls), e.d, es.now))
                         /\ es' = e.es /\ calls' = calls
                         /\ rn' = IF ok THEN OnSlept(scn, rn) ELSE rn
         [] e.a = "E" -> /\ h' = Append(h, EvE(IF CallRunning THEN Len(calls) ELSE 0, e.lab, e.n, es.now))
                         /\ es' = e.es /\ calls' = calls /\ rn' = rn
         [] e.a = "R" -> /\ calls' = [calls EXCEPT ![Len(calls)] = [@ EXCEPT !.st = e.st, !.why = e.why, !.meta = e.meta, !.comp = e.comp,
                                                                             !.pct = e.pct, !.cc = e.cc, !.es = es, !.at = Len(h)]]
                         /\ h' = h /\ es' = es
                         /\ rn' = IF ok THEN AfterReturn(scn, rn) ELSE rn
         [] OTHER -> UNCHANGED <<es, rn, h, calls>>

L1Clauses == {"NoSuccessOnFailure", "NoInternalError", "ErrHasCause", "NothingAfterError", "OneCallAtATime", "TriggerOnce", "SleepBetweenPolls",
              "NoPollAfterTerminal", "ReturnsOnlyWhenHolds", "UntilSuccess", "FailureRaised", "AssertHasCause", "NoCompletion", "DeleteGuarded",
              "OnlyIfExistsNever404", "WeightIsEffect", "WeightBounds", "SettingRestored", "PatternGuarded", "MatchingDeleted", "Effect",
              "CreateInOrder", "MergeProtocol", "MetaFaithful", "IndexNamesGate", "StopOncePerTask", "CompletionProtocol", "TimeoutHonoured",
              "IdsFromSubmit", "CtxExact", "NoUseAfterDelete", "DeletedAll", "ShrinkProtocol", "EsBooks"}

(* clause c in the state after the step, on the call in progress ("last") or on every call ("all"); mode is a literal: the calls are
   taken in the primed state *)
Pos(mode) == IF mode = "all" THEN Calls ELSE Last
HoldsOn(c, mode) ==
    CASE c = "NoSuccessOnFailure" -> NoSuccessOnFailureOn(Pos(mode))'
      [] c = "NoInternalError" -> NoInternalErrorOn(Pos(mode))'
      [] c = "ErrHasCause" -> ErrHasCauseOn(Pos(mode))'
      [] c = "NothingAfterError" -> NothingAfterErrorOn(Pos(mode))'
      [] c = "OneCallAtATime" -> OneCallAtATimeOn(Pos(mode))'
      [] c = "TriggerOnce" -> TriggerOnceOn(Pos(mode))'
      [] c = "SleepBetweenPolls" -> SleepBetweenPollsOn(Pos(mode))'
      [] c = "NoPollAfterTerminal" -> NoPollAfterTerminalOn(Pos(mode))'
      [] c = "ReturnsOnlyWhenHolds" -> ReturnsOnlyWhenHoldsOn(Pos(mode))'
      [] c = "UntilSuccess" -> UntilSuccessOn(Pos(mode))'
      [] c = "FailureRaised" -> FailureRaisedOn(Pos(mode))'
      [] c = "AssertHasCause" -> AssertHasCauseOn(Pos(mode))'
      [] c = "NoCompletion" -> NoCompletionOn(Pos(mode))'
      [] c = "DeleteGuarded" -> DeleteGuardedOn(Pos(mode))'
      [] c = "OnlyIfExistsNever404" -> OnlyIfExistsNever404On(Pos(mode))'
      [] c = "WeightIsEffect" -> WeightIsEffectOn(Pos(mode))'
      [] c = "WeightBounds" -> WeightBoundsOn(Pos(mode))'
      [] c = "SettingRestored" -> SettingRestoredOn(Pos(mode))'
      [] c = "PatternGuarded" -> PatternGuardedOn(Pos(mode))'
      [] c = "MatchingDeleted" -> MatchingDeletedOn(Pos(mode))'
      [] c = "Effect" -> EffectOn(Pos(mode))'
      [] c = "CreateInOrder" -> CreateInOrderOn(Pos(mode))'
      [] c = "MergeProtocol" -> MergeProtocolOn(Pos(mode))'
      [] c = "MetaFaithful" -> MetaFaithfulOn(Pos(mode))'
      [] c = "IndexNamesGate" -> IndexNamesGateOn(Pos(mode))'
      [] c = "StopOncePerTask" -> StopOncePerTaskOn(Pos(mode))'
      [] c = "CompletionProtocol" -> CompletionProtocolOn(Pos(mode))'
      [] c = "TimeoutHonoured" -> TimeoutHonouredOn(Pos(mode))'
      [] c = "IdsFromSubmit" -> IdsFromSubmitOn(Pos(mode))'
      [] c = "CtxExact" -> CtxExactOn(Pos(mode))'
      [] c = "NoUseAfterDelete" -> NoUseAfterDeleteOn(Pos(mode))'
      [] c = "DeletedAll" -> DeletedAllOn(Pos(mode))'
      [] c = "ShrinkProtocol" -> ShrinkProtocolOn(Pos(mode))'
      [] c = "EsBooks" -> EsBooks'

Consume ==
    /\ tid <= Len(Traces) /\ l >= 1 /\ l <= Len(Item.events)
    /\ LET e == Item.events[l]
           l2 == IF dead \/ Skipped(l) THEN FALSE ELSE Conforms(e)
       IN /\ Apply(e, l2)
          /\ LET l1 == {c \in L1Clauses : ~HoldsOn(c, "last")}
             IN /\ IF l1 = {} THEN TRUE ELSE PrintT(<<"V", Item.id, l, "L1", l1>>)
                /\ IF dead \/ l2 THEN TRUE ELSE PrintT(<<"V", Item.id, l, "L2", {e.a}>>)
          /\ dead' = (dead \/ ~l2)
    /\ l' = l + 1 /\ nev' = nev + 1
    /\ UNCHANGED tid

(* a call that the harness had to cancel: waiting for ever is legitimate only for a snapshot that does not exist (yet) *)
Stuck == CallRunning /\ ~(calls[Len(calls)].op = "wsnap" /\ es.snap.st = "none")

(* end of a run: every clause once more on ALL calls of the final state; the run is over in the model, too *)
EndOfRun ==
    /\ tid <= Len(Traces) /\ l = Len(Item.events) + 1
    /\ UNCHANGED <<vars, dead>>
    /\ LET l1 == {c \in L1Clauses : ~HoldsOn(c, "all")} \cup {c \in {"Terminates"} : Stuck}
       IN /\ IF l1 = {} THEN TRUE ELSE PrintT(<<"V", Item.id, l, "L1", l1>>)
          /\ IF dead \/ Terminated \/ (Item.cut /\ Kind(rn) \in {"Q", "S"}) THEN TRUE ELSE PrintT(<<"V", Item.id, l, "L2", {"end"}>>)
    /\ nev' = nev + 1
    /\ IF tid < Len(Traces) THEN TRUE ELSE PrintT(<<"DONE", Len(Traces), nev'>>)
    /\ tid' = tid + 1 /\ l' = 0

TNext == BeginItem \/ Consume \/ EndOfRun
TSpec == TInit /\ [][TNext]_tvars
=============================================================================
