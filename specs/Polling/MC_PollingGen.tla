----------------------------- MODULE MC_PollingGen ---------------------------
(* Scenarios for the configurations of Polling.tla.  A scenario fixes the family, the operation, its parameters, the        *)
(* initial cluster and one scripted failing request; what the cluster does by itself is chosen by TLC (action Env).        *)
(* The scenario is chosen in two steps of the behaviour (everything but the failing request, then the failing request):    *)
(* wide alphabets then need neither a huge set of initial states (computed by one thread) nor huge constant sets (TLC      *)
(* evaluates every constant definition of the modules it loads).                                                           *)
EXTENDS Polling

Base == [fam |-> "", op |-> "", items |-> <<>>, oie |-> FALSE, dmi |-> FALSE, pat |-> "", fail |-> 0,
         mo |-> "ok", mode |-> "blocking", wfc |-> FALSE, fin |-> "SUCCESS", mshape |-> "nokey", size |-> 4000, dur |-> 2,
         ver |-> "8.3.0", n |-> 1, m |-> 1, pp |-> 2, tmo |-> 100, wfcp |-> TRUE, cont |-> FALSE, dstep |-> 6000, pstep |-> 600,
         sync |-> <<FALSE, FALSE>>, rus |-> TRUE, exp |-> "", wfnrs |-> FALSE, gap |-> 0, sfx |-> <<>>, tgt |-> "", rl |-> 0, es0 |-> Es0]

Objs(x) == [a |-> "a" \in x, b |-> "b" \in x]
NameSets == SUBSET {"a", "b"}
ItemLists == {<<"a">>, <<"a", "b">>}

(* ---- create-* / delete-* ---- *)
ObjScn(op, items, oie, dmi, pat, fail, have, idx, drn) ==
    [Base EXCEPT !.fam = "obj", !.op = op, !.items = items, !.oie = oie, !.dmi = dmi, !.pat = pat, !.fail = fail,
                 !.es0 = [[Es0 EXCEPT ![KindOf(op)] = Objs(have)] EXCEPT !.idx = IF KindOf(op) = "idx" THEN Objs(have) ELSE Objs(idx), !.drn = drn]]
Drops == {<<FALSE, "">>, <<TRUE, "*">>, <<TRUE, "">>, <<FALSE, "*">>}          \* delete-matching-indices, index-pattern
CreateScnsOf(ops, fails) ==
    {ObjScn(op, items, FALSE, FALSE, "", f, have, {}, "none") : op \in ops, items \in ItemLists \cup {<<>>}, f \in fails, have \in NameSets}
PlainDeleteScnsOf(ops, fails) ==
    {ObjScn(op, items, oie, FALSE, "", f, have, {}, drn) :
        op \in ops, items \in ItemLists, oie \in BOOLEAN, f \in fails, have \in NameSets, drn \in {"none", "true"}}
TemplateDeleteScnsOf(ops, fails) ==
    {ObjScn(op, items, oie, dp[1], dp[2], f, have, idx, drn) :
        op \in ops, items \in ItemLists, oie \in BOOLEAN, dp \in Drops,
        f \in fails, have \in {{}, {"a"}, {"a", "b"}}, idx \in {{}, {"a", "b"}}, drn \in {"none", "true"}}
CreateScns(fails) == CreateScnsOf(CreateOps, fails)
PlainDeleteScns(fails) == PlainDeleteScnsOf({"di", "dds", "dct"}, fails)
TemplateDeleteScns(fails) == TemplateDeleteScnsOf({"dpt", "dit"}, fails)
ObjScns(fails) == CreateScns(fails) \cup PlainDeleteScns(fails) \cup TemplateDeleteScns(fails)

(* ---- force-merge ---- *)
FmScns(fails) == {[Base EXCEPT !.fam = "fm", !.mode = mode, !.mo = mo, !.pp = pp, !.fail = f] :
                    mode \in {"blocking", "polling"}, mo \in {"ok", "timeout"}, pp \in {2, 20}, f \in fails}

(* ---- snapshots ---- *)
SnapEs(st, others) == [Es0 EXCEPT !.snap = [st |-> st, others |-> others]]
SnapScns(fails) ==
    {[Base EXCEPT !.fam = "snap", !.op = "cw", !.wfc = wfc, !.fin = fin, !.dur = dur, !.fail = f, !.pp = 2] :
        wfc \in BOOLEAN, fin \in {"SUCCESS", "FAILED", "PARTIAL"}, dur \in {0, 2}, f \in fails}
    \cup {[Base EXCEPT !.fam = "snap", !.op = "w", !.mshape = ms, !.dur = dur, !.fail = f, !.pp = 1, !.es0 = SnapEs(st, 0)] :
        ms \in {"nokey", "empty"}, dur \in {0, 2}, f \in fails, st \in {"none", "run", "SUCCESS", "FAILED", "PARTIAL"}}
CurScns(fails) ==
    {[Base EXCEPT !.fam = "cur", !.ver = v, !.fail = f, !.pp = 2, !.es0 = SnapEs(st, o)] :
        v \in {"7.17.3", "8.3.0", "nonum"}, f \in fails, st \in {"none", "run", "SUCCESS"}, o \in 0..2}

(* ---- restore + recovery ---- *)
RecScns(fails) ==
    {[Base EXCEPT !.fam = "rec", !.op = "rw", !.wfc = wfc, !.n = n, !.dur = dur, !.fail = f, !.pp = 2] :
        wfc \in BOOLEAN, n \in 1..2, dur \in {0, 2}, f \in fails}
    \cup {[Base EXCEPT !.fam = "rec", !.op = "w", !.n = 1, !.dur = 2, !.fail = f, !.pp = 1,
                       !.es0 = [Es0 EXCEPT !.rec = [req |-> TRUE, sched |-> TRUE, sh |-> <<s>>]]] : f \in fails, s \in 0..2}

(* ---- transforms ---- *)
TfScns(fails, tasks, wfcs, wfcps, conts, tmos, steps) ==
    {[Base EXCEPT !.fam = "tf", !.n = n, !.wfc = wfc, !.wfcp = wfcp, !.cont = cont, !.tmo = tmo, !.dstep = ds[1], !.pstep = ds[2], !.pp = 1, !.fail = f,
                 !.gap = IF n = 2 /\ tmo < 100 THEN 10 ELSE 0] :
        n \in tasks, wfc \in wfcs, wfcp \in wfcps, cont \in conts, tmo \in tmos, ds \in steps, f \in fails}
BigSteps == <<6000, 600>>
SmallSteps == <<100, 30>>

(* ---- async search ---- *)
AsScns(fails) ==
    {[Base EXCEPT !.fam = "as", !.n = n, !.m = m, !.sync = sy, !.rus = rus, !.fail = f] :
        n \in 1..2, m \in 1..2, sy \in {<<FALSE, FALSE>>, <<TRUE, FALSE>>, <<FALSE, TRUE>>, <<TRUE, TRUE>>}, rus \in BOOLEAN, f \in fails}
AsCanon(s) == s.m <= s.n /\ (s.n = 1 => ~s.sync[2])

(* ---- cluster health ---- *)
HlScns(fails) ==
    {[Base EXCEPT !.fam = "hl", !.exp = x, !.wfnrs = w, !.rus = rus, !.fail = f, !.es0 = [Es0 EXCEPT !.hl = [status |-> st, reloc |-> rl]]] :
        x \in {"", "yellow", "green", "GREEN", "purple"}, w \in BOOLEAN, rus \in BOOLEAN, f \in fails, st \in {"red", "yellow", "green"}, rl \in 0..1}

(* ---- shrink-index: source indices with the suffixes that are left without their common prefix ---- *)
ShrinkSources == {<<<<"src">>, <<"">>>>, <<<<"src-a", "src-b">>, <<"a", "b">>>>, <<<<"src1", "src-2020">>, <<"1", "-2020">>>>, <<<<"ab", "abc">>, <<"", "c">>>>}
ShrScns(fails) ==
    {[Base EXCEPT !.fam = "shr", !.items = ss[1], !.sfx = ss[2], !.tgt = "tgt", !.pat = node, !.n = n, !.rl = rl, !.mo = mo, !.fail = f] :
        ss \in ShrinkSources, node \in {"", "n0"}, n \in 0..2, rl \in 0..1, mo \in {"ok", "timeout", "stale"}, f \in fails}

(* ---- the scenario is chosen in the first two steps ---- *)
Seeds ==
    {[Base EXCEPT !.fam = "obj", !.op = op] : op \in CreateOps \cup DeleteOps}
    \cup {[Base EXCEPT !.fam = f[1], !.op = f[2]] :
            f \in {<<"fm", "">>, <<"snap", "cw">>, <<"snap", "w">>, <<"cur", "">>, <<"rec", "rw">>, <<"rec", "w">>, <<"tf", "">>, <<"as", "">>, <<"hl", "">>, <<"shr", "">>}}
InitStaged == /\ scn \in Seeds /\ es = Es0 /\ rn = [Rn0 EXCEPT !.stage = "cfgA"] /\ h = <<>> /\ calls = <<>>
ChooseA(V(_)) == /\ rn.stage = "cfgA"
                 /\ \E s \in V(scn) : scn' = s /\ es' = s.es0
                 /\ rn' = [rn EXCEPT !.stage = "cfgB"] /\ UNCHANGED <<h, calls>>
ChooseB(F(_)) == /\ rn.stage = "cfgB"
                 /\ \E f \in F(scn) : scn' = [scn EXCEPT !.fail = f]
                 /\ rn' = [rn EXCEPT !.stage = "idle"] /\ UNCHANGED <<es, h, calls>>
StagedNext(V(_), F(_)) == ChooseA(V) \/ ChooseB(F) \/ Next
TypeOKStaged == rn.stage \in {"cfgA", "cfgB"} \/ TypeOK

(* everything but the failing request, per seed *)
VariantsOf(s, tfs) ==
    CASE s.fam = "obj" /\ s.op \in CreateOps -> CreateScnsOf({s.op}, {0})
      [] s.fam = "obj" /\ s.op \in {"di", "dds", "dct"} -> PlainDeleteScnsOf({s.op}, {0})
      [] s.fam = "obj" -> TemplateDeleteScnsOf({s.op}, {0})
      [] s.fam = "fm" -> FmScns({0})
      [] s.fam = "snap" -> {x \in SnapScns({0}) : x.op = s.op}
      [] s.fam = "cur" -> CurScns({0})
      [] s.fam = "rec" -> {x \in RecScns({0}) : x.op = s.op}
      [] s.fam = "tf" -> tfs
      [] s.fam = "as" -> {x \in AsScns({0}) : AsCanon(x)}
      [] s.fam = "hl" -> HlScns({0})
      [] s.fam = "shr" -> ShrScns({0})
      [] OTHER -> {}
=============================================================================
