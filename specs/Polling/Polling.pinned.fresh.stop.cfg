SPECIFICATION SpecQuick
CONSTANTS
  Scenarios = {}
  MaxSleeps = 2
  MaxCalls = 3
  WeightAsDocumented = TRUE
  RestoreOnlyIfChanged = TRUE
  PartialTerminates = TRUE
  MissingSnapshotChecked = TRUE
  ZeroDurationSafe = TRUE
  FreshPerTask = FALSE
CONSTRAINT Bounded
INVARIANT StopOncePerTask
CHECK_DEADLOCK FALSE
