SPECIFICATION SpecQuick
CONSTANTS
  Scenarios = {}
  MaxSleeps = 2
  MaxCalls = 3
  WeightAsDocumented = FALSE
  RestoreOnlyIfChanged = TRUE
  PartialTerminates = TRUE
  MissingSnapshotChecked = TRUE
  ZeroDurationSafe = TRUE
  FreshPerTask = TRUE
CONSTRAINT Bounded
INVARIANT WeightIsEffect
CHECK_DEADLOCK FALSE
