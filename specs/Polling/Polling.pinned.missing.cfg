SPECIFICATION SpecQuick
CONSTANTS
  Scenarios = {}
  MaxSleeps = 2
  MaxCalls = 3
  WeightAsDocumented = TRUE
  RestoreOnlyIfChanged = TRUE
  PartialTerminates = TRUE
  MissingSnapshotChecked = FALSE
  ZeroDurationSafe = TRUE
  FreshPerTask = TRUE
CONSTRAINT Bounded
INVARIANT NoInternalError
CHECK_DEADLOCK FALSE
