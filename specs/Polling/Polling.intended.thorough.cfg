SPECIFICATION SpecThorough
CONSTANTS
  Scenarios = {}
  MaxSleeps = 5
  MaxCalls = 5
  WeightAsDocumented = TRUE
  RestoreOnlyIfChanged = TRUE
  PartialTerminates = TRUE
  MissingSnapshotChecked = TRUE
  ZeroDurationSafe = TRUE
  FreshPerTask = TRUE
CONSTRAINT Bounded
INVARIANT TypeOKStaged
INVARIANT EsBooks
INVARIANT NoSuccessOnFailure
INVARIANT ErrHasCause
INVARIANT NothingAfterError
INVARIANT OneCallAtATime
INVARIANT TriggerOnce
INVARIANT SleepBetweenPolls
INVARIANT UntilSuccess
INVARIANT FailureRaised
INVARIANT NoCompletion
INVARIANT DeleteGuarded
INVARIANT OnlyIfExistsNever404
INVARIANT WeightBounds
INVARIANT PatternGuarded
INVARIANT MatchingDeleted
INVARIANT Effect
INVARIANT CreateInOrder
INVARIANT MergeProtocol
INVARIANT MetaFaithful
INVARIANT IndexNamesGate
INVARIANT TimeoutHonoured
INVARIANT IdsFromSubmit
INVARIANT CtxExact
INVARIANT NoUseAfterDelete
INVARIANT DeletedAll
INVARIANT ShrinkProtocol
INVARIANT NoInternalError
INVARIANT WeightIsEffect
INVARIANT SettingRestored
INVARIANT NoPollAfterTerminal
INVARIANT ReturnsOnlyWhenHolds
INVARIANT AssertHasCause
INVARIANT StopOncePerTask
INVARIANT CompletionProtocol
CHECK_DEADLOCK FALSE
