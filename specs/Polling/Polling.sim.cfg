SPECIFICATION SpecSim
CONSTANTS
  Scenarios = {}
  MaxSleeps = 4
  MaxCalls = 4
  WeightAsDocumented = FALSE
  RestoreOnlyIfChanged = FALSE
  PartialTerminates = FALSE
  MissingSnapshotChecked = FALSE
  ZeroDurationSafe = FALSE
  FreshPerTask = FALSE
CONSTRAINT Bounded
INVARIANT TypeOKStaged
INVARIANT EsBooks
INVARIANT NoSuccessOnFailure
INVARIANT ErrHasCause
INVARIANT NothingAfterError
INVARIANT OneCallAtATime
INVARIANT TriggerOnce
INVARIANT SleepBetweenPolls
INVARIANT UntilSuccess
INVARIANT FailureRaised
INVARIANT NoCompletion
INVARIANT DeleteGuarded
INVARIANT OnlyIfExistsNever404
INVARIANT WeightBounds
INVARIANT PatternGuarded
INVARIANT MatchingDeleted
INVARIANT Effect
INVARIANT CreateInOrder
INVARIANT MergeProtocol
INVARIANT MetaFaithful
INVARIANT IndexNamesGate
INVARIANT TimeoutHonoured
INVARIANT IdsFromSubmit
INVARIANT CtxExact
INVARIANT NoUseAfterDelete
INVARIANT DeletedAll
INVARIANT ShrinkProtocol
CHECK_DEADLOCK FALSE
