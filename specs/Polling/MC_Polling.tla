----------------------------- MODULE MC_Polling -----------------------------
(* The quick configurations and the self-tests (generators: MC_PollingGen.tla). *)
EXTENDS MC_PollingGen

QuickVariants(s) ==
    VariantsOf(s, TfScns({0}, {1}, BOOLEAN, BOOLEAN, BOOLEAN, {1, 100}, {BigSteps, SmallSteps})
                  \cup TfScns({0}, {2}, {TRUE}, {TRUE}, BOOLEAN, {3, 100}, {BigSteps, SmallSteps}))
(* the failing request: every request of the longest run of the family (none for the two-task transform scenarios) *)
QuickFails(s) ==
    CASE s.fam = "obj" /\ s.op \in CreateOps -> 0..2
      [] s.fam = "obj" /\ s.op \in {"di", "dds", "dct"} -> 0..8
      [] s.fam = "obj" -> 0..10
      [] s.fam = "fm" -> 0..3
      [] s.fam = "snap" -> 0..4
      [] s.fam = "cur" -> 0..3
      [] s.fam = "rec" -> 0..3
      [] s.fam = "tf" -> IF s.n = 1 THEN 0..4 ELSE {0}
      [] s.fam = "as" -> 0..6
      [] s.fam = "hl" -> 0..2
      [] s.fam = "shr" -> 0..6
      [] OTHER -> {0}
SpecQuick == InitStaged /\ [][StagedNext(QuickVariants, QuickFails)]_vars
=============================================================================
