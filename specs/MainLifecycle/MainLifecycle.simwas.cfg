SPECIFICATION Spec
CONSTANTS
  Scenarios <- WasRaceScn
  Timeout = 15
  ShutdownAfterFallback = FALSE
  LastPollCounts = FALSE
VIEW view
INVARIANT TypeOK
INVARIANT NeverShutsDownForeignSystem
INVARIANT RunnableAtMostOnce
INVARIANT RemoteSupportedIffRunning
INVARIANT ShutdownAttemptedIfOwned
INVARIANT AtMostTwoInterruptsTolerated
INVARIANT WaitBounded
INVARIANT OutcomePropagates
INVARIANT ExitStatusTotal
INVARIANT Finishes
CHECK_DEADLOCK FALSE
