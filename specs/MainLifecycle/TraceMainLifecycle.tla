------------------------ MODULE TraceMainLifecycle ------------------------
(***************************************************************************)
(* Validates recorded executions of the REAL with_actor_system / race /    *)
(* dispatch_sub_command / main of esrally/rally.py (scripted fakes for the *)
(* actor module, time.sleep, console and the sub-command functions, see    *)
(* harness/extras/mainlifecycle.py) against MainLifecycle.tla.             *)
(* Input (env VERIF_TRACES): JSON array of items                           *)
(*   [id, scn: [mode, sub, kill, main], init: OBS, events: <<[a, r, x, st: OBS]>>] *)
(* OBS = state record of MainLifecycle.tla without pc, to, sc, pend.       *)
(* L1: the property formulas on the recorded state; L2: the event is       *)
(* enabled in the model and its effect equals the recorded state (code as  *)
(* it is); at the end of the item the model has nothing left to do.        *)
(***************************************************************************)
EXTENDS MainLifecycle, Json, IOUtils

Traces == JsonDeserialize(IOEnv.VERIF_TRACES)

VARIABLES tid, l, nev, dead
tvars == <<vars, tid, l, nev, dead>>
Item == Traces[tid]

ObsOf(st) == [k \in (DOMAIN st) \ Internal |-> st[k]]
WithInternal(o, m) == o @@ [k \in Internal |-> m[k]]
Dummy == [mode |-> "was", sub |-> "", kill |-> FALSE, main |-> FALSE]

TInit == /\ tid = 1 /\ l = 0 /\ nev = 0 /\ dead = FALSE /\ scn = Dummy /\ s = InitState(Dummy) /\ act = E("init", "", "")

Begin ==
    /\ tid <= Len(Traces) /\ l = 0
    /\ LET m == InitState(Item.scn)
           l2 == ObsOf(m) = Item.init
       IN /\ scn' = Item.scn /\ s' = WithInternal(Item.init, m)
          /\ IF l2 THEN TRUE ELSE PrintT(<<"V", Item.id, 0, "L2", {"init"}>>)
          /\ dead' = ~l2
    /\ act' = act /\ l' = 1 /\ UNCHANGED <<tid, nev>>

L1Clauses == {"NeverShutsDownForeignSystem", "RunnableAtMostOnce", "RemoteSupportedIffRunning", "ShutdownAttemptedIfOwned",
              "ShutdownAttemptedIfCreated", "TimeoutWarningTruthful", "AtMostTwoInterruptsTolerated", "WaitBounded", "OutcomePropagates", "ExitStatusTotal"}

Consume ==
    /\ tid <= Len(Traces) /\ l >= 1 /\ l <= Len(Item.events)
    /\ LET e == Item.events[l]
           ev == E(e.a, e.r, e.x)
           m == Eff(s, ev)
           l2 == ev \in Enabled(s) /\ ObsOf(m) = e.st
       IN /\ s' = WithInternal(e.st, m)
          /\ act' = ev
          /\ LET holds == [c \in L1Clauses |->
                   CASE c = "NeverShutsDownForeignSystem" -> NeverShutsDownForeignSystemS(s')
                     [] c = "RunnableAtMostOnce" -> RunnableAtMostOnceS(s')
                     [] c = "RemoteSupportedIffRunning" -> RemoteSupportedIffRunningS(s')
                     [] c = "ShutdownAttemptedIfOwned" -> ShutdownAttemptedIfOwnedS(s')
                     [] c = "ShutdownAttemptedIfCreated" -> ShutdownAttemptedIfCreatedS(s')
                     [] c = "AtMostTwoInterruptsTolerated" -> AtMostTwoInterruptsToleratedS(s')
                     [] c = "WaitBounded" -> WaitBoundedS(s')
                     [] c = "TimeoutWarningTruthful" -> TimeoutWarningTruthfulS(s')
                     [] c = "OutcomePropagates" -> OutcomePropagatesS(s')
                     [] c = "ExitStatusTotal" -> ExitStatusTotalS(s')]
                 l1 == {c \in L1Clauses : ~holds[c]}
             IN /\ IF l1 = {} THEN TRUE ELSE PrintT(<<"V", Item.id, l, "L1", l1>>)
                /\ IF dead \/ l2 THEN TRUE ELSE PrintT(<<"V", Item.id, l, "L2", {e.a}>>)
          /\ dead' = (dead \/ ~l2)
    /\ l' = l + 1 /\ nev' = nev + 1
    /\ UNCHANGED <<scn, tid>>

EndOfRun ==
    /\ tid <= Len(Traces) /\ l = Len(Item.events) + 1
    /\ IF dead \/ s.pc = "done" THEN TRUE ELSE PrintT(<<"V", Item.id, l, "L2", {"end"}>>)
    /\ IF tid < Len(Traces) THEN TRUE ELSE PrintT(<<"DONE", Len(Traces), nev>>)
    /\ tid' = tid + 1 /\ l' = 0 /\ dead' = FALSE
    /\ UNCHANGED <<vars, nev>>

TNext == Begin \/ Consume \/ EndOfRun
TSpec == TInit /\ [][TNext]_tvars
=============================================================================
