SPECIFICATION TSpec
CONSTANTS
  Scenarios = {}
  Timeout = 15
  ShutdownAfterFallback = TRUE
  LastPollCounts = TRUE
CHECK_DEADLOCK FALSE
