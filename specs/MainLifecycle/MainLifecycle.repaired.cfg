SPECIFICATION Spec
CONSTANTS
  Scenarios <- AllScn
  Timeout = 3
  ShutdownAfterFallback = TRUE
  LastPollCounts = TRUE
VIEW view
INVARIANT TypeOK
INVARIANT NeverShutsDownForeignSystem
INVARIANT RunnableAtMostOnce
INVARIANT RemoteSupportedIffRunning
INVARIANT ShutdownAttemptedIfOwned
INVARIANT ShutdownAttemptedIfCreated
INVARIANT TimeoutWarningTruthful
INVARIANT AtMostTwoInterruptsTolerated
INVARIANT WaitBounded
INVARIANT OutcomePropagates
INVARIANT ExitStatusTotal
INVARIANT Finishes
CHECK_DEADLOCK FALSE
