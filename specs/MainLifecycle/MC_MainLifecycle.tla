---- MODULE MC_MainLifecycle ----
EXTENDS MainLifecycle
Sc(mode, sub, kill, main) == [mode |-> mode, sub |-> sub, kill |-> kill, main |-> main]
WasScn == {Sc("was", "", FALSE, FALSE)}
RaceScn == {Sc("race", "race", k, m) : k \in BOOLEAN, m \in BOOLEAN}
SubScn == {Sc("sub", c, FALSE, m) : c \in SubCommands, m \in BOOLEAN} \ {Sc("sub", "unknown", FALSE, TRUE)}
WasRaceScn == WasScn \cup RaceScn
AllScn == WasScn \cup RaceScn \cup SubScn
====
