SPECIFICATION Spec
CONSTANTS
  Scenarios <- WasScn
  Timeout = 15
  ShutdownAfterFallback = FALSE
  LastPollCounts = FALSE
VIEW view
INVARIANT ShutdownAttemptedIfCreated
CHECK_DEADLOCK FALSE
